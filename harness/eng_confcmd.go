package main

// Engine "confcmd" (C18): the real COMMANDS.  cmd/frpc and cmd/frps are built once per harness process from the tree
// under check (VERIF_REPO, default /repo) into <dir of the harness binary>/c18bin/ and run as child processes.
//
//	xc <sub> <fmt> C.<field>=v … P.<field>=v …    => <obs flags> // <obs file> // verify=ok|rej
//	    sub = p:<proxy type> | v:<visitor type>.  ONE logical definition — the client common settings that have a
//	    flag (C.) and one proxy / visitor (P.) — reaches frpc twice: as `frpc <type> [visitor] --flag=value …` (the
//	    commands registered by init() of cmd/frpc/sub) and as `frpc -c file.<fmt>`; `frpc verify -c file` judges the file.
//	    Both processes talk to the same surroundings and what they DO is observed:
//	      two fronts (port 1 / 2), each listening on 127.0.0.1 and 127.0.0.2, tcp and udp: which address and port the
//	        client dialled (addr, port), what it spoke first (wire = mux | tls>mux | ws>mux | ws>tls | tls>ws | kcp | quic;
//	        an outer TLS session is terminated by the front, so its inside is seen too), the server name it asked for (sni)
//	      a real frps (server.NewService, in process) behind the fronts with an HTTP server plugin for Login and NewProxy:
//	        the user and which token of the pool the login key was made with (user, tok), whether the login passed
//	        (login), the complete NewProxy message (np)
//	      the process itself: log lines of level info present (I), coloured console output (color), the log file
//	        (logto), a visitor's bind port accepting connections (vbound), a refusal before any connection (rej = tags)
//	    Symbolic values: C.ServerPort=i1|i2 = front 1|2; P.BindPort=i1|i2 = two free ports; C.Log.To=s"@file" = a
//	    fresh file per process; C.Transport.TLS.Enable = s"true" | s"false".
//	xs <fmt> k=v …                                => <obs flags> // <obs file> // verify=ok|rej
//	    one server definition as `frps --flag=value …` and as `frps -c file.<fmt>`; observed on the running process:
//	    /api/serverinfo of its dashboard (si.*), on which loopback addresses the bind port and the dashboard answer
//	    (bind, dash), dashboard TLS, basic auth with the configured / with other credentials (dtls, dauth, dother),
//	    /metrics (prom), log level / colour / file (I, color, logto), and three real frpc runs against it: configured
//	    token with TLS (login1, then a tcp proxy on port 8: pstart, and where its listener answers: pbind), configured
//	    token without TLS (login0), another token (loginw); a refusal before listening (rej = tags).
//	    Symbolic values: ports i1…i9 = nine consecutive free ports; "@cert" / "@key" = a generated pair; "@8" inside
//	    AllowPorts = symbolic port 8.

import (
	"bufio"
	"bytes"
	"context"
	"crypto/ecdsa"
	"crypto/elliptic"
	crand "crypto/rand"
	"crypto/sha1"
	"crypto/tls"
	"crypto/x509"
	"crypto/x509/pkix"
	"encoding/hex"
	"encoding/json"
	"encoding/pem"
	"fmt"
	"hash/crc32"
	"io"
	"math/big"
	"math/rand"
	"net"
	"net/http"
	"os"
	"os/exec"
	"path/filepath"
	"reflect"
	"sort"
	"strconv"
	"strings"
	"sync"
	"syscall"
	"time"

	v1 "github.com/fatedier/frp/pkg/config/v1"
	"github.com/fatedier/frp/pkg/transport"
	frplog "github.com/fatedier/frp/pkg/util/log"
	"github.com/fatedier/frp/pkg/util/util"
	"github.com/fatedier/frp/server"
)

var cmdTokens = []string{"", "tk-α1", "other-token"} // index 1 is what the in-process frps expects

// ---------------------------------------------------------------- the two binaries

var cmdBin struct {
	once       sync.Once
	frpc, frps string
	err        error
}

func cmdRepo() string {
	if r := os.Getenv("VERIF_REPO"); r != "" {
		return r
	}
	return "/repo"
}

func cmdBins() (string, string) {
	cmdBin.once.Do(func() {
		exe, err := os.Executable()
		if err != nil {
			cmdBin.err = err
			return
		}
		repo, _ := filepath.EvalSymlinks(cmdRepo())
		sum := sha1.Sum([]byte(repo))
		dir := filepath.Join(filepath.Dir(exe), "c18bin", hex.EncodeToString(sum[:4]))
		if err := os.MkdirAll(dir, 0o755); err != nil {
			cmdBin.err = err
			return
		}
		c := exec.Command("go", "build", "-o", dir+string(os.PathSeparator), "./cmd/frpc", "./cmd/frps")
		c.Dir = repo
		env := os.Environ()
		have := func(k string) bool { return os.Getenv(k) != "" }
		for k, v := range map[string]string{"GOFLAGS": "-mod=mod", "GOPROXY": "off", "GOSUMDB": "off", "GOTOOLCHAIN": "local", "CGO_ENABLED": "0"} {
			if !have(k) {
				env = append(env, k+"="+v)
			}
		}
		c.Env = env
		if out, err := c.CombinedOutput(); err != nil {
			cmdBin.err = fmt.Errorf("go build ./cmd/frpc ./cmd/frps in %s: %v: %s", repo, err, out)
			return
		}
		cmdBin.frpc, cmdBin.frps = filepath.Join(dir, "frpc"), filepath.Join(dir, "frps")
	})
	if cmdBin.err != nil {
		panic(cmdBin.err)
	}
	return cmdBin.frpc, cmdBin.frps
}

// ---------------------------------------------------------------- the surroundings of a frpc run

type cmdEnvT struct {
	mu      sync.Mutex
	bind    int // in-process frps: tcp
	kcp     int
	quic    int
	tlsCfg  *tls.Config
	byAddr  map[string]*cmdRun // upstream local address → run
	byID    map[string]*cmdRun
	current *cmdRun
	seq     int
	tmp     string
	cert    string
	key     string
}

var cmdEnv *cmdEnvT
var cmdEnvOnce sync.Once

var cmdLoopback = []string{"127.0.0.1", "127.0.0.2"}

func cmdFreeBase(n int) int {
	for tries := 0; tries < 400; tries++ {
		b := 12000 + rand.Intn(19000) // below the kernel's ephemeral range
		ok := true
		for i := 0; i <= n && ok; i++ {
			for _, a := range cmdLoopback {
				l, err := net.Listen("tcp", net.JoinHostPort(a, strconv.Itoa(b+i)))
				if err != nil {
					ok = false
					break
				}
				l.Close()
				ua, _ := net.ResolveUDPAddr("udp", net.JoinHostPort(a, strconv.Itoa(b+i)))
				u, err := net.ListenUDP("udp", ua)
				if err != nil {
					ok = false
					break
				}
				u.Close()
			}
		}
		if ok {
			return b
		}
	}
	panic("no free port block")
}

func cmdWriteCert(dir string) (string, string) {
	priv, err := ecdsa.GenerateKey(elliptic.P256(), crand.Reader)
	if err != nil {
		panic(err)
	}
	tpl := &x509.Certificate{SerialNumber: big.NewInt(1), Subject: pkix.Name{CommonName: "verif"},
		NotBefore: time.Now().Add(-time.Hour), NotAfter: time.Now().Add(24 * time.Hour),
		KeyUsage: x509.KeyUsageDigitalSignature, ExtKeyUsage: []x509.ExtKeyUsage{x509.ExtKeyUsageServerAuth},
		IPAddresses: []net.IP{net.IPv4(127, 0, 0, 1)}}
	der, err := x509.CreateCertificate(crand.Reader, tpl, tpl, &priv.PublicKey, priv)
	if err != nil {
		panic(err)
	}
	kb, _ := x509.MarshalECPrivateKey(priv)
	cp, kp := filepath.Join(dir, "dash.crt"), filepath.Join(dir, "dash.key")
	_ = os.WriteFile(cp, pem.EncodeToMemory(&pem.Block{Type: "CERTIFICATE", Bytes: der}), 0o644)
	_ = os.WriteFile(kp, pem.EncodeToMemory(&pem.Block{Type: "EC PRIVATE KEY", Bytes: kb}), 0o600)
	return cp, kp
}

func cmdEnvGet() *cmdEnvT {
	cmdEnvOnce.Do(func() {
		frplog.InitLogger(os.DevNull, "error", 0, true)
		e := &cmdEnvT{byAddr: map[string]*cmdRun{}, byID: map[string]*cmdRun{}}
		d, err := os.MkdirTemp("", "frpverif-cmd-")
		if err != nil {
			panic(err)
		}
		e.tmp = d
		e.cert, e.key = cmdWriteCert(d)
		tc, err := transport.NewServerTLSConfig("", "", "")
		if err != nil {
			panic(err)
		}
		e.tlsCfg = tc
		// the plugin end point
		pl, err := net.Listen("tcp", "127.0.0.1:0")
		if err != nil {
			panic(err)
		}
		mux := http.NewServeMux()
		mux.HandleFunc("/h", e.plugin)
		go func() { _ = http.Serve(pl, mux) }()
		base := cmdFreeBase(6)
		e.bind, e.kcp, e.quic = base, base+1, base+2
		cfg := &v1.ServerConfig{BindAddr: "127.0.0.1", BindPort: e.bind, KCPBindPort: e.kcp, QUICBindPort: e.quic,
			VhostHTTPPort: base + 3, VhostHTTPSPort: base + 4, TCPMuxHTTPConnectPort: base + 5, SubDomainHost: "frp.test"}
		cfg.Auth.Token = cmdTokens[1]
		cfg.HTTPPlugins = []v1.HTTPPluginOptions{{Name: "verif", Addr: pl.Addr().String(), Path: "/h", Ops: []string{"Login", "NewProxy"}}}
		cfg.Complete()
		svr, err := server.NewService(cfg)
		if err != nil {
			panic(err)
		}
		go svr.Run(context.Background())
		cmdEnv = e
	})
	return cmdEnv
}

type cmdRun struct {
	env      *cmdEnvT
	id       string
	mu       sync.Mutex
	ports    [2]int // front 1, front 2
	closers  []io.Closer
	addr     string // what the client dialled first
	port     int
	wire     string
	sni      string
	sawConn  bool
	user     string
	tok      int
	gotLogin bool
	np       string
	done     chan struct{} // closed on NewProxy (proxy commands) / when asked by the visitor probe
	doneOnce sync.Once
	loginCh  chan struct{}
	loginOnce sync.Once
}

func (r *cmdRun) finish()     { r.doneOnce.Do(func() { close(r.done) }) }
func (r *cmdRun) loginSeen()  { r.loginOnce.Do(func() { close(r.loginCh) }) }

func (r *cmdRun) note(addr string, idx int, wire, sni string) {
	r.mu.Lock()
	defer r.mu.Unlock()
	if r.sawConn {
		return
	}
	r.sawConn, r.addr, r.port, r.wire, r.sni = true, addr, idx, wire, sni
}

func (r *cmdRun) setWire(wire, sni string) {
	r.mu.Lock()
	defer r.mu.Unlock()
	r.wire = wire
	if sni != "" {
		r.sni = sni
	}
}

// plugin: the HTTP server plugin of the in-process frps
func (e *cmdEnvT) plugin(w http.ResponseWriter, req *http.Request) {
	dec := json.NewDecoder(req.Body)
	dec.UseNumber()
	var body struct {
		Op      string         `json:"op"`
		Content map[string]any `json:"content"`
	}
	_ = dec.Decode(&body)
	reply := map[string]any{"reject": false, "unchange": true}
	switch body.Op {
	case "Login":
		addr, _ := body.Content["client_address"].(string)
		e.mu.Lock()
		r := e.byAddr[addr]
		if r == nil {
			r = e.current
		}
		e.mu.Unlock()
		if r != nil {
			user, _ := body.Content["user"].(string)
			key, _ := body.Content["privilege_key"].(string)
			var ts int64
			if n, ok := body.Content["timestamp"].(json.Number); ok {
				ts, _ = n.Int64()
			}
			tok := -1
			for i, t := range cmdTokens {
				if util.GetAuthKey(t, ts) == key {
					tok = i
					break
				}
			}
			r.mu.Lock()
			r.user, r.tok, r.gotLogin = user, tok, true
			r.mu.Unlock()
			body.Content["run_id"] = r.id
			reply = map[string]any{"reject": false, "unchange": false, "content": body.Content}
			r.loginSeen()
		}
	case "NewProxy":
		u, _ := body.Content["user"].(map[string]any)
		id, _ := u["run_id"].(string)
		e.mu.Lock()
		r := e.byID[id]
		e.mu.Unlock()
		if r != nil {
			delete(body.Content, "user")
			b, _ := json.Marshal(body.Content) // keys sorted
			r.mu.Lock()
			if r.np == "" {
				r.np = string(b)
			}
			r.mu.Unlock()
			r.finish()
		}
	}
	w.Header().Set("Content-Type", "application/json")
	_ = json.NewEncoder(w).Encode(reply)
}

func (e *cmdEnvT) bindUpstream(local string, r *cmdRun) {
	e.mu.Lock()
	e.byAddr[local] = r
	e.mu.Unlock()
}

// passive parse of a TLS ClientHello: the server_name extension
func cmdSNI(b []byte) string {
	if len(b) < 5 || b[0] != 0x16 {
		return ""
	}
	b = b[5:]
	if len(b) < 4 || b[0] != 0x01 {
		return ""
	}
	b = b[4:]
	if len(b) < 34 {
		return ""
	}
	b = b[34:]
	skip := func(n int) bool {
		if len(b) < n {
			return false
		}
		b = b[n:]
		return true
	}
	if len(b) < 1 || !skip(1+int(b[0])) {
		return ""
	}
	if len(b) < 2 || !skip(2+(int(b[0])<<8|int(b[1]))) {
		return ""
	}
	if len(b) < 1 || !skip(1+int(b[0])) {
		return ""
	}
	if len(b) < 2 {
		return ""
	}
	b = b[2:]
	for len(b) >= 4 {
		typ, n := int(b[0])<<8|int(b[1]), int(b[2])<<8|int(b[3])
		b = b[4:]
		if len(b) < n {
			return ""
		}
		if typ == 0 && n >= 5 {
			l := int(b[3])<<8 | int(b[4])
			if 5+l <= n {
				return string(b[5 : 5+l])
			}
		}
		b = b[n:]
	}
	return ""
}

type cmdPeekConn struct {
	net.Conn
	r io.Reader
}

func (c *cmdPeekConn) Read(p []byte) (int, error) { return c.r.Read(p) }

func cmdPipe(a io.ReadWriteCloser, ar io.Reader, b net.Conn) {
	go func() { _, _ = io.Copy(b, ar); b.Close(); a.Close() }()
	_, _ = io.Copy(a, b)
	a.Close()
	b.Close()
}

// wsSniff: client→server bytes of a websocket session; reports the first payload byte / the SNI of a ClientHello
// carried by the first frame
type cmdWSSniff struct {
	buf  []byte
	done bool
	run  *cmdRun
}

func (s *cmdWSSniff) feed(p []byte) {
	if s.done {
		return
	}
	s.buf = append(s.buf, p...)
	i := bytes.Index(s.buf, []byte("\r\n\r\n"))
	if i < 0 {
		if len(s.buf) > 1<<16 {
			s.done = true
		}
		return
	}
	f := s.buf[i+4:]
	if len(f) < 2 {
		return
	}
	n, off := int(f[1]&0x7f), 2
	switch n {
	case 126:
		if len(f) < 4 {
			return
		}
		n, off = int(f[2])<<8|int(f[3]), 4
	case 127:
		if len(f) < 10 {
			return
		}
		n, off = int(f[8])<<8|int(f[9]), 10
	}
	masked := f[1]&0x80 != 0
	var mask []byte
	if masked {
		if len(f) < off+4 {
			return
		}
		mask, off = f[off:off+4], off+4
	}
	if len(f) < off+n || n == 0 {
		if len(f) < off+1 {
			return
		}
	}
	end := off + n
	if end > len(f) {
		end = len(f)
	}
	pl := append([]byte{}, f[off:end]...)
	if masked {
		for k := range pl {
			pl[k] ^= mask[k%4]
		}
	}
	if len(pl) == 0 {
		return
	}
	if pl[0] == 0x16 {
		if len(f) < off+n { // wait for the whole frame: the server name is further in
			return
		}
		s.run.setWire("ws>tls", cmdSNI(pl))
	} else {
		s.run.setWire("ws>mux", "")
	}
	s.done = true
}

type cmdSniffReader struct {
	r io.Reader
	s *cmdWSSniff
}

func (x *cmdSniffReader) Read(p []byte) (int, error) {
	n, err := x.r.Read(p)
	if n > 0 {
		x.s.feed(p[:n])
	}
	return n, err
}

func (r *cmdRun) serveTCP(c net.Conn, idx int, addr string) {
	defer c.Close()
	_ = c.SetReadDeadline(time.Now().Add(3 * time.Second))
	br := bufio.NewReader(c)
	b, err := br.Peek(1)
	if err != nil {
		r.note(addr, idx, "silent", "")
		return
	}
	dial := func() net.Conn {
		up, err := net.DialTimeout("tcp", net.JoinHostPort("127.0.0.1", strconv.Itoa(r.env.bind)), 2*time.Second)
		if err != nil {
			return nil
		}
		r.env.bindUpstream(up.LocalAddr().String(), r)
		return up
	}
	switch {
	case b[0] == 0x16:
		sni := ""
		cfg := r.env.tlsCfg.Clone()
		cfg.GetConfigForClient = func(chi *tls.ClientHelloInfo) (*tls.Config, error) { sni = chi.ServerName; return nil, nil }
		tc := tls.Server(&cmdPeekConn{c, br}, cfg)
		if err := tc.Handshake(); err != nil {
			r.note(addr, idx, "tls>?", sni)
			return
		}
		ir := bufio.NewReader(tc)
		ib, err := ir.Peek(1)
		wire := "tls>mux"
		if err != nil {
			wire = "tls>?"
		} else if ib[0] == 'G' {
			wire = "tls>ws"
		}
		r.note(addr, idx, wire, sni)
		_ = c.SetReadDeadline(time.Time{})
		if up := dial(); up != nil {
			cmdPipe(tc, ir, up)
		}
	case b[0] == 'G':
		r.note(addr, idx, "ws>?", "")
		_ = c.SetReadDeadline(time.Time{})
		if up := dial(); up != nil {
			cmdPipe(c, &cmdSniffReader{br, &cmdWSSniff{run: r}}, up)
		}
	default:
		wire := "mux"
		if b[0] != 0x00 {
			wire = "other:" + strconv.Itoa(int(b[0]))
		}
		r.note(addr, idx, wire, "")
		_ = c.SetReadDeadline(time.Time{})
		if up := dial(); up != nil {
			cmdPipe(c, br, up)
		}
	}
}

func (r *cmdRun) serveUDP(u *net.UDPConn, idx int, addr string) {
	buf := make([]byte, 65536)
	var up *net.UDPConn
	var client *net.UDPAddr
	for {
		n, from, err := u.ReadFromUDP(buf)
		if err != nil {
			if up != nil {
				up.Close()
			}
			return
		}
		if up == nil {
			wire, port := "kcp", r.env.kcp
			if n > 0 && buf[0]&0xc0 == 0xc0 && n >= 1000 {
				wire, port = "quic", r.env.quic
			}
			r.note(addr, idx, wire, "")
			c, err := net.DialUDP("udp", nil, &net.UDPAddr{IP: net.IPv4(127, 0, 0, 1), Port: port})
			if err != nil {
				return
			}
			up, client = c, from
			r.env.bindUpstream(up.LocalAddr().String(), r)
			go func() {
				b2 := make([]byte, 65536)
				for {
					m, err := up.Read(b2)
					if err != nil {
						return
					}
					_, _ = u.WriteToUDP(b2[:m], client)
				}
			}()
		}
		_, _ = up.Write(buf[:n])
	}
}

func (e *cmdEnvT) newRun() *cmdRun {
	e.mu.Lock()
	e.seq++
	r := &cmdRun{env: e, id: "verif" + strconv.Itoa(e.seq), done: make(chan struct{}), loginCh: make(chan struct{}), tok: -1}
	e.byID[r.id] = r
	e.current = r
	e.mu.Unlock()
	base := cmdFreeBase(2)
	for i := 0; i < 2; i++ {
		r.ports[i] = base + i
		for _, a := range cmdLoopback {
			a, idx := a, i+1
			l, err := net.Listen("tcp", net.JoinHostPort(a, strconv.Itoa(base+i)))
			if err != nil {
				panic(err)
			}
			r.closers = append(r.closers, l)
			go func() {
				for {
					c, err := l.Accept()
					if err != nil {
						return
					}
					go r.serveTCP(c, idx, a)
				}
			}()
			ua, _ := net.ResolveUDPAddr("udp", net.JoinHostPort(a, strconv.Itoa(base+i)))
			u, err := net.ListenUDP("udp", ua)
			if err != nil {
				panic(err)
			}
			r.closers = append(r.closers, u)
			go r.serveUDP(u, idx, a)
		}
	}
	return r
}

func (r *cmdRun) close() {
	for _, c := range r.closers {
		c.Close()
	}
	r.env.mu.Lock()
	if r.env.current == r {
		r.env.current = nil
	}
	r.env.mu.Unlock()
}

// ---------------------------------------------------------------- child processes

type cmdOut struct {
	mu sync.Mutex
	b  bytes.Buffer
}

func (o *cmdOut) Write(p []byte) (int, error) {
	o.mu.Lock()
	defer o.mu.Unlock()
	return o.b.Write(p)
}

func (o *cmdOut) String() string {
	o.mu.Lock()
	defer o.mu.Unlock()
	return o.b.String()
}

type cmdProc struct {
	cmd    *exec.Cmd
	out    *cmdOut
	exited chan struct{}
	rc     int
}

func cmdStart(bin, dir string, args []string) *cmdProc {
	p := &cmdProc{out: &cmdOut{}, exited: make(chan struct{})}
	// own process group, and a lifetime limit that holds even if the harness itself is killed
	if to, err := exec.LookPath("timeout"); err == nil {
		p.cmd = exec.Command(to, append([]string{"-s", "KILL", "60", bin}, args...)...)
	} else {
		p.cmd = exec.Command(bin, args...)
	}
	p.cmd.SysProcAttr = &syscall.SysProcAttr{Setpgid: true}
	p.cmd.Dir = dir
	p.cmd.Stdout, p.cmd.Stderr = p.out, p.out
	p.cmd.Env = append(os.Environ(), "http_proxy=", "HTTP_PROXY=")
	if err := p.cmd.Start(); err != nil {
		panic(err)
	}
	go func() {
		err := p.cmd.Wait()
		p.rc = 0
		if err != nil {
			p.rc = 1
			if ee, ok := err.(*exec.ExitError); ok && ee.ExitCode() >= 0 {
				p.rc = ee.ExitCode()
			}
		}
		close(p.exited)
	}()
	return p
}

func (p *cmdProc) kill() {
	select {
	case <-p.exited:
	default:
		_ = syscall.Kill(-p.cmd.Process.Pid, syscall.SIGKILL)
		_ = p.cmd.Process.Kill()
		<-p.exited
	}
}

func (p *cmdProc) hasExited() bool {
	select {
	case <-p.exited:
		return true
	default:
		return false
	}
}

// waitOutput: until the output contains one of the markers, the process exits, or the time is up
func (p *cmdProc) waitOutput(limit time.Duration, markers ...string) string {
	deadline := time.Now().Add(limit)
	for {
		s := p.out.String()
		for _, m := range markers {
			if strings.Contains(s, m) {
				return m
			}
		}
		if p.hasExited() || time.Now().After(deadline) {
			s = p.out.String()
			for _, m := range markers {
				if strings.Contains(s, m) {
					return m
				}
			}
			return ""
		}
		time.Sleep(5 * time.Millisecond)
	}
}

func cmdDialOK(addr string, port int, limit time.Duration) bool {
	deadline := time.Now().Add(limit)
	for {
		c, err := net.DialTimeout("tcp", net.JoinHostPort(addr, strconv.Itoa(port)), 300*time.Millisecond)
		if err == nil {
			c.Close()
			return true
		}
		if time.Now().After(deadline) {
			return false
		}
		time.Sleep(10 * time.Millisecond)
	}
}

// rejTags: a refusal printed by the command before it did anything (validation errors, one per line)
func cmdRejTags(out string) string {
	tags := []string{}
	for _, line := range strings.Split(out, "\n") {
		line = strings.TrimSpace(line)
		if line == "" || strings.HasPrefix(line, "WARNING") || strings.Contains(line, "] [") {
			continue
		}
		if i := strings.Index(line, ": port number "); i >= 0 {
			f := line[:i]
			if j := strings.LastIndex(f, " "); j >= 0 {
				f = f[j+1:]
			}
			tags = append(tags, "port:"+f)
			continue
		}
		tags = append(tags, commonErrTags(fmt.Errorf("%s", line)))
	}
	if len(tags) == 0 {
		return "none"
	}
	return strings.Join(tags, ",")
}

func cmdLogObs(obs map[string]string, out, logPath string) {
	text := out
	if logPath != "" {
		b, err := os.ReadFile(logPath)
		if err == nil && len(b) > 0 {
			obs["logto"] = encS("file")
			text = string(b)
		} else {
			obs["logto"] = encS("nofile")
		}
	} else {
		obs["logto"] = encS("console")
	}
	if strings.Contains(text, " [I] ") {
		obs["I"] = "b1"
	}
	if strings.Contains(out, "\x1b[") {
		obs["color"] = "b1"
	}
}

func cmdRenderObs(obs map[string]string) string {
	keys := []string{}
	for k, v := range obs {
		if v != "z" && v != "" {
			keys = append(keys, k)
		}
	}
	sort.Strings(keys)
	out := []string{}
	for _, k := range keys {
		out = append(out, k+"="+obs[k])
	}
	if len(out) == 0 {
		return "none=b1"
	}
	return strings.Join(out, " ")
}

// ---------------------------------------------------------------- xc

type cmdDef struct {
	ckeys, cvals []string
	pkeys, pvals []string
}

func cmdSplitDef(toks []string) cmdDef {
	d := cmdDef{}
	keys, vals := splitKV(toks)
	for i, k := range keys {
		switch {
		case strings.HasPrefix(k, "C."):
			d.ckeys, d.cvals = append(d.ckeys, k[2:]), append(d.cvals, vals[i])
		case strings.HasPrefix(k, "P."):
			d.pkeys, d.pvals = append(d.pkeys, k[2:]), append(d.pvals, vals[i])
		default:
			panic("definition key " + k)
		}
	}
	return d
}

var cmdClientFlagOf = map[string]string{"ServerAddr": "server_addr", "ServerPort": "server_port", "User": "user",
	"Auth.Token": "token", "Transport.Protocol": "protocol", "Transport.TLS.Enable": "tls_enable",
	"Transport.TLS.ServerName": "tls_server_name", "Log.To": "log_file", "Log.Level": "log_level", "Log.MaxDays": "log_max_days",
	"Log.DisablePrintColor": "disable_log_color", "DNSServer": "dns_server"}

// resolve a symbolic value of the definition for one process
func (r *cmdRun) clientValue(key, enc, logPath string, vports [2]int, visitor bool) any {
	v := docValue(enc)
	switch key {
	case "C.ServerPort":
		if n, ok := v.(int); ok && (n == 1 || n == 2) {
			return r.ports[n-1]
		}
	case "C.Log.To":
		if s, ok := v.(string); ok && s == "@file" {
			return logPath
		}
	case "C.Transport.TLS.Enable":
		if s, ok := v.(string); ok {
			return s == "true"
		}
	case "P.BindPort":
		if n, ok := v.(int); ok && visitor && (n == 1 || n == 2) {
			return vports[n-1]
		}
	}
	return v
}

func cmdFlagText(v any) (string, bool) {
	switch x := v.(type) {
	case string:
		return x, true
	case bool:
		return strconv.FormatBool(x), true
	case int:
		return strconv.Itoa(x), true
	case []string:
		for _, s := range x {
			if !csvSafe(s) {
				return "", false
			}
		}
		return strings.Join(x, ","), true
	case map[string]string:
		keys := []string{}
		for k := range x {
			keys = append(keys, k)
		}
		sort.Strings(keys)
		parts := []string{}
		for _, k := range keys {
			parts = append(parts, k+"="+x[k])
		}
		return strings.Join(parts, ","), true
	}
	return "", false
}

// one frpc process against fresh fronts; build(r) gives its argv once the fronts exist
func cmdFrpcRun(sub string, usesLogFile bool, build func(r *cmdRun, logPath string, vports [2]int) []string) map[string]string {
	frpc, _ := cmdBins()
	e := cmdEnvGet()
	r := e.newRun()
	defer r.close()
	visitor := sub[0] == 'v'
	t := sub[2:]
	var vports [2]int
	if visitor {
		b := cmdFreeBase(2)
		vports = [2]int{b, b + 1}
	}
	dir, _ := os.MkdirTemp(e.tmp, "run-")
	defer os.RemoveAll(dir)
	logPath := ""
	if usesLogFile {
		logPath = filepath.Join(dir, "frpc.log")
	}
	args := build(r, logPath, vports)
	p := cmdStart(frpc, dir, args)
	defer p.kill()
	obs := map[string]string{}
	limit := time.After(4 * time.Second)
	select {
	case <-p.exited:
	case <-r.done:
	case <-r.loginCh:
		if visitor {
			// the visitor listens once the login passed (a refused login ends the process)
			deadline := time.Now().Add(1500 * time.Millisecond)
			for obs["vbound"] == "" && time.Now().Before(deadline) && !p.hasExited() {
				for _, a := range cmdLoopback {
					for i, vp := range vports {
						if obs["vbound"] == "" && cmdBound(t == "sudp", a, vp) {
							obs["vbound"] = encS(a + "#" + strconv.Itoa(i+1))
						}
					}
				}
				if obs["vbound"] == "" {
					time.Sleep(10 * time.Millisecond)
				}
			}
		} else {
			select {
			case <-r.done:
			case <-p.exited:
			case <-limit:
				obs["timeout"] = "b1"
			}
		}
	case <-limit:
		obs["timeout"] = "b1"
	}
	exited := p.hasExited()
	p.kill()
	out := p.out.String()
	r.mu.Lock()
	saw, addr, port, wire, sni := r.sawConn, r.addr, r.port, r.wire, r.sni
	gotLogin, user, tok, np := r.gotLogin, r.user, r.tok, r.np
	r.mu.Unlock()
	if !saw {
		if exited {
			obs = map[string]string{"rej": encS(cmdRejTags(out))}
			return obs
		}
		obs["noconn"] = "b1"
	} else {
		obs["addr"], obs["port"], obs["wire"], obs["sni"] = encS(addr), encI(int64(port)), encS(wire), encS(sni)
	}
	if gotLogin {
		obs["user"], obs["tok"] = encS(user), "i"+strconv.Itoa(tok)
		switch {
		case np != "" || obs["vbound"] != "" || strings.Contains(out+cmdReadFile(logPath), "login to server success"):
			obs["login"] = encS("ok")
		default:
			obs["login"] = encS("no")
		}
	}
	if np != "" {
		// the NewProxy message, field by field
		var m map[string]any
		_ = json.Unmarshal([]byte(np), &m)
		for k, v := range m {
			obs["np."+k] = cmdEncJSON(v)
		}
	}
	cmdLogObs(obs, out, logPath)
	return obs
}

// cmdBound: something listens on addr:port (tcp: it accepts; udp: a second bind is refused)
func cmdBound(udp bool, addr string, port int) bool {
	if !udp {
		return cmdDialOK(addr, port, 0)
	}
	ua, _ := net.ResolveUDPAddr("udp", net.JoinHostPort(addr, strconv.Itoa(port)))
	u, err := net.ListenUDP("udp", ua)
	if err != nil {
		return true
	}
	u.Close()
	return false
}

// cmdEncJSON: a JSON value of a message in the k=v value encoding
func cmdEncJSON(v any) string {
	switch x := v.(type) {
	case string:
		return encS(x)
	case float64:
		return encI(int64(x))
	case bool:
		if x {
			return "b1"
		}
		return "z"
	case []any:
		parts := []string{}
		for _, e := range x {
			s, _ := e.(string)
			parts = append(parts, hx(s)[1:])
		}
		return "L" + strconv.Itoa(len(parts)) + ":" + strings.Join(parts, ",")
	case map[string]any:
		keys := []string{}
		for k := range x {
			keys = append(keys, k)
		}
		sort.Strings(keys)
		parts := []string{}
		for _, k := range keys {
			s, _ := x[k].(string)
			parts = append(parts, hx(k)[1:]+"~"+hx(s)[1:])
		}
		return "M" + strconv.Itoa(len(parts)) + ":" + strings.Join(parts, ",")
	}
	return "z"
}

func cmdReadFile(p string) string {
	if p == "" {
		return ""
	}
	b, _ := os.ReadFile(p)
	return string(b)
}

func cmdRng(tok []string) *rand.Rand {
	return rand.New(rand.NewSource(int64(crc32.ChecksumIEEE([]byte(strings.Join(tok, " "))))))
}

func cmdHasLogFile(d cmdDef) bool {
	for i, k := range d.ckeys {
		if k == "Log.To" {
			s, _ := docValue(d.cvals[i]).(string)
			return s == "@file"
		}
	}
	return false
}

func confcmdXC(tok []string) string {
	sub, format := tok[1], tok[2]
	d := cmdSplitDef(tok[3:])
	t := sub[2:]
	visitor := sub[0] == 'v'
	rng := cmdRng(tok)
	usesLog := cmdHasLogFile(d)

	// --- the flags
	flagObs := cmdFrpcRun(sub, usesLog, func(r *cmdRun, logPath string, vports [2]int) []string {
		common, own := []string{}, []string{}
		for i, k := range d.ckeys {
			v := r.clientValue("C."+k, d.cvals[i], logPath, vports, visitor)
			if v == nil {
				continue
			}
			txt, ok := cmdFlagText(v)
			if !ok {
				panic("no flag text for C." + k)
			}
			common = append(common, "--"+respell(rng, cmdClientFlagOf[k])+"="+txt)
		}
		for i, k := range d.pkeys {
			v := r.clientValue("P."+k, d.pvals[i], logPath, vports, visitor)
			if v == nil {
				continue
			}
			name := proxyFlagOf[k]
			if visitor {
				name = visitorFlagOf[k]
			}
			if name == "" {
				panic("no flag for P." + k)
			}
			txt, ok := cmdFlagText(v)
			if !ok {
				panic("no flag text for P." + k)
			}
			own = append(own, "--"+respell(rng, name)+"="+txt)
		}
		rng.Shuffle(len(common), func(i, j int) { common[i], common[j] = common[j], common[i] })
		args := []string{t}
		if visitor {
			// the common flags are persistent flags of the parent: before or after the word `visitor`
			k := rng.Intn(len(common) + 1)
			args = append(args, common[:k]...)
			args = append(args, "visitor")
			args = append(args, common[k:]...)
			args = append(args, own...)
		} else {
			all := append(common, own...)
			rng.Shuffle(len(all), func(i, j int) { all[i], all[j] = all[j], all[i] })
			args = append(args, all...)
		}
		return args
	})

	// --- the file
	mkDoc := func(r *cmdRun, logPath string, vports [2]int) string {
		top := []kv{}
		ct := reflect.TypeOf(v1.ClientCommonConfig{})
		for i, k := range d.ckeys {
			if v := r.clientValue("C."+k, d.cvals[i], logPath, vports, visitor); v != nil {
				setTree(&top, jsonKeyPath(ct, k), v)
			}
		}
		pc, vc := newRoot(sub)
		var rt reflect.Type
		if pc != nil {
			rt = reflect.TypeOf(pc).Elem()
		} else {
			rt = reflect.TypeOf(vc).Elem()
		}
		item := []kv{{"type", t}}
		for i, k := range d.pkeys {
			if v := r.clientValue("P."+k, d.pvals[i], logPath, vports, visitor); v != nil {
				setTree(&item, jsonKeyPath(rt, k), v)
			}
		}
		top = append(top, kv{map[bool]string{false: "proxies", true: "visitors"}[visitor], [][]kv{item}})
		return renderDoc(top, format)
	}
	var lastDoc string
	fileObs := cmdFrpcRun(sub, usesLog, func(r *cmdRun, logPath string, vports [2]int) []string {
		lastDoc = mkDoc(r, logPath, vports)
		path := filepath.Join(filepath.Dir(orTmp(logPath, r.env.tmp)), "frpc-"+r.id+"."+format)
		_ = os.WriteFile(path, []byte(lastDoc), 0o644)
		return []string{"-c", path}
	})

	// --- frpc verify -c on the same document
	frpc, _ := cmdBins()
	vpath := filepath.Join(cmdEnvGet().tmp, "verify."+format)
	_ = os.WriteFile(vpath, []byte(lastDoc), 0o644)
	vp := cmdStart(frpc, cmdEnvGet().tmp, []string{"verify", "-c", vpath})
	select {
	case <-vp.exited:
	case <-time.After(3 * time.Second):
	}
	vp.kill()
	verify := "rej"
	if vp.rc == 0 && strings.Contains(vp.out.String(), "syntax is ok") {
		verify = "ok"
	}
	return cmdRenderObs(flagObs) + " // " + cmdRenderObs(fileObs) + " // verify=" + verify
}

func orTmp(p, tmp string) string {
	if p != "" {
		return p
	}
	return filepath.Join(tmp, "x")
}

// ---------------------------------------------------------------- xs

var cmdServerFlagOf = map[string]string{"BindAddr": "bind_addr", "BindPort": "bind_port", "KCPBindPort": "kcp_bind_port",
	"QUICBindPort": "quic_bind_port", "ProxyBindAddr": "proxy_bind_addr", "VhostHTTPPort": "vhost_http_port",
	"VhostHTTPSPort": "vhost_https_port", "VhostHTTPTimeout": "vhost_http_timeout", "SubDomainHost": "subdomain_host",
	"MaxPortsPerClient": "max_ports_per_client", "EnablePrometheus": "enable_prometheus", "Auth.Token": "token",
	"Log.To": "log_file", "Log.Level": "log_level", "Log.MaxDays": "log_max_days", "Log.DisablePrintColor": "disable_log_color",
	"Transport.TLS.Force": "tls_only", "WebServer.Addr": "dashboard_addr", "WebServer.Port": "dashboard_port",
	"WebServer.User": "dashboard_user", "WebServer.Password": "dashboard_pwd", "AllowPorts": "allow_ports",
	"WebServer.TLS": "dashboard_tls_mode", "WebServer.TLS.CertFile": "dashboard_tls_cert_file",
	"WebServer.TLS.KeyFile": "dashboard_tls_key_file"}

var cmdServerPortKeys = map[string]bool{"BindPort": true, "KCPBindPort": true, "QUICBindPort": true, "VhostHTTPPort": true,
	"VhostHTTPSPort": true, "WebServer.Port": true}

type cmdSrvCtx struct {
	base    int
	logPath string
	env     *cmdEnvT
}

func (x *cmdSrvCtx) sym(n int) int {
	if 1 <= n && n <= 9 {
		return x.base + n
	}
	return n
}

func (x *cmdSrvCtx) unsym(p int) int {
	if x.base < p && p <= x.base+9 {
		return p - x.base
	}
	return p
}

func (x *cmdSrvCtx) value(key, enc string) any {
	v := docValue(enc)
	switch {
	case cmdServerPortKeys[key]:
		if n, ok := v.(int); ok {
			return x.sym(n)
		}
	case key == "Log.To":
		if s, ok := v.(string); ok && s == "@file" {
			return x.logPath
		}
	case key == "WebServer.TLS.CertFile":
		if s, ok := v.(string); ok && s == "@cert" {
			return x.env.cert
		}
	case key == "WebServer.TLS.KeyFile":
		if s, ok := v.(string); ok && s == "@key" {
			return x.env.key
		}
	case key == "AllowPorts":
		if s, ok := v.(string); ok {
			for n := 9; n >= 1; n-- {
				s = strings.ReplaceAll(s, "@"+strconv.Itoa(n), strconv.Itoa(x.base+n))
			}
			return s
		}
	}
	return v
}

func (x *cmdSrvCtx) unsymAllow(s string) string {
	for n := 9; n >= 1; n-- {
		s = strings.ReplaceAll(s, strconv.Itoa(x.base+n), "@"+strconv.Itoa(n))
	}
	return s
}

func cmdGet(keys, vals []string, k string) any {
	for i, kk := range keys {
		if kk == k {
			return docValue(vals[i])
		}
	}
	return nil
}

func cmdStr(v any) string  { s, _ := v.(string); return s }
func cmdInt(v any) int     { n, _ := v.(int); return n }

func cmdHTTPGet(scheme, addr string, port int, path, user, pwd string) (int, []byte) {
	tr := &http.Transport{TLSClientConfig: &tls.Config{InsecureSkipVerify: true}, DisableKeepAlives: true}
	cl := &http.Client{Transport: tr, Timeout: 1500 * time.Millisecond}
	req, _ := http.NewRequest("GET", scheme+"://"+net.JoinHostPort(addr, strconv.Itoa(port))+path, nil)
	if user != "" || pwd != "" {
		req.SetBasicAuth(user, pwd)
	}
	resp, err := cl.Do(req)
	if err != nil {
		return 0, nil
	}
	defer resp.Body.Close()
	b, _ := io.ReadAll(resp.Body)
	return resp.StatusCode, b
}

func cmdAnswering(port int) string {
	s := ""
	for i, a := range cmdLoopback {
		if cmdDialOK(a, port, 0) {
			s += strconv.Itoa(i + 1)
		}
	}
	if s == "" {
		return "none"
	}
	return s
}

// one frps process; build(ctx) gives its argv
func cmdFrpsRun(keys, vals []string, build func(x *cmdSrvCtx) []string) map[string]string {
	t0 := time.Now()
	dbg := func(what string) {
		if os.Getenv("CMD_DEBUG") != "" {
			fmt.Fprintf(os.Stderr, "  %-12s %v\n", what, time.Since(t0))
		}
	}
	defer dbg("end")
	frpc, frps := cmdBins()
	e := cmdEnvGet()
	x := &cmdSrvCtx{base: cmdFreeBase(10) , env: e}
	dir, _ := os.MkdirTemp(e.tmp, "srv-")
	defer os.RemoveAll(dir)
	if cmdStr(cmdGet(keys, vals, "Log.To")) == "@file" {
		x.logPath = filepath.Join(dir, "frps.log")
	}
	p := cmdStart(frps, dir, build(x))
	defer p.kill()
	obs := map[string]string{}
	bindPort := x.sym(cmdInt(cmdGet(keys, vals, "BindPort")))
	bindAddr := cmdStr(cmdGet(keys, vals, "BindAddr"))
	dialAddr := "127.0.0.1"
	if bindAddr == "127.0.0.2" {
		dialAddr = bindAddr
	}
	up := false
	deadline := time.Now().Add(3 * time.Second)
	for !up && !p.hasExited() && time.Now().Before(deadline) {
		up = cmdDialOK(dialAddr, bindPort, 0)
		if !up {
			time.Sleep(10 * time.Millisecond)
		}
	}
	if !up {
		exited := p.hasExited()
		p.kill()
		if exited {
			return map[string]string{"rej": encS(cmdRejTags(p.out.String()))}
		}
		return map[string]string{"timeout": "b1"}
	}
	dbg("up")
	obs["bind"] = encS(cmdAnswering(bindPort))
	// the dashboard
	if wp := cmdInt(cmdGet(keys, vals, "WebServer.Port")); wp > 0 {
		dport := x.sym(wp)
		waddr := cmdStr(cmdGet(keys, vals, "WebServer.Addr"))
		daddr := "127.0.0.1"
		if waddr == "127.0.0.2" {
			daddr = waddr
		}
		_ = cmdDialOK(daddr, dport, time.Second)
		obs["dash"] = encS(cmdAnswering(dport))
		user, pwd := cmdStr(cmdGet(keys, vals, "WebServer.User")), cmdStr(cmdGet(keys, vals, "WebServer.Password"))
		scheme := "http"
		if st, _ := cmdHTTPGet("https", daddr, dport, "/healthz", user, pwd); st != 0 {
			scheme = "https"
			obs["dtls"] = "b1"
		}
		st, body := cmdHTTPGet(scheme, daddr, dport, "/api/serverinfo", user, pwd)
		obs["dauth"] = encI(int64(st))
		st2, _ := cmdHTTPGet(scheme, daddr, dport, "/api/serverinfo", "someone", "else")
		obs["dother"] = encI(int64(st2))
		st3, _ := cmdHTTPGet(scheme, daddr, dport, "/metrics", user, pwd)
		obs["prom"] = encI(int64(st3))
		var si map[string]any
		if json.Unmarshal(body, &si) == nil {
			for _, k := range []string{"bindPort", "kcpBindPort", "quicBindPort", "vhostHTTPPort", "vhostHTTPSPort", "maxPortsPerClient"} {
				if f, ok := si[k].(float64); ok {
					obs["si."+k] = encI(int64(x.unsym(int(f))))
				}
			}
			if s, ok := si["subdomainHost"].(string); ok {
				obs["si.subdomainHost"] = encS(s)
			}
			if s, ok := si["allowPortsStr"].(string); ok {
				obs["si.allowPortsStr"] = encS(x.unsymAllow(s))
			}
			if b, ok := si["tlsForce"].(bool); ok && b {
				obs["si.tlsForce"] = "b1"
			}
		}
	}
	dbg("dash")
	// udp listeners: a bound udp port refuses a second bind
	for _, k := range []string{"KCPBindPort", "QUICBindPort"} {
		if n := cmdInt(cmdGet(keys, vals, k)); n > 0 {
			ua, _ := net.ResolveUDPAddr("udp", net.JoinHostPort(dialAddr, strconv.Itoa(x.sym(n))))
			u, err := net.ListenUDP("udp", ua)
			if err != nil {
				obs["udp."+k] = "b1"
			} else {
				u.Close()
			}
		}
	}
	for _, k := range []string{"VhostHTTPPort", "VhostHTTPSPort"} {
		if n := cmdInt(cmdGet(keys, vals, k)); n > 0 {
			obs["tcp."+k] = encS(cmdAnswering(x.sym(n)))
		}
	}
	// three real clients
	token := cmdStr(cmdGet(keys, vals, "Auth.Token"))
	client := func(tok string, tlsOn bool, withProxy bool) (login string, pstart string, pbind string) {
		args := []string{"tcp", "--server_addr=" + dialAddr, "--server_port=" + strconv.Itoa(bindPort), "--token=" + tok,
			"--tls_enable=" + strconv.FormatBool(tlsOn), "--proxy_name=probe", "--local_port=9", "--remote_port=" + strconv.Itoa(x.sym(8)),
			"--disable_log_color=true"}
		cp := cmdStart(frpc, dir, args)
		defer cp.kill()
		m := cp.waitOutput(3*time.Second, "login to server success", "login to the server failed")
		switch m {
		case "login to server success":
			login = "ok"
		case "login to the server failed":
			login = "no"
		default:
			login = "silent"
		}
		if login == "ok" && withProxy {
			switch cp.waitOutput(2*time.Second, "start proxy success", "start error") {
			case "start proxy success":
				pstart = "ok"
				pbind = cmdAnswering(x.sym(8))
			case "start error":
				pstart = "no"
			default:
				pstart = "silent"
			}
		}
		return
	}
	dbg("probes")
	l1, ps, pb := client(token, true, true)
	dbg("client1")
	obs["login1"], obs["pstart"], obs["pbind"] = encS(l1), encS(ps), encS(pb)
	l0, _, _ := client(token, false, false)
	dbg("client0")
	obs["login0"] = encS(l0)
	lw, _, _ := client(token+"-not", true, false)
	obs["loginw"] = encS(lw)
	p.kill()
	cmdLogObs(obs, p.out.String(), x.logPath)
	return obs
}

func confcmdXS(tok []string) string {
	format := tok[1]
	keys, vals := splitKV(tok[2:])
	rng := cmdRng(tok)
	flagObs := cmdFrpsRun(keys, vals, func(x *cmdSrvCtx) []string {
		args := []string{}
		for i, k := range keys {
			if k == "WebServer.TLS" {
				if vals[i] != "z" {
					args = append(args, "--"+respell(rng, "dashboard_tls_mode")+"=true")
				}
				continue
			}
			v := x.value(k, vals[i])
			if v == nil {
				continue
			}
			txt, ok := cmdFlagText(v)
			if !ok {
				panic("no flag text for " + k)
			}
			name, ok := cmdServerFlagOf[k]
			if !ok {
				panic("no flag for " + k)
			}
			args = append(args, "--"+respell(rng, name)+"="+txt)
		}
		rng.Shuffle(len(args), func(i, j int) { args[i], args[j] = args[j], args[i] })
		return args
	})
	var lastDoc string
	mkDoc := func(x *cmdSrvCtx) string {
		st := reflect.TypeOf(v1.ServerConfig{})
		tree := []kv{}
		tlsOn := false
		for i, k := range keys {
			if k == "WebServer.TLS" {
				tlsOn = vals[i] != "z"
			}
		}
		for i, k := range keys {
			if k == "WebServer.TLS" {
				continue
			}
			v := x.value(k, vals[i])
			if strings.HasPrefix(k, "WebServer.TLS.") {
				if !tlsOn {
					continue
				}
				if v == nil {
					v = ""
				}
			}
			if v == nil {
				continue
			}
			if k == "AllowPorts" {
				// the document form of "a-b,c"
				items := [][]kv{}
				for _, part := range strings.Split(v.(string), ",") {
					if i := strings.Index(part, "-"); i > 0 {
						items = append(items, []kv{{"start", atoi(part[:i])}, {"end", atoi(part[i+1:])}})
					} else {
						items = append(items, []kv{{"single", atoi(part)}})
					}
				}
				tree = append(tree, kv{"allowPorts", items})
				continue
			}
			setTree(&tree, jsonKeyPath(st, k), v)
		}
		if tlsOn {
			for _, k := range []string{"WebServer.TLS.CertFile", "WebServer.TLS.KeyFile"} {
				if cmdGet(keys, vals, k) == nil {
					found := false
					for _, kk := range keys {
						found = found || kk == k
					}
					if !found {
						setTree(&tree, jsonKeyPath(st, k), "")
					}
				}
			}
		}
		return renderDoc(tree, format)
	}
	fileObs := cmdFrpsRun(keys, vals, func(x *cmdSrvCtx) []string {
		lastDoc = mkDoc(x)
		path := filepath.Join(x.env.tmp, "frps-"+strconv.Itoa(x.base)+"."+format)
		_ = os.WriteFile(path, []byte(lastDoc), 0o644)
		return []string{"-c", path}
	})
	_, frps := cmdBins()
	vpath := filepath.Join(cmdEnvGet().tmp, "verify-s."+format)
	_ = os.WriteFile(vpath, []byte(lastDoc), 0o644)
	vp := cmdStart(frps, cmdEnvGet().tmp, []string{"verify", "-c", vpath})
	select {
	case <-vp.exited:
	case <-time.After(3 * time.Second):
	}
	vp.kill()
	verify := "rej"
	if vp.rc == 0 && strings.Contains(vp.out.String(), "syntax is ok") {
		verify = "ok"
	}
	return cmdRenderObs(flagObs) + " // " + cmdRenderObs(fileObs) + " // verify=" + verify
}

// an observation that says "nothing happened in time" is re-taken once (a busy machine), then reported as it is
func cmdUnsettled(res string) bool {
	return strings.Contains(res, "timeout=") || strings.Contains(res, "noconn=") || strings.Contains(res, "=s73696c656e74") // "silent"
}

func confcmdExec(tok []string) string {
	switch tok[0] {
	case "reset":
		return "-"
	case "xc":
		res := confcmdXC(tok)
		if cmdUnsettled(res) {
			res = confcmdXC(tok)
		}
		return res
	case "xs":
		res := confcmdXS(tok)
		if cmdUnsettled(res) {
			res = confcmdXS(tok)
		}
		return res
	}
	panic("unknown op " + tok[0])
}

func init() { register(&Engine{Name: "confcmd", Gen: confcmdGen, Exec: confcmdExec}) }
