package main

// Engine "wire" (C05), third part: the configuration AS WRITTEN BY THE OPERATOR.
//
//	cfgload fmt=<toml|yaml|json|ini> pfx=<0|1> type=<proxy type> plugin=<none|client plugin> enc=<0|1|d> comp=<0|1|d> mode=<d|c|s> ip=<0|1>
//	    a frpc configuration file with ONE proxy of that type, with that client plugin, transport.useEncryption /
//	    useCompression written true / false / not written (d), bandwidthLimitMode not written / client / server, localIP
//	    written or not, user (name prefix) set or not — loaded by the real config.LoadClientConfig (parser, legacy
//	    conversion for ini, Complete), turned into the NewProxy message by the real MarshalToMsg, and into frps's own
//	    configurer by the real config.NewProxyConfigurerFromMsg (UnmarshalFromMsg + Complete)
//	    => l=<enc><comp>;m=<enc><comp>;s=<enc><comp>;name=<hex>;ip=<hex>;mode=<hex>;h2=<d|0|1>
//	       (l: the loaded configurer, m: the message, s: the server's configurer; name / ip / mode / plugin enableHTTP2 of
//	        the loaded configurer: the fields Complete writes)
//	wstart tls=<0|1> mux=<0|1> fmt=<toml|yaml|json> p0=<type>:<plugin>:e<0|1>c<0|1> p1=… …
//	    one frpc configuration file with these proxies (and a visitor per stcp / sudp proxy), loaded by the real loader,
//	    validated, run as a real frpc (client.Service) against a real frps through the recording relay
//	    => up=1 | up=0:<why>
//	wobs k=<i>
//	    a conversation with FRESH crypto/rand markers through proxy i, the way a user of that proxy type reaches it (remote
//	    port / CONNECT on the tcpmux port / stcp or sudp visitor / vhost HTTP / vhost HTTPS by SNI / datagram) speaking what that
//	    plugin expects (raw echo, HTTP, HTTP through an HTTP proxy, SOCKS5, TLS + raw, TLS + HTTP; in the TLS conversations
//	    the marker also travels in the ClientHello, as an ALPN protocol name); the capture of the relay is searched for
//	    the marker
//	    => a<alive>p<marker seen> | na (no conversation exists for that type / plugin pair)

import (
	"bufio"
	"bytes"
	"context"
	"crypto/tls"
	"encoding/base64"
	"fmt"
	"io"
	"log"
	"math/rand"
	"net"
	"net/http"
	"os"
	"path/filepath"
	"strconv"
	"strings"
	"sync"
	"time"

	"github.com/fatedier/frp/client"
	"github.com/fatedier/frp/pkg/config"
	v1 "github.com/fatedier/frp/pkg/config/v1"
	"github.com/fatedier/frp/pkg/config/v1/validation"
	"github.com/fatedier/frp/pkg/msg"
	"github.com/fatedier/frp/server"
)

var (
	wcTypes   = []string{"tcp", "udp", "tcpmux", "http", "https", "stcp", "xtcp", "sudp"}
	wcPlugins = []string{"none", "http2https", "http_proxy", "https2http", "https2https", "http2http", "socks5",
		"static_file", "unix_domain_socket", "tls2raw", "virtual_net"}
	// client plugins the legacy ini conversion knows (pkg/config/legacy/conversion.go)
	wcIniPlugins = map[string]bool{"none": true, "http2https": true, "http_proxy": true, "https2http": true,
		"https2https": true, "socks5": true, "static_file": true, "unix_domain_socket": true}
)

// ---------------------------------------------------------------- local services (shared by every rig)

type wcLocal struct {
	dir       string
	echoPort  int    // raw tcp echo
	httpPort  int    // plain HTTP: the body of the answer is the request's X-M header
	httpsPort int    // the same handler behind TLS
	tlsEcho   int    // TLS echo
	unixEcho  string // raw echo on a unix socket
	unixHTTP  string // the HTTP handler on a unix socket
	staticDir string // directory served by static_file; m.txt is rewritten before every conversation
	udpPort   int
}

var (
	wcLocalOnce sync.Once
	wcLocalVal  *wcLocal
)

func wcHandler() http.Handler {
	return http.HandlerFunc(func(w http.ResponseWriter, r *http.Request) {
		_, _ = io.Copy(io.Discard, r.Body)
		w.Header().Set("Connection", "close")
		_, _ = io.WriteString(w, r.Header.Get("X-M"))
	})
}

// nothing of these servers may reach stderr (the runner reads the harness's output as the trace)
func wcHTTPServer() *http.Server {
	return &http.Server{Handler: wcHandler(), ErrorLog: log.New(io.Discard, "", 0), ReadHeaderTimeout: 10 * time.Second}
}

func wcServeEcho(ln net.Listener) {
	go func() {
		for {
			c, err := ln.Accept()
			if err != nil {
				return
			}
			go func() { _, _ = io.Copy(c, c); c.Close() }()
		}
	}()
}

func wcGetLocal() *wcLocal {
	wcLocalOnce.Do(func() {
		pki := wireGetPKI()
		dir, err := os.MkdirTemp("", "c05w")
		if err != nil {
			panic(err)
		}
		l := &wcLocal{dir: dir}
		_, l.echoPort = wireEchoBackend()
		listen := func(network, addr string) net.Listener {
			ln, err := net.Listen(network, addr)
			if err != nil {
				panic(err)
			}
			return ln
		}
		hl := listen("tcp", "127.0.0.1:0")
		l.httpPort = hl.Addr().(*net.TCPAddr).Port
		go func() { _ = wcHTTPServer().Serve(hl) }()
		pair, err := tls.LoadX509KeyPair(pki.srvCert, pki.srvKey)
		if err != nil {
			panic(err)
		}
		tcfg := &tls.Config{Certificates: []tls.Certificate{pair}}
		sl := listen("tcp", "127.0.0.1:0")
		l.httpsPort = sl.Addr().(*net.TCPAddr).Port
		go func() { _ = wcHTTPServer().Serve(tls.NewListener(sl, tcfg)) }()
		tl := listen("tcp", "127.0.0.1:0")
		l.tlsEcho = tl.Addr().(*net.TCPAddr).Port
		wcServeEcho(tls.NewListener(tl, tcfg))
		l.unixEcho = filepath.Join(dir, "echo.sock")
		wcServeEcho(listen("unix", l.unixEcho))
		l.unixHTTP = filepath.Join(dir, "http.sock")
		ul := listen("unix", l.unixHTTP)
		go func() { _ = wcHTTPServer().Serve(ul) }()
		l.staticDir = filepath.Join(dir, "static")
		if err := os.Mkdir(l.staticDir, 0o755); err != nil {
			panic(err)
		}
		ub, err := net.ListenUDP("udp", &net.UDPAddr{IP: net.IPv4(127, 0, 0, 1)})
		if err != nil {
			panic(err)
		}
		l.udpPort = ub.LocalAddr().(*net.UDPAddr).Port
		go func() {
			buf := make([]byte, 2048)
			for {
				n, from, err := ub.ReadFromUDP(buf)
				if err != nil {
					return
				}
				_, _ = ub.WriteToUDP(buf[:n], from)
			}
		}()
		wcLocalVal = l
	})
	return wcLocalVal
}

// ---------------------------------------------------------------- the written configuration

type wcSpec struct {
	typ, plugin string
	enc, comp   string // "0" | "1" | "d" (not written)
	mode        string // "d" | "c" | "s"
	ip          bool   // localIP written
}

func wcParseSpec(s string) (wcSpec, bool) {
	f := strings.Split(s, ":")
	if len(f) != 3 || len(f[2]) != 4 || f[2][0] != 'e' || f[2][2] != 'c' {
		return wcSpec{}, false
	}
	okT, okP := false, false
	for _, t := range wcTypes {
		okT = okT || t == f[0]
	}
	for _, p := range wcPlugins {
		okP = okP || p == f[1]
	}
	if !okT || !okP {
		return wcSpec{}, false
	}
	return wcSpec{typ: f[0], plugin: f[1], enc: f[2][1:2], comp: f[2][3:4], mode: "d"}, true
}

// which conversation reaches the local service of a proxy of that type with that plugin ("" = none exists here)
func wcConv(typ, plugin string) string {
	switch typ {
	case "udp", "sudp":
		if plugin == "none" {
			return "udp"
		}
		return ""
	case "http":
		switch plugin {
		case "none", "unix_domain_socket", "http2http", "http2https", "static_file":
			return "http"
		}
		return ""
	case "https":
		switch plugin {
		case "none", "tls2raw":
			return "tlsraw"
		case "https2http", "https2https":
			return "tlshttp"
		}
		return ""
	case "tcp", "tcpmux", "stcp":
		switch plugin {
		case "none", "unix_domain_socket":
			return "raw"
		case "http2http", "http2https", "static_file":
			return "http"
		case "http_proxy":
			return "hproxy"
		case "socks5":
			return "socks"
		case "https2http", "https2https":
			return "tlshttp"
		case "tls2raw":
			return "tlsraw"
		}
	}
	return ""
}

type wcPorts struct {
	remote, visitor int
}

// the `[[proxies]]` entry
func wcProxyTree(i int, sp wcSpec, loc *wcLocal, ports wcPorts, sk string) []kv {
	pki := wireGetPKI()
	name := fmt.Sprintf("w%d", i)
	domain := name + ".c05.test"
	t := []kv{{"name", name}, {"type", sp.typ}}
	tr := []kv{}
	if sp.enc != "d" {
		tr = append(tr, kv{"useEncryption", sp.enc == "1"})
	}
	if sp.comp != "d" {
		tr = append(tr, kv{"useCompression", sp.comp == "1"})
	}
	switch sp.mode {
	case "c":
		tr = append(tr, kv{"bandwidthLimitMode", "client"})
	case "s":
		tr = append(tr, kv{"bandwidthLimitMode", "server"})
	}
	switch sp.typ {
	case "tcp", "udp":
		t = append(t, kv{"remotePort", ports.remote})
	case "http", "https":
		t = append(t, kv{"customDomains", []string{domain}})
	case "tcpmux":
		t = append(t, kv{"customDomains", []string{domain}}, kv{"multiplexer", "httpconnect"})
	case "stcp", "xtcp", "sudp":
		t = append(t, kv{"secretKey", sk})
	}
	if sp.ip {
		t = append(t, kv{"localIP", "127.0.0.1"})
	}
	local := func(port int) { t = append(t, kv{"localPort", port}) }
	addr := func(p int) string { return net.JoinHostPort("127.0.0.1", strconv.Itoa(p)) }
	var pl []kv
	switch sp.plugin {
	case "none":
		switch {
		case sp.typ == "udp" || sp.typ == "sudp":
			local(loc.udpPort)
		case sp.typ == "http":
			local(loc.httpPort)
		case sp.typ == "https":
			local(loc.tlsEcho)
		default:
			local(loc.echoPort)
		}
	case "http2http":
		pl = []kv{{"type", sp.plugin}, {"localAddr", addr(loc.httpPort)}}
	case "http2https":
		pl = []kv{{"type", sp.plugin}, {"localAddr", addr(loc.httpsPort)}}
	case "https2http":
		pl = []kv{{"type", sp.plugin}, {"localAddr", addr(loc.httpPort)}, {"crtPath", pki.srvCert}, {"keyPath", pki.srvKey}}
	case "https2https":
		pl = []kv{{"type", sp.plugin}, {"localAddr", addr(loc.httpsPort)}, {"crtPath", pki.srvCert}, {"keyPath", pki.srvKey}}
	case "tls2raw":
		pl = []kv{{"type", sp.plugin}, {"localAddr", addr(loc.echoPort)}, {"crtPath", pki.srvCert}, {"keyPath", pki.srvKey}}
	case "static_file":
		pl = []kv{{"type", sp.plugin}, {"localPath", loc.staticDir}}
	case "unix_domain_socket":
		p := loc.unixEcho
		if sp.typ == "http" {
			p = loc.unixHTTP
		}
		pl = []kv{{"type", sp.plugin}, {"unixPath", p}}
	default: // http_proxy, socks5, virtual_net: no options needed
		pl = []kv{{"type", sp.plugin}}
	}
	if len(tr) > 0 {
		t = append(t, kv{"transport", tr})
	}
	if pl != nil {
		t = append(t, kv{"plugin", pl})
	}
	return t
}

func wcVisitorTree(i int, sp wcSpec, ports wcPorts, sk string) []kv {
	t := []kv{{"name", fmt.Sprintf("v%d", i)}, {"type", sp.typ}, {"serverName", fmt.Sprintf("w%d", i)}, {"secretKey", sk},
		{"bindAddr", "127.0.0.1"}, {"bindPort", ports.visitor}}
	tr := []kv{}
	if sp.enc != "d" {
		tr = append(tr, kv{"useEncryption", sp.enc == "1"})
	}
	if sp.comp != "d" {
		tr = append(tr, kv{"useCompression", sp.comp == "1"})
	}
	if len(tr) > 0 {
		t = append(t, kv{"transport", tr})
	}
	return t
}

func wcClientTree(port int, user, token string, tlsOn, mux bool, proxies, visitors [][]kv) []kv {
	t := []kv{{"serverAddr", "127.0.0.1"}, {"serverPort", port}, {"loginFailExit", true}}
	if user != "" {
		t = append(t, kv{"user", user})
	}
	if token != "" {
		t = append(t, kv{"auth", []kv{{"token", token}}})
	}
	t = append(t, kv{"transport", []kv{{"tcpMux", mux}, {"tls", []kv{{"enable", tlsOn}, {"disableCustomTLSFirstByte", true}}}}})
	if len(proxies) > 0 {
		t = append(t, kv{"proxies", proxies})
	}
	if len(visitors) > 0 {
		t = append(t, kv{"visitors", visitors})
	}
	return t
}

// legacy ini: one proxy section
func wcIniDoc(user string, sp wcSpec, loc *wcLocal) string {
	pki := wireGetPKI()
	var b strings.Builder
	b.WriteString("[common]\nserver_addr = 127.0.0.1\nserver_port = 7000\n")
	if user != "" {
		fmt.Fprintf(&b, "user = %s\n", user)
	}
	fmt.Fprintf(&b, "\n[w0]\ntype = %s\n", sp.typ)
	switch sp.typ {
	case "tcp", "udp":
		b.WriteString("remote_port = 6000\n")
	case "http", "https":
		b.WriteString("custom_domains = w0.c05.test\n")
	case "tcpmux":
		b.WriteString("custom_domains = w0.c05.test\nmultiplexer = httpconnect\n")
	case "stcp", "xtcp", "sudp":
		b.WriteString("sk = Zc05sk\n")
	}
	if sp.ip {
		b.WriteString("local_ip = 127.0.0.1\n")
	}
	if sp.enc != "d" {
		fmt.Fprintf(&b, "use_encryption = %v\n", sp.enc == "1")
	}
	if sp.comp != "d" {
		fmt.Fprintf(&b, "use_compression = %v\n", sp.comp == "1")
	}
	switch sp.mode {
	case "c":
		b.WriteString("bandwidth_limit_mode = client\n")
	case "s":
		b.WriteString("bandwidth_limit_mode = server\n")
	}
	if sp.plugin == "none" {
		fmt.Fprintf(&b, "local_port = %d\n", loc.echoPort)
	} else {
		fmt.Fprintf(&b, "plugin = %s\n", sp.plugin)
		switch sp.plugin {
		case "http2https", "https2http", "https2https":
			fmt.Fprintf(&b, "plugin_local_addr = 127.0.0.1:%d\n", loc.httpPort)
		case "static_file":
			fmt.Fprintf(&b, "plugin_local_path = %s\n", loc.staticDir)
		case "unix_domain_socket":
			fmt.Fprintf(&b, "plugin_unix_path = %s\n", loc.unixEcho)
		}
		if sp.plugin == "https2http" || sp.plugin == "https2https" {
			fmt.Fprintf(&b, "plugin_crt_path = %s\nplugin_key_path = %s\n", pki.srvCert, pki.srvKey)
		}
	}
	return b.String()
}

var wcFileSeq int

func wcWriteFile(loc *wcLocal, doc, format string) string {
	wcFileSeq++
	path := filepath.Join(loc.dir, fmt.Sprintf("frpc-%d.%s", wcFileSeq%8, format))
	if err := os.WriteFile(path, []byte(doc), 0o600); err != nil {
		panic(err)
	}
	return path
}

func wcTwo(enc, comp bool) string { return fmt.Sprintf("%d%d", wireBit(enc), wireBit(comp)) }

func wireCfgLoad(kvs map[string]string) string {
	loc := wcGetLocal()
	sp := wcSpec{typ: kvs["type"], plugin: kvs["plugin"], enc: kvs["enc"], comp: kvs["comp"], mode: kvs["mode"], ip: wireB(kvs["ip"])}
	if _, ok := wcParseSpec(sp.typ + ":" + sp.plugin + ":e0c0"); !ok {
		return "badspec"
	}
	user := ""
	if wireB(kvs["pfx"]) {
		user = "c05u"
	}
	var doc string
	format := kvs["fmt"]
	switch format {
	case "toml", "yaml", "json":
		doc = renderDoc(wcClientTree(7000, user, "", true, true, [][]kv{wcProxyTree(0, sp, loc, wcPorts{remote: 6000}, "Zc05sk")}, nil), format)
	case "ini":
		if !wcIniPlugins[sp.plugin] {
			return "badfmt"
		}
		doc = wcIniDoc(user, sp, loc)
	default:
		return "badfmt"
	}
	_, pcs, _, _, err := config.LoadClientConfig(wcWriteFile(loc, doc, format), true)
	if err != nil {
		return "loaderr"
	}
	if len(pcs) != 1 {
		return fmt.Sprintf("proxies=%d", len(pcs))
	}
	base := pcs[0].GetBaseConfig()
	var m msg.NewProxy
	pcs[0].MarshalToMsg(&m)
	scfg := &v1.ServerConfig{}
	scfg.VhostHTTPPort, scfg.VhostHTTPSPort, scfg.TCPMuxHTTPConnectPort = 8080, 8443, 8081 // not listened on: validation only
	scfg.Complete()
	sc, err := config.NewProxyConfigurerFromMsg(&m, scfg)
	if err != nil {
		return "srverr"
	}
	sb := sc.GetBaseConfig()
	h2 := "d"
	switch o := base.Plugin.ClientPluginOptions.(type) {
	case *v1.HTTPS2HTTPPluginOptions:
		if o.EnableHTTP2 != nil {
			h2 = strconv.Itoa(wireBit(*o.EnableHTTP2))
		}
	case *v1.HTTPS2HTTPSPluginOptions:
		if o.EnableHTTP2 != nil {
			h2 = strconv.Itoa(wireBit(*o.EnableHTTP2))
		}
	}
	return fmt.Sprintf("l=%s;m=%s;s=%s;name=%s;ip=%s;mode=%s;h2=%s",
		wcTwo(base.Transport.UseEncryption, base.Transport.UseCompression), wcTwo(m.UseEncryption, m.UseCompression),
		wcTwo(sb.Transport.UseEncryption, sb.Transport.UseCompression), hx(base.Name), hx(base.LocalIP),
		hx(base.Transport.BandwidthLimitMode), h2)
}

// ---------------------------------------------------------------- the rig

type wcRig struct {
	tlsOn   bool
	specs   []wcSpec
	ports   []wcPorts
	user    string
	svr     *server.Service
	stop    context.CancelFunc
	relay   *wireRelay
	cli     *client.Service
	runErr  chan error
	vhttp   int
	vhttps  int
	tcpmux  int
	localFS *wcLocal
}

var wcRigCur *wcRig

func wcClose() {
	r := wcRigCur
	if r == nil {
		return
	}
	wcRigCur = nil
	if r.cli != nil {
		r.cli.Close()
	}
	if r.relay != nil {
		r.relay.close()
	}
	if r.stop != nil {
		r.stop()
		_ = r.svr.Close()
	}
}

// a rig that did not come up completely is dropped: no observation is made on it
func wireCStart(kvs map[string]string) string {
	res := wireCStart1(kvs)
	if res != "up=1" {
		wcClose()
	}
	return res
}

func wireCStart1(kvs map[string]string) string {
	wcClose()
	wireRClose()
	loc := wcGetLocal()
	pki := wireGetPKI()
	format := kvs["fmt"]
	if format != "toml" && format != "yaml" && format != "json" {
		return "badfmt"
	}
	r := &wcRig{tlsOn: wireB(kvs["tls"]), user: wireMarker("U"), runErr: make(chan error, 1), localFS: loc}
	for i := 0; ; i++ {
		s, ok := kvs[fmt.Sprintf("p%d", i)]
		if !ok {
			break
		}
		sp, ok := wcParseSpec(s)
		if !ok {
			return "badspec"
		}
		r.specs = append(r.specs, sp)
	}
	mux := wireB(kvs["mux"])
	token := wireMarker("T")
	var lastErr error
	for try := 0; try < 5 && r.svr == nil; try++ {
		scfg := &v1.ServerConfig{}
		scfg.BindAddr, scfg.ProxyBindAddr = "127.0.0.1", "127.0.0.1"
		scfg.BindPort = freeTCPPort()
		scfg.VhostHTTPPort, scfg.VhostHTTPSPort, scfg.TCPMuxHTTPConnectPort = freeTCPPort(), freeTCPPort(), freeTCPPort()
		scfg.Auth.Token = token
		scfg.Transport.TCPMux = &mux
		// a configured certificate: frps does not spend time on a random RSA key
		scfg.Transport.TLS.CertFile, scfg.Transport.TLS.KeyFile = pki.srvCert, pki.srvKey
		scfg.Complete()
		svr, err := server.NewService(scfg)
		if err != nil {
			lastErr = err
			continue
		}
		ctx, cancel := context.WithCancel(context.Background())
		go svr.Run(ctx)
		r.svr, r.stop = svr, cancel
		r.vhttp, r.vhttps, r.tcpmux = scfg.VhostHTTPPort, scfg.VhostHTTPSPort, scfg.TCPMuxHTTPConnectPort
		r.relay = wireNewRelay(net.JoinHostPort("127.0.0.1", strconv.Itoa(scfg.BindPort)))
	}
	if r.svr == nil {
		panic(fmt.Sprint("frps did not start: ", lastErr))
	}
	wcRigCur = r
	var proxies, visitors [][]kv
	// ports of one rig are drawn while the earlier ones are still held: distinct within the rig
	var held []io.Closer
	tcpPort := func() int {
		l, err := net.Listen("tcp", "127.0.0.1:0")
		if err != nil {
			panic(err)
		}
		held = append(held, l)
		return l.Addr().(*net.TCPAddr).Port
	}
	udpPort := func() int {
		c, err := net.ListenUDP("udp", &net.UDPAddr{IP: net.IPv4(127, 0, 0, 1)})
		if err != nil {
			panic(err)
		}
		held = append(held, c)
		return c.LocalAddr().(*net.UDPAddr).Port
	}
	for i, sp := range r.specs {
		p := wcPorts{}
		switch sp.typ {
		case "tcp":
			p.remote = tcpPort()
		case "udp":
			p.remote = udpPort()
		case "stcp":
			p.visitor = tcpPort()
		case "sudp":
			p.visitor = udpPort()
		}
		r.ports = append(r.ports, p)
		sk := wireMarker("S")
		proxies = append(proxies, wcProxyTree(i, sp, loc, p, sk))
		if sp.typ == "stcp" || sp.typ == "sudp" {
			visitors = append(visitors, wcVisitorTree(i, sp, p, sk))
		}
	}
	for _, h := range held {
		h.Close()
	}
	doc := renderDoc(wcClientTree(r.relay.port(), r.user, token, r.tlsOn, mux, proxies, visitors), format)
	common, pcs, vcs, _, err := config.LoadClientConfig(wcWriteFile(loc, doc, format), true)
	if err != nil {
		return "up=0:loaderr"
	}
	if _, err := validation.ValidateAllClientConfig(common, pcs, vcs); err != nil {
		return "up=0:invalid"
	}
	cli, err := client.NewService(client.ServiceOptions{Common: common, ProxyCfgs: pcs, VisitorCfgs: vcs})
	if err != nil {
		return "up=0:newservice"
	}
	r.cli = cli
	go func() { r.runErr <- cli.Run(context.Background()) }()
	deadline := time.Now().Add(5 * time.Second)
	for time.Now().Before(deadline) {
		select {
		case <-r.runErr:
			return "up=0:exited"
		default:
		}
		n := 0
		for _, pc := range pcs {
			if st, ok := cli.StatusExporter().GetProxyStatus(pc.GetBaseConfig().Name); ok && st.Phase == "running" {
				n++
			}
		}
		if n == len(pcs) {
			return "up=1"
		}
		time.Sleep(4 * time.Millisecond)
	}
	return "up=0:notrunning"
}

// ---------------------------------------------------------------- conversations

func wcReadUntil(c net.Conn, needle string, max int) bool {
	buf := make([]byte, 0, 4096)
	tmp := make([]byte, 4096)
	for len(buf) < max {
		n, err := c.Read(tmp)
		buf = append(buf, tmp[:n]...)
		if bytes.Contains(buf, []byte(needle)) {
			return true
		}
		if err != nil {
			return false
		}
	}
	return false
}

func wcRawEcho(c net.Conn, marker string) bool {
	if _, err := c.Write([]byte(marker)); err != nil {
		return false
	}
	buf := make([]byte, len(marker))
	_, err := readFullConn(c, buf)
	return err == nil && string(buf) == marker
}

func wcHTTPConv(c net.Conn, target, host, marker string) bool {
	req := fmt.Sprintf("GET %s HTTP/1.1\r\nHost: %s\r\nX-M: %s\r\nUser-Agent: c05\r\nConnection: close\r\n\r\n", target, host, marker)
	if _, err := c.Write([]byte(req)); err != nil {
		return false
	}
	br := bufio.NewReader(c)
	status, err := br.ReadString('\n')
	if err != nil || !strings.Contains(status, " 200") {
		return false
	}
	return wcReadUntil(&wcBufConn{Conn: c, r: br}, marker, 64<<10)
}

type wcBufConn struct {
	net.Conn
	r *bufio.Reader
}

func (b *wcBufConn) Read(p []byte) (int, error) { return b.r.Read(p) }

func wcSocksConnect(c net.Conn, port int) bool {
	if _, err := c.Write([]byte{5, 1, 0}); err != nil {
		return false
	}
	rep := make([]byte, 2)
	if _, err := readFullConn(c, rep); err != nil || rep[0] != 5 || rep[1] != 0 {
		return false
	}
	if _, err := c.Write([]byte{5, 1, 0, 1, 127, 0, 0, 1, byte(port >> 8), byte(port)}); err != nil {
		return false
	}
	rep = make([]byte, 10)
	if _, err := readFullConn(c, rep); err != nil || rep[1] != 0 {
		return false
	}
	return true
}

// the connection a user of proxy i gets
func (r *wcRig) entry(i int) (net.Conn, string, error) {
	sp := r.specs[i]
	domain := fmt.Sprintf("w%d.c05.test", i)
	dial := func(port int) (net.Conn, error) {
		c, err := net.DialTimeout("tcp", net.JoinHostPort("127.0.0.1", strconv.Itoa(port)), time.Second)
		if err == nil {
			_ = c.SetDeadline(time.Now().Add(2 * time.Second))
		}
		return c, err
	}
	switch sp.typ {
	case "tcp":
		c, err := dial(r.ports[i].remote)
		return c, domain, err
	case "stcp":
		c, err := dial(r.ports[i].visitor)
		return c, domain, err
	case "http":
		c, err := dial(r.vhttp)
		return c, domain, err
	case "https":
		c, err := dial(r.vhttps)
		return c, domain, err
	case "tcpmux":
		c, err := dial(r.tcpmux)
		if err != nil {
			return nil, domain, err
		}
		if _, err := fmt.Fprintf(c, "CONNECT %s:80 HTTP/1.1\r\nHost: %s:80\r\n\r\n", domain, domain); err != nil {
			c.Close()
			return nil, domain, err
		}
		// the answer of frps ends with an empty line; read it byte by byte so that nothing of the tunnel is swallowed
		var got []byte
		one := make([]byte, 1)
		for !bytes.HasSuffix(got, []byte("\r\n\r\n")) && len(got) < 512 {
			if _, err := c.Read(one); err != nil {
				c.Close()
				return nil, domain, err
			}
			got = append(got, one[0])
		}
		if !bytes.Contains(got, []byte(" 200")) {
			c.Close()
			return nil, domain, fmt.Errorf("connect refused")
		}
		return c, domain, nil
	}
	return nil, domain, fmt.Errorf("no entry")
}

func (r *wcRig) converse(i int, conv, marker string) bool {
	if conv == "udp" {
		port := r.ports[i].remote
		if r.specs[i].typ == "sudp" {
			port = r.ports[i].visitor
		}
		return wireUDPRoundTripWithin(port, marker, 2*time.Second)
	}
	c, domain, err := r.entry(i)
	if err != nil {
		return false
	}
	defer c.Close()
	switch conv {
	case "raw":
		return wcRawEcho(c, marker)
	case "http":
		return wcHTTPConv(c, "/m.txt", domain, marker)
	case "hproxy":
		host := net.JoinHostPort("127.0.0.1", strconv.Itoa(r.localFS.httpPort))
		return wcHTTPConv(c, "http://"+host+"/m.txt", host, marker)
	case "socks":
		return wcSocksConnect(c, r.localFS.echoPort) && wcRawEcho(c, marker)
	case "tlsraw", "tlshttp":
		// the user's own TLS: the marker also travels as an ALPN protocol name, i.e. in the ClientHello — bytes of the
		// tunnelled payload that are readable on the path unless a layer of frp covers them
		tc := tls.Client(c, &tls.Config{InsecureSkipVerify: true, ServerName: domain, NextProtos: []string{"http/1.1", marker}})
		if err := tc.Handshake(); err != nil {
			return false
		}
		if conv == "tlsraw" {
			return wcRawEcho(tc, marker)
		}
		return wcHTTPConv(tc, "/m.txt", domain, marker)
	}
	return false
}

func wireCObs(kvs map[string]string) string {
	r := wcRigCur
	if r == nil {
		return "norig"
	}
	i := atoi(kvs["k"])
	if i < 0 || i >= len(r.specs) {
		return "badk"
	}
	sp := r.specs[i]
	conv := wcConv(sp.typ, sp.plugin)
	if conv == "" {
		return "na"
	}
	marker := wireMarker("W")
	if sp.plugin == "static_file" {
		if err := os.WriteFile(filepath.Join(r.localFS.staticDir, "m.txt"), []byte(marker), 0o644); err != nil {
			panic(err)
		}
	}
	alive := false
	for try := 0; try < 3 && !alive; try++ {
		alive = r.converse(i, conv, marker)
		if !alive {
			time.Sleep(40 * time.Millisecond)
		}
	}
	if !alive {
		// whatever crossed the path before the conversation broke is still in the capture
		last := -1
		for k := 0; k < 20; k++ {
			t := r.relay.total()
			if t == last {
				break
			}
			last = t
			time.Sleep(15 * time.Millisecond)
		}
	}
	needle := marker
	if conv == "udp" {
		needle = base64.StdEncoding.EncodeToString([]byte(marker))
	}
	return fmt.Sprintf("a%dp%d", wireBit(alive), wireBit(r.relay.contains(needle)))
}

// ---------------------------------------------------------------- generator

func wireGenConfig(rng *rand.Rand, n int, emit func(string)) {
	tri := []string{"0", "1", "d"}
	// (a) loader level: every proxy type x every client plugin, the flags written true / false / not at all, in every
	// file format the loader reads
	for _, t := range wcTypes {
		for _, p := range wcPlugins {
			for _, e := range tri {
				f := pick(rng, []string{"toml", "yaml", "json", "ini"})
				if f == "ini" && !wcIniPlugins[p] {
					f = pick(rng, []string{"toml", "yaml", "json"})
				}
				emit(fmt.Sprintf("cfgload fmt=%s pfx=%d type=%s plugin=%s enc=%s comp=%s mode=%s ip=%d", f, rng.Intn(2), t, p, e,
					pick(rng, tri), pick(rng, []string{"d", "c", "s"}), rng.Intn(2)))
			}
		}
	}
	for i := 0; i < n/10; i++ {
		p := pick(rng, wcPlugins)
		f := pick(rng, []string{"toml", "yaml", "json", "ini"})
		if f == "ini" && !wcIniPlugins[p] {
			f = "toml"
		}
		emit(fmt.Sprintf("cfgload fmt=%s pfx=%d type=%s plugin=%s enc=%s comp=%s mode=%s ip=%d", f, rng.Intn(2), pick(rng, wcTypes), p,
			pick(rng, tri), pick(rng, tri), pick(rng, []string{"d", "c", "s"}), rng.Intn(2)))
	}
	// (b) wire level: every (type, plugin) pair that has a conversation, with encryption written on and off
	// (compression generated), in rigs of a few proxies; most rigs without TLS on the transport
	type pair struct{ t, p string }
	var pairs []pair
	for _, t := range wcTypes {
		for _, p := range wcPlugins {
			if wcConv(t, p) != "" {
				pairs = append(pairs, pair{t, p})
			}
		}
	}
	var specs []string
	for _, pr := range pairs {
		for e := 0; e < 2; e++ {
			specs = append(specs, fmt.Sprintf("%s:%s:e%dc%d", pr.t, pr.p, e, wireBit(rng.Intn(5) == 0)))
		}
	}
	rng.Shuffle(len(specs), func(i, j int) { specs[i], specs[j] = specs[j], specs[i] })
	const per = 10
	for g := 0; g*per < len(specs); g++ {
		grp := specs[g*per:]
		if len(grp) > per {
			grp = grp[:per]
		}
		op := fmt.Sprintf("wstart tls=%d mux=%d fmt=%s", wireBit(g%5 == 4), rng.Intn(2), pick(rng, []string{"toml", "yaml", "json"}))
		for i, s := range grp {
			op += fmt.Sprintf(" p%d=%s", i, s)
		}
		emit(op)
		for i := range grp {
			emit(fmt.Sprintf("wobs k=%d", i))
		}
	}
	emit("reset")
}
