// Engine "pool", part "pe…" (C11): the END of a session's work-connection pool, on the real server.Control.
//
// The harness is what server.Service is for a Control: it builds it (server.NewControl + Start on a pipe whose
// other end it owns), registers a tcp proxy, offers work connections with (*Control).RegisterWorkConn and — as
// handleConnection does — closes the ones registration refuses, takes them with (*Control).GetWorkConn, and ends
// the session by closing its end of the control connection.  The connections are harness objects that record
// their Close.  The teardown is examined at every point of worker():
//
//   - parked:  ctl.mu is held by a CloseProxy of the session's own proxy that the harness started and parked at
//     the gate `close.deleted` (inside the critical section), so that the worker — whatever it does before —
//     waits at ctl.mu.Lock(); connections are offered while it waits, then the lock is released.
//   - racing:  `perace` ends sessions while goroutines offer connections as fast as they can, many rounds.
//
// Ops => result
//
//	pereset                            new resource controller / proxy manager                    -
//	pelogin <sid> <pool>               NewControl{PoolCount} + Start                               ok
//	peproxy <sid>                      RegisterProxy tcp                                            ok | err
//	peoffer <sid> <wid>                RegisterWorkConn                                             P | R (full: closed by the caller) | E (ended: closed by the caller)
//	petake <sid>                       GetWorkConn                                                  got:<wid> | err
//	pehold <sid>                       CloseProxy parked at close.deleted (holds ctl.mu)            held | nohold
//	peend <sid>                        the client closes the control connection                     done:w=<closed>/<open> | blocked | stuck
//	perelease <sid>                    un-park the CloseProxy, wait for the end                     done:w=<closed>/<open> | stuck | alive (not ended)
//	pecensus <sid>                     the accepted, not handed-out connections                     w=<closed>/<open>
//	perace <pool> <hammers> <rounds>   sessions ended under a storm of offers                       clean | stranded
package main

import (
	"bytes"
	"context"
	"errors"
	"fmt"
	"math/rand"
	"net"
	"os"
	"runtime"
	"strconv"
	"strings"
	"sync"
	"sync/atomic"
	"time"

	"github.com/fatedier/frp/pkg/auth"
	v1 "github.com/fatedier/frp/pkg/config/v1"
	pkgerr "github.com/fatedier/frp/pkg/errors"
	"github.com/fatedier/frp/pkg/msg"
	"github.com/fatedier/frp/pkg/nathole"
	plugin "github.com/fatedier/frp/pkg/plugin/server"
	"github.com/fatedier/frp/pkg/util/log"
	"github.com/fatedier/frp/pkg/util/tcpmux"
	"github.com/fatedier/frp/pkg/util/verifhook"
	"github.com/fatedier/frp/pkg/util/vhost"
	"github.com/fatedier/frp/server"
	"github.com/fatedier/frp/server/controller"
	"github.com/fatedier/frp/server/group"
	"github.com/fatedier/frp/server/ports"
	"github.com/fatedier/frp/server/proxy"
	"github.com/fatedier/frp/server/visitor"
)

// a work connection as the Control sees it: something that can be closed
type peConn struct {
	id     string
	closed atomic.Bool
	done   chan struct{}
	once   sync.Once
}

type peAddr struct{}

func (peAddr) Network() string { return "pe" }
func (peAddr) String() string  { return "pe" }

func newPeConn(id string) *peConn { return &peConn{id: id, done: make(chan struct{})} }

func (c *peConn) Read(b []byte) (int, error) {
	<-c.done
	return 0, net.ErrClosed
}

func (c *peConn) Write(b []byte) (int, error) {
	if c.closed.Load() {
		return 0, net.ErrClosed
	}
	return len(b), nil
}

func (c *peConn) Close() error {
	c.once.Do(func() { c.closed.Store(true); close(c.done) })
	return nil
}
func (c *peConn) LocalAddr() net.Addr                { return peAddr{} }
func (c *peConn) RemoteAddr() net.Addr               { return peAddr{} }
func (c *peConn) SetDeadline(t time.Time) error      { return nil }
func (c *peConn) SetReadDeadline(t time.Time) error  { return nil }
func (c *peConn) SetWriteDeadline(t time.Time) error { return nil }

type peSess struct {
	sid      string
	ctl      *server.Control
	client   net.Conn
	proxy    string
	accepted []*peConn // RegisterWorkConn returned nil
	handed   map[string]bool
	holdArm  atomic.Bool
	held     chan struct{}
	release  chan struct{}
	holding  bool
	ended    bool
	done     chan struct{}
}

type peState struct {
	cfg  *v1.ServerConfig
	rc   *controller.ResourceController
	pm   *proxy.Manager
	lns  []net.Listener
	mu   sync.Mutex
	sess map[string]*peSess
}

var peSt *peState

func (st *peState) get(sid string) *peSess {
	st.mu.Lock()
	defer st.mu.Unlock()
	return st.sess[sid]
}

// the part of the hook that belongs to the pe sessions (hostname "pe-<sid>")
func peHook(point string, keys []string) {
	st := peSt
	if st == nil || point != "close.deleted" {
		return
	}
	s := st.get(strings.TrimPrefix(keys[1], "pe-"))
	if s != nil && s.holdArm.CompareAndSwap(true, false) {
		close(s.held)
		<-s.release
	}
}

func peInstallHook() {
	verifhook.Set(func(point string, keys []string) {
		if len(keys) >= 2 && strings.HasPrefix(keys[1], "pe-") {
			peHook(point, keys)
			return
		}
		poolHook(point, keys)
	})
}

func peClose() {
	st := peSt
	if st == nil {
		return
	}
	for _, s := range st.sess {
		if s.holding {
			s.holding = false
			close(s.release)
		}
		s.client.Close()
	}
	for _, s := range st.sess {
		select {
		case <-s.done:
		case <-time.After(2 * time.Second):
		}
	}
	for _, l := range st.lns {
		l.Close()
	}
	peSt = nil
}

func peReset() {
	peClose()
	log.InitLogger(os.DevNull, "error", 0, true)
	st := &peState{sess: map[string]*peSess{}}
	cfg := &v1.ServerConfig{}
	cfg.Complete()
	cfg.ProxyBindAddr = "127.0.0.1"
	cfg.UserConnTimeout = 1
	st.cfg = cfg
	routers := vhost.NewRouters()
	tcpPM := ports.NewManager("tcp", cfg.ProxyBindAddr, cfg.AllowPorts)
	l1, err := net.Listen("tcp", "127.0.0.1:0")
	if err != nil {
		panic(err)
	}
	l2, err := net.Listen("tcp", "127.0.0.1:0")
	if err != nil {
		panic(err)
	}
	st.lns = []net.Listener{l1, l2}
	httpsMux, _ := vhost.NewHTTPSMuxer(l1, 2*time.Second)
	tmux, _ := tcpmux.NewHTTPConnectTCPMuxer(l2, false, 2*time.Second)
	nc, _ := nathole.NewController(time.Hour)
	st.rc = &controller.ResourceController{
		VisitorManager:         visitor.NewManager(),
		TCPPortManager:         tcpPM,
		UDPPortManager:         ports.NewManager("udp", cfg.ProxyBindAddr, cfg.AllowPorts),
		TCPGroupCtl:            group.NewTCPGroupCtl(tcpPM),
		HTTPGroupCtl:           group.NewHTTPGroupController(routers),
		HTTPReverseProxy:       vhost.NewHTTPReverseProxy(vhost.HTTPReverseProxyOptions{}, routers),
		VhostHTTPSMuxer:        httpsMux,
		TCPMuxHTTPConnectMuxer: tmux,
		NatHoleController:      nc,
		PluginManager:          plugin.NewManager(),
	}
	st.rc.TCPMuxGroupCtl = group.NewTCPMuxGroupCtl(tmux)
	st.pm = proxy.NewManager()
	peSt = st
}

// a Control on a pipe; the client end is read (and thrown away) by the harness
func (st *peState) newCtl(hostname, runID string, pool int) (*server.Control, net.Conn, error) {
	a, b := net.Pipe()
	go func() {
		buf := make([]byte, 4096)
		for {
			if _, err := b.Read(buf); err != nil {
				return
			}
		}
	}()
	login := &msg.Login{RunID: runID, Hostname: hostname, PoolCount: pool}
	c, err := server.NewControl(context.Background(), st.rc, st.pm, st.rc.PluginManager,
		auth.NewAuthVerifier(st.cfg.Auth), a, false, login, st.cfg)
	if err != nil {
		a.Close()
		b.Close()
		return nil, nil, err
	}
	c.Start()
	return c, b, nil
}

// is a goroutine inside (*Control).worker waiting for a mutex?
func peWorkerAtLock() bool {
	buf := make([]byte, 1<<20)
	for {
		n := runtime.Stack(buf, true)
		if n < len(buf) {
			buf = buf[:n]
			break
		}
		buf = make([]byte, 2*len(buf))
	}
	for _, blk := range bytes.Split(buf, []byte("\n\n")) {
		if bytes.Contains(blk, []byte("server.(*Control).worker(")) && bytes.Contains(blk, []byte("sync.(*Mutex).Lock")) {
			return true
		}
	}
	return false
}

func (s *peSess) census() string {
	closed, open := 0, 0
	for _, c := range s.accepted {
		if s.handed[c.id] {
			continue
		}
		d := 300 * time.Millisecond
		if open > 0 {
			d = 20 * time.Millisecond
		}
		if poolUntil(d, c.closed.Load) {
			closed++
		} else {
			open++
		}
	}
	return fmt.Sprintf("w=%d/%d", closed, open)
}

func (s *peSess) waitDone(d time.Duration) bool {
	select {
	case <-s.done:
		return true
	case <-time.After(d):
		return false
	}
}

func poolPeExec(tok []string) string {
	peInstallHook()
	if tok[0] == "pereset" {
		peReset()
		return "-"
	}
	if peSt == nil {
		peReset()
	}
	st := peSt
	if tok[0] == "perace" {
		return st.race(atoi(tok[1]), atoi(tok[2]), atoi(tok[3]))
	}
	if tok[0] == "pelogin" {
		sid := tok[1]
		ctl, client, err := st.newCtl("pe-"+sid, "pe-run-"+sid, atoi(tok[2]))
		if err != nil {
			return "err"
		}
		s := &peSess{sid: sid, ctl: ctl, client: client, handed: map[string]bool{}, held: make(chan struct{}),
			release: make(chan struct{}), done: make(chan struct{})}
		go func() { ctl.WaitClosed(); close(s.done) }()
		st.mu.Lock()
		st.sess[sid] = s
		st.mu.Unlock()
		return "ok"
	}
	if len(tok) < 2 {
		return "badop"
	}
	s := st.get(tok[1])
	if s == nil {
		return "nosess"
	}
	switch tok[0] {
	case "peproxy":
		if s.proxy != "" {
			return "err"
		}
		name := "pe-p-" + s.sid
		if _, err := s.ctl.RegisterProxy(&msg.NewProxy{ProxyName: name, ProxyType: "tcp", RemotePort: 0}); err != nil {
			return "err"
		}
		s.proxy = name
		return "ok"
	case "peoffer":
		c := newPeConn(tok[2])
		err := s.ctl.RegisterWorkConn(c)
		switch {
		case err == nil:
			s.accepted = append(s.accepted, c)
			return "P"
		case errors.Is(err, pkgerr.ErrCtlClosed):
			c.Close() // handleConnection: `if err := svr.RegisterWorkConn(…); err != nil { conn.Close() }`
			return "E"
		}
		c.Close()
		return "R"
	case "petake":
		type res struct {
			c   net.Conn
			err error
		}
		ch := make(chan res, 1)
		go func() { c, err := s.ctl.GetWorkConn(); ch <- res{c, err} }()
		select {
		case r := <-ch:
			if r.err != nil || r.c == nil {
				return "err"
			}
			pc, ok := r.c.(*peConn)
			if !ok {
				return "err:foreign"
			}
			s.handed[pc.id] = true
			return "got:" + pc.id
		case <-time.After(3 * time.Second):
			return "stuck"
		}
	case "pehold":
		if s.proxy == "" || s.holding {
			return "nohold"
		}
		s.holdArm.Store(true)
		name := s.proxy
		go func() { _ = s.ctl.CloseProxy(&msg.CloseProxy{ProxyName: name}) }()
		select {
		case <-s.held:
			s.holding = true
			s.proxy = ""
			return "held"
		case <-time.After(2 * time.Second):
			s.holdArm.Store(false)
			return "nohold"
		}
	case "peend":
		s.ended = true
		s.client.Close()
		if !s.holding {
			if s.waitDone(2 * time.Second) {
				return "done:" + s.census()
			}
			return "stuck"
		}
		// the worker must come to rest at ctl.mu.Lock() (or finish, if it never takes the lock)
		deadline := time.Now().Add(2 * time.Second)
		for time.Now().Before(deadline) {
			select {
			case <-s.done:
				return "done:" + s.census()
			default:
			}
			if peWorkerAtLock() {
				return "blocked"
			}
			time.Sleep(200 * time.Microsecond)
		}
		return "stuck"
	case "perelease":
		if !s.holding {
			return "nohold"
		}
		s.holding = false
		close(s.release)
		if !s.ended {
			return "alive"
		}
		if s.waitDone(2 * time.Second) {
			return "done:" + s.census()
		}
		return "stuck"
	case "pecensus":
		return s.census()
	}
	return "badop"
}

// sessions ended while <hammers> goroutines offer connections as fast as they can.  Every connection whose
// registration succeeded must be closed once WaitClosed has returned (nobody takes connections here).
func (st *peState) race(pool, hammers, rounds int) string {
	stranded := 0
	for r := 0; r < rounds && stranded == 0; r++ {
		ctl, client, err := st.newCtl("pe-race", "pe-race-"+strconv.Itoa(r), pool)
		if err != nil {
			return "err"
		}
		var stop atomic.Bool
		var wg sync.WaitGroup
		acc := make([][]*peConn, hammers)
		for h := 0; h < hammers; h++ {
			wg.Add(1)
			go func(h int) {
				defer wg.Done()
				c := newPeConn("r")
				for n := 0; !stop.Load() && n < 2000000; n++ {
					err := ctl.RegisterWorkConn(c)
					if err == nil {
						acc[h] = append(acc[h], c)
						c = newPeConn("r")
						continue
					}
					if errors.Is(err, pkgerr.ErrCtlClosed) {
						break
					}
				}
				c.Close() // never accepted: the caller's to close
			}(h)
		}
		// let the storm start, vary the moment of the end a little
		for i := 0; i < 200*(1+r%4); i++ {
			runtime.Gosched()
		}
		client.Close()
		done := make(chan struct{})
		go func() { ctl.WaitClosed(); close(done) }()
		ended := true
		select {
		case <-done:
		case <-time.After(2 * time.Second):
			ended = false
		}
		stop.Store(true)
		wg.Wait()
		if !ended {
			return "stuck"
		}
		for _, l := range acc {
			for _, c := range l {
				if !c.closed.Load() && !poolUntil(50*time.Millisecond, c.closed.Load) {
					stranded++
				}
			}
		}
		// leave nothing behind
		for _, l := range acc {
			for _, c := range l {
				c.Close()
			}
		}
	}
	if stranded > 0 {
		return "stranded"
	}
	return "clean"
}

// ---------------------------------------------------------------- generator

// one episode on the real Control: a session with a generated pool size, connections offered up to and beyond
// the capacity, some taken, the end either free-running or parked at ctl.mu (a CloseProxy of the session held
// at `close.deleted`) with further offers / takes while it waits, offers after the end, the census; then a
// storm (`perace`).  The ops are emitted without counting towards the run's length and the choices come from a
// stream of their own, so that the episodes of the older parts stay what the same VERIF_SEED produced before.
func (g *poolGen) peEpisode(rng *rand.Rand) {
	g.npe++
	sid := "e" + strconv.Itoa(g.npe)
	wid := func() string { g.npw++; return "w" + strconv.Itoa(90000+g.npw) }
	pool := pick(rng, []int{0, 0, 1, 3, 5, 9})
	capacity := min(pool, 5) + 10
	g.emit("pereset")
	g.emit(fmt.Sprintf("pelogin %s %d", sid, pool))
	hasProxy := rng.Intn(4) != 0
	if hasProxy {
		g.emit("peproxy " + sid)
	}
	pooled := 0
	offers := func(n int) {
		for i := 0; i < n; i++ {
			g.emit(fmt.Sprintf("peoffer %s %s", sid, wid()))
		}
	}
	n0 := pick(rng, []int{0, 1, 2, 3, capacity - 1, capacity, capacity + 2})
	offers(n0)
	pooled = min(n0, capacity)
	for t := rng.Intn(3); t > 0 && pooled > 0; t-- {
		g.emit("petake " + sid)
		pooled--
		if rng.Intn(2) == 0 {
			offers(1)
			pooled++
		}
	}
	hold := hasProxy && rng.Intn(4) != 0
	if hold {
		g.emit("pehold " + sid)
	}
	g.emit("peend " + sid)
	if hold {
		// the worker waits at ctl.mu.Lock(): the session is ending, its pool still takes connections
		offers(pick(rng, []int{0, 1, 1, 2, 4, capacity + 1}))
		if pooled > 0 && rng.Intn(3) == 0 {
			g.emit("petake " + sid) // a handler that was already running
		}
		if rng.Intn(3) == 0 {
			offers(1)
		}
		g.emit("perelease " + sid)
	}
	offers(rng.Intn(3))
	g.emit("pecensus " + sid)
	g.emit(fmt.Sprintf("perace %d %d %d", pool, pick(rng, []int{1, 2, 4, 8, 12}), 30))
}
