package main

import (
	"bufio"
	"bytes"
	"encoding/base64"
	"errors"
	"fmt"
	"hash/fnv"
	"io"
	"net"
	"net/http"
	"net/http/httputil"
	"net/url"
	"os"
	"sort"
	"strconv"
	"strings"
	"sync"
	"time"

	httppkg "github.com/fatedier/frp/pkg/util/http"
	"github.com/fatedier/frp/pkg/util/log"
	"github.com/fatedier/frp/pkg/util/vhost"
)

// Engine "http" (property C02): the real vhost.HTTPReverseProxy behind a real http.Server; every
// route's CreateConnFn hands out one end of a net.Pipe served by a RECORDING raw HTTP/1.1 backend.
//
//	reset
//	reg <id> <domain> <loc> <routeUser> <rewriteHost> <hdrs> <rhdrs> <mode>    => ok|conflict
//	      hdrs/rhdrs = "-" | k:v,k:v (hex each), applied as RouteConfig.Headers/ResponseHeaders;
//	      mode = ok | unreach (CreateConnFn returns an error) | silent (backend reads, never answers)
//	unreg <domain> <loc> <routeUser>                                          => -
//	req <cli> <form o|a> <method> <host> <path> <query|-> <routeUser|-> <hdrs> <body> <status> <rhdrs> <rbody> <keep>
//	      body  = "-" | cl:<tok> | ch:<tok>   rbody = "-" | cl:<tok> | ch:<tok> | eof:<tok>
//	      tok   = <seed>.<len>.<hash>  (bytes = httpEngBytes(seed,len); hash = fnv32a)
//	   => be=<id|-> rt=<id|-> ow=<cur|live|gone> c=<connNo><n|r>|- m=<hex> t=<hex target> h=<hex Host> hd=<hdrs> fr=<cl|ch|no> b=<len.hash|->
//	      ! st=<code> hd=<hdrs> fr=<..> b=<len.hash|page|->      (what the backend saw ! what the user saw)
//	ws  <host> <path> <routeUser|-> <up tok> <down tok>      => be=.. rt=.. st=101 cu=<hex Connection|Upgrade seen by backend> up=<len.hash> down=<len.hash>
//	connect <host> <routeUser|-> <up tok> <down tok>          => be=.. rt=.. st=200 t=<hex target> up=.. down=..
//	silent <hostSilent> <hostOther>   => st=504 bound=ok|slow|fast other=<code>:<be>
//	treq <the 13 fields of req> <upGaps|-> <thinkMs> <downGaps|->   => as req (+ " end=cut" when the user's read of the body failed)
//	      TIMED exchange: the user sends the request body in len(upGaps) pieces, sleeping upGaps[i] ms before piece i;
//	      the backend sleeps thinkMs before its header block and downGaps[i] ms before piece i of its body
//	      (gaps = g1.g2.…; pieces = the body cut into equal parts). ResponseHeaderTimeoutS is 1.
//	tws <host> <path> <routeUser|-> <up tok> <down tok> <gaps>   => as ws;  tconnect <host> <routeUser|-> <up> <down> <gaps> => as connect
//	      gaps = u1.d1.u2.d2…: k rounds; round i: the user idles u_i ms, sends piece i of up, the backend reads it,
//	      idles d_i ms, sends piece i of down, the user reads it
//
// The user side talks raw HTTP/1.1 over loopback TCP from 127.0.0.<2+cli> on persistent
// connections (keep-alive request sequences).
type httpEngSeen struct {
	be     int
	conn   int
	method string
	target string
	host   string
	hdr    [][2]string // raw header lines in wire order (name, value)
	fr     string
	body   []byte
	up     []byte
	spec   *httpEngRespSpec // the op this record belongs to
	part   bool             // fault ops: the request did not arrive completely (body = what did arrive)
}

type httpEngRespSpec struct {
	status int
	hdr    [][2]string
	kind   string // "-", cl, ch, eof
	body   []byte
	keep   bool
	tunUp  int // upgrade / connect: bytes to read from the user
	tunDn  []byte
	// timed exchanges
	think   time.Duration // before the response header block
	dnGaps  []int         // ms before each piece of the response body
	tunGaps []int         // tunnels: u1.d1.u2.d2… (nil = one round, no idling)
	// fault ops (eng_http_fault.go): 'd' the backend dies after faultAt bytes of its answer body, 'q' after it has
	// read faultAt bytes of the request body (no answer), 'u' the USER dies after faultAt bytes of its request body
	fault   byte
	faultAt int
}

// b cut into k pieces of len(b)/k bytes, the last one takes the remainder
func httpEngSplit(b []byte, k int) [][]byte {
	if k <= 1 {
		return [][]byte{b}
	}
	n := len(b) / k
	out := make([][]byte, 0, k)
	for i := 0; i < k; i++ {
		if i == k-1 {
			out = append(out, b)
		} else {
			out = append(out, b[:n])
			b = b[n:]
		}
	}
	return out
}

func httpEngGaps(t string) []int {
	if t == "-" || t == "" {
		return nil
	}
	var out []int
	for _, p := range strings.Split(t, ".") {
		out = append(out, atoi(p))
	}
	return out
}

func httpEngSum(g []int) time.Duration {
	n := 0
	for _, x := range g {
		n += x
	}
	return time.Duration(n) * time.Millisecond
}

type httpEngRoute struct {
	id               int
	domain, loc, usr string
	respVals         map[string]string // configured response headers, canonical key -> value
}

type httpEngClient struct {
	c  net.Conn
	br *bufio.Reader
}

type httpEngState struct {
	mu      sync.Mutex
	rp      *vhost.HTTPReverseProxy
	srv     *http.Server
	addr    string
	clients map[int]*httpEngClient
	connSeq int
	spec    *httpEngRespSpec
	seenCh  chan *httpEngSeen
	routes  map[string]httpEngRoute  // mirror of successful registrations (for rt=)
	hit     map[*httpEngRespSpec]int // op -> the backend that received its request (recorded BEFORE it answers)
	conns   []net.Conn
	page    []byte
}

var httpEng *httpEngState

func httpEngBytes(seed, n int) []byte {
	b := make([]byte, n)
	x := uint32(seed)*2654435761 + 12345
	for i := range b {
		x = x*1664525 + 1013904223
		b[i] = byte(x >> 24)
	}
	return b
}

func httpEngHash(b []byte) string {
	h := fnv.New32a()
	h.Write(b)
	return fmt.Sprintf("%d.%d", len(b), h.Sum32())
}

func httpEngTok(seed, n int) string {
	return fmt.Sprintf("%d.%s", seed, httpEngHash(httpEngBytes(seed, n)))
}

func httpEngTokBytes(tok string) []byte {
	p := strings.Split(tok, ".")
	return httpEngBytes(atoi(p[0]), atoi(p[1]))
}

// a connected pair: loopback TCP (net.Pipe with HTTPENG_PIPE=1)
func httpEngPair() (net.Conn, net.Conn) {
	if os.Getenv("HTTPENG_PIPE") != "" { // net.Pipe is unbuffered: Transport write/read races truncate some answers
		return net.Pipe()
	}
	ln, err := net.Listen("tcp", "127.0.0.1:0")
	if err != nil {
		panic(err)
	}
	defer ln.Close()
	ch := make(chan net.Conn, 1)
	go func() {
		c, _ := ln.Accept()
		ch <- c
	}()
	a, err := net.Dial("tcp", ln.Addr().String())
	if err != nil {
		panic(err)
	}
	return a, <-ch
}

func (st *httpEngState) shutdown() {
	st.srv.Close()
	for _, c := range st.clients {
		c.c.Close()
	}
	st.mu.Lock()
	for _, c := range st.conns {
		c.Close()
	}
	st.mu.Unlock()
}

// a fresh world: real Routers + HTTPReverseProxy behind a real http.Server on loopback
func httpEngNew() (*httpEngState, *vhost.Routers) {
	if os.Getenv("HTTPENG_DEBUG") != "" {
		log.InitLogger("console", "trace", 0, true)
	}
	st := &httpEngState{clients: map[int]*httpEngClient{}, seenCh: make(chan *httpEngSeen, 64), routes: map[string]httpEngRoute{},
		hit: map[*httpEngRespSpec]int{}}
	routers := vhost.NewRouters()
	st.rp = vhost.NewHTTPReverseProxy(vhost.HTTPReverseProxyOptions{ResponseHeaderTimeoutS: 1}, routers)
	ln, err := net.Listen("tcp", "127.0.0.1:0")
	if err != nil {
		panic(err)
	}
	st.srv = &http.Server{Handler: st.rp, ReadHeaderTimeout: 60 * time.Second}
	go func() { _ = st.srv.Serve(ln) }()
	st.addr = ln.Addr().String()
	st.page, _ = io.ReadAll(vhost.NotFoundResponse().Body)
	return st, routers
}

func httpEngReset() {
	if httpEng != nil {
		httpEng.shutdown()
	}
	httpEng, _ = httpEngNew()
}

func httpEngParseHdrs(t string) [][2]string {
	if t == "-" {
		return nil
	}
	var out [][2]string
	for _, kv := range strings.Split(t, ",") {
		p := strings.SplitN(kv, ":", 2)
		out = append(out, [2]string{unhx(p[0]), unhx(p[1])})
	}
	return out
}

func httpEngHdrMap(h [][2]string) map[string]string {
	if h == nil {
		return nil
	}
	m := map[string]string{}
	for _, kv := range h {
		m[kv[0]] = kv[1]
	}
	return m
}

// canonical rendering of a header multimap: keys sorted, values in order, hex; framing and
// connection-management headers are reported separately (fr=) and left out here.
// known[k] != nil marks k as volatile (Date, Content-Type: the http.Server generates them itself when
// the handler did not set them): a value of k is rendered verbatim only if it is one of known[k] — a
// value the backend sent or the route configures — and as "*" otherwise.  Value-based on purpose: frp's
// own 404 / 504 answers never pass ModifyResponse, so a route that configures a response header named
// Date still shows the server's clock on them.
func httpEngFmtHdr(h map[string][]string, known map[string]map[string]bool) string {
	var keys []string
	for k := range h {
		switch k {
		case "Content-Length", "Transfer-Encoding":
			continue
		}
		keys = append(keys, k)
	}
	sort.Strings(keys)
	if len(keys) == 0 {
		return "-"
	}
	var parts []string
	for _, k := range keys {
		s := hx(k)
		for _, v := range h[k] {
			if vals, volatile := known[k]; volatile && !vals[v] {
				v = "*"
			}
			s += ":" + hx(v)
		}
		parts = append(parts, s)
	}
	return strings.Join(parts, ",")
}

// the volatile response headers and the values that are NOT the server's own: what the backend put
// into its answer (only if it was asked at all) and what the route configures
func httpEngKnownVals(spec *httpEngRespSpec, backendAsked bool, configured map[string]string) map[string]map[string]bool {
	known := map[string]map[string]bool{"Date": {}, "Content-Type": {}}
	if backendAsked {
		for _, kv := range spec.hdr {
			if m, ok := known[http.CanonicalHeaderKey(kv[0])]; ok {
				m[kv[1]] = true
			}
		}
	}
	for k, v := range configured {
		if m, ok := known[k]; ok {
			m[v] = true
		}
	}
	return known
}

// ---- the recording backend (raw HTTP/1.1 on one end of a net.Pipe) ----

func (st *httpEngState) backend(id, connNo int, mode string, c net.Conn) {
	defer c.Close()
	if os.Getenv("HTTPENG_DEBUG") != "" {
		defer func() { fmt.Fprintf(os.Stderr, "backend %d conn %d exits\n", id, connNo) }()
	}
	br := bufio.NewReader(c)
	for {
		line, err := br.ReadString('\n')
		if err != nil {
			return
		}
		line = strings.TrimRight(line, "\r\n")
		p := strings.SplitN(line, " ", 3)
		if len(p) != 3 {
			return
		}
		seen := &httpEngSeen{be: id, conn: connNo, method: p[0], target: p[1], fr: "no"}
		if os.Getenv("HTTPENG_DEBUG") != "" {
			fmt.Fprintf(os.Stderr, "backend %d conn %d got %s\n", id, connNo, line)
		}
		cl, chunked := -1, false
		for {
			l, err := br.ReadString('\n')
			if err != nil {
				return
			}
			l = strings.TrimRight(l, "\r\n")
			if l == "" {
				break
			}
			i := strings.IndexByte(l, ':')
			if i < 0 {
				return
			}
			k, v := l[:i], strings.TrimLeft(l[i+1:], " ")
			switch strings.ToLower(k) {
			case "host":
				seen.host = v
				continue
			case "content-length":
				cl, _ = strconv.Atoi(v)
			case "transfer-encoding":
				chunked = strings.EqualFold(v, "chunked")
			}
			seen.hdr = append(seen.hdr, [2]string{k, v})
		}
		st.mu.Lock()
		cur := st.spec
		st.mu.Unlock()
		// fault ops: an incomplete request is recorded too (what arrived of it)
		partial := func(b []byte) {
			if cur == nil || cur.fault == 0 {
				return
			}
			seen.body, seen.part, seen.spec = b, true, cur
			st.mu.Lock()
			st.hit[cur] = id
			st.mu.Unlock()
			st.seenCh <- seen
		}
		if cur != nil && cur.fault == 'q' && (chunked || cl >= 0) {
			// this backend dies while the request body is still coming in: faultAt wire bytes of it, no answer
			seen.fr = "cl"
			if chunked {
				seen.fr = "ch"
			}
			_ = c.SetReadDeadline(time.Now().Add(2 * time.Second))
			b := make([]byte, cur.faultAt)
			n, _ := io.ReadFull(br, b)
			partial(b[:n])
			return
		}
		switch {
		case chunked:
			seen.fr = "ch"
			b, err := io.ReadAll(httputil.NewChunkedReader(br))
			if err != nil {
				partial(b)
				return
			}
			// trailer section terminator
			if _, err := br.ReadString('\n'); err != nil {
				partial(b)
				return
			}
			seen.body = b
		case cl >= 0:
			seen.fr = "cl"
			b := make([]byte, cl)
			if n, err := io.ReadFull(br, b); err != nil {
				partial(b[:n])
				return
			}
			seen.body = b
		}
		st.mu.Lock()
		seen.spec = st.spec
		if seen.spec != nil {
			st.hit[seen.spec] = id
		}
		st.mu.Unlock()
		if mode == "silent" {
			st.seenCh <- seen
			_, _ = io.Copy(io.Discard, br) // never answers; returns when the transport gives up
			return
		}
		spec := seen.spec
		if spec == nil {
			return
		}
		if spec.tunDn != nil || spec.tunUp > 0 {
			// upgrade / CONNECT: answer, then a raw tunnel
			if seen.method == "CONNECT" {
				fmt.Fprintf(c, "HTTP/1.1 200 Connection established\r\n\r\n")
			} else {
				fmt.Fprintf(c, "HTTP/1.1 101 Switching Protocols\r\nConnection: Upgrade\r\nUpgrade: websocket\r\n\r\n")
			}
			gaps := spec.tunGaps
			if len(gaps) < 2 {
				gaps = []int{0, 0}
			}
			k := len(gaps) / 2
			_ = c.SetReadDeadline(time.Now().Add(5*time.Second + httpEngSum(gaps)))
			dns := httpEngSplit(spec.tunDn, k)
			for i, upn := range httpEngSplit(make([]byte, spec.tunUp), k) {
				up := make([]byte, len(upn))
				n, err := io.ReadFull(br, up)
				seen.up = append(seen.up, up[:n]...)
				if err != nil {
					break
				}
				time.Sleep(time.Duration(gaps[2*i+1]) * time.Millisecond)
				if _, err := c.Write(dns[i]); err != nil {
					break
				}
			}
			st.seenCh <- seen
			_, _ = io.Copy(io.Discard, br)
			return
		}
		st.seenCh <- seen
		if spec.fault == 'd' {
			httpEngDieInBody(c, spec)
			return
		}
		if spec.think > 0 {
			time.Sleep(spec.think)
		}
		var w bytes.Buffer
		fmt.Fprintf(&w, "HTTP/1.1 %d %s\r\n", spec.status, http.StatusText(spec.status))
		for _, kv := range spec.hdr {
			fmt.Fprintf(&w, "%s: %s\r\n", kv[0], kv[1])
		}
		noBody := seen.method == "HEAD"
		if len(spec.dnGaps) > 0 && !noBody && (spec.kind == "cl" || spec.kind == "ch" || spec.kind == "eof") {
			// timed body: header block at once, then the pieces at their times
			switch spec.kind {
			case "cl":
				fmt.Fprintf(&w, "Content-Length: %d\r\n", len(spec.body))
			case "ch":
				w.WriteString("Transfer-Encoding: chunked\r\n")
			}
			if !spec.keep || spec.kind == "eof" {
				w.WriteString("Connection: close\r\n")
			}
			w.WriteString("\r\n")
			if _, err := c.Write(w.Bytes()); err != nil {
				return
			}
			for i, piece := range httpEngSplit(spec.body, len(spec.dnGaps)) {
				time.Sleep(time.Duration(spec.dnGaps[i]) * time.Millisecond)
				if len(piece) == 0 {
					continue
				}
				var err error
				if spec.kind == "ch" {
					_, err = fmt.Fprintf(c, "%x\r\n%s\r\n", len(piece), piece)
				} else {
					_, err = c.Write(piece)
				}
				if err != nil {
					return
				}
			}
			if spec.kind == "ch" {
				if _, err := io.WriteString(c, "0\r\n\r\n"); err != nil {
					return
				}
			}
			if !spec.keep || spec.kind == "eof" {
				return
			}
			continue
		}
		switch spec.kind {
		case "cl":
			fmt.Fprintf(&w, "Content-Length: %d\r\n", len(spec.body))
			if !spec.keep {
				w.WriteString("Connection: close\r\n")
			}
			w.WriteString("\r\n")
			if !noBody {
				w.Write(spec.body)
			}
		case "ch":
			w.WriteString("Transfer-Encoding: chunked\r\n")
			if !spec.keep {
				w.WriteString("Connection: close\r\n")
			}
			w.WriteString("\r\n")
			if !noBody {
				b := spec.body
				for len(b) > 0 {
					n := len(b)/2 + 1
					if n > len(b) {
						n = len(b)
					}
					fmt.Fprintf(&w, "%x\r\n", n)
					w.Write(b[:n])
					w.WriteString("\r\n")
					b = b[n:]
				}
				w.WriteString("0\r\n\r\n")
			}
		case "eof":
			w.WriteString("Connection: close\r\n\r\n")
			if !noBody {
				w.Write(spec.body)
			}
		default: // no body: 204/304 send no framing, everything else Content-Length: 0
			if spec.status != 204 && spec.status != 304 {
				w.WriteString("Content-Length: 0\r\n")
			}
			if !spec.keep {
				w.WriteString("Connection: close\r\n")
			}
			w.WriteString("\r\n")
		}
		if _, err := c.Write(w.Bytes()); err != nil {
			return
		}
		if !spec.keep || spec.kind == "eof" {
			return
		}
	}
}

func (st *httpEngState) routeKey(d, l, u string) string {
	return strings.ToLower(d) + "\x00" + l + "\x00" + u
}

// which registration the real router resolves (host, path, user) to right now
func (st *httpEngState) currentRouteRec(host, path, user string) (httpEngRoute, bool) {
	ch, _ := httppkg.CanonicalHost(host)
	rc := st.rp.GetRouteConfig(ch, path, user)
	if rc == nil {
		return httpEngRoute{}, false
	}
	r, ok := st.routes[st.routeKey(rc.Domain, rc.Location, rc.RouteByHTTPUser)]
	return r, ok
}

// relation of the answering registration to the route table: cur = it owns the route the request
// resolves to, live = it is registered for some other route, gone = it is not registered any more
func (st *httpEngState) ownerNote(be int, rt string) string {
	if strconv.Itoa(be) == rt {
		return "cur"
	}
	for _, r := range st.routes {
		if r.id == be {
			return "live"
		}
	}
	return "gone"
}

func (st *httpEngState) currentRoute(host, path, user string) string {
	if r, ok := st.currentRouteRec(host, path, user); ok {
		return strconv.Itoa(r.id)
	}
	return "-"
}

func (st *httpEngState) client(cli int) (*httpEngClient, error) {
	if c, ok := st.clients[cli]; ok {
		return c, nil
	}
	d := net.Dialer{Timeout: 2 * time.Second, LocalAddr: &net.TCPAddr{IP: net.IPv4(127, 0, 0, byte(2+cli))}}
	c, err := d.Dial("tcp", st.addr)
	if err != nil {
		return nil, err
	}
	hc := &httpEngClient{c: c, br: bufio.NewReader(c)}
	st.clients[cli] = hc
	return hc, nil
}

func (st *httpEngState) dropClient(cli int) {
	if c, ok := st.clients[cli]; ok {
		c.c.Close()
		delete(st.clients, cli)
	}
}

func httpEngBasic(user string) string {
	return "Basic " + base64.StdEncoding.EncodeToString([]byte(user+":pw"))
}

func (st *httpEngState) drainSeen() {
	for {
		select {
		case <-st.seenCh:
		default:
			return
		}
	}
}

func (st *httpEngState) takeSeen(d time.Duration) *httpEngSeen {
	st.mu.Lock()
	cur := st.spec
	st.mu.Unlock()
	deadline := time.After(d)
	for {
		var s *httpEngSeen
		if d == 0 {
			// the backend records before it answers: once the answer is here the record is too
			select {
			case s = <-st.seenCh:
			default:
				return nil
			}
		} else {
			select {
			case s = <-st.seenCh:
			case <-deadline:
				return nil
			}
		}
		if s.spec == cur { // records of earlier ops (late tunnel ends) are dropped
			return s
		}
	}
}

func httpEngSeenHdrMap(s *httpEngSeen) map[string][]string {
	m := map[string][]string{}
	for _, kv := range s.hdr {
		m[kv[0]] = append(m[kv[0]], kv[1])
	}
	return m
}

func httpEngBodySpec(t string) (kind string, b []byte) {
	if t == "-" {
		return "-", nil
	}
	p := strings.SplitN(t, ":", 2)
	return p[0], httpEngTokBytes(p[1])
}

func httpEngWriteChunked(w *bytes.Buffer, b []byte) {
	for len(b) > 0 {
		n := len(b)/3 + 1
		if n > len(b) {
			n = len(b)
		}
		fmt.Fprintf(w, "%x\r\n", n)
		w.Write(b[:n])
		w.WriteString("\r\n")
		b = b[n:]
	}
	w.WriteString("0\r\n\r\n")
}

func (st *httpEngState) connNote(before int, s *httpEngSeen) string {
	if s == nil {
		return "-"
	}
	if s.conn > before {
		return strconv.Itoa(s.conn) + "n"
	}
	return strconv.Itoa(s.conn) + "r"
}

func (st *httpEngState) doReq(tok []string) string {
	cli, form, method, host, path := atoi(tok[1]), tok[2], tok[3], unhx(tok[4]), unhx(tok[5])
	query, hasQ := "", tok[6] != "-"
	if hasQ {
		query = unhx(tok[6])
	}
	user := ""
	if tok[7] != "-" {
		user = unhx(tok[7])
	}
	hdrs := httpEngParseHdrs(tok[8])
	bkind, body := httpEngBodySpec(tok[9])
	spec := &httpEngRespSpec{status: atoi(tok[10]), hdr: httpEngParseHdrs(tok[11]), keep: tok[13] == "1"}
	spec.kind, spec.body = httpEngBodySpec(tok[12])
	timed := tok[0] == "treq"
	var upGaps []int
	if timed {
		upGaps = httpEngGaps(tok[14])
		spec.think = time.Duration(atoi(tok[15])) * time.Millisecond
		spec.dnGaps = httpEngGaps(tok[16])
	}
	st.mu.Lock()
	st.spec = spec
	before := st.connSeq
	st.mu.Unlock()
	st.drainSeen()

	upath := path // req.URL.Path: the percent-decoded path is what routing sees
	if u, err := url.PathUnescape(path); err == nil {
		upath = u
	}
	target := path
	if hasQ {
		target += "?" + query
	}
	var w bytes.Buffer
	if form == "a" {
		fmt.Fprintf(&w, "%s http://%s%s HTTP/1.1\r\nHost: %s\r\n", method, host, target, host)
	} else {
		fmt.Fprintf(&w, "%s %s HTTP/1.1\r\nHost: %s\r\n", method, target, host)
	}
	for _, kv := range hdrs {
		fmt.Fprintf(&w, "%s: %s\r\n", kv[0], kv[1])
	}
	var upPieces [][]byte // timed upload: the header block first, then these at their times
	switch {
	case len(upGaps) > 0 && (bkind == "cl" || bkind == "ch"):
		if bkind == "cl" {
			fmt.Fprintf(&w, "Content-Length: %d\r\n\r\n", len(body))
		} else {
			w.WriteString("Transfer-Encoding: chunked\r\n\r\n")
		}
		for _, piece := range httpEngSplit(body, len(upGaps)) {
			if bkind == "ch" && len(piece) > 0 {
				piece = []byte(fmt.Sprintf("%x\r\n%s\r\n", len(piece), piece))
			}
			upPieces = append(upPieces, piece)
		}
		if bkind == "ch" {
			upPieces = append(upPieces, []byte("0\r\n\r\n"))
		}
	case bkind == "cl":
		fmt.Fprintf(&w, "Content-Length: %d\r\n\r\n", len(body))
		w.Write(body)
	case bkind == "ch":
		w.WriteString("Transfer-Encoding: chunked\r\n\r\n")
		httpEngWriteChunked(&w, body)
	default:
		w.WriteString("\r\n")
	}
	slack := httpEngSum(upGaps) + spec.think + httpEngSum(spec.dnGaps)

	var resp *http.Response
	var rb []byte
	cut := false
	for attempt := 0; ; attempt++ {
		hc, err := st.client(cli)
		if err != nil {
			return "dialerr"
		}
		_ = hc.c.SetDeadline(time.Now().Add(10*time.Second + slack))
		_, werr := hc.c.Write(w.Bytes())
		for i, piece := range upPieces {
			if werr != nil {
				break
			}
			if i < len(upGaps) {
				time.Sleep(time.Duration(upGaps[i]) * time.Millisecond)
			}
			if len(piece) > 0 {
				if _, e := hc.c.Write(piece); e != nil {
					break // the proxy gave up on the upload: its answer (if any) is read below
				}
			}
		}
		if werr == nil {
			resp, err = http.ReadResponse(hc.br, &http.Request{Method: method})
			if err == nil {
				rb, err = io.ReadAll(resp.Body)
				resp.Body.Close()
				if err != nil && timed {
					// a timed body that ends early is a result, not noise: reported, never retried
					st.dropClient(cli)
					cut = true
					break
				}
				if err != nil {
					// answer cut short. Seen about once in 20000 requests on loopback TCP (and on 3 % of
					// the requests with a body when the backend connection is an unbuffered net.Pipe):
					// retried once, a second truncation is reported.
					st.dropClient(cli)
					if attempt >= 1 {
						return "bodyerr:" + hx(err.Error())
					}
					time.Sleep(20 * time.Millisecond)
					st.drainSeen()
					continue
				}
				if resp.Close {
					st.dropClient(cli)
				}
				break
			}
		}
		// a persistent connection the server had already closed: redial once
		st.dropClient(cli)
		if attempt >= 1 {
			return "readerr"
		}
	}
	seen := st.takeSeen(0)
	var sb strings.Builder
	if seen != nil {
		rt := st.currentRoute(host, upath, user)
		fmt.Fprintf(&sb, "be=%d rt=%s ow=%s c=%s m=%s t=%s h=%s hd=%s fr=%s b=%s", seen.be, rt, st.ownerNote(seen.be, rt),
			st.connNote(before, seen), hx(seen.method), hx(seen.target), hx(seen.host), httpEngFmtHdr(httpEngSeenHdrMap(seen), nil), seen.fr, httpEngBodyNote(seen.body, seen.fr != "no"))
	} else {
		fmt.Fprintf(&sb, "be=- rt=%s c=-", st.currentRoute(host, upath, user))
	}
	// Date / Content-Type values the http.Server generates itself (neither the backend nor the
	// route's configured response headers supply that value) are rendered as "*"
	cur, _ := st.currentRouteRec(host, upath, user)
	star := httpEngKnownVals(spec, seen != nil, cur.respVals)
	uh := map[string][]string(resp.Header.Clone())
	delete(uh, "Connection")
	fr := "no"
	switch {
	case len(resp.TransferEncoding) > 0:
		fr = "ch"
	case resp.ContentLength >= 0:
		fr = "cl"
	case resp.ContentLength < 0 && resp.Close:
		fr = "eof"
	}
	bn := httpEngBodyNote(rb, len(rb) > 0)
	if bytes.Equal(rb, st.page) {
		bn = "page"
	}
	fmt.Fprintf(&sb, " ! st=%d hd=%s fr=%s b=%s", resp.StatusCode, httpEngFmtHdr(uh, star), fr, bn)
	if cut {
		sb.WriteString(" end=cut")
	}
	return sb.String()
}

func btoi(b bool) int {
	if b {
		return 1
	}
	return 0
}

func httpEngBodyNote(b []byte, present bool) string {
	if !present && len(b) == 0 {
		return "-"
	}
	return httpEngHash(b)
}

// ws / connect: one fresh user connection, a raw tunnel after the handshake
func (st *httpEngState) doTunnel(kind, host, path, userTok, upTok, dnTok string, gaps []int) string {
	user := ""
	if userTok != "-" {
		user = unhx(userTok)
	}
	up, dn := httpEngTokBytes(upTok), httpEngTokBytes(dnTok)
	if len(gaps) < 2 {
		gaps = []int{0, 0}
	}
	rounds := len(gaps) / 2
	spec := &httpEngRespSpec{tunUp: len(up), tunDn: dn, tunGaps: gaps}
	if len(dn) == 0 {
		spec.tunDn = []byte{}
	}
	st.mu.Lock()
	st.spec = spec
	before := st.connSeq
	st.mu.Unlock()
	st.drainSeen()
	c, err := net.DialTimeout("tcp", st.addr, 2*time.Second)
	if err != nil {
		return "dialerr"
	}
	defer c.Close()
	_ = c.SetDeadline(time.Now().Add(6*time.Second + httpEngSum(gaps)))
	var w bytes.Buffer
	method := "GET"
	if kind == "connect" {
		method = "CONNECT"
		fmt.Fprintf(&w, "CONNECT %s HTTP/1.1\r\nHost: %s\r\n", host, host)
	} else {
		fmt.Fprintf(&w, "GET %s HTTP/1.1\r\nHost: %s\r\nConnection: Upgrade\r\nUpgrade: websocket\r\nSec-WebSocket-Key: dGhlIHNhbXBsZSBub25jZQ==\r\nSec-WebSocket-Version: 13\r\n", path, host)
	}
	if user != "" {
		fmt.Fprintf(&w, "Authorization: %s\r\n", httpEngBasic(user))
	}
	w.WriteString("\r\n")
	if _, err := c.Write(w.Bytes()); err != nil {
		return "writeerr"
	}
	br := bufio.NewReader(c)
	resp, err := http.ReadResponse(br, &http.Request{Method: method})
	if err != nil {
		return "readerr"
	}
	rt := st.currentRoute(host, path, user)
	if (kind == "ws" && resp.StatusCode != 101) || (kind == "connect" && resp.StatusCode != 200) {
		b, _ := io.ReadAll(resp.Body)
		bn := httpEngBodyNote(b, len(b) > 0)
		if bytes.Equal(b, st.page) {
			bn = "page"
		}
		// no tunnel. The backend records a request before it answers it, so by the time the user holds
		// an answer it is known whether a backend received (and accepted) this very handshake.
		st.mu.Lock()
		hitBe, wasHit := st.hit[spec]
		st.mu.Unlock()
		be := "-"
		if wasHit {
			be = strconv.Itoa(hitBe)
		}
		return fmt.Sprintf("be=%s rt=%s st=%d b=%s", be, rt, resp.StatusCode, bn)
	}
	got := make([]byte, 0, len(dn))
	ups := httpEngSplit(up, rounds)
	for i, dnp := range httpEngSplit(dn, rounds) {
		time.Sleep(time.Duration(gaps[2*i]) * time.Millisecond)
		if _, err := c.Write(ups[i]); err != nil {
			break
		}
		piece := make([]byte, len(dnp))
		k, err := io.ReadFull(br, piece)
		got = append(got, piece[:k]...)
		if err != nil {
			break
		}
	}
	n := len(got)
	seen := st.takeSeen(3 * time.Second)
	if seen == nil {
		return fmt.Sprintf("be=- rt=%s st=%d lost", rt, resp.StatusCode)
	}
	if kind == "connect" {
		return fmt.Sprintf("be=%d rt=%s st=%d t=%s up=%s down=%s", seen.be, rt, resp.StatusCode, hx(seen.target), httpEngHash(seen.up), httpEngHash(got[:n]))
	}
	m := httpEngSeenHdrMap(seen)
	cu := strings.Join(m["Connection"], ",") + "|" + strings.Join(m["Upgrade"], ",")
	return fmt.Sprintf("be=%d rt=%s ow=%s c=%s st=%d cu=%s up=%s down=%s", seen.be, rt, st.ownerNote(seen.be, rt), st.connNote(before, seen), resp.StatusCode, hx(cu), httpEngHash(seen.up), httpEngHash(got[:n]))
}

func (st *httpEngState) simpleGet(host string, timeout time.Duration) (int, time.Duration, error) {
	c, err := net.DialTimeout("tcp", st.addr, 2*time.Second)
	if err != nil {
		return 0, 0, err
	}
	defer c.Close()
	_ = c.SetDeadline(time.Now().Add(timeout))
	t0 := time.Now()
	fmt.Fprintf(c, "GET / HTTP/1.1\r\nHost: %s\r\nConnection: close\r\n\r\n", host)
	resp, err := http.ReadResponse(bufio.NewReader(c), &http.Request{Method: "GET"})
	if err != nil {
		return 0, time.Since(t0), err
	}
	_, _ = io.Copy(io.Discard, resp.Body)
	resp.Body.Close()
	return resp.StatusCode, time.Since(t0), nil
}

func (st *httpEngState) doSilent(hostS, hostO string) string {
	st.mu.Lock()
	st.spec = &httpEngRespSpec{status: 200, kind: "-", keep: false}
	st.mu.Unlock()
	st.drainSeen()
	type r struct {
		code int
		d    time.Duration
		err  error
	}
	ch := make(chan r, 1)
	go func() {
		code, d, err := st.simpleGet(hostS, 8*time.Second)
		ch <- r{code, d, err}
	}()
	time.Sleep(100 * time.Millisecond)
	oc, od, oerr := st.simpleGet(hostO, 5*time.Second)
	other := "err"
	if oerr == nil {
		other = strconv.Itoa(oc)
		if od > 800*time.Millisecond {
			other += ":late"
		}
	}
	res := <-ch
	if res.err != nil {
		return "st=hang other=" + other
	}
	bound := "ok"
	if res.d > 4*time.Second {
		bound = "slow"
	} else if res.d < 900*time.Millisecond {
		bound = "fast"
	}
	return fmt.Sprintf("st=%d bound=%s other=%s", res.code, bound, other)
}

func httpEngExec(tok []string) string {
	if httpEng == nil {
		httpEngReset()
	}
	st := httpEng
	switch tok[0] {
	case "reset":
		httpEngReset()
		return "-"
	case "reg":
		id, mode := atoi(tok[1]), tok[8]
		d, l, u := unhx(tok[2]), unhx(tok[3]), unhx(tok[4])
		err := st.rp.Register(vhost.RouteConfig{
			Domain: d, Location: l, RouteByHTTPUser: u, RewriteHost: unhx(tok[5]),
			Headers: httpEngHdrMap(httpEngParseHdrs(tok[6])), ResponseHeaders: httpEngHdrMap(httpEngParseHdrs(tok[7])),
			CreateConnFn: func(string) (net.Conn, error) {
				if mode == "unreach" {
					return nil, errors.New("no work connection")
				}
				a, b := httpEngPair()
				st.mu.Lock()
				st.connSeq++
				n := st.connSeq
				st.conns = append(st.conns, b)
				st.mu.Unlock()
				go st.backend(id, n, mode, b)
				return a, nil
			},
		})
		if err != nil {
			return "conflict"
		}
		rv := map[string]string{}
		for _, kv := range httpEngParseHdrs(tok[7]) {
			rv[http.CanonicalHeaderKey(kv[0])] = kv[1]
		}
		st.routes[st.routeKey(d, l, u)] = httpEngRoute{id: id, domain: d, loc: l, usr: u, respVals: rv}
		return "ok"
	case "unreg":
		d, l, u := unhx(tok[1]), unhx(tok[2]), unhx(tok[3])
		st.rp.UnRegister(vhost.RouteConfig{Domain: d, Location: l, RouteByHTTPUser: u})
		delete(st.routes, st.routeKey(d, l, u))
		return "-"
	case "req", "treq":
		return st.doReq(tok)
	case "ws":
		return st.doTunnel("ws", unhx(tok[1]), unhx(tok[2]), tok[3], tok[4], tok[5], nil)
	case "connect":
		return st.doTunnel("connect", unhx(tok[1]), "", tok[2], tok[3], tok[4], nil)
	case "tws":
		return st.doTunnel("ws", unhx(tok[1]), unhx(tok[2]), tok[3], tok[4], tok[5], httpEngGaps(tok[6]))
	case "tconnect":
		return st.doTunnel("connect", unhx(tok[1]), "", tok[2], tok[3], tok[4], httpEngGaps(tok[5]))
	case "silent":
		return st.doSilent(unhx(tok[1]), unhx(tok[2]))
	case "freq":
		return st.doFault(tok)
	case "ereq":
		return st.doErr(tok)
	case "plug":
		return st.doPlug(tok)
	case "h2c", "fh2c":
		return st.doH2C(tok)
	}
	return "bad-op"
}

func init() { register(&Engine{Name: "http", Gen: httpEngGen, Exec: httpEngExec}) }
