package main

// Engine "wire" (C05), second part.
//
//	ident ca=<0|1|2> cert=<0|1> sn=<hex> pca=<1|2> pd=<0..3> pi=<0..2>
//	    real transport.NewClientTLSConfig(cert, key, ca, sn); the returned config then runs a handshake over loopback TCP
//	    with a TLS server that presents the certificate issued by CA <pca> with SAN kinds <pd><pi>
//	    => acc=<0|1>
//
// Reload histories of ONE real frpc (client.Service) against a real frps through the recording relay.  The rig lives
// across ops until the next rstart / reset:
//
//	rstart tls=<0|1> mux=<0|1> bt=<t|u> a=<pc> b=<pc> [fmt=<toml|yaml|json>]
//	                                           start frps, relay, frpc with proxy a (tcp) and b (bt: tcp / udp; a
//	                                           udp proxy needs 0.5 s after every registration, so most rigs use tcp)
//	rload a=<pc> b=<pc>                        Service.UpdateAllConfigurer with freshly loaded configurers
//	    every configuration (start and each reload) is WRITTEN as a frpc configuration file in the rig's format and read
//	    by the real config.LoadClientConfig (parser + Complete), as `frpc` / `frpc reload` do
//	rconn                                      every relay connection is cut; frpc logs in again (new Control / Manager)
//	    pc = "-" (not configured) | e<0|1>c<0|1>l<0|1|2>m<0|1>o<0|1>
//	         useEncryption, useCompression, bandwidthLimit (none / 1MB / 2MB), bandwidthLimitMode (client / server),
//	         o: some other field of the configurer (a metadata entry)
//	    => up=1;a=<r>;b=<r>     r = "-" | s<useEncryption as the status API reports it>p<fresh marker seen by the relay>
//	                                | dead (no echo through the proxy)
//	after every step each configured proxy carries a FRESH crypto/rand marker to an echo backend and back; the capture
//	of the relay (everything so far) is searched for it.

import (
	"context"
	"crypto/tls"
	"encoding/base64"
	"fmt"
	"math/rand"
	"net"
	"os"
	"reflect"
	"strconv"
	"time"

	"github.com/fatedier/frp/client"
	"github.com/fatedier/frp/pkg/config"
	v1 "github.com/fatedier/frp/pkg/config/v1"
	"github.com/fatedier/frp/pkg/transport"
)

// ---------------------------------------------------------------- ident

var wireIdentLn net.Listener

func wireIdent(kv map[string]string) string {
	pki := wireGetPKI()
	cert, key, ca := "", "", ""
	if wireB(kv["cert"]) {
		cert, key = pki.cli1Cert, pki.cli1Key
	}
	switch kv["ca"] {
	case "1":
		ca = pki.ca1
	case "2":
		ca = pki.ca2
	}
	tc, err := transport.NewClientTLSConfig(cert, key, ca, unhx(kv["sn"]))
	if err != nil {
		return "err"
	}
	peer, ok := pki.peers[kv["pca"]+kv["pd"]+kv["pi"]]
	if !ok {
		return "badpeer"
	}
	// a loopback TCP pair (net.Pipe is unbuffered: a client that aborts in the middle of the server's flight and the
	// server still writing that flight would wait for each other)
	if wireIdentLn == nil {
		ln, err := net.Listen("tcp", "127.0.0.1:0")
		if err != nil {
			panic(err)
		}
		wireIdentLn = ln
	}
	done := make(chan struct{})
	go func() {
		defer close(done)
		c2, err := wireIdentLn.Accept()
		if err != nil {
			return
		}
		defer c2.Close()
		s := tls.Server(c2, &tls.Config{Certificates: []tls.Certificate{peer}})
		_ = s.SetDeadline(time.Now().Add(3 * time.Second))
		if s.Handshake() == nil {
			buf := make([]byte, 64)
			_, _ = s.Read(buf)
		}
	}()
	c1, err := net.Dial("tcp", wireIdentLn.Addr().String())
	if err != nil {
		panic(err)
	}
	cl := tls.Client(c1, tc)
	_ = cl.SetDeadline(time.Now().Add(3 * time.Second))
	herr := cl.Handshake()
	c1.Close()
	<-done
	return fmt.Sprintf("acc=%d", wireBit(herr == nil))
}

// ---------------------------------------------------------------- reload rig

type wirePC struct {
	present                bool
	enc, comp, srvMode, ot bool
	limit                  int
}

func wireParsePC(s string) (wirePC, bool) {
	if s == "-" {
		return wirePC{}, true
	}
	if len(s) != 10 || s[0] != 'e' || s[2] != 'c' || s[4] != 'l' || s[6] != 'm' || s[8] != 'o' {
		return wirePC{}, false
	}
	bit := func(c byte) bool { return c == '1' }
	l := int(s[5] - '0')
	if l < 0 || l > 2 {
		return wirePC{}, false
	}
	return wirePC{present: true, enc: bit(s[1]), comp: bit(s[3]), limit: l, srvMode: bit(s[7]), ot: bit(s[9])}, true
}

func (p wirePC) String() string {
	if !p.present {
		return "-"
	}
	return fmt.Sprintf("e%dc%dl%dm%do%d", wireBit(p.enc), wireBit(p.comp), p.limit, wireBit(p.srvMode), wireBit(p.ot))
}

type wireRig struct {
	tlsOn    bool
	bUDP     bool
	exited   bool
	srv      *wireSrv
	relay    *wireRelay
	cli      *client.Service
	user     string
	backend  net.Listener
	bport    int
	ubackend *net.UDPConn
	portA    int
	portB    int
	runErr   chan error
	cur      [2]wirePC
	mux      bool
	token    string
	format   string
}

var wireRigCur *wireRig

func wireRClose() {
	r := wireRigCur
	if r == nil {
		return
	}
	wireRigCur = nil
	if r.cli != nil {
		r.cli.Close()
	}
	r.relay.close()
	r.srv.stop()
	_ = r.srv.svr.Close()
	r.backend.Close()
	r.ubackend.Close()
}

// the configuration file an operator would write for these two proxies: rendered in the rig's file format and read
// back by the real loader (parser, Complete) — what `frpc` does at start and `frpc reload` does on every reload
func (r *wireRig) tree(ps [2]wirePC) []kv {
	one := func(name, typ string, localPort, remotePort int, p wirePC) []kv {
		t := []kv{{"name", name}, {"type", typ}, {"localIP", "127.0.0.1"}, {"localPort", localPort}, {"remotePort", remotePort}}
		tr := []kv{{"useEncryption", p.enc}, {"useCompression", p.comp}}
		switch p.limit {
		case 1:
			tr = append(tr, kv{"bandwidthLimit", "1MB"})
		case 2:
			tr = append(tr, kv{"bandwidthLimit", "2MB"})
		}
		if p.srvMode {
			tr = append(tr, kv{"bandwidthLimitMode", "server"})
		}
		t = append(t, kv{"transport", tr})
		if p.ot {
			t = append(t, kv{"metadatas", map[string]string{"o": "1"}})
		}
		return t
	}
	var proxies [][]kv
	if ps[0].present {
		proxies = append(proxies, one("c05ra", "tcp", r.bport, r.portA, ps[0]))
	}
	if ps[1].present && !r.bUDP {
		proxies = append(proxies, one("c05rb", "tcp", r.bport, r.portB, ps[1]))
	}
	if ps[1].present && r.bUDP {
		proxies = append(proxies, one("c05rb", "udp", r.ubackend.LocalAddr().(*net.UDPAddr).Port, r.portB, ps[1]))
	}
	return wcClientTree(r.relay.port(), r.user, r.token, r.tlsOn, r.mux, proxies, nil)
}

func (r *wireRig) load(ps [2]wirePC) (*v1.ClientCommonConfig, []v1.ProxyConfigurer) {
	format := r.format
	if format == "" {
		format = "toml"
	}
	common, pcs, _, _, err := config.LoadClientConfig(wcWriteFile(wcGetLocal(), renderDoc(r.tree(ps), format), format), true)
	if err != nil {
		panic(fmt.Sprint("reload rig: the written configuration does not load: ", err))
	}
	return common, pcs
}

// freshly loaded configurers, as a reload from a re-read file produces them
func (r *wireRig) build(ps [2]wirePC) []v1.ProxyConfigurer {
	_, pcs := r.load(ps)
	return pcs
}

// wait (event driven, at most 2 s) until the status API shows every configured proxy running with exactly the given
// configuration; false: frpc has exited
func (r *wireRig) waitApplied(cfgs []v1.ProxyConfigurer) bool {
	deadline := time.Now().Add(2 * time.Second)
	for time.Now().Before(deadline) {
		select {
		case <-r.runErr:
			r.exited = true
		default:
		}
		if r.exited {
			return false
		}
		n := 0
		for _, c := range cfgs {
			st, ok := r.cli.StatusExporter().GetProxyStatus(c.GetBaseConfig().Name)
			if ok && st.Phase == "running" && reflect.DeepEqual(st.Cfg, c) {
				n++
			}
		}
		if n == len(cfgs) {
			return true
		}
		time.Sleep(3 * time.Millisecond)
	}
	// not (yet) what was asked for: the probes below still say what crosses the wire now
	return true
}

func wireRoundTripWithin(port int, payload string, d time.Duration) bool {
	deadline := time.Now().Add(d)
	for time.Now().Before(deadline) {
		c, err := net.DialTimeout("tcp", net.JoinHostPort("127.0.0.1", strconv.Itoa(port)), time.Second)
		if err != nil {
			time.Sleep(20 * time.Millisecond)
			continue
		}
		_ = c.SetDeadline(time.Now().Add(1500 * time.Millisecond))
		_, _ = c.Write([]byte(payload))
		buf := make([]byte, len(payload))
		_, err = readFullConn(c, buf)
		c.Close()
		if err == nil && string(buf) == payload {
			return true
		}
		time.Sleep(30 * time.Millisecond)
	}
	return false
}

func readFullConn(c net.Conn, buf []byte) (int, error) {
	n := 0
	for n < len(buf) {
		m, err := c.Read(buf[n:])
		n += m
		if err != nil {
			return n, err
		}
	}
	return n, nil
}

func wireUDPRoundTripWithin(port int, payload string, d time.Duration) bool {
	c, err := net.DialUDP("udp", nil, &net.UDPAddr{IP: net.IPv4(127, 0, 0, 1), Port: port})
	if err != nil {
		return false
	}
	defer c.Close()
	buf := make([]byte, 2048)
	deadline := time.Now().Add(d)
	for time.Now().Before(deadline) {
		_, _ = c.Write([]byte(payload))
		_ = c.SetReadDeadline(time.Now().Add(60 * time.Millisecond))
		if n, err := c.Read(buf); err == nil && string(buf[:n]) == payload {
			return true
		}
	}
	return false
}

func (r *wireRig) settle() {
	last := -1
	for i := 0; i < 50; i++ {
		t := r.relay.total()
		if t == last {
			return
		}
		last = t
		time.Sleep(15 * time.Millisecond)
	}
}

// one observation: status + fresh markers through every configured proxy
func (r *wireRig) observe() string {
	cfgs := r.build(r.cur)
	t0 := time.Now()
	if !r.waitApplied(cfgs) {
		return "up=0"
	}
	t1 := time.Now()
	res := [2]string{"-", "-"}
	var marks [2]string
	alive := [2]bool{}
	if r.cur[0].present {
		marks[0] = wireMarker("Y")
		alive[0] = wireRoundTripWithin(r.portA, marks[0], 4*time.Second)
	}
	if r.cur[1].present {
		marks[1] = wireMarker("D")
		if r.bUDP {
			alive[1] = wireUDPRoundTripWithin(r.portB, marks[1], 4*time.Second)
		} else {
			alive[1] = wireRoundTripWithin(r.portB, marks[1], 4*time.Second)
		}
	}
	t2 := time.Now()
	r.settle()
	if os.Getenv("C05_TIME") != "" {
		fmt.Fprintf(os.Stderr, "observe: applied %v probes %v settle %v\n", t1.Sub(t0), t2.Sub(t1), time.Since(t2))
	}
	names := [2]string{"c05ra", "c05rb"}
	for i := 0; i < 2; i++ {
		if !r.cur[i].present {
			continue
		}
		if !alive[i] {
			res[i] = "dead"
			continue
		}
		needle := marks[i]
		if i == 1 && r.bUDP {
			// a datagram travels as UDPPacket{Content: base64(datagram)} — encoded, not encrypted
			needle = base64.StdEncoding.EncodeToString([]byte(marks[i]))
		}
		st, ok := r.cli.StatusExporter().GetProxyStatus(r.user + "." + names[i])
		if !ok {
			res[i] = fmt.Sprintf("sxp%d", wireBit(r.relay.contains(needle)))
			continue
		}
		res[i] = fmt.Sprintf("s%dp%d", wireBit(st.Cfg.GetBaseConfig().Transport.UseEncryption), wireBit(r.relay.contains(needle)))
	}
	return fmt.Sprintf("up=1;a=%s;b=%s", res[0], res[1])
}

func wireRStart(kv map[string]string) string {
	wireRClose()
	wcClose()
	pa, ok1 := wireParsePC(kv["a"])
	pb, ok2 := wireParsePC(kv["b"])
	if !ok1 || !ok2 {
		return "badpc"
	}
	tlsOn, mux := wireB(kv["tls"]), wireB(kv["mux"])
	token := wireMarker("T")
	r := &wireRig{tlsOn: tlsOn, bUDP: kv["bt"] == "u", user: wireMarker("U"), runErr: make(chan error, 1)}
	r.srv = wireStartServer(false, false, false, mux, token, 0)
	r.relay = wireNewRelay(net.JoinHostPort("127.0.0.1", strconv.Itoa(r.srv.port)))
	r.backend, r.bport = wireEchoBackend()
	ub, err := net.ListenUDP("udp", &net.UDPAddr{IP: net.IPv4(127, 0, 0, 1)})
	if err != nil {
		panic(err)
	}
	r.ubackend = ub
	go func() {
		buf := make([]byte, 2048)
		for {
			n, from, err := ub.ReadFromUDP(buf)
			if err != nil {
				return
			}
			_, _ = ub.WriteToUDP(buf[:n], from)
		}
	}()
	r.portA, r.portB = freeTCPPort(), freeUDPPort()
	if !r.bUDP {
		r.portB = freeTCPPort()
	}
	r.cur = [2]wirePC{pa, pb}
	wireRigCur = r

	r.mux, r.token, r.format = mux, token, kv["fmt"]
	ccfg, pcs := r.load(r.cur)
	cli, err := client.NewService(client.ServiceOptions{Common: ccfg, ProxyCfgs: pcs})
	if err != nil {
		panic(err)
	}
	r.cli = cli
	go func() { r.runErr <- cli.Run(context.Background()) }()
	return r.observe()
}

func wireRLoad(kv map[string]string) string {
	r := wireRigCur
	if r == nil {
		return "norig"
	}
	pa, ok1 := wireParsePC(kv["a"])
	pb, ok2 := wireParsePC(kv["b"])
	if !ok1 || !ok2 {
		return "badpc"
	}
	r.cur = [2]wirePC{pa, pb}
	if err := r.cli.UpdateAllConfigurer(r.build(r.cur), nil); err != nil {
		return "reloaderr"
	}
	return r.observe()
}

// cut the session: new connections are held at the relay until frps has seen the old ones end (and released
// the ports of the old registrations), then frpc's next login goes through
func wireRConn() string {
	r := wireRigCur
	if r == nil {
		return "norig"
	}
	before := r.relay.accepted()
	r.relay.hold(true)
	r.relay.cut()
	time.Sleep(150 * time.Millisecond)
	r.relay.hold(false)
	deadline := time.Now().Add(5 * time.Second)
	for time.Now().Before(deadline) && r.relay.accepted() == before {
		time.Sleep(5 * time.Millisecond)
	}
	if r.relay.accepted() == before {
		return "up=0:noreconnect"
	}
	// the status API reads the new Control once it is installed; the observation below waits for `running`
	time.Sleep(50 * time.Millisecond)
	return r.observe()
}

// ---------------------------------------------------------------- generator of reload histories

func wireGenPC(rng *rand.Rand, encBias int) wirePC {
	return wirePC{present: true, enc: rng.Intn(100) < encBias, comp: rng.Intn(8) == 0, limit: rng.Intn(3),
		srvMode: rng.Intn(6) == 0, ot: rng.Intn(2) == 0}
}

// the class: start configurations (mostly without encryption) followed by reloads that switch useEncryption alone,
// together with a limit change that keeps / changes the presence of a limit, together with another field, reloads
// that change only the limit / compression / mode / another field, removals and re-adds, identical reloads, and
// reconnects
func wireGenReloads(rng *rand.Rand, histories int, emit func(string)) {
	for h := 0; h < histories; h++ {
		tlsOn := h%7 == 6
		var ps [2]wirePC
		ps[0] = wireGenPC(rng, 25)
		if rng.Intn(4) != 0 {
			ps[1] = wireGenPC(rng, 25)
		}
		if h%2 == 0 {
			ps[0].srvMode = false // the common case: the default mode
		}
		bt := "t"
		if h%3 == 1 {
			bt = "u"
		}
		emit(fmt.Sprintf("rstart tls=%d mux=%d bt=%s a=%s b=%s fmt=%s", wireBit(tlsOn), rng.Intn(2), bt, ps[0], ps[1],
			[]string{"toml", "yaml", "json"}[h%3]))
		steps := 3 + rng.Intn(3)
		for s := 0; s < steps; s++ {
			i := rng.Intn(2)
			if !ps[i].present && rng.Intn(3) != 0 {
				i = 1 - i
			}
			p := &ps[i]
			otherLimit := func() {
				switch p.limit {
				case 0: // none stays none
				case 1:
					p.limit = 2
				default:
					p.limit = 1
				}
			}
			k := rng.Intn(100)
			switch {
			case !p.present:
				*p = wireGenPC(rng, 50)
			case k < 28:
				p.enc = !p.enc
			case k < 44:
				p.enc = !p.enc
				otherLimit()
			case k < 52:
				otherLimit()
			case k < 58:
				if p.limit == 0 {
					p.limit = 1 + rng.Intn(2)
				} else {
					p.limit = 0
				}
				if rng.Intn(2) == 0 {
					p.enc = !p.enc
				}
			case k < 64:
				p.comp = !p.comp
				if rng.Intn(2) == 0 {
					p.enc = !p.enc
				}
			case k < 72:
				p.ot = !p.ot
			case k < 78:
				p.ot = !p.ot
				p.enc = !p.enc
			case k < 83:
				p.srvMode = !p.srvMode
				if rng.Intn(2) == 0 {
					p.enc = !p.enc
				}
			case k < 88:
				*p = wirePC{}
			case k < 93:
				// the same configuration again
			default:
				emit("rconn")
				continue
			}
			emit(fmt.Sprintf("rload a=%s b=%s", ps[0], ps[1]))
		}
	}
	emit("reset")
}
