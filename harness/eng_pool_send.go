// Engine "pool" (C11), part 3: the control-message send path of a session (msg.Dispatcher.Send / sendLoop)
// as far as it can hold up a user connection.
//
// The session's control connection is a transport the harness owns completely (poolGate, handed to the real
// frps through its internal listener: no TLS sniffing, no yamux, no crypto layer, the rest of the login path
// and the whole Control are the real code): the scripted client can stop reading (every server-side Write
// blocks, nothing is buffered), resume, fail the server's reads while its writes stay blocked, or go away.
// With the client stalled the send loop sits in WriteMsg with one message, the next 100 fill sendCh, and
// every further GetWorkConn parks inside Dispatcher.Send.  How many goroutines are parked there is read off
// the process's own goroutine dump (a stop-the-world snapshot; no hook needed), which also tells when every
// user handler has come to rest, so no op waits for a fixed time.
//
// Ops => result
//
//	sqlogin <sid> <pool>      Login + NewProxy tcp over a fresh gate connection           ok:<ReqWorkConn seen> | err…
//	sqstall <sid>             the client stops reading its control connection             -
//	sqoffer <sid> <k>        the client offers k work connections (ordinary listener, connector m0)   P:<len(workConnCh)>
//	sqping <sid> <n>          n Pings (each answered by a Pong through Send)               ok | blocked
//	squsers <sid> <n>         n users dial the proxy (pooled connections are taken first, then the
//	                         replacement request is sent; on an empty pool the request comes first);
//	                         wait until every handler rests                               S:<handlers parked in Send>
//	sqresume <sid>            the client reads again; wait until the queue has drained     S:<parked>;r=<ReqWorkConn seen>
//	sqend <sid> <kind>        fail: the server's reads fail, its writes stay blocked;       u=<closed>/<open>
//	                         close: the client goes away (reads EOF, writes fail)
//	                         then, once the session is gone: census of its un-started work connections
//	                         and of ALL its users; b = users bridged (their work connection got the
//	                         StartWorkConn with their address), open = neither closed nor bridged
//	                                                                                       w=<closed>/<open>;u=<closed>/<open>;b=<n>
package main

import (
	"bytes"
	"errors"
	"fmt"
	"io"
	"math/rand"
	"net"
	"runtime"
	"strconv"
	"sync"
	"time"

	"github.com/fatedier/frp/pkg/msg"
	"github.com/fatedier/frp/pkg/util/version"
)

// every wait of this part is event-driven and bounded by this
var poolGWait = 2500 * time.Millisecond

// ---------------------------------------------------------------- the transport

type poolGate struct {
	mu           sync.Mutex
	cond         *sync.Cond
	in           []byte // client -> server, not yet read by frps
	out          []byte // server -> client, not yet taken by the client's reader
	paused       bool   // the client does not read: server-side Write blocks
	readErr      bool   // server-side Read fails (Write unaffected)
	peerGone     bool   // the client has closed: Read EOF, Write error
	closed       bool   // frps closed its end
	readWaiting  int    // frps goroutines blocked in Read on an empty buffer
	writeWaiting int    // frps goroutines blocked in Write
}

func newPoolGate() *poolGate {
	g := &poolGate{}
	g.cond = sync.NewCond(&g.mu)
	return g
}

func (g *poolGate) Read(p []byte) (int, error) {
	g.mu.Lock()
	defer g.mu.Unlock()
	for {
		switch {
		case g.closed:
			return 0, net.ErrClosed
		case g.readErr:
			return 0, errors.New("verif gate: read failed")
		case len(g.in) > 0:
			n := copy(p, g.in)
			g.in = g.in[n:]
			g.cond.Broadcast()
			return n, nil
		case g.peerGone:
			return 0, io.EOF
		}
		g.readWaiting++
		g.cond.Wait()
		g.readWaiting--
	}
}

func (g *poolGate) Write(p []byte) (int, error) {
	g.mu.Lock()
	defer g.mu.Unlock()
	for {
		switch {
		case g.closed:
			return 0, net.ErrClosed
		case g.peerGone:
			return 0, errors.New("verif gate: broken pipe")
		case !g.paused:
			g.out = append(g.out, p...)
			g.cond.Broadcast()
			return len(p), nil
		}
		g.writeWaiting++
		g.cond.Broadcast()
		g.cond.Wait()
		g.writeWaiting--
	}
}

func (g *poolGate) Close() error {
	g.mu.Lock()
	g.closed = true
	g.cond.Broadcast()
	g.mu.Unlock()
	return nil
}

func (g *poolGate) LocalAddr() net.Addr                { return &net.TCPAddr{IP: net.IPv4(127, 0, 0, 1), Port: 7} }
func (g *poolGate) RemoteAddr() net.Addr               { return &net.TCPAddr{IP: net.IPv4(127, 0, 0, 1), Port: 9} }
func (g *poolGate) SetDeadline(t time.Time) error      { return nil }
func (g *poolGate) SetReadDeadline(t time.Time) error  { return nil }
func (g *poolGate) SetWriteDeadline(t time.Time) error { return nil }

func (g *poolGate) set(f func()) {
	g.mu.Lock()
	f()
	g.cond.Broadcast()
	g.mu.Unlock()
}

func (g *poolGate) get(f func() bool) bool {
	g.mu.Lock()
	defer g.mu.Unlock()
	return f()
}

// the client's end
type poolGateClient struct{ g *poolGate }

func (c poolGateClient) Read(p []byte) (int, error) {
	g := c.g
	g.mu.Lock()
	defer g.mu.Unlock()
	for {
		if len(g.out) > 0 {
			n := copy(p, g.out)
			g.out = g.out[n:]
			return n, nil
		}
		if g.closed || g.peerGone {
			return 0, io.EOF
		}
		g.cond.Wait()
	}
}

func (c poolGateClient) Write(p []byte) (int, error) {
	g := c.g
	g.mu.Lock()
	defer g.mu.Unlock()
	if g.closed || g.peerGone {
		return 0, io.ErrClosedPipe
	}
	g.in = append(g.in, p...)
	g.cond.Broadcast()
	return len(p), nil
}

// ---------------------------------------------------------------- the goroutine dump

// poolStackCensus: the user handlers alive that are not in `skip` (goroutines inside handleUserTCPConnection, by
// goroutine id — ids are never reused), how many of them are inside Dispatcher.Send, how many are not at rest
// (running / runnable / in a system call), and how many goroutines are inside Control.Start's advance-request loop.
func poolStackCensus(skip map[int]bool) (ids []int, inSend, moving, starting int) {
	buf := make([]byte, 1<<20)
	for {
		n := runtime.Stack(buf, true)
		if n < len(buf) {
			buf = buf[:n]
			break
		}
		buf = make([]byte, 2*len(buf))
	}
	for _, blk := range bytes.Split(buf, []byte("\n\n")) {
		if bytes.Contains(blk, []byte("server.(*Control).Start.func1(")) {
			starting++
		}
		if !bytes.Contains(blk, []byte(".handleUserTCPConnection(")) {
			continue
		}
		// "goroutine 57 [chan send, 2 minutes]:"
		id, state := 0, ""
		if f := bytes.Fields(blk); len(f) > 2 {
			id, _ = strconv.Atoi(string(f[1]))
		}
		if skip[id] {
			continue
		}
		if i := bytes.IndexByte(blk, '['); i >= 0 {
			rest := blk[i+1:]
			if j := bytes.IndexAny(rest, ",]"); j >= 0 {
				state = string(rest[:j])
			}
		}
		ids = append(ids, id)
		if bytes.Contains(blk, []byte("msg.(*Dispatcher).Send(")) {
			inSend++
		}
		switch state {
		case "running", "runnable", "syscall", "":
			moving++
		}
	}
	return
}

// ---------------------------------------------------------------- sessions on a gate

type poolGSess struct {
	sid, runID string
	g          *poolGate
	rw         io.ReadWriter
	mu         sync.Mutex
	reqs       int
	pongs      int
	login      chan *msg.LoginResp
	resp       chan *msg.NewProxyResp
	port       int
	users      []*poolUser
	wcs        []*poolWC
	stale      map[int]bool // handler goroutines that existed before this session (other episodes' bridges, stranded ones)
	sinceStall int // messages provoked since the client stopped reading
	ended      bool
}

func (s *poolGSess) reader() {
	for {
		m, err := msg.ReadMsg(s.rw)
		if err != nil {
			return
		}
		switch v := m.(type) {
		case *msg.LoginResp:
			select {
			case s.login <- v:
			default:
			}
		case *msg.ReqWorkConn:
			s.mu.Lock()
			s.reqs++
			s.mu.Unlock()
		case *msg.Pong:
			s.mu.Lock()
			s.pongs++
			s.mu.Unlock()
		case *msg.NewProxyResp:
			select {
			case s.resp <- v:
			default:
			}
		}
	}
}

func (s *poolGSess) counts() (int, int) {
	s.mu.Lock()
	defer s.mu.Unlock()
	return s.reqs, s.pongs
}

func (s *poolGSess) openUsers() int {
	n := 0
	for _, u := range s.users {
		if !u.isEOF() {
			n++
		}
	}
	return n
}

// Ping / Pong round trip on a reading client: sendCh is FIFO, so everything queued before the Pong has arrived
func (s *poolGSess) pingSync() bool {
	_, p0 := s.counts()
	if err := msg.WriteMsg(s.rw, &msg.Ping{}); err != nil {
		return false
	}
	return poolUntil(poolGWait, func() bool { _, p := s.counts(); return p > p0 })
}

// rest: every user handler of this session exists and is blocked somewhere; with a stalled client and at least
// one message provoked, the send loop is inside Write.  Returns the number of handlers parked in Send.
func (s *poolGSess) rest() (int, bool) {
	parked := 0
	ok := poolUntil(poolGWait, func() bool {
		needWr := s.g.get(func() bool { return s.g.paused && !s.g.closed && !s.g.peerGone }) && s.sinceStall > 0
		if needWr && !s.g.get(func() bool { return s.g.writeWaiting > 0 }) {
			return false
		}
		open := s.openUsers()
		h, snd, moving, _ := poolStackCensus(s.stale)
		parked = snd
		return moving == 0 && len(h) == open && open == s.openUsers()
	})
	return parked, ok
}

func (st *poolState) stopGates() {
	for _, s := range st.gs {
		s.g.set(func() { s.g.peerGone = true })
		for _, u := range s.users {
			u.c.Close()
		}
		for _, w := range s.wcs {
			w.c.Close()
		}
	}
}

func poolGExec(st *poolState, tok []string) string {
	if st.svr == nil {
		st.startSvr(5)
	}
	if st.gs == nil {
		st.gs = map[string]*poolGSess{}
	}
	if tok[0] == "sqlogin" {
		if len(tok) != 3 {
			return "badop"
		}
		sid, pool := tok[1], atoi(tok[2])
		// handlers that exist already (bridges of other episodes; on a tree that strands them, handlers parked in
		// Send for good) are not this session's: told apart by goroutine id
		old, _, _, _ := poolStackCensus(nil)
		stale := map[int]bool{}
		for _, id := range old {
			stale[id] = true
		}
		g := newPoolGate()
		s := &poolGSess{sid: sid, g: g, rw: poolGateClient{g}, login: make(chan *msg.LoginResp, 1),
			resp: make(chan *msg.NewProxyResp, 4), stale: stale}
		st.gs[sid] = s
		ts := time.Now().Unix()
		lm := &msg.Login{Version: version.Full(), Hostname: sid, Os: "linux", Arch: "amd64",
			Timestamp: ts, PrivilegeKey: peerKey(poolToken, ts), PoolCount: pool}
		if err := msg.WriteMsg(s.rw, lm); err != nil {
			return "err"
		}
		go s.reader()
		if err := st.svr.VerifAuthInternalListener().PutConn(g); err != nil {
			return "err:put"
		}
		select {
		case r := <-s.login:
			if r.Error != "" {
				return "err:login"
			}
			s.runID = r.RunID
		case <-time.After(poolGWait):
			return "err:noresp"
		}
		if err := msg.WriteMsg(s.rw, &msg.NewProxy{ProxyName: "p-" + sid, ProxyType: "tcp", RemotePort: 0}); err != nil {
			return "err"
		}
		select {
		case r := <-s.resp:
			if r.Error != "" {
				return "err:proxy"
			}
			_, p, _ := net.SplitHostPort(r.RemoteAddr)
			s.port = atoi(p)
		case <-time.After(poolGWait):
			return "err:proxy"
		}
		// the advance requests are sent by a goroutine of Start(): once it has returned and a Pong has come
		// back, all of them have arrived
		if !poolUntil(poolGWait, func() bool { _, _, _, starting := poolStackCensus(stale); return starting == 0 }) {
			return "err:start"
		}
		if !s.pingSync() {
			return "err:sync"
		}
		r, _ := s.counts()
		return "ok:" + strconv.Itoa(r)
	}
	if len(tok) < 2 {
		return "badop"
	}
	s := st.gs[tok[1]]
	if s == nil || s.ended {
		return "nosess"
	}
	switch tok[0] {
	case "sqstall":
		// everything provoked so far has been written (FIFO: the Pong comes last), the send loop is idle
		if !s.g.get(func() bool { return s.g.paused }) && !s.pingSync() {
			return "nosync"
		}
		s.g.set(func() { s.g.paused = true })
		s.sinceStall = 0
		return "-"

	case "sqoffer":
		k := atoi(tok[2])
		for i := 0; i < k; i++ {
			conn, err := st.connector("m0")
			if err != nil {
				return "dialerr"
			}
			c, err := conn.Connect()
			if err != nil {
				return "dialerr"
			}
			before := st.poolLen(s.runID)
			ts := time.Now().Unix()
			w := &poolWC{id: "gw" + strconv.Itoa(len(s.wcs)), sid: s.sid, mux: "m0", c: c}
			s.wcs = append(s.wcs, w)
			if err := msg.WriteMsg(c, &msg.NewWorkConn{RunID: s.runID, Timestamp: ts, PrivilegeKey: peerKey(poolToken, ts)}); err != nil {
				return "writeerr"
			}
			go w.reader()
			// pooled, refused and closed, or handed straight to a handler that was waiting
			if !poolUntil(poolGWait, func() bool {
				sw, eof, _ := w.snap()
				return sw != nil || eof || st.poolLen(s.runID) > before
			}) {
				return "O"
			}
		}
		return "P:" + strconv.Itoa(st.poolLen(s.runID))

	case "sqping":
		n := atoi(tok[2])
		paused := s.g.get(func() bool { return s.g.paused })
		_, p0 := s.counts()
		var b bytes.Buffer
		for i := 0; i < n; i++ {
			_ = msg.WriteMsg(&b, &msg.Ping{})
		}
		if _, err := s.rw.Write(b.Bytes()); err != nil {
			return "writeerr"
		}
		s.sinceStall += n
		// handlePing runs inside the read loop: the loop is back in Read on an empty buffer <=> every Ping
		// has been handled, i.e. every Pong has passed Send
		if !poolUntil(poolGWait, func() bool {
			return s.g.get(func() bool { return len(s.g.in) == 0 && s.g.readWaiting > 0 })
		}) {
			return "blocked"
		}
		if paused {
			if n > 0 && !poolUntil(poolGWait, func() bool { return s.g.get(func() bool { return s.g.writeWaiting > 0 }) }) {
				return "nowrite"
			}
			return "ok"
		}
		if !poolUntil(poolGWait, func() bool { _, p := s.counts(); return p >= p0+n }) {
			return "nopong"
		}
		return "ok"

	case "squsers":
		n := atoi(tok[2])
		for i := 0; i < n; i++ {
			c, err := net.DialTimeout("tcp", net.JoinHostPort("127.0.0.1", strconv.Itoa(s.port)), poolGWait)
			if err != nil {
				return "refused"
			}
			u := &poolUser{id: "g" + strconv.Itoa(len(s.users)), sid: s.sid, c: c, lport: c.LocalAddr().(*net.TCPAddr).Port, t0: time.Now()}
			s.users = append(s.users, u)
			go u.reader()
		}
		s.sinceStall += n
		parked, ok := s.rest()
		if !ok {
			return fmt.Sprintf("S:%d:unsettled", parked)
		}
		return "S:" + strconv.Itoa(parked)

	case "sqresume":
		s.g.set(func() { s.g.paused = false })
		s.sinceStall = 0
		parked := 0
		ok := poolUntil(poolGWait, func() bool {
			_, snd, _, _ := poolStackCensus(s.stale)
			parked = snd
			return parked == 0
		})
		if ok {
			ok = s.pingSync()
		}
		r, _ := s.counts()
		if !ok {
			return fmt.Sprintf("S:%d;r=%d;nosync", parked, r)
		}
		return fmt.Sprintf("S:%d;r=%d", parked, r)

	case "sqend":
		if len(tok) != 3 {
			return "badop"
		}
		s.ended = true
		switch tok[2] {
		case "fail":
			s.g.set(func() { s.g.readErr = true })
		case "close":
			s.g.set(func() { s.g.peerGone = true })
		default:
			return "badop"
		}
		if !poolUntil(poolWait, func() bool { return st.poolLen(s.runID) < 0 }) {
			return "notgone"
		}
		// the session is gone: every user connection it ever accepted is closed or bridged by now, every work
		// connection that was not started is closed (one shared bound)
		census := func() (wc, wo, uc, uo, b int) {
			byPort := map[int]bool{}
			for _, w := range s.wcs {
				sw, eof, _ := w.snap()
				switch {
				case sw != nil && sw.Error == "" && sw.ProxyName == "p-"+s.sid:
					byPort[int(sw.SrcPort)] = true
				case eof:
					wc++
				default:
					wo++
				}
			}
			for _, u := range s.users {
				switch {
				case u.isEOF():
					uc++
				case byPort[u.lport]:
					b++
				default:
					uo++
				}
			}
			return
		}
		poolUntil(poolGWait, func() bool { _, wo, _, uo, _ := census(); return wo == 0 && uo == 0 })
		wc, wo, uc, uo, b := census()
		return fmt.Sprintf("w=%d/%d;u=%d/%d;b=%d", wc, wo, uc, uo, b)
	}
	return "badop"
}

// ---------------------------------------------------------------- generator

// One session whose client stops reading: control messages provoked first (Pings), then users on an empty pool in
// numbers around what writer + queue still take (101 - provoked), in one or several batches, then the client
// reads again (everything must drain) or the session ends (read failure with the writes still blocked / client
// gone) while handlers are parked in Send, waiting in the second select, or both.
func (g *poolGen) sendEpisode(rng *rand.Rand) {
	g.maxPool = pick(rng, []int{0, 1, 5})
	g.sess = nil
	g.op(fmt.Sprintf("reset %d", g.maxPool))
	g.ngs++
	sid := "g" + strconv.Itoa(g.ngs)
	g.op(fmt.Sprintf("sqlogin %s %d", sid, pick(rng, []int{0, 0, 1, 3, 9})))
	const room = 101 // the message inside WriteMsg + cap(sendCh)
	// some episodes: the client fills (part of) the pool first; the first users of the episode then TAKE a
	// connection and send the replacement request, i.e. park in Send holding a work connection
	pooled := 0
	if rng.Intn(2) == 0 {
		pooled = 1 + rng.Intn(10)
		g.op(fmt.Sprintf("sqoffer %s %d", sid, pooled))
	}
	for round := 0; round < 3; round++ {
		if pooled == 0 && rng.Intn(4) == 0 {
			g.op(fmt.Sprintf("squsers %s %d", sid, 1+rng.Intn(4))) // a reading client: nobody parks
		}
		g.op("sqstall " + sid)
		pending := 0
		if rng.Intn(2) == 0 {
			pending = pick(rng, []int{1, 2, 7, 20, 45, 80})
			if pooled > 0 && rng.Intn(2) == 0 {
				pending = room - rng.Intn(3) // (nearly) full before the first user: the takers park
			}
			g.op(fmt.Sprintf("sqping %s %d", sid, pending))
		}
		total := room - pending + pick(rng, []int{-40, -6, -1, 0, 1, 2, 3, 8, 21, 39})
		if total < 0 {
			total = 0
		}
		if pooled > 0 && total < 2 {
			total = 1 + rng.Intn(pooled+3)
		}
		for total > 0 {
			b := total
			if rng.Intn(3) == 0 {
				b = 1 + rng.Intn(total)
			}
			g.op(fmt.Sprintf("squsers %s %d", sid, b))
			total -= b
			pending += b
		}
		if pending < room && rng.Intn(3) == 0 {
			// still room: the read loop's own Send does not park
			k := 1 + rng.Intn(room-pending)
			if k > 5 {
				k = 5
			}
			g.op(fmt.Sprintf("sqping %s %d", sid, k))
		}
		if round < 2 && rng.Intn(3) == 0 {
			g.op("sqresume " + sid)
			continue
		}
		if rng.Intn(5) == 0 {
			g.op("sqresume " + sid)
		}
		break
	}
	g.op(fmt.Sprintf("sqend %s %s", sid, pick(rng, []string{"fail", "fail", "fail", "close", "close"})))
}
