package main

import (
	"bufio"
	"context"
	"encoding/base64"
	"fmt"
	"math/rand"
	"net"
	"net/http"
	"net/http/httptest"
	"strconv"
	"strings"
	"sync"
	"time"

	v1 "github.com/fatedier/frp/pkg/config/v1"
	plugin "github.com/fatedier/frp/pkg/plugin/client"
	netpkg "github.com/fatedier/frp/pkg/util/net"
	"github.com/fatedier/frp/pkg/util/tcpmux"
	"github.com/fatedier/frp/pkg/util/vhost"
)

// Engine "httpauth" (property C07): the credential gates of the real code.
//
//	reset
//	reg  <domain> <loc> <routeUser> <user> <pass> <id>   => ok|conflict   HTTPReverseProxy.Register
//	unreg <domain> <loc> <routeUser>                     => -
//	req  <o|a|c> <host> <path> <auth> <pauth>            => 401 | fwd:<id> | 404 | st:<code>
//	       real http.Server{Handler: HTTPReverseProxy}; o = origin-form, a = absolute-form, c = CONNECT
//	mreg <domain> <routeUser> <user> <pass> <id>         => ok|conflict   HTTPConnectTCPMuxer.Listen
//	mreq <host> <pauth>                                  => acc:<id> | 407 | 404 | closed
//	mw   <user> <pass> <auth>                            => next | 401    HTTPAuthMiddleware
//	wq / wflush / s5: see eng_httpauth_web.go (static_file plugin, frps dashboard, frpc admin API, socks5 plugin)
//	h2c: see eng_httpauth_h2c.go (one connection upgraded to HTTP/2 and the further streams sent on it)
//	treset / tpx / tclose / tconn / tview: see eng_httpauth_tmux.go (real server-side tcpmux proxies on a real muxer)
//	horeset / holisten / hoconn / hoclose / hoaccept, greset / gjoin / gleave / greq: see eng_httpauth_r5.go (hand-off of an
//	       accepted CONNECT to a listener that may close meanwhile; http load-balancing groups and their credentials)
//	pl   <user> <pass> <pauth>                           => true | false  plugin http_proxy Auth
//	plc  <user> <pass> (<method> <pauth>)+               => <r1>,<r2>,…   plugin http_proxy Handle: ONE work connection
//	       carrying the requests in turn (CONNECT-like methods target the protected TCP service, the others
//	       fetch an URL of it); r = ch (407, connection kept) | rc (407, Connection: close) | tun (200, tunnel) |
//	       get (200, fetched) | st<code> | eof, with "+" appended iff the protected service saw that request
//
// `req`'s <path> is the path of the request target exactly as written on the wire (percent-encoded).
//
// auth tokens: "-" absent | "b<k>:<hexuser>:<hexpass>" well-formed (k = scheme casing) | "m<k>" malformed |
// "r<hexvalue>" the header value byte for byte (mw, req, mreq)
type httpAuthState struct {
	rp     *vhost.HTTPReverseProxy
	srv    *http.Server
	addr   string
	muxLn  net.Listener
	mux    *tcpmux.HTTPConnectTCPMuxer
	muxAcc chan int
	closer []func()

	// http_proxy plugin: the service behind the plugin and the listener used to make work connections
	plTarget *http.Server
	plAddr   string
	plSeen   sync.Map // request path -> struct{}
	plLn     net.Listener
	plSeq    int

	// web requests queued by `wq`, sent by `wflush` (eng_httpauth_web.go)
	webQ []hawItem
}

var has *httpAuthState
var hasMu sync.Mutex

// backendConn: the service behind route <id>.  It answers with its identity and with what it saw itself: X-Cred: 0 when
// it is protected by user / pass and the request it received does not carry exactly these (else 1).
func backendConn(id int, user, pass string) net.Conn {
	a, b := net.Pipe()
	go func() {
		defer b.Close()
		br := bufio.NewReader(b)
		_ = b.SetDeadline(time.Now().Add(5 * time.Second))
		req, err := http.ReadRequest(br)
		if err != nil {
			return
		}
		cred := 1
		if u, p, ok := req.BasicAuth(); (user != "" || pass != "") && !(ok && u == user && p == pass) {
			cred = 0
		}
		fmt.Fprintf(b, "HTTP/1.1 200 OK\r\nX-Id: %d\r\nX-Cred: %d\r\nContent-Length: 0\r\nConnection: close\r\n\r\n", id, cred)
	}()
	return a
}

func httpAuthReset() {
	if has != nil {
		for _, f := range has.closer {
			f()
		}
	}
	st := &httpAuthState{}
	st.rp = vhost.NewHTTPReverseProxy(vhost.HTTPReverseProxyOptions{ResponseHeaderTimeoutS: 5}, vhost.NewRouters())
	ln, err := net.Listen("tcp", "127.0.0.1:0")
	if err != nil {
		panic(err)
	}
	st.srv = &http.Server{Handler: st.rp, ReadHeaderTimeout: 60 * time.Second}
	go func() { _ = st.srv.Serve(ln) }()
	st.addr = ln.Addr().String()
	st.closer = append(st.closer, func() { st.srv.Close() })

	mln, err := net.Listen("tcp", "127.0.0.1:0")
	if err != nil {
		panic(err)
	}
	st.muxLn = mln
	st.mux, _ = tcpmux.NewHTTPConnectTCPMuxer(mln, false, 5*time.Second)
	st.muxAcc = make(chan int, 16)
	st.closer = append(st.closer, func() { mln.Close() })

	tln, err := net.Listen("tcp", "127.0.0.1:0")
	if err != nil {
		panic(err)
	}
	st.plAddr = tln.Addr().String()
	st.plTarget = &http.Server{ReadHeaderTimeout: 10 * time.Second, Handler: http.HandlerFunc(func(w http.ResponseWriter, r *http.Request) {
		st.plSeen.Store(r.URL.Path, struct{}{})
		w.Header().Set("X-Target", "1")
		w.WriteHeader(200)
	})}
	go func() { _ = st.plTarget.Serve(tln) }()
	st.closer = append(st.closer, func() { st.plTarget.Close() })
	st.plLn, err = net.Listen("tcp", "127.0.0.1:0")
	if err != nil {
		panic(err)
	}
	st.closer = append(st.closer, func() { st.plLn.Close() })
	has = st
}

// httpAuthPlugConn hands ONE work connection to the real plugin's Handle (as frpc's proxy does) and plays
// the requests on it in turn.
func (st *httpAuthState) httpAuthPlugConn(user, pass string, reqs []string) string {
	p, err := plugin.NewHTTPProxyPlugin(plugin.PluginContext{Name: "verif"}, &v1.HTTPProxyPluginOptions{HTTPUser: user, HTTPPassword: pass})
	if err != nil {
		return "err"
	}
	defer p.Close()
	uc, err := net.DialTimeout("tcp", st.plLn.Addr().String(), 2*time.Second)
	if err != nil {
		return "dialerr"
	}
	defer uc.Close()
	work, err := st.plLn.Accept()
	if err != nil {
		return "accepterr"
	}
	defer work.Close()
	go p.Handle(context.Background(), &plugin.ConnectionInfo{Conn: work, UnderlyingConn: work})
	_ = uc.SetDeadline(time.Now().Add(8 * time.Second))
	br := bufio.NewReader(uc)
	st.plSeq++
	var out []string
	for i := 0; i+1 < len(reqs); i += 2 {
		method := unhx(reqs[i])
		marker := fmt.Sprintf("/r%d-%d", st.plSeq, i/2)
		mark := func(r string) string {
			if _, ok := st.plSeen.Load(marker); ok {
				return r + "+"
			}
			return r
		}
		var sb strings.Builder
		if method == "CONNECT" {
			fmt.Fprintf(&sb, "CONNECT %s HTTP/1.1\r\nHost: %s\r\n", st.plAddr, st.plAddr)
		} else {
			fmt.Fprintf(&sb, "%s http://%s%s HTTP/1.1\r\nHost: %s\r\n", method, st.plAddr, marker, st.plAddr)
		}
		if h, ok := authHeader(reqs[i+1]); ok {
			fmt.Fprintf(&sb, "Proxy-Authorization: %s\r\n", h)
		}
		sb.WriteString("\r\n")
		if _, err := uc.Write([]byte(sb.String())); err != nil {
			out = append(out, mark("eof"))
			break
		}
		resp, err := http.ReadResponse(br, &http.Request{Method: "CONNECT"}) // never a body to wait for
		if err != nil {
			out = append(out, mark("eof"))
			break
		}
		if resp.StatusCode == 200 && resp.Header.Get("X-Target") == "" {
			// a tunnel: what we send now goes to whatever the plugin dialled
			fmt.Fprintf(uc, "GET %s HTTP/1.1\r\nHost: %s\r\nConnection: close\r\n\r\n", marker, st.plAddr)
			r2, err := http.ReadResponse(br, &http.Request{Method: "HEAD"})
			if err != nil || r2.Header.Get("X-Target") == "" {
				out = append(out, mark("tun?"))
			} else {
				out = append(out, mark("tun"))
			}
			break
		}
		var r string
		switch {
		case resp.StatusCode == 200:
			r = "get"
		case resp.StatusCode == 407 && resp.Close:
			r = "rc"
		case resp.StatusCode == 407:
			r = "ch"
		default:
			r = "st" + strconv.Itoa(resp.StatusCode)
		}
		out = append(out, mark(r))
		if resp.Close {
			break
		}
	}
	return strings.Join(out, ",")
}

func authHeader(tok string) (string, bool) {
	if tok == "-" {
		return "", false
	}
	if tok[0] == 'r' { // the raw value
		return unhx(tok[1:]), true
	}
	if tok[0] == 'm' {
		switch tok {
		case "m0":
			return "Bearer abc", true
		case "m1":
			return "Basic !!!", true
		case "m2":
			return "Basic", true
		case "m3":
			return "Basic YWxpY2U=", true // "alice", no colon
		default:
			return "Digest x=y", true
		}
	}
	parts := strings.Split(tok, ":")
	scheme := map[string]string{"b0": "Basic", "b1": "basic", "b2": "BASIC"}[parts[0]]
	return scheme + " " + base64.StdEncoding.EncodeToString([]byte(unhx(parts[1])+":"+unhx(parts[2]))), true
}

// haReqOver: one HTTP/1.1 request (o = origin-form, a = absolute-form, c = CONNECT) written to the reverse proxy's
// server at addr; 401 | fwd:<id> | 404 | st:<code>
func haReqOver(addr, form, host, path, authTok, pauthTok string) string {
	c, err := net.DialTimeout("tcp", addr, 2*time.Second)
	if err != nil {
		return "dialerr"
	}
	defer c.Close()
	_ = c.SetDeadline(time.Now().Add(10 * time.Second))
	var sb strings.Builder
	switch form {
	case "o":
		fmt.Fprintf(&sb, "GET %s HTTP/1.1\r\nHost: %s\r\n", path, host)
	case "a":
		fmt.Fprintf(&sb, "GET http://%s%s HTTP/1.1\r\nHost: %s\r\n", host, path, host)
	case "c":
		fmt.Fprintf(&sb, "CONNECT %s HTTP/1.1\r\nHost: %s\r\n", host, host)
	}
	if h, ok := authHeader(authTok); ok {
		fmt.Fprintf(&sb, "Authorization: %s\r\n", h)
	}
	if h, ok := authHeader(pauthTok); ok {
		fmt.Fprintf(&sb, "Proxy-Authorization: %s\r\n", h)
	}
	sb.WriteString("Connection: close\r\n\r\n")
	if _, err := c.Write([]byte(sb.String())); err != nil {
		return "writeerr"
	}
	method := "GET"
	if form == "c" {
		method = "CONNECT"
	}
	resp, err := http.ReadResponse(bufio.NewReader(c), &http.Request{Method: method})
	if err != nil {
		return "readerr"
	}
	defer resp.Body.Close()
	switch {
	case resp.StatusCode == 401:
		return "401"
	case resp.StatusCode == 404:
		return "404"
	case resp.StatusCode == 200 && resp.Header.Get("X-Id") != "":
		return "fwd:" + resp.Header.Get("X-Id")
	}
	return "st:" + strconv.Itoa(resp.StatusCode)
}

func httpAuthExec(tok []string) string {
	if has == nil {
		httpAuthReset()
	}
	st := has
	if r, ok := httpAuthWebExec(st, tok); ok {
		return r
	}
	if r, ok := httpAuthTmuxExec(tok); ok {
		return r
	}
	if r, ok := httpAuthR5Exec(tok); ok {
		return r
	}
	switch tok[0] {
	case "reset":
		httpAuthReset()
		hatReset("")
		if hoSt != nil {
			hoReset()
		}
		if hgSt != nil {
			hgReset()
		}
		return "-"
	case "h2c":
		return st.hah2Conn(tok)
	case "reg":
		id := atoi(tok[6])
		bu, bp := unhx(tok[4]), unhx(tok[5])
		err := st.rp.Register(vhost.RouteConfig{
			Domain: unhx(tok[1]), Location: unhx(tok[2]), RouteByHTTPUser: unhx(tok[3]),
			Username: unhx(tok[4]), Password: unhx(tok[5]),
			CreateConnFn: func(string) (net.Conn, error) { return backendConn(id, bu, bp), nil },
		})
		if err != nil {
			return "conflict"
		}
		return "ok"
	case "unreg":
		st.rp.UnRegister(vhost.RouteConfig{Domain: unhx(tok[1]), Location: unhx(tok[2]), RouteByHTTPUser: unhx(tok[3])})
		return "-"
	case "req":
		return haReqOver(st.addr, tok[1], unhx(tok[2]), unhx(tok[3]), tok[4], tok[5])
	case "mreg":
		id := atoi(tok[5])
		l, err := st.mux.Listen(context.Background(), &vhost.RouteConfig{
			Domain: unhx(tok[1]), RouteByHTTPUser: unhx(tok[2]), Username: unhx(tok[3]), Password: unhx(tok[4]),
		})
		if err != nil {
			return "conflict"
		}
		go func() {
			for {
				c, err := l.Accept()
				if err != nil {
					return
				}
				st.muxAcc <- id
				c.Close()
			}
		}()
		return "ok"
	case "mreq":
		host := unhx(tok[1])
		c, err := net.DialTimeout("tcp", st.muxLn.Addr().String(), 2*time.Second)
		if err != nil {
			return "dialerr"
		}
		defer c.Close()
		_ = c.SetDeadline(time.Now().Add(5 * time.Second))
		var sb strings.Builder
		fmt.Fprintf(&sb, "CONNECT %s:443 HTTP/1.1\r\nHost: %s:443\r\n", host, host)
		if h, ok := authHeader(tok[2]); ok {
			fmt.Fprintf(&sb, "Proxy-Authorization: %s\r\n", h)
		}
		sb.WriteString("\r\n")
		if _, err := c.Write([]byte(sb.String())); err != nil {
			return "writeerr"
		}
		br := bufio.NewReader(c)
		resp, err := http.ReadResponse(br, &http.Request{Method: "CONNECT"})
		if err != nil {
			return "closed"
		}
		switch resp.StatusCode {
		case 200:
			// sendConnectResponse has answered 200 *before* the credential check (Muxer.handle runs the
			// success hook first); the connection is then either handed to a listener or refused with a
			// 407 written after the 200 and closed.
			next := make(chan string, 1)
			go func() {
				r2, err := http.ReadResponse(br, &http.Request{Method: "GET"})
				if err != nil {
					next <- "eof"
					return
				}
				next <- strconv.Itoa(r2.StatusCode)
			}()
			select {
			case id := <-st.muxAcc:
				return "acc:" + strconv.Itoa(id)
			case r := <-next:
				if r != "eof" {
					return r
				}
				select {
				case id := <-st.muxAcc:
					return "acc:" + strconv.Itoa(id)
				case <-time.After(time.Second):
					return "closed"
				}
			case <-time.After(4 * time.Second):
				return "acc:lost"
			}
		case 407:
			return "407"
		case 404:
			return "404"
		}
		return "st:" + strconv.Itoa(resp.StatusCode)
	case "mw":
		called := false
		h := netpkg.NewHTTPAuthMiddleware(unhx(tok[1]), unhx(tok[2])).Middleware(
			http.HandlerFunc(func(http.ResponseWriter, *http.Request) { called = true }))
		r := httptest.NewRequest("GET", "/api/x", nil)
		if hd, ok := authHeader(tok[3]); ok {
			r.Header.Set("Authorization", hd)
		}
		w := httptest.NewRecorder()
		h.ServeHTTP(w, r)
		if called {
			return "next"
		}
		return strconv.Itoa(w.Code)
	case "pl":
		p, err := plugin.NewHTTPProxyPlugin(plugin.PluginContext{}, &v1.HTTPProxyPluginOptions{HTTPUser: unhx(tok[1]), HTTPPassword: unhx(tok[2])})
		if err != nil {
			return "err"
		}
		defer p.Close()
		r := httptest.NewRequest("GET", "http://example.com/", nil)
		if hd, ok := authHeader(tok[3]); ok {
			r.Header.Set("Proxy-Authorization", hd)
		}
		return strconv.FormatBool(p.(*plugin.HTTPProxy).Auth(r))
	case "plc":
		return st.httpAuthPlugConn(unhx(tok[1]), unhx(tok[2]), tok[3:])
	}
	return "bad-op"
}

var (
	haHosts = []string{"h.example.com", "a.example.com", "*.example.com", "example.org", "*"}
	haUsers = []string{"", "alice", "bob"}
	haPass  = []string{"", "secret", "pw:1", "x"}
)

func genAuthTok(rng *rand.Rand, users, pass []string) string {
	switch k := rng.Intn(20); {
	case k < 5:
		return "-"
	case k < 7:
		return "m" + strconv.Itoa(rng.Intn(5))
	default:
		return "b" + strconv.Itoa(rng.Intn(3)%(1+rng.Intn(3))) + ":" + hx(pick(rng, users)) + ":" + hx(pick(rng, pass))
	}
}

// genAuthTokWire: as genAuthTok, plus raw header values (exact / letter-case variants of the base64 text / other
// encodings / blanks / other schemes, see hawHeaderValue) relative to a credential pair of the vocabulary;
// for headers that travel over TCP and are parsed by parseBasicAuth-style code (req, mreq)
func genAuthTokWire(rng *rand.Rand, users, pass []string) string {
	if rng.Intn(6) == 0 {
		return "r" + hx(hawHeaderValue(rng, pick(rng, users), pick(rng, pass)))
	}
	return genAuthTok(rng, users, pass)
}

func haMixCase(rng *rand.Rand, s string) string {
	if rng.Intn(3) != 0 {
		return s
	}
	b := []byte(s)
	for i := range b {
		if rng.Intn(2) == 0 && b[i] >= 'a' && b[i] <= 'z' {
			b[i] -= 32
		}
	}
	return string(b)
}

func concreteHost(rng *rand.Rand, h string) string {
	if h == "*" {
		return pick(rng, []string{"other.net", "z.example.org"})
	}
	if strings.HasPrefix(h, "*.") {
		return pick(rng, []string{"w", "a.b", "h"}) + h[1:]
	}
	return h
}

// locations a route can be registered with (default "", the root, nested and sibling prefixes)
var haLocs = []string{"", "/", "/a", "/ab", "/a/b", "/b", "/a/"}

// path segments: plain names that are / extend / miss the registered locations, dot segments, the empty
// segment, and percent-encoded spellings of letters, dots and the separator
var haSegs = []string{"a", "ab", "b", "x", "..", ".", "", "..", ".", "", "%2e%2e", "%2E%2e", "%2e", ".%2E", "%61", "%62", "a%2fb", "%2f", "a;b", "a."}

// haGenPath: the path of a request target as written on the wire
func haGenPath(rng *rand.Rand) string {
	switch k := rng.Intn(20); {
	case k < 7: // ordinary paths
		return pick(rng, []string{"/", "/a", "/ab/x", "/b", "/a/b", "/a/b/c", "/x"})
	case k < 19: // composed of 1..4 segments of every kind, optional trailing slash
		n := 1 + rng.Intn(4)
		p := ""
		for i := 0; i < n; i++ {
			p += "/" + pick(rng, haSegs)
		}
		if rng.Intn(5) == 0 {
			p += "/"
		}
		return p
	default: // malformed escapes (the server must answer 400 itself)
		return "/" + pick(rng, haSegs) + pick(rng, []string{"%", "%2", "%zz", "%g0", "%2%65", "/%"})
	}
}

// credentials for a request of a plugin connection: exact / absent / malformed / some other pair
func haPlugAuthTok(rng *rand.Rand, u, p string) string {
	switch k := rng.Intn(20); {
	case k < 7:
		return "b" + strconv.Itoa(rng.Intn(3)) + ":" + hx(u) + ":" + hx(p)
	case k < 13:
		return "-"
	case k < 15:
		return "m" + strconv.Itoa(rng.Intn(5))
	default:
		return genAuthTok(rng, haUsers, haPass)
	}
}

func httpAuthGen(rng *rand.Rand, n int, emit func(string)) {
	emit("reset")
	id := 0
	hoLid, hoCid, hgPid := 0, 0, 0
	regs := []hah2Reg{} // the http routes asked for since the last reset
	for i := 0; i < n; i++ {
		k := rng.Intn(2316)
		switch {
		case k >= 2296 && k < 2306:
			// hand-off in Muxer.handle: listeners the harness accepts from (or not), closed while connections wait
			i += hoGenBurst(rng, emit, &hoLid, &hoCid)
		case k >= 2306:
			// http load-balancing groups: membership histories x credential pairs, requests through ServeHTTP
			i += hgGenBurst(rng, emit, &hgPid)
		case k >= 2086 && k < 2286:
			// one connection upgraded to HTTP/2 (or opened with prior knowledge) carrying 1..4 further streams
			emit(hah2Gen(rng, regs))
		case k >= 2286 && k < 2296:
			// server-side tcpmux proxies, a burst on a fresh muxer: real NewProxy(tcpmux).Run / Close, real
			// CONNECT requests, listener dumps
			tsh := pick(rng, hatSHs)
			tpxs, tlive := []hatPx{}, []int{}
			emit("treset " + hx(tsh))
			for r, nr := 0, 25+rng.Intn(30); r < nr; r++ {
				i++
				switch t := rng.Intn(100); {
				case t < 25:
					id++
					rid := id
					if len(tlive) > 0 && rng.Intn(12) == 0 {
						rid = pick(rng, tlive) // an instance that is already running
					}
					line, px := hatGenRun(rng, rid, tsh)
					emit(line)
					if rid == id {
						tpxs = append(tpxs, px)
						tlive = append(tlive, id)
					}
				case t < 32:
					if len(tlive) == 0 {
						continue
					}
					j := rng.Intn(len(tlive))
					cid := tlive[j]
					tlive = append(tlive[:j], tlive[j+1:]...)
					for x := range tpxs {
						if tpxs[x].id == cid {
							tpxs = append(tpxs[:x], tpxs[x+1:]...)
							break
						}
					}
					emit(fmt.Sprintf("tclose %d", cid))
				case t < 92:
					emit(hatGenConn(rng, tpxs))
				default:
					emit("tview")
				}
			}
			emit("tview")
		case k < 20:
			emit("reset")
			regs = regs[:0]
		case k < 440:
			id++
			ru := pick(rng, haUsers)
			u, p := pick(rng, haUsers), pick(rng, haPass)
			if rng.Intn(2) == 0 && ru != "" { // the common deployment: route user = credential user
				u = ru
			}
			if rng.Intn(4) == 0 {
				u, p = "", ""
			}
			rh, rl := pick(rng, haHosts), pick(rng, haLocs)
			regs = append(regs, hah2Reg{rh, rl, ru, u, p})
			emit(fmt.Sprintf("reg %s %s %s %s %s %d", hx(haMixCase(rng, rh)), hx(rl), hx(ru), hx(u), hx(p), id))
		case k < 520:
			emit(fmt.Sprintf("unreg %s %s %s", hx(pick(rng, haHosts)), hx(pick(rng, haLocs)), hx(pick(rng, haUsers))))
		case k < 1320:
			form := pick(rng, []string{"o", "o", "a", "a", "c"})
			host := haMixCase(rng, concreteHost(rng, pick(rng, haHosts)))
			path := haGenPath(rng)
			if form == "c" {
				host += pick(rng, []string{":443", ":80"})
				path = ""
			} else if rng.Intn(4) == 0 {
				host += pick(rng, []string{":80", ".", ".:8080"})
			}
			emit(fmt.Sprintf("req %s %s %s %s %s", form, hx(host), hx(path), genAuthTokWire(rng, haUsers, haPass), genAuthTokWire(rng, haUsers, haPass)))
		case k < 1480:
			id++
			u, p := pick(rng, haUsers), pick(rng, haPass)
			emit(fmt.Sprintf("mreg %s %s %s %s %d", hx(haMixCase(rng, pick(rng, haHosts))), hx(pick(rng, haUsers)), hx(u), hx(p), id))
		case k < 1780:
			emit(fmt.Sprintf("mreq %s %s", hx(haMixCase(rng, concreteHost(rng, pick(rng, haHosts)))), genAuthTokWire(rng, haUsers, haPass)))
		case k < 1860:
			emit(fmt.Sprintf("mw %s %s %s", hx(pick(rng, haUsers)), hx(pick(rng, haPass)), genAuthTok(rng, haUsers, haPass)))
		case k < 1930: // the middleware again, from raw header values
			emit(hawGen(rng, "mw"))
		case k < 1950:
			emit(fmt.Sprintf("pl %s %s %s", hx(pick(rng, haUsers)), hx(pick(rng, haPass)), genAuthTok(rng, haUsers, haPass)))
		case k < 2000:
			emit(hawGen(rng, "s5"))
		case k < 2016:
			// a burst of requests for the web endpoints, answered together
			for r, nr := 0, 20+rng.Intn(40); r < nr; r++ {
				emit(hawGen(rng, pick(rng, []string{"sf", "sf", "sf", "dash", "dash", "adm"})))
				i++
			}
			emit("wflush")
		default:
			// one work connection of the http_proxy plugin: 1..4 requests, CONNECT anywhere in the sequence
			u, p := pick(rng, haUsers), pick(rng, haPass)
			if rng.Intn(10) < 7 {
				u, p = pick(rng, haUsers[1:]), pick(rng, haPass[1:])
			}
			line := fmt.Sprintf("plc %s %s", hx(u), hx(p))
			for r, nr := 0, 1+rng.Intn(4); r < nr; r++ {
				m := pick(rng, []string{"CONNECT", "CONNECT", "CONNECT", "CONNECT", "GET", "GET", "GET", "OPTIONS", "DELETE", "connect", "Connect"})
				if r == 0 && nr > 1 && rng.Intn(3) != 0 { // mostly let the connection reach the embedded http.Server
					m = pick(rng, []string{"GET", "GET", "OPTIONS", "DELETE"})
				}
				line += " " + hx(m) + " " + haPlugAuthTok(rng, u, p)
			}
			emit(line)
		}
	}
}

func init() { register(&Engine{Name: "httpauth", Gen: httpAuthGen, Exec: httpAuthExec}) }
