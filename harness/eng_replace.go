package main

// Engine "replace" (property C10): a real server.Service in-process; scripted raw clients (frpc's end of the control
// connection is a net.Pipe handed to the internal listener).  A session is REPLACED by a login with its run id while
// its teardown is slow: every Control.worker is parked at the verifhook gates worker.dispDone (before anything is
// released), optionally worker.drained (pool drained, ctl.mu held), and worker.beforeDone (everything released, doneCh
// still open); registrations are parked at reg.checked / reg.ran (a session whose connection is closed while its
// handler sits there cannot even begin its teardown: the dispatcher runs handlers synchronously).  `wait` lets time
// pass with the replacing login pending.  Model: Frp/Model/SessReplace.lean.
//
//	reset
//	login <n> <rid>                 client n logs in with run id "r<rid>"        => ack | pending | disabled
//	wait <n> <ms>                   up to ms: is the pending login n answered?    => pending | ack | ackclosed | disabled
//	begin <n> <name> tcp r<k>|stcp  NewProxy up to the gate reg.checked           => at:checked | err:exists | busy | notlive
//	step <n>                        the next section                              => at:ran | ok | err:conflict | err:inuse | noflight | wparked | notlive
//	close <n> <name>                CloseProxy (+ Ping/Pong as a barrier)         => - | busy | notlive
//	drop <n>                        the client closes its connection              => ok
//	drain <n>                       worker: dispDone -> drained                   => ok | disabled
//	walk <n>                        worker: … -> beforeDone (every proxy closed)  => ok | disabled
//	done <n>                        worker: close(doneCh); waits for ctl.afterDel and for the logins that waited for
//	                                this session                                   => ok[:ack<m>|:ackclosed<m>]… | disabled
//	view                            => tcp[k=name,…]visitor[…]names[name=sid,…]
//
// every answer that contains an acknowledgement of a session that replaced another one is followed by
// ":left=<names the server's name table lists for the REPLACED session at that moment>" when there are any.
// Every wait is event driven and bounded (2 s, `wait`: its argument); an expired wait answers "timeout" and wedges the
// world (every further op up to the next reset answers "wedged").

import (
	"context"
	"fmt"
	"math/rand"
	"net"
	"sort"
	"strconv"
	"strings"
	"sync"
	"time"

	"github.com/fatedier/frp/pkg/config/types"
	v1 "github.com/fatedier/frp/pkg/config/v1"
	"github.com/fatedier/frp/pkg/msg"
	"github.com/fatedier/frp/pkg/util/verifhook"
	"github.com/fatedier/frp/pkg/util/version"
	"github.com/fatedier/frp/server"
	"github.com/fatedier/frp/server/controller"
)

const rpTimeout = 2 * time.Second

type rpClient struct {
	n        int
	rid      int
	conn     net.Conn
	msgs     []msg.Message
	state    string // pending | live | ending | parked | walked | gone
	dropped  bool   // the client closed its end
	old      int    // the session this login replaced (-1: none)
	flight   bool
	atGate   string // reg gate the handler is parked at
	wGate    string // worker gate the worker is parked at
	holdDr   bool
	afterDel bool
	sawWait  bool
	sawStart bool
}

type rpWorld struct {
	gen     int
	svr     *server.Service
	rc      *controller.ResourceController
	cancel  context.CancelFunc
	base    int
	mu      sync.Mutex
	ev      chan struct{}
	dead    bool
	rel     map[string]chan struct{} // "<n>/<gate>" -> release
	clients map[int]*rpClient
	cur     map[int]int // rid -> session
	wedged  bool
}

var (
	rpW   *rpWorld
	rpGen int
)

func rpHost(gen, n int) string { return "w" + strconv.Itoa(gen) + "-s" + strconv.Itoa(n) }

func rpParseHost(h string) (int, int, bool) {
	if !strings.HasPrefix(h, "w") {
		return 0, 0, false
	}
	i := strings.Index(h, "-s")
	if i < 0 {
		return 0, 0, false
	}
	g, e1 := strconv.Atoi(h[1:i])
	n, e2 := strconv.Atoi(h[i+2:])
	return g, n, e1 == nil && e2 == nil
}

func (w *rpWorld) signal() {
	select {
	case w.ev <- struct{}{}:
	default:
	}
}

func (w *rpWorld) gate(point string, keys []string) {
	if len(keys) < 2 {
		return
	}
	g, n, ok := rpParseHost(keys[1])
	if !ok || g != w.gen {
		return
	}
	w.mu.Lock()
	c := w.clients[n]
	if w.dead || c == nil {
		w.mu.Unlock()
		return
	}
	park := false
	switch point {
	case "ctl.beforeWait":
		c.sawWait = true
	case "ctl.beforeStart":
		c.sawStart = true
	case "ctl.afterDel":
		c.afterDel = true
	case "worker.dispDone", "worker.beforeDone":
		c.wGate, park = point, true
	case "worker.drained":
		if c.holdDr {
			c.holdDr = false
			c.wGate, park = point, true
		}
	case "reg.checked", "reg.ran":
		c.atGate, park = point, true
	}
	var ch chan struct{}
	if park {
		ch = make(chan struct{})
		w.rel[strconv.Itoa(n)+"/"+strings.SplitN(point, ".", 2)[0]] = ch
	}
	w.mu.Unlock()
	w.signal()
	if ch != nil {
		<-ch
	}
}

// release the goroutine of session n parked at a gate of the given family ("worker" | "reg")
func (w *rpWorld) release(n int, fam string) {
	w.mu.Lock()
	k := strconv.Itoa(n) + "/" + fam
	ch := w.rel[k]
	delete(w.rel, k)
	if c := w.clients[n]; c != nil {
		if fam == "worker" {
			c.wGate = ""
		} else {
			c.atGate = ""
		}
	}
	w.mu.Unlock()
	if ch != nil {
		close(ch)
	}
}

// wait until the predicate (evaluated under w.mu) holds
func (w *rpWorld) until(d time.Duration, p func() bool) bool {
	deadline := time.Now().Add(d)
	for {
		w.mu.Lock()
		ok := p()
		w.mu.Unlock()
		if ok {
			return true
		}
		rem := time.Until(deadline)
		if rem <= 0 {
			return false
		}
		if rem > 2*time.Millisecond {
			rem = 2 * time.Millisecond
		}
		select {
		case <-w.ev:
		case <-time.After(rem):
		}
	}
}

func (w *rpWorld) reader(c *rpClient) {
	for {
		m, err := msg.ReadMsg(c.conn)
		if err != nil {
			return
		}
		w.mu.Lock()
		c.msgs = append(c.msgs, m)
		w.mu.Unlock()
		w.signal()
	}
}

// take the first message of the given kind (under w.mu)
func rpTake[T msg.Message](c *rpClient) (T, bool) {
	var zero T
	for i, m := range c.msgs {
		if t, ok := m.(T); ok {
			c.msgs = append(c.msgs[:i], c.msgs[i+1:]...)
			return t, true
		}
	}
	return zero, false
}

func rpClose() {
	w := rpW
	if w == nil {
		return
	}
	w.mu.Lock()
	w.dead = true
	for k, ch := range w.rel {
		close(ch)
		delete(w.rel, k)
	}
	w.mu.Unlock()
	for _, c := range w.clients {
		if c.conn != nil {
			c.conn.Close()
		}
	}
	verifhook.Set(nil)
	if w.svr != nil {
		closed := make(chan struct{})
		go func() { w.svr.Close(); close(closed) }()
		select {
		case <-closed:
		case <-time.After(rpTimeout):
		}
	}
	if w.cancel != nil {
		w.cancel()
	}
	rpW = nil
}

func rpReset() {
	rpClose()
	rpGen++
	w := &rpWorld{gen: rpGen, ev: make(chan struct{}, 1), rel: map[string]chan struct{}{}, clients: map[int]*rpClient{}, cur: map[int]int{}}
	var lastErr error
	for attempt := 0; attempt < 5; attempt++ {
		w.base = pickBase(portsRng)
		cfg := &v1.ServerConfig{}
		cfg.BindAddr = "127.0.0.1"
		cfg.BindPort = w.base + portsK
		cfg.ProxyBindAddr = "127.0.0.1"
		cfg.AllowPorts = []types.PortsRange{{Start: w.base + 1, End: w.base + 8}}
		cfg.Complete()
		cfg.Transport.HeartbeatTimeout = -1
		cfg.UserConnTimeout = 1
		cfg.Transport.TLS.CertFile, cfg.Transport.TLS.KeyFile = siteCert()
		svr, err := server.NewService(cfg)
		if err != nil {
			lastErr = err
			continue
		}
		ctx, cancel := context.WithCancel(context.Background())
		w.svr, w.cancel = svr, cancel
		w.rc = portsSvcField[controller.ResourceController](svr, "rc")
		go svr.Run(ctx)
		rpW = w
		verifhook.Set(w.gate)
		return
	}
	panic(fmt.Sprint("cannot start frps: ", lastErr))
}

func (w *rpWorld) timeout() string {
	w.wedged = true
	return "timeout"
}

// names the server's name table lists for session o
func (w *rpWorld) leftOf(o int) string {
	if o < 0 {
		return ""
	}
	_, names := w.svr.VerifSessDump()
	var l []string
	for nm, h := range names {
		if g, n, ok := rpParseHost(h); ok && g == w.gen && n == o {
			l = append(l, nm)
		}
	}
	if len(l) == 0 {
		return ""
	}
	sort.Strings(l)
	return ":left=" + strings.Join(l, ",")
}

// the login of c has been let through: LoginResp (ack) or, on a connection the client has closed, its worker at the
// first gate (ackclosed); "" = neither within d
func (w *rpWorld) acked(c *rpClient, d time.Duration) string {
	res := ""
	w.until(d, func() bool {
		if _, ok := rpTake[*msg.LoginResp](c); ok {
			res = "ack"
			return true
		}
		if c.dropped && c.wGate == "worker.dispDone" {
			res = "ackclosed"
			return true
		}
		return false
	})
	if res == "ack" {
		w.mu.Lock()
		c.state = "live"
		w.mu.Unlock()
	} else if res == "ackclosed" {
		w.mu.Lock()
		c.state = "parked"
		w.mu.Unlock()
	}
	return res
}

// the connection of session o was closed (by the client or by Replaced): follow its state
func (w *rpWorld) connClosed(o *rpClient) bool {
	w.mu.Lock()
	st, fl := o.state, o.flight
	w.mu.Unlock()
	if st != "live" {
		return true
	}
	if fl {
		w.mu.Lock()
		o.state = "ending"
		w.mu.Unlock()
		return true
	}
	if !w.until(rpTimeout, func() bool { return o.wGate == "worker.dispDone" }) {
		return false
	}
	w.mu.Lock()
	o.state = "parked"
	w.mu.Unlock()
	return true
}

func (w *rpWorld) view() string {
	_, used, _ := w.rc.TCPPortManager.VerifDump()
	us := []string{}
	for p, n := range used {
		us = append(us, fmt.Sprintf("%d=%s", p-w.base, n))
	}
	sort.Strings(us)
	vis := w.rc.VisitorManager.VerifNames()
	sort.Strings(vis)
	_, nm := w.svr.VerifSessDump()
	names := []string{}
	for n, h := range nm {
		_, sid, _ := rpParseHost(h)
		names = append(names, n+"="+strconv.Itoa(sid))
	}
	sort.Strings(names)
	return fmt.Sprintf("tcp[%s]visitor[%s]names[%s]", strings.Join(us, ","), strings.Join(vis, ","), strings.Join(names, ","))
}

func rpExec(tok []string) string {
	if tok[0] == "reset" {
		rpReset()
		return "-"
	}
	if rpW == nil {
		rpReset()
	}
	w := rpW
	if w.wedged {
		return "wedged"
	}
	if tok[0] == "view" {
		return w.view()
	}
	if len(tok) < 2 {
		return "bad-op"
	}
	n := atoi(tok[1])
	w.mu.Lock()
	c := w.clients[n]
	w.mu.Unlock()
	switch tok[0] {
	case "login":
		if c != nil {
			return "disabled"
		}
		rid := atoi(tok[2])
		c1, c2 := net.Pipe()
		c = &rpClient{n: n, rid: rid, conn: c2, state: "pending", old: -1}
		var oc *rpClient
		w.mu.Lock()
		if o, ok := w.cur[rid]; ok {
			c.old = o
			oc = w.clients[o]
			if oc != nil && oc.state == "pending" {
				oc.dropped = true // Replaced closes its connection while it is still waiting itself
			}
		}
		w.cur[rid] = n
		w.clients[n] = c
		w.mu.Unlock()
		if err := w.svr.VerifAuthInternalListener().PutConn(c1); err != nil {
			return "puterr"
		}
		go w.reader(c)
		_ = c2.SetWriteDeadline(time.Now().Add(rpTimeout))
		if err := msg.WriteMsg(c2, &msg.Login{Version: version.Full(), Hostname: rpHost(w.gen, n), Os: "linux", Arch: "amd64",
			RunID: "r" + strconv.Itoa(rid), ClientSpec: msg.ClientSpec{AlwaysAuthPass: true}}); err != nil {
			return "writeerr"
		}
		if !w.until(rpTimeout, func() bool { return c.sawWait || c.sawStart }) {
			return w.timeout()
		}
		if oc != nil && !w.connClosed(oc) {
			return w.timeout()
		}
		w.mu.Lock()
		waits := c.sawWait && !c.sawStart
		w.mu.Unlock()
		if waits {
			// inside the wait for the replaced session, whose teardown is held: nothing more will happen by itself —
			// unless the wait gives up, which `wait` observes
			if r := w.acked(c, 20*time.Millisecond); r != "" {
				return r + w.leftOf(c.old)
			}
			return "pending"
		}
		r := w.acked(c, rpTimeout)
		if r == "" {
			return w.timeout()
		}
		return r + w.leftOf(c.old)
	}
	if c == nil {
		switch tok[0] {
		case "wait", "drain", "walk", "done":
			return "disabled"
		case "drop":
			return "ok"
		case "step", "begin", "close":
			return "notlive"
		}
		return "bad-op"
	}
	w.mu.Lock()
	state := c.state
	w.mu.Unlock()
	switch tok[0] {
	case "wait":
		if state != "pending" {
			return "disabled"
		}
		r := w.acked(c, time.Duration(atoi(tok[2]))*time.Millisecond)
		if r == "" {
			return "pending"
		}
		return r + w.leftOf(c.old)
	case "begin":
		if state != "live" {
			return "notlive"
		}
		if c.flight {
			return "busy"
		}
		m := &msg.NewProxy{ProxyName: tok[2], ProxyType: tok[3]}
		switch tok[3] {
		case "tcp":
			m.RemotePort = w.base + atoi(tok[4][1:])
		case "stcp":
			m.Sk = "sk"
		}
		_ = c.conn.SetWriteDeadline(time.Now().Add(rpTimeout))
		if err := msg.WriteMsg(c.conn, m); err != nil {
			return "err:send"
		}
		return w.regEvent(c)
	case "step":
		if state != "live" && state != "ending" {
			return "notlive"
		}
		if !c.flight {
			return "noflight"
		}
		w.release(n, "reg")
		return w.regEvent(c)
	case "close":
		if state != "live" {
			return "notlive"
		}
		if c.flight {
			return "busy"
		}
		_ = c.conn.SetWriteDeadline(time.Now().Add(rpTimeout))
		if err := msg.WriteMsg(c.conn, &msg.CloseProxy{ProxyName: tok[2]}); err != nil {
			return "err:send"
		}
		if err := msg.WriteMsg(c.conn, &msg.Ping{}); err != nil {
			return "err:send"
		}
		if !w.until(rpTimeout, func() bool { _, ok := rpTake[*msg.Pong](c); return ok }) {
			return w.timeout()
		}
		return "-"
	case "drop":
		w.mu.Lock()
		c.dropped = true
		w.mu.Unlock()
		c.conn.Close()
		if !w.connClosed(c) {
			return w.timeout()
		}
		return "ok"
	case "drain":
		if state != "parked" {
			return "disabled"
		}
		w.mu.Lock()
		at := c.wGate
		if at == "worker.dispDone" {
			c.holdDr = true
		}
		w.mu.Unlock()
		if at != "worker.dispDone" {
			return "ok" // already past it
		}
		w.release(n, "worker")
		if !w.until(rpTimeout, func() bool { return c.wGate == "worker.drained" }) {
			return w.timeout()
		}
		return "ok"
	case "walk":
		if state != "parked" {
			return "disabled"
		}
		w.release(n, "worker")
		if !w.until(rpTimeout, func() bool { return c.wGate == "worker.beforeDone" }) {
			return w.timeout()
		}
		w.mu.Lock()
		c.state = "walked"
		w.mu.Unlock()
		return "ok"
	case "done":
		if state != "walked" {
			return "disabled"
		}
		w.release(n, "worker")
		if !w.until(rpTimeout, func() bool { return c.afterDel }) {
			return w.timeout()
		}
		w.mu.Lock()
		c.state = "gone"
		var waiters []*rpClient
		for _, x := range w.clients {
			if x.old == n && x.state == "pending" {
				waiters = append(waiters, x)
			}
		}
		w.mu.Unlock()
		sort.Slice(waiters, func(i, j int) bool { return waiters[i].n < waiters[j].n })
		res, left := "ok", ""
		for _, x := range waiters {
			r := w.acked(x, rpTimeout)
			if r == "" {
				return w.timeout()
			}
			res += ":" + r + strconv.Itoa(x.n)
			left = w.leftOf(n)
		}
		return res + left
	}
	return "bad-op"
}

// the next event of the registration in flight of session c: a gate, the answer, or (on a closed connection) the
// session's worker reaching its first gate
func (w *rpWorld) regEvent(c *rpClient) string {
	w.mu.Lock()
	c.flight = true
	w.mu.Unlock()
	res := ""
	if !w.until(rpTimeout, func() bool {
		if c.atGate != "" {
			res = "at:" + strings.TrimPrefix(c.atGate, "reg.")
			return true
		}
		if r, ok := rpTake[*msg.NewProxyResp](c); ok {
			res = "ok"
			if r.Error != "" {
				res = rrClassify(fmt.Errorf("%s", r.Error))
			}
			c.flight = false
			return true
		}
		if c.state == "ending" && c.wGate == "worker.dispDone" {
			res = "wparked"
			c.flight = false
			c.state = "parked"
			return true
		}
		return false
	}) {
		return w.timeout()
	}
	return res
}

// Generator.  Worlds of one replacement story each, built from independent choices (a class, not a script):
//   - what the old session owns when it is replaced: 0..3 proxies (tcp on explicit ports, stcp), possibly one
//     registration left parked at reg.checked / reg.ran (the old dispatcher is inside a handler: its teardown cannot begin);
//   - who else is around: a bystander session with another run id registering / closing colliding names and ports;
//   - how the old session goes away: replaced while live, or the client drops first and logs in again;
//   - how slow the teardown is: `wait`s of 0..120 ms at any point (before the parked registration finishes, at worker.dispDone,
//     at worker.drained, at worker.beforeDone), bystander ops in between;
//   - chains: a second login with the same run id while the first replacement is still pending, or after it;
//   - afterwards the new session re-submits the old session's registrations verbatim, plus views.
// The corpus (harness/corpus/replace) holds the one scenario that keeps the old worker parked for 6 s.
func rpGen1(rng *rand.Rand, emit func(string)) {
	emit("reset")
	rid := 1 + rng.Intn(3)
	names := []string{"a", "b", "c"}
	type reg struct{ name, rest string }
	mk := func() reg {
		nm := pick(rng, names)
		if rng.Intn(3) == 0 {
			return reg{nm, "stcp"}
		}
		return reg{nm, "tcp r" + strconv.Itoa(1+rng.Intn(4))}
	}
	full := func(n int, r reg) {
		emit(fmt.Sprintf("begin %d %s %s", n, r.name, r.rest))
		emit(fmt.Sprintf("step %d", n))
		emit(fmt.Sprintf("step %d", n))
	}
	wait := func(n int) {
		if rng.Intn(2) == 0 {
			emit(fmt.Sprintf("wait %d %d", n, pick(rng, []int{0, 5, 30, 120})))
		}
	}
	emit(fmt.Sprintf("login 1 %d", rid))
	var regs []reg
	for i, k := 0, rng.Intn(4); i < k; i++ {
		r := mk()
		regs = append(regs, r)
		full(1, r)
	}
	bystander := rng.Intn(3) > 0
	if bystander {
		emit(fmt.Sprintf("login 3 %d", rid+3))
		if rng.Intn(2) == 0 {
			full(3, mk())
		}
	}
	parkedSteps := -1
	if rng.Intn(3) == 0 {
		r := mk()
		regs = append(regs, r)
		emit(fmt.Sprintf("begin 1 %s %s", r.name, r.rest))
		parkedSteps = 2
		if rng.Intn(2) == 0 {
			emit("step 1")
			parkedSteps = 1
		}
	}
	if rng.Intn(4) == 0 {
		emit("drop 1")
	}
	emit(fmt.Sprintf("login 2 %d", rid))
	wait(2)
	if rng.Intn(3) == 0 {
		emit("view")
	}
	early4 := rng.Intn(8) == 0
	late4 := !early4 && rng.Intn(6) == 0
	if early4 {
		emit(fmt.Sprintf("login 4 %d", rid))
		wait(4)
	}
	if bystander && rng.Intn(2) == 0 {
		r := mk()
		full(3, r)
		if rng.Intn(2) == 0 {
			emit(fmt.Sprintf("close 3 %s", r.name))
		}
	}
	for ; parkedSteps > 0; parkedSteps-- {
		emit("step 1")
		wait(2)
	}
	if rng.Intn(2) == 0 {
		emit("drain 1")
		wait(2)
	}
	if rng.Intn(4) == 0 {
		emit(fmt.Sprintf("begin 2 %s %s", "a", "stcp")) // not handled: the session is not started
	}
	emit("walk 1")
	wait(2)
	if rng.Intn(3) == 0 {
		emit("view")
	}
	emit("done 1")
	last := 2
	if late4 {
		emit(fmt.Sprintf("login 4 %d", rid))
		wait(4)
	}
	if early4 || late4 {
		emit("walk 2")
		wait(4)
		emit("done 2")
		last = 4
	}
	for _, r := range regs {
		full(last, r)
	}
	emit("view")
	if rng.Intn(3) == 0 {
		emit(fmt.Sprintf("drop %d", last))
		emit(fmt.Sprintf("walk %d", last))
		emit(fmt.Sprintf("done %d", last))
		emit("view")
	}
}

func rpGenOps(rng *rand.Rand, n int, emit func(string)) {
	cnt := 0
	e := func(s string) { emit(s); cnt++ }
	for cnt < n {
		rpGen1(rng, e)
	}
}

func init() { register(&Engine{Name: "replace", Gen: rpGenOps, Exec: rpExec}) }
