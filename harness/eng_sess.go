// Engine "sess" (property C12): a real server.Service in-process; scripted raw clients on net.Pipe
// connections handed to the internal listener; EVERY goroutine of the session machinery is parked at the
// gates of commit 75a0848 (verifhook.At) and released label by label in the generated order.  After each
// label the implementation's own tables are dumped (Service.VerifSessDump) and compared with the model.
//
// Sessions are numbered; Login.Hostname = "s<n>".  Run ids travel as numbers: k < 1000 is the literal id
// "r<k>", 1000+n is the id util.RandID generated for session n.  Proxy names are "p<k>".
//
//	reset
//	login <n> <rid> <fresh>   client n connects and sends Login (RunID "" if fresh=1)  => ok | ok:fresh | ok:stale   (parked before ctlManager.Add)
//	add <n>                   ctlManager.Add                                            => old:<o> | noold
//	early <n>                 release the waiter although the old session is not done   => waiting | passed
//	waitold <n>               oldCtl.WaitClosed() returns                                => ok | blocked
//	start <n>                 ctl.Start()                                                => ack | ackfail
//	connclose <n>             the client closes its connection                           => -
//	dispdone <n>              the dispatcher's read loop has ended (worker at its first gate) => ok
//	drain <n>                 worker: close conn, lock, close+drain the pool             => ok
//	closeproxy <n>            worker: close one proxy (Go's map order chooses)           => p:<k>
//	done <n>                  worker: close(doneCh)                                      => ok
//	del <n>                   ctlManager.Del                                             => ok
//	name <p> <hx>             from now on name index p stands for this raw proxy name (default "p<k>"; pairwise
//	                          different raw names only)                                  => ok | dup
//	regexist <n> <p> <typ>    NewProxy (tcp | stcp | sudp | xtcp) up to pxyManager.Exist  => checked | exists | connclosed
//	regrun <n> / regadd <n> / regown <n>                                                 => ran|runerr / added|refused / ok
//	closereq <n> <p>          CloseProxy up to pxyManager.Del                            => deleted | noop | connclosed
//	closefin <n>                                                                         => ok
//	vprobe <p> <w>            a visitor connects to name p (Service.RegisterVisitorConn, right key)
//	                          => nolistener | listener | req:<n>  (n = the session whose client was asked for a work
//	                          connection; waited for only if w != 0 and session w can be asked at all)
//	nprobe <p>                nat hole pre-check for name p, sent by an unrelated, ungated session => client | noclient
//	tprobe <n> <p>            a user connects to the remote port session n got for its tcp proxy p
//	                          => noport | refused | accepted | req:<m>
//	wpoke <n> <p>             frps gets something to WRITE to session n's control connection: a visitor with the right
//	                          key (stcp / sudp) or a user (tcp) connects to n's registered proxy p, the proxy asks n's
//	                          dispatcher for a work connection (Control.GetWorkConn -> Dispatcher.Send -> sendLoop ->
//	                          WriteMsg).  Generated also while n's connection is CLOSED and its read loop sits inside a
//	                          parked handler: the write fails.  => req:<k> (client k received the ReqWorkConn) |
//	                          wfail:<n> (a Write on n's server-side connection returned an error) |
//	                          wfail:<n>;done (… and n's worker passed `<-Done()` although a handler of n is in flight) |
//	                          nolistener | noport | refused | nowrite
//	randid                    fact check of util.RandID (one call)                       => ok | …
//	randconc <g> <k>          g goroutines × k calls of the real util.RandID, interleaved with runtime.Gosched
//	                          => ids:<id,…> (g·k ≤ 4096: all ids, Lean decides) | sum:n=<g·k>;bad=<malformed ids>;dup=<repeated ids>
//	freshburst <m> <bg>       m logins WITHOUT run id at once on the real Service (not gated), while bg goroutines draw
//	                          ids from util.RandID the way the plugin manager / nat hole controller do; then all m
//	                          connections are closed and the op waits (event: ctl.afterDel) until they are gone
//	                          => ids:<run ids of the LoginResps>;own=<ids that designate their own session in ctlsByRunID>;
//	                             other=<run ids that were also handed out to a background caller>;bgdup=<repeated background ids>;bg=<n>
//
// a fresh `login` answers fresh:<the generated id>; every result (except reset/randid/randconc) is followed by
// "|run[rid=n,…]names[p=n,…]own[n:p,…]vis[p,…]nat[p,…]" (the real tables: ctlsByRunID, pxys, ctl.proxies of the
// designated sessions, visitor.Manager.listeners, nathole.Controller.clientCfgs); an op whose goroutine is not where the op needs it answers "disabled".
//
// Every wait is event driven and bounded by sessTimeout (2 s; halved by every expiry in the process, down to 125 ms).  An
// expired wait answers timeout / blocked / …|dumpblocked and WEDGES the world: every further op up to the next
// reset answers "wedged" at once (a violation run must not spend minutes waiting for gates nobody will reach).
package main

import (
	"context"
	crand "crypto/rand"
	"encoding/hex"
	"fmt"
	"io"
	"math/rand"
	"net"
	"runtime"
	"sort"
	"strconv"
	"strings"
	"sync"
	"time"

	"github.com/fatedier/frp/pkg/config/types"
	v1 "github.com/fatedier/frp/pkg/config/v1"
	"github.com/fatedier/frp/pkg/msg"
	"github.com/fatedier/frp/pkg/util/util"
	"github.com/fatedier/frp/pkg/util/verifhook"
	"github.com/fatedier/frp/pkg/util/version"
	"github.com/fatedier/frp/server"
	"github.com/fatedier/frp/server/controller"
)

var (
	sessTimeout  = 2 * time.Second // upper bound of every single wait
	sessTimeouts = 0
)

const sessFullIDs = 4096 // randconc: up to this many ids travel to the Lean driver in full

// every expiry halves the bound for the rest of the process (2 s, 1 s, … down to 125 ms): an expiry is
// already a disagreement with the model, and a tree that produces them produces them in most worlds
func sessTimedOut() {
	sessTimeouts++
	if sessTimeout > 125*time.Millisecond {
		sessTimeout /= 2
	}
}

type sessGor struct {
	at      string
	arg     string
	release chan struct{}
}

type sessClient struct {
	n            int
	conn         net.Conn
	ridStr       string
	fresh        bool
	msgs         []msg.Message
	readerEOF    bool
	started      bool
	clientClosed bool
	replaced     bool
	dispSeen     bool
	doneRel      bool
	busy         bool // a handler of this session is between its first gate and its return
	old          int
	earlyRel     bool
	passedWait   bool
	regName      int            // name index of the NewProxy the handler is working on
	regTyp       string         // … and its type
	ports        map[int]string // name index -> remote address of the registered tcp proxy
	wfails       int            // Writes on the server side of the control connection that returned an error
	rdErr        bool           // a Read on the server side of the control connection returned an error (the read loop ends)
}

// the server side of a scripted client's control connection: reports failed reads / writes of frps as events
type sessSrvConn struct {
	net.Conn
	w *sessWorld
	c *sessClient
}

func (s *sessSrvConn) Read(p []byte) (int, error) {
	n, err := s.Conn.Read(p)
	if err != nil {
		s.w.mu.Lock()
		s.c.rdErr = true
		s.w.mu.Unlock()
		s.w.signal()
	}
	return n, err
}

func (s *sessSrvConn) Write(p []byte) (int, error) {
	n, err := s.Conn.Write(p)
	if err != nil {
		s.w.mu.Lock()
		s.c.wfails++
		s.w.mu.Unlock()
		s.w.signal()
	}
	return n, err
}

type sessWorld struct {
	svr     *server.Service
	gen     int
	cancel  context.CancelFunc
	mu      sync.Mutex
	ev      chan struct{}
	dead    bool
	parked  map[string]*sessGor
	clients map[int]*sessClient
	ridNum  map[string]int // actual run id -> number
	wedged  bool           // a bounded wait expired: nothing more is driven in this world

	burstSeq int
	burstDel int // ctl.afterDel events of sessions of the current burst

	rc      *controller.ResourceController // the Service's own resource controller (read-only dumps)
	raw     map[int]string                 // name index -> raw proxy name
	rawIdx  map[string]int                 // raw proxy name -> index
	prober  *sessClient                    // an ungated session that sends nat hole pre-checks
	probeTx int
}

const sessProbeHost = "prober"

// the raw proxy name index k stands for
func (w *sessWorld) rawName(k int) string {
	if s, ok := w.raw[k]; ok {
		return s
	}
	return "p" + strconv.Itoa(k)
}

// name index of a raw name found in a table of the implementation; 9999 = a name no client ever sent
func (w *sessWorld) nameIdx(raw string) int {
	if k, ok := w.rawIdx[raw]; ok && w.rawName(k) == raw {
		return k
	}
	for k := 0; k < 16; k++ {
		if w.rawName(k) == raw {
			return k
		}
	}
	return 9999
}

var sessW *sessWorld
var sessGeneration = 0

func sessHost(n int) string { return "s" + strconv.Itoa(n) + "g" + strconv.Itoa(sessGeneration) }

// "s<n>g<gen>" -> n, gen
func sessParseHost(h string) (int, int, bool) {
	if !strings.HasPrefix(h, "s") {
		return 0, 0, false
	}
	i := strings.Index(h, "g")
	if i < 0 {
		return 0, 0, false
	}
	n, err1 := strconv.Atoi(h[1:i])
	g, err2 := strconv.Atoi(h[i+1:])
	return n, g, err1 == nil && err2 == nil
}

func sessBurstHost(i, seq int) string {
	return "b" + strconv.Itoa(i) + "q" + strconv.Itoa(seq) + "g" + strconv.Itoa(sessGeneration)
}

// "b<i>q<seq>g<gen>" -> seq, gen
func sessParseBurstHost(h string) (int, int, bool) {
	if !strings.HasPrefix(h, "b") {
		return 0, 0, false
	}
	i, j := strings.Index(h, "q"), strings.Index(h, "g")
	if i < 0 || j < i {
		return 0, 0, false
	}
	_, err0 := strconv.Atoi(h[1:i])
	q, err1 := strconv.Atoi(h[i+1 : j])
	g, err2 := strconv.Atoi(h[j+1:])
	return q, g, err0 == nil && err1 == nil && err2 == nil
}

func sessKind(point string) string {
	switch {
	case point == "ctl.beforeDel" || point == "ctl.afterDel":
		return "del"
	case strings.HasPrefix(point, "ctl."):
		return "login"
	case strings.HasPrefix(point, "worker."):
		return "worker"
	}
	return "handler"
}

func (w *sessWorld) signal() {
	select {
	case w.ev <- struct{}{}:
	default:
	}
}

func (w *sessWorld) gate(point string, keys []string) {
	if len(keys) < 2 {
		return
	}
	if bq, bg, ok := sessParseBurstHost(keys[1]); ok {
		// sessions of a burst are not parked; the end of their life is an event the burst op waits for
		if point == "ctl.afterDel" && bg == w.gen {
			w.mu.Lock()
			if bq == w.burstSeq {
				w.burstDel++
			}
			w.mu.Unlock()
			w.signal()
		}
		return
	}
	hn, hg, hok := sessParseHost(keys[1])
	if !hok || hg != w.gen {
		return
	}
	g := &sessGor{at: point, release: make(chan struct{})}
	if len(keys) > 2 {
		g.arg = keys[2]
	}
	w.mu.Lock()
	if w.dead {
		w.mu.Unlock()
		return
	}
	if point == "ctl.beforeAdd" {
		if c := w.clients[hn]; c != nil {
			c.ridStr = keys[0]
		}
	}
	w.parked[sessKey(hn, sessKind(point))] = g
	w.mu.Unlock()
	w.signal()
	<-g.release
}

// wait until one of the predicates (evaluated under w.mu) holds; -1 = timeout
func (w *sessWorld) waitAny(timeout time.Duration, preds ...func() bool) int {
	deadline := time.Now().Add(timeout)
	for {
		w.mu.Lock()
		for i, p := range preds {
			if p() {
				w.mu.Unlock()
				return i
			}
		}
		w.mu.Unlock()
		rem := time.Until(deadline)
		if rem <= 0 {
			return -1
		}
		if rem > 2*time.Millisecond {
			rem = 2 * time.Millisecond
		}
		select {
		case <-w.ev:
		case <-time.After(rem):
		}
	}
}

func sessKey(n int, kind string) string { return "s" + strconv.Itoa(n) + "/" + kind }

func (w *sessWorld) at(n int, kind string, points ...string) func() bool {
	return func() bool {
		g := w.parked[sessKey(n, kind)]
		if g == nil {
			return false
		}
		for _, p := range points {
			if g.at == p {
				return true
			}
		}
		return false
	}
}

func (w *sessWorld) isAt(n int, kind string, points ...string) bool {
	w.mu.Lock()
	defer w.mu.Unlock()
	return w.at(n, kind, points...)()
}

func (w *sessWorld) argAt(n int, kind string) string {
	w.mu.Lock()
	defer w.mu.Unlock()
	if g := w.parked[sessKey(n, kind)]; g != nil {
		return g.arg
	}
	return ""
}

func (w *sessWorld) release(n int, kind string) {
	w.mu.Lock()
	g := w.parked[sessKey(n, kind)]
	delete(w.parked, sessKey(n, kind))
	w.mu.Unlock()
	if g != nil {
		close(g.release)
	}
}

// a message of the given kind has arrived at client n (and is consumed)
func (w *sessWorld) got(c *sessClient, match func(msg.Message) bool, out *msg.Message) func() bool {
	return func() bool {
		for i, m := range c.msgs {
			if match(m) {
				*out = m
				c.msgs = append(c.msgs[:i], c.msgs[i+1:]...)
				return true
			}
		}
		return false
	}
}

func sessClose() {
	w := sessW
	if w == nil {
		return
	}
	w.mu.Lock()
	w.dead = true
	for k, g := range w.parked {
		close(g.release)
		delete(w.parked, k)
	}
	w.mu.Unlock()
	for _, c := range w.clients {
		if c.conn != nil {
			c.conn.Close()
		}
	}
	verifhook.Set(nil)
	if w.svr != nil {
		// bounded: a wedged world may hold a lock Close needs until its released goroutines have unwound
		closed := make(chan struct{})
		go func() { w.svr.Close(); close(closed) }()
		select {
		case <-closed:
		case <-time.After(sessTimeout):
		}
	}
	if w.cancel != nil {
		w.cancel()
	}
	sessW = nil
}

func sessReset() {
	sessClose()
	sessGeneration++
	w := &sessWorld{gen: sessGeneration, ev: make(chan struct{}, 1), parked: map[string]*sessGor{}, clients: map[int]*sessClient{},
		ridNum: map[string]int{}, raw: map[int]string{}, rawIdx: map[string]int{}}
	var lastErr error
	for attempt := 0; attempt < 5; attempt++ {
		cfg := &v1.ServerConfig{}
		cfg.BindAddr = "127.0.0.1"
		cfg.BindPort, _, _ = peerFreePorts()
		cfg.ProxyBindAddr = "127.0.0.1"
		cfg.AllowPorts = []types.PortsRange{{Start: 30000, End: 31999}}
		cfg.Complete()
		cfg.Transport.HeartbeatTimeout = -1
		cfg.UserConnTimeout = 1
		// one certificate per process instead of an RSA key per NewService (150 ms per reset)
		cfg.Transport.TLS.CertFile, cfg.Transport.TLS.KeyFile = siteCert()
		svr, err := server.NewService(cfg)
		if err != nil {
			lastErr = err
			continue
		}
		ctx, cancel := context.WithCancel(context.Background())
		w.svr, w.cancel = svr, cancel
		w.rc = portsSvcField[controller.ResourceController](svr, "rc")
		go svr.Run(ctx)
		sessW = w
		verifhook.Set(w.gate)
		return
	}
	panic(fmt.Sprint("cannot start frps: ", lastErr))
}

func (w *sessWorld) ridString(r int) string {
	if r >= 1000 {
		if c := w.clients[r-1000]; c != nil && c.ridStr != "" {
			return c.ridStr
		}
		return "unknown" + strconv.Itoa(r)
	}
	return "r" + strconv.Itoa(r)
}

func (w *sessWorld) ridNumber(s string) int {
	if strings.HasPrefix(s, "r") {
		if k, err := strconv.Atoi(s[1:]); err == nil {
			return k
		}
	}
	if k, ok := w.ridNum[s]; ok {
		return k
	}
	return 9999
}

func sessHostNum(h string) int {
	if n, _, ok := sessParseHost(h); ok {
		return n
	}
	return 9999
}

func sessNameNum(p string) int {
	if strings.HasPrefix(p, "p") {
		if k, err := strconv.Atoi(p[1:]); err == nil {
			return k
		}
	}
	return 9999
}

// the real tables; bounded (a goroutine blocked inside ControlManager.Add holds the lock the dump needs)
func (w *sessWorld) tables() (map[string]string, map[string]string, bool) {
	type t struct{ a, b map[string]string }
	ch := make(chan t, 1)
	go func() {
		a, b := w.svr.VerifSessDump()
		ch <- t{a, b}
	}()
	tm := time.NewTimer(sessTimeout)
	defer tm.Stop()
	select {
	case x := <-ch:
		return x.a, x.b, true
	case <-tm.C:
		return nil, nil, false
	}
}

func (w *sessWorld) dump() (string, bool) {
	byRun, names, ok := w.tables()
	if !ok {
		return "", false
	}
	// own tables of the designated sessions, rendez-vous tables (every goroutine of the world is parked or idle).
	// VerifAuthSessions takes the mutex of every designated session: a session parked inside its teardown loop or
	// inside CloseProxy holds it — then the own tables are not read ("?")
	ownReadable := true
	w.mu.Lock()
	for _, h := range byRun {
		if k, _, ok := sessParseHost(h); ok {
			if w.at(k, "worker", "worker.drained", "worker.proxy", "worker.beforeDone")() || w.at(k, "handler", "close.deleted")() {
				ownReadable = false
			}
		}
	}
	w.mu.Unlock()
	type own struct {
		sessions []server.VerifAuthSession
		vis, nat []string
	}
	och := make(chan own, 1)
	go func() {
		o := own{vis: w.rc.VisitorManager.VerifNames()}
		if ownReadable {
			o.sessions = w.svr.VerifAuthSessions()
		}
		if w.rc.NatHoleController != nil {
			o.nat = w.rc.NatHoleController.VerifClients()
		}
		och <- o
	}()
	var o own
	tm := time.NewTimer(sessTimeout)
	defer tm.Stop()
	select {
	case o = <-och:
	case <-tm.C:
		return "", false
	}
	w.mu.Lock()
	defer w.mu.Unlock()
	type kv struct{ k, v int }
	rs := []kv{}
	for id, h := range byRun {
		if h == sessProbeHost {
			continue
		}
		rs = append(rs, kv{w.ridNumber(id), sessHostNum(h)})
	}
	ns := []kv{}
	for p, h := range names {
		ns = append(ns, kv{w.nameIdx(p), sessHostNum(h)})
	}
	os := []kv{}
	for _, s := range o.sessions {
		h, ok := byRun[s.RunID]
		if !ok || h == sessProbeHost {
			continue
		}
		for _, p := range s.Proxies {
			os = append(os, kv{sessHostNum(h), w.nameIdx(p)})
		}
	}
	g := func(xs []string) string {
		ks := []int{}
		for _, x := range xs {
			ks = append(ks, w.nameIdx(x))
		}
		sort.Ints(ks)
		out := []string{}
		for _, k := range ks {
			out = append(out, strconv.Itoa(k))
		}
		return strings.Join(out, ",")
	}
	pairs := func(xs []kv) string {
		sort.Slice(xs, func(i, j int) bool { return xs[i].k < xs[j].k || xs[i].k == xs[j].k && xs[i].v < xs[j].v })
		out := []string{}
		for _, x := range xs {
			out = append(out, strconv.Itoa(x.k)+":"+strconv.Itoa(x.v))
		}
		return strings.Join(out, ",")
	}
	f := func(xs []kv) string {
		sort.Slice(xs, func(i, j int) bool { return xs[i].k < xs[j].k || xs[i].k == xs[j].k && xs[i].v < xs[j].v })
		out := []string{}
		for _, x := range xs {
			out = append(out, strconv.Itoa(x.k)+"="+strconv.Itoa(x.v))
		}
		return strings.Join(out, ",")
	}
	ownStr := "?"
	if ownReadable {
		ownStr = pairs(os)
	}
	return "run[" + f(rs) + "]names[" + f(ns) + "]own[" + ownStr + "]vis[" + g(o.vis) + "]nat[" + g(o.nat) + "]", true
}

func (w *sessWorld) reader(c *sessClient) {
	for {
		m, err := msg.ReadMsg(c.conn)
		w.mu.Lock()
		if err != nil {
			c.readerEOF = true
			w.mu.Unlock()
			w.signal()
			return
		}
		c.msgs = append(c.msgs, m)
		w.mu.Unlock()
		w.signal()
	}
}

func (w *sessWorld) send(c *sessClient, m msg.Message) error {
	_ = c.conn.SetWriteDeadline(time.Now().Add(sessTimeout))
	return msg.WriteMsg(c.conn, m)
}

func sessIsHex16(s string) bool {
	if len(s) != 16 {
		return false
	}
	_, err := hex.DecodeString(s)
	return err == nil && strings.ToLower(s) == s
}

type sessCountReader struct {
	r    io.Reader
	data []byte
}

func (c *sessCountReader) Read(p []byte) (int, error) {
	n, err := c.r.Read(p)
	c.data = append(c.data, p[:n]...)
	return n, err
}

// util.RandID draws its bytes from crypto/rand.Reader and returns the first 16 hex digits of them
func sessRandIDFact() string {
	orig := crand.Reader
	cr := &sessCountReader{r: orig}
	crand.Reader = cr
	id, err := util.RandID()
	crand.Reader = orig
	if err != nil {
		return "err"
	}
	if !sessIsHex16(id) {
		return "badformat"
	}
	if len(cr.data) < 8 {
		return "notcrypto"
	}
	if hex.EncodeToString(cr.data)[:16] != id {
		return "notcrypto"
	}
	id2, _ := util.RandID()
	if id2 == id {
		return "repeats"
	}
	return "ok"
}

func sessExec(tok []string) string {
	if tok[0] == "reset" {
		sessReset()
		return "-"
	}
	if tok[0] == "randid" {
		return sessRandIDFact()
	}
	if tok[0] == "randconc" {
		if len(tok) < 3 {
			return "badop"
		}
		return sessRandConc(atoi(tok[1]), atoi(tok[2]))
	}
	if sessW == nil {
		sessReset()
	}
	w := sessW
	if w.wedged {
		return "wedged"
	}
	r := sessOp(w, tok)
	d, ok := w.dump()
	if !ok {
		sessTimedOut()
		w.wedged = true
		return r + "|dumpblocked"
	}
	return r + "|" + d
}

// a bounded wait expired
func (w *sessWorld) timeout() string {
	sessTimedOut()
	w.wedged = true
	return "timeout"
}

// an id as a trace token
func sessIDTok(id string) string {
	if id == "" || len(id) > 64 {
		return hx(id)
	}
	for _, c := range id {
		if !(c >= '0' && c <= '9' || c >= 'a' && c <= 'z' || c >= 'A' && c <= 'Z') {
			return hx(id)
		}
	}
	return id
}

// g goroutines call the real util.RandID k times each, yielding the processor in between in a pattern
// that differs from goroutine to goroutine.  N random 64-bit ids are pairwise different unless the
// generator is broken (probability of a collision ≤ N²/2⁶⁵).
func sessRandConc(g, k int) string {
	if g < 1 || k < 1 || g*k > 1<<20 {
		return "badop"
	}
	out := make([][]string, g)
	errs := make([]int, g)
	start := make(chan struct{})
	var wg sync.WaitGroup
	for i := 0; i < g; i++ {
		wg.Add(1)
		go func(i int) {
			defer wg.Done()
			ids := make([]string, 0, k)
			<-start
			for j := 0; j < k; j++ {
				id, err := util.RandID()
				if err != nil {
					errs[i]++
				}
				ids = append(ids, id)
				if (j+i)%3 == 0 {
					runtime.Gosched()
				}
			}
			out[i] = ids
		}(i)
	}
	close(start)
	wg.Wait()
	all := make([]string, 0, g*k)
	for _, ids := range out {
		all = append(all, ids...)
	}
	if len(all) <= sessFullIDs {
		toks := make([]string, len(all))
		for i, id := range all {
			toks[i] = sessIDTok(id)
		}
		return "ids:" + strings.Join(toks, ",")
	}
	seen := make(map[string]int, len(all))
	bad, dup := []string{}, []string{}
	for _, id := range all {
		if !sessIsHex16(id) && len(bad) < 4 {
			bad = append(bad, sessIDTok(id))
		}
		seen[id]++
		if seen[id] == 2 && len(dup) < 8 {
			dup = append(dup, sessIDTok(id))
		}
	}
	return fmt.Sprintf("sum:n=%d;bad=%s;dup=%s", len(all), strings.Join(bad, ","), strings.Join(dup, ","))
}

// m logins without run id at once on the real Service, bg goroutines drawing ids meanwhile
func (w *sessWorld) burst(m, bg int) string {
	if m < 1 || m > 100 || bg < 0 || bg > 16 {
		return "badop"
	}
	type bclient struct {
		conn net.Conn
		host string
		id   string
		ack  bool
		late bool
	}
	w.mu.Lock()
	w.burstSeq++
	seq := w.burstSeq
	w.burstDel = 0
	w.mu.Unlock()
	cs := make([]*bclient, m)
	start := make(chan struct{})
	stop := make(chan struct{})
	var wg, bwg sync.WaitGroup
	bgIDs := make([][]string, bg)
	for j := 0; j < bg; j++ {
		bwg.Add(1)
		go func(j int) {
			defer bwg.Done()
			ids := make([]string, 0, 4096)
			<-start
			for len(ids) < 50000 {
				select {
				case <-stop:
					bgIDs[j] = ids
					return
				default:
				}
				id, _ := util.RandID()
				ids = append(ids, id)
			}
			bgIDs[j] = ids
		}(j)
	}
	lis := w.svr.VerifAuthInternalListener()
	deadline := sessTimeout
	for i := 0; i < m; i++ {
		c1, c2 := net.Pipe()
		b := &bclient{conn: c2, host: sessBurstHost(i, seq)}
		cs[i] = b
		wg.Add(1)
		go func(b *bclient, c1 net.Conn) {
			defer wg.Done()
			<-start
			if err := lis.PutConn(c1); err != nil {
				return
			}
			_ = b.conn.SetDeadline(time.Now().Add(deadline))
			lm := &msg.Login{Version: version.Full(), Hostname: b.host, Os: "linux", Arch: "amd64",
				ClientSpec: msg.ClientSpec{AlwaysAuthPass: true}}
			if err := msg.WriteMsg(b.conn, lm); err != nil {
				return
			}
			rm, err := msg.ReadMsg(b.conn)
			if err != nil {
				if ne, ok := err.(net.Error); ok && ne.Timeout() {
					b.late = true // the bound of the harness expired: no verdict
				}
				return
			}
			if lr, ok := rm.(*msg.LoginResp); ok && lr.Error == "" {
				b.id, b.ack = lr.RunID, true
			}
			_ = b.conn.SetDeadline(time.Time{})
		}(b, c1)
	}
	close(start)
	wg.Wait()
	close(stop)
	bwg.Wait()
	// at the peak: every acknowledged fresh login is what its own id designates
	byRun, _, ok := w.tables()
	if !ok {
		return w.timeout()
	}
	for _, b := range cs {
		if b.late {
			for _, x := range cs {
				x.conn.Close()
			}
			return w.timeout()
		}
	}
	ids := []string{}
	acked, own := 0, 0
	runIDs := map[string]bool{}
	for _, b := range cs {
		if !b.ack {
			continue
		}
		acked++
		ids = append(ids, sessIDTok(b.id))
		runIDs[b.id] = true
		if byRun[b.id] == b.host {
			own++
		}
	}
	other, bgdup, nbg := 0, 0, 0
	bgSeen := map[string]bool{}
	for _, l := range bgIDs {
		for _, id := range l {
			nbg++
			if bgSeen[id] {
				bgdup++
			}
			bgSeen[id] = true
		}
	}
	for id := range runIDs {
		if bgSeen[id] {
			other++
		}
	}
	// every connection of the burst is closed; wait until the sessions are gone from the run-id table
	for _, b := range cs {
		b.conn.Close()
	}
	if w.waitAny(sessTimeout, func() bool { return w.burstDel >= acked }) < 0 {
		return w.timeout()
	}
	return fmt.Sprintf("ids:%s;own=%d;other=%d;bgdup=%d;bg=%d", strings.Join(ids, ","), own, other, bgdup, nbg)
}

const sessSk = "k"

// a message for a client that can still be asked for a work connection has arrived: which client
func (w *sessWorld) reqAt(out *int) func() bool {
	return func() bool {
		ks := []int{}
		for k := range w.clients {
			ks = append(ks, k)
		}
		sort.Ints(ks)
		for _, k := range ks {
			c := w.clients[k]
			for i, m := range c.msgs {
				if _, ok := m.(*msg.ReqWorkConn); ok {
					c.msgs = append(c.msgs[:i], c.msgs[i+1:]...)
					*out = k
					return true
				}
			}
		}
		return false
	}
}

// session k is acknowledged, its connection is open and its dispatcher has not ended
func (w *sessWorld) canServe(k int) bool {
	w.mu.Lock()
	defer w.mu.Unlock()
	c := w.clients[k]
	return c != nil && c.started && !c.clientClosed && !c.replaced && !c.dispSeen && !c.readerEOF
}

// a visitor connects to name p through the real Service: is there a listener, and who is asked for the work connection
func (w *sessWorld) vprobe(p, hint int) string {
	w.mu.Lock()
	name := w.rawName(p)
	w.mu.Unlock()
	c1, c2 := net.Pipe()
	defer c2.Close()
	ts := time.Now().Unix()
	// the connection is handed to the listener (and somebody is asked for a work connection) only if this op
	// waits for that request; otherwise the visitor presents a wrong key: "auth failed" = the listener is there
	ask := hint != 0 && w.canServe(hint)
	key := util.GetAuthKey(sessSk, ts)
	if !ask {
		key = util.GetAuthKey(sessSk+"-wrong", ts)
	}
	w.dropReqs()
	type r struct{ err error }
	ch := make(chan r, 1)
	go func() {
		ch <- r{w.svr.RegisterVisitorConn(c1, &msg.NewVisitorConn{ProxyName: name, Timestamp: ts, SignKey: key})}
	}()
	var res r
	select {
	case res = <-ch:
	case <-time.After(sessTimeout):
		c1.Close()
		return w.timeout()
	}
	if res.err != nil {
		c1.Close()
		switch {
		case strings.Contains(res.err.Error(), "doesn't exist"):
			return "nolistener"
		case !ask && strings.Contains(res.err.Error(), "auth failed"):
			return "listener"
		}
		return "err:" + hx(res.err.Error())
	}
	who := -1
	if w.waitAny(sessTimeout, w.reqAt(&who)) < 0 {
		// nobody was asked within the bound (the holder cannot be asked, or a stale hint of a shrunk sequence)
		return "listener:noreq"
	}
	return "req:" + strconv.Itoa(who)
}

// forget work connection requests of earlier ops
func (w *sessWorld) dropReqs() {
	w.mu.Lock()
	defer w.mu.Unlock()
	for _, c := range w.clients {
		keep := c.msgs[:0]
		for _, m := range c.msgs {
			if _, ok := m.(*msg.ReqWorkConn); !ok {
				keep = append(keep, m)
			}
		}
		c.msgs = keep
	}
}

// the ungated session that sends nat hole pre-checks (logged in on first use)
func (w *sessWorld) proberClient() *sessClient {
	if w.prober != nil {
		return w.prober
	}
	c1, c2 := net.Pipe()
	c := &sessClient{n: -1, conn: c2}
	if err := w.svr.VerifAuthInternalListener().PutConn(c1); err != nil {
		return nil
	}
	lm := &msg.Login{Version: version.Full(), Hostname: sessProbeHost, Os: "linux", Arch: "amd64",
		ClientSpec: msg.ClientSpec{AlwaysAuthPass: true}}
	if err := w.send(c, lm); err != nil {
		return nil
	}
	go w.reader(c)
	var m msg.Message
	if w.waitAny(sessTimeout, w.got(c, func(m msg.Message) bool { _, ok := m.(*msg.LoginResp); return ok }, &m)) < 0 {
		return nil
	}
	w.prober = c
	return c
}

// NatHoleVisitor{PreCheck} for name p: is there a nat hole client entry
func (w *sessWorld) nprobe(p int) string {
	c := w.proberClient()
	if c == nil {
		return w.timeout()
	}
	w.mu.Lock()
	name := w.rawName(p)
	w.probeTx++
	tx := "t" + strconv.Itoa(w.probeTx)
	w.mu.Unlock()
	ts := time.Now().Unix()
	if err := w.send(c, &msg.NatHoleVisitor{TransactionID: tx, ProxyName: name, PreCheck: true, Timestamp: ts,
		SignKey: util.GetAuthKey(sessSk, ts)}); err != nil {
		return "writeerr"
	}
	var m msg.Message
	if w.waitAny(sessTimeout, w.got(c, func(m msg.Message) bool {
		r, ok := m.(*msg.NatHoleResp)
		return ok && r.TransactionID == tx
	}, &m)) < 0 {
		return w.timeout()
	}
	e := m.(*msg.NatHoleResp).Error
	switch {
	case e == "":
		return "client"
	case strings.Contains(e, "doesn't exist"):
		return "noclient"
	}
	return "err:" + hx(e)
}

// a user connects to the remote port of session n's tcp proxy p
func (w *sessWorld) tprobe(n, p int) string {
	w.mu.Lock()
	c := w.clients[n]
	addr := ""
	if c != nil {
		addr = c.ports[p]
	}
	w.mu.Unlock()
	if addr == "" {
		return "noport"
	}
	if strings.HasPrefix(addr, ":") {
		addr = "127.0.0.1" + addr
	}
	if !w.canServe(n) {
		return "notasked"
	}
	w.dropReqs()
	conn, err := net.DialTimeout("tcp", addr, sessTimeout)
	if err != nil {
		return "refused"
	}
	defer conn.Close()
	who := -1
	if w.waitAny(sessTimeout, w.reqAt(&who)) < 0 {
		return "accepted:noreq"
	}
	return "req:" + strconv.Itoa(who)
}

// how long a write-side event is given to reach the worker's first gate (it must NOT: this is a bounded
// negative check, paid once per wpoke on a closed connection)
const sessPokeGrace = 40 * time.Millisecond

// frps gets something to write to session n's control connection: somebody connects to n's proxy p, the proxy asks
// n's dispatcher for a work connection
func (w *sessWorld) wpoke(n, p int) string {
	w.mu.Lock()
	c := w.clients[n]
	name := w.rawName(p)
	addr := ""
	before := 0
	if c != nil {
		addr = c.ports[p]
		before = c.wfails
	}
	w.mu.Unlock()
	if c == nil || !c.started || c.dispSeen {
		return "disabled"
	}
	w.dropReqs()
	if addr != "" {
		if strings.HasPrefix(addr, ":") {
			addr = "127.0.0.1" + addr
		}
		conn, err := net.DialTimeout("tcp", addr, sessTimeout)
		if err != nil {
			return "refused"
		}
		defer conn.Close()
	} else {
		c1, c2 := net.Pipe()
		defer c2.Close()
		ts := time.Now().Unix()
		ch := make(chan error, 1)
		go func() {
			ch <- w.svr.RegisterVisitorConn(c1, &msg.NewVisitorConn{ProxyName: name, Timestamp: ts, SignKey: util.GetAuthKey(sessSk, ts)})
		}()
		select {
		case err := <-ch:
			if err != nil {
				c1.Close()
				if strings.Contains(err.Error(), "doesn't exist") {
					return "nolistener"
				}
				return "err:" + hx(err.Error())
			}
		case <-time.After(sessTimeout):
			c1.Close()
			return w.timeout()
		}
	}
	who := -1
	switch w.waitAny(sessTimeout, w.reqAt(&who), func() bool { return c.wfails > before }) {
	case 0:
		return "req:" + strconv.Itoa(who)
	case 1:
		r := "wfail:" + strconv.Itoa(n)
		if c.busy && w.waitAny(sessPokeGrace, w.at(n, "worker", "worker.dispDone")) >= 0 {
			r += ";done"
		}
		return r
	}
	return "nowrite"
}

// the handler of session n has returned: a reply arrived, or (closed connection) the read loop went on to its next
// ReadMsg, which failed (the worker's first gate is NOT that event: it says the dispatcher is done, which must come
// after the read loop has returned but is a separate fact)
func (w *sessWorld) handlerEnd(c *sessClient, reply func(msg.Message) bool, out *msg.Message) []func() bool {
	return []func() bool{w.got(c, reply, out), func() bool { return c.rdErr }}
}

// the bound of a wait for the end of a handler that is about to be released.  If the read loop has ENDED while the
// handler was parked (impossible for a dispatcher that calls its handlers itself) a failed read says nothing about
// the handler any more: only its next gate / its reply can be waited for, briefly, and an expiry is no wedge
func (w *sessWorld) handlerWait(c *sessClient, ends []func() bool) (time.Duration, bool) {
	w.mu.Lock()
	pre := c.rdErr
	w.mu.Unlock()
	if pre {
		ends[1] = func() bool { return false }
		return 6 * sessPokeGrace, true
	}
	return sessTimeout, false
}

func sessOp(w *sessWorld, tok []string) string {
	if len(tok) < 2 {
		return "badop"
	}
	if tok[0] == "freshburst" {
		if len(tok) < 3 {
			return "badop"
		}
		return w.burst(atoi(tok[1]), atoi(tok[2]))
	}
	switch tok[0] {
	case "name":
		if len(tok) < 3 {
			return "badop"
		}
		k, raw := atoi(tok[1]), unhx(tok[2])
		w.mu.Lock()
		defer w.mu.Unlock()
		for j := 0; j < 16; j++ {
			if j != k && w.rawName(j) == raw {
				return "dup"
			}
		}
		w.raw[k] = raw
		w.rawIdx[raw] = k
		return "ok"
	case "vprobe":
		if len(tok) < 3 {
			return "badop"
		}
		return w.vprobe(atoi(tok[1]), atoi(tok[2]))
	case "nprobe":
		return w.nprobe(atoi(tok[1]))
	case "tprobe":
		if len(tok) < 3 {
			return "badop"
		}
		return w.tprobe(atoi(tok[1]), atoi(tok[2]))
	case "wpoke":
		if len(tok) < 3 {
			return "badop"
		}
		return w.wpoke(atoi(tok[1]), atoi(tok[2]))
	}
	n := atoi(tok[1])
	w.mu.Lock()
	c := w.clients[n]
	w.mu.Unlock()
	if tok[0] == "login" {
		if c != nil || len(tok) < 4 {
			return "disabled"
		}
		r, fresh := atoi(tok[2]), tok[3] == "1"
		rid := ""
		if !fresh {
			if r >= 1000 {
				// the id of a fresh session can only be presented once that session has been given one
				// (sequences cut by the shrinker): nothing is done
				w.mu.Lock()
				oc := w.clients[r-1000]
				known := oc != nil && oc.fresh && oc.ridStr != ""
				w.mu.Unlock()
				if !known {
					return "disabled"
				}
			}
			rid = w.ridString(r)
		}
		c1, c2 := net.Pipe()
		c = &sessClient{n: n, conn: c2, old: -1, fresh: fresh, ports: map[int]string{}}
		w.mu.Lock()
		w.clients[n] = c
		w.mu.Unlock()
		if err := w.svr.VerifAuthInternalListener().PutConn(&sessSrvConn{Conn: c1, w: w, c: c}); err != nil {
			return "puterr"
		}
		lm := &msg.Login{Version: version.Full(), Hostname: sessHost(n), Os: "linux", Arch: "amd64",
			RunID: rid, ClientSpec: msg.ClientSpec{AlwaysAuthPass: true}}
		if err := w.send(c, lm); err != nil {
			return "writeerr"
		}
		go w.reader(c)
		if w.waitAny(sessTimeout, w.at(n, "login", "ctl.beforeAdd")) < 0 {
			return w.timeout()
		}
		if !fresh {
			return "ok"
		}
		// the generated id travels to the Lean driver, which evaluates the freshness predicate on it
		w.mu.Lock()
		defer w.mu.Unlock()
		id := c.ridStr
		w.ridNum[id] = 1000 + n
		return "fresh:" + sessIDTok(id)
	}
	if c == nil {
		return "disabled"
	}
	switch tok[0] {
	case "add":
		if !w.isAt(n, "login", "ctl.beforeAdd") {
			return "disabled"
		}
		byRun, _, tabOK := w.tables()
		if !tabOK {
			return w.timeout()
		}
		old := -1
		if h, ok := byRun[c.ridStr]; ok {
			old = sessHostNum(h)
		}
		w.release(n, "login")
		if w.waitAny(sessTimeout, w.at(n, "login", "ctl.beforeWait", "ctl.beforeStart")) < 0 {
			return w.timeout()
		}
		w.mu.Lock()
		if oc := w.clients[old]; oc != nil {
			oc.replaced = true
		}
		c.old = old
		w.mu.Unlock()
		if w.isAt(n, "login", "ctl.beforeWait") {
			return "old:" + strconv.Itoa(old)
		}
		return "noold"
	case "early":
		if !w.isAt(n, "login", "ctl.beforeWait") {
			return "disabled"
		}
		c.earlyRel = true
		w.release(n, "login")
		oc := w.clients[c.old]
		wait := 5 * time.Millisecond
		if oc != nil && oc.doneRel {
			wait = sessTimeout
		}
		if w.waitAny(wait, w.at(n, "login", "ctl.beforeStart")) >= 0 {
			c.passedWait = true
			return "passed"
		}
		return "waiting"
	case "waitold":
		oc := w.clients[c.old]
		if c.passedWait || !(w.isAt(n, "login", "ctl.beforeWait") || c.earlyRel) || oc == nil || !oc.doneRel {
			return "disabled"
		}
		if !c.earlyRel {
			w.release(n, "login")
		}
		if w.waitAny(sessTimeout, w.at(n, "login", "ctl.beforeStart")) < 0 {
			sessTimedOut()
			w.wedged = true
			return "blocked"
		}
		c.passedWait = true
		return "ok"
	case "start":
		if c.earlyRel && !c.passedWait {
			if oc := w.clients[c.old]; oc != nil && oc.doneRel {
				// released early and the predecessor has closed its done channel: the waiter passes by itself
				if w.waitAny(sessTimeout, w.at(n, "login", "ctl.beforeStart")) < 0 {
					return w.timeout()
				}
				c.passedWait = true
			}
		}
		if !w.isAt(n, "login", "ctl.beforeStart") {
			return "disabled"
		}
		w.release(n, "login")
		var m msg.Message
		i := w.waitAny(sessTimeout,
			w.got(c, func(m msg.Message) bool { _, ok := m.(*msg.LoginResp); return ok }, &m),
			w.at(n, "worker", "worker.dispDone"))
		c.started = true
		switch i {
		case 0:
			if lr := m.(*msg.LoginResp); lr.Error != "" || lr.RunID != c.ridStr {
				return "ack:wrongid"
			}
			return "ack"
		case 1:
			return "ackfail"
		}
		return w.timeout()
	case "connclose":
		c.clientClosed = true
		c.conn.Close()
		return "-"
	case "dispdone":
		if !c.started || c.dispSeen || !(c.clientClosed || c.replaced) {
			return "disabled"
		}
		if c.busy {
			// the read loop sits inside a parked handler: Done must not have fired.  Nothing to wait for: the
			// worker either stands at its first gate now (a write-side event let it pass) or it does not
			if !w.isAt(n, "worker", "worker.dispDone") {
				return "disabled"
			}
			c.dispSeen = true
			return "ok"
		}
		if w.waitAny(sessTimeout, w.at(n, "worker", "worker.dispDone")) < 0 {
			return w.timeout()
		}
		c.dispSeen = true
		return "ok"
	case "drain":
		if !c.dispSeen || !w.isAt(n, "worker", "worker.dispDone") {
			return "disabled"
		}
		w.release(n, "worker")
		if w.waitAny(sessTimeout, w.at(n, "worker", "worker.drained")) < 0 {
			return w.timeout()
		}
		w.release(n, "worker")
		if w.waitAny(sessTimeout, w.at(n, "worker", "worker.proxy", "worker.beforeDone")) < 0 {
			return w.timeout()
		}
		return "ok"
	case "closeproxy":
		if !w.isAt(n, "worker", "worker.proxy") {
			return "disabled"
		}
		p := w.argAt(n, "worker")
		w.release(n, "worker")
		if w.waitAny(sessTimeout, w.at(n, "worker", "worker.proxy", "worker.beforeDone")) < 0 {
			return w.timeout()
		}
		w.mu.Lock()
		defer w.mu.Unlock()
		return "p:" + strconv.Itoa(w.nameIdx(p))
	case "done":
		if !w.isAt(n, "worker", "worker.beforeDone") {
			return "disabled"
		}
		w.release(n, "worker")
		c.doneRel = true
		if w.waitAny(sessTimeout, w.at(n, "del", "ctl.beforeDel")) < 0 {
			return w.timeout()
		}
		return "ok"
	case "del":
		if !w.isAt(n, "del", "ctl.beforeDel") {
			return "disabled"
		}
		w.release(n, "del")
		if w.waitAny(sessTimeout, w.at(n, "del", "ctl.afterDel")) < 0 {
			return w.timeout()
		}
		w.release(n, "del")
		return "ok"
	case "regexist":
		if len(tok) < 4 || !c.started || c.dispSeen || c.busy {
			return "disabled"
		}
		if c.clientClosed || c.replaced {
			return "connclosed"
		}
		w.mu.Lock()
		name := w.rawName(atoi(tok[2]))
		w.mu.Unlock()
		nm := &msg.NewProxy{ProxyName: name, ProxyType: tok[3]}
		if tok[3] == "stcp" || tok[3] == "sudp" || tok[3] == "xtcp" {
			nm.Sk = sessSk
		}
		c.regName, c.regTyp = atoi(tok[2]), tok[3]
		if err := w.send(c, nm); err != nil {
			return "writeerr"
		}
		var m msg.Message
		switch w.waitAny(sessTimeout, w.at(n, "handler", "reg.checked"),
			w.got(c, func(m msg.Message) bool { _, ok := m.(*msg.NewProxyResp); return ok }, &m)) {
		case 0:
			c.busy = true
			return "checked"
		case 1:
			e := m.(*msg.NewProxyResp).Error
			if strings.Contains(e, "already exists") {
				return "exists"
			}
			return "err:" + hx(e)
		}
		return w.timeout()
	case "regrun", "regadd", "regown":
		from := map[string]string{"regrun": "reg.checked", "regadd": "reg.ran", "regown": "reg.added"}[tok[0]]
		to := map[string]string{"regrun": "reg.ran", "regadd": "reg.added", "regown": "-"}[tok[0]]
		yes := map[string]string{"regrun": "ran", "regadd": "added", "regown": "?"}[tok[0]]
		no := map[string]string{"regrun": "runerr", "regadd": "refused", "regown": "ok"}[tok[0]]
		if !w.isAt(n, "handler", from) {
			return "disabled"
		}
		var m msg.Message
		ends := w.handlerEnd(c, func(m msg.Message) bool { _, ok := m.(*msg.NewProxyResp); return ok }, &m)
		bound, loose := w.handlerWait(c, ends)
		w.release(n, "handler")
		i := w.waitAny(bound, w.at(n, "handler", to), ends[0], ends[1])
		if i < 0 && loose {
			i = 2
		}
		switch i {
		case 0:
			return yes
		case 1:
			c.busy = false
			e := m.(*msg.NewProxyResp).Error
			if tok[0] == "regown" {
				if e != "" {
					return "err:" + hx(e)
				}
				if c.regTyp == "tcp" {
					c.ports[c.regName] = m.(*msg.NewProxyResp).RemoteAddr
				}
				return "ok"
			}
			if tok[0] == "regadd" && !strings.Contains(e, "already in use") {
				return "err:" + hx(e)
			}
			return no
		case 2:
			c.busy = false
			return no
		}
		return w.timeout()
	case "closereq":
		if len(tok) < 3 || !c.started || c.dispSeen || c.busy {
			return "disabled"
		}
		if c.clientClosed || c.replaced {
			return "connclosed"
		}
		w.mu.Lock()
		cname := w.rawName(atoi(tok[2]))
		w.mu.Unlock()
		if err := w.send(c, &msg.CloseProxy{ProxyName: cname}); err != nil {
			return "writeerr"
		}
		go func() { _ = msg.WriteMsg(c.conn, &msg.Ping{}) }()
		var m msg.Message
		switch w.waitAny(sessTimeout, w.at(n, "handler", "close.deleted"),
			w.got(c, func(m msg.Message) bool { _, ok := m.(*msg.Pong); return ok }, &m)) {
		case 0:
			c.busy = true
			return "deleted"
		case 1:
			return "noop"
		}
		return w.timeout()
	case "closefin":
		if !w.isAt(n, "handler", "close.deleted") {
			return "disabled"
		}
		var m msg.Message
		ends := w.handlerEnd(c, func(m msg.Message) bool { _, ok := m.(*msg.Pong); return ok }, &m)
		bound, loose := w.handlerWait(c, ends)
		w.release(n, "handler")
		if w.waitAny(bound, ends[0], ends[1]) < 0 && !loose {
			return w.timeout()
		}
		c.busy = false
		return "ok"
	}
	return "badop"
}

// ---------------------------------------------------------------- generator (own light simulation of enabledness)

type sessSim struct {
	phase    string // "", created, added, waited, running, dispDone, drained, done
	rid      int
	old      int
	hp       string // "", checked, ran, added, closing
	hpArg    int
	hpTyp    string
	own      map[int]bool
	ownTyp   map[int]string
	todo     map[int]bool
	deleted  bool
	closed   bool
	earlyRel bool
	pokes    int // wpoke ops emitted while the connection was closed and a handler was in flight
}

type sessGenState struct {
	rng       *rand.Rand
	emit      func(string)
	n         int
	s         map[int]*sessSim
	byRun     map[int]int
	names     map[int]int
	next      int
	burst     bool        // a freshburst was emitted in this world
	vis       map[int]int // visitor listeners (stcp, sudp): name -> holder
	nat       map[int]int // nat hole client entries (xtcp): name -> holder
	forceName int         // name race: every NewProxy uses this name …
	forceTyps []string    // … and one of these types
	fuzzy     bool        // Go's map order has chosen among several proxies of a teardown: the simulation's tables are approximate
	after     []string    // ops to emit right after the chosen one (probes of the name a registration was refused for)
}

// which rendez-vous table a proxy type uses
func (g *sessGenState) rdv(typ string) map[int]int {
	switch typ {
	case "stcp", "sudp":
		return g.vis
	case "xtcp":
		return g.nat
	}
	return nil
}

// pxy.Close() of session k's proxy p of the given type: the entry goes, by name
func (g *sessGenState) release(k, p int, typ string) {
	if t := g.rdv(typ); t != nil {
		delete(t, p)
	}
}

// probes of name p: the rendez-vous entries under it and the tcp proxy registered under it
func (g *sessGenState) probes(p int) []string {
	out := []string{}
	if h, ok := g.vis[p]; ok {
		hint := 0
		if x := g.s[h]; !g.fuzzy && x != nil && x.phase == "running" && !x.closed {
			hint = h
		}
		out = append(out, fmt.Sprintf("vprobe %d %d", p, hint))
	} else if g.rng.Intn(3) == 0 {
		out = append(out, fmt.Sprintf("vprobe %d 0", p))
	}
	if _, ok := g.nat[p]; ok || g.rng.Intn(4) == 0 {
		out = append(out, fmt.Sprintf("nprobe %d", p))
	}
	if h, ok := g.names[p]; ok {
		if x := g.s[h]; x != nil && x.own[p] && x.ownTyp[p] == "tcp" && x.phase == "running" && !x.closed && !g.fuzzy {
			out = append(out, fmt.Sprintf("tprobe %d %d", h, p))
		}
	}
	return out
}

func (g *sessGenState) op(format string, a ...any) {
	g.emit(fmt.Sprintf(format, a...))
	g.n++
}

func (g *sessGenState) reset() {
	g.s, g.byRun, g.names, g.next, g.burst = map[int]*sessSim{}, map[int]int{}, map[int]int{}, 0, false
	g.vis, g.nat, g.fuzzy, g.after = map[int]int{}, map[int]int{}, false, nil
	g.forceName, g.forceTyps = 0, nil
	g.op("reset")
}

// blanks a careless normalisation would trim or fold
var sessBlanks = []string{" ", "  ", "\t", "\n", "\r\n", "\u00a0", "\u3000", "\u2003", "\u200b", "\ufeff"}
var sessBases = []string{"web", "ssh", "Db", "api-1", "a", "x.y", "user.web", "wéb", "日本語", "веб", "naïve", "😀", "web/1", "%20", "p1", "p2"}

// one proxy name as a client may send it: a base, padded / split by blanks, in another case, very long, empty
func sessGenName(rng *rand.Rand, base string) string {
	n := base
	switch rng.Intn(12) {
	case 0:
		return n
	case 1:
		return n + pick(rng, sessBlanks)
	case 2:
		return pick(rng, sessBlanks) + n
	case 3:
		return pick(rng, sessBlanks) + n + pick(rng, sessBlanks)
	case 4:
		r := []rune(n)
		i := rng.Intn(len(r) + 1)
		return string(r[:i]) + pick(rng, sessBlanks) + string(r[i:])
	case 5:
		return strings.ToUpper(n)
	case 6:
		return strings.ToLower(n)
	case 7:
		return strings.Title(n) //nolint
	case 8:
		return strings.Repeat(n, 1+rng.Intn(3)) + strings.Repeat("a", []int{60, 255, 256, 1000, 3000}[rng.Intn(5)])
	case 9:
		return pick(rng, []string{"", " ", "  ", "\t"})
	case 10:
		return n + "." + n
	}
	return n + strconv.Itoa(rng.Intn(3))
}

// the names of a world: variants of one or two bases, so that names differing only by blanks / case meet
func (g *sessGenState) nameWorld() {
	if g.rng.Intn(4) == 0 {
		return // the default names p1..p4
	}
	b1, b2 := pick(g.rng, sessBases), pick(g.rng, sessBases)
	seen := map[string]bool{}
	for k := 1; k <= 4; k++ {
		base := b1
		if k == 4 && g.rng.Intn(2) == 0 {
			base = b2
		}
		nm := sessGenName(g.rng, base)
		if k == 1 && g.rng.Intn(2) == 0 {
			nm = base
		}
		if seen[nm] {
			continue
		}
		seen[nm] = true
		g.op("name %d %s", k, hx(nm))
	}
}

func (g *sessGenState) ids() []int {
	out := []int{}
	for k := range g.s {
		out = append(out, k)
	}
	sort.Ints(out)
	return out
}

type sessCand struct {
	w  int
	op string
	do func()
}

func (g *sessGenState) candidates() []sessCand {
	cs := []sessCand{}
	add := func(w int, op string, do func()) { cs = append(cs, sessCand{w, op, do}) }
	if !g.burst {
		// concurrent logins without run id, whatever the gated sessions are doing: the tables must be as before
		m, bg := pick(g.rng, []int{8, 24, 48, 64}), pick(g.rng, []int{0, 2, 4, 8})
		add(1, fmt.Sprintf("freshburst %d %d", m, bg), func() { g.burst = true })
	}
	if len(g.s) < 7 {
		n := g.next + 1
		// fresh login
		add(3, fmt.Sprintf("login %d %d 1", n, 1000+n), func() {
			g.next = n
			g.s[n] = &sessSim{phase: "created", rid: 1000 + n, old: -1, own: map[int]bool{}, todo: map[int]bool{}, ownTyp: map[int]string{}}
		})
		// re-login with an id in use (explicit or one a started fresh session was given)
		rids := []int{1, 1, 2}
		for _, k := range g.ids() {
			x := g.s[k]
			if x.rid >= 1000 && (x.phase == "running" || x.phase == "dispDone" || x.phase == "drained" || x.phase == "done") {
				rids = append(rids, x.rid, x.rid)
			} else if x.rid < 1000 {
				rids = append(rids, x.rid)
			}
		}
		r := rids[g.rng.Intn(len(rids))]
		add(6, fmt.Sprintf("login %d %d 0", n, r), func() {
			g.next = n
			g.s[n] = &sessSim{phase: "created", rid: r, old: -1, own: map[int]bool{}, todo: map[int]bool{}, ownTyp: map[int]string{}}
		})
	}
	for _, k := range g.ids() {
		k, x := k, g.s[k]
		switch x.phase {
		case "created":
			add(8, fmt.Sprintf("add %d", k), func() {
				x.old = -1
				if o, ok := g.byRun[x.rid]; ok {
					x.old = o
					g.s[o].closed = true
				}
				g.byRun[x.rid] = k
				x.phase = "added"
			})
		case "added":
			if x.old < 0 {
				add(8, fmt.Sprintf("start %d", k), func() { x.phase = "running" })
			} else {
				od := g.s[x.old].phase == "done"
				if !x.earlyRel {
					add(4, fmt.Sprintf("early %d", k), func() {
						x.earlyRel = true
						if od {
							x.phase = "waited"
						}
					})
				}
				if od {
					add(8, fmt.Sprintf("waitold %d", k), func() { x.phase = "waited" })
					if x.earlyRel {
						// released before, the predecessor is done now: the waiter passes by itself
						add(3, fmt.Sprintf("start %d", k), func() { x.phase = "running" })
					}
				} else {
					// the old session is not done (running, or parked anywhere in its teardown; chains
					// A <- B <- C included): Start must not be reachable — `disabled`, certainly not an ack
					w := 1
					if x.earlyRel {
						w = 4
					}
					add(w, fmt.Sprintf("start %d", k), func() {})
				}
			}
		case "waited":
			add(8, fmt.Sprintf("start %d", k), func() { x.phase = "running" })
		case "running":
			if x.hp == "" {
				if x.closed {
					add(8, fmt.Sprintf("dispdone %d", k), func() { x.phase = "dispDone" })
				} else {
					p := 1 + g.rng.Intn(4)
					typ := pick(g.rng, []string{"tcp", "tcp", "tcp", "tcp", "stcp", "stcp", "stcp", "sudp", "xtcp", "xtcp"})
					if g.forceName != 0 {
						p, typ = g.forceName, pick(g.rng, g.forceTyps)
					}
					add(7, fmt.Sprintf("regexist %d %d %s", k, p, typ), func() {
						if _, ok := g.names[p]; !ok {
							x.hp, x.hpArg, x.hpTyp = "checked", p, typ
						} else {
							// refused at the Exist check: the incumbent keeps working
							g.after = g.probes(p)
						}
					})
					q := 1 + g.rng.Intn(4)
					if len(x.own) > 0 && g.rng.Intn(10) < 7 {
						ks := []int{}
						for p := range x.own {
							ks = append(ks, p)
						}
						sort.Ints(ks)
						q = ks[g.rng.Intn(len(ks))]
					}
					add(4, fmt.Sprintf("closereq %d %d", k, q), func() {
						if x.own[q] {
							delete(g.names, q)
							g.release(k, q, x.ownTyp[q])
							x.hp, x.hpArg = "closing", q
						} else if g.rng.Intn(2) == 0 {
							// a close request for a name of somebody else (or nobody): nothing of the others changes
							g.after = g.probes(q)
						}
					})
					if g.rng.Intn(3) == 0 || g.forceName != 0 {
						pp := 1 + g.rng.Intn(4)
						if g.forceName != 0 {
							pp = g.forceName
						}
						for _, pr := range g.probes(pp) {
							add(1, pr, func() {})
						}
					}
				}
			} else {
				switch x.hp {
				case "checked":
					// the outcome of pxy.Run of a tcp proxy is the implementation's (the simulation assumes success);
					// a rendez-vous proxy runs iff its table has no entry under the name
					add(8, fmt.Sprintf("regrun %d", k), func() {
						if t := g.rdv(x.hpTyp); t != nil {
							if _, ok := t[x.hpArg]; ok {
								// Run refused: the incumbent's entry must be exactly as it was
								x.hp = ""
								g.after = g.probes(x.hpArg)
								return
							}
							t[x.hpArg] = k
						}
						x.hp = "ran"
					})
				case "ran":
					add(8, fmt.Sprintf("regadd %d", k), func() {
						if _, ok := g.names[x.hpArg]; ok {
							// Add refused: the new proxy is closed again, the incumbent keeps working
							x.hp = ""
							g.release(k, x.hpArg, x.hpTyp)
							g.after = g.probes(x.hpArg)
						} else {
							g.names[x.hpArg] = k
							x.hp = "added"
						}
					})
				case "added":
					add(8, fmt.Sprintf("regown %d", k), func() {
						x.own[x.hpArg], x.ownTyp[x.hpArg] = true, x.hpTyp
						x.hp = ""
						if g.rng.Intn(3) == 0 {
							g.after = g.probes(x.hpArg)
						}
					})
				case "closing":
					add(8, fmt.Sprintf("closefin %d", k), func() { delete(x.own, x.hpArg); x.hp = "" })
				}
			}
			if !x.closed {
				wc := 2
				if x.hp != "" && len(x.own) > 0 {
					// the connection breaks while the read loop sits inside a handler and the session has a proxy
					// through which frps can be made to write to it
					wc = 5
				}
				add(wc, fmt.Sprintf("connclose %d", k), func() { x.closed = true })
			}
			// frps gets something to write to this session: somebody connects to one of its proxies.  With the
			// connection closed and a handler in flight the write FAILS while the read loop cannot notice anything:
			// the session must stay exactly as it is (every step of its teardown is attempted and must be disabled)
			// until the handler has returned
			if !g.fuzzy && (!x.closed || x.hp != "") {
				ps := []int{}
				for p := range x.own {
					if t := x.ownTyp[p]; (t == "tcp" || t == "stcp" || t == "sudp") && !(x.hp == "closing" && x.hpArg == p) {
						ps = append(ps, p)
					}
				}
				sort.Ints(ps)
				if len(ps) > 0 {
					p := ps[g.rng.Intn(len(ps))]
					wt := 1
					if x.closed {
						wt = 8 - 2*x.pokes
						if wt < 1 {
							wt = 1
						}
					}
					nOwn := len(x.own)
					add(wt, fmt.Sprintf("wpoke %d %d", k, p), func() {
						if !x.closed {
							return
						}
						x.pokes++
						g.after = []string{fmt.Sprintf("dispdone %d", k)}
						if g.rng.Intn(3) > 0 {
							g.after = append(g.after, fmt.Sprintf("drain %d", k))
							for i := 0; i < nOwn; i++ {
								g.after = append(g.after, fmt.Sprintf("closeproxy %d", k))
							}
							g.after = append(g.after, fmt.Sprintf("done %d", k))
							if g.rng.Intn(2) == 0 {
								g.after = append(g.after, fmt.Sprintf("del %d", k))
							}
						}
					})
				}
			}
		case "dispDone":
			add(8, fmt.Sprintf("drain %d", k), func() {
				x.phase = "drained"
				for p := range x.own {
					x.todo[p] = true
				}
			})
		case "drained":
			if len(x.todo) > 0 {
				add(8, fmt.Sprintf("closeproxy %d", k), func() {
					// Go's map order picks; the simulation cannot know which: forget all (names are re-learnt lazily)
					// (the smallest key, not Go's map order: the generator must be a function of the seed)
					ks := []int{}
					for p := range x.todo {
						ks = append(ks, p)
					}
					sort.Ints(ks)
					p := ks[0]
					if len(ks) > 1 {
						g.fuzzy = true
					}
					delete(x.todo, p)
					if g.names[p] == k {
						delete(g.names, p)
					}
					g.release(k, p, x.ownTyp[p])
				})
			} else {
				add(8, fmt.Sprintf("done %d", k), func() { x.phase = "done" })
			}
		case "done":
			if !x.deleted {
				add(3, fmt.Sprintf("del %d", k), func() {
					x.deleted = true
					if g.byRun[x.rid] == k {
						delete(g.byRun, x.rid)
					}
				})
			}
		}
		if x.phase == "created" || x.phase == "added" || x.phase == "waited" {
			if !x.closed {
				add(1, fmt.Sprintf("connclose %d", k), func() { x.closed = true })
			}
		}
	}
	return cs
}

var sessAllOps = []string{"add", "early", "waitold", "start", "connclose", "dispdone", "drain", "closeproxy", "done",
	"del", "regrun", "regadd", "regown", "closefin"}

func (g *sessGenState) walk(steps int, wild int) {
	for i := 0; i < steps; i++ {
		if wild > 0 && g.rng.Intn(100) < wild {
			// an op picked blindly: mostly not enabled (both sides must agree on that), harmless if it is
			k := 1 + g.rng.Intn(g.next+1)
			switch g.rng.Intn(8) {
			case 0:
				g.op("regexist %d %d tcp", k, 1+g.rng.Intn(4))
			case 1:
				g.op("closereq %d %d", k, 1+g.rng.Intn(4))
			default:
				g.op("%s %d", pick(g.rng, sessAllOps), k)
			}
			// a blind op may have been enabled: the simulation is no longer exact; end the scenario
			return
		}
		if !g.step(nil) {
			return
		}
	}
}

// one enabled op (of those the filter lets through), chosen by weight; false = none
func (g *sessGenState) step(filter func(op string) bool) bool {
	cs := []sessCand{}
	for _, c := range g.candidates() {
		if filter == nil || filter(c.op) {
			cs = append(cs, c)
		}
	}
	if len(cs) == 0 {
		return false
	}
	tot := 0
	for _, c := range cs {
		tot += c.w
	}
	r := g.rng.Intn(tot)
	for _, c := range cs {
		if r < c.w {
			g.op("%s", c.op)
			c.do()
			break
		}
		r -= c.w
	}
	for _, a := range g.after {
		g.op("%s", a)
	}
	g.after = nil
	return true
}

// name race: 2..4 running sessions send a NewProxy for ONE name, all of them pass the Exist check before any of them
// runs; then their Run / Add / own-table steps interleave at random, probes of the name in between.  Types: all of one
// rendez-vous table, or mixed (a tcp proxy and an stcp proxy under one name meet at the Add only).
func (g *sessGenState) raceWorld() {
	m := 2 + g.rng.Intn(3)
	first := g.next + 1
	for i := 0; i < m; i++ {
		n := g.next + 1
		g.next = n
		x := &sessSim{phase: "running", rid: 1000 + n, old: -1, own: map[int]bool{}, todo: map[int]bool{}, ownTyp: map[int]string{}}
		g.s[n] = x
		g.byRun[x.rid] = n
		g.op("login %d %d 1", n, 1000+n)
		g.op("add %d", n)
		g.op("start %d", n)
	}
	for round, rounds := 0, 1+g.rng.Intn(2); round < rounds; round++ {
		g.forceName = 1 + g.rng.Intn(4)
		switch g.rng.Intn(5) {
		case 0:
			g.forceTyps = []string{"stcp"}
		case 1:
			g.forceTyps = []string{"stcp", "sudp"}
		case 2:
			g.forceTyps = []string{"xtcp"}
		case 3:
			g.forceTyps = []string{"tcp", "stcp", "xtcp"}
		default:
			g.forceTyps = []string{"stcp", "stcp", "sudp", "xtcp", "tcp"}
		}
		for k := first; k < first+m; k++ {
			pre := fmt.Sprintf("regexist %d ", k)
			g.step(func(op string) bool { return strings.HasPrefix(op, pre) })
		}
		for i := 0; i < 40; i++ {
			if !g.step(func(op string) bool {
				return strings.HasPrefix(op, "regrun") || strings.HasPrefix(op, "regadd") || strings.HasPrefix(op, "regown") ||
					strings.HasPrefix(op, "vprobe") || strings.HasPrefix(op, "nprobe") || strings.HasPrefix(op, "tprobe")
			}) {
				break
			}
			busy := false
			for k := first; k < first+m; k++ {
				busy = busy || g.s[k].hp != ""
			}
			if !busy {
				break
			}
		}
		g.forceName, g.forceTyps = 0, nil
		for _, pr := range g.probes(1 + g.rng.Intn(4)) {
			g.op("%s", pr)
		}
	}
}

// hand-written schedules that the random walk reaches only rarely
var sessScripts = [][]string{
	// re-login while the old session owns two names; waiter released early; late del of the old one
	{"login 1 1001 1", "add 1", "start 1", "regexist 1 1 tcp", "regrun 1", "regadd 1", "regown 1",
		"regexist 1 2 stcp", "regrun 1", "regadd 1", "regown 1", "login 2 1001 0", "add 2", "early 2",
		"dispdone 1", "drain 1", "early 2", "closeproxy 1", "waitold 2", "closeproxy 1", "done 1", "waitold 2",
		"start 2", "regexist 2 1 tcp", "regrun 2", "regadd 2", "regown 2", "del 1", "regexist 2 2 stcp", "regrun 2",
		"regadd 2", "regown 2", "connclose 2", "dispdone 2", "drain 2", "closeproxy 2", "closeproxy 2", "done 2", "del 2"},
	// three logins at once on one id
	{"login 1 1 0", "add 1", "start 1", "regexist 1 3 tcp", "regrun 1", "regadd 1", "regown 1", "login 2 1 0",
		"login 3 1 0", "add 2", "add 3", "early 3", "early 2", "dispdone 1", "drain 1", "closeproxy 1", "done 1",
		"waitold 3", "waitold 2", "start 2", "dispdone 2", "del 1", "drain 2", "done 2", "waitold 3", "start 3",
		"del 2", "regexist 3 3 tcp", "regrun 3", "regadd 3", "regown 3"},
	// two sessions race for one name between Exist and Add; close request for a foreign name
	{"login 1 1001 1", "add 1", "start 1", "login 2 1002 1", "add 2", "start 2", "regexist 1 1 tcp", "regexist 2 1 tcp",
		"regrun 1", "regrun 2", "regadd 2", "regadd 1", "regown 2", "regexist 1 1 tcp", "closereq 1 1", "closereq 2 1",
		"regexist 1 1 tcp", "regrun 1", "closefin 2", "regadd 1", "regown 1", "closereq 2 1"},
	// the old session's Del arrives after the new one was added and after it was started
	{"login 1 2 0", "add 1", "start 1", "connclose 1", "dispdone 1", "drain 1", "done 1", "login 2 2 0", "add 2",
		"del 1", "waitold 2", "start 2", "login 3 2 0", "add 3", "dispdone 2", "drain 2", "done 2", "waitold 3", "del 2",
		"start 3", "connclose 3", "dispdone 3", "drain 3", "done 3", "del 3"},
	// stcp: the second Run fails (visitor listener repeated) while the first is between Run and Add
	{"login 1 1001 1", "add 1", "start 1", "login 2 1002 1", "add 2", "start 2", "regexist 1 4 stcp", "regexist 2 4 stcp",
		"regrun 1", "regrun 2", "regadd 1", "regown 1", "regexist 2 4 stcp"},
	// a chain of simultaneous re-logins A <- B <- C; the waiters are released while A, which owns two names,
	// is parked at every stage of its teardown: nobody may be acknowledged before A has closed its done channel
	{"login 1 2 0", "add 1", "start 1", "regexist 1 1 tcp", "regrun 1", "regadd 1", "regown 1", "regexist 1 2 stcp",
		"regrun 1", "regadd 1", "regown 1", "login 2 2 0", "add 2", "login 3 2 0", "add 3", "early 3", "start 3",
		"dispdone 1", "start 3", "early 2", "start 2", "start 3", "drain 1", "start 3", "closeproxy 1", "start 2",
		"start 3", "closeproxy 1", "start 3", "done 1", "start 3", "waitold 2", "start 3", "start 2", "dispdone 2",
		"drain 2", "start 3", "done 2", "waitold 3", "start 3", "del 1", "regexist 3 1 tcp", "regrun 3", "regadd 3",
		"regown 3", "del 2"},
	// bursts of logins without run id next to gated sessions in the middle of a hand-over
	{"login 1 1001 1", "add 1", "start 1", "freshburst 48 4", "regexist 1 1 tcp", "regrun 1", "regadd 1", "regown 1",
		"login 2 1001 0", "add 2", "freshburst 24 8", "dispdone 1", "drain 1", "freshburst 64 0", "closeproxy 1", "done 1",
		"waitold 2", "start 2", "freshburst 8 2", "del 1"},
}

// hand-written schedules about the resources behind a name and about names as clients send them
func sessResScripts() [][]string {
	return [][]string{
		// two sessions pass the Exist check for one stcp/sudp name; the second Run is refused: the first one's listener
		// stays and it is the first session that is asked for work connections; the same for xtcp; a close request
		// for somebody else's name changes nothing
		{"login 1 1001 1", "add 1", "start 1", "login 2 1002 1", "add 2", "start 2",
			"regexist 1 4 stcp", "regexist 2 4 sudp", "regrun 1", "vprobe 4 1", "regrun 2", "vprobe 4 1", "regadd 1", "regown 1",
			"vprobe 4 1", "regexist 2 4 stcp", "vprobe 4 1", "regexist 2 3 xtcp", "regexist 1 3 xtcp", "regrun 2", "nprobe 3",
			"regrun 1", "nprobe 3", "regadd 2", "regown 2", "nprobe 3", "closereq 1 3", "nprobe 3", "closereq 2 4", "vprobe 4 1"},
		// a tcp incumbent; a challenger with an stcp proxy of the same name passed Exist before: its Add is refused, the
		// rollback removes ITS listener, the incumbent's port still accepts and the incumbent is asked
		{"login 1 1001 1", "add 1", "start 1", "login 2 1002 1", "add 2", "start 2",
			"regexist 1 2 tcp", "regexist 2 2 stcp", "regrun 1", "regadd 1", "regown 1", "tprobe 1 2", "regrun 2", "vprobe 2 2",
			"regadd 2", "vprobe 2 0", "tprobe 1 2", "regexist 2 2 tcp", "tprobe 1 2"},
		// names that differ only by blanks / case are different names; after the re-login no name, listener or nat hole
		// entry of the old session is left and the new session registers all of them again
		{"name 1 " + hx(" padded "), "name 2 " + hx("padded"), "name 3 " + hx("Padded\t"), "name 4 " + hx(""),
			"login 1 1001 1", "add 1", "start 1", "regexist 1 1 tcp", "regrun 1", "regadd 1", "regown 1",
			"regexist 1 2 stcp", "regrun 1", "regadd 1", "regown 1", "regexist 1 3 xtcp", "regrun 1", "regadd 1", "regown 1",
			"regexist 1 4 sudp", "regrun 1", "regadd 1", "regown 1", "vprobe 2 1", "vprobe 4 1", "nprobe 3", "tprobe 1 1",
			"closereq 1 2", "closefin 1", "vprobe 2 0", "login 2 1001 0", "add 2", "dispdone 1", "drain 1", "closeproxy 1",
			"closeproxy 1", "closeproxy 1", "done 1", "waitold 2", "start 2", "vprobe 4 0", "nprobe 3",
			"regexist 2 1 tcp", "regrun 2", "regadd 2", "regown 2", "regexist 2 2 stcp", "regrun 2", "regadd 2", "regown 2",
			"regexist 2 3 xtcp", "regrun 2", "regadd 2", "regown 2", "regexist 2 4 sudp", "regrun 2", "regadd 2", "regown 2",
			"del 1", "vprobe 4 2", "nprobe 3", "tprobe 2 1"},
		// the connection breaks while the read loop sits inside a NewProxy handler and frps has something to write (a
		// visitor of the session's stcp proxy, a user of its tcp proxy): the write fails, NOTHING moves - every step of
		// the teardown is attempted at every stage of the handler and must be disabled; the handler finishes, only then
		// the dispatcher is done; the teardown closes all three proxies and the re-login registers the names again
		{"login 1 1001 1", "add 1", "start 1", "regexist 1 1 stcp", "regrun 1", "regadd 1", "regown 1",
			"regexist 1 2 tcp", "regrun 1", "regadd 1", "regown 1", "wpoke 1 1", "wpoke 1 2", "regexist 1 3 sudp",
			"wpoke 1 1", "connclose 1", "wpoke 1 1", "dispdone 1", "drain 1", "closeproxy 1", "done 1", "del 1",
			"regrun 1", "wpoke 1 2", "dispdone 1", "drain 1", "closeproxy 1", "closeproxy 1", "done 1", "del 1",
			"regadd 1", "wpoke 1 1", "dispdone 1", "drain 1", "done 1", "regown 1", "login 2 1001 0", "add 2", "early 2",
			"dispdone 1", "start 2", "drain 1", "closeproxy 1", "closeproxy 1", "start 2", "closeproxy 1", "done 1",
			"waitold 2", "start 2", "vprobe 1 0", "vprobe 3 0", "regexist 2 3 sudp", "regrun 2", "regadd 2", "regown 2",
			"regexist 2 1 stcp", "regrun 2", "regadd 2", "regown 2", "regexist 2 2 tcp", "regrun 2", "regadd 2", "regown 2",
			"del 1", "wpoke 2 3", "wpoke 2 2"},
		// the same under a CloseProxy handler (parked between pxyManager.Del and the own-table delete, holding ctl.mu)
		{"login 1 1 0", "add 1", "start 1", "regexist 1 1 stcp", "regrun 1", "regadd 1", "regown 1",
			"regexist 1 2 sudp", "regrun 1", "regadd 1", "regown 1", "closereq 1 2", "connclose 1", "wpoke 1 1",
			"dispdone 1", "drain 1", "closeproxy 1", "done 1", "del 1", "closefin 1", "dispdone 1", "drain 1",
			"closeproxy 1", "done 1", "login 2 1 0", "add 2", "waitold 2", "start 2", "del 1", "regexist 2 2 sudp",
			"regrun 2", "regadd 2", "regown 2", "regexist 2 1 stcp", "regrun 2", "regadd 2", "regown 2", "vprobe 1 2"},
	}
}

// concurrency classes of the direct generator test: few/many goroutines (below and above the number of
// processors), short/long runs; the small ones travel to the Lean driver id by id
var sessRandClasses = [][2]int{{8, 2000}, {16, 2000}, {64, 500}, {64, 2000}, {4, 1000}, {16, 256}, {32, 128}, {128, 32}}

func sessGen(rng *rand.Rand, n int, emit func(string)) {
	g := &sessGenState{rng: rng, emit: emit}
	emit("randid")
	g.n++
	for _, sc := range append(append([][]string{}, sessScripts...), sessResScripts()...) {
		g.reset()
		for _, op := range sc {
			g.op("%s", op)
		}
	}
	for _, c := range [][2]int{{64, 2000}, {8, 2000}, {16, 256}} {
		g.op("randconc %d %d", c[0], c[1])
	}
	worlds := 0
	for g.n < n {
		worlds++
		if worlds%12 == 0 {
			c := pick(rng, sessRandClasses)
			g.op("randconc %d %d", c[0], c[1])
		}
		g.reset()
		g.nameWorld()
		if rng.Intn(3) == 0 {
			g.raceWorld()
		}
		wild := 0
		switch rng.Intn(4) {
		case 0:
			wild = 8
		case 1:
			wild = 3
		}
		g.walk(20+rng.Intn(50), wild)
	}
}

func init() { register(&Engine{Name: "sess", Gen: sessGen, Exec: sessExec}) }
