package main

// Engine "xtcp" (C08 + the xtcp clauses of C01): a real frps, a real frpc owning xtcp / stcp proxies and one
// real frpc per visitor scenario (an XTCPVisitor, optionally an STCPVisitor it falls back to), all in this
// process on loopback.  NAT discovery talks to a STUN responder of the harness (two sockets on 127.0.0.1:
// address + OTHER-ADDRESS); a second "STUN" socket never answers — a visitor pointed at it cannot prepare a
// hole, which makes the fallback path deterministic.  Every proxy has ITS OWN tagged backend (reply = tag,
// then echo): which backend served a user connection, and that exactly one did, is observed there.
//
//	own name= kind=<xtcp|stcp> sk= allow=<-|u,u,…> enc= comp=     declare a proxy of the owner (user "ua")
//	up                                                             frps + owner frpc come up  => up=<n running>
//	vstart id= user= px= key=<0|1> enc= comp= proto=<quic|kcp> stun=<ok|dead> fb=<-|stcp proxy> fbkey=<0|1>
//	       fbms= keep=<0|1> [mr=<minRetryInterval s>]              => up | err=…
//	uconn id= n= ch= pat= seed= w=<ms to wait for the first byte>      one user connection
//	   => route=<tunnel|fallback|other|pending|closed>;hits=<backend connections made>;tag=;up=;down=;tm=<ok|early|late|na>
//	silent … q=<ms>                 the same, but the user first waits q ms for the backend's greeting before writing
//	   => quiet=<tag|none|eof>;route=…
//	burst id= k= n= seed= w=        k simultaneous user connections
//	   => tunnel=<a>;fallback=<b>;other=<c>;bad=<d>;hits=<h>
//	idle id= ms=                    nobody connects for ms: what the visitor does on its own (keepTunnelOpenWorker's checks with mr=1)
//	   => hits=<backend connections made meanwhile>
//	vstop id=                       => closed=<pending user connections that ended>;hits=<h>
import (
	"bufio"
	"bytes"
	"context"
	"fmt"
	"math/rand"
	"net"
	"os"
	"sort"
	"strconv"
	"strings"
	"sync"
	"time"

	"github.com/pion/stun/v2"

	"github.com/fatedier/frp/client"
	v1 "github.com/fatedier/frp/pkg/config/v1"
	frplog "github.com/fatedier/frp/pkg/util/log"
	"github.com/fatedier/frp/server"
)

func init() {
	register(&Engine{Name: "xtcp", Gen: xtGen, Exec: xtExec})
}

const xtToken = "c08-token"
const xtOwnerUser = "ua"

type xtProxy struct {
	name, kind, sk string
	allow          []string
	enc, comp      bool
	backend        *stkBackend
}

type xtVisitor struct {
	id       string
	svc      *client.Service
	port     int
	px, fb   string
	fbms     int
	pending  []net.Conn
	pendingR []*bufio.Reader
	stalled  bool // a connection has waited its full time for a tunnel in vain: the next attempt to make a hole is 10 s away
}

var xt struct {
	decl     []*xtProxy
	proxies  map[string]*xtProxy
	up       bool
	svr      *server.Service
	owner    *client.Service
	srvPort  int
	stunOK   string
	stunDead string
	visitors map[string]*xtVisitor
}

func xtDebug(f string, a ...any) {
	if os.Getenv("C08_DEBUG") != "" {
		fmt.Fprintf(os.Stderr, "xtcp: "+f+"\n", a...)
	}
}

// ---------------------------------------------------------------- STUN responder

func xtStunSocket(other *net.UDPAddr) (*net.UDPConn, error) {
	pc, err := net.ListenUDP("udp4", &net.UDPAddr{IP: net.IPv4(127, 0, 0, 1)})
	if err != nil {
		return nil, err
	}
	go func() {
		buf := make([]byte, 1500)
		for {
			n, from, err := pc.ReadFromUDP(buf)
			if err != nil {
				return
			}
			req := &stun.Message{Raw: append([]byte{}, buf[:n]...)}
			if err := req.Decode(); err != nil {
				continue
			}
			setters := []stun.Setter{stun.NewTransactionIDSetter(req.TransactionID), stun.BindingSuccess,
				&stun.XORMappedAddress{IP: from.IP, Port: from.Port}}
			if other != nil {
				setters = append(setters, &stun.OtherAddress{IP: other.IP, Port: other.Port})
			}
			resp, err := stun.Build(setters...)
			if err != nil {
				continue
			}
			_, _ = pc.WriteToUDP(resp.Raw, from)
		}
	}()
	return pc, nil
}

func xtStartStun() {
	second, err := xtStunSocket(nil)
	if err != nil {
		panic(err)
	}
	first, err := xtStunSocket(second.LocalAddr().(*net.UDPAddr))
	if err != nil {
		panic(err)
	}
	xt.stunOK = first.LocalAddr().String()
	dead, err := net.ListenUDP("udp4", &net.UDPAddr{IP: net.IPv4(127, 0, 0, 1)})
	if err != nil {
		panic(err)
	}
	xt.stunDead = dead.LocalAddr().String() // bound, never read: requests vanish
}

// ---------------------------------------------------------------- frps + owner

func xtEnsureUp() int {
	if xt.up {
		return len(xt.proxies)
	}
	xt.up = true
	if os.Getenv("C08_DEBUG") == "" {
		frplog.InitLogger(os.DevNull, "error", 0, true)
	}
	xt.proxies = map[string]*xtProxy{}
	xt.visitors = map[string]*xtVisitor{}
	xtStartStun()
	for try := 0; ; try++ {
		n, why := xtStartPair()
		if why == "" {
			return n
		}
		if try == 3 {
			panic("xtcp pair did not come up: " + why)
		}
	}
}

func xtStartPair() (int, string) {
	scfg := &v1.ServerConfig{}
	scfg.BindAddr = "127.0.0.1"
	scfg.BindPort = freeTCPPort()
	scfg.ProxyBindAddr = "127.0.0.1"
	scfg.Auth.Token = xtToken
	scfg.Complete()
	svr, err := server.NewService(scfg)
	if err != nil {
		return 0, err.Error()
	}
	go svr.Run(context.Background())
	xt.svr, xt.srvPort = svr, scfg.BindPort

	ccfg := xtClientCommon(xtOwnerUser, xt.stunOK)
	var pcs []v1.ProxyConfigurer
	for _, p := range xt.decl {
		if _, dup := xt.proxies[p.name]; dup {
			continue
		}
		if p.backend == nil {
			p.backend = stkNewBackend(p.name, false)
		}
		xt.proxies[p.name] = p
		switch p.kind {
		case "xtcp":
			c := &v1.XTCPProxyConfig{}
			c.Name, c.Type = p.name, "xtcp"
			c.LocalIP, c.LocalPort = "127.0.0.1", p.backend.port()
			c.Secretkey, c.AllowUsers = p.sk, p.allow
			c.Transport.UseEncryption, c.Transport.UseCompression = p.enc, p.comp
			c.Complete(xtOwnerUser)
			pcs = append(pcs, c)
		default:
			c := &v1.STCPProxyConfig{}
			c.Name, c.Type = p.name, "stcp"
			c.LocalIP, c.LocalPort = "127.0.0.1", p.backend.port()
			c.Secretkey, c.AllowUsers = p.sk, p.allow
			c.Transport.UseEncryption, c.Transport.UseCompression = p.enc, p.comp
			c.Complete(xtOwnerUser)
			pcs = append(pcs, c)
		}
	}
	cli, err := client.NewService(client.ServiceOptions{Common: ccfg, ProxyCfgs: pcs})
	if err != nil {
		return 0, err.Error()
	}
	go func() { _ = cli.Run(context.Background()) }()
	xt.owner = cli
	deadline := time.Now().Add(6 * time.Second)
	for {
		n := 0
		for name := range xt.proxies {
			if st, ok := cli.StatusExporter().GetProxyStatus(xtOwnerUser + "." + name); ok && st.Phase == "running" {
				n++
			}
		}
		if n == len(xt.proxies) {
			return n, ""
		}
		if time.Now().After(deadline) {
			cli.Close()
			_ = svr.Close()
			xt.proxies = map[string]*xtProxy{}
			return 0, fmt.Sprintf("%d of %d proxies running", n, len(xt.proxies))
		}
		time.Sleep(5 * time.Millisecond)
	}
}

func xtClientCommon(user, stunAddr string) *v1.ClientCommonConfig {
	ccfg := &v1.ClientCommonConfig{}
	ccfg.ServerAddr = "127.0.0.1"
	ccfg.ServerPort = xt.srvPort
	ccfg.Auth.Token = xtToken
	ccfg.User = user
	ccfg.NatHoleSTUNServer = stunAddr
	f := false
	ccfg.LoginFailExit = &f
	ccfg.Complete()
	return ccfg
}

func xtOwn(kv map[string]string) string {
	if xt.up {
		return "late"
	}
	p := &xtProxy{name: kv["name"], kind: kv["kind"], sk: unhx(kv["sk"]), enc: kv["enc"] == "1", comp: kv["comp"] == "1"}
	if kv["allow"] != "-" {
		p.allow = strings.Split(kv["allow"], ",")
	}
	for _, q := range xt.decl {
		if q.name == p.name {
			return "exists"
		}
	}
	xt.decl = append(xt.decl, p)
	return "ok"
}

// ---------------------------------------------------------------- visitors

func xtPortBound(port int) bool {
	l, err := net.Listen("tcp", net.JoinHostPort("127.0.0.1", strconv.Itoa(port)))
	if err != nil {
		return true
	}
	l.Close()
	return false
}

func xtKeyFor(name string, ok bool) string {
	sk := "nokey-" + name
	if p := xt.proxies[name]; p != nil {
		sk = p.sk
	}
	if !ok {
		sk = "wrong-" + sk
	}
	return sk
}

func xtVstart(kv map[string]string) string {
	xtEnsureUp()
	id := kv["id"]
	if _, dup := xt.visitors[id]; dup {
		return "exists"
	}
	why := ""
	for try := 0; try < 3; try++ {
		v, w := xtVstartOnce(kv)
		if v != nil {
			xt.visitors[id] = v
			return "up"
		}
		why = w
	}
	return "err=" + why
}

func xtVstartOnce(kv map[string]string) (*xtVisitor, string) {
	stunAddr := xt.stunOK
	if kv["stun"] == "dead" {
		stunAddr = xt.stunDead
	}
	ccfg := xtClientCommon(kv["user"], stunAddr)
	v := &xtVisitor{id: kv["id"], px: kv["px"], fb: kv["fb"], fbms: atoi(kv["fbms"]), port: freeTCPPort()}
	enc, comp := kv["enc"] == "1", kv["comp"] == "1"
	var vcs []v1.VisitorConfigurer
	if v.fb != "-" {
		// started first: the manager starts visitors in this order under its lock
		s := &v1.STCPVisitorConfig{}
		s.Name, s.Type = "sv", "stcp"
		s.ServerUser, s.ServerName = xtOwnerUser, v.fb
		s.SecretKey = xtKeyFor(v.fb, kv["fbkey"] == "1")
		s.BindAddr, s.BindPort = "127.0.0.1", -1
		s.Transport.UseEncryption, s.Transport.UseCompression = comp, enc
		s.Complete(ccfg)
		vcs = append(vcs, s)
	}
	x := &v1.XTCPVisitorConfig{}
	x.Name, x.Type = "xv", "xtcp"
	x.ServerUser, x.ServerName = xtOwnerUser, v.px
	x.SecretKey = xtKeyFor(v.px, kv["key"] == "1")
	x.BindAddr, x.BindPort = "127.0.0.1", v.port
	x.Transport.UseEncryption, x.Transport.UseCompression = enc, comp
	x.Protocol = kv["proto"]
	x.KeepTunnelOpen = kv["keep"] == "1"
	if kv["mr"] != "" && kv["mr"] != "0" {
		x.MinRetryInterval = atoi(kv["mr"]) // seconds between keepTunnelOpenWorker's checks (default 90)
	}
	if v.fb != "-" {
		x.FallbackTo = "sv"
		x.FallbackTimeoutMs = v.fbms
	}
	x.Complete(ccfg)
	vcs = append(vcs, x)
	svc, err := client.NewService(client.ServiceOptions{Common: ccfg, VisitorCfgs: vcs})
	if err != nil {
		return nil, "newservice"
	}
	go func() { _ = svc.Run(context.Background()) }()
	deadline := time.Now().Add(5 * time.Second)
	for !xtPortBound(v.port) {
		if time.Now().After(deadline) {
			svc.Close()
			return nil, "notbound"
		}
		time.Sleep(2 * time.Millisecond)
	}
	v.svc = svc
	return v, ""
}

func xtHits() int {
	n := 0
	for _, p := range xt.proxies {
		p.backend.mu.Lock()
		n += len(p.backend.conns)
		p.backend.mu.Unlock()
	}
	return n
}

type xtRes struct {
	route        string
	tag, up, down bool
	tm           string
	ms           int64
	quiet        string
}

// one user connection through the visitor's bind port
func xtOneConn(v *xtVisitor, n, ch int, pat string, seed int64, wait, quiet time.Duration) xtRes {
	res := xtRes{route: "closed", tm: "na"}
	from := map[string]int{} // backend connections that exist already are not this one's
	for _, name := range []string{v.px, v.fb} {
		if p := xt.proxies[name]; p != nil {
			p.backend.mu.Lock()
			from[name] = len(p.backend.conns)
			p.backend.mu.Unlock()
		}
	}
	t0 := time.Now()
	c, err := net.DialTimeout("tcp", net.JoinHostPort("127.0.0.1", strconv.Itoa(v.port)), 3*time.Second)
	if err != nil {
		res.route = "noconnect"
		return res
	}
	br := bufio.NewReaderSize(c, 64*1024)
	payload := stkPayload(n, pat, seed, false)
	if quiet > 0 {
		// the user says nothing at first: does the far end's greeting arrive anyway?
		res.quiet = "none"
		_ = c.SetReadDeadline(time.Now().Add(quiet))
		if _, err := br.Peek(1); err == nil {
			res.quiet = "tag"
		} else if ne, ok := err.(net.Error); !ok || !ne.Timeout() {
			res.quiet = "eof"
		}
	}
	werr := make(chan error, 1)
	go func() { werr <- stkWriteChunked(c, payload, ch, seed) }()
	_ = c.SetReadDeadline(time.Now().Add(wait))
	first, err := br.ReadByte()
	if err != nil {
		if ne, ok := err.(net.Error); ok && ne.Timeout() {
			// nothing yet and still open: keep it (it must never reach a backend it is not entitled to)
			_ = c.SetReadDeadline(time.Time{})
			res.route = "pending"
			v.pending = append(v.pending, c)
			v.pendingR = append(v.pendingR, br)
			return res
		}
		c.Close()
		<-werr
		return res
	}
	res.ms = time.Since(t0).Milliseconds()
	defer c.Close()
	_ = c.SetReadDeadline(time.Now().Add(8 * time.Second))
	tag := make([]byte, int(first))
	if _, err := readFull(br, tag); err != nil {
		res.route = "other"
		return res
	}
	var px *xtProxy
	isX := xt.proxies[v.px] != nil && xt.proxies[v.px].kind == "xtcp"
	switch {
	case string(tag) == v.px && isX:
		res.route, px = "tunnel", xt.proxies[v.px]
	case string(tag) == v.fb && xt.proxies[v.fb] != nil && xt.proxies[v.fb].kind == "stcp":
		res.route, px = "fallback", xt.proxies[v.fb]
		res.tm = "ok"
		if res.ms < int64(v.fbms) {
			res.tm = "early"
		} else if res.ms > int64(v.fbms)+3000 {
			res.tm = "late"
		}
	default:
		res.route = "other" // a backend this visitor has no business with
	}
	if px == nil {
		return res
	}
	res.tag = true
	back := make([]byte, len(payload))
	k, _ := readFull(br, back)
	<-werr
	res.down = k == len(payload) && bytes.Equal(back, payload)
	c.Close()
	// the backend connection that carries this payload
	var bc *stkBConn
	dl := time.Now().Add(3 * time.Second)
	for bc == nil && time.Now().Before(dl) {
		px.backend.mu.Lock()
		for _, q := range px.backend.conns[from[px.name]:] {
			if bytes.Equal(q.recv.Bytes(), payload) {
				bc = q
			}
		}
		px.backend.mu.Unlock()
		if bc == nil {
			time.Sleep(time.Millisecond)
		}
	}
	res.up = bc != nil
	if bc != nil {
		stkWaitCh(bc.eof, 3*time.Second)
	}
	return res
}

func xtBit(b bool) int { return stkBit(b) }

func xtWait(v *xtVisitor, kv map[string]string) time.Duration {
	w := time.Duration(atoi(kv["w"])) * time.Millisecond
	if v.stalled && w > 1200*time.Millisecond {
		w = 1200 * time.Millisecond
	}
	return w
}

func xtConn(kv map[string]string) string {
	v := xt.visitors[kv["id"]]
	if v == nil {
		return "novisitor"
	}
	h0 := xtHits()
	w := xtWait(v, kv)
	q := time.Duration(0)
	if kv["q"] != "" {
		q = time.Duration(atoi(kv["q"])) * time.Millisecond
	}
	r := xtOneConn(v, atoi(kv["n"]), atoi(kv["ch"]), kv["pat"], int64(atoi(kv["seed"])), w, q)
	if (r.route == "pending" && v.fb != "-") || r.tm == "late" || (r.tag && !(r.up && r.down)) {
		// a timeout (loaded machine?): once more, alone, with a longer wait. A wrong backend, an early
		// fallback or a connection that was refused are never retried.
		time.Sleep(60 * time.Millisecond)
		if xtHits() == h0+xtBit(r.tag) {
			h0 = xtHits()
			r = xtOneConn(v, atoi(kv["n"]), atoi(kv["ch"]), kv["pat"], int64(atoi(kv["seed"])), 2*w+2*time.Second, q)
		}
	}
	if r.route == "pending" && w >= 3*time.Second {
		v.stalled = true
	}
	settle := 60 * time.Millisecond
	if !r.tag {
		settle = 150 * time.Millisecond
	}
	time.Sleep(settle)
	xtDebug("conn %s: %+v", kv["id"], r)
	out := fmt.Sprintf("route=%s;hits=%d;tag=%d;up=%d;down=%d;tm=%s", r.route, xtHits()-h0, xtBit(r.tag), xtBit(r.up), xtBit(r.down), r.tm)
	if q > 0 {
		out = "quiet=" + r.quiet + ";" + out
	}
	return out
}

func xtBurst(kv map[string]string) string {
	v := xt.visitors[kv["id"]]
	if v == nil {
		return "novisitor"
	}
	k, n, seed := atoi(kv["k"]), atoi(kv["n"]), int64(atoi(kv["seed"]))
	w := xtWait(v, kv)
	h0 := xtHits()
	var wg sync.WaitGroup
	var mu sync.Mutex
	cnt := map[string]int{}
	for j := 0; j < k; j++ {
		wg.Add(1)
		go func(j int) {
			defer wg.Done()
			r := xtOneConn(v, n+j, -1, "mixed", seed+int64(j), w, 0)
			key := r.route
			if r.tag && !(r.up && r.down) {
				key = "bad"
			}
			if r.route == "fallback" && r.tm == "early" {
				key = "bad"
			}
			mu.Lock()
			cnt[key]++
			mu.Unlock()
		}(j)
	}
	wg.Wait()
	time.Sleep(80 * time.Millisecond)
	bad := k - cnt["tunnel"] - cnt["fallback"] - cnt["other"]
	return fmt.Sprintf("tunnel=%d;fallback=%d;other=%d;bad=%d;hits=%d", cnt["tunnel"], cnt["fallback"], cnt["other"], bad, xtHits()-h0)
}

func xtIdle(kv map[string]string) string {
	if xt.visitors[kv["id"]] == nil {
		return "novisitor"
	}
	h0 := xtHits()
	time.Sleep(time.Duration(atoi(kv["ms"])) * time.Millisecond)
	return fmt.Sprintf("hits=%d", xtHits()-h0)
}

func xtVstop(kv map[string]string) string {
	v := xt.visitors[kv["id"]]
	if v == nil {
		return "novisitor"
	}
	h0 := xtHits()
	delete(xt.visitors, kv["id"])
	v.svc.Close()
	closed := 0
	for i, c := range v.pending {
		_ = c.SetReadDeadline(time.Now().Add(2 * time.Second))
		if _, err := v.pendingR[i].ReadByte(); err != nil {
			if ne, ok := err.(net.Error); !ok || !ne.Timeout() {
				closed++
			}
		}
		c.Close()
	}
	time.Sleep(50 * time.Millisecond)
	return fmt.Sprintf("closed=%d;hits=%d", closed, xtHits()-h0)
}

func xtReset() string {
	ids := make([]string, 0, len(xt.visitors))
	for id := range xt.visitors {
		ids = append(ids, id)
	}
	sort.Strings(ids)
	for _, id := range ids {
		xtVstop(map[string]string{"id": id})
	}
	return "-"
}

func xtExec(tok []string) string {
	kv := stkKV(tok)
	switch tok[0] {
	case "reset":
		return xtReset()
	case "own":
		return xtOwn(kv)
	case "up":
		return fmt.Sprintf("up=%d", xtEnsureUp())
	case "vstart":
		return xtVstart(kv)
	case "uconn", "silent":
		return xtConn(kv)
	case "burst":
		return xtBurst(kv)
	case "idle":
		return xtIdle(kv)
	case "vstop":
		return xtVstop(kv)
	}
	return "badop"
}

// ---------------------------------------------------------------- generator

// the owner's proxies: every enc/comp declaration × allow-list shape for xtcp, three stcp proxies to fall back to
type xtGenProxy struct {
	name, kind, allow string
	enc, comp         int
}

func xtAllows(allow, user string) bool {
	if allow == "-" {
		return user == xtOwnerUser
	}
	for _, u := range strings.Split(allow, ",") {
		if u == user || u == "*" {
			return true
		}
	}
	return false
}

// n = number of visitor scenarios.  A scenario = one frpc with an xtcp visitor (user, target proxy, right or wrong
// key, tunnel protocol, STUN answering or dead, fallback visitor or none with its own key and timeout,
// keepTunnelOpen) and a few user connections / bursts through it.  Scenario classes:
//   T  tunnel possible, no race (no fallback, or a fallback timeout far beyond the time a hole takes)
//   R  tunnel possible, fallback timeout shorter than a hole takes (either outcome, exactly one)
//   F  tunnel impossible (wrong key | user not allowed | STUN dead | no such proxy | proxy of another type),
//      fallback configured: served by the fallback visitor iff the server admits THAT one, else closed
//   P  tunnel impossible, no fallback: the connection waits (and must reach nothing) until the visitor stops
//   K  no user at all, keepTunnelOpen with a 1 s check interval: the worker's checks (each opens and closes a tunnel
//      stream, which makes the proxy's frpc dial the backend) happen only over a tunnel the visitor is entitled to
func xtGen(rng *rand.Rand, n int, emit func(string)) {
	emit("reset")
	var xs, ss []xtGenProxy
	allows := []string{"-", "ub", "*", "ub,uc", "uc", "ua,ub"}
	// the same list as it may stand in a configuration file: entries repeated, in any order (C08.allowed_perm_dedup:
	// the meaning is the same)
	shape := func(a string) string {
		if a == "-" || rng.Intn(2) == 0 {
			return a
		}
		l := strings.Split(a, ",")
		for k := 1 + rng.Intn(2); k > 0; k-- {
			l = append(l, pick(rng, l))
		}
		rng.Shuffle(len(l), func(i, j int) { l[i], l[j] = l[j], l[i] })
		return strings.Join(l, ",")
	}
	k := 0
	for e := 0; e < 2; e++ {
		for c := 0; c < 2; c++ {
			for j := 0; j < 2; j++ {
				a := shape(allows[(k+rng.Intn(2)*3)%len(allows)])
				xs = append(xs, xtGenProxy{name: fmt.Sprintf("x%d%d%c", e, c, 'a'+j), kind: "xtcp", allow: a, enc: e, comp: c})
				k++
			}
		}
	}
	for j, a := range []string{"*", "-", "ub,uc"} {
		ss = append(ss, xtGenProxy{name: fmt.Sprintf("s%d", j), kind: "stcp", allow: shape(a), enc: rng.Intn(2), comp: rng.Intn(2)})
	}
	for _, p := range append(append([]xtGenProxy{}, xs...), ss...) {
		// printable keys: a key travels as a JSON string in NewProxy (bytes that are not UTF-8 would be replaced there)
		sk := make([]byte, 1+rng.Intn(12))
		for i := range sk {
			sk[i] = "abcdefghijklmnopqrstuvwxyz0123456789-_.:/+= !"[rng.Intn(45)]
		}
		emit(fmt.Sprintf("own name=%s kind=%s sk=%s allow=%s enc=%d comp=%d", p.name, p.kind, hx(string(sk)), p.allow, p.enc, p.comp))
	}
	emit("up")
	users := []string{"ua", "ub", "uc", "ub", "uc", ""} // "" = a frpc that configured no user
	type scn struct {
		id        string
		class     byte
		fb        bool
		ops       []string
		stopFirst bool
	}
	var scns []scn
	var solo []string
	sizes := []int{1, 2, 17, 1000, 16384, 65537, 200000}
	for i := 0; i < n; i++ {
		id := fmt.Sprintf("v%d", i)
		class := "TTTRRFFFFPK"[rng.Intn(11)]
		if i < 5 {
			class = "TRFPK"[i]
		}
		user := pick(rng, users)
		px := pick(rng, xs)
		key, stun := 1, "ok"
		name := px.name
		if class == 'T' || class == 'R' || (class == 'K' && rng.Intn(3) > 0) {
			// an allowed user with the key
			for try := 0; !xtAllows(px.allow, user) && try < 50; try++ {
				user, px = pick(rng, users), pick(rng, xs)
			}
			name = px.name
		} else {
			switch rng.Intn(6) {
			case 0:
				key = 0
			case 1:
				for try := 0; xtAllows(px.allow, user) && try < 50; try++ {
					user, px = pick(rng, users), pick(rng, xs)
				}
				name = px.name
				if xtAllows(px.allow, user) {
					key = 0
				}
			case 2:
				stun = "dead"
			case 3:
				name = "xnone"
			case 4:
				name = pick(rng, ss).name // an stcp proxy is no xtcp server
			default:
				key = 0
				if rng.Intn(2) == 0 {
					stun = "dead"
				}
			}
		}
		fb, fbkey, fbms := "-", 1, 0
		switch class {
		case 'T':
			if rng.Intn(2) == 0 {
				fb, fbms = pick(rng, ss).name, 4000+rng.Intn(3)*500
			}
		case 'R':
			fb, fbms = "s0", pick(rng, []int{250, 400, 700, 1200})
		case 'F':
			fb, fbms = pick(rng, ss).name, pick(rng, []int{150, 300, 450, 600})
			if rng.Intn(4) == 0 {
				fbkey = 0
			}
			if rng.Intn(8) == 0 {
				fb = "snone"
			}
		}
		keep := rng.Intn(2)
		if class == 'T' && rng.Intn(3) > 0 {
			keep = 1 // the hole is made while other scenarios run
		}
		proto := pick(rng, []string{"quic", "kcp"})
		start := fmt.Sprintf("vstart id=%s user=%s px=%s key=%d enc=%d comp=%d proto=%s stun=%s fb=%s fbkey=%d fbms=%d keep=%d",
			id, user, name, key, px.enc, px.comp, proto, stun, fb, fbkey, fbms, keep)
		if class == 'K' {
			// nobody connects: keepTunnelOpenWorker alone, checking every second
			start = fmt.Sprintf("vstart id=%s user=%s px=%s key=%d enc=%d comp=%d proto=%s stun=%s fb=- fbkey=1 fbms=0 keep=1 mr=1",
				id, user, name, key, px.enc, px.comp, proto, stun)
			// alone: its checks make backend connections at times of their own, which must not fall into other scenarios' operations
			solo = append(solo, start, fmt.Sprintf("idle id=%s ms=%d", id, 2600+rng.Intn(1200)), "vstop id="+id)
			continue
		}
		sc := scn{id: id, class: class, fb: fb != "-"}
		w := 6000
		if class == 'P' {
			w = 900 + rng.Intn(500)
		}
		conn := func() string {
			sz := pick(rng, sizes)
			if rng.Intn(3) == 0 {
				sz = 1 + rng.Intn(70000)
			}
			return fmt.Sprintf("uconn id=%s n=%d ch=%d pat=%s seed=%d w=%d", id, sz, pick(rng, []int{0, 1000, 16384, -1}),
				pick(rng, []string{"rand", "zero", "mixed"}), rng.Intn(100000), w)
		}
		sc.ops = append(sc.ops, start, conn())
		switch class {
		case 'T':
			sc.ops = append(sc.ops, conn())
			if rng.Intn(2) == 0 {
				// the session is up by now
				sc.ops = append(sc.ops, fmt.Sprintf("silent id=%s n=%d ch=0 pat=rand seed=%d w=%d q=600", id, 1+rng.Intn(3000), rng.Intn(100000), w))
			}
			if rng.Intn(2) == 0 {
				sc.ops = append(sc.ops, fmt.Sprintf("burst id=%s k=%d n=%d seed=%d w=%d", id, 2+rng.Intn(5), pick(rng, []int{1, 3000, 40000}), rng.Intn(100000), w))
			}
		case 'R':
			sc.ops = append(sc.ops, conn())
			if rng.Intn(2) == 0 {
				sc.ops = append(sc.ops, fmt.Sprintf("burst id=%s k=%d n=%d seed=%d w=%d", id, 2+rng.Intn(4), pick(rng, []int{1, 3000}), rng.Intn(100000), w))
			}
			sc.ops = append(sc.ops, conn())
		case 'F':
			if rng.Intn(2) == 0 {
				sc.ops = append(sc.ops, fmt.Sprintf("burst id=%s k=%d n=%d seed=%d w=%d", id, 2+rng.Intn(4), pick(rng, []int{1, 3000}), rng.Intn(100000), w))
			} else {
				sc.ops = append(sc.ops, conn())
			}
			if rng.Intn(3) == 0 {
				sc.ops = append(sc.ops, fmt.Sprintf("silent id=%s n=%d ch=0 pat=rand seed=%d w=%d q=%d", id, 1+rng.Intn(3000), rng.Intn(100000), w, fbms+700))
			}
		}
		scns = append(scns, sc)
	}
	// groups of four scenarios: started together (the holes of the keepTunnelOpen ones are made meanwhile), their
	// operations interleaved, stopped together
	for g := 0; g < len(scns); g += 4 {
		if g/4*3+3 <= len(solo) {
			for _, l := range solo[g/4*3 : g/4*3+3] {
				emit(l)
			}
		}
		grp := scns[g:min(g+4, len(scns))]
		for _, sc := range grp {
			emit(sc.ops[0])
		}
		for round := 1; ; round++ {
			any := false
			for _, j := range rng.Perm(len(grp)) {
				if round < len(grp[j].ops) {
					emit(grp[j].ops[round])
					any = true
				}
			}
			if !any {
				break
			}
		}
		for _, sc := range grp {
			emit("vstop id=" + sc.id)
		}
	}
	for j := (len(scns) + 3) / 4 * 3; j+3 <= len(solo); j += 3 {
		for _, l := range solo[j : j+3] {
			emit(l)
		}
	}
}
