// Engine "crash" (C16), wedges behind a refusal: a session that runs into max_ports_per_client.
//
// The child's second frps (eng_crash_ssh.go startB) runs with maxPortsPerClient = 2.  One op is one raw session:
//
//	maxports <cid> <variant>      login; two proxies that use a port each (tcp / udp by variant) — accepted; a third — must be
//	                              ANSWERED (refused: "exceed the max_ports_per_client"); then, in an order drawn from the
//	                              variant: CloseProxy of the first + a NewProxy that now fits, CloseProxy of a name the session
//	                              does not have + a NewProxy, a Ping, one more proxy above the limit — every one must be answered within 2 s; the connection drops: the session's
//	                              port must stop listening within 2 s; a login WITH THE SAME RUN ID must get its LoginResp
//	                              within 2 s and register a proxy                                   => done | fail:maxports-<stage>
//
// Every wait is bounded at 2 s and event-driven (an answer ends it).  `fail:` = the observation `wedge`.
package main

import (
	"context"
	"fmt"
	"io"
	"net"
	"strconv"
	"strings"
	"time"

	"github.com/samber/lo"

	"github.com/fatedier/frp/client"
	v1 "github.com/fatedier/frp/pkg/config/v1"
	"github.com/fatedier/frp/pkg/msg"
	netpkg "github.com/fatedier/frp/pkg/util/net"
	"github.com/fatedier/frp/pkg/util/version"
)

const crashLimMaxPorts = 2

type crashLimPeer struct {
	c     net.Conn
	rw    io.ReadWriter
	runID string
	resp  chan *msg.NewProxyResp
	pong  chan struct{}
}

func (s *crashSSH) connectorB() client.Connector {
	if s.connB != nil {
		return s.connB
	}
	cc := &v1.ClientCommonConfig{}
	cc.ServerAddr, cc.ServerPort = "127.0.0.1", s.bindB
	cc.Transport.TLS.Enable = lo.ToPtr(false)
	cc.Complete()
	cc.Transport.ProxyURL = ""
	s.connB = client.NewConnector(context.Background(), cc)
	if err := s.connB.Open(); err != nil {
		panic(err)
	}
	return s.connB
}

func crashLimLogin(runID string) (*crashLimPeer, string) {
	c, err := crashSSHW.connectorB().Connect()
	if err != nil {
		return nil, "dialerr"
	}
	ts := time.Now().Unix()
	lm := &msg.Login{Version: version.Full(), Hostname: "lim", Os: "linux", Arch: "amd64", RunID: runID, Timestamp: ts,
		PrivilegeKey: peerKeyTok(crashToken, ts), PoolCount: 0}
	_ = c.SetDeadline(time.Now().Add(crashWait))
	if err := msg.WriteMsg(c, lm); err != nil {
		c.Close()
		return nil, "writeerr"
	}
	m, err := msg.ReadMsg(c)
	_ = c.SetDeadline(time.Time{})
	if err != nil {
		c.Close()
		return nil, "unanswered"
	}
	resp, ok := m.(*msg.LoginResp)
	if !ok || resp.Error != "" {
		c.Close()
		return nil, "refused"
	}
	rw, err := netpkg.NewCryptoReadWriter(c, []byte(crashToken))
	if err != nil {
		c.Close()
		return nil, "cryptoerr"
	}
	p := &crashLimPeer{c: c, rw: rw, runID: resp.RunID, resp: make(chan *msg.NewProxyResp, 16), pong: make(chan struct{}, 16)}
	go func() {
		for {
			m, err := msg.ReadMsg(rw)
			if err != nil {
				return
			}
			switch x := m.(type) {
			case *msg.NewProxyResp:
				select {
				case p.resp <- x:
				default:
				}
			case *msg.Pong:
				select {
				case p.pong <- struct{}{}:
				default:
				}
			}
		}
	}()
	return p, ""
}

func (p *crashLimPeer) write(m msg.Message) bool {
	_ = p.c.SetWriteDeadline(time.Now().Add(crashWait))
	return msg.WriteMsg(p.rw, m) == nil
}

// NewProxy and its answer: (answered, error text, remote address)
func (p *crashLimPeer) newProxy(name, typ string) (bool, string, string) {
	if !p.write(&msg.NewProxy{ProxyName: name, ProxyType: typ, RemotePort: 0}) {
		return false, "", ""
	}
	dl := time.After(crashWait)
	for {
		select {
		case r := <-p.resp:
			if r.ProxyName == name {
				return true, r.Error, r.RemoteAddr
			}
		case <-dl:
			return false, "", ""
		}
	}
}

func (p *crashLimPeer) ping() bool {
	if !p.write(&msg.Ping{}) {
		return false
	}
	select {
	case <-p.pong:
		return true
	case <-time.After(crashWait):
		return false
	}
}

func (w *crashWorld) maxports(cid string, variant int64) string {
	p, why := crashLimLogin("")
	if p == nil {
		return "fail:maxports-login-" + why
	}
	defer func() { p.c.Close() }()
	crashCount("limSessions")
	n := func(k int) string { return fmt.Sprintf("lim-%s-%d-%d", cid, variant, k) }
	typ := func(k int) string {
		if variant>>uint(k)&1 == 1 {
			return "udp"
		}
		return "tcp"
	}
	var tcpAddr string
	for k := 0; k < crashLimMaxPorts; k++ {
		ok, e, addr := p.newProxy(n(k), typ(k))
		if !ok {
			return "fail:maxports-fill-unanswered"
		}
		if e != "" {
			return "fillrefused"
		}
		if typ(k) == "tcp" {
			tcpAddr = addr
		}
	}
	ok, e, _ := p.newProxy(n(2), typ(2))
	if !ok {
		return "fail:maxports-refusal-unanswered"
	}
	if !strings.Contains(e, "max_ports_per_client") {
		return "notrefused"
	}
	crashCount("limRefused")
	// what a session does after a refusal, in an order drawn from the variant
	steps := [][]string{{"close", "ping", "over"}, {"ping", "unknown", "close", "over"}, {"over", "close", "ping"}, {"unknown", "close", "over", "ping"}, {"ping", "unknown"}, {}}[int(variant>>3)%6]
	for _, st := range steps {
		switch st {
		case "close":
			if !p.write(&msg.CloseProxy{ProxyName: n(0)}) {
				return "fail:maxports-write"
			}
			// the freed port can be used again: CloseProxy has no answer of its own, the next NewProxy's is the evidence
			ok, e, addr := p.newProxy(n(3), "tcp")
			if !ok {
				return "fail:maxports-followup-unanswered"
			}
			if e == "" {
				tcpAddr = addr
				crashCount("limReused")
			}
		case "unknown":
			// CloseProxy of a name the session does not have (no answer of its own: what follows must be handled)
			if !p.write(&msg.CloseProxy{ProxyName: n(9)}) {
				return "fail:maxports-write"
			}
			if ok, _, _ := p.newProxy(n(6), typ(3)); !ok {
				return "fail:maxports-followup-unanswered"
			}
		case "ping":
			if !p.ping() {
				return "fail:maxports-ping-unanswered"
			}
		case "over":
			ok, _, _ := p.newProxy(n(4), typ(3))
			if !ok {
				return "fail:maxports-followup-unanswered"
			}
		}
	}
	// the connection goes: the session must be torn down (its tcp port released) …
	p.c.Close()
	if i := strings.LastIndex(tcpAddr, ":"); i >= 0 && tcpAddr != "" {
		port := tcpAddr[i+1:]
		dl := time.Now().Add(crashWait)
		for {
			c, err := net.DialTimeout("tcp", "127.0.0.1:"+port, 200*time.Millisecond)
			if err != nil {
				break
			}
			c.Close()
			if time.Now().After(dl) {
				return "fail:maxports-port-held"
			}
			time.Sleep(2 * time.Millisecond)
		}
	}
	// … and the client logs in again with its run id, as frpc does on every reconnect
	p2, why := crashLimLogin(p.runID)
	if p2 == nil {
		return "fail:maxports-relogin-" + why
	}
	defer p2.c.Close()
	if ok, _, _ := p2.newProxy(n(5), "tcp"); !ok {
		return "fail:maxports-relogin-proxy-unanswered"
	}
	if !p2.ping() {
		return "fail:maxports-relogin-ping-unanswered"
	}
	crashCount("limRelogin")
	return "done"
}

var _ = strconv.Itoa
