package main

import (
	"context"
	"crypto/tls"
	"encoding/base64"
	"errors"
	"fmt"
	"io"
	"math/rand"
	"net"
	"sort"
	"strconv"
	"strings"
	"sync"
	"time"

	v1 "github.com/fatedier/frp/pkg/config/v1"
	"github.com/fatedier/frp/pkg/msg"
	plugin "github.com/fatedier/frp/pkg/plugin/server"
	"github.com/fatedier/frp/pkg/util/tcpmux"
	"github.com/fatedier/frp/pkg/util/vhost"
	"github.com/fatedier/frp/server/controller"
	"github.com/fatedier/frp/server/group"
	"github.com/fatedier/frp/server/proxy"
)

// Engine "vreg" (property C06): the SERVER-SIDE registration code that feeds the vhost route tables —
// real proxy.NewProxy(...).Run() / Close() for http (server/proxy/http.go, group and non-group path,
// server/group/http.go), https (server/proxy/https.go) and tcpmux (server/proxy/tcpmux.go) proxies on
// one real controller.ResourceController — interleaved with real routed requests:
// HTTPReverseProxy.ServeHTTP, a TLS ClientHello to the real HTTPS muxer, an HTTP CONNECT to the real
// tcpmux muxer (in-memory listeners, no sockets).  Every proxy's GetWorkConnFn records "proxy <id> was
// asked for a work connection" and refuses, so the answer of a request is the proxy instance it was
// delivered to.
//
//	reset <subDomainHost>
//	run <id> http|https|tcpmux <name> <domains> <subdomain> <locations> <routeUser> <group> <groupKey>
//	      <domains>, <locations>: comma separated hx tokens ("-" = none)   => ok | busy | conflict | params | auth | repeated | err:<text>
//	close <id>                                                           => -
//	hreq <name> <dot 0|1> <port|-> <path> <user>     Host: name[.][:port]   => <id> | none | many:<ids>
//	creq <name> <dot 0|1> <port|-> <user>            CONNECT name[.][:port] => <id> | none
//	sreq <name>                                      ClientHello SNI        => <id> | none
//	view                                             => http[keys]https[keys]tcpmux[keys]   (route tables, domain|location|user)
type vregLn struct {
	ch   chan net.Conn
	done chan struct{}
	once sync.Once
}

func newVregLn() *vregLn { return &vregLn{ch: make(chan net.Conn), done: make(chan struct{})} }

func (l *vregLn) Accept() (net.Conn, error) {
	select {
	case c := <-l.ch:
		return c, nil
	case <-l.done:
		return nil, errors.New("listener closed")
	}
}
func (l *vregLn) Close() error   { l.once.Do(func() { close(l.done) }); return nil }
func (l *vregLn) Addr() net.Addr { return &net.TCPAddr{IP: net.IPv4(127, 0, 0, 1), Port: 1} }

type vregState struct {
	cfg     *v1.ServerConfig
	rc      *controller.ResourceController
	routers *vhost.Routers
	lnS     *vregLn
	lnM     *vregLn
	pxs     map[int]proxy.Proxy
	mu      sync.Mutex
	hits    []string
}

var vregSt *vregState

func vregReset(sh string) {
	if vregSt != nil {
		for _, p := range vregSt.pxs {
			p.Close()
		}
		vregSt.lnS.Close()
		vregSt.lnM.Close()
	}
	st := &vregState{pxs: map[int]proxy.Proxy{}, lnS: newVregLn(), lnM: newVregLn()}
	cfg := &v1.ServerConfig{}
	cfg.Complete()
	cfg.SubDomainHost = sh
	cfg.VhostHTTPPort = 80
	cfg.VhostHTTPSPort = 443
	cfg.TCPMuxHTTPConnectPort = 1337
	st.cfg = cfg
	st.routers = vhost.NewRouters()
	httpsMux, _ := vhost.NewHTTPSMuxer(st.lnS, 2*time.Second)
	tmux, _ := tcpmux.NewHTTPConnectTCPMuxer(st.lnM, false, 2*time.Second)
	st.rc = &controller.ResourceController{
		HTTPGroupCtl:           group.NewHTTPGroupController(st.routers),
		HTTPReverseProxy:       vhost.NewHTTPReverseProxy(vhost.HTTPReverseProxyOptions{}, st.routers),
		VhostHTTPSMuxer:        httpsMux,
		TCPMuxHTTPConnectMuxer: tmux,
		TCPMuxGroupCtl:         group.NewTCPMuxGroupCtl(tmux),
		PluginManager:          plugin.NewManager(),
	}
	vregSt = st
}

func vregCSV(t string) []string {
	if t == "-" {
		return nil
	}
	out := []string{}
	for _, p := range strings.Split(t, ",") {
		out = append(out, unhx(p))
	}
	return out
}

func (st *vregState) hit(id int) {
	st.mu.Lock()
	st.hits = append(st.hits, strconv.Itoa(id))
	st.mu.Unlock()
}

func (st *vregState) clearHits() {
	st.mu.Lock()
	st.hits = nil
	st.mu.Unlock()
}

func (st *vregState) answer() string {
	st.mu.Lock()
	defer st.mu.Unlock()
	return routerHits(st.hits)
}

func (st *vregState) run(id int, typ, name string, doms []string, sub string, locs []string, user, grp, gkey string) string {
	if _, ok := st.pxs[id]; ok {
		return "busy"
	}
	base := v1.ProxyBaseConfig{Name: name, Type: typ}
	base.LoadBalancer.Group = grp
	base.LoadBalancer.GroupKey = gkey
	dc := v1.DomainConfig{CustomDomains: doms, SubDomain: sub}
	var c v1.ProxyConfigurer
	switch typ {
	case "http":
		c = &v1.HTTPProxyConfig{ProxyBaseConfig: base, DomainConfig: dc, Locations: locs, RouteByHTTPUser: user}
	case "https":
		c = &v1.HTTPSProxyConfig{ProxyBaseConfig: base, DomainConfig: dc}
	case "tcpmux":
		c = &v1.TCPMuxProxyConfig{ProxyBaseConfig: base, DomainConfig: dc, RouteByHTTPUser: user, Multiplexer: "httpconnect"}
	default:
		return "bad-type"
	}
	pxy, err := proxy.NewProxy(context.Background(), &proxy.Options{
		UserInfo:           plugin.UserInfo{User: "u", RunID: "run" + strconv.Itoa(id)},
		LoginMsg:           &msg.Login{RunID: "run" + strconv.Itoa(id)},
		ResourceController: st.rc,
		GetWorkConnFn: func() (net.Conn, error) {
			st.hit(id)
			return nil, errors.New("recording proxy: no work connection")
		},
		Configurer: c,
		ServerCfg:  st.cfg,
	})
	if err != nil {
		return "err:" + hx(err.Error())
	}
	if _, err = pxy.Run(); err != nil {
		switch {
		case errors.Is(err, vhost.ErrRouterConfigConflict):
			return "conflict"
		case errors.Is(err, group.ErrGroupParamsInvalid):
			return "params"
		case errors.Is(err, group.ErrGroupAuthFailed):
			return "auth"
		case errors.Is(err, group.ErrProxyRepeated):
			return "repeated"
		}
		return "err:" + hx(err.Error())
	}
	st.pxs[id] = pxy
	return "ok"
}

// a healthy request is answered by events (alert / 404 / EOF after the work-connection request) within
// microseconds; the deadline only bounds the wait for something that will never come
const vregWait = 700 * time.Millisecond

func vregTimedOut(err error) bool {
	var ne net.Error
	return err != nil && errors.As(err, &ne) && ne.Timeout()
}

// vregDial hands one end of an in-memory connection to a muxer's listener.
func vregDial(l *vregLn) (net.Conn, bool) {
	c1, c2 := net.Pipe()
	select {
	case l.ch <- c2:
		return c1, true
	case <-time.After(2 * time.Second):
		c1.Close()
		c2.Close()
		return nil, false
	}
}

func vregDump(rows [][3]string) string {
	out := []string{}
	for _, r := range rows {
		out = append(out, hx(r[0]+"|"+r[2]+"|"+r[1])) // domain|location|user
	}
	sort.Strings(out)
	return strings.Join(out, ",")
}

func vregExec(tok []string) string {
	if tok[0] == "reset" {
		vregReset(unhx(tok[1]))
		return "-"
	}
	if vregSt == nil {
		vregReset("") // the driver's initial state: empty subDomainHost
	}
	st := vregSt
	switch tok[0] {
	case "run":
		return st.run(atoi(tok[1]), tok[2], unhx(tok[3]), vregCSV(tok[4]), unhx(tok[5]), vregCSV(tok[6]),
			unhx(tok[7]), unhx(tok[8]), unhx(tok[9]))
	case "close":
		if p, ok := st.pxs[atoi(tok[1])]; ok {
			p.Close()
			delete(st.pxs, atoi(tok[1]))
		}
		return "-"
	case "hreq":
		st.clearHits()
		routerServe(st.rc.HTTPReverseProxy, routerSpell(tok[1], tok[2], tok[3]), unhx(tok[4]), unhx(tok[5]))
		return st.answer()
	case "creq":
		st.clearHits()
		c, ok := vregDial(st.lnM)
		if !ok {
			return "err:accept"
		}
		host := routerSpell(tok[1], tok[2], tok[3])
		auth := ""
		if u := unhx(tok[4]); u != "" {
			auth = "Proxy-Authorization: Basic " + base64.StdEncoding.EncodeToString([]byte(u+":")) + "\r\n"
		}
		_ = c.SetDeadline(time.Now().Add(vregWait))
		go func() { _, _ = fmt.Fprintf(c, "CONNECT %s HTTP/1.1\r\nHost: %s\r\n%s\r\n", host, host, auth) }()
		_, err := io.ReadAll(c) // 200 + EOF once the proxy has been asked for a work connection, or 404 + EOF
		c.Close()
		if vregTimedOut(err) {
			return "stuck" // neither refused nor delivered: parked at a listener nobody accepts on
		}
		return st.answer()
	case "sreq":
		st.clearHits()
		c, ok := vregDial(st.lnS)
		if !ok {
			return "err:accept"
		}
		_ = c.SetDeadline(time.Now().Add(vregWait))
		// the handshake never completes: either the muxer refuses (alert) or the proxy it hands the
		// connection to is asked for a work connection, gets none and closes
		err := tls.Client(c, &tls.Config{ServerName: unhx(tok[1]), InsecureSkipVerify: true}).Handshake()
		c.Close()
		if vregTimedOut(err) {
			return "stuck"
		}
		return st.answer()
	case "view":
		return fmt.Sprintf("http[%s]https[%s]tcpmux[%s]", vregDump(st.routers.VerifDump()),
			vregDump(st.rc.VhostHTTPSMuxer.VerifDump()), vregDump(st.rc.TCPMuxHTTPConnectMuxer.VerifDump()))
	}
	return "bad-op"
}

var (
	vregDoms = []string{"a.example.com", "b.example.com", "A.Example.com", "*.example.com", "x.a.example.com",
		"*.a.example.com", "c.org", "B.example.COM", "*", "t.sub.example.com", "example.com", ""}
	vregReqs  = []string{"a.example.com", "b.example.com", "x.a.example.com", "y.x.a.example.com", "c.org", "d.org",
		"t.sub.example.com", "u.sub.example.com", "t.example.com", "example.com", "q.example.com"}
	vregLocs  = []string{"", "/", "/a", "/ab", "/a/b", "/b"}
	vregUsers = []string{"", "", "", "alice", "bob"}
	vregSubs  = []string{"", "", "", "t", "T", "a", "u"}
	vregSHs   = []string{"sub.example.com", "example.com", "Sub.Example.com"}
)

func vregPickCSV(rng *rand.Rand, pool []string, max int) string {
	k := rng.Intn(max + 1)
	if k == 0 {
		return "-"
	}
	out := []string{}
	for i := 0; i < k; i++ {
		out = append(out, hx(pick(rng, pool)))
	}
	return strings.Join(out, ",")
}

func vregGen(rng *rand.Rand, n int, emit func(string)) {
	emit("reset " + hx(vregSHs[0]))
	id := 0
	live := []int{}
	for i := 0; i < n; i++ {
		k := rng.Intn(100)
		switch {
		case k < 2:
			emit("reset " + hx(pick(rng, vregSHs)))
			live = live[:0]
		case k < 30:
			id++
			rid := id
			if len(live) > 0 && rng.Intn(12) == 0 {
				rid = pick(rng, live) // an instance that is already running
			}
			typ := pick(rng, []string{"http", "http", "http", "http", "https", "tcpmux"})
			name := fmt.Sprintf("p%d", 1+rng.Intn(5))
			doms := vregPickCSV(rng, vregDoms, 3)
			sub := pick(rng, vregSubs)
			locs, user, grp, gkey := "-", "", "", ""
			switch typ {
			case "http":
				locs = vregPickCSV(rng, vregLocs, 3)
				user = pick(rng, vregUsers)
				if rng.Intn(3) == 0 {
					grp = pick(rng, []string{"g1", "g1", "g2", "G1"})
					if rng.Intn(4) == 0 {
						grp = fmt.Sprintf("n%d", id) // a group that does not exist yet
					}
					gkey = pick(rng, []string{"k", "k", "k", "k2"})
					if rng.Intn(2) == 0 {
						// the common shape of a load-balanced proxy: one domain, at most one location
						doms = hx(pick(rng, vregDoms[:3]))
						sub = ""
						locs = vregPickCSV(rng, vregLocs[:2], 1)
						user = pick(rng, vregUsers[:4])
					}
				}
			case "tcpmux":
				user = pick(rng, vregUsers)
			}
			emit(fmt.Sprintf("run %d %s %s %s %s %s %s %s %s", rid, typ, hx(name), doms, hx(sub), locs, hx(user), hx(grp), hx(gkey)))
			if rid == id {
				live = append(live, id)
			}
		case k < 42:
			if len(live) == 0 {
				continue
			}
			j := rng.Intn(len(live))
			cid := live[j]
			if rng.Intn(10) == 0 {
				cid = 1 + rng.Intn(id+2)
			} else {
				live = append(live[:j], live[j+1:]...)
			}
			emit(fmt.Sprintf("close %d", cid))
		case k < 72:
			nm, dot, port := genSpelling(rng, pick(rng, vregReqs))
			emit("hreq " + hx(nm) + " " + dot + " " + port + " " + hx(genPath(rng)) + " " + hx(pick(rng, vregUsers)))
		case k < 80:
			nm, dot, port := genSpelling(rng, pick(rng, vregReqs))
			if port != "-" && (unhx(port) == "" || strings.ContainsAny(unhx(port), "x:]")) {
				port = hx("443") // net/http refuses a CONNECT target with a non-numeric port before frp sees it
			}
			emit("creq " + hx(nm) + " " + dot + " " + port + " " + hx(pick(rng, vregUsers)))
		case k < 88:
			nm, _, _ := genSpelling(rng, pick(rng, vregReqs))
			emit("sreq " + hx(nm))
		default:
			emit("view")
		}
	}
	emit("view")
	emit("reset " + hx(vregSHs[0]))
}

func init() { register(&Engine{Name: "vreg", Gen: vregGen, Exec: vregExec}) }
