package main

import (
	"context"
	"crypto/tls"
	"encoding/base64"
	"errors"
	"fmt"
	"io"
	"math/rand"
	"net"
	"net/http"
	"net/http/httptest"
	"net/url"
	"sort"
	"strconv"
	"strings"
	"sync"
	"time"

	v1 "github.com/fatedier/frp/pkg/config/v1"
	"github.com/fatedier/frp/pkg/msg"
	plugin "github.com/fatedier/frp/pkg/plugin/server"
	"github.com/fatedier/frp/pkg/util/tcpmux"
	"github.com/fatedier/frp/pkg/util/vhost"
	"github.com/fatedier/frp/server/controller"
	"github.com/fatedier/frp/server/group"
	"github.com/fatedier/frp/server/proxy"
)

// Engine "vreg" (property C06): the SERVER-SIDE registration code that feeds the vhost route tables —
// real proxy.NewProxy(...).Run() / Close() for http (server/proxy/http.go, group and non-group path,
// server/group/http.go), https (server/proxy/https.go) and tcpmux (server/proxy/tcpmux.go) proxies on
// one real controller.ResourceController — interleaved with real routed requests:
// HTTPReverseProxy.ServeHTTP, a TLS ClientHello to the real HTTPS muxer, an HTTP CONNECT to the real
// tcpmux muxer (in-memory listeners, no sockets).  Every proxy's GetWorkConnFn records "proxy <id> was
// asked for a work connection" and refuses, so the answer of a request is the proxy instance it was
// delivered to.  The generator repeats its request lines byte for byte across later registration changes and
// brackets every kind of change (plain proxy, first / further / leaving / last member of an http group) with the
// same requests: a lookup must depend on the table at the time of the request only (C06.lookup_depends_only_on_table,
// C06.traffic_most_specific).
//
//	reset <subDomainHost>
//	run <id> http|https|tcpmux <name> <domains> <subdomain> <locations> <routeUser> <group> <groupKey>
//	      [<httpUser> <httpPassword>]                                     (http only: the credentials of the proxy's routes)
//	      <domains>, <locations>: comma separated hx tokens ("-" = none)   => ok | busy | conflict | params | auth | repeated | err:<text>
//	close <id>                                                           => -
//	hreq <name> <dot 0|1> <port|-> <path> <user>     Host: name[.][:port]   => <id> | none | many:<ids>
//	areq <name> <dot 0|1> <port|-> <path> <user> <password>   the same with a basic-auth PAIR: the user routes, the pair is
//	      checked against the credentials of the route  => 401 | none | <id>:<p|g>:<c0|c1> | many:<ids>
//	      (p = plain proxy, g = member of a group; c1 = the pair satisfies the credentials proxy <id> itself was configured with)
//	creq <name> <dot 0|1> <port|-> <user>            CONNECT name[.][:port] => <id> | none
//	sreq <name>                                      ClientHello SNI        => <id> | none
//	view                                             => http[keys]https[keys]tcpmux[keys]   (route tables, domain|location|user)
type vregLn struct {
	ch   chan net.Conn
	done chan struct{}
	once sync.Once
}

func newVregLn() *vregLn { return &vregLn{ch: make(chan net.Conn), done: make(chan struct{})} }

func (l *vregLn) Accept() (net.Conn, error) {
	select {
	case c := <-l.ch:
		return c, nil
	case <-l.done:
		return nil, errors.New("listener closed")
	}
}
func (l *vregLn) Close() error   { l.once.Do(func() { close(l.done) }); return nil }
func (l *vregLn) Addr() net.Addr { return &net.TCPAddr{IP: net.IPv4(127, 0, 0, 1), Port: 1} }

type vregState struct {
	cfg     *v1.ServerConfig
	rc      *controller.ResourceController
	routers *vhost.Routers
	lnS     *vregLn
	lnM     *vregLn
	pxs     map[int]proxy.Proxy
	meta    map[int][3]string // group, httpUser, httpPassword of a running proxy
	mu      sync.Mutex
	hits    []string
	cn      vregConns // client connections (eng_vreg_conn.go)
}

var vregSt *vregState

func vregReset(sh string) {
	if vregSt != nil {
		for _, p := range vregSt.pxs {
			p.Close()
		}
		vregSt.lnS.Close()
		vregSt.lnM.Close()
		vregSt.closeConns()
	}
	st := &vregState{cn: vregConns{conns: map[string]*rcConn{}}, pxs: map[int]proxy.Proxy{}, meta: map[int][3]string{}, lnS: newVregLn(), lnM: newVregLn()}
	cfg := &v1.ServerConfig{}
	cfg.Complete()
	cfg.SubDomainHost = sh
	cfg.VhostHTTPPort = 80
	cfg.VhostHTTPSPort = 443
	cfg.TCPMuxHTTPConnectPort = 1337
	st.cfg = cfg
	st.routers = vhost.NewRouters()
	httpsMux, _ := vhost.NewHTTPSMuxer(st.lnS, 2*time.Second)
	tmux, _ := tcpmux.NewHTTPConnectTCPMuxer(st.lnM, false, 2*time.Second)
	st.rc = &controller.ResourceController{
		HTTPGroupCtl:           group.NewHTTPGroupController(st.routers),
		HTTPReverseProxy:       vhost.NewHTTPReverseProxy(vhost.HTTPReverseProxyOptions{}, st.routers),
		VhostHTTPSMuxer:        httpsMux,
		TCPMuxHTTPConnectMuxer: tmux,
		TCPMuxGroupCtl:         group.NewTCPMuxGroupCtl(tmux),
		PluginManager:          plugin.NewManager(),
	}
	vregSt = st
}

func vregCSV(t string) []string {
	if t == "-" {
		return nil
	}
	out := []string{}
	for _, p := range strings.Split(t, ",") {
		out = append(out, unhx(p))
	}
	return out
}

func (st *vregState) hit(id int) {
	st.mu.Lock()
	st.hits = append(st.hits, strconv.Itoa(id))
	st.mu.Unlock()
}

func (st *vregState) clearHits() {
	st.mu.Lock()
	st.hits = nil
	st.mu.Unlock()
}

func (st *vregState) answer() string {
	st.mu.Lock()
	defer st.mu.Unlock()
	return routerHits(st.hits)
}

func (st *vregState) run(id int, typ, name string, doms []string, sub string, locs []string, user, grp, gkey, hu, hp string) string {
	if _, ok := st.pxs[id]; ok {
		return "busy"
	}
	base := v1.ProxyBaseConfig{Name: name, Type: typ}
	base.LoadBalancer.Group = grp
	base.LoadBalancer.GroupKey = gkey
	dc := v1.DomainConfig{CustomDomains: doms, SubDomain: sub}
	var c v1.ProxyConfigurer
	switch typ {
	case "http":
		c = &v1.HTTPProxyConfig{ProxyBaseConfig: base, DomainConfig: dc, Locations: locs, RouteByHTTPUser: user,
			HTTPUser: hu, HTTPPassword: hp}
	case "https":
		c = &v1.HTTPSProxyConfig{ProxyBaseConfig: base, DomainConfig: dc}
	case "tcpmux":
		c = &v1.TCPMuxProxyConfig{ProxyBaseConfig: base, DomainConfig: dc, RouteByHTTPUser: user, Multiplexer: "httpconnect"}
	default:
		return "bad-type"
	}
	pxy, err := proxy.NewProxy(context.Background(), &proxy.Options{
		UserInfo:           plugin.UserInfo{User: "u", RunID: "run" + strconv.Itoa(id)},
		LoginMsg:           &msg.Login{RunID: "run" + strconv.Itoa(id)},
		ResourceController: st.rc,
		GetWorkConnFn: func() (net.Conn, error) {
			st.hit(id)
			return nil, errors.New("recording proxy: no work connection")
		},
		Configurer: c,
		ServerCfg:  st.cfg,
	})
	if err != nil {
		return "err:" + hx(err.Error())
	}
	if _, err = pxy.Run(); err != nil {
		switch {
		case errors.Is(err, vhost.ErrRouterConfigConflict):
			return "conflict"
		case errors.Is(err, group.ErrGroupParamsInvalid):
			return "params"
		case errors.Is(err, group.ErrGroupAuthFailed):
			return "auth"
		case errors.Is(err, group.ErrProxyRepeated):
			return "repeated"
		}
		return "err:" + hx(err.Error())
	}
	st.pxs[id] = pxy
	st.meta[id] = [3]string{grp, hu, hp}
	return "ok"
}

// vregServeAuth: one GET through the real ServeHTTP carrying a basic-auth pair
func vregServeAuth(rp *vhost.HTTPReverseProxy, host, path, user, pwd string) int {
	req := &http.Request{
		Method: "GET", URL: &url.URL{Path: path}, Host: host, Header: http.Header{},
		Proto: "HTTP/1.1", ProtoMajor: 1, ProtoMinor: 1, RemoteAddr: "127.0.0.1:9",
	}
	if user != "" || pwd != "" {
		req.SetBasicAuth(user, pwd)
	}
	rw := httptest.NewRecorder()
	rp.ServeHTTP(rw, req.WithContext(context.Background()))
	return rw.Code
}

// a healthy request is answered by events (alert / 404 / EOF after the work-connection request) within
// microseconds; the deadline only bounds the wait for something that will never come
const vregWait = 700 * time.Millisecond

func vregTimedOut(err error) bool {
	var ne net.Error
	return err != nil && errors.As(err, &ne) && ne.Timeout()
}

// vregDial hands one end of an in-memory connection to a muxer's listener.
func vregDial(l *vregLn) (net.Conn, bool) {
	c1, c2 := net.Pipe()
	select {
	case l.ch <- c2:
		return c1, true
	case <-time.After(2 * time.Second):
		c1.Close()
		c2.Close()
		return nil, false
	}
}

func vregDump(rows [][3]string) string {
	out := []string{}
	for _, r := range rows {
		out = append(out, hx(r[0]+"|"+r[2]+"|"+r[1])) // domain|location|user
	}
	sort.Strings(out)
	return strings.Join(out, ",")
}

func vregExec(tok []string) string {
	if tok[0] == "reset" {
		vregReset(unhx(tok[1]))
		return "-"
	}
	if vregSt == nil {
		vregReset("") // the driver's initial state: empty subDomainHost
	}
	st := vregSt
	if r, ok := vregConnExec(st, tok); ok {
		return r
	}
	switch tok[0] {
	case "run":
		hu, hp := "", ""
		if len(tok) >= 12 && tok[2] == "http" {
			hu, hp = unhx(tok[10]), unhx(tok[11])
		}
		return st.run(atoi(tok[1]), tok[2], unhx(tok[3]), vregCSV(tok[4]), unhx(tok[5]), vregCSV(tok[6]),
			unhx(tok[7]), unhx(tok[8]), unhx(tok[9]), hu, hp)
	case "close":
		if p, ok := st.pxs[atoi(tok[1])]; ok {
			p.Close()
			delete(st.pxs, atoi(tok[1]))
			delete(st.meta, atoi(tok[1]))
		}
		return "-"
	case "hreq":
		st.clearHits()
		routerServe(st.rc.HTTPReverseProxy, routerSpell(tok[1], tok[2], tok[3]), unhx(tok[4]), unhx(tok[5]))
		return st.answer()
	case "areq":
		st.clearHits()
		user, pwd := unhx(tok[5]), unhx(tok[6])
		code := vregServeAuth(st.rc.HTTPReverseProxy, routerSpell(tok[1], tok[2], tok[3]), unhx(tok[4]), user, pwd)
		ans := st.answer()
		if code == 401 && ans == "none" {
			return "401"
		}
		if id, err := strconv.Atoi(ans); err == nil {
			m, kind, ok := st.meta[id], "p", "c0"
			if m[0] != "" {
				kind = "g"
			}
			if (m[1] == "" && m[2] == "") || (m[1] == user && m[2] == pwd) {
				ok = "c1"
			}
			return ans + ":" + kind + ":" + ok
		}
		return ans
	case "creq":
		st.clearHits()
		c, ok := vregDial(st.lnM)
		if !ok {
			return "err:accept"
		}
		host := routerSpell(tok[1], tok[2], tok[3])
		auth := ""
		if u := unhx(tok[4]); u != "" {
			auth = "Proxy-Authorization: Basic " + base64.StdEncoding.EncodeToString([]byte(u+":")) + "\r\n"
		}
		_ = c.SetDeadline(time.Now().Add(vregWait))
		go func() { _, _ = fmt.Fprintf(c, "CONNECT %s HTTP/1.1\r\nHost: %s\r\n%s\r\n", host, host, auth) }()
		_, err := io.ReadAll(c) // 200 + EOF once the proxy has been asked for a work connection, or 404 + EOF
		c.Close()
		if vregTimedOut(err) {
			return "stuck" // neither refused nor delivered: parked at a listener nobody accepts on
		}
		return st.answer()
	case "sreq":
		st.clearHits()
		c, ok := vregDial(st.lnS)
		if !ok {
			return "err:accept"
		}
		_ = c.SetDeadline(time.Now().Add(vregWait))
		// the handshake never completes: either the muxer refuses (alert) or the proxy it hands the
		// connection to is asked for a work connection, gets none and closes
		err := tls.Client(c, &tls.Config{ServerName: unhx(tok[1]), InsecureSkipVerify: true}).Handshake()
		c.Close()
		if vregTimedOut(err) {
			return "stuck"
		}
		return st.answer()
	case "view":
		return fmt.Sprintf("http[%s]https[%s]tcpmux[%s]", vregDump(st.routers.VerifDump()),
			vregDump(st.rc.VhostHTTPSMuxer.VerifDump()), vregDump(st.rc.TCPMuxHTTPConnectMuxer.VerifDump()))
	}
	return "bad-op"
}

var (
	vregDoms = []string{"a.example.com", "b.example.com", "A.Example.com", "*.example.com", "x.a.example.com",
		"*.a.example.com", "c.org", "B.example.COM", "*", "t.sub.example.com", "example.com", ""}
	vregReqs  = []string{"a.example.com", "b.example.com", "x.a.example.com", "y.x.a.example.com", "c.org", "d.org",
		"t.sub.example.com", "u.sub.example.com", "t.example.com", "example.com", "q.example.com"}
	vregLocs  = []string{"", "/", "/a", "/ab", "/a/b", "/b"}
	vregUsers = []string{"", "", "", "alice", "bob"}
	vregSubs  = []string{"", "", "", "t", "T", "a", "u"}
	vregSHs   = []string{"sub.example.com", "example.com", "Sub.Example.com"}
)

func vregPickCSV(rng *rand.Rand, pool []string, max int) string {
	k := rng.Intn(max + 1)
	if k == 0 {
		return "-"
	}
	out := []string{}
	for i := 0; i < k; i++ {
		out = append(out, hx(pick(rng, pool)))
	}
	return strings.Join(out, ",")
}

// what the generator remembers of a proxy it has started (tokens as they appear on the op line)
type vregGenPx struct {
	id                                            int
	typ, name, doms, sub, locs, user, grp, gkey string
	hu, hp                                      string // httpUser / httpPassword tokens ("" = the short form of the op)
}

func (p vregGenPx) line(id int) string {
	l := fmt.Sprintf("run %d %s %s %s %s %s %s %s %s", id, p.typ, p.name, p.doms, p.sub, p.locs, p.user, p.grp, p.gkey)
	if p.hu != "" {
		l += " " + p.hu + " " + p.hp
	}
	return l
}

// credentials of protected proxies; the user names are also route users, so that a protected route restricted to its
// user, a protected unrestricted one and an unprotected one can sit on one host
var vregCreds = [][2]string{{"", ""}, {"alice", "pw"}, {"alice", "pw"}, {"bob", "pw"}, {"alice", "pw2"}, {"", "pw"}, {"carol", ""}}

// vregGenState: the live proxies as the generator believes them to be (a refused run is "live" here and its close a
// no-op for frp — both are legal histories) and the most recent request lines, kept to be REPEATED verbatim after
// later registration changes: the property quantifies over histories interleaved with traffic, and a lookup must
// depend on the table at the time of the request only, not on what the same (host, path, user) resolved to before.
type vregGenState struct {
	rng    *rand.Rand
	emit   func(string)
	id     int
	live   []vregGenPx
	probes []string
	sh     string
	cid    int
}

func (g *vregGenState) req(line string) {
	g.emit(line)
	for _, p := range g.probes {
		if p == line {
			return
		}
	}
	g.probes = append(g.probes, line)
	if len(g.probes) > 10 {
		g.probes = g.probes[1:]
	}
}

// again repeats up to k remembered request lines, byte for byte
func (g *vregGenState) again(k int) {
	for i := 0; i < k && len(g.probes) > 0; i++ {
		g.emit(pick(g.rng, g.probes))
	}
}

func (g *vregGenState) newPx(typ string) vregGenPx {
	rng := g.rng
	if typ == "" {
		typ = pick(rng, []string{"http", "http", "http", "http", "https", "tcpmux"})
	}
	p := vregGenPx{typ: typ,
		name: hx(fmt.Sprintf("p%d", 1+rng.Intn(5))), doms: vregPickCSV(rng, vregDoms, 3), sub: hx(pick(rng, vregSubs)),
		locs: "-", user: hx(""), grp: hx(""), gkey: hx("")}
	switch p.typ {
	case "http":
		p.locs = vregPickCSV(rng, vregLocs, 3)
		p.user = hx(pick(rng, vregUsers))
		if rng.Intn(3) == 0 {
			c := pick(rng, vregCreds)
			p.hu, p.hp = hx(c[0]), hx(c[1])
		}
		if rng.Intn(3) == 0 {
			grp := pick(rng, []string{"g1", "g1", "g2", "G1"})
			if rng.Intn(4) == 0 {
				grp = fmt.Sprintf("n%d", g.id) // a group that does not exist yet
			}
			p.grp = hx(grp)
			p.gkey = hx(pick(rng, []string{"k", "k", "k", "k2"}))
			if rng.Intn(2) == 0 {
				// the common shape of a load-balanced proxy: one domain, at most one location
				p.doms = hx(pick(rng, vregDoms[:3]))
				p.sub = hx("")
				p.locs = vregPickCSV(rng, vregLocs[:2], 1)
				p.user = hx(pick(rng, vregUsers[:4]))
			}
		}
	case "tcpmux":
		p.user = hx(pick(rng, vregUsers))
	}
	return p
}

func (g *vregGenState) start(p vregGenPx) {
	g.id++
	p.id = g.id
	g.emit(p.line(p.id))
	g.live = append(g.live, p)
}

func (g *vregGenState) stop(j int) {
	g.emit(fmt.Sprintf("close %d", g.live[j].id))
	g.live = append(g.live[:j], g.live[j+1:]...)
}

// a request name that the domain pattern matches ("" when it stands for nothing)
func vregUnder(rng *rand.Rand, dom string) string {
	dom = strings.ToLower(dom)
	switch {
	case dom == "*":
		return pick(rng, vregReqs)
	case strings.HasPrefix(dom, "*."):
		return pick(rng, []string{"q", "t", "y.x", "a"}) + dom[1:]
	}
	return dom
}

// aimed: request lines that the routes of p can answer (its domains / subdomain host, paths extending its locations,
// its route user or none), of the kind that reaches p's route table
func (g *vregGenState) aimed(p vregGenPx, k int) []string {
	rng := g.rng
	doms := vregCSV(p.doms)
	if s := unhx(p.sub); s != "" {
		doms = append(doms, s+"."+g.sh)
	}
	names := []string{}
	for _, d := range doms {
		if d != "" {
			names = append(names, vregUnder(rng, d))
		}
	}
	if len(names) == 0 {
		names = append(names, pick(rng, vregReqs))
	}
	locs := vregCSV(p.locs)
	if len(locs) == 0 {
		locs = []string{""}
	}
	out := []string{}
	for i := 0; i < k; i++ {
		nm, dot, port := genSpelling(rng, pick(rng, names))
		user := unhx(p.user)
		if rng.Intn(3) == 0 {
			user = pick(rng, vregUsers)
		}
		switch p.typ {
		case "http":
			path := pick(rng, locs) + pick(rng, []string{"", "", "/", "x", "/x", "b", "/b/c"})
			if p.hu != "" || rng.Intn(4) == 0 {
				own := [2]string{}
				if p.hu != "" {
					own = [2]string{unhx(p.hu), unhx(p.hp)}
				}
				out = append(out, g.areq(nm, dot, port, path, user, own))
				continue
			}
			out = append(out, "hreq "+hx(nm)+" "+dot+" "+port+" "+hx(path)+" "+hx(user))
		case "tcpmux":
			if port != "-" && (unhx(port) == "" || strings.ContainsAny(unhx(port), "x:]")) {
				port = hx("443")
			}
			out = append(out, "creq "+hx(nm)+" "+dot+" "+port+" "+hx(user))
		default:
			out = append(out, "sreq "+hx(nm))
		}
	}
	return out
}

// areq: a request with a basic-auth pair — the credentials `own` of the proxy it is aimed at, that pair's user with
// another password, another known pair, or the bare route user
func (g *vregGenState) areq(nm, dot, port, path, user string, own [2]string) string {
	c := own
	switch g.rng.Intn(4) {
	case 0:
		c = pick(g.rng, vregCreds)
	case 1:
		c = [2]string{user, pick(g.rng, []string{"", "pw", "pw2", "x"})}
	}
	if c[0] == "" && g.rng.Intn(2) == 0 {
		c[0] = user
	}
	return "areq " + hx(nm) + " " + dot + " " + port + " " + hx(path) + " " + hx(c[0]) + " " + hx(c[1])
}

// bracket: the SAME requests before and after one registration change of a chosen kind — a plain proxy (http, https,
// tcpmux) starts or closes, the first member of an http group starts, a further member joins, a member that is not the
// last one leaves, the last member leaves — and once more after the change has been undone.  Nothing else happens in
// between, so whatever the implementation remembers of the first round is still there in the second.
func (g *vregGenState) bracket() {
	rng := g.rng
	kind := rng.Intn(6)
	var p vregGenPx
	closing := -1
	grouped := func(want bool) []int {
		js := []int{}
		for j, q := range g.live {
			if q.typ == "http" && (unhx(q.grp) != "") == want || (!want && q.typ != "http") {
				js = append(js, j)
			}
		}
		return js
	}
	switch kind {
	case 0: // a plain proxy starts (the three route tables alike)
		p = g.newPx(pick(rng, []string{"http", "https", "tcpmux"}))
		p.grp, p.gkey = hx(""), hx("")
	case 1: // the first member of a group that does not exist
		p = g.newPx("http")
		p.doms, p.sub = hx(pick(rng, vregDoms[:9])), hx("")
		p.locs = vregPickCSV(rng, vregLocs, 1)
		p.user = hx(pick(rng, vregUsers))
		p.grp, p.gkey = hx(fmt.Sprintf("b%d", g.id)), hx("k")
	case 2: // a further member joins a live group (same parameters, mostly another name)
		js := grouped(true)
		if len(js) == 0 {
			return
		}
		p = g.live[pick(rng, js)]
		p.name = hx(fmt.Sprintf("p%d", 1+rng.Intn(5)))
		if rng.Intn(6) == 0 {
			p.gkey = hx("k2") // mostly the wrong key
		}
		if rng.Intn(3) == 0 {
			// a member configured with other credentials than the one it was copied from
			c := pick(rng, vregCreds)
			p.hu, p.hp = hx(c[0]), hx(c[1])
		}
	case 3, 4: // a member of a group leaves (the last one or not, as the history has it)
		js := grouped(true)
		if len(js) == 0 {
			return
		}
		closing = pick(rng, js)
		p = g.live[closing]
	default: // a plain proxy closes
		js := grouped(false)
		if len(js) == 0 {
			return
		}
		closing = pick(rng, js)
		p = g.live[closing]
	}
	ps := g.aimed(p, 1+rng.Intn(3))
	if len(g.probes) > 0 && rng.Intn(2) == 0 {
		ps = append(ps, pick(rng, g.probes))
	}
	round := func() {
		for _, l := range ps {
			g.req(l)
		}
	}
	round()
	if closing >= 0 {
		g.stop(closing)
	} else {
		g.start(p)
	}
	round()
	if rng.Intn(2) == 0 {
		// undo: close what was started / start again what was closed (a new instance, same configuration)
		if closing >= 0 {
			g.start(p)
		} else {
			g.stop(len(g.live) - 1)
		}
		round()
	}
}

func vregGen(rng *rand.Rand, n int, emit func(string)) {
	cnt := 0
	g := &vregGenState{rng: rng, sh: vregSHs[0]}
	g.emit = func(l string) { cnt++; emit(l) }
	emit("reset " + hx(g.sh))
	for cnt < n {
		k := rng.Intn(100)
		switch {
		case k < 2:
			g.sh = pick(rng, vregSHs)
			emit("reset " + hx(g.sh))
			g.live = g.live[:0]
		case k < 26:
			p := g.newPx("")
			if len(g.live) > 0 && rng.Intn(12) == 0 {
				// an instance that is already running
				g.emit(p.line(pick(rng, g.live).id))
			} else {
				g.start(p)
			}
			if rng.Intn(2) == 0 {
				g.again(1 + rng.Intn(2))
			}
		case k < 36:
			if len(g.live) == 0 {
				continue
			}
			if rng.Intn(10) == 0 {
				g.emit(fmt.Sprintf("close %d", 1+rng.Intn(g.id+2)))
			} else {
				g.stop(rng.Intn(len(g.live)))
			}
			if rng.Intn(2) == 0 {
				g.again(1 + rng.Intn(2))
			}
		case k < 46:
			g.bracket()
		case k < 66:
			nm, dot, port := genSpelling(rng, pick(rng, vregReqs))
			g.req("hreq " + hx(nm) + " " + dot + " " + port + " " + hx(genPath(rng)) + " " + hx(pick(rng, vregUsers)))
		case k < 70:
			nm, dot, port := genSpelling(rng, pick(rng, vregReqs))
			g.req(g.areq(nm, dot, port, genPath(rng), pick(rng, vregUsers), pick(rng, vregCreds)))
		case k < 78:
			nm, dot, port := genSpelling(rng, pick(rng, vregReqs))
			if port != "-" && (unhx(port) == "" || strings.ContainsAny(unhx(port), "x:]")) {
				port = hx("443") // net/http refuses a CONNECT target with a non-numeric port before frp sees it
			}
			g.req("creq " + hx(nm) + " " + dot + " " + port + " " + hx(pick(rng, vregUsers)))
		case k < 86:
			nm, _, _ := genSpelling(rng, pick(rng, vregReqs))
			g.req("sreq " + hx(nm))
		case k < 90:
			g.again(1 + rng.Intn(3))
		case k < 95:
			g.connEpisode()
		default:
			g.emit("view")
		}
	}
	emit("view")
	emit("reset " + hx(vregSHs[0]))
}

func init() { register(&Engine{Name: "vreg", Gen: vregGen, Exec: vregExec}) }
