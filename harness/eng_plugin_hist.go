package main

import (
	"context"
	"fmt"
	"io"
	"math/rand"
	"net"
	"strconv"
	"strings"
	"time"

	"github.com/samber/lo"

	v1 "github.com/fatedier/frp/pkg/config/v1"
	"github.com/fatedier/frp/pkg/msg"
	plugin "github.com/fatedier/frp/pkg/plugin/server"
	netpkg "github.com/fatedier/frp/pkg/util/net"
	"github.com/fatedier/frp/pkg/util/util"
	"github.com/fatedier/frp/server"
)

// `hist <script>`: a HISTORY of gated operations on one real server.Service configured with the HTTP
// plugins registered since the last reset.  Several control connections (slots, numbered by L step),
// the behaviour of any plugin may flip between two steps, every gated operation may occur again and
// again, before and after flips, on live / replaced / ended sessions.
//
//	script = step,step,…
//	  L:<rid>:<user>          Login on a new connection = slot <number of earlier L steps>
//	                            rid = e            empty run id (the server draws one)
//	                                  f<hexid>     this literal run id (fresh, or used before: if that
//	                                               session still lives it is replaced)
//	                                  s<i>         the run id of slot i (the one the server answered, the one
//	                                               asked for if slot i was refused): live ⇒ re-login /
//	                                               replacement, ended (X) ⇒ stale
//	  X:<i>                   the control connection of slot i is closed; waits until the server dropped
//	                          the session (VerifSessDump, event driven)
//	  F:<id>:<kind>:<x1>:<x2> every plugin registered with this id answers with this script from now on
//	  N:<i>:<name>            NewProxy (stcp) on slot i
//	  P:<i>                   Ping on slot i
//	  C:<k>                   a user connection (visitor) for the proxy registered by step k (an N step);
//	                          when the server asks for a work connection one is offered (NewWorkConn)
//
// result: H=<r,r,…> | <w;w;…>   one r and one w per step
//
//	r: L: ok:<hexrunid> | no | closed      N: ok:<hexname> | no | closed | dead      P: ok | no | closed | dead
//	   C: - (visitor not admitted / no such proxy) | no/- | ok/ok | ok/no | ok/eof      X, F: -
//	   (dead: the harness holds no usable control connection for that slot; closed: the server hung up)
//	w: the requests the plugin server received during that step, `+`-joined, in arrival order (steps are
//	   sequential: a step ends when the peer saw its outcome); CloseProxy notifications (asynchronous,
//	   judged by `sess`) are left out; the address members (Login, NewUserConn) are blanked.
type histSlot struct {
	conn   net.Conn
	crw    io.ReadWriter
	in     chan msg.Message
	rid    string
	usable bool // logged in and not closed by the harness
	// a later login was accepted under the same run id: the server replaces the session (only used to
	// leave out user connections for proxies of a replaced session; N / P on it are still sent: the
	// server must have hung up)
	replaced bool
}

func histStartFrps() (*server.Service, string, func(), string) {
	l, err := net.Listen("tcp", "127.0.0.1:0")
	if err != nil {
		return nil, "", nil, "infra listen"
	}
	port := l.Addr().(*net.TCPAddr).Port
	l.Close()
	cfg := &v1.ServerConfig{}
	cfg.Complete()
	cfg.BindAddr = "127.0.0.1"
	cfg.ProxyBindAddr = "127.0.0.1"
	cfg.BindPort = port
	cfg.Transport.TCPMux = lo.ToPtr(false)
	cfg.UserConnTimeout = 1
	cfg.Transport.TLS.CertFile, cfg.Transport.TLS.KeyFile = siteCert()
	cfg.HTTPPlugins = append([]v1.HTTPPluginOptions{}, pst.httpRegs...)
	svr, err := server.NewService(cfg)
	if err != nil {
		return nil, "", nil, "infra newservice"
	}
	ctx, cancel := context.WithCancel(context.Background())
	go svr.Run(ctx)
	return svr, fmt.Sprintf("127.0.0.1:%d", port), func() { cancel(); svr.Close() }, ""
}

func histRun(script string) string {
	pst.mu.Lock()
	pst.wire = nil
	saved := map[string]*plugScript{}
	for k, v := range pst.scripts {
		saved[k] = v
	}
	pst.mu.Unlock()
	defer func() { // the flips of this history end with it
		pst.mu.Lock()
		for k, v := range saved {
			pst.scripts[k] = v
		}
		pst.mu.Unlock()
	}()

	svr, addr, stop, bad := histStartFrps()
	if bad != "" {
		return bad
	}
	defer stop()
	dial := func() net.Conn {
		for i := 0; i < 50; i++ {
			c, err := net.DialTimeout("tcp", addr, time.Second)
			if err == nil {
				return c
			}
			time.Sleep(5 * time.Millisecond)
		}
		return nil
	}
	var open []net.Conn
	defer func() {
		for _, c := range open {
			c.Close()
		}
	}()

	slots := []*histSlot{}
	type histProxy struct {
		slot int
		name string
	}
	byStep := map[int]histProxy{} // N steps that were answered ok
	outs, wires := []string{}, []string{}
	mark := 0
	takeWire := func() string {
		pst.mu.Lock()
		w := append([]plugWire{}, pst.wire...)
		pst.mu.Unlock()
		parts := []string{}
		for _, e := range w[mark:] {
			if e.op == plugin.OpCloseProxy {
				continue
			}
			b := e.b
			if e.op == plugin.OpLogin || e.op == plugin.OpNewUserConn {
				b = ""
			}
			parts = append(parts, fmt.Sprintf("%s:%d:%s:%s%s", e.op, e.id, hx(e.a), hx(b), lo.Ternary(e.r0, ":R0", "")))
		}
		mark = len(w)
		if len(parts) == 0 {
			return "-"
		}
		return strings.Join(parts, "+")
	}
	// next message on a control connection that is not a ReqWorkConn; nil on close / timeout
	next := func(s *histSlot) msg.Message {
		for {
			select {
			case m, ok := <-s.in:
				if !ok {
					return nil
				}
				if _, isReq := m.(*msg.ReqWorkConn); isReq {
					continue
				}
				return m
			case <-time.After(2 * time.Second):
				return nil
			}
		}
	}
	ts := time.Now().Unix()

	steps := strings.Split(script, ",")
	for si, st := range steps {
		f := strings.Split(st, ":")
		out := "-"
		switch f[0] {
		case "L":
			if len(f) != 3 {
				return "bad-op"
			}
			slot := &histSlot{}
			idx := len(slots)
			switch {
			case f[1] == "e":
			case strings.HasPrefix(f[1], "f"):
				slot.rid = unhx(f[1][1:])
			case strings.HasPrefix(f[1], "s"):
				if i := atoi(f[1][1:]); i >= 0 && i < len(slots) {
					slot.rid = slots[i].rid
				}
			}
			slots = append(slots, slot)
			c := dial()
			if c == nil {
				return "infra dial"
			}
			open = append(open, c)
			slot.conn = c
			_ = c.SetDeadline(time.Now().Add(5 * time.Second))
			if err := msg.WriteMsg(c, &msg.Login{Version: "0.61.0", Hostname: "h" + strconv.Itoa(idx), User: unhx(f[2]),
				RunID: slot.rid, Timestamp: ts, PrivilegeKey: util.GetAuthKey("", ts)}); err != nil {
				return "infra login-write"
			}
			var lr msg.LoginResp
			if err := msg.ReadMsgInto(c, &lr); err != nil {
				out = "closed"
				break
			}
			if lr.Error != "" {
				out = "no"
				break
			}
			_ = c.SetDeadline(time.Time{})
			crw, err := netpkg.NewCryptoReadWriter(c, []byte(""))
			if err != nil {
				return "infra crypto"
			}
			for _, o := range slots {
				if o != slot && o.usable && o.rid == lr.RunID {
					o.replaced = true
				}
			}
			slot.crw, slot.rid, slot.usable = crw, lr.RunID, true
			slot.in = make(chan msg.Message, 256)
			go func(in chan msg.Message) {
				defer close(in)
				for {
					m, err := msg.ReadMsg(crw)
					if err != nil {
						return
					}
					in <- m
				}
			}(slot.in)
			out = "ok:" + hx(lr.RunID)
		case "X":
			if i := atoi(f[1]); i >= 0 && i < len(slots) && slots[i].usable {
				s := slots[i]
				s.usable = false
				s.conn.Close()
				tag := "h" + strconv.Itoa(i)
				for k := 0; k < 2000; k++ {
					ids, _ := svr.VerifSessDump()
					if ids[s.rid] != tag {
						break
					}
					time.Sleep(time.Millisecond)
				}
			}
		case "F":
			if len(f) != 5 {
				return "bad-op"
			}
			id := atoi(f[1])
			pst.mu.Lock()
			for k, v := range pst.scripts {
				if v.id == id {
					pst.scripts[k] = &plugScript{f[2], unhx(f[3]), unhx(f[4]), id}
				}
			}
			pst.mu.Unlock()
		case "N", "P":
			i := atoi(f[1])
			if i < 0 || i >= len(slots) || !slots[i].usable {
				out = "dead"
				break
			}
			s := slots[i]
			if f[0] == "N" {
				_ = msg.WriteMsg(s.crw, &msg.NewProxy{ProxyName: unhx(f[2]), ProxyType: "stcp", Sk: "k"})
				if r, ok := next(s).(*msg.NewProxyResp); ok {
					if r.Error == "" {
						out = "ok:" + hx(r.ProxyName)
						byStep[si] = histProxy{i, r.ProxyName}
					} else {
						out = "no"
					}
				} else {
					out = "closed"
				}
			} else {
				_ = msg.WriteMsg(s.crw, &msg.Ping{})
				if r, ok := next(s).(*msg.Pong); ok {
					out = lo.Ternary(r.Error == "", "ok", "no")
				} else {
					out = "closed"
				}
			}
		case "C":
			p, ok := byStep[atoi(f[1])]
			if !ok {
				break
			}
			s := slots[p.slot]
			if !s.usable || s.replaced {
				break // the session that registered it is gone
			}
			vconn := dial()
			if vconn == nil {
				return "infra dial"
			}
			open = append(open, vconn)
			_ = vconn.SetDeadline(time.Now().Add(3 * time.Second))
			_ = msg.WriteMsg(vconn, &msg.NewVisitorConn{RunID: s.rid, ProxyName: p.name, Timestamp: ts, SignKey: util.GetAuthKey("k", ts)})
			var vr msg.NewVisitorConnResp
			if err := msg.ReadMsgInto(vconn, &vr); err != nil || vr.Error != "" {
				vconn.Close()
				break // not admitted: no user connection
			}
			// refused by the NewUserConn chain: the server closes the user connection;
			// allowed: it asks the owner of the proxy for a work connection (exactly one ReqWorkConn)
			eof := make(chan struct{})
			go func() {
				buf := make([]byte, 1)
				_, _ = vconn.Read(buf)
				close(eof)
			}()
			req := make(chan bool, 1)
			stopReq := make(chan struct{})
			go func() {
				for {
					select {
					case m, ok := <-s.in:
						if !ok {
							req <- false
							return
						}
						if _, isReq := m.(*msg.ReqWorkConn); isReq {
							req <- true
							return
						}
					case <-stopReq:
						return
					}
				}
			}()
			u := ""
			select {
			case <-eof:
				u = "no"
			case got := <-req:
				u = lo.Ternary(got, "ok", "no")
			case <-time.After(2 * time.Second):
				u = "timeout"
			}
			close(stopReq)
			if u != "ok" {
				out = u + "/-"
				vconn.Close()
				break
			}
			wc := dial()
			if wc == nil {
				return "infra dial"
			}
			open = append(open, wc)
			_ = wc.SetDeadline(time.Now().Add(2 * time.Second))
			_ = msg.WriteMsg(wc, &msg.NewWorkConn{RunID: s.rid, Timestamp: ts, PrivilegeKey: util.GetAuthKey("", ts)})
			var sw msg.StartWorkConn
			w := ""
			if err := msg.ReadMsgInto(wc, &sw); err != nil {
				w = lo.Ternary(err == io.EOF || strings.Contains(err.Error(), "EOF") || strings.Contains(err.Error(), "reset"), "eof", "timeout")
			} else if sw.Error != "" {
				w = "no"
			} else {
				w = "ok"
				// the waiting user connection took it: Control.GetWorkConn asks for a replacement
				// (one more ReqWorkConn, already queued): consume it so that none is left over
				t := time.After(2 * time.Second)
			drain:
				for {
					select {
					case m, ok := <-s.in:
						if !ok {
							break drain
						}
						if _, isReq := m.(*msg.ReqWorkConn); isReq {
							break drain
						}
					case <-t:
						w = "timeout"
						break drain
					}
				}
			}
			out = "ok/" + w
			wc.Close()
			vconn.Close()
		default:
			return "bad-op"
		}
		outs = append(outs, out)
		wires = append(wires, takeWire())
	}
	// the end of the history: every session ends, every proxy that was registered has stopped by then and
	// its close notification goes to every plugin registered for CloseProxy (judged by `sess`, not here):
	// wait for them (at most 1 s) so that none arrives during a later scenario
	for _, c := range open {
		c.Close()
	}
	nClose := 0
	for _, o := range pst.httpRegs {
		if lo.Contains(o.Ops, plugin.OpCloseProxy) {
			nClose++
		}
	}
	want := len(byStep) * nClose
	for i := 0; i < 500; i++ {
		pst.mu.Lock()
		n := 0
		for _, w := range pst.wire {
			if w.op == plugin.OpCloseProxy {
				n++
			}
		}
		pst.mu.Unlock()
		if n >= want {
			break
		}
		time.Sleep(2 * time.Millisecond)
	}
	return "H=" + strings.Join(outs, ",") + " | " + strings.Join(wires, ";")
}

// ---- generator: histories as a class
//
// every history starts with a login; then logins of every kind (empty run id, literal run id — fresh or
// used before —, the run id of an earlier slot: live ⇒ replacement, closed before ⇒ stale), behaviour
// flips of registered plugins (accept / rewrite / partial rewrite / reject (with and without reason) /
// content dependent reject or failure / HTTP error / malformed), and repeated NewProxy (same and other
// names, same and other sessions), Ping, user + work connections, and connection closes.
var (
	histFlipK = []string{"hacc", "hacc", "happ", "happ", "happ", "hrej", "hrej", "hrejU", "hrejsuf", "herrsuf", "hpart", "hs500", "hmal", "haccC", "hempty", "hreset"}
	histUsers = []string{"", "u", "alice", "né", "bob"}
	histNames = []string{"p", "web", "p+1", "né", "q"}
	histRids  = []string{"r1", "r2", "zz"}
)

func plugGenHist(rng *rand.Rand, maxID int) string {
	steps := []string{}
	nL := 0
	nSteps := []int{} // indexes of N steps
	login := func() {
		rid := "e"
		switch r := rng.Intn(10); {
		case r < 2:
		case r < 5:
			rid = "f" + hx(pick(rng, histRids))
		default:
			if nL > 0 {
				rid = "s" + strconv.Itoa(rng.Intn(nL))
			}
		}
		steps = append(steps, "L:"+rid+":"+hx(pick(rng, histUsers)))
		nL++
	}
	flip := func(id int, kinds []string) {
		kind := pick(rng, kinds)
		x1, x2 := "", ""
		sufs := []string{"p", "e", "b", "u", "1", "2", "q", "z", "a", "c", "7", ""}
		switch kind {
		case "happ", "hpart", "haccC":
			x1 = pick(rng, plugTags)
		case "hrej", "hrejU":
			x1 = pick(rng, plugReasons)
		case "hrejsuf":
			x1, x2 = pick(rng, sufs), pick(rng, plugReasons)
		case "herrsuf":
			x1 = pick(rng, sufs)
		case "hmal":
			x1 = pick(rng, plugMalBody)
		}
		steps = append(steps, fmt.Sprintf("F:%d:%s:%s:%s", id, kind, hx(x1), hx(x2)))
	}
	if rng.Intn(10) < 6 {
		// start from plugins that all consent (accept or rewrite); the history then flips some of them
		for id := 1; id <= maxID; id++ {
			flip(id, []string{"hacc", "happ"})
		}
	}
	login()
	k := 2 + rng.Intn(10)
	for i := 0; i < k; i++ {
		if maxID > 0 && rng.Intn(10) < 3 {
			// a plugin changes its mind right before the next operation
			flip(1+rng.Intn(maxID), []string{"hrej", "hrejU", "hrejsuf", "hrejsuf", "herrsuf", "hs500", "hreset", "happ", "hpart", "hacc"})
		}
		switch r := rng.Intn(100); {
		case r < 25:
			login()
		case r < 35 && maxID > 0:
			flip(1+rng.Intn(maxID), histFlipK)
		case r < 58 || (r >= 68 && r < 90 && len(nSteps) == 0):
			nSteps = append(nSteps, len(steps))
			steps = append(steps, "N:"+strconv.Itoa(rng.Intn(nL))+":"+hx(pick(rng, histNames)))
		case r < 68:
			steps = append(steps, "P:"+strconv.Itoa(rng.Intn(nL)))
		case r < 90:
			steps = append(steps, "C:"+strconv.Itoa(nSteps[rng.Intn(len(nSteps))]))
		default:
			steps = append(steps, "X:"+strconv.Itoa(rng.Intn(nL)))
		}
	}
	return strings.Join(steps, ",")
}
