package main

import (
	"context"
	"fmt"
	"io"
	"math/rand"
	"net"
	"strconv"
	"strings"
	"time"

	"github.com/samber/lo"

	"github.com/fatedier/frp/pkg/config/types"
	v1 "github.com/fatedier/frp/pkg/config/v1"
	"github.com/fatedier/frp/pkg/msg"
	plugin "github.com/fatedier/frp/pkg/plugin/server"
	netpkg "github.com/fatedier/frp/pkg/util/net"
	"github.com/fatedier/frp/pkg/util/util"
	"github.com/fatedier/frp/server"
)

// `hist <script>`: a HISTORY of gated operations on one real server.Service configured with the HTTP
// plugins registered since the last reset.  Several control connections (slots, numbered by L step),
// the behaviour of any plugin may flip between two steps, every gated operation may occur again and
// again, before and after flips, on live / replaced / ended sessions.
//
//	script = step,step,…
//	  L:<rid>:<user>          Login on a new connection = slot <number of earlier L steps>
//	                            rid = e            empty run id (the server draws one)
//	                                  f<hexid>     this literal run id (fresh, or used before: if that
//	                                               session still lives it is replaced)
//	                                  s<i>         the run id of slot i (the one the server answered, the one
//	                                               asked for if slot i was refused): live ⇒ re-login /
//	                                               replacement, ended (X) ⇒ stale
//	  X:<i>                   the control connection of slot i is closed; waits until the server dropped
//	                          the session (VerifSessDump, event driven)
//	  F:<id>:<kind>:<x1>:<x2> every plugin registered with this id answers with this script from now on
//	  N:<i>:<name>            NewProxy (stcp) on slot i
//	  P:<i>[:<cred>]          Ping on slot i carrying these credentials (privilege key[@timestamp], see credStr); the
//	                          result says whether the session's lastPing moved (Service.VerifAuthSessions before /
//	                          after the Pong)
//	  Z:<sec>                 (before the first L) transport.heartbeatTimeout of this server (default 90)
//	  A:<h|w|hw>:<c>/<c>…     (before the first L) auth.additionalScopes = [HeartBeats] (h) / [NewWorkConns] (w) / both:
//	                          VerifyPing / VerifyNewWorkConn check the credentials; the <c> are the credentials the
//	                          verifier accepts among those the history can produce (computed with util.GetAuthKey)
//	  W:<ds>                  real time passes: the history keeps an absolute schedule (start + the sum of the W
//	                          steps so far, in 1/10 s); sleeps until the schedule is reached, then reports the
//	                          sessions the server dropped by itself (heartbeat timeout) and that no earlier step
//	                          saw closed.  If the steps since the previous W overran the schedule by more than
//	                          250 ms the whole history is void (`infra late`)
//	  C:<k>[:<cred>]          a user connection (visitor) for the proxy registered by step k (an N step; `^`: the one
//	                          registered last among those whose session the peer still holds);
//	                          when the server asks for a work connection one is offered (NewWorkConn with these credentials)
//	  J:<item>/<item>…:<act>/<act>…   occurrences IN FLIGHT TOGETHER: from here to the end of the step the plugin server
//	                          records every request and then holds its answer back until the script releases it
//	                            item  c<k>~<cred>~<ip>   as C:<k>:<cred>, the user connection dialled from 127.0.0.<ip>
//	                                  p<i>~<cred>        as P   n<i>~<name>   as N   (one p / n per slot: a session's
//	                                                     dispatcher handles its messages one after the other)
//	                            act   r<j>               the plugin holding a request of item j answers it (with its
//	                                                     script of this moment); waits until item j is held by its next
//	                                                     plugin (or, its user connection let through, by the first plugin
//	                                                     of its work connection) or its outcome is known
//	                                  f<id>~<kind>~<x1>~<x2>  as F
//	                          the items are launched one after the other, each until its first plugin holds it; at the end of
//	                          the script whatever is still held is released item by item.  r = the items' results joined
//	                          by `&`, w = the requests of each item (attributed by their own content: remote address of
//	                          the user connection, run id, …) joined by `&`; requests that belong to no item: `&?…`
//
// result: H=<r,r,…> | <w;w;…>   one r and one w per step
//
//	r: L: ok:<hexrunid> | no | closed      N: ok:<hexname> | no | closed | dead
//	   P: ok+ | ok= | no+ | no= | closed | dead    (+: lastPing moved, =: it did not)
//	   any step: …!<i>.<j>  the lastPing of these slots moved in this step although it was not a Ping of theirs
//	   W: - | g<i>+<j>…  (the slots dropped)     Z, A: -
//	   C: - (visitor not admitted / no such proxy) | no/- | ok/ok | ok/no | ok/eof      X, F: -
//	   (dead: the harness holds no usable control connection for that slot; closed: the server hung up)
//	w: the requests the plugin server received during that step, `+`-joined, in arrival order (steps are
//	   sequential: a step ends when the peer saw its outcome); CloseProxy notifications (asynchronous,
//	   judged by `sess`) are left out; the address members (Login, NewUserConn) are blanked; `:RID` marks a
//	   NewWorkConn request whose run id is not that of the session it is offered under.
type histSlot struct {
	conn   net.Conn
	crw    io.ReadWriter
	in     chan msg.Message
	rid    string
	usable bool // logged in and not closed by the harness
	// a later login was accepted under the same run id: the server replaces the session (only used to
	// leave out user connections for proxies of a replaced session; N / P on it are still sent: the
	// server must have hung up)
	replaced bool
	gone     bool // the server hung up (seen by a step, or reported by a W step)
}

func histStartFrps(hbTimeout int64, hbScope, wkScope bool) (*server.Service, string, func(), string) {
	bad := ""
	for try := 0; try < 3; try++ { // the port found free may be taken again before the service binds it
		l, err := net.Listen("tcp", "127.0.0.1:0")
		if err != nil {
			bad = "infra listen"
			continue
		}
		port := l.Addr().(*net.TCPAddr).Port
		l.Close()
		cfg := &v1.ServerConfig{}
		cfg.Complete()
		cfg.BindAddr = "127.0.0.1"
		cfg.ProxyBindAddr = "127.0.0.1"
		cfg.BindPort = port
		cfg.Transport.TCPMux = lo.ToPtr(false)
		cfg.UserConnTimeout = 1
		// the scenarios ask for stcp proxies (a plugin may still turn one into a tcp proxy with a port of the server's choice:
		// a small range, away from the ephemeral ports).  Each of the two port managers of a Service otherwise
		// keeps a 65535-entry table that its cleaning goroutine (never stopped) holds on to for the rest of the process:
		// ~3 MB per Service, several GB over a long run
		cfg.AllowPorts = []types.PortsRange{{Start: 13000, End: 13127}}
		if hbTimeout > 0 {
			cfg.Transport.HeartbeatTimeout = hbTimeout
		}
		if hbScope {
			cfg.Auth.AdditionalScopes = append(cfg.Auth.AdditionalScopes, v1.AuthScopeHeartBeats)
		}
		if wkScope {
			cfg.Auth.AdditionalScopes = append(cfg.Auth.AdditionalScopes, v1.AuthScopeNewWorkConns)
		}
		cfg.Transport.TLS.CertFile, cfg.Transport.TLS.KeyFile = siteCert()
		cfg.HTTPPlugins = append([]v1.HTTPPluginOptions{}, pst.httpRegs...)
		svr, err := server.NewService(cfg)
		if err != nil {
			bad = "infra newservice"
			continue
		}
		ctx, cancel := context.WithCancel(context.Background())
		go svr.Run(ctx)
		return svr, fmt.Sprintf("127.0.0.1:%d", port), func() { cancel(); svr.Close() }, ""
	}
	return nil, "", nil, bad
}

func histRun(script string) string {
	pst.mu.Lock()
	pst.wire = nil
	pst.wireGen++
	saved := map[string]*plugScript{}
	for k, v := range pst.scripts {
		saved[k] = v
	}
	pst.mu.Unlock()
	defer func() { // the flips of this history end with it
		pst.mu.Lock()
		for k, v := range saved {
			pst.scripts[k] = v
		}
		pst.mu.Unlock()
	}()

	steps := strings.Split(script, ",")
	// the server's configuration: Z / A steps, only ahead of everything else
	hbTimeout, hbScope, wkScope, head := int64(0), false, false, true
	for _, st := range steps {
		f := strings.Split(st, ":")
		switch {
		case f[0] == "Z" && len(f) == 2 && head:
			hbTimeout = int64(atoi(f[1]))
		case f[0] == "A" && len(f) == 3 && head && (f[1] == "h" || f[1] == "w" || f[1] == "hw"):
			hbScope, wkScope = strings.Contains(f[1], "h"), strings.Contains(f[1], "w")
		case f[0] == "Z" || f[0] == "A":
			return "bad-op"
		default:
			head = false
		}
	}
	svr, addr, stop, bad := histStartFrps(hbTimeout, hbScope, wkScope)
	if bad != "" {
		return bad
	}
	defer stop()
	// ctl.lastPing per slot as it was after the previous step (Service.VerifAuthSessions); after every step:
	// whose heartbeat clock moved?  (only a Ping may move it, and only that of its own session)
	lp := map[int]int64{}
	moved := func(slots []*histSlot) map[int]bool {
		rows := map[string]int64{}
		for _, r := range svr.VerifAuthSessions() {
			rows[r.RunID] = r.LastPing
		}
		mv := map[int]bool{}
		for i, s := range slots {
			cur, ok := rows[s.rid]
			if !s.usable || s.replaced || s.gone || !ok {
				delete(lp, i)
				continue
			}
			if prev, had := lp[i]; had && prev != cur {
				mv[i] = true
			}
			lp[i] = cur
		}
		return mv
	}
	dial := func() net.Conn {
		for i := 0; i < 50; i++ {
			c, err := net.DialTimeout("tcp", addr, time.Second)
			if err == nil {
				return c
			}
			time.Sleep(5 * time.Millisecond)
		}
		return nil
	}
	var open []net.Conn
	defer func() {
		for _, c := range open {
			c.Close()
		}
	}()

	slots := []*histSlot{}
	type histProxy struct {
		slot int
		name string
	}
	byStep := map[int]histProxy{} // N steps that were answered ok
	nRegJ := 0                    // proxies registered by n items of J steps
	// the proxy an item refers to: by the N step that registered it, or (k < 0) the one registered last among those
	// whose session the peer still holds
	proxyOf := func(k int) (histProxy, bool) {
		if k >= 0 {
			p, ok := byStep[k]
			return p, ok
		}
		best := -1
		for si, p := range byStep {
			if s := slots[p.slot]; si > best && s.usable && !s.replaced {
				best = si
			}
		}
		p, ok := byStep[best]
		return p, ok
	}
	outs, wires := []string{}, []string{}
	mark := 0
	takeWire := func() string {
		pst.mu.Lock()
		w := append([]plugWire{}, pst.wire...)
		pst.mu.Unlock()
		parts := []string{}
		for _, e := range w[mark:] {
			if e.op == plugin.OpCloseProxy {
				continue
			}
			b := e.b
			if e.op == plugin.OpLogin || e.op == plugin.OpNewUserConn {
				b = ""
			}
			parts = append(parts, fmt.Sprintf("%s:%d:%s:%s%s%s", e.op, e.id, hx(e.a), hx(b), lo.Ternary(e.r0, ":R0", ""), lo.Ternary(e.ridBad, ":RID", "")))
		}
		mark = len(w)
		if len(parts) == 0 {
			return "-"
		}
		return strings.Join(parts, "+")
	}
	// next message on a control connection that is not a ReqWorkConn; nil on close / timeout
	next := func(s *histSlot) msg.Message {
		for {
			select {
			case m, ok := <-s.in:
				if !ok {
					return nil
				}
				if _, isReq := m.(*msg.ReqWorkConn); isReq {
					continue
				}
				return m
			case <-time.After(2 * time.Second):
				return nil
			}
		}
	}
	// the server hung up on a slot the harness took for alive (heartbeat timeout): the message just written
	// may still be on its way through the plugin chain; wait until the plugin server has been quiet for
	// 40 ms (at most 300 ms) so that these requests are booked on this step
	hungUp := func(s *histSlot) {
		if !s.gone && !s.replaced {
			n, quiet := -1, 0
			for k := 0; k < 60 && quiet < 8; k++ {
				time.Sleep(5 * time.Millisecond)
				pst.mu.Lock()
				m := len(pst.wire)
				pst.mu.Unlock()
				if m == n {
					quiet++
				} else {
					n, quiet = m, 0
				}
			}
		}
		s.gone = true
	}
	ts := time.Now().Unix()
	t0, sched, timed := time.Now(), time.Duration(0), false
	late := func() bool { return timed && time.Since(t0) > sched+250*time.Millisecond }

	for si, st := range steps {
		f := strings.Split(st, ":")
		out := "-"
		pinged := -1 // the slot whose Ping was answered with a Pong in this step
		switch f[0] {
		case "L":
			if len(f) != 3 {
				return "bad-op"
			}
			slot := &histSlot{}
			idx := len(slots)
			switch {
			case f[1] == "e":
			case strings.HasPrefix(f[1], "f"):
				slot.rid = unhx(f[1][1:])
			case strings.HasPrefix(f[1], "s"):
				if i := atoi(f[1][1:]); i >= 0 && i < len(slots) {
					slot.rid = slots[i].rid
				}
			}
			slots = append(slots, slot)
			c := dial()
			if c == nil {
				return "infra dial"
			}
			open = append(open, c)
			slot.conn = c
			_ = c.SetDeadline(time.Now().Add(5 * time.Second))
			if err := msg.WriteMsg(c, &msg.Login{Version: "0.61.0", Hostname: "h" + strconv.Itoa(idx), User: unhx(f[2]),
				RunID: slot.rid, Timestamp: ts, PrivilegeKey: util.GetAuthKey("", ts)}); err != nil {
				return "infra login-write"
			}
			var lr msg.LoginResp
			if err := msg.ReadMsgInto(c, &lr); err != nil {
				out = "closed"
				break
			}
			if lr.Error != "" {
				out = "no"
				break
			}
			_ = c.SetDeadline(time.Time{})
			crw, err := netpkg.NewCryptoReadWriter(c, []byte(""))
			if err != nil {
				return "infra crypto"
			}
			for _, o := range slots {
				if o != slot && o.usable && o.rid == lr.RunID {
					o.replaced = true
				}
			}
			slot.crw, slot.rid, slot.usable = crw, lr.RunID, true
			slot.in = make(chan msg.Message, 256)
			go func(in chan msg.Message) {
				defer close(in)
				for {
					m, err := msg.ReadMsg(crw)
					if err != nil {
						return
					}
					in <- m
				}
			}(slot.in)
			out = "ok:" + hx(lr.RunID)
		case "X":
			if i := atoi(f[1]); i >= 0 && i < len(slots) && slots[i].usable {
				s := slots[i]
				s.usable = false
				s.conn.Close()
				tag := "h" + strconv.Itoa(i)
				for k := 0; k < 2000; k++ {
					ids, _ := svr.VerifSessDump()
					if ids[s.rid] != tag {
						break
					}
					time.Sleep(time.Millisecond)
				}
			}
		case "F":
			if len(f) != 5 {
				return "bad-op"
			}
			histFlip(atoi(f[1]), f[2], unhx(f[3]), unhx(f[4]))
		case "Z", "A":
		case "J":
			if len(f) != 3 {
				return "bad-op"
			}
			jb := &histJ{addr: addr, ts: ts, slots: slots, byStep: func(k int) (int, string, bool) { p, ok := proxyOf(k); return p.slot, p.name, ok }}
			jout, jwire, pingedSlots, nReg, bad := jb.run(f[1], f[2])
			if bad != "" {
				return bad
			}
			open = append(open, jb.conns...)
			nRegJ += nReg
			pst.mu.Lock()
			mark = len(pst.wire)
			pst.mu.Unlock()
			mv := moved(slots)
			for k, i := range pingedSlots { // per p item that got a Pong: did the session's lastPing move?
				if i >= 0 {
					jout[k] += lo.Ternary(mv[i], "+", "=")
					delete(mv, i)
				}
			}
			out = strings.Join(jout, "&")
			if len(mv) > 0 {
				ids := []string{}
				for i := range slots {
					if mv[i] {
						ids = append(ids, strconv.Itoa(i))
					}
				}
				out += "!" + strings.Join(ids, ".")
			}
			outs = append(outs, out)
			wires = append(wires, jwire)
			continue
		case "W":
			if len(f) != 2 {
				return "bad-op"
			}
			timed = true
			if late() {
				return "infra late"
			}
			sched += time.Duration(atoi(f[1])) * 100 * time.Millisecond
			if d := time.Until(t0.Add(sched)); d > 0 {
				time.Sleep(d)
			}
			ids, _ := svr.VerifSessDump()
			gone := []string{}
			for i, s := range slots {
				if s.usable && !s.replaced && !s.gone && ids[s.rid] != "h"+strconv.Itoa(i) {
					s.gone = true
					gone = append(gone, strconv.Itoa(i))
				}
			}
			if len(gone) > 0 {
				out = "g" + strings.Join(gone, "+")
			}
		case "N", "P":
			i := atoi(f[1])
			if i < 0 || i >= len(slots) || !slots[i].usable {
				out = "dead"
				break
			}
			s := slots[i]
			if f[0] == "N" {
				_ = msg.WriteMsg(s.crw, &msg.NewProxy{ProxyName: unhx(f[2]), ProxyType: "stcp", Sk: "k"})
				if r, ok := next(s).(*msg.NewProxyResp); ok {
					if r.Error == "" {
						out = "ok:" + hx(r.ProxyName)
						byStep[si] = histProxy{i, r.ProxyName}
					} else {
						out = "no"
					}
				} else {
					out = "closed"
					hungUp(s)
				}
			} else {
				cred := ""
				if len(f) > 2 {
					cred = unhx(f[2])
				}
				key, kts := credSplit(cred)
				_ = msg.WriteMsg(s.crw, &msg.Ping{PrivilegeKey: key, Timestamp: kts})
				if r, ok := next(s).(*msg.Pong); ok {
					// handlePing stores lastPing before it sends the Pong: `+` / `=` is appended below
					out = lo.Ternary(r.Error == "", "ok", "no")
					pinged = i
				} else {
					out = "closed"
					hungUp(s)
				}
			}
		case "C":
			ck := -1
			if f[1] != "^" {
				ck = atoi(f[1])
			}
			p, ok := proxyOf(ck)
			if !ok {
				break
			}
			s := slots[p.slot]
			if !s.usable || s.replaced {
				break // the session that registered it is gone
			}
			vconn := dial()
			if vconn == nil {
				return "infra dial"
			}
			open = append(open, vconn)
			_ = vconn.SetDeadline(time.Now().Add(3 * time.Second))
			_ = msg.WriteMsg(vconn, &msg.NewVisitorConn{RunID: s.rid, ProxyName: p.name, Timestamp: ts, SignKey: util.GetAuthKey("k", ts)})
			var vr msg.NewVisitorConnResp
			if err := msg.ReadMsgInto(vconn, &vr); err != nil || vr.Error != "" {
				vconn.Close()
				break // not admitted: no user connection
			}
			// refused by the NewUserConn chain: the server closes the user connection;
			// allowed: it asks the owner of the proxy for a work connection (exactly one ReqWorkConn)
			eof := make(chan struct{})
			go func() {
				buf := make([]byte, 1)
				_, _ = vconn.Read(buf)
				close(eof)
			}()
			req := make(chan bool, 1)
			stopReq := make(chan struct{})
			go func() {
				for {
					select {
					case m, ok := <-s.in:
						if !ok {
							req <- false
							return
						}
						if _, isReq := m.(*msg.ReqWorkConn); isReq {
							req <- true
							return
						}
					case <-stopReq:
						return
					}
				}
			}()
			u := ""
			select {
			case <-eof:
				u = "no"
			case got := <-req:
				u = lo.Ternary(got, "ok", "no")
			case <-time.After(2 * time.Second):
				u = "timeout"
			}
			close(stopReq)
			if u != "ok" {
				out = u + "/-"
				vconn.Close()
				break
			}
			wc := dial()
			if wc == nil {
				return "infra dial"
			}
			open = append(open, wc)
			_ = wc.SetDeadline(time.Now().Add(2 * time.Second))
			wcred := ""
			if len(f) > 2 {
				wcred = unhx(f[2])
			}
			wkey, wts := credSplit(wcred)
			_ = msg.WriteMsg(wc, &msg.NewWorkConn{RunID: s.rid, Timestamp: wts, PrivilegeKey: wkey})
			var sw msg.StartWorkConn
			w := ""
			if err := msg.ReadMsgInto(wc, &sw); err != nil {
				w = lo.Ternary(err == io.EOF || strings.Contains(err.Error(), "EOF") || strings.Contains(err.Error(), "reset"), "eof", "timeout")
			} else if sw.Error != "" {
				w = "no"
			} else {
				w = "ok"
				// the waiting user connection took it: Control.GetWorkConn asks for a replacement
				// (one more ReqWorkConn, already queued): consume it so that none is left over
				t := time.After(2 * time.Second)
			drain:
				for {
					select {
					case m, ok := <-s.in:
						if !ok {
							break drain
						}
						if _, isReq := m.(*msg.ReqWorkConn); isReq {
							break drain
						}
					case <-t:
						w = "timeout"
						break drain
					}
				}
			}
			out = "ok/" + w
			wc.Close()
			vconn.Close()
		default:
			return "bad-op"
		}
		mv := moved(slots)
		if pinged >= 0 {
			out += lo.Ternary(mv[pinged], "+", "=")
			delete(mv, pinged)
		}
		if len(mv) > 0 { // heartbeat clocks that moved without a Ping of that session
			ids := []string{}
			for i := range slots {
				if mv[i] {
					ids = append(ids, strconv.Itoa(i))
				}
			}
			out += "!" + strings.Join(ids, ".")
		}
		outs = append(outs, out)
		wires = append(wires, takeWire())
	}
	if late() {
		return "infra late"
	}
	// the end of the history: every session ends, every proxy that was registered has stopped by then and
	// its close notification goes to every plugin registered for CloseProxy (judged by `sess`, not here):
	// wait for them (at most 1 s) so that none arrives during a later scenario
	for _, c := range open {
		c.Close()
	}
	nClose := 0
	for _, o := range pst.httpRegs {
		if lo.Contains(o.Ops, plugin.OpCloseProxy) {
			nClose++
		}
	}
	want := (len(byStep) + nRegJ) * nClose
	for i := 0; i < 500; i++ {
		pst.mu.Lock()
		n := 0
		for _, w := range pst.wire {
			if w.op == plugin.OpCloseProxy {
				n++
			}
		}
		pst.mu.Unlock()
		if n >= want {
			break
		}
		time.Sleep(2 * time.Millisecond)
	}
	return "H=" + strings.Join(outs, ",") + " | " + strings.Join(wires, ";")
}

func histFlip(id int, kind, x1, x2 string) {
	pst.mu.Lock()
	for k, v := range pst.scripts {
		if v.id == id {
			pst.scripts[k] = &plugScript{kind, x1, x2, id}
		}
	}
	pst.mu.Unlock()
}

// ---- generator: histories as a class
//
// every history starts with a login; then logins of every kind (empty run id, literal run id — fresh or
// used before —, the run id of an earlier slot: live ⇒ replacement, closed before ⇒ stale), behaviour
// flips of registered plugins (accept / rewrite / partial rewrite / reject (with and without reason) /
// content dependent reject or failure / HTTP error / malformed), and repeated NewProxy (same and other
// names, same and other sessions), Ping, user + work connections, and connection closes.
var (
	histFlipK = []string{"hacc", "hacc", "happ", "happ", "happ", "hrej", "hrej", "hrejU", "hrejsuf", "herrsuf", "hpart", "hs500", "hmal", "haccC", "hempty", "hreset", "hxlat", "hsub"}
	histUsers = []string{"", "u", "alice", "né", "bob"}
	histNames = []string{"p", "web", "p+1", "né", "q"}
	histRids  = []string{"r1", "r2", "zz"}
	// credentials (privilege key[@timestamp], see credStr) of the scripted Pings and work connections: what the Ping /
	// NewWorkConn plugins see as member `a` (content dependent behaviours look at its ending).  histValid are the ones
	// the verifier accepts (token ""); histTickets are what a peer that relies on a translating plugin sends
	histValid   = []string{util.GetAuthKey("", 0), credStr(util.GetAuthKey("", 7), 7)}
	histTickets = []string{"tkt", "t2"}
	histKeys    = []string{util.GetAuthKey("", 0), "", "k1", "k2", "zz", "p", credStr(util.GetAuthKey("", 7), 7), "tkt", "t2", credStr(util.GetAuthKey("", 0), 7)}
)

func histKey(rng *rand.Rand, scope bool) string {
	if scope {
		switch r := rng.Intn(8); {
		case r < 4:
			return pick(rng, histValid)
		case r < 6:
			return pick(rng, histTickets)
		}
	}
	return pick(rng, histKeys)
}

func histScopeStep(h, w bool) string {
	v := make([]string, len(histValid))
	for i, c := range histValid {
		v[i] = hx(c)
	}
	return "A:" + lo.Ternary(h, "h", "") + lo.Ternary(w, "w", "") + ":" + strings.Join(v, "/")
}

// x1, x2 of a scripted behaviour; creds: the plugin is asked about credentials (Ping / NewWorkConn)
func histFlipArgs(rng *rand.Rand, kind string, creds bool) (string, string) {
	sufs := []string{"p", "e", "b", "u", "1", "2", "q", "z", "a", "c", "7", "t", ""}
	x1, x2 := "", ""
	switch kind {
	case "happ", "hpart", "haccC":
		x1 = pick(rng, plugTags)
	case "hrej", "hrejU":
		x1 = pick(rng, plugReasons)
	case "hrejsuf":
		x1, x2 = pick(rng, sufs), pick(rng, plugReasons)
	case "herrsuf":
		x1 = pick(rng, sufs)
	case "hmal":
		x1 = pick(rng, plugMalBody)
	case "hxlat", "hsub":
		if creds || rng.Intn(3) == 0 {
			// a ticket (or some other credentials) becomes credentials the verifier accepts — or does not
			x1 = pick(rng, append(append([]string{}, histTickets...), histTickets[0], histValid[0], "k1"))
			x2 = pick(rng, append(append([]string{}, histValid...), histValid[0], "k1", histTickets[0]))
		} else {
			x1 = pick(rng, append(append([]string{}, histNames...), histUsers...))
			x2 = pick(rng, append(append([]string{}, histNames...), histUsers...))
		}
	}
	return x1, x2
}

func plugGenHist(rng *rand.Rand, maxID int, opsOf map[int][]string) string {
	steps := []string{}
	nL := 0
	nSteps := []int{} // indexes of N steps
	login := func() {
		rid := "e"
		switch r := rng.Intn(10); {
		case r < 2:
		case r < 5:
			rid = "f" + hx(pick(rng, histRids))
		default:
			if nL > 0 {
				rid = "s" + strconv.Itoa(rng.Intn(nL))
			}
		}
		steps = append(steps, "L:"+rid+":"+hx(pick(rng, histUsers)))
		nL++
	}
	has := func(id int, op string) bool { return lo.Contains(opsOf[id], op) }
	credIDs := []int{} // plugins that are asked about credentials
	connIDs := []int{} // plugins that are asked about user / work connections
	for id := 1; id <= maxID; id++ {
		if has(id, "Ping") || has(id, "NewWorkConn") {
			credIDs = append(credIDs, id)
		}
		if has(id, "NewUserConn") || has(id, "NewWorkConn") {
			connIDs = append(connIDs, id)
		}
	}
	flipTok := func(id int, kinds []string, sep string) string {
		kind := pick(rng, kinds)
		x1, x2 := histFlipArgs(rng, kind, lo.Contains(credIDs, id) && rng.Intn(2) == 0)
		return strconv.Itoa(id) + sep + kind + sep + hx(x1) + sep + hx(x2)
	}
	flip := func(id int, kinds []string) { steps = append(steps, "F:"+flipTok(id, kinds, ":")) }
	hScope, wScope := false, false
	switch r := rng.Intn(10); {
	case r == 0:
		hScope = true
	case r < 3:
		wScope = true
	case r == 3:
		hScope, wScope = true, true
	}
	if hScope || wScope {
		steps = append(steps, histScopeStep(hScope, wScope))
	}
	if rng.Intn(10) < 6 {
		// start from plugins that all consent (accept or rewrite); the history then flips some of them
		for id := 1; id <= maxID; id++ {
			flip(id, []string{"hacc", "happ"})
		}
	}
	if (hScope || wScope) && len(credIDs) > 0 && rng.Intn(3) != 0 {
		// a plugin that rewrites credentials: a translator (ticket ↦ credentials the server accepts), a substitution,
		// or one that spoils whatever it is handed
		flip(pick(rng, credIDs), []string{"hxlat", "hxlat", "hsub", "hsub", "happ", "hpart"})
	}
	login()
	// credentials of a work connection / a Ping
	wcred := func() string { return histKey(rng, wScope) }
	// several occurrences in flight together (J): mostly user connections to one proxy from the same address and
	// from others, their work connections, and Pings / NewProxys of the sessions, released in any order with changes
	// of mind in between
	jstep := func() string {
		n := 2 + rng.Intn(3)
		items := []string{}
		k := strconv.Itoa(nSteps[rng.Intn(len(nSteps))])
		if rng.Intn(3) != 0 {
			k = "^"
		}
		used := map[int]bool{}
		for i := 0; i < n; i++ {
			switch r := rng.Intn(10); {
			case r < 7 || i == 0:
				if rng.Intn(4) == 0 {
					k = strconv.Itoa(nSteps[rng.Intn(len(nSteps))])
				}
				ip := 1
				if rng.Intn(3) == 0 {
					ip = 2 + rng.Intn(2)
				}
				items = append(items, fmt.Sprintf("c%s~%s~%d", k, hx(wcred()), ip))
			default:
				s := rng.Intn(nL)
				if rng.Intn(2) == 0 {
					s = nL - 1 - rng.Intn(lo.Min([]int{nL, 2}))
				}
				if used[s] && rng.Intn(4) != 0 {
					s = rng.Intn(nL)
				}
				used[s] = true
				if r < 9 {
					items = append(items, fmt.Sprintf("p%d~%s", s, hx(histKey(rng, hScope))))
				} else {
					items = append(items, fmt.Sprintf("n%d~%s", s, hx(pick(rng, histNames))))
				}
			}
		}
		acts := []string{}
		rounds := 1 + rng.Intn(3)
		for r := 0; r < rounds; r++ {
			order := rng.Perm(n)
			for _, i := range order {
				if maxID > 0 && rng.Intn(10) < 4 {
					id := 1 + rng.Intn(maxID)
					if len(connIDs) > 0 && rng.Intn(3) != 0 {
						id = pick(rng, connIDs)
					}
					acts = append(acts, "f"+flipTok(id, []string{"hrej", "hrej", "hrejU", "hacc", "hacc", "happ", "hs500", "hreset", "hrejsuf", "herrsuf", "hxlat", "hsub"}, "~"))
				}
				if rng.Intn(8) != 0 {
					acts = append(acts, "r"+strconv.Itoa(i))
				}
			}
		}
		if len(acts) == 0 {
			acts = append(acts, "-")
		}
		return "J:" + strings.Join(items, "/") + ":" + strings.Join(acts, "/")
	}
	k := 2 + rng.Intn(10)
	for i := 0; i < k; i++ {
		if maxID > 0 && rng.Intn(10) < 3 {
			// a plugin changes its mind right before the next operation
			flip(1+rng.Intn(maxID), []string{"hrej", "hrejU", "hrejsuf", "hrejsuf", "herrsuf", "hs500", "hreset", "happ", "hpart", "hacc", "hxlat", "hsub"})
		}
		switch r := rng.Intn(100); {
		case r < 22:
			login()
		case r < 31 && maxID > 0:
			flip(1+rng.Intn(maxID), histFlipK)
		case r < 52 || (r >= 62 && r < 90 && len(nSteps) == 0):
			nSteps = append(nSteps, len(steps))
			steps = append(steps, "N:"+strconv.Itoa(rng.Intn(nL))+":"+hx(pick(rng, histNames)))
		case r < 62:
			steps = append(steps, "P:"+strconv.Itoa(rng.Intn(nL))+":"+hx(histKey(rng, hScope)))
		case r < 76:
			steps = append(steps, "C:"+lo.Ternary(rng.Intn(2) == 0, "^", strconv.Itoa(nSteps[rng.Intn(len(nSteps))]))+":"+hx(wcred()))
		case r < 90:
			if rng.Intn(2) == 0 {
				// make sure somebody is there: everybody consents for a moment, a fresh session registers a proxy; the
				// refusals then come from the changes of mind inside the J step
				for id := 1; id <= maxID; id++ {
					flip(id, []string{"hacc", "hacc", "happ"})
				}
				steps = append(steps, "L:e:"+hx(pick(rng, histUsers)))
				nL++
				nSteps = append(nSteps, len(steps))
				steps = append(steps, "N:"+strconv.Itoa(nL-1)+":"+hx(pick(rng, histNames)))
			}
			steps = append(steps, jstep())
		default:
			steps = append(steps, "X:"+strconv.Itoa(rng.Intn(nL)))
		}
	}
	return strings.Join(steps, ",")
}

// ---- generator: heartbeat histories (real time)
//
// a server with a heartbeat timeout of 1 or 2 s, 2…4 sessions that ping in rounds (every 0.3…0.5 s, each with
// a key of its own), while the Ping plugins change their mind at some round: reject everything / the keys
// with some ending only, fail (HTTP 500, reset, garbage, empty object) for everything / for some keys only,
// and possibly consent again later; some sessions fall silent, some are closed by the peer, now and then a
// NewProxy in between.  The history goes on (the refused sessions keep pinging) until every session whose
// Pings are no longer counted is past timeout + one worker period + slack, so that who is still there is
// decided: the model (PluginSite.step with .tick / .hbCheck) says who must be alive, who must be gone.
func plugGenBeat(rng *rand.Rand, pingIDs []int) string {
	hb := 1 + rng.Intn(2) // seconds
	steps := []string{"Z:" + strconv.Itoa(hb)}
	scope := rng.Intn(4) == 0
	if scope {
		steps = append(steps, histScopeStep(true, false))
	}
	flip := func(kinds []string, sufs []string) {
		if len(pingIDs) == 0 {
			return
		}
		kind := pick(rng, kinds)
		x1, x2 := "", ""
		switch kind {
		case "happ", "haccC":
			x1 = pick(rng, plugTags)
		case "hrej", "hrejU":
			x1 = pick(rng, plugReasons)
		case "hrejsuf":
			x1, x2 = pick(rng, sufs), pick(rng, plugReasons)
		case "herrsuf":
			x1 = pick(rng, sufs)
		case "hmal":
			x1 = pick(rng, plugMalBody)
		}
		steps = append(steps, fmt.Sprintf("F:%d:%s:%s:%s", pick(rng, pingIDs), kind, hx(x1), hx(x2)))
	}
	for _, id := range pingIDs { // everybody consents to begin with
		steps = append(steps, fmt.Sprintf("F:%d:hacc:x:x", id))
	}
	n := 2 + rng.Intn(3)
	keys, until := make([]string, n), make([]int, n)
	sufs := []string{""}
	for i := 0; i < n; i++ {
		steps = append(steps, "L:e:"+hx(pick(rng, histUsers)))
		keys[i] = histKey(rng, scope)
		if k := keys[i]; k != "" {
			sufs = append(sufs, k[len(k)-1:])
		}
		until[i] = 1 << 30 // pings to the end
		if rng.Intn(5) == 0 {
			until[i] = 2 + rng.Intn(12) // falls silent at this time (1/10 s)
		}
	}
	refusing := []string{"hrej", "hrejU", "hrejsuf", "hrejsuf", "hrejsuf", "herrsuf", "herrsuf", "hs500", "hreset", "hmal", "hempty"}
	disturbAt := 3 + rng.Intn(10) // the first change of mind
	end := disturbAt + hb*10 + 10 + 5 + 4 + rng.Intn(4)
	disturbed, nProxy := false, 0
	for now := 0; now < end; {
		if !disturbed && now >= disturbAt {
			disturbed = true
			flip(refusing, sufs)
		} else if disturbed && rng.Intn(8) == 0 {
			flip(append([]string{"hacc", "hacc", "happ"}, refusing...), sufs) // another change, maybe back
		}
		for i := 0; i < n; i++ {
			if now < until[i] && rng.Intn(12) != 0 {
				steps = append(steps, "P:"+strconv.Itoa(i)+":"+hx(keys[i]))
			}
		}
		switch rng.Intn(14) {
		case 0:
			nProxy++
			steps = append(steps, "N:"+strconv.Itoa(rng.Intn(n))+":"+hx(pick(rng, histNames)))
		case 1:
			if rng.Intn(3) == 0 {
				steps = append(steps, "X:"+strconv.Itoa(rng.Intn(n)))
			}
		}
		d := 3 + rng.Intn(3)
		if d > hb*10-6 {
			d = hb*10 - 6
		}
		steps = append(steps, "W:"+strconv.Itoa(d))
		now += d
	}
	// who is there at the end: one more Ping each
	for i := 0; i < n; i++ {
		steps = append(steps, "P:"+strconv.Itoa(i)+":"+hx(keys[i]))
	}
	return strings.Join(steps, ",")
}
