// Engine "peer" (C04), second part: the two credential paths no stub can stand in for.
//
// 1. OIDC for real, offline.  An in-process OpenID provider on loopback (discovery document, JWKS with an RSA
//    key made at run time, a client-credentials token endpoint that signs JWTs).  frps runs with
//    auth.method = oidc, so server.NewService builds its verifier with auth.NewAuthVerifier →
//    auth.NewTokenVerifier → go-oidc (discovery + remote key set).  Every key the harness sends in these
//    episodes is obtained through the REAL frpc side, auth.NewOidcAuthSetter(...).SetLogin / SetPing /
//    SetNewWorkConn, whose client-credentials request carries the wanted token shape in
//    AdditionalEndpointParams (issuer, expiry, nbf, signing key, extra audience); audience and scope travel
//    in the fields frpc has for them.  After minting, the harness decodes the token itself (encoding/json,
//    crypto/rsa - no frp, no go-oidc code) and checks that it has the claims the op line names, so the op
//    line is a truthful description of the key.
//
//	reset O <hb> <wc> <aud> <skipExp> <skipIss>            frps with the real OIDC verifier
//	ologin <cid> <tr> <rid> <aap> <pool> <spec…>           Login whose key comes from SetLogin
//	oping  <cid> <cscope> <spec…>                          Ping; cscope = the setter has the HeartBeats scope
//	owork  <cid> <tr> <ridref> <cscope> <spec…>            NewWorkConn; cscope = … the NewWorkConns scope
//	spec = <client> <secretOk> <caud> <audx> <scope> <iss> <exp> <nbf> <sig>
//	   client   OAuth client id = subject of the token;  secretOk 0 ⇒ the token endpoint answers 401
//	   caud     frpc's auth.oidc.audience ("" ⇒ no audience parameter ⇒ aud = "default-aud")
//	   audx     a further audience the provider puts in front (aud becomes a JSON array)
//	   iss      g = the provider's issuer | b = another issuer | e = no iss claim
//	   exp      f = now+1h | p = now-1h | z = no exp claim
//	   nbf      n = none | p = now-1h | s = now+2min (inside go-oidc's 5 min leeway) | f = now+1h
//	   sig      k1 = the published key | k2 = unpublished key (kid k2) | k2as1 = unpublished key, kid k1 |
//	            none = alg none | hs = HS256 | bad = damaged signature | swap = payload replaced after signing |
//	            raw = not a JWT | empty = no access_token in the response (the setter fails)
//
// 2. The ssh tunnel gateway for real.  frps runs with sshTunnelGateway enabled (host key and authorized_keys
//    made at run time in a scratch directory under ./.work, or the system temp dir when there is no ./.work);
//    the harness is an in-process golang.org/x/crypto/ssh client that asks for a remote forward and execs a
//    `tcp --remote_port 0 …` / `stcp …` command, exactly like `ssh -R :80:… v0@host tcp …`.
//
//	reset S <hb> <wc> <ak>                                 token auth + gateway; ak = authorizedKeysFile configured
//	akset <mode>                                           rewrite authorized_keys: AB | A | B | A2 | empty | missing | garbage
//	ssh <cid> <auth> <ptype> <name> <user> <token>         auth: what the client tries after the "none" request every client
//	                                                       starts with, '+'-joined, in order: A | B | C (public keys it can
//	                                                       sign for) | Af | Cf (offers that key, signs with another) |
//	                                                       pw<x…> (password method with that password) | kbd<x…>
//	                                                       (keyboard-interactive, that answer to every question) | gss
//	                                                       (gssapi-with-mic); none = nothing further
//	sshclose <cid>                                         the ssh client goes away
package main

import (
	"crypto"
	"crypto/ed25519"
	"crypto/hmac"
	crand "crypto/rand"
	"crypto/rsa"
	"crypto/sha256"
	"crypto/x509"
	"encoding/base64"
	"encoding/json"
	"encoding/pem"
	"fmt"
	"io"
	"math/big"
	"net"
	"net/http"
	"net/http/httptest"
	"net/url"
	"os"
	"path/filepath"
	"strconv"
	"strings"
	"sync"
	"time"

	golog "github.com/fatedier/golib/log"
	"golang.org/x/crypto/ssh"

	"github.com/fatedier/frp/pkg/auth"
	v1 "github.com/fatedier/frp/pkg/config/v1"
	"github.com/fatedier/frp/pkg/msg"
	frplog "github.com/fatedier/frp/pkg/util/log"
)

var peerQuietOnce sync.Once

// refused ssh handshakes and refused virtual-client logins are logged by frp at error level; the harness'
// stdout/stderr carry the trace, so frp's own logging must not leak into it
func peerQuiet() {
	peerQuietOnce.Do(func() { frplog.Logger = frplog.Logger.WithOptions(golog.WithOutput(io.Discard)) })
}

// ------------------------------------------------------------------ fake OpenID provider

const (
	peerOtherIssuer = "http://127.0.0.1:1/other-issuer"
	peerDefaultAud  = "default-aud"
)

type peerIdProvider struct {
	srv    *httptest.Server
	issuer string
	k1, k2 *rsa.PrivateKey

	mu        sync.Mutex
	published string     // which keys jwks_uri serves now: k1 | k2 | k1k2 | none | fail (the request is answered 500)
	clock     *peerClock // nil: real time
}

// the clock of C episodes: handed to go-oidc as oidc.Config.Now and used by the provider when it mints
type peerClock struct {
	mu  sync.Mutex
	sec int64
}

func (c *peerClock) Now() time.Time {
	c.mu.Lock()
	defer c.mu.Unlock()
	return time.Unix(c.sec, 0)
}

func (c *peerClock) advance(d int64) {
	c.mu.Lock()
	c.sec += d
	c.mu.Unlock()
}

// unix seconds of "now" for minting and for the harness's own reading of a token
func (p *peerIdProvider) now() int64 {
	p.mu.Lock()
	c := p.clock
	p.mu.Unlock()
	if c != nil {
		return c.Now().Unix()
	}
	return time.Now().Unix()
}

func (p *peerIdProvider) set(published string, clock *peerClock) {
	p.mu.Lock()
	p.published, p.clock = published, clock
	p.mu.Unlock()
}

func (p *peerIdProvider) setKeys(published string) bool {
	switch published {
	case "k1", "k2", "k1k2", "none", "fail":
	default:
		return false
	}
	p.mu.Lock()
	p.published = published
	p.mu.Unlock()
	return true
}

var (
	peerIdPOnce sync.Once
	peerIdPInst *peerIdProvider
)

func peerB64(b []byte) string { return base64.RawURLEncoding.EncodeToString(b) }

func peerIdP() *peerIdProvider {
	peerIdPOnce.Do(func() {
		p := &peerIdProvider{}
		var err error
		if p.k1, err = rsa.GenerateKey(crand.Reader, 2048); err != nil {
			panic(err)
		}
		if p.k2, err = rsa.GenerateKey(crand.Reader, 2048); err != nil {
			panic(err)
		}
		mux := http.NewServeMux()
		mux.HandleFunc("/.well-known/openid-configuration", func(w http.ResponseWriter, _ *http.Request) {
			w.Header().Set("Content-Type", "application/json")
			_ = json.NewEncoder(w).Encode(map[string]any{
				"issuer":                                p.issuer,
				"authorization_endpoint":                p.issuer + "/auth",
				"token_endpoint":                        p.issuer + "/token",
				"jwks_uri":                              p.issuer + "/keys",
				"id_token_signing_alg_values_supported": []string{"RS256"},
			})
		})
		mux.HandleFunc("/keys", func(w http.ResponseWriter, _ *http.Request) {
			p.mu.Lock()
			published := p.published
			p.mu.Unlock()
			if published == "fail" {
				w.WriteHeader(http.StatusInternalServerError)
				return
			}
			w.Header().Set("Content-Type", "application/json")
			keys := []map[string]string{}
			jwk := func(kid string, k *rsa.PrivateKey) map[string]string {
				pub := k.PublicKey
				return map[string]string{
					"kty": "RSA", "alg": "RS256", "use": "sig", "kid": kid,
					"n": peerB64(pub.N.Bytes()), "e": peerB64(big.NewInt(int64(pub.E)).Bytes()),
				}
			}
			if strings.Contains(published, "k1") {
				keys = append(keys, jwk("k1", p.k1))
			}
			if strings.Contains(published, "k2") {
				keys = append(keys, jwk("k2", p.k2))
			}
			_ = json.NewEncoder(w).Encode(map[string]any{"keys": keys})
		})
		mux.HandleFunc("/token", p.token)
		p.srv = httptest.NewServer(mux)
		p.issuer = p.srv.URL
		p.published = "k1"
		peerIdPInst = p
	})
	return peerIdPInst
}

func (p *peerIdProvider) token(w http.ResponseWriter, r *http.Request) {
	_ = r.ParseForm()
	id, secret, ok := r.BasicAuth()
	if ok {
		id, _ = url.QueryUnescape(id)
		secret, _ = url.QueryUnescape(secret)
	} else {
		id, secret = r.PostForm.Get("client_id"), r.PostForm.Get("client_secret")
	}
	w.Header().Set("Content-Type", "application/json")
	if r.Method != http.MethodPost || r.PostForm.Get("grant_type") != "client_credentials" || id == "" || secret != "pw-"+id {
		w.WriteHeader(http.StatusUnauthorized)
		_, _ = w.Write([]byte(`{"error":"invalid_client"}`))
		return
	}
	f := r.PostForm
	at := p.mint(id, f.Get("audience"), f.Get("x_audx"), f["scope"], f.Get("x_iss"), f.Get("x_exp"), f.Get("x_nbf"), f.Get("x_sig"))
	_ = json.NewEncoder(w).Encode(map[string]any{"access_token": at, "token_type": "Bearer", "expires_in": 3600})
}

func (p *peerIdProvider) mint(sub, aud, audx string, scope []string, iss, exp, nbf, sig string) string {
	switch sig {
	case "raw":
		return "this-is-not-a-jwt"
	case "empty":
		return ""
	}
	now := p.now()
	claims := map[string]any{"sub": sub, "iat": now}
	if len(scope) > 0 {
		claims["scope"] = strings.Join(scope, " ")
	}
	switch iss {
	case "g":
		claims["iss"] = p.issuer
	case "b":
		claims["iss"] = peerOtherIssuer
	}
	if aud == "" {
		aud = peerDefaultAud
	}
	if audx != "" {
		claims["aud"] = []string{audx, aud}
	} else {
		claims["aud"] = aud
	}
	switch exp {
	case "f":
		claims["exp"] = now + 3600
	case "p":
		claims["exp"] = now - 3600
	case "s":
		claims["exp"] = now + 3
	case "e":
		claims["exp"] = now
	}
	switch nbf {
	case "p":
		claims["nbf"] = now - 3600
	case "s":
		claims["nbf"] = now + 120
	case "l":
		claims["nbf"] = now + 300
	case "m":
		claims["nbf"] = now + 301
	case "f":
		claims["nbf"] = now + 3600
	}
	payload, _ := json.Marshal(claims)
	hdr := func(alg, kid string) string {
		h := map[string]string{"alg": alg, "typ": "JWT"}
		if kid != "" {
			h["kid"] = kid
		}
		b, _ := json.Marshal(h)
		return peerB64(b)
	}
	rs := func(k *rsa.PrivateKey, in string) string {
		d := sha256.Sum256([]byte(in))
		s, err := rsa.SignPKCS1v15(crand.Reader, k, crypto.SHA256, d[:])
		if err != nil {
			panic(err)
		}
		return peerB64(s)
	}
	pl := peerB64(payload)
	switch sig {
	case "k1":
		in := hdr("RS256", "k1") + "." + pl
		return in + "." + rs(p.k1, in)
	case "k2":
		in := hdr("RS256", "k2") + "." + pl
		return in + "." + rs(p.k2, in)
	case "k2as1":
		in := hdr("RS256", "k1") + "." + pl
		return in + "." + rs(p.k2, in)
	case "none":
		return hdr("none", "") + "." + pl + "."
	case "hs":
		in := hdr("HS256", "k1") + "." + pl
		m := hmac.New(sha256.New, p.k1.PublicKey.N.Bytes())
		m.Write([]byte(in))
		return in + "." + peerB64(m.Sum(nil))
	case "bad":
		in := hdr("RS256", "k1") + "." + pl
		d := sha256.Sum256([]byte(in))
		s, _ := rsa.SignPKCS1v15(crand.Reader, p.k1, crypto.SHA256, d[:])
		s[len(s)/2] ^= 0x55
		return in + "." + peerB64(s)
	case "swap":
		// a genuine signature of the provider - over ANOTHER payload (subject "mallory")
		other := map[string]any{}
		for k, v := range claims {
			other[k] = v
		}
		other["sub"] = "mallory"
		ob, _ := json.Marshal(other)
		h := hdr("RS256", "k1")
		return h + "." + pl + "." + rs(p.k1, h+"."+peerB64(ob))
	}
	return "unknown-sig-kind"
}

// ------------------------------------------------------------------ token spec

type peerSpec struct {
	client                string
	secok                 bool
	caud, audx, scope     string
	iss, exp, nbf, sigKnd string
}

const peerSpecLen = 9

func peerParseSpec(tok []string) peerSpec {
	return peerSpec{client: unhx(tok[0]), secok: peerB(tok[1]), caud: unhx(tok[2]), audx: unhx(tok[3]), scope: unhx(tok[4]),
		iss: tok[5], exp: tok[6], nbf: tok[7], sigKnd: tok[8]}
}

// the REAL frpc side: auth.NewOidcAuthSetter with the client configuration that asks for this token
func (sp peerSpec) setter(scopes []v1.AuthScope) *auth.OidcAuthProvider {
	secret := "pw-" + sp.client
	if !sp.secok {
		secret = "wrong-secret"
	}
	eps := map[string]string{"x_iss": sp.iss, "x_exp": sp.exp, "x_nbf": sp.nbf, "x_sig": sp.sigKnd}
	if sp.audx != "" {
		eps["x_audx"] = sp.audx
	}
	return auth.NewOidcAuthSetter(scopes, v1.AuthOIDCClientConfig{
		ClientID:                 sp.client,
		ClientSecret:             secret,
		Audience:                 sp.caud,
		Scope:                    sp.scope,
		TokenEndpointURL:         peerIdP().issuer + "/token",
		AdditionalEndpointParams: eps,
	})
}

// the harness's own reading of a minted key: "" when it is what the spec says, else what differs
func (sp peerSpec) check(key string) string {
	if sp.sigKnd == "raw" {
		if strings.Count(key, ".") == 2 {
			return "raw-is-jwt"
		}
		return ""
	}
	parts := strings.Split(key, ".")
	if len(parts) != 3 {
		return "not-3-parts"
	}
	pb, err := base64.RawURLEncoding.DecodeString(parts[1])
	if err != nil {
		return "payload-b64"
	}
	var c struct {
		Iss   *string         `json:"iss"`
		Sub   string          `json:"sub"`
		Aud   json.RawMessage `json:"aud"`
		Exp   *int64          `json:"exp"`
		Nbf   *int64          `json:"nbf"`
		Scope *string         `json:"scope"`
	}
	if err := json.Unmarshal(pb, &c); err != nil {
		return "payload-json"
	}
	now := peerIdP().now()
	if c.Sub != sp.client {
		return "sub"
	}
	wantIss := map[string]string{"g": peerIdP().issuer, "b": peerOtherIssuer}[sp.iss]
	if (c.Iss == nil) != (sp.iss == "e") || (c.Iss != nil && *c.Iss != wantIss) {
		return "iss"
	}
	var auds []string
	if len(c.Aud) > 0 && c.Aud[0] == '[' {
		_ = json.Unmarshal(c.Aud, &auds)
	} else {
		var a string
		_ = json.Unmarshal(c.Aud, &a)
		auds = []string{a}
	}
	want := []string{}
	if sp.audx != "" {
		want = append(want, sp.audx)
	}
	if sp.caud != "" {
		want = append(want, sp.caud)
	} else {
		want = append(want, peerDefaultAud)
	}
	if strings.Join(auds, "\x00") != strings.Join(want, "\x00") {
		return "aud"
	}
	if c.Scope == nil || *c.Scope != sp.scope {
		return "scope"
	}
	switch sp.exp {
	case "f":
		if c.Exp == nil || *c.Exp < now+3000 {
			return "exp"
		}
	case "p":
		if c.Exp == nil || *c.Exp > now-3000 {
			return "exp"
		}
	case "s":
		if c.Exp == nil || *c.Exp < now+1 || *c.Exp > now+3 {
			return "exp"
		}
	case "e":
		if c.Exp == nil || *c.Exp < now-1 || *c.Exp > now {
			return "exp"
		}
	default:
		if c.Exp != nil {
			return "exp"
		}
	}
	switch sp.nbf {
	case "n":
		if c.Nbf != nil {
			return "nbf"
		}
	case "p":
		if c.Nbf == nil || *c.Nbf > now-3000 {
			return "nbf"
		}
	case "s":
		if c.Nbf == nil || *c.Nbf < now+60 || *c.Nbf > now+180 {
			return "nbf"
		}
	case "l", "m":
		if c.Nbf == nil || *c.Nbf < now+298 || *c.Nbf > now+301 {
			return "nbf"
		}
	case "f":
		if c.Nbf == nil || *c.Nbf < now+3000 {
			return "nbf"
		}
	}
	// signature: RS256 by the key the spec names over exactly header.payload
	var h struct {
		Alg string `json:"alg"`
	}
	hb, _ := base64.RawURLEncoding.DecodeString(parts[0])
	_ = json.Unmarshal(hb, &h)
	sig, _ := base64.RawURLEncoding.DecodeString(parts[2])
	d := sha256.Sum256([]byte(parts[0] + "." + parts[1]))
	var hk struct {
		Kid string `json:"kid"`
	}
	_ = json.Unmarshal(hb, &hk)
	good1 := h.Alg == "RS256" && hk.Kid == "k1" && rsa.VerifyPKCS1v15(&peerIdP().k1.PublicKey, crypto.SHA256, d[:], sig) == nil
	good2 := h.Alg == "RS256" && hk.Kid == "k2" && rsa.VerifyPKCS1v15(&peerIdP().k2.PublicKey, crypto.SHA256, d[:], sig) == nil
	if good1 != (sp.sigKnd == "k1") || good2 != (sp.sigKnd == "k2") {
		return "sig"
	}
	return ""
}

// the exp claim of a minted token (0 = none), read by the harness itself
func peerTokenExp(key string) int64 {
	parts := strings.Split(key, ".")
	if len(parts) != 3 {
		return 0
	}
	pb, err := base64.RawURLEncoding.DecodeString(parts[1])
	if err != nil {
		return 0
	}
	var c struct {
		Exp int64 `json:"exp"`
	}
	_ = json.Unmarshal(pb, &c)
	return c.Exp
}

func peerScopes(hb, wc bool) []v1.AuthScope {
	var s []v1.AuthScope
	if hb {
		s = append(s, v1.AuthScopeHeartBeats)
	}
	if wc {
		s = append(s, v1.AuthScopeNewWorkConns)
	}
	return s
}

// ------------------------------------------------------------------ ssh gateway

type peerTunnel struct {
	client *ssh.Client
	rid    string
}

type peerGateway struct {
	dir         string
	hostKeyFile string
	akFile      string // "" = authorizedKeysFile not configured
	port        int
	tunnels     map[string]*peerTunnel
}

type peerSSHKeys struct {
	host    ssh.Signer
	hostPEM []byte
	user    map[string]ssh.Signer // A, B, C
}

var (
	peerSSHOnce sync.Once
	peerSSHInst *peerSSHKeys
	peerSSHSeq  int
)

func peerSSH() *peerSSHKeys {
	peerSSHOnce.Do(func() {
		k := &peerSSHKeys{user: map[string]ssh.Signer{}}
		_, hp, err := ed25519.GenerateKey(crand.Reader)
		if err != nil {
			panic(err)
		}
		der, err := x509.MarshalPKCS8PrivateKey(hp)
		if err != nil {
			panic(err)
		}
		k.hostPEM = pem.EncodeToMemory(&pem.Block{Type: "PRIVATE KEY", Bytes: der})
		if k.host, err = ssh.NewSignerFromKey(hp); err != nil {
			panic(err)
		}
		for _, n := range []string{"A", "B", "C"} {
			_, p, err := ed25519.GenerateKey(crand.Reader)
			if err != nil {
				panic(err)
			}
			if k.user[n], err = ssh.NewSignerFromKey(p); err != nil {
				panic(err)
			}
		}
		peerSSHInst = k
	})
	return peerSSHInst
}

// the ssh client's methods for an auth spec.  x/crypto/ssh tries "none" first and then the configured methods in
// order, each method name once, skipping those the server does not list as able to continue; all keys of a spec
// travel in ONE publickey method (in order), placed where the first key stands.
func peerSSHMethods(spec string) ([]ssh.AuthMethod, bool) {
	keys := peerSSH()
	var methods []ssh.AuthMethod
	var signers []ssh.Signer
	keyPos := -1
	if spec == "none" {
		return nil, true
	}
	for _, t := range strings.Split(spec, "+") {
		var signer ssh.Signer
		switch {
		case t == "A" || t == "B" || t == "C":
			signer = keys.user[t]
		case t == "Af":
			signer = peerForgedSigner{pub: keys.user["A"], priv: keys.user["C"]}
		case t == "Cf":
			signer = peerForgedSigner{pub: keys.user["C"], priv: keys.user["A"]}
		case t == "gss":
			methods = append(methods, ssh.GSSAPIWithMICAuthMethod(peerFakeGSS{}, "frps"))
		case strings.HasPrefix(t, "pw"):
			methods = append(methods, ssh.Password(unhx(t[2:])))
		case strings.HasPrefix(t, "kbd"):
			answer := unhx(t[3:])
			methods = append(methods, ssh.KeyboardInteractive(func(_, _ string, questions []string, _ []bool) ([]string, error) {
				out := make([]string, len(questions))
				for i := range out {
					out[i] = answer
				}
				return out, nil
			}))
		default:
			return nil, false
		}
		if signer != nil {
			if keyPos < 0 {
				keyPos = len(methods)
				methods = append(methods, nil)
			}
			signers = append(signers, signer)
		}
	}
	if keyPos >= 0 {
		methods[keyPos] = ssh.PublicKeys(signers...)
	}
	return methods, true
}

// a GSS-API mechanism that produces a token and a MIC without any security context behind them
type peerFakeGSS struct{}

func (peerFakeGSS) InitSecContext(string, []byte, bool) ([]byte, bool, error) {
	return []byte("not-a-kerberos-token"), false, nil
}
func (peerFakeGSS) GetMIC([]byte) ([]byte, error) { return []byte("mic"), nil }
func (peerFakeGSS) DeleteSecContext() error       { return nil }

// offers the public key of `pub` but signs with `priv`: a client that knows an authorized PUBLIC key only
type peerForgedSigner struct{ pub, priv ssh.Signer }

func (f peerForgedSigner) PublicKey() ssh.PublicKey { return f.pub.PublicKey() }
func (f peerForgedSigner) Sign(r io.Reader, data []byte) (*ssh.Signature, error) {
	return f.priv.Sign(r, data)
}

func peerFreeTCPPort() int {
	l, err := net.Listen("tcp", "127.0.0.1:0")
	if err != nil {
		panic(err)
	}
	defer l.Close()
	return l.Addr().(*net.TCPAddr).Port
}

func peerScratchDir() string {
	base := os.Getenv("VERIF_SCRATCH")
	if base == "" {
		if fi, err := os.Stat(".work"); err == nil && fi.IsDir() {
			base = ".work"
		}
	}
	if base != "" {
		root := filepath.Join(base, "peer-ssh")
		_ = os.MkdirAll(root, 0o700)
		// leftovers of earlier harness processes (the last episode of a run is not followed by a reset): the
		// directory name starts with the pid of its owner; remove those whose owner is gone, or anything old
		if es, err := os.ReadDir(root); err == nil {
			for _, e := range es {
				pid, _, _ := strings.Cut(e.Name(), "-")
				_, alive := os.Stat("/proc/" + pid)
				fi, ierr := e.Info()
				if (alive != nil && pid != strconv.Itoa(os.Getpid())) || (ierr == nil && time.Since(fi.ModTime()) > time.Hour) {
					_ = os.RemoveAll(filepath.Join(root, e.Name()))
				}
			}
		}
		peerSSHSeq++
		d := filepath.Join(root, fmt.Sprintf("%d-%d", os.Getpid(), peerSSHSeq))
		if err := os.MkdirAll(d, 0o700); err == nil {
			if abs, err := filepath.Abs(d); err == nil {
				return abs
			}
			return d
		}
	}
	d, err := os.MkdirTemp("", "peer-ssh")
	if err != nil {
		panic(err)
	}
	return d
}

func newPeerGateway(ak bool) *peerGateway {
	gw := &peerGateway{dir: peerScratchDir(), tunnels: map[string]*peerTunnel{}}
	gw.hostKeyFile = filepath.Join(gw.dir, "host_key")
	if err := os.WriteFile(gw.hostKeyFile, peerSSH().hostPEM, 0o600); err != nil {
		panic(err)
	}
	if ak {
		gw.akFile = filepath.Join(gw.dir, "authorized_keys")
		gw.setAK("AB")
	}
	return gw
}

func peerAKLine(k, comment string) string {
	l := strings.TrimSpace(string(ssh.MarshalAuthorizedKey(peerSSH().user[k].PublicKey())))
	if comment != "" {
		l += " " + comment
	}
	return l + "\n"
}

// A is alice's key, B has no comment (no user); A2: A listed twice, the later line ("zed") wins
func (gw *peerGateway) setAK(mode string) string {
	if gw.akFile == "" {
		return "noak"
	}
	var content string
	switch mode {
	case "AB":
		content = peerAKLine("A", "alice") + peerAKLine("B", "")
	case "A":
		content = peerAKLine("A", "alice")
	case "B":
		content = "# only B\n" + peerAKLine("B", "")
	case "A2":
		content = peerAKLine("A", "alice") + peerAKLine("B", "") + peerAKLine("A", "zed")
	case "empty":
		content = ""
	case "garbage":
		content = peerAKLine("A", "alice") + "this is not an authorized_keys line\n"
	case "missing":
		_ = os.Remove(gw.akFile)
		return "-"
	default:
		return "badmode"
	}
	if err := os.WriteFile(gw.akFile, []byte(content), 0o600); err != nil {
		return "writeerr"
	}
	return "-"
}

func (gw *peerGateway) cleanup() {
	for _, t := range gw.tunnels {
		t.client.Close()
	}
	gw.tunnels = map[string]*peerTunnel{}
	_ = os.RemoveAll(gw.dir)
}

func (st *peerState) runIDs() map[string]bool {
	m := map[string]bool{}
	for _, s := range st.sessions() {
		m[s.RunID] = true
	}
	return m
}

func (st *peerState) doSSH(cid, authKind, ptype, name, user, token string) string {
	gw := st.gw
	if gw == nil {
		return "nogw"
	}
	keys := peerSSH()
	before := st.runIDs()
	methods, ok := peerSSHMethods(authKind)
	if !ok {
		return "badauth"
	}
	conf := &ssh.ClientConfig{User: "v0", Auth: methods, HostKeyCallback: ssh.FixedHostKey(keys.host.PublicKey()), Timeout: peerTimeout}
	addr := net.JoinHostPort("127.0.0.1", strconv.Itoa(gw.port))
	tc, err := net.DialTimeout("tcp", addr, peerTimeout)
	if err != nil {
		return "dialerr"
	}
	_ = tc.SetDeadline(time.Now().Add(peerTimeout))
	cc, chans, reqs, err := ssh.NewClientConn(tc, addr, conf)
	if err != nil {
		// the handshake did not complete: no ssh connection, so nothing this client can make the gateway do
		tc.Close()
		return "authfail"
	}
	_ = tc.SetDeadline(time.Time{})
	client := ssh.NewClient(cc, chans, reqs)
	closed := make(chan struct{})
	go func() { _ = client.Wait(); close(closed) }()
	fail := func(r string) string { client.Close(); return r }

	// ssh -R :80:127.0.0.1:8080 v0@host <command>
	ln, err := client.Listen("tcp", "0.0.0.0:80")
	if err != nil {
		return fail("fwderr")
	}
	go func() {
		for {
			c, err := ln.Accept()
			if err != nil {
				return
			}
			go func() { _, _ = io.Copy(c, c); c.Close() }()
		}
	}()
	sess, err := client.NewSession()
	if err != nil {
		return fail("sesserr")
	}
	stdout, err := sess.StdoutPipe()
	if err != nil {
		return fail("sesserr")
	}
	var cmd string
	switch ptype {
	case "tcp":
		cmd = "tcp --remote_port 0"
	case "stcp":
		cmd = "stcp --sk k"
	case "udp":
		cmd = "udp --remote_port 0" // not among the gateway's supported types
	case "badflag":
		cmd = "tcp --no_such_flag 1"
	default:
		return fail("badptype")
	}
	cmd += " --proxy_name " + name
	if user != "" {
		cmd += " --user " + user
	}
	if token != "" {
		cmd += " --token " + token
	}
	if err := sess.Start(cmd); err != nil {
		return fail("execerr")
	}
	banner := make(chan string, 1)
	go func() {
		var acc []byte
		buf := make([]byte, 512)
		for {
			n, err := stdout.Read(buf)
			acc = append(acc, buf[:n]...)
			if i := strings.Index(string(acc), "RemoteAddress:"); i >= 0 && strings.Contains(string(acc[i:]), "\n") {
				banner <- string(acc)
				return
			}
			if err != nil {
				return
			}
		}
	}()
	var text string
	select {
	case text = <-banner:
	case <-closed:
		// nothing may stay behind
		deadline := time.Now().Add(2 * time.Second)
		for {
			extra := false
			for id := range st.runIDs() {
				if !before[id] {
					extra = true
				}
			}
			if !extra {
				return "closed"
			}
			if time.Now().After(deadline) {
				return "closed:residue"
			}
			time.Sleep(200 * time.Microsecond)
		}
	case <-time.After(peerTimeout):
		peerTimedOut()
		return fail("timeout")
	}
	// the tunnel is up: which session is it
	var rid string
	deadline := time.Now().Add(2 * time.Second)
	for rid == "" {
		for _, s := range st.sessions() {
			if !before[s.RunID] && len(s.Proxies) > 0 {
				rid = s.RunID
			}
		}
		if rid == "" {
			if time.Now().After(deadline) {
				return fail("up:nosession")
			}
			time.Sleep(200 * time.Microsecond)
		}
	}
	s0, _ := st.session(rid)
	// the virtual client's pooled work connection: it arrives on the internal listener and is judged by the
	// session's verifier; wait for it where it has to come, give it a moment where it must be refused
	wantPool := s0.AlwaysPass || !st.wc
	waitPool := func() {
		if !wantPool {
			time.Sleep(60 * time.Millisecond)
			return
		}
		dl := time.Now().Add(2 * time.Second)
		for time.Now().Before(dl) {
			if s, ok := st.session(rid); !ok || s.Pool >= 1 {
				return
			}
			time.Sleep(200 * time.Microsecond)
		}
	}
	waitPool()
	echo := "e-"
	if ptype == "tcp" && wantPool {
		// a user connection to the allocated port travels: frps → pooled work connection (internal listener) →
		// virtual client → forwarded-tcpip channel → this ssh client, which echoes
		echo = "e0"
		line := text[strings.Index(text, "RemoteAddress:"):]
		line = strings.TrimSpace(line[:strings.Index(line, "\n")])
		if i := strings.LastIndex(line, ":"); i >= 0 {
			if uc, err := net.DialTimeout("tcp", "127.0.0.1:"+line[i+1:], time.Second); err == nil {
				_ = uc.SetDeadline(time.Now().Add(2 * time.Second))
				want := "hello-" + cid + "\n"
				if _, err := uc.Write([]byte(want)); err == nil {
					got := make([]byte, len(want))
					if _, err := io.ReadFull(uc, got); err == nil && string(got) == want {
						echo = "e1"
					}
				}
				uc.Close()
			}
		}
		waitPool()
	}
	s1, _ := st.session(rid)
	gw.tunnels[cid] = &peerTunnel{client: client, rid: rid}
	st.ridOf[cid] = rid
	st.owner[rid] = cid
	st.lastPing[rid] = s1.LastPing
	st.lp[rid] = 0
	st.legit[rid] = 0
	ap := "0"
	if s1.AlwaysPass {
		ap = "1"
	}
	return "up:" + hx(rid) + ":" + hx(strings.Join(s1.Proxies, ",")) + ":" + ap + ":" + echo
}

func (st *peerState) doSSHClose(cid string) string {
	if st.gw == nil {
		return "-"
	}
	t := st.gw.tunnels[cid]
	if t == nil {
		return "-"
	}
	t.client.Close()
	delete(st.gw.tunnels, cid)
	if st.owner[t.rid] == cid {
		deadline := time.Now().Add(peerTimeout)
		for {
			if _, ok := st.session(t.rid); !ok {
				break
			}
			if time.Now().After(deadline) {
				return "timeout"
			}
			time.Sleep(200 * time.Microsecond)
		}
		delete(st.owner, t.rid)
	}
	return "-"
}

// ------------------------------------------------------------------ exec

func peerAuthExec(st *peerState, tok []string) (string, bool) {
	switch tok[0] {
	case "ologin":
		cid, tr, rid, aap, pool := tok[1], tok[2], unhx(tok[3]), peerB(tok[4]), atoi(tok[5])
		sp := peerParseSpec(tok[6 : 6+peerSpecLen])
		lm := &msg.Login{}
		if err := sp.setter(nil).SetLogin(lm); err != nil {
			return "seterr", true
		}
		if d := sp.check(lm.PrivilegeKey); d != "" {
			return "minterr:" + d, true
		}
		return st.doLogin(cid, tr, rid, 0, lm.PrivilegeKey, aap, pool), true
	case "oping":
		cid, cscope := tok[1], peerB(tok[2])
		sp := peerParseSpec(tok[3 : 3+peerSpecLen])
		pm := &msg.Ping{}
		if err := sp.setter(peerScopes(cscope, false)).SetPing(pm); err != nil {
			return "seterr", true
		}
		if cscope {
			if d := sp.check(pm.PrivilegeKey); d != "" {
				return "minterr:" + d, true
			}
		} else if pm.PrivilegeKey != "" {
			return "minterr:key-set-without-scope", true
		}
		return st.doPing(cid, 0, pm.PrivilegeKey), true
	case "owork":
		cid, tr, rid, cscope := tok[1], tok[2], st.ridref(tok[3]), peerB(tok[4])
		sp := peerParseSpec(tok[5 : 5+peerSpecLen])
		wm := &msg.NewWorkConn{}
		if err := sp.setter(peerScopes(false, cscope)).SetNewWorkConn(wm); err != nil {
			return "seterr", true
		}
		if cscope {
			if d := sp.check(wm.PrivilegeKey); d != "" {
				return "minterr:" + d, true
			}
		} else if wm.PrivilegeKey != "" {
			return "minterr:key-set-without-scope", true
		}
		return st.doWork(cid, tr, rid, 0, wm.PrivilegeKey), true
	case "omint":
		// a token obtained through the real frpc side and kept under <tid> for (re)use by tlogin / tping / twork
		sp := peerParseSpec(tok[2 : 2+peerSpecLen])
		lm := &msg.Login{}
		if err := sp.setter(nil).SetLogin(lm); err != nil {
			return "seterr", true
		}
		if d := sp.check(lm.PrivilegeKey); d != "" {
			return "minterr:" + d, true
		}
		st.toks[tok[1]] = lm.PrivilegeKey
		if sp.exp == "s" {
			if e := peerTokenExp(lm.PrivilegeKey); e > st.shortExp {
				st.shortExp = e
			}
		}
		return "-", true
	case "tlogin":
		raw, ok := st.toks[tok[6]]
		if !ok {
			return "notok", true
		}
		return st.doLogin(tok[1], tok[2], unhx(tok[3]), 0, raw, peerB(tok[4]), atoi(tok[5])), true
	case "tping":
		raw, ok := st.toks[tok[2]]
		if !ok {
			return "notok", true
		}
		return st.doPing(tok[1], 0, raw), true
	case "twork":
		raw, ok := st.toks[tok[4]]
		if !ok {
			return "notok", true
		}
		return st.doWork(tok[1], tok[2], st.ridref(tok[3]), 0, raw), true
	case "okeys":
		if !peerIdP().setKeys(tok[1]) {
			return "badmode", true
		}
		// go-oidc stores a fetched key set a moment after handing it to the waiting verification (jwks.go
		// keysFromRemote): let that settle before the next message
		time.Sleep(time.Millisecond)
		return "-", true
	case "oclock":
		d := int64(atoi(tok[1]))
		if st.clock != nil {
			st.clock.advance(d)
			return "-", true
		}
		// real time (O episodes): only "long enough for every short-lived token to be expired by a full second"
		if d < 5 {
			return "badop", true
		}
		if st.shortExp > 0 {
			if w := time.Until(time.Unix(st.shortExp+1, 0)); w > 0 {
				if w > 6*time.Second {
					w = 6 * time.Second
				}
				time.Sleep(w)
			}
		}
		return "-", true
	case "akset":
		if st.gw == nil {
			return "nogw", true
		}
		return st.gw.setAK(tok[1]), true
	case "ssh":
		return st.doSSH(tok[1], tok[2], tok[3], unhx(tok[4]), unhx(tok[5]), unhx(tok[6])), true
	case "sshclose":
		return st.doSSHClose(tok[1]), true
	}
	return "", false
}

// ------------------------------------------------------------------ generators

var peerClients = []string{"alice", "alice", "bob", "carol"}

// a token spec; good = one the server of this episode accepts.  Bad specs differ from a good one in ONE respect
// (or in one that a skip option of the server forgives), so every check of the verifier is hit on its own.
func (g *peerGen) ospec(good bool, client string) (spec string, accepted bool) {
	rng := g.rng
	if client == "" {
		client = pick(rng, peerClients)
	}
	secok, iss, exp, nbf, sig := 1, "g", "f", pick(rng, []string{"n", "n", "p", "s"}), "k1"
	caud, audx := g.oaud, ""
	if g.oaud == "" {
		caud = pick(rng, []string{"", "frps", "other"})
		if rng.Intn(4) == 0 {
			audx = "third"
		}
	} else if rng.Intn(4) == 0 {
		// the expected audience is one of several
		caud, audx = "other", g.oaud
		if rng.Intn(2) == 0 {
			caud, audx = g.oaud, "third"
		}
	}
	scope := pick(rng, []string{"", "frp", "frp.login"})
	if !good {
		switch rng.Intn(12) {
		case 0, 1:
			caud, audx = pick(rng, []string{"other", "", "frps2", "frp"}), pick(rng, []string{"", "", "third"})
		case 2:
			iss = pick(rng, []string{"b", "b", "e"})
		case 3:
			exp = pick(rng, []string{"p", "p", "z"})
		case 4:
			nbf = "f"
		case 5, 6, 7:
			sig = pick(rng, []string{"k2", "k2as1", "none", "hs", "bad", "swap", "raw"})
		case 8:
			if rng.Intn(2) == 0 {
				secok = 0
			} else {
				sig = "empty"
			}
		case 9:
			// a forged token that is fine in every claim: only the signature tells
			sig = pick(rng, []string{"k2", "k2as1", "none", "swap"})
			iss = "g"
		case 10:
			iss, sig = "b", "k2" // another provider's genuine token
		default:
			exp, nbf = "p", "f"
		}
	}
	audOK := g.oaud == "" || caud == g.oaud || audx == g.oaud
	accepted = secok == 1 && sig == "k1" && (g.oskipI || iss == "g") && audOK && (g.oskipExp || (exp == "f" && nbf != "f"))
	spec = fmt.Sprintf("%s %d %s %s %s %s %s %s %s", hx(client), secok, hx(caud), hx(audx), hx(scope), iss, exp, nbf, sig)
	return spec, accepted
}

func (g *peerGen) ologin(good bool, tr string) {
	cid := g.cid()
	spec, acc := g.ospec(good, "")
	rid := ""
	switch r := g.rng.Intn(10); {
	case r < 2:
		rid = pick(g.rng, []string{"r1", "r2"})
	case r == 2 && len(g.named) > 0:
		rid = pick(g.rng, g.named)
	}
	aap := g.rng.Intn(2)
	if !good && g.rng.Intn(3) > 0 {
		aap = 1
	}
	g.op(fmt.Sprintf("ologin %s %s %s %d %d %s", cid, tr, hx(rid), aap, pick(g.rng, []int{0, 0, 1}), spec))
	if acc || (tr == "int" && aap == 1 && !strings.Contains(spec, " 0 x") && !strings.HasSuffix(spec, " empty")) {
		g.logins = append(g.logins, cid)
		if rid != "" {
			g.named = append(g.named, rid)
		}
		if acc {
			g.subj = append(g.subj, unhx(strings.Fields(spec)[0]))
		}
	}
}

// the subject of a post-login token: mostly one that logged in, sometimes one that did not (yet)
func (g *peerGen) osubject() string {
	if len(g.subj) > 0 && g.rng.Intn(10) < 6 {
		return pick(g.rng, g.subj)
	}
	return pick(g.rng, []string{"alice", "bob", "carol", "dave"})
}

func (g *peerGen) oidcEpisode(n int, lax bool) { g.oidcEpisodeM(n, lax, "O") }

// the same episode with go-oidc's clock in the harness's hand: moments are exact (the very second of exp, the
// very second nbf comes within the leeway) and cost nothing
func (g *peerGen) clockEpisode(n int, lax bool) { g.oidcEpisodeM(n, lax, "C") }

func (g *peerGen) okeys(mode string) {
	g.pub = mode
	g.op("okeys " + mode)
}

func peerSpecSet(spec string, idx int, val string) string {
	f := strings.Fields(spec)
	f[idx] = val
	return strings.Join(f, " ")
}

// mint a token and keep it: good = one the server accepts now; exp / nbf / sig override the spec ("" = leave)
func (g *peerGen) omint(good bool, client, exp, nbf, sig string) peerGenTok {
	spec, acc := g.ospec(good, client)
	if exp != "" {
		spec = peerSpecSet(spec, 6, exp)
	}
	if nbf != "" {
		spec = peerSpecSet(spec, 7, nbf)
	}
	if sig != "" {
		spec = peerSpecSet(spec, 8, sig)
	}
	g.tokSeq++
	t := peerGenTok{id: "t" + strconv.Itoa(g.tokSeq), spec: spec, accepted: acc, short: exp == "s" || exp == "e",
		sub: unhx(strings.Fields(spec)[0])}
	g.op(fmt.Sprintf("omint %s %s", t.id, spec))
	g.toks = append(g.toks, t)
	return t
}

// present a kept token: path 0 = Login on a new connection (returns its cid), 1 = Ping, 2 = NewWorkConn
func (g *peerGen) tuse(t peerGenTok, path int, tr, target string) string {
	switch path {
	case 0:
		cid := g.cid()
		aap := g.rng.Intn(2)
		g.op(fmt.Sprintf("tlogin %s %s %s %d %d %s", cid, tr, hx(""), aap, pick(g.rng, []int{0, 1}), t.id))
		if t.accepted || (tr == "int" && aap == 1) {
			g.logins = append(g.logins, cid)
			if t.accepted {
				g.subj = append(g.subj, t.sub)
			}
		}
		return cid
	case 1:
		g.op(fmt.Sprintf("tping %s %s", target, t.id))
	default:
		ref := target
		if !strings.HasPrefix(ref, "@") && !strings.HasPrefix(ref, "x") {
			ref = "@" + ref
		}
		g.op(fmt.Sprintf("twork %s %s %s %s", g.cid(), tr, ref, t.id))
	}
	return ""
}

// the same raw token on all three paths, in random order, once or twice each
func (g *peerGen) replayAll(t peerGenTok, victim string) {
	for _, path := range g.rng.Perm(3) {
		for j := 1 + g.rng.Intn(2); j > 0; j-- {
			g.tuse(t, path, g.netTr(), victim)
		}
	}
}

// A token that was valid, was accepted on every path, and then stops being valid because time passes.
// C episodes: exact boundaries (accepted in the second of exp, refused one second later).  O episodes: a token
// that lives 3 s and a real wait.
func (g *peerGen) expiryScenario(mode string) (peerGenTok, string) {
	rng := g.rng
	exp := "s"
	if mode == "C" {
		exp = pick(rng, []string{"s", "s", "e", "f"})
	}
	t := g.omint(true, "", exp, pick(rng, []string{"n", "p"}), "k1")
	victim := g.tuse(t, 0, "tcp", "")
	g.tuse(t, 1, "", victim)
	g.tuse(t, 2, g.netTr(), victim)
	g.dump()
	if mode != "C" {
		g.op("oclock 5")
	} else {
		life := map[string]int{"s": 3, "e": 0, "f": 3600}[exp]
		if life > 0 && rng.Intn(2) == 0 {
			// the last second of its life
			g.op(fmt.Sprintf("oclock %d", life))
			g.replayAll(t, victim)
			g.op("oclock 1")
		} else {
			g.op(fmt.Sprintf("oclock %d", life+pick(rng, []int{1, 1, 2, 60, 4000})))
		}
	}
	g.dump()
	g.replayAll(t, victim)
	g.dump()
	return t, victim
}

// A token that was valid and stops being valid because the provider withdrew its signing key.  go-oidc goes on
// accepting it with the cached key until something makes it fetch the key set again (a token signed with the new
// key); after that it is refused, until the provider publishes the old key again.
func (g *peerGen) rotationScenario() (peerGenTok, string) {
	rng := g.rng
	t := g.omint(true, "", "f", "n", "k1")
	victim := g.tuse(t, 0, "tcp", "")
	g.tuse(t, 1, "", victim)
	g.tuse(t, 2, g.netTr(), victim)
	g.dump()
	g.okeys(pick(rng, []string{"k2", "k2", "none"}))
	g.replayAll(t, victim) // still verified with the cached key
	g.dump()
	// a token signed with the new key: accepted when the provider publishes it, and in any case the key set is
	// fetched again (unless cached already)
	t2 := g.omint(true, "", "f", "n", "k2")
	g.tuse(t2, 0, g.netTr(), "")
	g.dump()
	g.replayAll(t, victim)
	g.dump()
	return t, victim
}

// a siege with ONE stale token (expired / its key withdrawn) replayed on all three paths against one session, then
// that session's heartbeat and work connection with a fresh token
func (g *peerGen) staleSiege(t peerGenTok, victim string) {
	rng := g.rng
	g.dump()
	for j := g.siegeLen(); j > 0; j-- {
		switch r := rng.Intn(3); {
		case r == 0 || (r == 1 && !g.ohb) || (r == 2 && !g.owc):
			g.op(fmt.Sprintf("tlogin %s %s %s 1 0 %s", g.cid(), pick(rng, []string{"tcp", "tcp", "tcpn", g.netTr()}), hx(""), t.id))
		case r == 1:
			g.tuse(t, 1, "", victim)
		default:
			g.tuse(t, 2, pick(rng, []string{"tcp", "tcp", "tcpn", g.netTr()}), victim)
		}
	}
	g.dump()
	sig := "k1"
	if !strings.Contains(g.pub, "k1") {
		sig = "k2"
	}
	fresh := g.omint(true, t.sub, "f", "n", sig)
	g.tuse(fresh, 1, "", victim)
	g.tuse(fresh, 2, "tcp", victim)
	g.dump()
}

func (g *peerGen) oidcEpisodeM(n int, lax bool, mode string) {
	rng := g.rng
	g.method = "O"
	g.token, g.noMux = "", false
	g.oaud = pick(rng, []string{"frps", "frps", "frps", ""})
	g.oskipExp, g.oskipI = false, false
	if lax {
		switch rng.Intn(3) {
		case 0:
			g.oskipExp = true
		case 1:
			g.oskipI = true
		default:
			g.oskipExp, g.oskipI = true, true
		}
	}
	g.ohb, g.owc = rng.Intn(4) > 0, rng.Intn(4) > 0
	g.subj = nil
	b := func(x bool) int {
		if x {
			return 1
		}
		return 0
	}
	g.hb, g.wc, g.pub = g.ohb, g.owc, "k1"
	g.op(fmt.Sprintf("reset %s %d %d %s %d %d", mode, b(g.ohb), b(g.owc), hx(g.oaud), b(g.oskipExp), b(g.oskipI)))
	g.ologin(true, "tcp")
	g.dump()
	// where the scripted scenarios go: key rotation in every episode, expiry in every C episode and (a real wait of
	// up to 4 s) in every other O episode
	rotAt, expAt := rng.Intn(36), -1
	if mode == "C" || (rng.Intn(2) == 0 && !g.oskipExp) {
		expAt = rng.Intn(36)
	}
	for k := 0; k < 36 && g.n < n; k++ {
		if k == rotAt {
			t, victim := g.rotationScenario()
			if rng.Intn(2) == 0 {
				g.staleSiege(t, victim)
			}
			g.okeys(pick(rng, []string{"k1", "k1k2", "k1k2"}))
			g.replayAll(t, victim)
			g.dump()
		}
		if k == expAt {
			t, victim := g.expiryScenario(mode)
			if rng.Intn(2) == 0 && !g.oskipExp {
				g.staleSiege(t, victim)
			}
		}
		if q := rng.Intn(100); q < 20 {
			switch {
			case q < 5:
				// mint, keep, use
				exp, nbf := "", ""
				if mode == "C" {
					exp, nbf = pick(rng, []string{"", "", "s", "e"}), pick(rng, []string{"", "", "l", "m"})
				}
				t := g.omint(rng.Intn(4) > 0, g.osubject(), exp, nbf, "")
				g.tuse(t, rng.Intn(3), g.tr(), g.someLogin())
			case q < 11 || (q < 15 && mode != "C"):
				if len(g.toks) > 0 {
					g.tuse(g.toks[len(g.toks)-1-rng.Intn(min(len(g.toks), 6))], rng.Intn(3), g.tr(), g.someLogin())
				}
			case q < 15:
				g.op(fmt.Sprintf("oclock %d", pick(rng, []int{1, 1, 2, 3, 59, 299, 300, 301, 3596, 3599, 3600, 3601, 7200})))
			case q < 18:
				g.okeys(pick(rng, []string{"k1", "k1", "k2", "k1k2", "none", "fail"}))
			default:
				t := g.omint(true, g.osubject(), "", "", "k2")
				g.tuse(t, rng.Intn(3), g.tr(), g.someLogin())
			}
			g.dump()
			continue
		}
		r := rng.Intn(100)
		switch {
		case r < 14:
			g.ologin(true, g.tr())
		case r < 34:
			g.ologin(false, g.tr())
		case r < 54:
			// heartbeat: the client's scope setting usually matches the server's
			cs := g.ohb
			if rng.Intn(5) == 0 {
				cs = !cs
			}
			spec, _ := g.ospec(rng.Intn(4) > 0, g.osubject())
			g.op(fmt.Sprintf("oping %s %d %s", g.someLogin(), b(cs), spec))
		case r < 76:
			cs := g.owc
			if rng.Intn(5) == 0 {
				cs = !cs
			}
			spec, _ := g.ospec(rng.Intn(4) > 0, g.osubject())
			g.op(fmt.Sprintf("owork %s %s %s %d %s", g.cid(), g.tr(), g.ridref(), b(cs), spec))
		case r < 82:
			// raw strings in place of a token
			switch rng.Intn(3) {
			case 0:
				g.login(false, g.tr())
			case 1:
				g.work(false, g.netTr(), g.ridref())
			default:
				key, exp := g.key(0, false)
				g.op(fmt.Sprintf("ping %s 0 %s %s", g.someLogin(), hx(key), hx(exp)))
			}
		case r < 87:
			g.op(fmt.Sprintf("nproxy %s %s", g.someLogin(), hx(pick(rng, []string{"p1", "p2", "p3"}))))
		case r < 90:
			g.op("drop " + g.someLogin())
		case r < 93:
			g.op(fmt.Sprintf("first %s %s %s", g.cid(), g.tr(), pick(rng, peerFirstKinds)))
		default:
			// a burst of refused attempts, then the tables must be what they were
			g.dump()
			for j := 3 + rng.Intn(6); j > 0; j-- {
				switch rng.Intn(3) {
				case 0:
					spec, acc := g.ospec(false, "")
					if !acc {
						g.op(fmt.Sprintf("ologin %s %s %s 1 0 %s", g.cid(), g.netTr(), hx(""), spec))
					}
				case 1:
					if g.owc {
						spec, acc := g.ospec(false, g.osubject())
						if !acc {
							g.op(fmt.Sprintf("owork %s %s %s 1 %s", g.cid(), g.netTr(), g.ridref(), spec))
						}
					}
				default:
					g.login(false, g.tr())
				}
			}
		}
		g.dump()
	}
}

// does the gateway of this episode let this ssh client in (bookkeeping of the generator only: which tunnels to name
// later; the model decides for itself)
func (g *peerGen) sshPasses(auth string) bool {
	if !g.akSet {
		return true
	}
	listed := func(k string) bool {
		switch g.akMode {
		case "AB", "A2":
			return k == "A" || k == "B"
		case "A":
			return k == "A"
		case "B":
			return k == "B"
		}
		return false
	}
	for _, t := range strings.Split(auth, "+") {
		switch t {
		case "A", "B", "C":
			if listed(t) {
				return true
			}
		case "Af", "Cf":
			if listed(t[:1]) {
				return false // bad signature: the server ends the connection
			}
		}
	}
	return false
}

// what an ssh client tries: EVERY method x/crypto/ssh implements, alone and in combination (at most five requests
// after the initial "none": the server disconnects after six failures).  Keys stay together (one publickey method).
func (g *peerGen) sshAuth() string {
	rng := g.rng
	secret := func() string {
		return hx(pick(rng, []string{"", peerToken, "x", "wrong-token", "password", "\x00", peerRandToken(rng)}))
	}
	keyRun := func(max int) []string {
		var ks []string
		for len(ks) < 1+rng.Intn(max) {
			ks = append(ks, pick(rng, []string{"A", "A", "B", "B", "C", "C", "Af", "Cf"}))
		}
		return ks
	}
	switch r := rng.Intn(20); {
	case r < 6:
		return pick(rng, []string{"A", "A", "B", "C", "Af", "Cf"})
	case r < 8:
		return "none"
	case r < 11:
		return "pw" + secret()
	case r < 13:
		return "kbd" + secret()
	case r < 14:
		return "gss"
	}
	// a combination: the method groups in a random order
	groups := [][]string{{"pw" + secret()}, {"kbd" + secret()}, {"gss"}, keyRun(3)}
	rng.Shuffle(len(groups), func(i, j int) { groups[i], groups[j] = groups[j], groups[i] })
	var parts []string
	for _, gr := range groups[:1+rng.Intn(len(groups))] {
		parts = append(parts, gr...)
	}
	if len(parts) > 5 {
		parts = parts[:5]
	}
	// keys must stay consecutive after the cut: they are (a cut only shortens the last group)
	return strings.Join(parts, "+")
}

func (g *peerGen) ssh() {
	rng := g.rng
	cid := g.cid()
	auth := g.sshAuth()
	ptype := pick(rng, []string{"tcp", "tcp", "tcp", "stcp", "stcp", "stcp", "stcp", "udp", "badflag"})
	name := pick(rng, []string{"p1", "p2", "p3", "p4"})
	if rng.Intn(2) == 0 {
		name = "t" + cid
	}
	user := pick(rng, []string{"", "", "u1"})
	token := pick(rng, []string{peerToken, peerToken, peerToken, "", "wrong-token"})
	if g.akSet && rng.Intn(3) > 0 {
		token = "" // the exemption makes it unnecessary
	}
	g.op(fmt.Sprintf("ssh %s %s %s %s %s %s", cid, auth, ptype, hx(name), hx(user), hx(token)))
	if g.sshPasses(auth) && (ptype == "tcp" || ptype == "stcp") && (g.akSet || token == peerToken) {
		g.tunnels = append(g.tunnels, cid)
	}
}

func (g *peerGen) sshEpisode(n int, akSet bool) {
	rng := g.rng
	g.method = "t"
	g.token, g.noMux = peerToken, false
	g.akSet, g.akMode, g.tunnels = akSet, "AB", nil
	hb, wc := rng.Intn(2), rng.Intn(3)/2
	if !akSet {
		wc = rng.Intn(2)
	}
	ak := 0
	if akSet {
		ak = 1
	}
	g.op(fmt.Sprintf("reset S %d %d %d", hb, wc, ak))
	g.ssh()
	g.dump()
	for k := 0; k < 26 && g.n < n; k++ {
		r := rng.Intn(100)
		switch {
		case r < 34:
			g.ssh()
		case r < 44:
			if akSet {
				g.akMode = pick(rng, []string{"AB", "A", "B", "A2", "empty", "missing", "garbage", "AB"})
				g.op("akset " + g.akMode)
			} else {
				g.ssh()
			}
		case r < 50:
			if len(g.tunnels) > 0 {
				i := rng.Intn(len(g.tunnels))
				g.op("sshclose " + g.tunnels[i])
				g.tunnels = append(g.tunnels[:i], g.tunnels[i+1:]...)
			}
		case r < 70:
			// work connections from the network and from the internal listener naming gateway sessions
			g.work(rng.Intn(2) == 0, g.tr(), g.ridref())
		case r < 78:
			g.login(rng.Intn(2) == 0, g.tr())
		case r < 86:
			g.op(fmt.Sprintf("nproxy %s %s", g.someLogin(), hx(pick(rng, []string{"p1", "p2", "p3", "p4"}))))
		case r < 90:
			ts := g.ts()
			key, exp := g.key(ts, rng.Intn(2) == 0)
			g.op(fmt.Sprintf("ping %s %d %s %s", g.someLogin(), ts, hx(key), hx(exp)))
		case r < 93:
			g.op("drop " + g.someLogin())
		default:
			// ssh clients without a usable key, one after the other: nothing may change
			g.dump()
			for j := 2 + rng.Intn(4); j > 0; j-- {
				auth := pick(rng, []string{"C", "Af", "none"})
				if !akSet {
					auth = "none"
				}
				tok := ""
				if !akSet {
					tok = pick(rng, []string{"", "wrong-token", "S3CR3T-TOK"})
				}
				g.op(fmt.Sprintf("ssh %s %s stcp %s %s %s", g.cid(), auth, hx("t"+strconv.Itoa(g.next)), hx(""), hx(tok)))
			}
		}
		g.dump()
	}
}
