package main

import (
	"context"
	"math/rand"
	"net"
	"net/http"
	"net/http/httptest"
	"net/url"
	"strconv"
	"strings"
	"time"

	httppkg "github.com/fatedier/frp/pkg/util/http"
	"github.com/fatedier/frp/pkg/util/vhost"
)

// Engine "router": vhost.Routers through HTTPReverseProxy.Register/UnRegister/GetRouteConfig
// and through a real vhost.Muxer (Listen / Listener.Close / getListener).
//
//	reset
//	add  <domain> <location> <user> <id>   => ok | conflict       (HTTPReverseProxy.Register)
//	del  <domain> <location> <user>        => -                   (HTTPReverseProxy.UnRegister)
//	get  <host> <path> <user>              => <id> | none         (HTTPReverseProxy.GetRouteConfig)
//	madd <domain> <location> <user> <id>   => ok | conflict       (Muxer.Listen)
//	mdel <id>                              => - | unknown         (Listener.Close)
//	mget <host> <path> <user>              => <id> | none         (Muxer.getListener)
//	canon <host>                           => <canonical host> | err
//	spell <name> <dot 0|1> <port|->        => <canonical host> | err   (CanonicalHost of name[.][:port])
//	hreq  <name> <dot> <port|-> <path> <user> => <id> | none      (a real request through HTTPReverseProxy.ServeHTTP with
//	                                          Host: name[.][:port]; <id> = the registration whose backend answered — over a new
//	                                          connection or one the transport kept idle; none = the 404 page)
//	copen / creq / cclose: requests sharing a client connection (keep-alive, h2c), see eng_router_conn.go
type routerState struct {
	routers *vhost.Routers
	rp      *vhost.HTTPReverseProxy
	mux     *vhost.Muxer
	ln      net.Listener
	byID    map[int]*vhost.Listener
	ids     map[*vhost.Listener]int
	// connection part (eng_router_conn.go): the http.Server in front of rp, the client connections, the backends
	srv    *http.Server
	front_ net.Listener
	conns  map[string]*rcConn
	back   *rcBackends
}

var rst *routerState

func routerReset() {
	if rst != nil && rst.ln != nil {
		rst.ln.Close()
		rst.closeConns()
	}
	r := vhost.NewRouters()
	ln, err := net.Listen("tcp", "127.0.0.1:0")
	if err != nil {
		panic(err)
	}
	mux, _ := vhost.NewMuxer(ln, func(c net.Conn) (net.Conn, map[string]string, error) { return c, nil, nil }, time.Second)
	rst = &routerState{
		routers: r,
		rp:      vhost.NewHTTPReverseProxy(vhost.HTTPReverseProxyOptions{}, r),
		mux:     mux,
		ln:      ln,
		byID:    map[int]*vhost.Listener{},
		ids:     map[*vhost.Listener]int{},
		conns:   map[string]*rcConn{},
		back:    &rcBackends{},
	}
}

func routerExec(tok []string) string {
	if rst == nil {
		routerReset()
	}
	if r, ok := routerConnExec(rst, tok); ok {
		return r
	}
	switch tok[0] {
	case "reset":
		routerReset()
		return "-"
	case "add":
		st, id := rst, tok[4]
		err := rst.rp.Register(vhost.RouteConfig{
			Domain: unhx(tok[1]), Location: unhx(tok[2]), RouteByHTTPUser: unhx(tok[3]), RewriteHost: tok[4],
			// the backend of this registration: it answers every request with X-Id: <id> and keeps the connection
			CreateConnFn: func(string) (net.Conn, error) { return st.back.dial(id) },
		})
		if err != nil {
			return "conflict"
		}
		return "ok"
	case "del":
		rst.rp.UnRegister(vhost.RouteConfig{Domain: unhx(tok[1]), Location: unhx(tok[2]), RouteByHTTPUser: unhx(tok[3])})
		return "-"
	case "get":
		rc := rst.rp.GetRouteConfig(unhx(tok[1]), unhx(tok[2]), unhx(tok[3]))
		if rc == nil {
			return "none"
		}
		return rc.RewriteHost
	case "madd":
		l, err := rst.mux.Listen(context.Background(), &vhost.RouteConfig{
			Domain: unhx(tok[1]), Location: unhx(tok[2]), RouteByHTTPUser: unhx(tok[3]),
		})
		if err != nil {
			return "conflict"
		}
		id := atoi(tok[4])
		rst.byID[id] = l
		rst.ids[l] = id
		return "ok"
	case "mdel":
		l := rst.byID[atoi(tok[1])]
		if l == nil {
			return "unknown"
		}
		delete(rst.byID, atoi(tok[1]))
		l.Close()
		return "-"
	case "mget":
		l, ok := rst.mux.VerifGetListener(unhx(tok[1]), unhx(tok[2]), unhx(tok[3]))
		if !ok {
			return "none"
		}
		return strconv.Itoa(rst.ids[l])
	case "spell":
		h, err := httppkg.CanonicalHost(routerSpell(tok[1], tok[2], tok[3]))
		if err != nil {
			return "err"
		}
		return hx(h)
	case "hreq":
		return routerServe(rst.rp, routerSpell(tok[1], tok[2], tok[3]), unhx(tok[4]), unhx(tok[5]))
	case "canon":
		h, err := httppkg.CanonicalHost(unhx(tok[1]))
		if err != nil {
			return "err"
		}
		return hx(h)
	}
	return "bad-op"
}

// routerSpell builds the Host value name[.][:port] from the op tokens.
func routerSpell(name, dot, port string) string {
	h := unhx(name)
	if dot == "1" {
		h += "."
	}
	if port != "-" {
		h += ":" + unhx(port)
	}
	return h
}

// routerServe sends one request through the real ServeHTTP (no client socket): the id of the registration
// whose backend answered it, none = the 404 page.
func routerServe(rp *vhost.HTTPReverseProxy, host, path, user string) string {
	req := &http.Request{
		Method: "GET", URL: &url.URL{Path: path}, Host: host, Header: http.Header{},
		Proto: "HTTP/1.1", ProtoMajor: 1, ProtoMinor: 1, RemoteAddr: "127.0.0.1:9",
	}
	if user != "" {
		req.SetBasicAuth(user, "")
	}
	rw := httptest.NewRecorder()
	rp.ServeHTTP(rw, req.WithContext(context.Background()))
	return rcAnswer(rw.Code, rw.Header().Get("X-Id"))
}

// a spelling of a host name: letter case, trailing dot and port suffix are chosen independently
func genSpelling(rng *rand.Rand, name string) (string, string, string) {
	switch rng.Intn(4) {
	case 0:
		name = strings.ToUpper(name)
	case 1:
		b := []byte(name)
		for i := range b {
			if rng.Intn(2) == 0 && b[i] >= 'a' && b[i] <= 'z' {
				b[i] -= 32
			}
		}
		name = string(b)
	}
	dot := "0"
	if rng.Intn(2) == 0 {
		dot = "1"
	}
	port := "-"
	switch rng.Intn(8) {
	case 0, 1:
		port = hx("80")
	case 2:
		port = hx("8080")
	case 3:
		port = hx("443")
	case 4:
		port = hx(pick(rng, []string{"", "0", "65535", "x", "8:0", "]"}))
	}
	return name, dot, port
}

var (
	rLabels = []string{"a", "b", "ab", "example", "com", "org", "x", "*", "A", "Example", "COM"}
	rLocs   = []string{"", "/", "/a", "/ab", "/a/b", "/abc", "/b", "/a/", "/A"}
	rUsers  = []string{"", "", "alice", "bob", "Alice"}
)

func genHost(rng *rand.Rand) string {
	switch rng.Intn(12) {
	case 0:
		return "*"
	case 1:
		return ""
	}
	n := 1 + rng.Intn(4)
	parts := make([]string, n)
	for i := range parts {
		parts[i] = pick(rng, rLabels[:7])
		if rng.Intn(6) == 0 {
			parts[i] = pick(rng, rLabels)
		}
	}
	if rng.Intn(4) == 0 {
		parts[0] = "*"
	}
	// bias towards the example.com family so that overlaps are frequent
	if rng.Intn(2) == 0 && n >= 2 {
		parts[n-1] = "com"
		parts[n-2] = "example"
	}
	return strings.Join(parts, ".")
}

func genPath(rng *rand.Rand) string {
	p := pick(rng, rLocs)
	if rng.Intn(2) == 0 {
		p += pick(rng, []string{"", "/", "x", "/x", "b", "c/d"})
	}
	return p
}

func routerGen(rng *rand.Rand, n int, emit func(string)) {
	emit("reset")
	id := 0
	live := []int{}
	g := &rcGenState{}
	g.reset()
	for i := 0; i < n; i++ {
		// requests sharing a client connection, interleaved with registration changes (eng_router_conn.go)
		if rng.Intn(30) == 0 {
			i += g.episode(rng, &id, emit) - 1
			continue
		}
		if rng.Intn(40) == 0 && g.late(rng, emit) {
			continue
		}
		k := rng.Intn(100)
		switch {
		case k < 2:
			emit("reset")
			live = live[:0]
			g.reset()
		case k < 22:
			id++
			r := rcReg{genHost(rng), pick(rng, rLocs), pick(rng, rUsers)}
			if len(g.regs) < 40 {
				g.regs = append(g.regs, r)
			}
			emit("add " + hx(r.dom) + " " + hx(r.loc) + " " + hx(r.user) + " " + strconv.Itoa(id))
		case k < 32:
			emit("del " + hx(genHost(rng)) + " " + hx(pick(rng, rLocs)) + " " + hx(pick(rng, rUsers)))
		case k < 50:
			emit("get " + hx(genHost(rng)) + " " + hx(genPath(rng)) + " " + hx(pick(rng, rUsers)))
		case k < 62:
			nm, dot, port := genSpelling(rng, genHost(rng))
			emit("hreq " + hx(nm) + " " + dot + " " + port + " " + hx(genPath(rng)) + " " + hx(pick(rng, rUsers)))
		case k < 72:
			id++
			live = append(live, id)
			emit("madd " + hx(genHost(rng)) + " " + hx(pick(rng, rLocs)) + " " + hx(pick(rng, rUsers)) + " " + strconv.Itoa(id))
		case k < 77:
			if len(live) > 0 {
				j := rng.Intn(len(live))
				emit("mdel " + strconv.Itoa(live[j]))
				live = append(live[:j], live[j+1:]...)
			}
		case k < 92:
			emit("mget " + hx(genHost(rng)) + " " + hx(genPath(rng)) + " " + hx(pick(rng, rUsers)))
		case k < 97:
			nm, dot, port := genSpelling(rng, genHost(rng))
			if rng.Intn(8) == 0 {
				nm = pick(rng, []string{"[::1]", "a.b.", "a:b", "", ".", "a..", "[a.b]"})
			}
			emit("spell " + hx(nm) + " " + dot + " " + port)
		default:
			h := genHost(rng)
			h += pick(rng, []string{"", "", ":80", ".", ".:8080", ":", ":x:y", "]:1"})
			if rng.Intn(10) == 0 {
				h = pick(rng, []string{"[::1]:80", "[::1]", "::1", "[a.b]:1", "[a:b", "a]:1", "[a]b:1", "[a]:b:1"})
			}
			emit("canon " + hx(h))
		}
	}
}

func init() { register(&Engine{Name: "router", Gen: routerGen, Exec: routerExec}) }

// routerHits canonicalises the recorded backends of one request: none, the one id, or all of them.
func routerHits(hits []string) string {
	if len(hits) == 0 {
		return "none"
	}
	for _, h := range hits {
		if h != hits[0] {
			return "many:" + strings.Join(hits, "+")
		}
	}
	return hits[0]
}
