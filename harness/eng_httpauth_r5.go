package main

import (
	"bufio"
	"context"
	"errors"
	"fmt"
	"io"
	"math/rand"
	"net"
	"net/http"
	"sort"
	"strconv"
	"strings"
	"sync"
	"time"

	httppkg "github.com/fatedier/frp/pkg/util/http"
	"github.com/fatedier/frp/pkg/util/tcpmux"
	"github.com/fatedier/frp/pkg/util/vhost"
	"github.com/fatedier/frp/server/group"
)

// Engine "httpauth" (property C07), two further parts.
//
// (1) Hand-off in vhost.Muxer.handle (ho…): a real HTTPConnectTCPMuxer on an in-memory listener, listeners made with the
// real Muxer.Listen that the HARNESS accepts from — or not: a CONNECT whose credentials passed waits in
// `l.accept <- c` until somebody accepts, and the listener may be closed meanwhile.
//
//	horeset
//	holisten <lid> <domain> <routeByHTTPUser> <user> <pass>   => ok | conflict
//	hoconn <cid> <host> <pauth>      CONNECT host:443; the connection stays open   => 404 | 407 | park | closed | stuck
//	      park = the credential check passed and handle is at (or on its way into) the hand-off
//	hoclose <lid>                    Listener.Close   => - | <cid>:c,<cid>:o…  what became of the connections that waited
//	      at that listener (c = closed by the muxer, o = still open)
//	hoaccept <lid>                   Listener.Accept  => none | got:<cid>:<lid>  connection <cid> came out of listener <lid>
//
// Every wait is for an event (answer read by the client, end of stream, `SetDeadline(zero)` on the server side of the
// connection = handle is past its checks, the mark an acceptor writes into the connection it got), bounded by hoWait.
//
// (2) http load-balancing groups (g…): the real group.HTTPGroupController over the vhost.Routers of a real
// HTTPReverseProxy served by a real http.Server; every member has a backend of its own that reports its identity.
//
//	greset
//	gjoin <pid> <group> <key> <domain> <loc> <routeByHTTPUser> <user> <pass>   HTTPGroupController.Register
//	      => ok | conflict | params | auth | repeated
//	gleave <pid> <group>                                                       HTTPGroupController.UnRegister => -
//	greq <host> <path> <auth>        GET over TCP  => 401 | 404 | fwd:<pid> | st:<code>

const hoWait = 2 * time.Second

type hoSrvConn struct {
	net.Conn
	onClear func()
}

func (c *hoSrvConn) SetDeadline(t time.Time) error {
	if t.IsZero() {
		c.onClear()
	}
	return c.Conn.SetDeadline(t)
}

type hoConnRec struct {
	cid int
	cli net.Conn
	ev  chan string
	at  int // listener the book says it waits at; -1 = not known any more; -2 = finished
}

type hoLst struct {
	l      *vhost.Listener
	closed bool
}

type hoState struct {
	mux   *tcpmux.HTTPConnectTCPMuxer
	ln    *vregLn
	ls    map[int]*hoLst
	conns map[int]*hoConnRec
	deliv chan [2]int
}

var hoSt *hoState

func hoReset() {
	if hoSt != nil {
		for _, c := range hoSt.conns {
			c.cli.Close()
		}
		for _, l := range hoSt.ls {
			if !l.closed {
				l.closed = true
				_ = l.l.Close()
			}
		}
		hoSt.ln.Close()
	}
	st := &hoState{ln: newVregLn(), ls: map[int]*hoLst{}, conns: map[int]*hoConnRec{}, deliv: make(chan [2]int, 64)}
	st.mux, _ = tcpmux.NewHTTPConnectTCPMuxer(st.ln, false, 5*time.Second)
	hoSt = st
}

func (st *hoState) lidOf(l *vhost.Listener) int {
	for id, x := range st.ls {
		if x.l == l {
			return id
		}
	}
	return -1
}

// reader of the client side: every answer and the end of the stream become events
func (st *hoState) reader(rec *hoConnRec) {
	br := bufio.NewReader(rec.cli)
	emit := func(e string) {
		select {
		case rec.ev <- e:
		default:
		}
	}
	resp, err := http.ReadResponse(br, &http.Request{Method: "CONNECT"})
	if err != nil {
		emit("eof")
		return
	}
	if resp.StatusCode != 200 {
		emit(strconv.Itoa(resp.StatusCode))
		_, _ = io.Copy(io.Discard, br)
		emit("eof")
		return
	}
	for {
		b, err := br.Peek(1)
		if err != nil {
			emit("eof")
			return
		}
		if b[0] == 'H' {
			r2, err := http.ReadResponse(br, &http.Request{Method: "CONNECT"})
			if err != nil {
				emit("eof")
				return
			}
			emit(strconv.Itoa(r2.StatusCode))
			continue
		}
		line, err := br.ReadString('\n')
		if strings.HasPrefix(line, "D") {
			select {
			case st.deliv <- [2]int{rec.cid, atoi(strings.TrimSpace(line[1:]))}:
			default:
			}
		}
		if err != nil {
			emit("eof")
			return
		}
	}
}

func (st *hoState) connect(cid int, host, pauthTok string) string {
	if _, ok := st.conns[cid]; ok {
		return "busy"
	}
	rec := &hoConnRec{cid: cid, ev: make(chan string, 16), at: -2}
	c1, c2 := net.Pipe()
	rec.cli = c1
	srv := &hoSrvConn{Conn: c2, onClear: func() {
		select {
		case rec.ev <- "clear":
		default:
		}
	}}
	select {
	case st.ln.ch <- srv:
	case <-time.After(hoWait):
		c1.Close()
		c2.Close()
		return "err:accept"
	}
	st.conns[cid] = rec
	var sb strings.Builder
	fmt.Fprintf(&sb, "CONNECT %s:443 HTTP/1.1\r\nHost: %s:443\r\n", host, host)
	hdr, has := authHeader(pauthTok)
	if has {
		fmt.Fprintf(&sb, "Proxy-Authorization: %s\r\n", hdr)
	}
	sb.WriteString("\r\n")
	go func() { _, _ = io.WriteString(c1, sb.String()) }()
	go st.reader(rec)
	deadline := time.After(hoWait)
	for {
		select {
		case e := <-rec.ev:
			switch e {
			case "404", "407":
				return e
			case "eof":
				return "closed"
			case "clear":
				// where the connection waits, by the muxer's own lookup (nothing else runs meanwhile)
				user := ""
				if has {
					user, _, _ = httppkg.ParseBasicAuth(strings.Trim(hdr, " \t"))
				}
				name, _ := httppkg.CanonicalHost(host + ":443")
				rec.at = -1
				if l, ok := st.mux.VerifGetListener(strings.ToLower(name), "", user); ok {
					rec.at = st.lidOf(l)
				}
				return "park"
			}
		case <-deadline:
			return "stuck"
		}
	}
}

func (st *hoState) closeL(lid int) string {
	x, ok := st.ls[lid]
	if !ok || x.closed {
		return "-"
	}
	x.closed = true
	_ = x.l.Close()
	cids := []int{}
	for cid, c := range st.conns {
		if c.at == lid {
			cids = append(cids, cid)
		}
	}
	sort.Ints(cids)
	out := []string{}
	limit := time.Now().Add(hoWait) // for all of them together
	for _, cid := range cids {
		c := st.conns[cid]
		res := ""
		for res == "" {
			select {
			case e := <-c.ev:
				if e == "eof" {
					res = "c"
				}
			default:
				select {
				case e := <-c.ev:
					if e == "eof" {
						res = "c"
					}
				case <-time.After(time.Until(limit)):
					res = "o"
				}
			}
		}
		if res == "c" {
			c.at = -2
		} else {
			c.at = -1
		}
		out = append(out, strconv.Itoa(cid)+":"+res)
	}
	if len(out) == 0 {
		return "-"
	}
	return strings.Join(out, ",")
}

func (st *hoState) accept(lid int) string {
	x, ok := st.ls[lid]
	if !ok || x.closed {
		return "none"
	}
	expected, astray := false, false
	for _, c := range st.conns {
		expected = expected || c.at == lid
		astray = astray || c.at == -1
	}
	if !expected && !astray {
		return "none" // nobody can be waiting here: Accept would block for good
	}
	go func() {
		ac, err := x.l.Accept()
		if err != nil {
			return
		}
		_, _ = fmt.Fprintf(ac, "D%d\n", lid)
		ac.Close()
	}()
	wait := hoWait
	if !expected {
		wait = 300 * time.Millisecond
	}
	select {
	case d := <-st.deliv:
		if c, ok := st.conns[d[0]]; ok {
			c.at = -2
		}
		return fmt.Sprintf("got:%d:%d", d[0], d[1])
	case <-time.After(wait):
		return "none"
	}
}

// ---- http groups

type hgState struct {
	routers *vhost.Routers
	rp      *vhost.HTTPReverseProxy
	srv     *http.Server
	addr    string
	ctl     *group.HTTPGroupController
}

var (
	hgSt *hgState
	hgMu sync.Mutex
)

func hgReset() {
	if hgSt != nil {
		hgSt.srv.Close()
	}
	st := &hgState{routers: vhost.NewRouters()}
	st.rp = vhost.NewHTTPReverseProxy(vhost.HTTPReverseProxyOptions{ResponseHeaderTimeoutS: 5}, st.routers)
	st.ctl = group.NewHTTPGroupController(st.routers)
	ln, err := net.Listen("tcp", "127.0.0.1:0")
	if err != nil {
		panic(err)
	}
	st.srv = &http.Server{Handler: st.rp, ReadHeaderTimeout: 60 * time.Second}
	go func() { _ = st.srv.Serve(ln) }()
	st.addr = ln.Addr().String()
	hgSt = st
}

func httpAuthR5Exec(tok []string) (string, bool) {
	switch tok[0] {
	case "horeset", "holisten", "hoconn", "hoclose", "hoaccept":
		if tok[0] == "horeset" || hoSt == nil {
			hoReset()
		}
		st := hoSt
		switch tok[0] {
		case "horeset":
			return "-", true
		case "holisten":
			lid := atoi(tok[1])
			if _, ok := st.ls[lid]; ok {
				return "busy", true
			}
			l, err := st.mux.Listen(context.Background(), &vhost.RouteConfig{
				Domain: unhx(tok[2]), RouteByHTTPUser: unhx(tok[3]), Username: unhx(tok[4]), Password: unhx(tok[5]),
			})
			if err != nil {
				return "conflict", true
			}
			st.ls[lid] = &hoLst{l: l}
			return "ok", true
		case "hoconn":
			return st.connect(atoi(tok[1]), unhx(tok[2]), tok[3]), true
		case "hoclose":
			return st.closeL(atoi(tok[1])), true
		case "hoaccept":
			return st.accept(atoi(tok[1])), true
		}
	case "greset", "gjoin", "gleave", "greq":
		if tok[0] == "greset" || hgSt == nil {
			hgReset()
		}
		st := hgSt
		switch tok[0] {
		case "greset":
			return "-", true
		case "gjoin":
			pid := atoi(tok[1])
			u, p := unhx(tok[7]), unhx(tok[8])
			err := st.ctl.Register("p"+tok[1], unhx(tok[2]), unhx(tok[3]), vhost.RouteConfig{
				Domain: unhx(tok[4]), Location: unhx(tok[5]), RouteByHTTPUser: unhx(tok[6]), Username: u, Password: p,
				CreateConnFn: func(string) (net.Conn, error) { return backendConn(pid, u, p), nil },
			})
			switch {
			case err == nil:
				return "ok", true
			case errors.Is(err, group.ErrGroupParamsInvalid):
				return "params", true
			case errors.Is(err, group.ErrGroupAuthFailed):
				return "auth", true
			case errors.Is(err, group.ErrProxyRepeated):
				return "repeated", true
			case errors.Is(err, vhost.ErrRouterConfigConflict):
				return "conflict", true
			}
			return "err:" + hx(err.Error()), true
		case "gleave":
			st.ctl.UnRegister("p"+tok[1], unhx(tok[2]), vhost.RouteConfig{})
			return "-", true
		case "greq":
			return haReqOver(st.addr, "o", unhx(tok[1]), unhx(tok[2]), tok[3], "-"), true
		}
	}
	return "", false
}

// ---- generators

var (
	hoDoms  = []string{"h.example.com", "h.example.com", "*.example.com", "*", "a.example.com", "H.Example.com"}
	hoUsers = []string{"alice", "bob", "carol"}
	hoPass  = []string{"secret", "pw:1", "x"}
)

type hoGenL struct {
	lid        int
	dom, ru    string
	u, p       string
	live       bool
	aimedSince int
}

// hoGenBurst: listeners that one CONNECT can resolve to in turn (user-routed / unrestricted on one name, the
// wildcard levels above it) with equal, different or no credentials; connections carrying the exact credentials of
// the listener they are aimed at, of another listener, a wrong password, nothing; closes of listeners while
// connections wait at them, accepts before and after (a close is followed by a sweep of accepts over the listeners
// that are left)
func hoGenBurst(rng *rand.Rand, emit func(string), lid, cid *int) int {
	emit("horeset")
	ls := []*hoGenL{}
	live := func() []*hoGenL {
		out := []*hoGenL{}
		for _, l := range ls {
			if l.live {
				out = append(out, l)
			}
		}
		return out
	}
	n := 0
	for r, nr := 0, 30+rng.Intn(30); r < nr; r++ {
		lv := live()
		switch t := rng.Intn(100); {
		case t < 24 || len(lv) == 0:
			*lid++
			l := &hoGenL{lid: *lid, dom: pick(rng, hoDoms), live: true}
			switch rng.Intn(3) {
			case 0: // unrestricted
			default:
				l.ru = pick(rng, hoUsers)
			}
			switch k := rng.Intn(8); {
			case k == 0: // no credentials
			case k < 5 && l.ru != "":
				l.u, l.p = l.ru, pick(rng, hoPass)
			default:
				l.u, l.p = pick(rng, hoUsers), pick(rng, hoPass)
			}
			if rng.Intn(12) == 0 {
				l.p = "" // a user name without password
			}
			ls = append(ls, l)
			emit(fmt.Sprintf("holisten %d %s %s %s %s", l.lid, hx(l.dom), hx(l.ru), hx(l.u), hx(l.p)))
		case t < 62:
			x := pick(rng, lv)
			host := haMixCase(rng, concreteHost(rng, strings.ToLower(x.dom)))
			b := func(u, p string) string { return "b" + strconv.Itoa(rng.Intn(3)) + ":" + hx(u) + ":" + hx(p) }
			var a string
			switch k := rng.Intn(20); {
			case k < 11:
				a = b(x.u, x.p)
				if x.u == "" {
					a = b(x.ru, pick(rng, hoPass))
				}
				x.aimedSince++
			case k < 13:
				a = b(x.u, x.p+"x")
			case k < 15:
				y := pick(rng, lv)
				a = b(y.u, y.p)
			case k < 16:
				a = b(x.ru, pick(rng, hoPass))
			case k < 18:
				a = "-"
			default:
				a = genAuthTokWire(rng, append([]string{""}, hoUsers...), append([]string{""}, hoPass...))
			}
			*cid++
			emit(fmt.Sprintf("hoconn %d %s %s", *cid, hx(host), a))
		case t < 78:
			// close: mostly a listener that connections were aimed at since its last accept
			x := pick(rng, lv)
			for try := 0; try < 3 && x.aimedSince == 0; try++ {
				x = pick(rng, lv)
			}
			x.live = false
			emit(fmt.Sprintf("hoclose %d", x.lid))
			n++
			for _, y := range live() {
				if rng.Intn(3) != 0 {
					emit(fmt.Sprintf("hoaccept %d", y.lid))
					n++
				}
			}
		default:
			x := pick(rng, ls)
			if rng.Intn(8) != 0 {
				x = pick(rng, lv)
			}
			x.aimedSince = 0
			emit(fmt.Sprintf("hoaccept %d", x.lid))
		}
		n++
	}
	return n
}

type hgGenM struct {
	pid   int
	grp   string
	u, p  string
	in    bool
	key   string
	route [3]string
}

var (
	hgGroups = []string{"g1", "g2", "g3"}
	hgDoms   = []string{"p.example.com", "q.example.com", "*.example.com"}
	hgLocs   = []string{"", "", "/a"}
)

// hgGenBurst: membership histories of http groups (joins, leaves, re-joins, a second group on the same route, a wrong
// key, other route parameters) x credential pairs as a class relative to what the group's members were configured
// with so far (none / the same / another pair / only a user / only a password), in every order; requests aimed at a
// group's route without credentials, with the exact pair of any member past or present, with a member's user and a
// wrong password, with generated headers
func hgGenBurst(rng *rand.Rand, emit func(string), pid *int) int {
	emit("greset")
	ms := []*hgGenM{}
	route := map[string][3]string{} // group -> domain, location, route user (of its first join)
	seen := map[string][][2]string{}
	n := 0
	for r, nr := 0, 30+rng.Intn(30); r < nr; r++ {
		n++
		switch t := rng.Intn(100); {
		case t < 30 || len(ms) == 0:
			g := pick(rng, hgGroups[:2+rng.Intn(2)])
			rt, ok := route[g]
			if !ok || rng.Intn(15) == 0 {
				rt = [3]string{pick(rng, hgDoms), pick(rng, hgLocs), pick(rng, []string{"", "", "", "alice"})}
				if !ok {
					route[g] = rt
				}
			}
			var u, p string
			prev := seen[g]
			switch k := rng.Intn(10); {
			case k < 3: // none
			case k < 6 && len(prev) > 0: // what a member of this group was configured with before
				c := pick(rng, prev)
				u, p = c[0], c[1]
			case k < 8:
				u, p = pick(rng, hoUsers), pick(rng, hoPass)
			case k < 9:
				u = pick(rng, hoUsers)
			default:
				p = pick(rng, hoPass)
			}
			seen[g] = append(seen[g], [2]string{u, p})
			key := "k"
			if rng.Intn(12) == 0 {
				key = "other"
			}
			*pid++
			id := *pid
			if rng.Intn(15) == 0 { // a proxy name that is a member already
				for _, m := range ms {
					if m.in && m.grp == g {
						id = m.pid
					}
				}
			}
			ms = append(ms, &hgGenM{pid: id, grp: g, u: u, p: p, in: true, key: key, route: rt})
			emit(fmt.Sprintf("gjoin %d %s %s %s %s %s %s %s", id, hx(g), hx(key), hx(rt[0]), hx(rt[1]), hx(rt[2]), hx(u), hx(p)))
		case t < 48:
			m := pick(rng, ms)
			for try := 0; try < 3 && !m.in; try++ {
				m = pick(rng, ms)
			}
			m.in = false
			emit(fmt.Sprintf("gleave %d %s", m.pid, hx(m.grp)))
		case t < 54: // a former member comes back as it was configured
			m := pick(rng, ms)
			m.in = true
			emit(fmt.Sprintf("gjoin %d %s %s %s %s %s %s %s", m.pid, hx(m.grp), hx(m.key), hx(m.route[0]), hx(m.route[1]), hx(m.route[2]), hx(m.u), hx(m.p)))
		default:
			m := pick(rng, ms)
			host := haMixCase(rng, concreteHost(rng, m.route[0]))
			path := m.route[1] + pick(rng, []string{"", "/", "/x", "/a/b"})
			if path == "" {
				path = "/"
			}
			b := func(u, p string) string { return "b" + strconv.Itoa(rng.Intn(3)) + ":" + hx(u) + ":" + hx(p) }
			var a string
			switch k := rng.Intn(20); {
			case k < 5:
				a = "-"
			case k < 10:
				a = b(m.u, m.p)
			case k < 13:
				c := pick(rng, seen[m.grp])
				a = b(c[0], c[1])
			case k < 15:
				a = b(m.u, m.p+"x")
			case k < 17:
				a = b(pick(rng, hoUsers), pick(rng, hoPass))
			default:
				a = genAuthTokWire(rng, append([]string{""}, hoUsers...), append([]string{""}, hoPass...))
			}
			emit(fmt.Sprintf("greq %s %s %s", hx(host), hx(path), a))
		}
	}
	return n
}
