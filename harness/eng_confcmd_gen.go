package main

// Generator of engine "confcmd" (C18).
//
// First the sweep — every common flag × every sub-command, every server flag:
//   for each of the eight `frpc <type>` and three `frpc <type> visitor` commands three definitions that together
//   give every client common flag a value other than its default where it can be observed:
//     A  address, port, user, token, protocol (tcp / websocket / wss), TLS on with a server name, console log at
//        level trace / debug with colours disabled, log_max_days, dns_server
//     B  --tls_enable=false, a log file at a level that writes into it (+ a random half of the rest)
//     C  level warn / error on the console (no info lines), another port / address (+ a random half of the rest)
//   for frps: every flag at once, twice (console with colours disabled / log file); the dashboard port out of range × webServer.tls absent / complete / incomplete;
// then n random definitions (2/3 client, 1/3 server): every key present with probability 1/2, all protocols,
// wrong / absent tokens, and — one block at a time — values the validators must refuse.

import (
	"math/rand"
	"strings"
)

var cmdProxySubs = []string{"p:tcp", "p:udp", "p:tcpmux", "p:http", "p:https", "p:stcp", "p:sudp", "p:xtcp"}
var cmdVisitorSubs = []string{"v:stcp", "v:sudp", "v:xtcp"}

func cmdL(xs ...string) string {
	parts := []string{}
	for _, x := range xs {
		parts = append(parts, hx(x)[1:])
	}
	return "L" + itoa64(int64(len(xs))) + ":" + strings.Join(parts, ",")
}

// genXCOwn: the proxy / visitor part, valid for the type (mode "rand": rarely a local port out of range)
func genXCOwn(rng *rand.Rand, sub, mode string) []string {
	out := []string{}
	add := func(k, v string) {
		if v != "z" {
			out = append(out, "P."+k+"="+v)
		}
	}
	opt := func(k, v string) {
		if rng.Intn(2) == 0 {
			add(k, v)
		}
	}
	t := sub[2:]
	if sub[0] == 'v' {
		add("Name", encS(pick(rng, []string{"vis", "v-名", "x_1"})))
		add("ServerName", encS(pick(rng, []string{"web", "srv.a", "秘"})))
		add("BindPort", encI(int64(1+rng.Intn(2))))
		opt("BindAddr", encS(pick(rng, []string{"127.0.0.1", "127.0.0.2"})))
		opt("SecretKey", encS(pick(rng, []string{"abc", "p@ss w0rd"})))
		opt("ServerUser", encS(pick(rng, []string{"other", "u1"})))
		opt("Transport.UseEncryption", "b1")
		opt("Transport.UseCompression", "b1")
		return out
	}
	add("Name", encS(pick(rng, []string{"web", "p1", "名前", "a.b"})))
	opt("LocalIP", encS(pick(rng, []string{"127.0.0.1", "10.0.0.5", "::1"})))
	lp := int64(1 + rng.Intn(65535))
	if mode == "rand" && rng.Intn(16) == 0 {
		lp = pick(rng, []int64{65536, 70000, -1})
	}
	add("LocalPort", encI(lp))
	opt("Transport.UseEncryption", "b1")
	opt("Transport.UseCompression", "b1")
	opt("Transport.BandwidthLimitMode", encS(pick(rng, []string{"client", "server"})))
	if rng.Intn(3) == 0 {
		add("Metadatas", "M1:"+hx("k")[1:]+"~"+hx(pick(rng, []string{"v", "x y"}))[1:])
	}
	switch t {
	case "tcp", "udp":
		opt("RemotePort", encI(int64(20000+rng.Intn(9000))))
	case "http":
		add("CustomDomains", cmdL(pick(rng, []string{"a.example.com", "UPPER.ORG"})))
		opt("SubDomain", encS("blog"))
		opt("Locations", cmdL("/", "/a b"))
		opt("HTTPUser", encS("hu"))
		opt("HTTPPassword", encS("p w"))
		opt("HostHeaderRewrite", encS("inner.local"))
	case "https":
		if rng.Intn(2) == 0 {
			add("CustomDomains", cmdL("s.example.com", "b.org"))
		} else {
			add("SubDomain", encS("shop"))
		}
	case "tcpmux":
		add("CustomDomains", cmdL("m.example.com"))
		add("Multiplexer", encS("httpconnect"))
		opt("HTTPUser", encS("hu"))
		opt("HTTPPassword", encS("hp"))
	default:
		opt("Secretkey", encS(pick(rng, []string{"abc", "p@ss w0rd", "ключ"})))
		opt("AllowUsers", cmdL(pick(rng, []string{"*", "u1"})))
	}
	return out
}

func genXC(rng *rand.Rand, sub, mode string) string {
	out := []string{"xc", sub, pick(rng, []string{"toml", "yaml", "json"})}
	add := func(k, v string) {
		if v != "z" {
			out = append(out, "C."+k+"="+v)
		}
	}
	var opt func(k, v string)
	opt = func(k, v string) {
		if rng.Intn(2) == 0 {
			add(k, v)
		}
	}
	switch mode {
	case "A":
		add("ServerAddr", encS("127.0.0.2"))
		add("ServerPort", encI(int64(1+rng.Intn(2))))
		add("User", encS(pick(rng, []string{"u1", "Ünï"})))
		add("Auth.Token", encS(cmdTokens[1]))
		add("Transport.Protocol", encS(pick(rng, []string{"tcp", "websocket", "wss"})))
		if rng.Intn(2) == 0 {
			add("Transport.TLS.Enable", encS("true"))
		}
		add("Transport.TLS.ServerName", encS(pick(rng, []string{"frps.example.com", "other.name"})))
		add("Log.To", encS("console"))
		add("Log.Level", encS(pick(rng, []string{"trace", "debug"})))
		add("Log.MaxDays", encI(pick(rng, []int64{1, 7})))
		add("Log.DisablePrintColor", "b1")
		add("DNSServer", encS("127.0.0.1"))
	case "B":
		add("ServerAddr", encS(pick(rng, cmdLoopback)))
		add("ServerPort", encI(int64(1+rng.Intn(2))))
		add("Transport.TLS.Enable", encS("false"))
		add("Auth.Token", encS(cmdTokens[1]))
		opt("Transport.Protocol", encS(pick(rng, []string{"tcp", "websocket"})))
		add("Log.To", encS("@file"))
		opt("Log.Level", encS(pick(rng, []string{"info", "debug"})))
		opt("User", encS("u1"))
		opt("Transport.TLS.ServerName", encS("frps.example.com"))
		opt("Log.MaxDays", encI(7))
		opt("Log.DisablePrintColor", "b1")
	case "C":
		add("ServerAddr", encS(pick(rng, cmdLoopback)))
		add("ServerPort", encI(int64(1+rng.Intn(2))))
		add("Auth.Token", encS(cmdTokens[1]))
		add("Log.Level", encS(pick(rng, []string{"warn", "error"})))
		opt("Log.To", encS("console"))
		opt("Transport.Protocol", encS(pick(rng, []string{"tcp", "kcp", "quic", "websocket", "wss"})))
		opt("Transport.TLS.Enable", encS(pick(rng, []string{"true", "false"})))
		opt("User", encS("Ünï"))
		opt("Transport.TLS.ServerName", encS("other.name"))
		opt("Log.DisablePrintColor", "b1")
	default:
		add("ServerAddr", encS(pick(rng, cmdLoopback)))
		add("ServerPort", encI(int64(1+rng.Intn(2))))
		opt("User", encS(pick(rng, []string{"u1", "Ünï", "a.b"})))
		switch r := rng.Intn(8); {
		case r < 6:
			add("Auth.Token", encS(cmdTokens[1]))
		case r < 7:
			add("Auth.Token", encS(cmdTokens[2]))
		}
		switch r := rng.Intn(16); {
		case r == 0:
			add("Transport.Protocol", encS(pick(rng, []string{"udp", "TCP", "ws"})))
		case r < 10:
			add("Transport.Protocol", encS(pick(rng, []string{"tcp", "kcp", "quic", "websocket", "wss"})))
		}
		switch rng.Intn(3) {
		case 0:
			add("Transport.TLS.Enable", encS("false"))
		case 1:
			add("Transport.TLS.Enable", encS("true"))
		}
		opt("Transport.TLS.ServerName", encS(pick(rng, []string{"frps.example.com", "other.name"})))
		opt("Log.To", encS(pick(rng, []string{"console", "@file"})))
		switch r := rng.Intn(16); {
		case r == 0:
			add("Log.Level", encS(pick(rng, []string{"verbose", "INFO"})))
		case r < 9:
			add("Log.Level", encS(pick(rng, []string{"trace", "debug", "info", "warn", "error"})))
		}
		opt("Log.MaxDays", encI(pick(rng, []int64{1, 7})))
		opt("Log.DisablePrintColor", "b1")
		if rng.Intn(4) == 0 {
			add("DNSServer", encS("127.0.0.1"))
		}
	}
	out = append(out, genXCOwn(rng, sub, mode)...)
	return strings.Join(out, " ")
}

func genXS(rng *rand.Rand, mode string) string {
	out := []string{"xs", pick(rng, []string{"toml", "yaml", "json"})}
	add := func(k, v string) {
		if v != "z" {
			out = append(out, k+"="+v)
		}
	}
	all := mode == "all1" || mode == "all2"
	opt := func(k, v string) {
		if all || rng.Intn(2) == 0 {
			add(k, v)
		}
	}
	// one block may be made invalid
	bad := ""
	if mode == "rand" && rng.Intn(4) == 0 {
		bad = pick(rng, []string{"BindPort", "KCPBindPort", "QUICBindPort", "VhostHTTPPort", "VhostHTTPSPort", "WebServer.Port", "WebServer.Port", "log", "tls"})
	}
	tlsKind := pick(rng, []string{"absent", "absent", "complete", "complete", "incomplete"})
	if all {
		tlsKind = "complete"
	}
	if strings.HasPrefix(mode, "badweb:") {
		bad, tlsKind = "WebServer.Port", mode[7:]
	}
	if bad == "tls" {
		tlsKind = "incomplete"
	} else if tlsKind == "incomplete" && mode == "rand" && bad == "" {
		tlsKind = "complete"
	}
	port := func(k string, sym int64, always bool) {
		if bad == k {
			add(k, encI(pick(rng, []int64{65536, 70000, -1, -65535, 1 << 20})))
			return
		}
		if always || all || rng.Intn(2) == 0 {
			add(k, encI(sym))
		}
	}
	opt("BindAddr", encS(pick(rng, []string{"0.0.0.0", "127.0.0.1", "127.0.0.2"})))
	port("BindPort", 1, true)
	port("KCPBindPort", 2, false)
	port("QUICBindPort", 3, false)
	add("ProxyBindAddr", encS(pick(rng, []string{"0.0.0.0", "127.0.0.1", "127.0.0.2"})))
	port("VhostHTTPPort", 4, false)
	port("VhostHTTPSPort", 5, false)
	opt("VhostHTTPTimeout", encI(pick(rng, []int64{30, 120})))
	add("WebServer.Addr", encS(pick(rng, []string{"0.0.0.0", "127.0.0.1", "127.0.0.2"})))
	port("WebServer.Port", 7, true)
	up := pick(rng, [][2]string{{"admin", "admin"}, {"root", "s3cr3t pw"}, {"dash", "x"}})
	add("WebServer.User", encS(up[0]))
	add("WebServer.Password", encS(up[1]))
	opt("EnablePrometheus", "b1")
	switch {
	case mode == "all1": // colours are seen on the console while info lines are written
		add("Log.To", encS("console"))
		add("Log.Level", encS(pick(rng, []string{"trace", "debug"})))
		add("Log.DisablePrintColor", "b1")
	case mode == "all2": // a log file exists once info lines are written
		add("Log.To", encS("@file"))
		add("Log.Level", encS(pick(rng, []string{"debug", "info"})))
		add("Log.DisablePrintColor", "b1")
	case bad == "log":
		opt("Log.To", encS(pick(rng, []string{"console", "@file"})))
		add("Log.Level", encS(pick(rng, []string{"verbose", "INFO", "fatal"})))
		opt("Log.DisablePrintColor", "b1")
	default:
		opt("Log.To", encS(pick(rng, []string{"console", "@file"})))
		opt("Log.Level", encS(pick(rng, []string{"trace", "debug", "info", "warn", "error"})))
		opt("Log.DisablePrintColor", "b1")
	}
	opt("Log.MaxDays", encI(pick(rng, []int64{1, 30})))
	opt("Auth.Token", encS(pick(rng, []string{"sekret", cmdTokens[1]})))
	opt("SubDomainHost", encS(pick(rng, []string{"frp.test", "example.com"})))
	opt("AllowPorts", encS(pick(rng, []string{"@8", "@8-@9,100", "100-200", "@1-@9"})))
	opt("MaxPortsPerClient", encI(pick(rng, []int64{1, 50})))
	opt("Transport.TLS.Force", "b1")
	switch tlsKind {
	case "complete":
		out = append(out, "WebServer.TLS=b1", "WebServer.TLS.CertFile="+encS("@cert"), "WebServer.TLS.KeyFile="+encS("@key"))
	case "incomplete":
		out = append(out, "WebServer.TLS=b1")
		switch rng.Intn(3) {
		case 0:
			out = append(out, "WebServer.TLS.CertFile="+encS("@cert"))
		case 1:
			out = append(out, "WebServer.TLS.KeyFile="+encS("@key"))
		}
	}
	return strings.Join(out, " ")
}

func confcmdGen(rng *rand.Rand, n int, emit func(string)) {
	emit("reset")
	for _, sub := range append(append([]string{}, cmdProxySubs...), cmdVisitorSubs...) {
		emit(genXC(rng, sub, "A"))
		emit(genXC(rng, sub, "B"))
		emit(genXC(rng, sub, "C"))
	}
	emit(genXS(rng, "all1"))
	emit(genXS(rng, "all2"))
	for _, k := range []string{"absent", "complete", "incomplete"} {
		emit(genXS(rng, "badweb:"+k))
	}
	for i := 0; i < n; i++ {
		if rng.Intn(3) == 0 {
			emit(genXS(rng, "rand"))
		} else {
			emit(genXC(rng, pick(rng, append(append([]string{}, cmdProxySubs...), cmdVisitorSubs...)), "rand"))
		}
	}
}
