package main

import (
	"math/rand"

	"github.com/fatedier/frp/pkg/config/types"
	v1 "github.com/fatedier/frp/pkg/config/v1"
)

// Proxy configurations as field vectors (engines "client" and "svc", C19 reload diff over ALL fields).
//
// A variant >= cfvBase is cfvBase + the mixed-radix code (cfvRadix) of one value per field of
// v1.ProxyBaseConfig (whole transport block, metadatas, annotations, load balancer, health check,
// backend, plugin) and of the type's own struct.  Two codes are equal iff the two configurations are
// reflect.DeepEqual (cfvCanon: fields a type does not have are 0), so "the reload changed exactly
// one field" is "the two codes differ in exactly one digit".  Every configuration is passed through
// Complete(), as the loader does with every entry of a configuration file.

const cfvBase = 100

const (
	cfType = iota
	cfEnc
	cfComp
	cfBwLimit
	cfBwMode
	cfProxyProto
	cfMetas
	cfAnnotations
	cfGroup
	cfGroupKey
	cfHealth
	cfLocalIP
	cfLocalPort
	cfPlugin
	cfS1
	cfS2
	cfS3
	cfHealthUnset // which of intervalSeconds / timeoutSeconds / maxFailed the text leaves out (bits 1, 2, 4); monitor only
	cfN
)

// (new fields are appended: the most significant digit of an older code is 0, it keeps its meaning)
var cfvRadix = [cfN]int{5, 2, 2, 3, 2, 3, 3, 2, 2, 2, 7, 2, 2, 4, 3, 2, 2, 8}

var cfvFieldName = [cfN]string{"type", "transport.useEncryption", "transport.useCompression", "transport.bandwidthLimit",
	"transport.bandwidthLimitMode", "transport.proxyProtocolVersion", "metadatas", "annotations", "loadBalancer.group",
	"loadBalancer.groupKey", "healthCheck", "localIP", "localPort", "plugin", "type-specific 1", "type-specific 2", "type-specific 3"}

const cfHealthMonitor = 6 // healthCheck digit: type tcp (NewWrapper creates a monitor)
const cfPluginBogus = 3   // plugin digit: https2http with a certificate file that does not exist (pxy.Run() fails)

func cfvDecode(code int) [cfN]int {
	var d [cfN]int
	for i, r := range cfvRadix {
		d[i] = code % r
		code /= r
	}
	return d
}

func cfvEncode(d [cfN]int) int {
	v, m := 0, 1
	for i, r := range cfvRadix {
		v += d[i] * m
		m *= r
	}
	return v
}

func cfvCodes() int {
	m := 1
	for _, r := range cfvRadix {
		m *= r
	}
	return m
}

// which digits a vector has (tcp: remote port only; https: domains, subdomain; the health check's
// defaulted members only where a monitor is configured)
func cfvHas(d [cfN]int, field int) bool {
	typ := d[cfType]
	switch field {
	case cfS2:
		return typ != 0
	case cfS3:
		return typ == 1 || typ == 4
	case cfHealthUnset:
		return d[cfHealth] == cfHealthMonitor
	}
	return true
}

func cfvCanon(d [cfN]int) bool {
	for f := 0; f < cfN; f++ {
		if !cfvHas(d, f) && d[f] != 0 {
			return false
		}
	}
	return true
}

func cfvFlags(code int) (h, r bool) {
	d := cfvDecode(code)
	return d[cfHealth] == cfHealthMonitor, d[cfPlugin] == cfPluginBogus
}

// cfvBuild: the configuration as the loader delivers it (Complete()d)
func cfvBuild(name string, code int) v1.ProxyConfigurer {
	c := cfvBuildRaw(name, code)
	c.Complete("")
	return c
}

// cfvBuildRaw: only what the vector sets — the content of the entry in a configuration file
func cfvBuildRaw(name string, code int) v1.ProxyConfigurer {
	d := cfvDecode(code)
	if code < 0 || code >= cfvCodes() || !cfvCanon(d) {
		panic("field vector")
	}
	b := v1.ProxyBaseConfig{Name: name, Type: []string{"tcp", "http", "https", "stcp", "tcpmux"}[d[cfType]]}
	b.Transport.UseEncryption = d[cfEnc] == 1
	b.Transport.UseCompression = d[cfComp] == 1
	if d[cfBwLimit] > 0 {
		q, err := types.NewBandwidthQuantity([]string{"", "1MB", "2MB"}[d[cfBwLimit]])
		if err != nil {
			panic(err)
		}
		b.Transport.BandwidthLimit = q
	}
	b.Transport.BandwidthLimitMode = []string{"", "server"}[d[cfBwMode]]
	b.Transport.ProxyProtocolVersion = []string{"", "v1", "v2"}[d[cfProxyProto]]
	b.Metadatas = []map[string]string{nil, {"k": "v"}, {"k": "w"}}[d[cfMetas]]
	b.Annotations = []map[string]string{nil, {"a": "b"}}[d[cfAnnotations]]
	b.LoadBalancer.Group = []string{"", "g"}[d[cfGroup]]
	b.LoadBalancer.GroupKey = []string{"", "key"}[d[cfGroupKey]]
	switch d[cfHealth] {
	case 1:
		b.HealthCheck.TimeoutSeconds = 3
	case 2:
		b.HealthCheck.MaxFailed = 2
	case 3:
		b.HealthCheck.IntervalSeconds = 5
	case 4:
		b.HealthCheck.Path = "/p"
	case 5:
		b.HealthCheck.HTTPHeaders = []v1.HTTPHeader{{Name: "X-H", Value: "1"}}
	case cfHealthMonitor:
		// the members the text leaves out are defaulted by health.NewMonitor (10 s / 3 s / 1)
		b.HealthCheck = v1.HealthCheckConfig{Type: "tcp"}
		if d[cfHealthUnset]&1 == 0 {
			b.HealthCheck.IntervalSeconds = 1
		}
		if d[cfHealthUnset]&2 == 0 {
			b.HealthCheck.TimeoutSeconds = 1
		}
		if d[cfHealthUnset]&4 == 0 {
			b.HealthCheck.MaxFailed = 1
		}
	}
	b.LocalIP = []string{"", "127.0.0.2"}[d[cfLocalIP]]
	b.LocalPort = 1 + d[cfLocalPort] // nothing listens there: the real monitor only ever sees refused probes
	switch d[cfPlugin] {
	case 1:
		b.Plugin = v1.TypedClientPluginOptions{Type: "socks5", ClientPluginOptions: &v1.Socks5PluginOptions{Type: "socks5", Username: "u", Password: "p"}}
	case 2:
		b.Plugin = v1.TypedClientPluginOptions{Type: "socks5", ClientPluginOptions: &v1.Socks5PluginOptions{Type: "socks5", Username: "w", Password: "p"}}
	case cfPluginBogus:
		b.Plugin = cfvFailingPlugin()
	}
	domains := [][]string{{"a.example.com"}, {"a.example.com", "b.example.com"}, {"b.example.com"}}[d[cfS1]]
	var c v1.ProxyConfigurer
	switch d[cfType] {
	case 0:
		c = &v1.TCPProxyConfig{ProxyBaseConfig: b, RemotePort: 6000 + d[cfS1]}
	case 1:
		x := &v1.HTTPProxyConfig{ProxyBaseConfig: b}
		x.CustomDomains = domains
		x.Locations = [][]string{nil, {"/x"}}[d[cfS2]]
		x.HostHeaderRewrite = []string{"", "h.example.com"}[d[cfS3]]
		c = x
	case 2:
		x := &v1.HTTPSProxyConfig{ProxyBaseConfig: b}
		x.CustomDomains = domains
		x.SubDomain = []string{"", "sub"}[d[cfS2]]
		c = x
	case 3:
		c = &v1.STCPProxyConfig{ProxyBaseConfig: b, Secretkey: []string{"k", "k2", "k3"}[d[cfS1]], AllowUsers: [][]string{nil, {"u"}}[d[cfS2]]}
	case 4:
		x := &v1.TCPMuxProxyConfig{ProxyBaseConfig: b, Multiplexer: "httpconnect"}
		x.CustomDomains = domains
		x.HTTPUser = []string{"", "hu"}[d[cfS2]]
		x.RouteByHTTPUser = []string{"", "ru"}[d[cfS3]]
		c = x
	}
	return c
}

// a plugin the loader accepts and Run() cannot create (enableHTTP2 is left to Complete())
func cfvFailingPlugin() v1.TypedClientPluginOptions {
	return v1.TypedClientPluginOptions{Type: "https2http", ClientPluginOptions: &v1.HTTPS2HTTPPluginOptions{
		Type: "https2http", LocalAddr: "127.0.0.1:1", CrtPath: "/nonexistent/verif.crt", KeyPath: "/nonexistent/verif.key"}}
}

// cfvRandom draws a configuration: mostly plain (a few digits set), so that two draws often differ in
// few fields.  plain = no health monitor, no failing Run().
func cfvRandom(rng *rand.Rand, plain bool) int {
	var d [cfN]int
	d[cfType] = pick(rng, []int{0, 0, 0, 1, 2, 3, 4})
	k := pick(rng, []int{0, 0, 1, 1, 2, 3, cfN})
	for ; k > 0; k-- {
		f := 1 + rng.Intn(cfN-1)
		d[f] = rng.Intn(cfvRadix[f])
	}
	if plain || rng.Intn(3) != 0 {
		if d[cfHealth] == cfHealthMonitor {
			d[cfHealth] = rng.Intn(cfHealthMonitor)
		}
		if d[cfPlugin] == cfPluginBogus {
			d[cfPlugin] = rng.Intn(cfPluginBogus)
		}
	}
	if d[cfHealth] == cfHealthMonitor && rng.Intn(4) != 0 {
		d[cfHealthUnset] = 1 + rng.Intn(7) // mostly: some default is left to the monitor
	}
	for f := 0; f < cfN; f++ {
		if !cfvHas(d, f) {
			d[f] = 0
		}
	}
	return cfvEncode(d)
}

// cfvChangeOne changes exactly one field, drawn uniformly over every field the type has (the type
// itself included; a field the new type does not have is dropped with it).  plain as above.
func cfvChangeOne(rng *rand.Rand, code int, plain bool) int {
	d := cfvDecode(code)
	for {
		f := rng.Intn(cfN)
		if !cfvHas(d, f) {
			continue
		}
		nv := (d[f] + 1 + rng.Intn(cfvRadix[f]-1)) % cfvRadix[f]
		if plain && ((f == cfHealth && nv == cfHealthMonitor) || (f == cfPlugin && nv == cfPluginBogus)) {
			continue
		}
		d[f] = nv
		if f == cfHealth && nv == cfHealthMonitor && rng.Intn(4) != 0 {
			d[cfHealthUnset] = 1 + rng.Intn(7) // (still one field of the file: the healthCheck block)
		}
		for g := 0; g < cfN; g++ {
			if !cfvHas(d, g) {
				d[g] = 0
			}
		}
		return cfvEncode(d)
	}
}
