package main

import (
	"bytes"
	"encoding/hex"
	"encoding/json"
	"fmt"
	"math/rand"
	"net"
	"reflect"
	"strings"
	"sync"
	"time"

	"github.com/fatedier/frp/pkg/msg"
	"github.com/fatedier/frp/pkg/nathole"
	"github.com/fatedier/frp/pkg/proto/udp"
)

// One more op of engine "codec": the lossless clause as a statement about VALUES THAT PERSIST.
//
//	batch <entry> <mode> <seed> <k>
//	     k values are derived from seed (type bytes and field values as for `rt`; for entry udp: payloads of
//	     sizes across the whole range a frame can carry, local and remote address from the class of cbAddr), encoded by the real encoder and
//	     decoded through one decode ENTRY POINT of the protocol:
//	       rd    msg.ReadMsg                         (mode seq: k calls on ONE reader holding all frames back to back)
//	       into  msg.ReadMsgInto(new T)              (the same)
//	       disp  msg.Dispatcher over a net.Pipe      (default handler; one dispatcher per worker)
//	       nh    nathole.EncodeMessage → DecodeMessageInto(new T)
//	       udp   udp.NewUDPPacket → msg.WriteMsg → msg.ReadMsg → udp.GetContent
//	     mode seq = one goroutine, par<g> = g goroutines (item i belongs to worker i mod g, each worker has its own
//	     reader / pipe and decodes its items in order).  EVERY result is RETAINED as the decoder returned it (no
//	     copy) and dumped twice: at once (I) and after the whole batch has been decoded (L); the retained value is
//	     then encoded again (R).
//	     => per item seven words:
//	        t<typeByte> B<json body written> O<canonical object of that body> V<value that went in>
//	        I<value at once | err:cls | PANIC> L<value after the batch | = (same text as I) | -> R<x+frame of the re-encoded retained value | - | werr>
//	     (message entries: V I L are reflection dumps as for `rt`; udp: V = p<payload hex>/<local addr>/<remote addr> as handed to
//	     udp.NewUDPPacket, I L = p<GetContent's result>/<LocalAddr>/<RemoteAddr> of the packet the peer decoded; an address is
//	     `n` (nil) or <IP bytes hex>.<Port>.<Zone hex> — every field of net.UDPAddr)
//
// The harness compares nothing: the driver decides (I and L against the model's value of V, R against the model's
// encoding of B).

type cbItem struct {
	tb      byte
	vseed   int64
	payload []byte       // udp
	laddr   *net.UDPAddr // udp
	raddr   *net.UDPAddr // udp
	frame   []byte       // what the real encoder wrote (nh: the encrypted datagram)
	body    []byte       // json.Marshal of the value (trusted text level)
	vdump   string
	// results
	kept    any    // the decoder's result, retained as returned
	content []byte // udp: GetContent's result, retained as returned
	imm     string
	late    string
	re      string
}

// payload sizes: the whole range a UDPPacket frame (body ≤ 10240) can carry, dense at the small end and
// around the usual datagram sizes
var cbPayloadSizes = []int{0, 1, 2, 3, 4, 5, 15, 16, 17, 63, 64, 100, 255, 256, 511, 512, 700, 767, 768, 769, 1000, 1023, 1024, 1025, 1200,
	1400, 1472, 1500, 2000, 2048, 3000, 4096, 5000, 6000, 7000, 7400}

// the address class of a udp message: net.UDPAddr is a plain struct of three fields and every combination of them is
// a value a packet may carry — nil, the zero value, an empty IP with a port / a zone, IPv4 in its 4- and 16-byte
// form, IPv4-in-IPv6, IPv6 of every scope (global, unique local, link local, multicast of several scopes,
// unspecified, loopback, random), ports across the range incl. 0 and 65535, and zones: none, interface names,
// numeric ids, odd characters (valid UTF-8: the string clause of the codec), long ones
var cbZonePool = []string{
	"eth0", "wlan0", "lo", "en0", "enp0s31f6", "br-1a2b3c4d5e6f", "tun0", "Ethernet 2", "vEthernet (WSL)",
	"1", "7", "42", "4294967295", "0",
	"%", "%eth0", "eth0%", " ", "a b", "\"", "\\", "<&>", "]", "[", ":", "::1", "fe80::1", "/", "\x00", "\x01\x1f", "\x7f", "\t", "\n",
	"é", "ünï", "日本語", "😀", "\u2028", "eth0\u00a0", "İ", "ſ", "K",
}

func cbZone(rng *rand.Rand) string {
	switch rng.Intn(10) {
	case 0, 1, 2:
		return ""
	case 3:
		return strings.Repeat(pick(rng, []string{"z", "eth", "é", "%", "\"", "0"}), 16+rng.Intn(80)) // long
	case 4:
		b := make([]byte, 1+rng.Intn(15))
		for i := range b {
			b[i] = byte(32 + rng.Intn(95))
		}
		return string(b)
	default:
		return pick(rng, cbZonePool)
	}
}

func cbIP(rng *rand.Rand) net.IP {
	rnd := func(n int) []byte { b := make([]byte, n); rng.Read(b); return b }
	switch rng.Intn(14) {
	case 0:
		return nil
	case 1:
		return net.IP{} // empty, not nil
	case 2:
		return net.IP(rnd(4)) // IPv4, 4-byte form
	case 3:
		return net.IP(rnd(4)).To16() // IPv4, 16-byte form (IPv4-in-IPv6)
	case 4:
		return pick(rng, []net.IP{net.IPv4zero, net.IPv4bcast, net.IPv4allsys, net.IP{0, 0, 0, 0}, net.IP{127, 0, 0, 1}, net.IP{255, 255, 255, 255},
			net.IP{169, 254, byte(rng.Intn(256)), byte(rng.Intn(256))}})
	case 5: // link local
		return append(net.IP{0xfe, 0x80, 0, 0, 0, 0, 0, 0}, rnd(8)...)
	case 6: // link local, short forms
		ip := make(net.IP, 16)
		ip[0], ip[1], ip[15] = 0xfe, 0x80, byte(1+rng.Intn(255))
		return ip
	case 7: // multicast: interface-local, link-local, site-local … scopes
		ip := make(net.IP, 16)
		ip[0], ip[1], ip[15] = 0xff, byte(rng.Intn(16)), pick(rng, []byte{1, 2, 0xfb, 0x16})
		return ip
	case 8:
		return pick(rng, []net.IP{net.IPv6zero, net.IPv6unspecified, net.IPv6loopback, net.IPv6linklocalallnodes, net.IPv6interfacelocalallnodes})
	case 9: // unique local / global
		ip := net.IP(rnd(16))
		ip[0] = pick(rng, []byte{0xfd, 0x20, 0x2a})
		return ip
	case 10: // zero runs at several places (the text form compresses one of them)
		ip := net.IP(rnd(16))
		for g := 0; g < 8; g++ {
			if rng.Intn(2) == 0 {
				ip[2*g], ip[2*g+1] = 0, 0
			}
		}
		return ip
	case 11: // ::ffff:0:0/96 neighbours that are NOT IPv4-mapped
		ip := make(net.IP, 16)
		copy(ip[8:], rnd(8))
		ip[10], ip[11] = pick(rng, []byte{0xff, 0xfe, 0}), 0xff
		return ip
	default:
		return net.IP(rnd(16))
	}
}

func cbAddr(rng *rand.Rand) *net.UDPAddr {
	switch rng.Intn(12) {
	case 0:
		return nil
	case 1:
		return &net.UDPAddr{} // the zero value
	case 2: // an empty IP with a port and / or a zone
		return &net.UDPAddr{Port: pick(rng, []int{0, 53, 65535}), Zone: cbZone(rng)}
	}
	port := pick(rng, []int{0, 65535, 1, 53, 5353, 40000, rng.Intn(65536), rng.Intn(65536), rng.Intn(65536)})
	return &net.UDPAddr{IP: cbIP(rng), Port: port, Zone: cbZone(rng)}
}

// `n` (nil) | <ip hex>.<port>.<zone hex>: every field of the struct, raw
func cbAddrDump(a *net.UDPAddr) string {
	if a == nil {
		return "n"
	}
	return fmt.Sprintf("%s.%d.%s", hex.EncodeToString(a.IP), a.Port, hex.EncodeToString([]byte(a.Zone)))
}

// p<payload hex>/<local addr>/<remote addr>
func cbPktDump(content []byte, l, r *net.UDPAddr) string {
	return "p" + hex.EncodeToString(content) + "/" + cbAddrDump(l) + "/" + cbAddrDump(r)
}

func cbItems(entry string, seed int64, k int) []*cbItem {
	rng := rand.New(rand.NewSource(seed))
	items := make([]*cbItem, k)
	// a batch mostly stays within one size class (consecutive datagrams of one flow), sometimes mixes
	base := cbPayloadSizes[min(rng.Intn(len(cbPayloadSizes)), rng.Intn(len(cbPayloadSizes)))] // the small end more often
	for i := range items {
		it := &cbItem{}
		if entry == "udp" {
			it.tb = 'u'
			n := base
			switch rng.Intn(4) {
			case 0:
				n = pick(rng, cbPayloadSizes)
			case 1:
				n = base - rng.Intn(base/8+1)
			}
			it.payload = make([]byte, n)
			switch rng.Intn(3) {
			case 0:
				rng.Read(it.payload)
			case 1: // recognisable per item
				for j := range it.payload {
					it.payload[j] = byte(i*37 + j)
				}
			default:
				copy(it.payload, bytes.Repeat([]byte(fmt.Sprintf("<%d-%03d>", seed%1000, i)), n/6+1))
			}
			it.laddr, it.raddr = cbAddr(rng), cbAddr(rng)
		} else {
			it.tb = pick(rng, codecTypes)
			it.vseed = rng.Int63n(1 << 40)
			if it.vseed%8 == 1 { // oversize values are the business of rt
				it.vseed++
			}
		}
		items[i] = it
	}
	return items
}

func cbDump(m any) string {
	v := reflect.ValueOf(m)
	if m == nil || v.Kind() != reflect.Pointer || v.IsNil() {
		return "nil"
	}
	return codecCanonValue(v.Elem())
}

// one worker: decodes its items in order, retains every result, dumps it at once
func cbWorker(entry string, key []byte, mine []*cbItem) {
	var cur *cbItem
	defer func() {
		if r := recover(); r != nil && cur != nil {
			cur.imm = "PANIC"
		}
	}()
	fail := func(it *cbItem, err error) { it.imm = "err:" + codec_errClass(err) }
	switch entry {
	case "rd", "into", "udp":
		var stream []byte
		for _, it := range mine {
			stream = append(stream, it.frame...)
		}
		r := bytes.NewReader(stream)
		for _, it := range mine {
			cur = it
			var m msg.Message
			var err error
			if entry == "into" {
				m = reflect.New(codecSample[it.tb]).Interface()
				err = msg.ReadMsgInto(r, m)
			} else {
				m, err = msg.ReadMsg(r)
			}
			if err != nil {
				fail(it, err)
				return // the reader's position is undefined after an error: the rest stays undecoded
			}
			it.kept = m
			if entry != "udp" {
				it.imm = cbDump(m)
				continue
			}
			pkt, ok := m.(*msg.UDPPacket)
			if !ok {
				it.imm = "err:type"
				continue
			}
			c, err := udp.GetContent(pkt)
			if err != nil {
				it.imm = "err:b64"
				continue
			}
			it.content = c
			it.imm = cbPktDump(c, pkt.LocalAddr, pkt.RemoteAddr)
		}
	case "nh":
		for _, it := range mine {
			cur = it
			into := reflect.New(codecSample[it.tb]).Interface()
			if err := nathole.DecodeMessageInto(it.frame, key, into); err != nil {
				fail(it, err)
				continue
			}
			it.kept = into
			it.imm = cbDump(into)
		}
	case "disp":
		var stream []byte
		for _, it := range mine {
			stream = append(stream, it.frame...)
		}
		srv, cli := net.Pipe()
		defer srv.Close()
		defer cli.Close()
		rw := &codecDispRW{r: srv, total: len(stream), atEnd: make(chan struct{}), wsig: make(chan struct{}, 1)}
		d := msg.NewDispatcher(rw)
		n := 0
		d.RegisterDefaultHandler(func(m msg.Message) { // runs on the read loop: synchronous, in stream order
			if n < len(mine) {
				mine[n].kept = m
				mine[n].imm = cbDump(m)
			}
			n++
		})
		d.Run()
		go func() { _, _ = cli.Write(stream) }()
		select {
		case <-rw.atEnd: // the loop asked for more after the whole stream: parked in Read
		case <-d.Done():
		case <-codecDispWait():
			codecDispTimeouts++
			// the loop may still be running: nothing of this worker can be read race free
			for _, it := range mine {
				it.kept, it.imm = nil, "err:stuck"
			}
			return
		}
		for _, it := range mine[min(n, len(mine)):] {
			it.imm = "err:undelivered"
		}
	}
}

func codecBatch(tok []string) string {
	entry, mode := tok[1], tok[2]
	var seed int64
	fmt.Sscan(tok[3], &seed)
	k := atoi(tok[4])
	g := 1
	if strings.HasPrefix(mode, "par") {
		g = atoi(mode[3:])
	}
	if k < 1 || k > 64 || g < 1 || g > 16 {
		return "badop"
	}
	switch entry {
	case "rd", "into", "disp", "nh", "udp":
	default:
		return "badop"
	}
	items := cbItems(entry, seed, k)
	key := []byte(fmt.Sprintf("key-%d", seed%7))
	// encode (the real encoder); the value that went in is dumped from a fresh copy.
	// udp: the payloads arrive the way datagrams do — every one is read into the SAME receive buffer, handed to
	// udp.NewUDPPacket as a slice of it and queued; the buffer is reused for the next datagram (and scribbled over
	// after the last) before any queued message is written.  A queued message must hold what was received.
	var queued []any
	if entry == "udp" {
		rbuf := make([]byte, 1<<16)
		for _, it := range items {
			n := copy(rbuf, it.payload)
			it.vdump = cbPktDump(it.payload, it.laddr, it.raddr) // what goes in, dumped before the constructor sees it
			queued = append(queued, udp.NewUDPPacket(rbuf[:n], it.laddr, it.raddr))
		}
		for i := range rbuf {
			rbuf[i] ^= 0x5a
		}
	}
	for i, it := range items {
		var v any
		if entry == "udp" {
			v = queued[i]
		} else {
			v = buildValue(it.tb, it.vseed)
			it.vdump = codecCanonValue(reflect.ValueOf(buildValue(it.tb, it.vseed)).Elem())
		}
		body, jerr := json.Marshal(v)
		for tries := 0; entry != "udp" && jerr == nil && len(body) > 10240 && tries < 50; tries++ {
			// bodies above the bound are the business of rt (they must be refused): draw the value again
			it.vseed += 8
			v = buildValue(it.tb, it.vseed)
			it.vdump = codecCanonValue(reflect.ValueOf(buildValue(it.tb, it.vseed)).Elem())
			body, jerr = json.Marshal(v)
		}
		if jerr != nil {
			return "werr"
		}
		it.body = body
		if entry == "nh" {
			data, err := nathole.EncodeMessage(v, key)
			if err != nil {
				return "werr"
			}
			it.frame = data
		} else {
			var buf bytes.Buffer
			if err := msg.WriteMsg(&buf, v); err != nil {
				return "werr"
			}
			it.frame = append([]byte{}, buf.Bytes()...)
		}
		it.imm, it.late, it.re = "err:undecoded", "-", "-"
	}
	// decode: every result retained
	var wg sync.WaitGroup
	for w := 0; w < g; w++ {
		var mine []*cbItem
		for i := w; i < k; i += g {
			mine = append(mine, items[i])
		}
		if len(mine) == 0 {
			continue
		}
		if g == 1 {
			cbWorker(entry, key, mine)
			continue
		}
		wg.Add(1)
		go func() {
			defer wg.Done()
			cbWorker(entry, key, mine)
		}()
	}
	done := make(chan struct{})
	go func() { wg.Wait(); close(done) }()
	select {
	case <-done:
	case <-time.After(10 * time.Second): // every worker is bounded by itself (≈ 2 s); never reached by a sane build
		return "stuck"
	}
	// after the whole batch: what do the retained values hold now, and what do they encode to
	var out []string
	for _, it := range items {
		func() {
			defer func() {
				if r := recover(); r != nil {
					it.late = "PANIC"
				}
			}()
			if it.kept == nil {
				return
			}
			var again any = it.kept
			if entry == "udp" {
				if it.content == nil && !strings.HasPrefix(it.imm, "p") {
					return
				}
				pkt := it.kept.(*msg.UDPPacket)
				it.late = cbPktDump(it.content, pkt.LocalAddr, pkt.RemoteAddr)
				again = udp.NewUDPPacket(it.content, pkt.LocalAddr, pkt.RemoteAddr)
			} else {
				it.late = cbDump(it.kept)
			}
			var buf bytes.Buffer
			if err := msg.WriteMsg(&buf, again); err != nil {
				it.re = "werr"
			} else {
				it.re = hxb(buf.Bytes())
			}
		}()
		late := it.late
		if late == it.imm {
			late = "="
		}
		obj := "-" // udp: the driver reads the content member off the body text itself
		if len(it.body) <= 10240 && entry != "udp" {
			obj = codecCanonJSONText(it.body)
		}
		out = append(out, fmt.Sprintf("t%d B%s O%s V%s I%s L%s R%s", it.tb, hxb(it.body), obj, it.vdump, it.imm, late, it.re))
	}
	return strings.Join(out, " ")
}

// ---------------------------------------------------------------- generator

func cdGenBatch(rng *rand.Rand) string {
	entry := pick(rng, []string{"rd", "into", "disp", "nh", "udp", "udp", "udp"})
	mode := pick(rng, []string{"seq", "seq", "seq", "par2", "par4", "par8"})
	k := 2 + rng.Intn(7)
	if mode != "seq" {
		k = atoi(mode[3:]) * (1 + rng.Intn(2))
	}
	return fmt.Sprintf("batch %s %s %d %d", entry, mode, rng.Int63n(1<<40), k)
}
