package main

import (
	"context"
	"fmt"
	"net"
	"sort"
	"strings"
	"time"

	"github.com/samber/lo"

	"github.com/fatedier/frp/pkg/config/types"
	v1 "github.com/fatedier/frp/pkg/config/v1"
	"github.com/fatedier/frp/pkg/msg"
	plugin "github.com/fatedier/frp/pkg/plugin/server"
	netpkg "github.com/fatedier/frp/pkg/util/net"
	"github.com/fatedier/frp/pkg/util/util"
	"github.com/fatedier/frp/server"
)

// `sess <user> <script>`: one real server.Service configured with the HTTP plugins registered since the
// last reset, one scripted raw peer that logs in and walks through a whole proxy life cycle of ONE
// session with SEVERAL proxies:
//
//	script = "-" | step,step,…      step = n<hexname>   NewProxy (stcp) with that name
//	                                       c<hexname>   CloseProxy message with that literal name
//	                                       k<i>         CloseProxy message with the name of step i: the
//	                                                    one the server answered (the NewProxy plugins may
//	                                                    rename), the one asked for if it was refused
//	then the control connection is closed (session end: Control.worker stops every proxy left).
//
// result: L=<ok|no>;S=<r,r,…|-> | <wire>     r = ok:<hexname> | no | closed   (n steps), - (c / k steps)
// wire = the requests the plugin server received: Login and NewProxy requests in arrival order (they
// are sequential), then the CloseProxy requests (concurrent goroutines: one per stopped proxy) sorted
// by their rendering.  Before the result is taken the harness waits until the plugin server has seen
// (#stops it knows of) × (#plugins registered for CloseProxy) CloseProxy requests, or 1 s.
func sessRun(user string, script string) string {
	pst.mu.Lock()
	pst.wire = nil
	pst.wireGen++
	pst.mu.Unlock()

	l, err := net.Listen("tcp", "127.0.0.1:0")
	if err != nil {
		return "infra listen"
	}
	port := l.Addr().(*net.TCPAddr).Port
	l.Close()

	cfg := &v1.ServerConfig{}
	cfg.Complete()
	cfg.BindAddr = "127.0.0.1"
	cfg.ProxyBindAddr = "127.0.0.1"
	cfg.BindPort = port
	cfg.Transport.TCPMux = lo.ToPtr(false)
	cfg.UserConnTimeout = 1
	// the scenarios ask for stcp proxies (a plugin may still turn one into a tcp proxy with a port of the server's choice:
	// a small range, away from the ephemeral ports).  Each of the two port managers of a Service otherwise
	// keeps a 65535-entry table that its cleaning goroutine (never stopped) holds on to for the rest of the process:
	// ~3 MB per Service, several GB over a long run
	cfg.AllowPorts = []types.PortsRange{{Start: 13000, End: 13127}}
	cfg.Transport.TLS.CertFile, cfg.Transport.TLS.KeyFile = siteCert()
	cfg.HTTPPlugins = append([]v1.HTTPPluginOptions{}, pst.httpRegs...)
	svr, err := server.NewService(cfg)
	if err != nil {
		return "infra newservice"
	}
	ctx, cancel := context.WithCancel(context.Background())
	go svr.Run(ctx)
	defer func() {
		cancel()
		svr.Close()
	}()
	addr := fmt.Sprintf("127.0.0.1:%d", port)
	var ctl net.Conn
	for i := 0; i < 50 && ctl == nil; i++ {
		c, err := net.DialTimeout("tcp", addr, time.Second)
		if err == nil {
			ctl = c
		} else {
			time.Sleep(5 * time.Millisecond)
		}
	}
	if ctl == nil {
		return "infra dial"
	}
	defer ctl.Close()

	nClose := 0
	for _, o := range pst.httpRegs {
		if lo.Contains(o.Ops, plugin.OpCloseProxy) {
			nClose++
		}
	}
	countClose := func() int {
		pst.mu.Lock()
		defer pst.mu.Unlock()
		n := 0
		for _, w := range pst.wire {
			if w.op == plugin.OpCloseProxy {
				n++
			}
		}
		return n
	}

	L := "no"
	results := []string{}
	finish := func() string {
		pst.mu.Lock()
		wire := append([]plugWire{}, pst.wire...)
		pst.mu.Unlock()
		head, closes := []string{}, []string{}
		for _, w := range wire {
			b := w.b
			if w.op == plugin.OpLogin || w.op == plugin.OpNewUserConn {
				b = ""
			}
			s := fmt.Sprintf("%s:%d:%s:%s%s", w.op, w.id, hx(w.a), hx(b), lo.Ternary(w.r0, ":R0", ""))
			if w.op == plugin.OpCloseProxy {
				closes = append(closes, s)
			} else {
				head = append(head, s)
			}
		}
		sort.Strings(closes)
		parts := append(head, closes...)
		ws := "-"
		if len(parts) > 0 {
			ws = strings.Join(parts, ",")
		}
		rs := "-"
		if len(results) > 0 {
			rs = strings.Join(results, ",")
		}
		return fmt.Sprintf("L=%s;S=%s | %s", L, rs, ws)
	}

	// ---- Login
	ts := time.Now().Unix()
	_ = ctl.SetDeadline(time.Now().Add(10 * time.Second))
	if err := msg.WriteMsg(ctl, &msg.Login{Version: "0.61.0", User: user, RunID: "r1", Timestamp: ts, PrivilegeKey: util.GetAuthKey("", ts)}); err != nil {
		return "infra login-write"
	}
	var lr msg.LoginResp
	if err := msg.ReadMsgInto(ctl, &lr); err != nil {
		return "infra login-read " + hx(err.Error())
	}
	if lr.Error != "" {
		return finish()
	}
	L = "ok"
	_ = ctl.SetDeadline(time.Time{})
	crw, err := netpkg.NewCryptoReadWriter(ctl, []byte(""))
	if err != nil {
		return "infra crypto"
	}
	in := make(chan msg.Message, 64)
	go func() {
		defer close(in)
		for {
			m, err := msg.ReadMsg(crw)
			if err != nil {
				return
			}
			in <- m
		}
	}()
	next := func() msg.Message {
		for {
			select {
			case m, ok := <-in:
				if !ok {
					return nil
				}
				if _, isReq := m.(*msg.ReqWorkConn); isReq {
					continue
				}
				return m
			case <-time.After(5 * time.Second):
				return nil
			}
		}
	}

	// ---- the script
	live := map[string]bool{} // what the harness believes is registered (only used to know how long to wait)
	stops := 0
	refs := []string{}
	closeName := func(name string) {
		_ = msg.WriteMsg(crw, &msg.CloseProxy{ProxyName: name})
		if live[name] {
			delete(live, name)
			stops++
		}
		results = append(results, "-")
		refs = append(refs, name)
	}
	dropped := false
	if script != "-" {
		for _, st := range strings.Split(script, ",") {
			if st == "" {
				continue
			}
			switch st[0] {
			case 'n':
				pname := unhx(st[1:])
				_ = msg.WriteMsg(crw, &msg.NewProxy{ProxyName: pname, ProxyType: "stcp", Sk: "k"})
				if r, ok := next().(*msg.NewProxyResp); ok {
					if r.Error == "" {
						results = append(results, "ok:"+hx(r.ProxyName))
						refs = append(refs, r.ProxyName)
						live[r.ProxyName] = true
					} else {
						results = append(results, "no")
						refs = append(refs, pname) // a later k<i> refers to the name that was asked for
					}
				} else {
					results = append(results, "closed")
					dropped = true
				}
			case 'c':
				closeName(unhx(st[1:]))
			case 'k':
				i := atoi(st[1:])
				name := ""
				if i >= 0 && i < len(refs) {
					name = refs[i]
				}
				closeName(name)
			}
			if dropped {
				break
			}
		}
	}
	// session end.  A trailing CloseProxy message may or may not be handled before the server notices
	// the end of the connection: either way that proxy stops exactly once (Control.CloseProxy or
	// Control.worker) and the CloseProxy requests are compared as a multiset.
	ctl.Close()
	stops += len(live)
	want := stops * nClose
	for i := 0; i < 500 && countClose() < want; i++ {
		time.Sleep(2 * time.Millisecond)
	}
	if nClose > 0 {
		time.Sleep(3 * time.Millisecond) // give a surplus notification (one too many) the chance to show up
	}
	return finish()
}
