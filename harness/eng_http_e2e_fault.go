package main

// Engine "httpe2e": FAULTS IN THE MIDDLE OF AN EXCHANGE (op hf) and rounds of LONG-LIVED exchanges (op hl) through a
// real frps + frpc pair — the plain path and every client plugin of the property.
//
//	hf cfg=<mux><tls><pool> key=<kind>/<enc>/<comp>/<lim> m=<GET|POST|PUT> up=<-|cl:tok|ch:tok> dn=<cl|ch|eof>:<tok> st=<code> fault=<d|q|w|u><k>
//	      d<k>  the BACKEND dies after the header block and k bytes of its answer body (no terminating chunk / short of Content-Length)
//	      w<k>  the backend stops after k bytes and the WORK CONNECTION between frpc and frps is killed (cfg without tcpMux:
//	            frpc reaches frps through a relay of the harness; everything but the control connection is closed)
//	      q<k>  the BACKEND dies after k wire bytes of the request body, without answering
//	      u<k>  the USER dies after the header block and k bytes of its request body
//	  => be=<key|->;up=<bytes the backend got>;uw=<1|0 request complete>;upre=<1|0>;st=<code|0>;tag=<X-Be|->;dfr=<cl|ch|eof|no>;
//	     n=<bytes the user got>;pre=<1|0>;end=<ok|cut|timeout|->
//	      end = ok: the answer's framing ended properly at the user | cut: the connection ended first | -: the user had left (u)
//
//	hl cfg=… key=<kind>/<enc>/<comp>/<lim> n=<users> s=<ch|eof|poll> dn=<tok> pm=<GET|POST> pdn=<cl|ch>:<tok>
//	      n users, each on its own connection, open an exchange that the backend HOLDS open: ch / eof = a streamed answer
//	      (header block + first half of the body at once, the rest when released), poll = a long poll (nothing before the
//	      release).  When all n are open (event driven, bounded) one more user sends a short request (pm, answer pdn)
//	      through the same proxy; then the held exchanges are released and read to their end.
//	  => open=<exchanges that reached the backend and — streams — whose first half reached the user>;probe=<ok|timeout|cut|bad|skip>;
//	     fin=<held exchanges that ended completely with the right body>;bad=<held exchanges with a wrong / foreign answer>
//
// Oracles (Lean): C02.abortHolds on the final reader's view (Frp/Model/HttpAbort.lean: the chain of relaying hops of the
// proxy kind), C02.longHolds (Frp/Model/ConnLimit.lean: no Transport on the path caps its connections).  Every wait is
// bounded: 3 s deadlines on user connections, 1.5 s for "all open" and for the probe (a round whose only symptom is a
// timeout is judged by ONE more execution with twice the patience; an execution in which not all exchanges opened
// skips its probe).
import (
	"bufio"
	"bytes"
	"fmt"
	"io"
	"math/rand"
	"net"
	"net/http"
	"os"
	"strconv"
	"strings"
	"sync"
	"sync/atomic"
	"time"
)

// ---- relay between frpc and frps (pairs without tcpMux) ----

type he2eRelay struct {
	ln    net.Listener
	to    string
	mu    sync.Mutex
	conns []*he2eRelayConn
}

type he2eRelayConn struct {
	a, b net.Conn
	dead bool
	down atomic.Int64 // bytes frps -> frpc
}

type he2eCountW struct {
	w io.Writer
	n *atomic.Int64
}

func (c he2eCountW) Write(p []byte) (int, error) {
	c.n.Add(int64(len(p)))
	return c.w.Write(p)
}

func he2eNewRelay(port int) *he2eRelay {
	ln, err := net.Listen("tcp", "127.0.0.1:0")
	if err != nil {
		panic(err)
	}
	r := &he2eRelay{ln: ln, to: net.JoinHostPort("127.0.0.1", strconv.Itoa(port))}
	go func() {
		for {
			a, err := ln.Accept()
			if err != nil {
				return
			}
			b, err := net.DialTimeout("tcp", r.to, 2*time.Second)
			if err != nil {
				a.Close()
				continue
			}
			rc := &he2eRelayConn{a: a, b: b}
			r.mu.Lock()
			r.conns = append(r.conns, rc)
			r.mu.Unlock()
			closeBoth := func() {
				r.mu.Lock()
				rc.dead = true
				r.mu.Unlock()
				a.Close()
				b.Close()
			}
			go func() { _, _ = io.Copy(b, a); closeBoth() }()
			go func() { _, _ = io.Copy(he2eCountW{a, &rc.down}, b); closeBoth() }()
		}
	}()
	return r
}

func (r *he2eRelay) port() int { return r.ln.Addr().(*net.TCPAddr).Port }

// closes every work connection that is IN USE: not the oldest live connection (the control connection: frpc logs in
// first and opens work connections only on request), and not the spare ones frps keeps in its pool — frps has not
// written anything on those yet (its first bytes on a work connection are the StartWorkConn message); a dead spare
// would be handed to the NEXT request, which is not the fault under test
func (r *he2eRelay) killWork() int {
	r.mu.Lock()
	var live []*he2eRelayConn
	for _, c := range r.conns {
		if !c.dead {
			live = append(live, c)
		}
	}
	r.conns = live
	r.mu.Unlock()
	n := 0
	for i, c := range live {
		if i > 0 && c.down.Load() > 0 {
			c.a.Close()
			c.b.Close()
			n++
		}
	}
	return n
}

// ---- the backend's half ----

func he2eFaultSpec(op string) *he2eSpec {
	he2eMu.Lock()
	defer he2eMu.Unlock()
	if he2eCur != nil && he2eCur.id == op && he2eCur.fault != 0 {
		return he2eCur
	}
	return nil
}

func he2eFramed(kind string, b []byte) []byte {
	if kind != "ch" || len(b) == 0 {
		return b
	}
	return append(append([]byte(fmt.Sprintf("%x\r\n", len(b))), b...), '\r', '\n')
}

func he2eWaitRelease(spec *he2eSpec, d time.Duration) {
	t := time.NewTimer(d)
	defer t.Stop()
	select {
	case <-spec.release:
	case <-t.C:
	}
}

// answers of fault ops (d, w) and of long-lived exchanges
func he2eServeSpecial(c net.Conn, key string, seen *he2eSeen, spec *he2eSpec) {
	var h bytes.Buffer
	fmt.Fprintf(&h, "HTTP/1.1 %d %s\r\nX-Be: %s\r\nX-Echo: %s\r\nContent-Type: application/octet-stream\r\n", spec.status, http.StatusText(spec.status), key, seen.op)
	kind := spec.kind
	switch kind {
	case "cl":
		fmt.Fprintf(&h, "Content-Length: %d\r\nConnection: close\r\n\r\n", len(spec.body))
	case "ch":
		h.WriteString("Transfer-Encoding: chunked\r\nConnection: close\r\n\r\n")
	default:
		h.WriteString("Connection: close\r\n\r\n")
	}
	if spec.stream != "" {
		first := spec.body[:len(spec.body)/2]
		if spec.stream == "poll" {
			he2eWaitRelease(spec, 20*time.Second) // (safety net only: every op closes `release` when it is over)
			first = nil
		} else {
			if _, err := c.Write(append(h.Bytes(), he2eFramed(kind, first)...)); err != nil {
				return
			}
			h.Reset()
			he2eWaitRelease(spec, 20*time.Second) // (safety net only: every op closes `release` when it is over)
		}
		rest := he2eFramed(kind, spec.body[len(first):])
		if kind == "ch" {
			rest = append(rest, "0\r\n\r\n"...)
		}
		_, _ = c.Write(append(h.Bytes(), rest...))
		return
	}
	k := spec.faultAt
	if k > len(spec.body) {
		k = len(spec.body)
	}
	// the part of the body in two pieces (chunked: two chunks), then the end never comes
	out := append(h.Bytes(), he2eFramed(kind, spec.body[:k/2])...)
	out = append(out, he2eFramed(kind, spec.body[k/2:k])...)
	_, _ = c.Write(out)
	if spec.fault == 'w' {
		// (frps' Transport may send an idempotent request once more when its work connection died before any byte of
		//  the answer arrived: the second time this backend simply dies after the k bytes)
		first := false
		spec.wroteOnce.Do(func() { first = true; close(spec.wrote) })
		if first {
			he2eWaitRelease(spec, 3*time.Second)
		}
	}
}

// ---- op hf ----

func he2eFrOf(resp *http.Response) string {
	switch {
	case len(resp.TransferEncoding) > 0:
		return "ch"
	case resp.ContentLength >= 0:
		return "cl"
	case resp.Close:
		return "eof"
	}
	return "no"
}

func he2eHf(kv map[string]string) string {
	p := he2eGetPair(kv["cfg"])
	px := p.proxies[kv["key"]]
	if px == nil {
		return "noproxy"
	}
	p.dropUser()
	he2eOpSeq++
	id := fmt.Sprintf("%d.f", he2eOpSeq)
	ukind, ubody := he2eBodySpec(kv["up"])
	spec := &he2eSpec{id: id, status: atoi(kv["st"]), keep: false, seed: int64(he2eOpSeq), wrote: make(chan struct{}), release: make(chan struct{})}
	spec.kind, spec.body = he2eBodySpec(kv["dn"])
	spec.fault, spec.faultAt = kv["fault"][0], atoi(kv["fault"][1:])
	if spec.fault == 'w' && p.relay == nil {
		return "norelay"
	}
	he2eMu.Lock()
	he2eCur, he2eRnd = spec, nil
	he2eMu.Unlock()
	he2eDrainSeen()
	defer close(spec.release)
	// (as after a concurrent round: frps' Transport gets a moment to notice work connections that a plugin's server or a
	//  fault has closed, before the next op could be handed one of them)
	defer time.Sleep(20 * time.Millisecond)
	c, err := p.dialUser(px, 3*time.Second)
	if err != nil {
		return "err=connect"
	}
	defer c.Close()
	_ = c.SetDeadline(time.Now().Add(3 * time.Second))
	var h bytes.Buffer
	fmt.Fprintf(&h, "%s %s HTTP/1.1\r\nHost: %s\r\nX-Op: %s\r\nUser-Agent: he2e\r\n", kv["m"], "/fault?op="+id, px.domain, id)
	sendN := len(ubody)
	if spec.fault == 'u' && spec.faultAt < sendN {
		sendN = spec.faultAt
	}
	switch ukind {
	case "cl":
		fmt.Fprintf(&h, "Content-Length: %d\r\n\r\n", len(ubody))
		h.Write(ubody[:sendN])
	case "ch":
		h.WriteString("Transfer-Encoding: chunked\r\n\r\n")
		h.Write(he2eFramed("ch", ubody[:sendN/2]))
		h.Write(he2eFramed("ch", ubody[sendN/2:sendN]))
		if spec.fault != 'u' {
			h.WriteString("0\r\n\r\n")
		}
	default:
		h.WriteString("\r\n")
	}
	seenNote := func(s *he2eSeen) string {
		if s == nil {
			return "be=-;up=0;uw=0;upre=1"
		}
		return fmt.Sprintf("be=%s;up=%d;uw=%d;upre=%d", s.key, len(s.body), btoi(s.whole), btoi(bytes.HasPrefix(ubody, s.body)))
	}
	if spec.fault == 'u' {
		_, _ = c.Write(h.Bytes())
		time.Sleep(5 * time.Millisecond)
		c.Close()
		// (a user that left before anything was forwarded leaves no record: short bounded wait)
		return seenNote(he2eTakeSeen(id, 400*time.Millisecond)) + ";st=0;tag=-;dfr=no;n=0;pre=1;end=-"
	}
	go func() { _, _ = c.Write(h.Bytes()) }()
	gotHeader := make(chan struct{})
	if spec.fault == 'w' {
		go func() {
			t := time.NewTimer(2 * time.Second)
			defer t.Stop()
			select {
			case <-spec.wrote:
			case <-t.C:
				return
			}
			t2 := time.NewTimer(500 * time.Millisecond)
			defer t2.Stop()
			select { // the part that was written should be under way to the user before the connection dies
			case <-gotHeader:
				time.Sleep(10 * time.Millisecond)
			case <-t2.C:
			}
			p.relay.killWork()
		}()
	}
	br := bufio.NewReaderSize(c, 64*1024)
	resp, err := http.ReadResponse(br, &http.Request{Method: kv["m"]})
	close(gotHeader)
	stc, tag, fr, end := 0, "-", "no", "cut"
	var rb []byte
	if err != nil {
		if he2eIsTimeout(err) {
			end = "timeout"
		}
	} else {
		stc, fr = resp.StatusCode, he2eFrOf(resp)
		if v := resp.Header.Get("X-Be"); v != "" {
			tag = v
		}
		var rerr error
		rb, rerr = io.ReadAll(resp.Body)
		resp.Body.Close()
		switch {
		case rerr == nil:
			end = "ok"
		case he2eIsTimeout(rerr):
			end = "timeout"
		}
	}
	s := he2eTakeSeen(id, 0)
	if s == nil {
		s = he2eTakeSeen(id, 300*time.Millisecond)
	}
	return fmt.Sprintf("%s;st=%d;tag=%s;dfr=%s;n=%d;pre=%d;end=%s", seenNote(s), stc, tag, fr, len(rb), btoi(bytes.HasPrefix(spec.body, rb)), end)
}

// ---- op hl ----

type he2eLongRes struct {
	open, fin, bad int
	probe          string
}

func he2eLongOnce(p *he2ePair, px *he2eProxy, kv map[string]string, attempt int) he2eLongRes {
	he2eOpSeq++
	n, stream := atoi(kv["n"]), kv["s"]
	patience := time.Duration(1500*(attempt+1)) * time.Millisecond
	release := make(chan struct{})
	rnd := &he2eRound{specs: map[string]*he2eSpec{}, held: map[string]bool{}, seen: map[string][]*he2eSeen{}, gate: make(chan struct{}), wait: 0}
	close(rnd.gate)
	body := he2eTokBody(kv["dn"])
	ids := make([]string, n)
	for i := range ids {
		ids[i] = fmt.Sprintf("%d.%d.l%d", he2eOpSeq, attempt, i)
		kind := stream
		if stream == "poll" {
			kind = "cl"
		}
		rnd.specs[ids[i]] = &he2eSpec{id: ids[i], status: 200, kind: kind, body: body, stream: stream, release: release}
	}
	pkind, pbody := he2eBodySpec(kv["pdn"])
	pid := fmt.Sprintf("%d.%d.probe", he2eOpSeq, attempt)
	rnd.specs[pid] = &he2eSpec{id: pid, status: 200, kind: pkind, body: pbody, keep: false}
	he2eMu.Lock()
	he2eRnd, he2eCur = rnd, nil
	he2eMu.Unlock()

	type held struct {
		opened bool // streams: the first half reached the user
		fin    bool
		bad    bool
	}
	hs := make([]held, n)
	openedCh := make(chan int, n)
	var wg sync.WaitGroup
	conns := make([]net.Conn, n)
	var cmu sync.Mutex
	for i := 0; i < n; i++ {
		wg.Add(1)
		go func(i int) {
			defer wg.Done()
			c, err := p.dialUser(px, patience)
			if err != nil {
				return
			}
			cmu.Lock()
			conns[i] = c
			cmu.Unlock()
			_ = c.SetDeadline(time.Now().Add(3*patience + 2*time.Second))
			fmt.Fprintf(c, "GET /stream?u=%d HTTP/1.1\r\nHost: %s\r\nX-Op: %s\r\nUser-Agent: he2e\r\nAccept: text/event-stream\r\n\r\n", i, px.domain, ids[i])
			br := bufio.NewReaderSize(c, 64*1024)
			resp, err := http.ReadResponse(br, &http.Request{Method: "GET"})
			if err != nil {
				return
			}
			own := resp.StatusCode == 200 && resp.Header.Get("X-Be") == px.key && resp.Header.Get("X-Echo") == ids[i]
			got := make([]byte, 0, len(body))
			if stream != "poll" {
				first := make([]byte, len(body)/2)
				k, err := io.ReadFull(resp.Body, first)
				got = append(got, first[:k]...)
				if err != nil {
					hs[i].bad = !own
					return
				}
				hs[i].opened = true
				openedCh <- i
			}
			rest, rerr := io.ReadAll(resp.Body)
			got = append(got, rest...)
			resp.Body.Close()
			hs[i].fin = rerr == nil && own && bytes.Equal(got, body)
			hs[i].bad = !own || !bytes.HasPrefix(body, got)
		}(i)
	}
	// all open?  streams: the users report; long polls: the backends' records
	deadline := time.Now().Add(patience)
	opened := 0
	if stream != "poll" {
		t := time.NewTimer(patience)
		for opened < n {
			select {
			case <-openedCh:
				opened++
				continue
			case <-t.C:
			}
			break
		}
		t.Stop()
	} else {
		for {
			opened = 0
			for _, id := range ids {
				if rnd.record(id) != nil {
					opened++
				}
			}
			if opened == n || time.Now().After(deadline) {
				break
			}
			time.Sleep(5 * time.Millisecond)
		}
	}
	// the further short request, while everything is held open
	res := he2eLongRes{open: opened, probe: "ok"}
	if opened < n {
		res.probe = "skip" // this execution has failed already: no further wait
	}
	var probeConn net.Conn
	for opened == n {
		c, err := p.dialUser(px, patience)
		if err != nil {
			res.probe = "timeout"
			break
		}
		probeConn = c
		_ = c.SetDeadline(time.Now().Add(patience))
		ub := []byte(nil)
		var h bytes.Buffer
		fmt.Fprintf(&h, "%s /probe HTTP/1.1\r\nHost: %s\r\nX-Op: %s\r\nUser-Agent: he2e\r\n", kv["pm"], px.domain, pid)
		if kv["pm"] != "GET" {
			ub = he2eBytes("r", he2eOpSeq, 700)
			fmt.Fprintf(&h, "Content-Length: %d\r\n", len(ub))
		}
		h.WriteString("\r\n")
		h.Write(ub)
		if _, err := c.Write(h.Bytes()); err != nil {
			res.probe = "cut"
			break
		}
		resp, err := http.ReadResponse(bufio.NewReader(c), &http.Request{Method: kv["pm"]})
		if err != nil {
			res.probe = "cut"
			if he2eIsTimeout(err) {
				res.probe = "timeout"
			}
			break
		}
		rb, rerr := io.ReadAll(resp.Body)
		resp.Body.Close()
		switch {
		case rerr != nil && he2eIsTimeout(rerr):
			res.probe = "timeout"
		case rerr != nil:
			res.probe = "cut"
		case resp.StatusCode != 200 || resp.Header.Get("X-Be") != px.key || resp.Header.Get("X-Echo") != pid || !bytes.Equal(rb, pbody):
			res.probe = "bad"
		default:
			if s := rnd.record(pid); s == nil || s.key != px.key || !bytes.Equal(s.body, ub) {
				res.probe = "bad"
			}
		}
		break
	}
	if probeConn != nil {
		probeConn.Close()
	}
	close(release)
	done := make(chan struct{})
	go func() { wg.Wait(); close(done) }()
	t := time.NewTimer(patience + time.Second)
	select {
	case <-done:
	case <-t.C: // somebody still waits for an answer that never comes: hang up on them
	}
	t.Stop()
	cmu.Lock()
	for _, c := range conns {
		if c != nil {
			c.Close()
		}
	}
	cmu.Unlock()
	<-done
	time.Sleep(20 * time.Millisecond)
	he2eMu.Lock()
	he2eRnd = nil
	he2eMu.Unlock()
	for i := range hs {
		if hs[i].fin {
			res.fin++
		}
		if hs[i].bad {
			res.bad++
		}
	}
	return res
}

func he2eTokBody(tok string) []byte {
	f := strings.Split(tok, ".")
	return he2eBytes(f[0], atoi(f[1]), atoi(f[2]))
}

func he2eHl(kv map[string]string) string {
	p := he2eGetPair(kv["cfg"])
	px := p.proxies[kv["key"]]
	if px == nil {
		return "noproxy"
	}
	p.dropUser()
	r := he2eLongOnce(p, px, kv, 0)
	if r.bad == 0 && (r.probe == "timeout" || r.open < atoi(kv["n"])) {
		// only timeouts (loaded machine?): once more, with twice the patience — a systematic fault shows again
		if os.Getenv("C02_DEBUG") != "" {
			fmt.Fprintf(os.Stderr, "httpe2e long-lived round retried: %+v %v\n", r, kv)
		}
		r = he2eLongOnce(p, px, kv, 1)
	}
	return fmt.Sprintf("open=%d;probe=%s;fin=%d;bad=%d", r.open, r.probe, r.fin, r.bad)
}

// ---- generators (RNG of their own: the op stream of the main generator stays what it was) ----

func he2eGenKey(r *rand.Rand, kind string) string {
	lim := "none"
	if kind == "plain" && r.Intn(4) == 0 {
		lim = pick(r, []string{"srvL", "cliL"})
	}
	return fmt.Sprintf("%s/%d/%d/%s", kind, r.Intn(2), r.Intn(2), lim)
}

// one fault op: kind x fault x framing x where
func he2eGenFault(r *rand.Rand, kind string, fault byte, emit func(string)) {
	size := func() int {
		switch x := r.Intn(10); {
		case x < 4:
			return 1 + r.Intn(300)
		case x < 8:
			return 2000 + r.Intn(9000)
		default:
			return 40000 + r.Intn(90000)
		}
	}
	at := func(n int, all bool) int {
		switch x := r.Intn(6); {
		case x == 0:
			return 0
		case x == 1:
			return 1
		case x == 2 && n > 1:
			return n - 1
		case x == 3 && all:
			return n
		default:
			return r.Intn(n)
		}
	}
	cfg := pick(r, []string{"111", "111", "000"})
	if fault == 'w' {
		cfg = "000"
	}
	m, up := "GET", "-"
	dk := pick(r, []string{"cl", "ch", "ch", "eof"})
	dn, k := 10, 0
	switch fault {
	case 'd', 'w':
		dn = size()
		k = at(dn, dk != "cl")
		if r.Intn(3) == 0 {
			m, up = pick(r, []string{"POST", "PUT"}), pick(r, []string{"cl", "ch"})+":"+he2eTok("r", r.Intn(100000), 1+r.Intn(3000))
		}
	default:
		uk, un := pick(r, []string{"cl", "ch"}), size()
		m, up = pick(r, []string{"POST", "PUT"}), uk+":"+he2eTok("r", r.Intn(100000), un)
		k = at(un, fault == 'u' && uk == "ch")
		dk = "cl"
	}
	emit(fmt.Sprintf("hf cfg=%s key=%s m=%s up=%s dn=%s:%s st=%d fault=%c%d", cfg, he2eGenKey(r, kind), m, up, dk,
		he2eTok(pick(r, []string{"r", "r", "m"}), r.Intn(100000), dn), pick(r, []int{200, 200, 201, 500}), fault, k))
}

func he2eGenLong(r *rand.Rand, kind string, n int, stream string, emit func(string)) {
	emit(fmt.Sprintf("hl cfg=%s key=%s n=%d s=%s dn=%s pm=%s pdn=%s:%s", pick(r, []string{"111", "111", "000"}), he2eGenKey(r, kind), n, stream,
		he2eTok("r", r.Intn(100000), 2+r.Intn(6000)), pick(r, []string{"GET", "POST"}), pick(r, []string{"cl", "ch"}), he2eTok("r", r.Intn(100000), 1+r.Intn(3000))))
}
