package main

import (
	"context"
	"fmt"
	"math/rand"
	"net"
	"net/http"
	"strconv"
	"strings"
	"sync"
	"time"

	"github.com/fatedier/frp/client/health"
	v1 "github.com/fatedier/frp/pkg/config/v1"
)

// Engine "health": the real health.Monitor (NewMonitor, Start, checkWorker, doHTTPCheck,
// doTCPCheck) against a scripted backend.  Interval/timeout are shortened through the verif
// setter (the configuration only has whole seconds).
//
//	hcfg <interval> <timeout> <maxFailed>      => <interval ms> <timeout ms> <maxFailedTimes>   (NewMonitor normalisation)
//	hprobe <maxFailed> <fsf> <o1,o2,…>         => one char per probe: N (statusNormalFn fired) F (statusFailedFn) . (none)
//	     outcomes: an HTTP status code | R (connection reset) | T (no answer before the deadline)
//	     fsf = 1 iff the outcome list contains failure … success … failure (the shape on which the
//	     never-reset counter matters); checked again by the Lean side
//	htcp <maxFailed>                           => real TCP listener: open, closed, open again ⇒ callbacks seen (NFN)
type healthSession struct {
	mu       sync.Mutex
	script   []string
	served   int
	cbs      []string // index = probe number (1-based served count at callback time)
	done     chan struct{}
	doneOnce sync.Once
}

var (
	hsrvOnce sync.Once
	hsrvAddr string
	hsess    sync.Map // id -> *healthSession
	hnext    int
)

func healthServer() string {
	hsrvOnce.Do(func() {
		ln, err := net.Listen("tcp", "127.0.0.1:0")
		if err != nil {
			panic(err)
		}
		hsrvAddr = ln.Addr().String()
		srv := &http.Server{Handler: http.HandlerFunc(func(w http.ResponseWriter, r *http.Request) {
			id := strings.TrimPrefix(r.URL.Path, "/h/")
			v, ok := hsess.Load(id)
			if !ok {
				w.WriteHeader(500)
				return
			}
			s := v.(*healthSession)
			s.mu.Lock()
			k := s.served
			if k >= len(s.script) {
				s.mu.Unlock()
				s.doneOnce.Do(func() { close(s.done) })
				<-r.Context().Done() // hold the extra probe until the monitor is stopped
				return
			}
			s.served++
			o := s.script[k]
			s.mu.Unlock()
			switch o {
			case "R":
				if hj, ok := w.(http.Hijacker); ok {
					c, _, _ := hj.Hijack()
					c.Close()
				}
			case "T":
				select {
				case <-r.Context().Done():
				case <-time.After(10 * time.Second):
				}
			default:
				w.WriteHeader(atoi(o))
			}
		})}
		srv.SetKeepAlivesEnabled(false) // a reset on a reused connection would be retried by net/http
		go srv.Serve(ln)
	})
	return hsrvAddr
}

func healthExec(tok []string) string {
	switch tok[0] {
	case "reset":
		return "-"
	case "hcfg":
		m := health.NewMonitor(context.Background(), v1.HealthCheckConfig{Type: "tcp",
			IntervalSeconds: atoi(tok[1]), TimeoutSeconds: atoi(tok[2]), MaxFailed: atoi(tok[3])}, "", nil, nil)
		i, t, mx := m.VerifParams()
		m.Stop()
		return fmt.Sprintf("%d %d %d", i.Milliseconds(), t.Milliseconds(), mx)
	case "hprobe":
		addr := healthServer()
		hnext++
		id := strconv.Itoa(hnext)
		s := &healthSession{script: strings.Split(tok[3], ","), done: make(chan struct{})}
		hasT := strings.Contains(tok[3], "T")
		hsess.Store(id, s)
		defer hsess.Delete(id)
		cb := func(kind string) func() {
			return func() {
				s.mu.Lock()
				defer s.mu.Unlock()
				for len(s.cbs) < s.served {
					s.cbs = append(s.cbs, ".")
				}
				if s.served == 0 {
					s.cbs = append(s.cbs, "?"+kind) // callback without a probe
					return
				}
				if s.cbs[s.served-1] != "." {
					s.cbs[s.served-1] += kind // two callbacks for one probe
				} else {
					s.cbs[s.served-1] = kind
				}
			}
		}
		m := health.NewMonitor(context.Background(), v1.HealthCheckConfig{Type: "http", Path: "/h/" + id,
			IntervalSeconds: 1, TimeoutSeconds: 1, MaxFailed: atoi(tok[1])}, addr, cb("N"), cb("F"))
		timeout := 20 * time.Second
		if hasT {
			timeout = 300 * time.Millisecond
		}
		m.VerifSetTiming(time.Millisecond, timeout)
		m.Start()
		res := ""
		select {
		case <-s.done:
		case <-time.After(30 * time.Second):
			res = "!STUCK"
		}
		m.Stop()
		s.mu.Lock()
		defer s.mu.Unlock()
		for len(s.cbs) < len(s.script) {
			s.cbs = append(s.cbs, ".")
		}
		return strings.Join(s.cbs, "") + res
	case "htcp":
		ln, err := net.Listen("tcp", "127.0.0.1:0")
		if err != nil {
			return "listen-failed"
		}
		addr := ln.Addr().String()
		accept := func(l net.Listener) {
			for {
				c, err := l.Accept()
				if err != nil {
					return
				}
				c.Close()
			}
		}
		go accept(ln)
		ch := make(chan string, 64)
		m := health.NewMonitor(context.Background(), v1.HealthCheckConfig{Type: "tcp", IntervalSeconds: 1,
			TimeoutSeconds: 1, MaxFailed: atoi(tok[1])}, addr, func() { ch <- "N" }, func() { ch <- "F" })
		m.VerifSetTiming(time.Millisecond, 2*time.Second)
		m.Start()
		defer m.Stop()
		next := func() string {
			select {
			case x := <-ch:
				return x
			case <-time.After(5 * time.Second):
				return "-"
			}
		}
		out := next()
		ln.Close()
		out += next()
		ln2, err := net.Listen("tcp", addr)
		if err != nil {
			return out + "relisten-failed"
		}
		go accept(ln2)
		out += next()
		ln2.Close()
		return out
	}
	return "badop"
}

func fsfFlag(os []string) int {
	ok := func(o string) bool { return len(o) == 3 && o[0] == '2' }
	st := 0 // 0: nothing, 1: seen F, 2: seen F then S
	for _, o := range os {
		switch {
		case !ok(o) && st == 0:
			st = 1
		case ok(o) && st == 1:
			st = 2
		case !ok(o) && st == 2:
			return 1
		}
	}
	return 0
}

func healthGen(rng *rand.Rand, n int, emit func(string)) {
	emit("reset")
	for _, c := range [][3]int{{0, 0, 0}, {-1, -5, -2}, {1, 1, 1}, {10, 3, 3}, {7, 2, 5}} {
		emit(fmt.Sprintf("hcfg %d %d %d", c[0], c[1], c[2]))
	}
	succ := []string{"200", "200", "200", "204", "299", "201"}
	fail := []string{"404", "500", "500", "302", "300", "304", "400", "503", "R"}
	probes, tCount := 0, 0
	emitH := func(max int, os []string) {
		emit(fmt.Sprintf("hprobe %d %d %s", max, fsfFlag(os), strings.Join(os, ",")))
		probes += len(os)
	}
	// the documented shapes first
	emitH(3, []string{"200", "500", "200", "500", "200", "500"})
	emitH(3, []string{"200", "500", "500", "500", "200", "500"})
	emitH(2, []string{"500", "200", "404"})
	emitH(1, []string{"200", "T", "200"})
	for probes < n {
		max := pick(rng, []int{-1, 0, 1, 1, 2, 2, 3, 3, 4, 5})
		l := 1 + rng.Intn(14)
		var os []string
		pS := pick(rng, []int{20, 50, 50, 70, 85})
		// structured: runs of failures around the threshold, separated by successes
		for len(os) < l {
			if rng.Intn(100) < pS {
				os = append(os, pick(rng, succ))
			} else {
				run := 1
				if rng.Intn(2) == 0 {
					m := max
					if m < 1 {
						m = 1
					}
					run = m + rng.Intn(3) - 1
				}
				for ; run > 0 && len(os) < l; run-- {
					if tCount < 10 && rng.Intn(40) == 0 {
						os = append(os, "T")
						tCount++
					} else {
						os = append(os, pick(rng, fail))
					}
				}
			}
		}
		emitH(max, os)
	}
	emit("htcp 1")
	emit("htcp 2")
}

func init() {
	register(&Engine{Name: "health", Gen: healthGen, Exec: healthExec})
}
