// Engine "crash" (C16), third part: WEDGES.  A wedge does not kill the child; it shows as an answer that never comes.
// Every op here asks the real frps / frpc for something that the property says must be answered and bounds the wait
// (2 s, event-driven); what is not answered in time is reported as `fail:<what>` (observation `wedge`).
//
//	relogin <cid> <gate> <k> <order> <nproxy>   session A logs in (nproxy proxies), its teardown is parked at the
//	        verifhook gate (worker.dispDone | drained | beforeDone, ctl.beforeDel; `live`: A is not dropped at all — the
//	        next login's Replaced ends it); k further logins WITH A's RUN ID arrive one after the other, each parked in
//	        RegisterControl at ctl.beforeWait (after ControlManager.Add, before oldCtl.WaitClosed()); then A and the parked
//	        logins are released in the order given (digits, 0 = A); every login must be answered (LoginResp or the
//	        connection closed) and the LAST one, which nobody superseded, must get its LoginResp; a fresh login with the
//	        run id must be served; after the peers hang up the run id must leave the table          => done | fail:relogin-…
//	gleave <cid> <tcp|tcpmux|http> <variant>    load-balancing group: L is the only member; J's join is parked at
//	        <kind>group.…lookedup (controller lock held, group looked up, group lock not yet taken); L leaves (CloseProxy
//	        or connection drop by variant) — the LAST leave races the join; J is released; both must be answered, both
//	        sessions must still answer a Ping, the group must be usable afterwards                  => done | fail:gleave-…
//	nstorm <seed> <nconn> <nmsg>                an xtcp proxy is registered; nconn sessions at once send correctly SIGNED
//	        non-pre-check NatHoleVisitor for it (each one inserts a session into the controller's table) mixed with
//	        NatHoleClient / NatHoleReport (table lookups), pre-checks and refused visitors            => done
//	swc <ver> <xSRC> <sport> <xDST> <dport>     hostile server for frpc: a real frpc (tcp proxy with
//	        transport.proxyProtocolVersion = ver, `none` = unset) is logged in to a scripted server which hands it ONE
//	        work connection with StartWorkConn{SrcAddr, SrcPort, DstAddr, DstPort}; the local service echoes what frpc
//	        wrote to it       => res=<4|6|-><4|6|->;out=hdr|nohdr|closed|silent   (res: what net.ResolveTCPAddr makes of src / dst)
//
// and the watchdog (`watch`) also registers load-balancing groups after REFUSED group registrations (see watchGroups).
package main

import (
	"context"
	"fmt"
	"io"
	"math/rand"
	"net"
	"strconv"
	"strings"
	"sync"
	"time"

	"github.com/samber/lo"

	"github.com/fatedier/frp/client"
	v1 "github.com/fatedier/frp/pkg/config/v1"
	"github.com/fatedier/frp/pkg/msg"
	netpkg "github.com/fatedier/frp/pkg/util/net"
	"github.com/fatedier/frp/pkg/util/util"
	"github.com/fatedier/frp/pkg/util/version"
)

const crashWait = 2 * time.Second // how long an answer that the property promises may take before it counts as missing

func (w *crashWorld) gateKey(tag string) string {
	w.gmu.Lock()
	defer w.gmu.Unlock()
	w.tearSeq++
	return fmt.Sprintf("c16gate-%s-%d", tag, w.tearSeq)
}

func (w *crashWorld) arm(key, point string) *crashGate {
	g := &crashGate{point: point, isParked: make(chan struct{}), release: make(chan struct{})}
	w.gmu.Lock()
	w.gates[key] = g
	w.gmu.Unlock()
	return g
}

// take an armed gate away (nobody arrived); whoever arrives later runs through
func (w *crashWorld) disarm(key string) {
	w.gmu.Lock()
	delete(w.gates, key)
	w.gmu.Unlock()
}

func crashParked(g *crashGate, d time.Duration) bool {
	select {
	case <-g.isParked:
		return true
	case <-time.After(d):
		return false
	}
}

// ---------------------------------------------------------------- relogin

type crashLoginRes struct {
	pc  *crashConn
	res string // ok | err | eof | timeout | dialerr | writeerr | unexpected
}

// a Login with the given run id on a fresh stream; waits up to d for the answer
func (w *crashWorld) loginRun(host, runID string, d time.Duration) crashLoginRes {
	c, err := w.open()
	if err != nil {
		return crashLoginRes{nil, "dialerr"}
	}
	ts := time.Now().Unix()
	lm := &msg.Login{Version: version.Full(), Hostname: host, Os: "linux", Arch: "amd64", RunID: runID, Timestamp: ts,
		PrivilegeKey: peerKeyTok(crashToken, ts), PoolCount: 1}
	_ = c.SetWriteDeadline(time.Now().Add(crashWait))
	if err := msg.WriteMsg(c, lm); err != nil {
		c.Close()
		return crashLoginRes{nil, "writeerr"}
	}
	_ = c.SetWriteDeadline(time.Time{})
	_ = c.SetReadDeadline(time.Now().Add(d))
	m, err := msg.ReadMsg(c)
	_ = c.SetReadDeadline(time.Time{})
	if err != nil {
		c.Close()
		if ne, ok := err.(net.Error); ok && ne.Timeout() {
			return crashLoginRes{nil, "timeout"}
		}
		return crashLoginRes{nil, "eof"}
	}
	resp, ok := m.(*msg.LoginResp)
	if !ok {
		c.Close()
		return crashLoginRes{nil, "unexpected"}
	}
	if resp.Error != "" {
		c.Close()
		return crashLoginRes{nil, "err"}
	}
	rw, err := netpkg.NewCryptoReadWriter(c, []byte(crashToken))
	if err != nil {
		c.Close()
		return crashLoginRes{nil, "err"}
	}
	pc := &crashConn{c: c, rw: rw, established: true, runID: resp.RunID, reqWork: make(chan struct{}, 64),
		proxyResp: make(chan *msg.NewProxyResp, 64), pong: make(chan struct{}, 8)}
	crashDrainMsgs(rw, pc)
	crashCount("loginOK")
	return crashLoginRes{pc, "ok"}
}

func (w *crashWorld) relogin(cid, gate string, k int, order string, nproxy int) string {
	hostA := w.gateKey("ra")
	if r := w.loginHost(cid, 1, true, 0, hostA); r != "ok" {
		return "login-" + r
	}
	pcA := w.get(cid)
	runID := pcA.runID
	for i := 0; i < nproxy; i++ {
		typ := []string{"stcp", "xtcp", "sudp"}[i%3]
		_ = w.registerWait(pcA, &msg.NewProxy{ProxyName: fmt.Sprintf("r%s-%d", hostA, i), ProxyType: typ, Sk: crashSk}, time.Second)
	}
	// release whatever is still parked when the op ends, whichever way it ends
	var gates []*crashGate
	var keys []string
	released := map[*crashGate]bool{}
	release := func(g *crashGate) {
		if g != nil && !released[g] {
			released[g] = true
			close(g.release)
		}
	}
	var conns []*crashConn
	defer func() {
		for _, key := range keys {
			w.disarm(key)
		}
		for _, g := range gates {
			release(g)
		}
		for _, pc := range conns {
			pc.c.Close()
		}
	}()

	var gA *crashGate
	if gate != "live" {
		point := "worker." + gate
		if gate == "beforeDel" {
			point = "ctl.beforeDel"
		}
		gA = w.arm(hostA, point)
		gates, keys = append(gates, gA), append(keys, hostA)
		w.drop(cid)
		if !crashParked(gA, crashWait) {
			return "noparked"
		}
		crashCount("tearParked")
	}
	// k logins with A's run id, each parked between ControlManager.Add and oldCtl.WaitClosed()
	type lg struct {
		g   *crashGate
		res chan crashLoginRes
	}
	var lgs []lg
	for i := 1; i <= k; i++ {
		host := w.gateKey("rl")
		g := w.arm(host, "ctl.beforeWait")
		gates, keys = append(gates, g), append(keys, host)
		res := make(chan crashLoginRes, 1)
		go func() { res <- w.loginRun(host, runID, 4*crashWait) }()
		if !crashParked(g, crashWait) {
			return fmt.Sprintf("noparked-%d", i)
		}
		crashCount("reloginParked")
		lgs = append(lgs, lg{g, res})
	}
	// release in the given order
	for _, d := range order {
		i := int(d - '0')
		switch {
		case i == 0:
			release(gA)
		case i >= 1 && i <= k:
			release(lgs[i-1].g)
		}
		time.Sleep(time.Millisecond)
	}
	release(gA)
	for _, l := range lgs {
		release(l.g)
	}
	// every login is answered; the last one — nobody superseded it — with a LoginResp
	deadline := time.After(crashWait)
	for i, l := range lgs {
		select {
		case r := <-l.res:
			if r.pc != nil {
				conns = append(conns, r.pc)
			}
			if i == k-1 && r.res != "ok" {
				return "fail:relogin-last-" + r.res
			}
			if r.res == "timeout" {
				return "fail:relogin-earlier-unanswered"
			}
		case <-deadline:
			if i == k-1 {
				return "fail:relogin-last-unanswered"
			}
			return "fail:relogin-earlier-unanswered"
		}
	}
	// the run id is not wedged: one more login with it is served
	d := w.loginRun(w.gateKey("rd"), runID, crashWait)
	if d.pc != nil {
		conns = append(conns, d.pc)
	}
	if d.res != "ok" {
		return "fail:relogin-next-" + d.res
	}
	// everybody hangs up: the run id leaves the table
	w.drop(cid)
	for _, pc := range conns {
		pc.c.Close()
	}
	if !w.sessionGone(runID, crashWait) {
		return "fail:relogin-notgone"
	}
	return "done"
}

// ---------------------------------------------------------------- the watchdog's group registrations

func (w *crashWorld) pingPong(pc *crashConn, d time.Duration) bool {
	for len(pc.pong) > 0 {
		<-pc.pong
	}
	if err := w.ctlSend(pc, &msg.Ping{}); err != nil {
		return false
	}
	select {
	case <-pc.pong:
		return true
	case <-time.After(d):
		return false
	}
}

// After storms full of refused registrations the group controllers must still serve: on the watchdog's fresh session a
// FIRST member is refused (tcp: a port outside allowPorts, a port in use; tcpmux / http: a route another group owns), a
// second member is refused (wrong key), members join and leave; each step must be ANSWERED (whatever the answer), and
// the session must still answer a Ping after the leaves (CloseProxy is handled in the session's read loop).
func (w *crashWorld) watchGroups(pc *crashConn) string {
	w.gmu.Lock()
	w.tearSeq++
	seq := w.tearSeq
	w.gmu.Unlock()
	var names []string
	reg := func(what string, np *msg.NewProxy) (string, bool) {
		resp := w.registerWait(pc, np, crashWait)
		if resp == nil {
			return what + "-unanswered", false
		}
		if resp.Error == "" {
			names = append(names, np.ProxyName)
		}
		return "", resp.Error == ""
	}
	n := func(tag string) string { return fmt.Sprintf("c16wd-%s-%d", tag, seq) }
	dom := fmt.Sprintf("wd%d.c16wd.test", seq)
	steps := []struct {
		what string
		np   *msg.NewProxy
	}{
		// tcp groups: first member refused by the port manager (not allowed; in use), then a group that works, a wrong key
		{"tcpgroup-notallowed", &msg.NewProxy{ProxyName: n("t1"), ProxyType: "tcp", Group: n("gr1"), GroupKey: "k", RemotePort: w.port}},
		{"tcpgroup-inuse", &msg.NewProxy{ProxyName: n("t2"), ProxyType: "tcp", Group: n("gr2"), GroupKey: "k", RemotePort: w.watchPort}},
		{"tcpgroup-first", &msg.NewProxy{ProxyName: n("t3"), ProxyType: "tcp", Group: n("g"), GroupKey: "k", RemotePort: w.allowLo + 10}},
		{"tcpgroup-wrongkey", &msg.NewProxy{ProxyName: n("t4"), ProxyType: "tcp", Group: n("g"), GroupKey: "other", RemotePort: w.allowLo + 10}},
		{"tcpgroup-second", &msg.NewProxy{ProxyName: n("t5"), ProxyType: "tcp", Group: n("g"), GroupKey: "k", RemotePort: w.allowLo + 10}},
		{"tcpgroup-again", &msg.NewProxy{ProxyName: n("t6"), ProxyType: "tcp", Group: n("gr1"), GroupKey: "k", RemotePort: w.allowLo + 10}},
		// tcpmux groups: first member, wrong key, first member of ANOTHER group refused by the muxer (route taken)
		{"tcpmuxgroup-first", &msg.NewProxy{ProxyName: n("m1"), ProxyType: "tcpmux", Multiplexer: "httpconnect", CustomDomains: []string{dom}, Group: n("mg"), GroupKey: "k"}},
		{"tcpmuxgroup-wrongkey", &msg.NewProxy{ProxyName: n("m2"), ProxyType: "tcpmux", Multiplexer: "httpconnect", CustomDomains: []string{dom}, Group: n("mg"), GroupKey: "other"}},
		{"tcpmuxgroup-routetaken", &msg.NewProxy{ProxyName: n("m3"), ProxyType: "tcpmux", Multiplexer: "httpconnect", CustomDomains: []string{dom}, Group: n("mg2"), GroupKey: "k"}},
		{"tcpmuxgroup-second", &msg.NewProxy{ProxyName: n("m4"), ProxyType: "tcpmux", Multiplexer: "httpconnect", CustomDomains: []string{dom}, Group: n("mg"), GroupKey: "k"}},
		{"tcpmuxgroup-badmux", &msg.NewProxy{ProxyName: n("m5"), ProxyType: "tcpmux", Multiplexer: "bogus", CustomDomains: []string{"x" + dom}, Group: n("mg3"), GroupKey: "k"}},
		// http groups
		{"httpgroup-first", &msg.NewProxy{ProxyName: n("h1"), ProxyType: "http", CustomDomains: []string{"h" + dom}, Group: n("hg"), GroupKey: "k"}},
		{"httpgroup-wrongkey", &msg.NewProxy{ProxyName: n("h2"), ProxyType: "http", CustomDomains: []string{"h" + dom}, Group: n("hg"), GroupKey: "other"}},
		{"httpgroup-routetaken", &msg.NewProxy{ProxyName: n("h3"), ProxyType: "http", CustomDomains: []string{"h" + dom}, Group: n("hg2"), GroupKey: "k"}},
		{"httpgroup-second", &msg.NewProxy{ProxyName: n("h4"), ProxyType: "http", CustomDomains: []string{"h" + dom}, Group: n("hg"), GroupKey: "k"}},
	}
	for _, st := range steps {
		if why, ok := reg(st.what, st.np); why != "" {
			return why
		} else if ok {
			crashCount("wdGroupOK")
		} else {
			crashCount("wdGroupRefused")
		}
	}
	for _, name := range names {
		if err := w.ctlSend(pc, &msg.CloseProxy{ProxyName: name}); err != nil {
			return "close-writeerr"
		}
	}
	if !w.pingPong(pc, crashWait) {
		return "leave-unanswered"
	}
	return ""
}

// ---------------------------------------------------------------- registrations with several routes, some of them taken

// op routes <cid> <http|tcpmux> <variant>: proxies that ask for SEVERAL routes in one NewProxy (custom domains, a subdomain,
// locations) while some of them are already owned by another proxy: the refused route comes first, last or in the middle, so
// that routes registered earlier IN THE SAME MESSAGE have to be given back; plain and as members of a group; then everything
// is closed.  Each registration must be answered, the session must still answer a Ping
func (w *crashWorld) routes(cid, typ string, variant int64) string {
	r := rand.New(rand.NewSource(variant))
	if w.login(cid, 0, true, 0) != "ok" {
		return "nologin"
	}
	pc := w.get(cid)
	defer w.drop(cid)
	tag := w.gateKey("rt")[len("c16gate-"):]
	d := func(x string) string { return x + "-" + tag + ".c16rt.test" }
	grouped := variant%2 == 1
	mk := func(name string, domains []string, sub string, locs []string) *msg.NewProxy {
		np := &msg.NewProxy{ProxyName: name + "-" + tag, ProxyType: typ, CustomDomains: domains, SubDomain: sub}
		if typ == "tcpmux" {
			np.Multiplexer = "httpconnect"
		} else {
			np.Locations = locs
		}
		if variant%4 >= 2 {
			np.RouteByHTTPUser = "u"
		}
		if grouped {
			np.Group, np.GroupKey = "rtg-"+name+"-"+tag, "k"
		}
		return np
	}
	steps := []*msg.NewProxy{
		mk("a", []string{d("x")}, "", nil),
		mk("b", []string{d("y"), d("x")}, "", nil),          // the LAST route is taken: y has to be given back
		mk("c", []string{d("x"), d("z")}, "", nil),          // the FIRST one is
		mk("d", []string{d("z"), d("x"), d("w")}, "", nil),  // the middle one
		mk("e", []string{d("z")}, "s"+tag, nil),             // a domain and a subdomain
		mk("f", []string{d("w")}, "s"+tag, nil),             // the subdomain is taken: w has to be given back
		mk("g", []string{d("v"), d("v")}, "", nil),          // the same route twice in one message
		mk("h", []string{d("x")}, "", []string{"/a", "/b"}), // other locations of a taken domain (http)
		mk("i", []string{d("y")}, "", []string{"/", "/a", "/"}),
	}
	r.Shuffle(len(steps)-1, func(i, j int) { steps[i+1], steps[j+1] = steps[j+1], steps[i+1] }) // `a` stays first
	var names []string
	for _, np := range steps {
		resp := w.registerWait(pc, np, crashWait)
		if resp == nil {
			return "fail:routes-unanswered"
		}
		if resp.Error == "" {
			names = append(names, np.ProxyName)
			crashCount("routesOK")
		} else {
			crashCount("routesRefused")
		}
	}
	if r.Intn(2) == 0 {
		for _, n := range names {
			if w.ctlSend(pc, &msg.CloseProxy{ProxyName: n}) != nil {
				return "fail:routes-close"
			}
		}
	}
	if !w.pingPong(pc, crashWait) {
		return "fail:routes-stalled"
	}
	return "done"
}

// ---------------------------------------------------------------- a join racing the last leave

func (w *crashWorld) gleave(cid, kind string, variant int64) string {
	r := rand.New(rand.NewSource(variant))
	key := w.gateKey("g")
	if w.login(cid+"L", 1, true, 0) != "ok" || w.login(cid+"J", 1, true, 0) != "ok" {
		return "nologin"
	}
	L, J := w.get(cid+"L"), w.get(cid+"J")
	defer func() {
		w.disarm(key)
		w.drop(cid + "L")
		w.drop(cid + "J")
	}()
	group, point := "grp-"+key, kind+"group.listen.lookedup"
	mk := func(name, gkey string) *msg.NewProxy {
		np := &msg.NewProxy{ProxyName: name, Group: group, GroupKey: gkey}
		switch kind {
		case "tcp":
			np.ProxyType, np.RemotePort = "tcp", w.allowLo+6
		case "tcpmux":
			np.ProxyType, np.Multiplexer, np.CustomDomains = "tcpmux", "httpconnect", []string{key + ".c16g.test"}
		case "http":
			np.ProxyType, np.CustomDomains = "http", []string{key + ".c16g.test"}
		}
		return np
	}
	nameL, nameJ := "L-"+key, key // the tcp / http gates carry the joining proxy's name, the tcpmux gate the group's
	switch kind {
	case "tcpmux":
		group = key
	case "http":
		point = "httpgroup.register.lookedup"
	}
	// the port of an earlier op is still being released: on a loaded machine that has been seen to take more than the
	// 200 ms this loop used to allow (thorough run, op 12 000 of a seed) — the bound is time, not attempts
	for firstBy := time.Now().Add(3 * time.Second); ; {
		resp := w.registerWait(L, mk(nameL, "k"), crashWait)
		if resp == nil {
			return "fail:gleave-first-unanswered"
		}
		if resp.Error == "" {
			break
		}
		if time.Now().After(firstBy) {
			return "first-refused"
		}
		time.Sleep(5 * time.Millisecond)
	}
	g := w.arm(key, point)
	released := false
	release := func() {
		if !released {
			released = true
			close(g.release)
		}
	}
	defer release()
	jkey := "k"
	if variant%4 == 3 {
		jkey = "other" // the join will be refused — after it took the locks
	}
	if err := w.ctlSend(J, mk(nameJ, jkey)); err != nil {
		return "nologin"
	}
	if !crashParked(g, crashWait) {
		return "noparked"
	}
	crashCount("gleaveParked")
	// the last leave, while the join stands between the lookup and the group lock
	dropL := variant%2 == 1
	if dropL {
		w.drop(cid + "L")
	} else if err := w.ctlSend(L, &msg.CloseProxy{ProxyName: nameL}); err != nil {
		return "nologin"
	}
	time.Sleep(time.Duration(5+r.Intn(20)) * time.Millisecond)
	release()
	var respJ *msg.NewProxyResp
	deadline := time.After(crashWait)
waitJ:
	for {
		select {
		case x := <-J.proxyResp:
			if x.ProxyName == nameJ {
				respJ = x
				break waitJ
			}
		case <-deadline:
			return "fail:gleave-join-unanswered"
		}
	}
	if !dropL && !w.pingPong(L, crashWait) {
		return "fail:gleave-leave-stalled"
	}
	if !w.pingPong(J, crashWait) {
		return "fail:gleave-join-stalled"
	}
	// the group is usable afterwards: J leaves (if it joined) and joins again
	if respJ.Error == "" {
		_ = w.ctlSend(J, &msg.CloseProxy{ProxyName: nameJ})
	}
	if resp := w.registerWait(J, mk(nameJ+"-2", "k"), crashWait); resp == nil {
		return "fail:gleave-rejoin-unanswered"
	}
	_ = w.ctlSend(J, &msg.CloseProxy{ProxyName: nameJ + "-2"})
	if !w.pingPong(J, crashWait) {
		return "fail:gleave-rejoin-stalled"
	}
	runL, runJ := L.runID, J.runID
	w.drop(cid + "L")
	w.drop(cid + "J")
	if !w.sessionGone(runL, crashWait) || !w.sessionGone(runJ, crashWait) {
		return "fail:gleave-notgone"
	}
	return "done"
}

// ---------------------------------------------------------------- valid nat-hole traffic from many sessions

func (w *crashWorld) nstorm(seed int64, nconn, nmsg int) {
	owner := fmt.Sprintf("ns%d-o", seed)
	if w.login(owner, 0, true, 0) != "ok" {
		return
	}
	pcO := w.get(owner)
	name := fmt.Sprintf("nsx-%d", seed)
	resp := w.registerWait(pcO, &msg.NewProxy{ProxyName: name, ProxyType: "xtcp", Sk: crashSk, AllowUsers: []string{"*"}}, crashWait)
	if resp == nil || resp.Error != "" {
		w.drop(owner)
		return
	}
	var wg sync.WaitGroup
	for i := 0; i < nconn; i++ {
		wg.Add(1)
		go func(i int) {
			defer wg.Done()
			r := rand.New(rand.NewSource(seed*6151 + int64(i)))
			cid := fmt.Sprintf("ns%d-%d", seed, i)
			if w.login(cid, 0, true, 0) != "ok" {
				return
			}
			pc := w.get(cid)
			if pc == nil {
				return
			}
			defer w.drop(cid)
			for k := 0; k < nmsg; k++ {
				ts := time.Now().Unix()
				var m msg.Message
				switch x := r.Intn(20); {
				case x < 8: // valid, not a pre-check: HandleVisitor inserts a session
					m = &msg.NatHoleVisitor{TransactionID: fmt.Sprintf("t%d-%d", i, k), ProxyName: name, Protocol: []string{"quic", "kcp"}[r.Intn(2)],
						SignKey: util.GetAuthKey(crashSk, ts), Timestamp: ts, MappedAddrs: []string{"1.2.3.4:5", "1.2.3.4:6"}, AssistedAddrs: []string{"10.0.0.1:7"}}
				case x == 8:
					m = &msg.NatHoleVisitor{TransactionID: "p", ProxyName: name, PreCheck: true}
				case x == 9: // refused after the lookup: bad signature / unknown proxy
					m = &msg.NatHoleVisitor{TransactionID: "b", ProxyName: []string{name, "nsx-none"}[r.Intn(2)], SignKey: "bad", Timestamp: ts}
				case x < 15:
					m = &msg.NatHoleReport{Sid: strconv.FormatInt(ts, 10) + crashStr(r), Success: r.Intn(2) == 0}
				default:
					m = &msg.NatHoleClient{TransactionID: "c", ProxyName: name, Sid: strconv.FormatInt(ts, 10) + crashStr(r),
						MappedAddrs: []string{"5.6.7.8:9"}, AssistedAddrs: []string{"10.0.0.2:7"}}
				}
				if err := w.ctlSend(pc, m); err != nil {
					return
				}
				crashCount("natSent")
			}
		}(i)
	}
	wg.Wait()
	_ = w.ctlSend(pcO, &msg.CloseProxy{ProxyName: name})
	w.drop(owner)
}

// ---------------------------------------------------------------- hostile server for frpc: StartWorkConn addresses

type crashSwcFix struct {
	l      net.Listener
	cli    *client.Service
	cancel context.CancelFunc
	mu     sync.Mutex
	ctlW   func(m msg.Message) error // writes on the current control connection
	regd   chan struct{}             // one token per answered NewProxy
	work   chan net.Conn             // work connections frpc opened
	warm   bool
}

const crashSwcProxy = "c16swc"

func (w *crashWorld) swcFixture(ver string) (*crashSwcFix, string) {
	w.mu.Lock()
	if w.swc == nil {
		w.swc = map[string]*crashSwcFix{}
	}
	fx := w.swc[ver]
	w.mu.Unlock()
	if fx != nil {
		return fx, ""
	}
	l, err := net.Listen("tcp", "127.0.0.1:0")
	if err != nil {
		return nil, "listenerr"
	}
	fx = &crashSwcFix{l: l, regd: make(chan struct{}, 16), work: make(chan net.Conn, 16)}
	go func() {
		for {
			c, err := l.Accept()
			if err != nil {
				return
			}
			go func(c net.Conn) {
				_ = c.SetReadDeadline(time.Now().Add(5 * time.Second))
				m, err := msg.ReadMsg(c)
				if err != nil {
					c.Close()
					return
				}
				_ = c.SetReadDeadline(time.Time{})
				switch m.(type) {
				case *msg.Login:
					_ = msg.WriteMsg(c, &msg.LoginResp{Version: version.Full(), RunID: "swc"})
					rw, err := netpkg.NewCryptoReadWriter(c, []byte(crashToken))
					if err != nil {
						c.Close()
						return
					}
					var wmu sync.Mutex
					wr := func(m msg.Message) error {
						wmu.Lock()
						defer wmu.Unlock()
						_ = c.SetWriteDeadline(time.Now().Add(crashWait))
						return msg.WriteMsg(rw, m)
					}
					fx.mu.Lock()
					fx.ctlW = wr
					fx.mu.Unlock()
					for {
						cm, err := msg.ReadMsg(rw)
						if err != nil {
							c.Close()
							return
						}
						switch x := cm.(type) {
						case *msg.NewProxy:
							_ = wr(&msg.NewProxyResp{ProxyName: x.ProxyName, RemoteAddr: ":1"})
							select {
							case fx.regd <- struct{}{}:
							default:
							}
						case *msg.Ping:
							_ = wr(&msg.Pong{})
						}
					}
				case *msg.NewWorkConn:
					select {
					case fx.work <- c:
					default:
						c.Close()
					}
				default:
					c.Close()
				}
			}(c)
		}
	}()
	ccfg := &v1.ClientCommonConfig{}
	ccfg.ServerAddr, ccfg.ServerPort = "127.0.0.1", l.Addr().(*net.TCPAddr).Port
	ccfg.Auth.Method = v1.AuthMethodToken
	ccfg.Auth.Token = crashToken
	ccfg.Transport.TLS.Enable = lo.ToPtr(false)
	ccfg.Transport.TCPMux = lo.ToPtr(false)
	ccfg.Transport.PoolCount = 0
	ccfg.LoginFailExit = lo.ToPtr(false)
	ccfg.Complete()
	ccfg.Transport.ProxyURL = ""
	tcp := &v1.TCPProxyConfig{}
	tcp.Name, tcp.Type = crashSwcProxy, "tcp"
	tcp.LocalIP, tcp.LocalPort = "127.0.0.1", w.echoPort
	tcp.RemotePort = 1
	if ver != "none" {
		tcp.Transport.ProxyProtocolVersion = ver
	}
	tcp.Complete("")
	cli, err := client.NewService(client.ServiceOptions{Common: ccfg, ProxyCfgs: []v1.ProxyConfigurer{tcp}})
	if err != nil {
		l.Close()
		return nil, "clienterr"
	}
	ctx, cancel := context.WithCancel(context.Background())
	fx.cli, fx.cancel = cli, cancel
	go func() { _ = cli.Run(ctx) }()
	select {
	case <-fx.regd:
	case <-time.After(10 * time.Second):
		cancel()
		l.Close()
		return nil, "noregister"
	}
	w.mu.Lock()
	w.swc[ver] = fx
	w.mu.Unlock()
	return fx, ""
}

// one work connection: StartWorkConn{…}, a payload; what comes back from the local (echo) service
func (fx *crashSwcFix) exchange(sw *msg.StartWorkConn) string {
	for len(fx.work) > 0 {
		(<-fx.work).Close()
	}
	fx.mu.Lock()
	wr := fx.ctlW
	fx.mu.Unlock()
	if wr == nil || wr(&msg.ReqWorkConn{}) != nil {
		return "noctl"
	}
	var c net.Conn
	select {
	case c = <-fx.work:
	case <-time.After(crashWait):
		return "nowork"
	}
	defer c.Close()
	_ = c.SetDeadline(time.Now().Add(crashWait))
	if err := msg.WriteMsg(c, sw); err != nil {
		return "closed"
	}
	pay := []byte("c16-swc-payload")
	if _, err := c.Write(pay); err != nil {
		return "closed"
	}
	var got []byte
	buf := make([]byte, 512)
	for !strings.HasSuffix(string(got), string(pay)) {
		n, err := c.Read(buf)
		got = append(got, buf[:n]...)
		if err != nil {
			if ne, ok := err.(net.Error); ok && ne.Timeout() {
				return "silent"
			}
			if strings.HasSuffix(string(got), string(pay)) {
				break
			}
			return "closed"
		}
	}
	if len(got) == len(pay) {
		return "nohdr"
	}
	return "hdr"
}

func crashResolveClass(host string, port int) string {
	a, err := net.ResolveTCPAddr("tcp", net.JoinHostPort(host, strconv.Itoa(port)))
	if err != nil || a == nil {
		return "-"
	}
	if a.IP.To4() != nil {
		return "4"
	}
	return "6"
}

func (w *crashWorld) swcOp(ver, src string, sport int, dst string, dport int) string {
	fx, why := w.swcFixture(ver)
	if fx == nil {
		return why
	}
	if !fx.warm {
		// the proxy is `running` only after frpc handled the NewProxyResp: a plain work connection must go through first
		for i := 0; i < 40 && !fx.warm; i++ {
			if fx.exchange(&msg.StartWorkConn{ProxyName: crashSwcProxy}) == "nohdr" {
				fx.warm = true
			} else {
				time.Sleep(50 * time.Millisecond)
			}
		}
		if !fx.warm {
			return "notwarm"
		}
	}
	d := dst
	if d == "" {
		d = "127.0.0.1" // HandleTCPWorkConnection's default
	}
	res := crashResolveClass(src, sport) + crashResolveClass(d, dport)
	out := fx.exchange(&msg.StartWorkConn{ProxyName: crashSwcProxy, SrcAddr: src, SrcPort: uint16(sport), DstAddr: dst, DstPort: uint16(dport)})
	// a nil dereference in the work connection's goroutine ends the process a moment later: give it that moment
	if out == "closed" || out == "silent" {
		time.Sleep(30 * time.Millisecond)
	}
	crashCount("swc")
	return "res=" + res + ";out=" + out
}

// host parts for StartWorkConn.SrcAddr / DstAddr: literals of both families, and what does not resolve
var crashHostsGood = []string{"1.2.3.4", "127.0.0.1", "::1", "fe80::1", "::ffff:10.0.0.1", "2001:db8::2", "255.255.255.255", "0.0.0.0"}
var crashHostsBad = []string{"1.2.3.4.5", "999.1.1.1", "1.2.3", "1.2.3.4:5", "[::1]", "::1::2", "fe80::1%", ":", "-1", "1.2.3.4 ", " ", "\x00",
	"1.2.3.256", "0x7f.0.0.1.", "a..b", "%s%n"}

func crashHost(r *rand.Rand, good bool) string {
	if good || r.Intn(2) == 0 {
		return crashHostsGood[r.Intn(len(crashHostsGood))]
	}
	if r.Intn(8) == 0 {
		return crashLong[:300] + ".5"
	}
	return crashHostsBad[r.Intn(len(crashHostsBad))]
}

var _ = io.EOF

// ---------------------------------------------------------------- user traffic racing the close of a proxy

// op closerace <cid> <kind> <rounds> <senders>: a proxy is registered (udp | tcp | tcpgroup | tcpmuxgroup | httpgroup), `senders`
// goroutines flood its endpoint with user traffic (datagrams; connections that say a few bytes and hang up; CONNECT / GET
// requests for its domain), and the proxy is closed (CloseProxy on even rounds, the session's connection dropped on odd
// ones) while the flood goes on: whoever hands user traffic over — the reader of the udp socket (pkg/proto/udp
// ForwardUserConn), the accept loops of the group workers, the vhost muxer — is between taking a connection / datagram and
// handing it on when the proxy's channels close
func (w *crashWorld) closerace(cid, kind string, rounds, senders int) string {
	for round := 0; round < rounds; round++ {
		if pc := w.get(cid); pc == nil || !pc.established {
			if w.login(cid, 0, true, 0) != "ok" {
				return "nologin"
			}
		}
		pc := w.get(cid)
		name := fmt.Sprintf("cr-%s-%s-%d", cid, kind, round)
		dom := fmt.Sprintf("cr-%s.c16r.test", cid)
		np := &msg.NewProxy{ProxyName: name}
		target := 0
		switch kind {
		case "udp":
			np.ProxyType, np.RemotePort = "udp", w.allowLo+7
			target = np.RemotePort
		case "tcp":
			np.ProxyType, np.RemotePort = "tcp", w.allowLo+8
			target = np.RemotePort
		case "tcpgroup":
			np.ProxyType, np.RemotePort, np.Group, np.GroupKey = "tcp", w.allowLo+9, "crg-"+cid, "k"
			target = np.RemotePort
		case "tcpmuxgroup":
			np.ProxyType, np.Multiplexer, np.CustomDomains, np.Group, np.GroupKey = "tcpmux", "httpconnect", []string{dom}, "crm-"+cid, "k"
			target = w.muxPort
		case "httpgroup":
			np.ProxyType, np.CustomDomains, np.Group, np.GroupKey = "http", []string{dom}, "crh-"+cid, "k"
			target = w.vhostPort
		default:
			return "badkind"
		}
		var resp *msg.NewProxyResp
		for attempt := 0; attempt < 40; attempt++ { // the endpoint of the previous round is released asynchronously
			resp = w.registerWait(pc, np, crashWait)
			if resp == nil {
				return "fail:closerace-register-unanswered"
			}
			if resp.Error == "" {
				break
			}
			time.Sleep(5 * time.Millisecond)
		}
		if resp.Error != "" {
			return "noregister"
		}
		stop := make(chan struct{})
		var wg sync.WaitGroup
		for s := 0; s < senders; s++ {
			wg.Add(1)
			go func() {
				defer wg.Done()
				addr := "127.0.0.1:" + strconv.Itoa(target)
				var uc net.Conn
				if kind == "udp" {
					c, err := net.Dial("udp4", addr)
					if err != nil {
						return
					}
					uc = c
					defer uc.Close()
				}
				for {
					select {
					case <-stop:
						return
					default:
					}
					crashCount("closeraceSent")
					if kind == "udp" {
						_, _ = uc.Write([]byte("c16-closerace-datagram"))
						continue
					}
					c, err := net.DialTimeout("tcp", addr, 200*time.Millisecond)
					if err != nil {
						time.Sleep(200 * time.Microsecond)
						continue
					}
					switch kind {
					case "tcpmuxgroup":
						_, _ = c.Write([]byte("CONNECT " + dom + ":80 HTTP/1.1\r\nHost: " + dom + ":80\r\n\r\n"))
					case "httpgroup":
						_, _ = c.Write([]byte("GET / HTTP/1.1\r\nHost: " + dom + "\r\n\r\n"))
					default:
						_, _ = c.Write([]byte("c16"))
					}
					time.Sleep(100 * time.Microsecond)
					c.Close()
				}
			}()
		}
		time.Sleep(3 * time.Millisecond)
		if round%2 == 0 {
			_ = w.ctlSend(pc, &msg.CloseProxy{ProxyName: name})
		} else {
			w.drop(cid)
		}
		time.Sleep(6 * time.Millisecond)
		close(stop)
		wg.Wait()
	}
	w.drop(cid)
	return "done"
}

// ---------------------------------------------------------------- registration churn from many sessions at once

// op pstorm <seed> <nconn> <ncycles>: nconn sessions register and close proxies as fast as frps takes them (no waiting for the
// answers): types without ports (stcp, sudp, xtcp), routes (http, tcpmux — own and contested domains, groups), names of
// their own and names every session fights for — every writer of every shared table (proxy manager, visitor listeners,
// nat-hole clients, routers, group controllers, the session's own proxy map) at once
func (w *crashWorld) pstorm(seed int64, nconn, ncycles int) {
	var wg sync.WaitGroup
	for i := 0; i < nconn; i++ {
		wg.Add(1)
		go func(i int) {
			defer wg.Done()
			r := rand.New(rand.NewSource(seed*7351 + int64(i)))
			cid := fmt.Sprintf("ps%d-%d", seed, i)
			if w.login(cid, 0, true, 0) != "ok" {
				return
			}
			pc := w.get(cid)
			if pc == nil {
				return
			}
			defer w.drop(cid)
			for k := 0; k < ncycles; k++ {
				name := fmt.Sprintf("%s-%d", cid, k%7)
				if r.Intn(4) == 0 {
					name = fmt.Sprintf("ps-shared-%d", r.Intn(3))
				}
				np := &msg.NewProxy{ProxyName: name, Sk: crashSk, AllowUsers: []string{"*"}}
				switch x := r.Intn(10); {
				case x < 6:
					np.ProxyType = []string{"stcp", "sudp", "xtcp"}[r.Intn(3)]
				case x < 8:
					np.ProxyType, np.CustomDomains = "http", []string{fmt.Sprintf("ps%d.c16p.test", []int{i, r.Intn(nconn)}[r.Intn(2)])}
				default:
					np.ProxyType, np.Multiplexer, np.CustomDomains = "tcpmux", "httpconnect", []string{fmt.Sprintf("pm%d.c16p.test", []int{i, r.Intn(nconn)}[r.Intn(2)])}
				}
				if np.ProxyType == "http" || np.ProxyType == "tcpmux" {
					if r.Intn(3) == 0 {
						np.Group, np.GroupKey = "psg-"+np.CustomDomains[0], []string{"k", "k", "other"}[r.Intn(3)]
					}
				}
				if w.ctlSend(pc, np) != nil {
					return
				}
				crashCount("pstormSent")
				if r.Intn(8) != 0 { // mostly closed again at once; the rest is closed by the next cycle with that name or by the teardown
					if w.ctlSend(pc, &msg.CloseProxy{ProxyName: name}) != nil {
						return
					}
				}
			}
			_ = w.pingPong(pc, crashWait) // everything before it has been handled
		}(i)
	}
	wg.Wait()
}
