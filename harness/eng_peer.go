// Engine "peer" (C04): a real server.Service on loopback; the harness is a scripted raw peer that
// speaks the real codec (msg.WriteMsg/ReadMsg, netpkg.NewCryptoReadWriter after login) over the real
// client dialer (client.NewConnector: tcp / tls / websocket / kcp / quic, all through yamux or quic
// streams) or over the internal listener the ssh gateway feeds (net.Pipe + PutConn).
//
// Ops (one per line):
//
//	reset <t|o> <hb> <wc> [<token> [<mux> [<hbto>]]]        new server: token|oidc(stub), scope bits; t: the configured token
//	                                                        (0 … 200 bytes, any bytes), transport.tcpMux (default on) and
//	                                                        transport.heartbeatTimeout in seconds (default 90)
//	login <cid> <tr> <rid> <ts> <key> <exp> <aap> <pool>    first message Login on a new connection
//	work  <cid> <tr> <ridref> <ts> <key> <exp>              first message NewWorkConn; ridref = xHEX | @cid
//	visit <cid> <tr> <ridref> <name>                        first message NewVisitorConn (bad sign key)
//	first <cid> <tr> <kind>                                 any other first message / malformed frame
//	raw   <hexbytes>                                        garbage on the bare tcp port
//	ping  <cid> <ts> <key> <exp>                            Ping on an established control connection
//	nproxy <cid> <name>                                     NewProxy (stcp) on an established control connection
//	cproxy <cid> <name>                                     CloseProxy on an established control connection (no reply: a NewProxy of
//	                                                        an unsupported type follows and ITS error reply is awaited)
//	wait <ms>                                               let real time pass
//	alive <cid> <hint>                                      is the session of the login on <cid> still in the table: alive | dead
//	                                                        (hint = what the generator expects: with "dead" the harness waits up
//	                                                        to 600 ms for the session to go)
//	authkey <token> <ts> <exp>                              util.GetAuthKey(token, ts) itself
//	authkey2 <tokenA> <tokenB> <ts>                         util.GetAuthKey of two tokens for one timestamp: "<keyA>:<keyB>"
//	tproxy <cid> <name>                                     NewProxy (tcp, remote port 0) on an established control connection
//	uconn <name>                                            a user connection to the port of tcp proxy <name>: frps hands it to a
//	                                                        pooled work connection; result e1:<cid of that work connection> when
//	                                                        the bytes came back through it, e0 when nothing served it
//	drop  <cid>                                             the peer closes the connection
//	dump                                                    the server's session table (verif hook)
//
// <exp> is md5(token ++ decimal(ts)) computed HERE with crypto/md5 (not with frp's util.GetAuthKey).
// <tr> = tcp | tls | ws | wst (websocket with TLS inside) | kcp | quic (streams of ONE underlying connection per transport;
// with tcpMux off a connection of its own per attempt) | tcpn (a NEW tcp connection and yamux session for this one
// attempt) | int (the internal listener).
//
// Every result gets the suffix "!lp" when, while the operation ran, Control.lastPing of some session moved without a
// heartbeat on its control connection accounting for it (doPing counts those).
package main

import (
	"context"
	"crypto/md5"
	"encoding/binary"
	"encoding/hex"
	"errors"
	"fmt"
	"io"
	"math/rand"
	"net"
	"os"
	"sort"
	"strconv"
	"strings"
	"time"

	"github.com/coreos/go-oidc/v3/oidc"
	"github.com/samber/lo"

	"github.com/fatedier/frp/client"
	"github.com/fatedier/frp/pkg/auth"
	v1 "github.com/fatedier/frp/pkg/config/v1"
	"github.com/fatedier/frp/pkg/msg"
	netpkg "github.com/fatedier/frp/pkg/util/net"
	"github.com/fatedier/frp/pkg/util/util"
	"github.com/fatedier/frp/pkg/util/version"
	"github.com/fatedier/frp/server"
)

const peerToken = "s3cr3t-tok"

// Generous while everything answers (a healthy run never waits for it); once a few waits have run
// out (a mutated frps that leaves refused connections open) the remaining ones are cut short so the
// run still ends.
var (
	peerTimeout  = 4 * time.Second
	peerTimeouts = 0
)

func peerTimedOut() {
	peerTimeouts++
	if peerTimeouts >= 3 {
		peerTimeout = 300 * time.Millisecond
	}
}

var peerTransports = []string{"tcp", "tls", "ws", "wst", "kcp", "quic"}

type peerConn struct {
	c           net.Conn
	rw          io.ReadWriter
	runID       string
	established bool
	pooled      bool // a work connection frps put into a session's pool
}

func (pc *peerConn) close() { pc.c.Close() }

// transport tcpn: the connection owns its connector (one tcp connection + yamux session per attempt)
type peerOwnConn struct {
	net.Conn
	own client.Connector
}

func (c peerOwnConn) Close() error {
	err := c.Conn.Close()
	c.own.Close()
	return err
}

type peerStubOIDC struct{}

// stub of go-oidc's verifier: "s:<subject>" is a valid token of that subject, everything else is an error
func (peerStubOIDC) Verify(_ context.Context, raw string) (*oidc.IDToken, error) {
	if strings.HasPrefix(raw, "s:") && len(raw) > 2 {
		return &oidc.IDToken{Subject: raw[2:]}, nil
	}
	return nil, errors.New("stub: invalid token")
}

type peerState struct {
	svr        *server.Service
	method     string // t | o (stub verifier) | O (real go-oidc verifier on the fake provider) | S (token + ssh gateway)
	token      string // cfg.Auth.Token (key of the control connection's crypto stream)
	hb, wc     bool   // additional scopes of the server
	gw         *peerGateway
	port       int
	kcpPort    int
	quicPort   int
	connectors map[string]client.Connector
	conns      map[string]*peerConn
	ridOf      map[string]string // cid -> run id a successful login on cid got
	owner      map[string]string // run id -> cid of the last successful login
	lastPing   map[string]int64
	lp         map[string]int
	legit      map[string]int // moves of lastPing that a heartbeat on the session's control connection accounts for
	noMux      bool           // transport.tcpMux = false on both sides
	transports []string
	tports     map[string]int // tcp proxy name -> remote port frps allocated
	toks       map[string]string // O / C episodes: minted raw tokens by id
	shortExp   int64             // O episodes: the latest exp of a short-lived token minted so far
	clock      *peerClock        // C episodes: the clock injected into the go-oidc verifier

}

var peerSt = &peerState{}

func peerKey(token string, ts int64) string {
	s := md5.Sum([]byte(token + strconv.FormatInt(ts, 10)))
	return hex.EncodeToString(s[:])
}

func peerFreePorts() (int, int, int) {
	l, err := net.Listen("tcp", "127.0.0.1:0")
	if err != nil {
		panic(err)
	}
	defer l.Close()
	u1, err := net.ListenPacket("udp", "127.0.0.1:0")
	if err != nil {
		panic(err)
	}
	defer u1.Close()
	u2, err := net.ListenPacket("udp", "127.0.0.1:0")
	if err != nil {
		panic(err)
	}
	defer u2.Close()
	return l.Addr().(*net.TCPAddr).Port, u1.LocalAddr().(*net.UDPAddr).Port, u2.LocalAddr().(*net.UDPAddr).Port
}

func (st *peerState) stop() {
	for _, pc := range st.conns {
		pc.close()
	}
	for _, c := range st.connectors {
		c.Close()
	}
	if st.svr != nil {
		st.svr.Close()
	}
	if st.gw != nil {
		st.gw.cleanup()
	}
	*st = peerState{}
}

// extra carries the mode-specific configuration: O: <aud> <skipExp> <skipIss>; S: <ak>
func (st *peerState) start(method string, hb, wc bool, extra ...string) {
	st.stop()
	peerQuiet()
	var gw *peerGateway
	if method == "S" {
		gw = newPeerGateway(len(extra) > 0 && peerB(extra[0]))
	}
	var clock *peerClock
	if method == "O" || method == "C" {
		if method == "C" {
			clock = &peerClock{sec: 1_800_000_000}
		}
		peerIdP().set("k1", clock)
	}
	token, noMux, hbTimeout := peerToken, false, int64(90)
	if method == "t" && len(extra) > 0 {
		token = unhx(extra[0])
		noMux = len(extra) > 1 && extra[1] == "0"
		if len(extra) > 2 {
			hbTimeout = int64(atoi(extra[2]))
		}
	}
	var lastErr error
	for attempt := 0; attempt < 5; attempt++ {
		cfg := &v1.ServerConfig{}
		cfg.BindAddr = "127.0.0.1"
		cfg.BindPort, cfg.KCPBindPort, cfg.QUICBindPort = peerFreePorts()
		cfg.Auth.Method = v1.AuthMethodToken
		cfg.Auth.Token = token
		if noMux {
			cfg.Transport.TCPMux = lo.ToPtr(false)
		}
		if method == "o" || method == "O" || method == "C" {
			cfg.Auth.Token = ""
		}
		if method == "O" {
			cfg.Auth.Method = v1.AuthMethodOIDC
			cfg.Auth.OIDC = v1.AuthOIDCServerConfig{
				Issuer:          peerIdP().issuer,
				Audience:        unhx(extra[0]),
				SkipExpiryCheck: peerB(extra[1]),
				SkipIssuerCheck: peerB(extra[2]),
			}
		}
		if gw != nil {
			cfg.SSHTunnelGateway.BindPort = peerFreeTCPPort()
			cfg.SSHTunnelGateway.PrivateKeyFile = gw.hostKeyFile
			cfg.SSHTunnelGateway.AuthorizedKeysFile = gw.akFile // "" = not configured
		}
		if hb {
			cfg.Auth.AdditionalScopes = append(cfg.Auth.AdditionalScopes, v1.AuthScopeHeartBeats)
		}
		if wc {
			cfg.Auth.AdditionalScopes = append(cfg.Auth.AdditionalScopes, v1.AuthScopeNewWorkConns)
		}
		cfg.Transport.HeartbeatTimeout = hbTimeout
		cfg.UserConnTimeout = 1 // a user connection that finds the pool empty gives up after 1 s
		cfg.Complete()
		svr, err := server.NewService(cfg)
		if err != nil {
			lastErr = err
			continue
		}
		if method == "o" {
			svr.VerifAuthSetVerifier(auth.NewOidcAuthVerifier(cfg.Auth.AdditionalScopes, peerStubOIDC{}))
		}
		if method == "C" {
			// the verifier auth.NewTokenVerifier builds (pkg/auth/oidc.go) with ONE difference: oidc.Config.Now is the
			// harness's clock.  Discovery, remote key set and every check are go-oidc's; the consumer around it
			// (subjects, scopes) is frp's auth.NewOidcAuthVerifier.
			provider, err := oidc.NewProvider(context.Background(), peerIdP().issuer)
			if err != nil {
				svr.Close()
				lastErr = err
				continue
			}
			aud := unhx(extra[0])
			v := provider.Verifier(&oidc.Config{
				ClientID:          aud,
				SkipClientIDCheck: aud == "",
				SkipExpiryCheck:   peerB(extra[1]),
				SkipIssuerCheck:   peerB(extra[2]),
				Now:               clock.Now,
			})
			svr.VerifAuthSetVerifier(auth.NewOidcAuthVerifier(cfg.Auth.AdditionalScopes, v))
		}
		go svr.Run(context.Background())
		st.svr, st.port, st.kcpPort, st.quicPort = svr, cfg.BindPort, cfg.KCPBindPort, cfg.QUICBindPort
		st.method = method
		st.token = cfg.Auth.Token
		st.hb, st.wc = hb, wc
		if gw != nil {
			gw.port = cfg.SSHTunnelGateway.BindPort
			st.gw = gw
		}
		st.connectors = map[string]client.Connector{}
		st.conns = map[string]*peerConn{}
		st.ridOf = map[string]string{}
		st.owner = map[string]string{}
		st.lastPing = map[string]int64{}
		st.lp = map[string]int{}
		st.legit = map[string]int{}
		st.noMux = noMux
		st.tports = map[string]int{}
		st.toks = map[string]string{}
		st.clock = clock
		return
	}
	if gw != nil {
		gw.cleanup()
	}
	panic(fmt.Sprint("cannot start frps: ", lastErr))
}

func (st *peerState) connector(tr string) (client.Connector, error) {
	if c, ok := st.connectors[tr]; ok {
		return c, nil
	}
	c, err := st.newConnector(tr)
	if err != nil {
		return nil, err
	}
	st.connectors[tr] = c
	return c, nil
}

func (st *peerState) newConnector(tr string) (client.Connector, error) {
	cc := &v1.ClientCommonConfig{}
	cc.ServerAddr = "127.0.0.1"
	cc.ServerPort = st.port
	cc.Transport.TLS.Enable = lo.ToPtr(false)
	switch tr {
	case "tcp", "tcpn":
		cc.Transport.Protocol = "tcp"
	case "tls":
		cc.Transport.Protocol = "tcp"
		cc.Transport.TLS.Enable = lo.ToPtr(true)
	case "ws":
		cc.Transport.Protocol = "websocket"
	case "wst":
		// the websocket listener with frp's TLS inside the websocket stream
		cc.Transport.Protocol = "websocket"
		cc.Transport.TLS.Enable = lo.ToPtr(true)
	case "kcp":
		cc.Transport.Protocol = "kcp"
		cc.ServerPort = st.kcpPort
	case "quic":
		cc.Transport.Protocol = "quic"
		cc.ServerPort = st.quicPort
	default:
		return nil, fmt.Errorf("unknown transport %s", tr)
	}
	if st.noMux {
		cc.Transport.TCPMux = lo.ToPtr(false)
	}
	cc.Complete()
	cc.Transport.ProxyURL = ""
	c := client.NewConnector(context.Background(), cc)
	if err := c.Open(); err != nil {
		return nil, err
	}
	return c, nil
}

// open a fresh connection whose first message frps's handleConnection will read
func (st *peerState) open(tr string) (net.Conn, error) {
	if tr == "int" {
		c1, c2 := net.Pipe()
		if err := st.svr.VerifAuthInternalListener().PutConn(c1); err != nil {
			return nil, err
		}
		return c2, nil
	}
	if tr == "tcpn" {
		own, err := st.newConnector(tr)
		if err != nil {
			return nil, err
		}
		c, err := own.Connect()
		if err != nil {
			own.Close()
			return nil, err
		}
		return peerOwnConn{Conn: c, own: own}, nil
	}
	c, err := st.connector(tr)
	if err != nil {
		return nil, err
	}
	return c.Connect()
}

func peerRead(rw io.Reader, c net.Conn) (msg.Message, error) {
	_ = c.SetReadDeadline(time.Now().Add(peerTimeout))
	return msg.ReadMsg(rw)
}

func peerIsTimeout(err error) bool {
	var ne net.Error
	return errors.As(err, &ne) && ne.Timeout() || errors.Is(err, os.ErrDeadlineExceeded)
}

// after an error reply the server must close: "closed" | "open" (still open after the timeout)
func peerExpectClosed(c net.Conn) string {
	_ = c.SetReadDeadline(time.Now().Add(peerTimeout))
	buf := make([]byte, 64)
	for {
		_, err := c.Read(buf)
		if err == nil {
			continue
		}
		if peerIsTimeout(err) {
			peerTimedOut()
			return "open"
		}
		return "closed"
	}
}

func (st *peerState) sessions() []server.VerifAuthSession {
	ss := st.svr.VerifAuthSessions()
	seen := map[string]bool{}
	for _, s := range ss {
		seen[s.RunID] = true
		if old, ok := st.lastPing[s.RunID]; !ok {
			st.lastPing[s.RunID] = s.LastPing
		} else if old != s.LastPing {
			st.lastPing[s.RunID] = s.LastPing
			st.lp[s.RunID]++
		}
	}
	for id := range st.lastPing {
		if !seen[id] {
			delete(st.lastPing, id)
			delete(st.lp, id)
			delete(st.legit, id)
		}
	}
	return ss
}

func (st *peerState) session(rid string) (server.VerifAuthSession, bool) {
	for _, s := range st.sessions() {
		if s.RunID == rid {
			return s, true
		}
	}
	return server.VerifAuthSession{}, false
}

func peerB(t string) bool { return t == "1" }

func (st *peerState) ridref(t string) string {
	if strings.HasPrefix(t, "@") {
		if r, ok := st.ridOf[t[1:]]; ok {
			return r
		}
		return "unknown-" + t[1:]
	}
	return unhx(t)
}

// first message Login on a fresh connection over transport tr
func (st *peerState) doLogin(cid, tr, rid string, ts int64, key string, aap bool, pool int) string {
	c, err := st.open(tr)
	if err != nil {
		return "dialerr"
	}
	st.sessions()
	lm := &msg.Login{
		Version: version.Full(), Hostname: "peer", Os: "linux", Arch: "amd64",
		RunID: rid, Timestamp: ts, PrivilegeKey: key, PoolCount: pool,
		ClientSpec: msg.ClientSpec{AlwaysAuthPass: aap},
	}
	if err := msg.WriteMsg(c, lm); err != nil {
		c.Close()
		return "writeerr"
	}
	m, err := peerRead(c, c)
	if err != nil {
		c.Close()
		if peerIsTimeout(err) {
			return "timeout"
		}
		return "eof"
	}
	resp, ok := m.(*msg.LoginResp)
	if !ok {
		c.Close()
		return "unexpected"
	}
	if resp.Error != "" {
		r := "err:" + peerExpectClosed(c)
		c.Close()
		return r
	}
	pc := &peerConn{c: c, rw: c, runID: resp.RunID, established: true}
	if tr != "int" {
		rw, err := netpkg.NewCryptoReadWriter(c, []byte(st.token))
		if err != nil {
			return "cryptoerr"
		}
		pc.rw = rw
	}
	st.conns[cid] = pc
	st.ridOf[cid] = resp.RunID
	st.owner[resp.RunID] = cid
	// a (new or replacing) session starts with a fresh lastPing
	if s, ok := st.session(resp.RunID); ok {
		st.lastPing[resp.RunID] = s.LastPing
		st.lp[resp.RunID] = 0
		st.legit[resp.RunID] = 0
	}
	return "ok:" + hx(resp.RunID)
}

// first message NewWorkConn on a fresh connection over transport tr
func (st *peerState) doWork(cid, tr, rid string, ts int64, key string) string {
	before, known := st.session(rid)
	c, err := st.open(tr)
	if err != nil {
		return "dialerr"
	}
	if err := msg.WriteMsg(c, &msg.NewWorkConn{RunID: rid, Timestamp: ts, PrivilegeKey: key}); err != nil {
		c.Close()
		return "writeerr"
	}
	type rd struct {
		m   msg.Message
		err error
	}
	ch := make(chan rd, 1)
	go func() {
		m, err := peerRead(c, c)
		ch <- rd{m, err}
	}()
	deadline := time.Now().Add(peerTimeout)
	pooled := false
	for {
		select {
		case r := <-ch:
			if pooled && r.err != nil {
				// the reader has stopped (nothing else may be reading when a user connection is handed to this
				// connection later); the connection stays pooled and open
				st.conns[cid] = &peerConn{c: c, rw: c, runID: rid, pooled: true}
				if before.AlwaysPass {
					return "pooled:ap"
				}
				return "pooled"
			}
			if r.err != nil {
				c.Close()
				if peerIsTimeout(r.err) {
					return "timeout"
				}
				return "closed"
			}
			sw, ok := r.m.(*msg.StartWorkConn)
			if !ok || sw.Error == "" {
				c.Close()
				return "unexpected"
			}
			res := "refused:" + peerExpectClosed(c)
			c.Close()
			return res
		default:
		}
		if pooled {
			_ = c.SetReadDeadline(time.Now()) // again: the reader may have set its own deadline in between
			time.Sleep(50 * time.Microsecond)
			continue
		}
		if known {
			if now, ok := st.session(rid); ok && now.Pool > before.Pool {
				pooled = true
				_ = c.SetReadDeadline(time.Now()) // stop the reader
				continue
			}
		}
		if time.Now().After(deadline) {
			c.Close()
			peerTimedOut()
			return "timeout"
		}
		time.Sleep(100 * time.Microsecond)
	}
}

// Ping on the established control connection cid
func (st *peerState) doPing(cid string, ts int64, key string) string {
	pc := st.conns[cid]
	if pc == nil || !pc.established {
		return "gone"
	}
	st.sessions()
	lpBefore, had := st.lp[pc.runID]
	lpAll := lpBefore
	if st.owner[pc.runID] != cid {
		had = false
	}
	if err := msg.WriteMsg(pc.rw, &msg.Ping{PrivilegeKey: key, Timestamp: ts}); err != nil {
		pc.established = false
		return "gone"
	}
	for {
		m, err := peerRead(pc.rw, pc.c)
		if err != nil {
			pc.established = false
			if peerIsTimeout(err) {
				return "timeout"
			}
			return "gone"
		}
		pong, ok := m.(*msg.Pong)
		if !ok {
			continue // ReqWorkConn etc.
		}
		st.sessions()
		moved := "same"
		if had && st.lp[pc.runID] != lpBefore {
			moved = "moved"
		}
		if _, live := st.lp[pc.runID]; live {
			// what moved while a heartbeat on this very control connection was being answered is the heartbeat's
			st.legit[pc.runID] += st.lp[pc.runID] - lpAll
		}
		if pong.Error != "" {
			return "pong:err:" + moved
		}
		return "pong:ok:" + moved
	}
}

// a user connection to the remote port of tcp proxy `name`.  frps takes a work connection out of the owning
// session's pool (Control.GetWorkConn), announces the user on it with StartWorkConn and joins the two; the harness
// listens on every work connection it knows to be pooled, echoes on the one that is chosen and reports which one
// it was (relational: the model checks that it was in the pool of the session that owns the proxy).
func (st *peerState) doUconn(name string) string {
	port, ok := st.tports[name]
	if !ok {
		return "noproxy"
	}
	uc, err := net.DialTimeout("tcp", net.JoinHostPort("127.0.0.1", strconv.Itoa(port)), time.Second)
	if err != nil {
		return "noproxy"
	}
	defer uc.Close()
	var cands []string
	for cid, pc := range st.conns {
		if pc.pooled {
			cands = append(cands, cid)
		}
	}
	sort.Strings(cands)
	type got struct {
		cid string
		ok  bool
	}
	want := "hello-" + name + "\n"
	ch := make(chan got, len(cands))
	for _, cid := range cands {
		c := st.conns[cid].c
		_ = c.SetDeadline(time.Now().Add(2 * time.Second))
		go func(cid string, c net.Conn) {
			m, err := msg.ReadMsg(c)
			sw, isStart := m.(*msg.StartWorkConn)
			if err != nil || !isStart || sw.Error != "" {
				ch <- got{cid, false}
				return
			}
			// this is the frpc side of the proxy now: echo what the user sends
			buf := make([]byte, len(want))
			if _, err := io.ReadFull(c, buf); err == nil {
				_, _ = c.Write(buf)
			}
			ch <- got{cid, true}
		}(cid, c)
	}
	// with an empty pool frps asks the client for a connection, waits userConnTimeout (1 s) and closes the user
	// connection; no pooled connection is touched then
	_ = uc.SetDeadline(time.Now().Add(2 * time.Second))
	_, _ = uc.Write([]byte(want))
	back := make([]byte, len(want))
	_, rerr := io.ReadFull(uc, back)
	echoed := rerr == nil && string(back) == want
	for _, cid := range cands {
		_ = st.conns[cid].c.SetReadDeadline(time.Now()) // stop the readers that were not chosen
	}
	chosen := ""
	for range cands {
		if g := <-ch; g.ok {
			chosen = g.cid
		}
	}
	if chosen == "" {
		return "e0"
	}
	st.conns[chosen].close()
	delete(st.conns, chosen)
	if !echoed {
		return "e0:" + chosen
	}
	return "e1:" + chosen
}

// did Control.lastPing of some session move without an accepted-or-not heartbeat on its control connection that
// accounts for it?  (then resynchronise, so that one unexplained move is reported once)
func (st *peerState) livenessMoved() bool {
	if st.svr == nil {
		return false
	}
	st.sessions()
	moved := false
	for rid, n := range st.lp {
		if st.legit[rid] != n {
			moved = true
			st.legit[rid] = n
		}
	}
	return moved
}

func peerExec(tok []string) string {
	r := peerExec1(tok)
	if tok[0] != "reset" && peerSt.livenessMoved() {
		r += "!lp"
	}
	return r
}

func peerExec1(tok []string) string {
	st := peerSt
	if tok[0] == "reset" {
		st.start(tok[1], peerB(tok[2]), peerB(tok[3]), tok[4:]...)
		return "-"
	}
	if st.svr == nil {
		st.start("t", false, false)
	}
	if r, ok := peerAuthExec(st, tok); ok {
		return r
	}
	switch tok[0] {
	case "login":
		return st.doLogin(tok[1], tok[2], unhx(tok[3]), int64(atoi(tok[4])), unhx(tok[5]), peerB(tok[7]), atoi(tok[8]))

	case "work":
		return st.doWork(tok[1], tok[2], st.ridref(tok[3]), int64(atoi(tok[4])), unhx(tok[5]))

	case "visit":
		tr, rid, name := tok[2], st.ridref(tok[3]), unhx(tok[4])
		c, err := st.open(tr)
		if err != nil {
			return "dialerr"
		}
		defer c.Close()
		if err := msg.WriteMsg(c, &msg.NewVisitorConn{RunID: rid, ProxyName: name, SignKey: "bad", Timestamp: 1}); err != nil {
			return "writeerr"
		}
		m, err := peerRead(c, c)
		if err != nil {
			if peerIsTimeout(err) {
				return "timeout"
			}
			return "eof"
		}
		resp, ok := m.(*msg.NewVisitorConnResp)
		if !ok {
			return "unexpected"
		}
		if resp.Error == "" {
			return "vok"
		}
		return "verr:" + peerExpectClosed(c)

	case "first":
		tr, kind := tok[2], tok[3]
		c, err := st.open(tr)
		if err != nil {
			return "dialerr"
		}
		defer c.Close()
		good := peerKey(st.token, 5)
		var m any
		var rawb []byte
		frame := func(t byte, n int64, body string) []byte {
			b := []byte{t}
			b = binary.BigEndian.AppendUint64(b, uint64(n))
			return append(b, body...)
		}
		switch kind {
		case "ping":
			m = &msg.Ping{PrivilegeKey: good, Timestamp: 5}
		case "pong":
			m = &msg.Pong{}
		case "newproxy":
			m = &msg.NewProxy{ProxyName: "p1", ProxyType: "stcp"}
		case "closeproxy":
			m = &msg.CloseProxy{ProxyName: "p1"}
		case "reqwork":
			m = &msg.ReqWorkConn{}
		case "startwork":
			m = &msg.StartWorkConn{ProxyName: "p1"}
		case "loginresp":
			m = &msg.LoginResp{RunID: "r1"}
		case "newproxyresp":
			m = &msg.NewProxyResp{ProxyName: "p1"}
		case "udp":
			m = udpPacketOf([]byte("hi"), nil, nil) // eng_udp.go; content text "aGk="
		case "nhvisitor":
			m = &msg.NatHoleVisitor{ProxyName: "p1", SignKey: good, Timestamp: 5}
		case "nhclient":
			m = &msg.NatHoleClient{ProxyName: "p1"}
		case "nhreport":
			m = &msg.NatHoleReport{Sid: "s"}
		case "badtype":
			rawb = frame('!', 2, "{}")
		case "zerotype":
			rawb = frame(0, 2, "{}")
		case "biglen":
			rawb = frame('o', 1<<40, "")
		case "neglen":
			rawb = frame('o', -1, "")
		case "badjson":
			rawb = frame('o', 5, "{{{{{")
		case "emptybody":
			rawb = frame('o', 0, "")
		case "wrongshape":
			rawb = frame('o', 14, `{"run_id":[1]}`)
		default:
			return "badkind"
		}
		if m != nil {
			err = msg.WriteMsg(c, m)
		} else {
			_, err = c.Write(rawb)
		}
		// a write error here means the server already closed while we were still writing (net.Pipe is
		// unbuffered: frps stops reading a malformed frame after the type byte); the read below tells
		_ = err
		return peerExpectClosed(c)

	case "raw":
		b, _ := hex.DecodeString(tok[1])
		c, err := net.DialTimeout("tcp", net.JoinHostPort("127.0.0.1", strconv.Itoa(st.port)), peerTimeout)
		if err != nil {
			return "dialerr"
		}
		defer c.Close()
		if _, err := c.Write(b); err != nil {
			return "writeerr"
		}
		return peerExpectClosed(c)

	case "ping":
		return st.doPing(tok[1], int64(atoi(tok[2])), unhx(tok[3]))

	case "uconn":
		return st.doUconn(unhx(tok[1]))

	case "nproxy", "tproxy":
		cid, name := tok[1], unhx(tok[2])
		pc := st.conns[cid]
		if pc == nil || !pc.established {
			return "gone"
		}
		np := &msg.NewProxy{ProxyName: name, ProxyType: "stcp", Sk: "k"}
		if tok[0] == "tproxy" {
			np = &msg.NewProxy{ProxyName: name, ProxyType: "tcp", RemotePort: 0}
		}
		if err := msg.WriteMsg(pc.rw, np); err != nil {
			pc.established = false
			return "gone"
		}
		for {
			m, err := peerRead(pc.rw, pc.c)
			if err != nil {
				pc.established = false
				if peerIsTimeout(err) {
					return "timeout"
				}
				return "gone"
			}
			r, ok := m.(*msg.NewProxyResp)
			if !ok {
				continue
			}
			if r.Error != "" {
				return "err"
			}
			if tok[0] == "tproxy" {
				if i := strings.LastIndex(r.RemoteAddr, ":"); i >= 0 {
					if p, err := strconv.Atoi(r.RemoteAddr[i+1:]); err == nil {
						st.tports[name] = p
					}
				}
			}
			return "ok"
		}

	case "cproxy":
		cid, name := tok[1], unhx(tok[2])
		pc := st.conns[cid]
		if pc == nil || !pc.established {
			return "gone"
		}
		if err := msg.WriteMsg(pc.rw, &msg.CloseProxy{ProxyName: name}); err != nil {
			pc.established = false
			return "gone"
		}
		// CloseProxy is not answered.  Messages of one control connection are handled in order, so the error reply to a
		// NewProxy of a type frps does not know tells that the CloseProxy has been dealt with.
		sync := "sync-" + cid
		if err := msg.WriteMsg(pc.rw, &msg.NewProxy{ProxyName: sync, ProxyType: "no-such-type"}); err != nil {
			pc.established = false
			return "gone"
		}
		for {
			m, err := peerRead(pc.rw, pc.c)
			if err != nil {
				pc.established = false
				if peerIsTimeout(err) {
					return "timeout"
				}
				return "gone"
			}
			r, ok := m.(*msg.NewProxyResp)
			if !ok || r.ProxyName != sync {
				continue
			}
			if r.Error == "" {
				return "unexpected"
			}
			return "ok"
		}

	case "wait":
		time.Sleep(time.Duration(atoi(tok[1])) * time.Millisecond)
		return "-"

	case "alive":
		cid := tok[1]
		rid, ok := st.ridOf[cid]
		if !ok || st.owner[rid] != cid {
			return "dead"
		}
		deadline := time.Now().Add(600 * time.Millisecond)
		for {
			if _, live := st.session(rid); !live {
				delete(st.owner, rid)
				return "dead"
			}
			if tok[2] != "dead" || time.Now().After(deadline) {
				return "alive"
			}
			time.Sleep(500 * time.Microsecond)
		}

	case "authkey":
		return hx(util.GetAuthKey(unhx(tok[1]), int64(atoi(tok[2]))))

	case "authkey2":
		ts := int64(atoi(tok[3]))
		return hx(util.GetAuthKey(unhx(tok[1]), ts)) + ":" + hx(util.GetAuthKey(unhx(tok[2]), ts))

	case "drop":
		cid := tok[1]
		pc := st.conns[cid]
		if pc == nil {
			return "-"
		}
		pc.close()
		delete(st.conns, cid)
		if pc.established && st.owner[pc.runID] == cid {
			deadline := time.Now().Add(peerTimeout)
			for {
				if _, ok := st.session(pc.runID); !ok {
					break
				}
				if time.Now().After(deadline) {
					return "timeout"
				}
				time.Sleep(100 * time.Microsecond)
			}
			delete(st.owner, pc.runID)
		}
		return "-"

	case "dump":
		ss := st.sessions()
		if len(ss) == 0 {
			return "empty"
		}
		var parts []string
		for _, s := range ss {
			var px []string
			for i, n := range s.Proxies {
				p := hx(n)
				if !s.InManager[i] {
					p += "!"
				}
				px = append(px, p)
			}
			ap := "0"
			if s.AlwaysPass {
				ap = "1"
			}
			parts = append(parts, fmt.Sprintf("%s,%s,%d,%d,%d,%s", hx(s.RunID), ap, s.Pool, s.PoolCap, st.lp[s.RunID], strings.Join(px, "+")))
		}
		return strings.Join(parts, ";")
	}
	return "badop"
}

// ------------------------------------------------------------------ generator

const peerEpisodeKinds = 16

type peerGenTok struct {
	id       string
	spec     string
	accepted bool // by the server of this episode, at the time it was minted
	short    bool // expires 3 s after it was minted
	sub      string
}

type peerGen struct {
	rng    *rand.Rand
	emit   func(string)
	method string
	n      int
	next   int
	logins []string // cids of login attempts expected to succeed
	named  []string
	subj   []string
	// O episodes: the server's OIDC options; S episodes: authorized_keys state and live tunnels
	oaud             string
	oskipExp, oskipI bool
	ohb, owc         bool
	akSet            bool
	akMode           string
	tunnels          []string
	hb, wc           bool // scopes of the running episode (classic and siege episodes)
	uproxies         []string
	tokSeq           int
	token            string // the token frps of this episode is configured with
	noMux            bool   // transport.tcpMux off in this episode
	pub              string // O / C episodes: the keys the provider publishes now
	toks             []peerGenTok // O / C episodes: minted tokens that can be replayed
}

func (g *peerGen) cid() string { g.next++; return "c" + strconv.Itoa(g.next) }

func (g *peerGen) tr() string {
	r := g.rng.Intn(100)
	if g.noMux && r >= 66 && r < 75 {
		// without yamux a kcp connection has no close notification: the harness could not see refusals
		return "tcp"
	}
	switch {
	case r < 40:
		return "tcp"
	case r < 50:
		return "tls"
	case r < 60:
		return "ws"
	case r < 66:
		return "wst"
	case r < 75:
		return "kcp"
	case r < 84:
		return "quic"
	default:
		return "int"
	}
}

func (g *peerGen) netTr() string {
	for {
		if t := g.tr(); t != "int" {
			return t
		}
	}
}

// timestamps of all magnitudes (the key is md5(token ++ decimal(ts)): 1 … 20 characters, with and without sign)
func (g *peerGen) ts() int64 {
	if g.rng.Intn(3) == 0 {
		return pick(g.rng, []int64{-1, 9, 10, 99, 100, 4096, 999999999, 1 << 31, 1<<32 - 1, 1 << 32, 10000000000, -(1 << 31),
			-1700000000, 1<<53 + 1, 9223372036854775806, -9223372036854775807, -9223372036854775808})
	}
	return pick(g.rng, []int64{0, 1, 5, 12, -3, 1700000000, 1893456000, 9223372036854775807})
}

// ------------------------------------------------------------------ tokens
//
// The configured token is a configuration input of the property ("for all configurations"): every length from 0 to 200
// bytes with the MD5 block boundaries (55/56, 63/64/65, 119/120, 127/128) over-represented; printable ASCII, tokens
// ending in digits (token and timestamp are concatenated without a separator), multi-byte UTF-8, arbitrary bytes.

var peerTokenLens = []int{0, 1, 2, 7, 8, 15, 16, 17, 31, 32, 33, 54, 55, 56, 57, 62, 63, 64, 65, 66, 100, 118, 119, 120, 121,
	126, 127, 128, 129, 199, 200}

func peerRandToken(rng *rand.Rand) string {
	n := pick(rng, peerTokenLens)
	if rng.Intn(3) == 0 {
		n = rng.Intn(201)
	}
	var b []byte
	switch rng.Intn(6) {
	case 5: // white space at the ends and inside (space, tab, newline, CR): nothing may trim or normalise a token
		const ws = " \t\n\r"
		for len(b) < n {
			if len(b) < 2 || len(b) >= n-2 || rng.Intn(6) == 0 {
				b = append(b, ws[rng.Intn(len(ws))])
			} else {
				b = append(b, "abcXYZ019"[rng.Intn(9)])
			}
		}
	case 0: // multi-byte UTF-8 (2-, 3- and 4-byte sequences), cut to n bytes at a rune boundary where possible
		runes := []rune("äßéñ中文字𝄞😀€λжЖ")
		for len(b) < n {
			r := string(runes[rng.Intn(len(runes))])
			if len(b)+len(r) > n {
				r = "z"
			}
			b = append(b, r...)
		}
	case 1: // any bytes
		b = make([]byte, n)
		for i := range b {
			b[i] = byte(rng.Intn(256))
		}
	case 2: // ends in digits
		for len(b) < n {
			b = append(b, "0123456789"[rng.Intn(10)])
		}
		if n > 3 {
			copy(b, "tok")
		}
	default:
		const abc = "abcdefghijklmnopqrstuvwxyzABCDEFGHIJKLMNOPQRSTUVWXYZ0123456789-_.!"
		for len(b) < n {
			b = append(b, abc[rng.Intn(len(abc))])
		}
	}
	return string(b)
}

// a token that is NOT tok but close to it: a proper prefix (cut at 64, 63, one byte short, half, …), an extension, one
// byte changed (first, last, around the 64th)
func peerNearToken(rng *rand.Rand, tok string) string {
	n := len(tok)
	for try := 0; try < 8; try++ {
		var o string
		switch rng.Intn(8) {
		case 0:
			if k := pick(rng, []int{64, 63, 65, 32, 16, 128, 56, 55}); k < n {
				o = tok[:k]
			}
		case 1:
			if n > 0 {
				o = tok[:n-1]
			}
		case 2:
			if n > 1 {
				o = tok[:rng.Intn(n)]
			}
		case 3:
			o = tok + pick(rng, []string{"x", "0", "\x00", " ", "\n", "\t", tok})
			if rng.Intn(4) == 0 {
				o = pick(rng, []string{" ", "\t", "\n"}) + tok
			}
		case 4:
			if n > 0 {
				i := pick(rng, []int{0, n - 1, 63, 64, n / 2})
				if i < n {
					b := []byte(tok)
					b[i] ^= byte(1 + rng.Intn(255))
					o = string(b)
				}
			}
		case 5:
			// same first 64 bytes, another tail
			if n > 64 {
				o = tok[:64] + peerRandToken(rng)
			}
		case 6:
			// another letter case
			if u := strings.ToUpper(tok); u != tok {
				o = u
			} else {
				o = strings.ToLower(tok)
			}
		default:
			if n > 0 {
				o = tok[1:]
			}
		}
		if o != tok && (o != "" || n > 0 && rng.Intn(4) == 0) {
			return o
		}
	}
	return tok + "#"
}

// returns (key, exp) for the chosen timestamp
func (g *peerGen) key(ts int64, good bool) (string, string) {
	exp := peerKey(g.token, ts)
	if g.method == "O" {
		// raw strings sent to the real verifier: none of them is a JWT
		return pick(g.rng, []string{"", "x", "s:alice", "a.b.c", "e30.e30.", exp}), exp
	}
	if g.method == "o" {
		if good {
			return "s:" + pick(g.rng, []string{"alice", "bob", "carol"}), exp
		}
		return pick(g.rng, []string{"", "x", "s:", "S:alice", "alice", exp}), exp
	}
	if good {
		return exp, exp
	}
	switch g.rng.Intn(11) {
	case 0:
		return "", exp
	case 1:
		if ts == 9223372036854775807 {
			return peerKey(g.token, ts-1), exp
		}
		return peerKey(g.token, ts+1), exp // valid for another timestamp (stale / replayed with a new ts)
	case 2:
		return peerKey("other-token", ts), exp
	case 3:
		return strings.ToUpper(exp), exp
	case 4:
		return exp[:31], exp
	case 5:
		return exp + "0", exp
	case 6:
		return peerKey(g.token+strconv.FormatInt(ts, 10), ts), exp
	case 7:
		return g.token, exp // the token itself instead of the digest
	default:
		// the key of a token close to the configured one: a prefix, an extension, one byte off
		return peerKey(peerNearToken(g.rng, g.token), ts), exp
	}
}

// the token of the next token-method episode, and whether tcpMux is on
func (g *peerGen) nextToken() (string, int) {
	g.token = peerToken
	if g.rng.Intn(5) > 1 {
		g.token = peerRandToken(g.rng)
	}
	mux := 1
	if g.rng.Intn(4) == 0 {
		mux = 0
	}
	g.noMux = mux == 0
	return g.token, mux
}

// a first message that is not Login / NewWorkConn / NewVisitorConn, or a malformed frame.  Without yamux the 9-byte
// frames would sit in the port muxer of frps, which reads 10 bytes before it picks a listener: nothing reaches
// handleConnection until its timeout
func (g *peerGen) firstOp(tr string) {
	kind := pick(g.rng, peerFirstKinds)
	if g.noMux && (tr == "tcp" || tr == "tcpn") && (kind == "biglen" || kind == "neglen" || kind == "emptybody") {
		kind = "badjson"
	}
	g.op(fmt.Sprintf("first %s %s %s", g.cid(), tr, kind))
}

// util.GetAuthKey itself: a token (of the classes above) and a timestamp; two tokens close to one another
func (g *peerGen) authkeys(k int) {
	for ; k > 0; k-- {
		tok := peerRandToken(g.rng)
		if g.rng.Intn(4) == 0 {
			tok = g.token
		}
		ts := g.ts()
		if g.rng.Intn(2) == 0 {
			g.op(fmt.Sprintf("authkey %s %d %s", hx(tok), ts, hx(peerKey(tok, ts))))
			continue
		}
		other := peerNearToken(g.rng, tok)
		if g.rng.Intn(8) == 0 {
			other = tok
		}
		g.op(fmt.Sprintf("authkey2 %s %s %d", hx(tok), hx(other), ts))
	}
}

func (g *peerGen) op(s string) { g.emit(s); g.n++ }

func (g *peerGen) dump() { g.op("dump") }

func (g *peerGen) login(good bool, tr string) {
	cid := g.cid()
	ts := g.ts()
	key, exp := g.key(ts, good)
	rid := ""
	switch r := g.rng.Intn(10); {
	case r < 3:
		rid = pick(g.rng, []string{"r1", "r2", "r3"})
	case r == 3 && len(g.named) > 0:
		rid = pick(g.rng, g.named)
	}
	aap := g.rng.Intn(2)
	if !good && g.rng.Intn(3) > 0 {
		aap = 1 // the peer claims the exemption
	}
	pool := pick(g.rng, []int{0, 0, 1, 7})
	g.op(fmt.Sprintf("login %s %s %s %d %s %s %d %d", cid, tr, hx(rid), ts, hx(key), hx(exp), aap, pool))
	if good || (tr == "int" && aap == 1) {
		g.logins = append(g.logins, cid)
		if rid != "" {
			g.named = append(g.named, rid)
		}
	}
}

func (g *peerGen) ridref() string {
	r := g.rng.Intn(100)
	switch {
	case r < 45 && len(g.tunnels) > 0:
		// a session the ssh gateway's virtual client created
		return "@" + g.tunnels[len(g.tunnels)-1-g.rng.Intn(min(len(g.tunnels), 4))]
	case r < 70 && len(g.logins) > 0:
		return "@" + g.logins[len(g.logins)-1-g.rng.Intn(min(len(g.logins), 4))]
	case r < 82:
		return hx(pick(g.rng, []string{"r1", "r2", "r3"}))
	case r < 90:
		return "@c" + strconv.Itoa(g.next+100) // never logged in
	default:
		return hx(pick(g.rng, []string{"", "nope", "0123456789abcdef"}))
	}
}

func (g *peerGen) work(good bool, tr, ref string) {
	ts := g.ts()
	key, exp := g.key(ts, good)
	g.op(fmt.Sprintf("work %s %s %s %d %s %s", g.cid(), tr, ref, ts, hx(key), hx(exp)))
}

var peerFirstKinds = []string{"ping", "pong", "newproxy", "closeproxy", "reqwork", "startwork", "loginresp",
	"newproxyresp", "udp", "nhvisitor", "nhclient", "nhreport", "badtype", "zerotype", "biglen", "neglen",
	"badjson", "emptybody", "wrongshape"}

func (g *peerGen) refusedAttempt() {
	switch g.rng.Intn(5) {
	case 0, 1:
		g.login(false, g.tr())
	case 2:
		if g.rng.Intn(2) == 0 {
			g.work(false, g.netTr(), g.ridref())
		} else {
			g.work(true, g.tr(), hx(pick(g.rng, []string{"nope", "", "zz"})))
		}
	case 3:
		g.firstOp(g.tr())
	default:
		g.op(fmt.Sprintf("visit %s %s %s %s", g.cid(), g.tr(), g.ridref(), hx(pick(g.rng, []string{"p1", "p2", "ghost"}))))
	}
}

func (g *peerGen) someLogin() string {
	if len(g.logins) == 0 || g.rng.Intn(12) == 0 {
		return "c" + strconv.Itoa(1+g.rng.Intn(g.next+1))
	}
	return g.logins[len(g.logins)-1-g.rng.Intn(min(len(g.logins), 5))]
}

// "heartbeats without a valid key do not keep a session alive", in real time: frps with the HeartBeats scope and a
// heartbeat timeout of 1 s.  The victim sends valid heartbeats for a while, then only heartbeats with keys that are not
// accepted, interleaved with other requests on its control connection (CloseProxy, NewProxy that fail or succeed) and
// work connections naming it, every 500 ms for 3.5 s (more than timeout + 2 s); a bystander keeps sending valid heartbeats.
// The victim must be gone, the bystander alive.  (The model lets the watchdog fire anywhere between timeout - 0.3 s
// and timeout + 2 s of model time: the implementation's "gone" decides, relationally.)
func (g *peerGen) heartbeatScenario() {
	rng := g.rng
	g.method = "t"
	g.logins, g.named, g.uproxies, g.toks = nil, nil, nil, nil
	tok, mux := g.nextToken()
	g.hb, g.wc = true, rng.Intn(2) == 0
	wc := 0
	if g.wc {
		wc = 1
	}
	g.op(fmt.Sprintf("reset t 1 %d %s %d 1", wc, hx(tok), mux))
	victim, other := g.cid(), g.cid()
	for _, c := range []string{victim, other} {
		ts := g.ts()
		key, exp := g.key(ts, true)
		rid := ""
		if c == victim {
			rid = "v1"
		}
		g.op(fmt.Sprintf("login %s %s %s %d %s %s 0 1", c, pick(rng, []string{"tcp", "tls", "ws"}), hx(rid), ts, hx(key), hx(exp)))
	}
	g.op(fmt.Sprintf("nproxy %s %s", victim, hx("p1")))
	ping := func(c string, good bool) {
		ts := g.ts()
		key, exp := g.key(ts, good)
		g.op(fmt.Sprintf("ping %s %d %s %s", c, ts, hx(key), hx(exp)))
	}
	for i := 0; i < 2; i++ {
		g.op("wait 250")
		ping(victim, true)
		ping(other, true)
	}
	g.op(fmt.Sprintf("alive %s alive", victim))
	// from here on the victim has no valid key any more
	for i := 0; i < 7; i++ {
		g.op("wait 500")
		ping(other, true)
		for j := 1 + rng.Intn(2); j > 0; j-- {
			switch rng.Intn(5) {
			case 0, 1:
				ping(victim, false)
			case 2:
				g.op(fmt.Sprintf("cproxy %s %s", victim, hx(pick(rng, []string{"ghost", "p1", "p2"}))))
			case 3:
				g.op(fmt.Sprintf("nproxy %s %s", victim, hx(pick(rng, []string{"p1", "p2"}))))
			default:
				if g.wc {
					ts := g.ts()
					key, exp := g.key(ts, false)
					g.op(fmt.Sprintf("work %s tcp %s %d %s %s", g.cid(), hx("v1"), ts, hx(key), hx(exp)))
				} else {
					ping(victim, false)
				}
			}
		}
	}
	g.op(fmt.Sprintf("alive %s dead", victim))
	g.op(fmt.Sprintf("alive %s alive", other))
	g.dump()
}

func peerGenRun(rng *rand.Rand, n int, emit func(string)) {
	g := &peerGen{rng: rng, emit: emit}
	if n >= 200 {
		g.heartbeatScenario()
	}
	cfgNo := rng.Intn(peerEpisodeKinds)
	for g.n < n {
		// one episode per configuration: every (method, scope subset) in turn; 2 of 16 episodes run the real
		// OIDC verifier against the in-process provider, 2 the ssh tunnel gateway, 2 the go-oidc verifier with an
		// injected clock, 2 are sieges
		k := cfgNo % peerEpisodeKinds
		cfgNo++
		g.logins, g.named, g.uproxies, g.toks = nil, nil, nil, nil
		switch {
		case k == 12 || k == 13:
			g.clockEpisode(n, k == 13)
			continue
		case k == 14 || k == 15:
			g.siegeEpisode(n, map[int]string{14: "t", 15: "o"}[k])
			continue
		}
		switch {
		case k == 8 || k == 9:
			g.oidcEpisode(n, k == 9)
			continue
		case k >= 10:
			g.sshEpisode(n, k == 10)
			continue
		}
		g.method = "t"
		if k >= 4 && k%2 == 1 { // 2 of 12 episodes use the stub OIDC verifier
			g.method = "o"
		}
		hb, wc := (k>>0)&1, (k>>1)&1
		if g.method == "o" {
			hb, wc = (k>>1)&1, 1
		}
		g.hb, g.wc = hb == 1, wc == 1
		if g.method == "t" {
			tok, mux := g.nextToken()
			g.op(fmt.Sprintf("reset t %d %d %s %d", hb, wc, hx(tok), mux))
			g.authkeys(8)
		} else {
			g.token, g.noMux = "", false
			g.op(fmt.Sprintf("reset %s %d %d", g.method, hb, wc))
		}
		g.login(true, "tcp")
		g.dump()
		for k := 0; k < 45 && g.n < n; k++ {
			g.classicStep()
			g.dump()
		}
	}
}

// ------------------------------------------------------------------ sieges: "refused attempts, HOWEVER MANY"
//
// A siege is a long run (64 … 111, now and then 256 … 319) of operations every one of which frps must refuse, aimed
// at ONE live session (its run id / its control connection) or at run ids nobody holds, arriving as streams of one
// connection, each on a connection of its own, or over all transports.  Before and after it the tables are dumped
// (they must be equal), then the besieged session must still answer a heartbeat, take a valid work connection and
// carry a user connection through its tcp proxy.

const (
	siegeWorkBadKey = iota // NewWorkConn naming the victim's run id with a key that is not accepted (NewWorkConns scope)
	siegeWorkUnknown       // NewWorkConn (good and bad keys) naming run ids that are not in the table
	siegeLogin             // Login with a bad key: no run id, the victim's run id, other ids; the flag claimed
	siegeVisitor           // NewVisitorConn with a bad sign key for the victim / unknown run ids
	siegePing              // Ping with a bad key on the victim's own control connection (HeartBeats scope)
	siegeGarbage           // other first messages and malformed frames
	siegeMixed             // all of the above
	siegeKinds
)

// a key that is refused on a ping / work connection: besides the bad login keys, with the stub OIDC verifier a
// well-formed token of a subject that never logged in
func (g *peerGen) badPostKey(ts int64) (string, string) {
	if g.method == "o" && g.rng.Intn(3) == 0 {
		return "s:" + pick(g.rng, []string{"mallory", "dave", "Alice"}), peerKey(g.token, ts)
	}
	return g.key(ts, false)
}

func (g *peerGen) siegeLen() int {
	if g.rng.Intn(8) == 0 {
		return 256 + g.rng.Intn(64)
	}
	return 64 + g.rng.Intn(48)
}

// is every operation of this kind refused under the scopes of the running episode
func (g *peerGen) siegeApplies(kind int) bool {
	switch kind {
	case siegeWorkBadKey:
		return g.wc
	case siegePing:
		return g.hb
	}
	return true
}

// victim = cid of the besieged session's login, vrid = its run id ("" = chosen by frps: named by reference only)
func (g *peerGen) siege(kind int, victim, vrid string, count int) {
	rng := g.rng
	// 0: streams of one tcp connection; 1: a connection of its own for each attempt; 2: every transport
	conns := rng.Intn(3)
	tr := func() string {
		switch conns {
		case 0:
			return "tcp"
		case 1:
			return "tcpn"
		}
		if rng.Intn(3) == 0 {
			return "tcpn"
		}
		return g.tr()
	}
	netTr := func() string {
		for {
			if t := tr(); t != "int" {
				return t
			}
		}
	}
	// refused logins: all naming the victim's run id, or a mix of none / the victim's / others
	focus := rng.Intn(2) == 0
	unknown := func() string {
		return hx(pick(rng, []string{"nope", "", "0123456789abcdef", "v1x", "V1", "r9", "gone-" + strconv.Itoa(rng.Intn(4))}))
	}
	for j := 0; j < count; j++ {
		k := kind
		if k == siegeMixed {
			for {
				if k = rng.Intn(siegeMixed); g.siegeApplies(k) {
					break
				}
			}
		}
		switch k {
		case siegeWorkBadKey:
			ts := g.ts()
			key, exp := g.badPostKey(ts)
			g.op(fmt.Sprintf("work %s %s @%s %d %s %s", g.cid(), netTr(), victim, ts, hx(key), hx(exp)))
		case siegeWorkUnknown:
			g.work(rng.Intn(2) == 0, tr(), unknown())
		case siegeLogin:
			cid := g.cid()
			ts := g.ts()
			key, exp := g.key(ts, false)
			rid := vrid
			if !focus {
				rid = pick(rng, []string{"", "", vrid, vrid, "r1", "zz"})
			}
			g.op(fmt.Sprintf("login %s %s %s %d %s %s %d %d", cid, netTr(), hx(rid), ts, hx(key), hx(exp), min(rng.Intn(3), 1), pick(rng, []int{0, 1, 7})))
		case siegeVisitor:
			ref := unknown()
			if rng.Intn(2) == 0 {
				ref = "@" + victim
			}
			g.op(fmt.Sprintf("visit %s %s %s %s", g.cid(), tr(), ref, hx(pick(rng, []string{"p1", "u1", "ghost"}))))
		case siegePing:
			ts := g.ts()
			key, exp := g.badPostKey(ts)
			g.op(fmt.Sprintf("ping %s %d %s %s", victim, ts, hx(key), hx(exp)))
		default:
			g.firstOp(tr())
		}
	}
}

// the besieged session afterwards: heartbeat, a valid work connection, a user connection through its proxy
func (g *peerGen) afterSiege(victim, uproxy string) {
	g.dump()
	for _, k := range g.rng.Perm(3) {
		switch k {
		case 0:
			ts := g.ts()
			key, exp := g.key(ts, true)
			g.op(fmt.Sprintf("ping %s %d %s %s", victim, ts, hx(key), hx(exp)))
		case 1:
			g.work(true, pick(g.rng, []string{"tcp", "tcp", "tcpn"}), "@"+victim)
		default:
			if uproxy != "" {
				g.op("uconn " + hx(uproxy))
			}
		}
	}
	g.dump()
}

// an episode that is nothing but sieges of every applicable kind against one session (token or stub-OIDC method)
func (g *peerGen) siegeEpisode(n int, method string) {
	rng := g.rng
	g.method = method
	g.hb, g.wc = rng.Intn(5) > 0, rng.Intn(5) > 0
	b := func(x bool) int {
		if x {
			return 1
		}
		return 0
	}
	if method == "t" {
		tok, mux := g.nextToken()
		g.op(fmt.Sprintf("reset t %d %d %s %d", b(g.hb), b(g.wc), hx(tok), mux))
	} else {
		g.token, g.noMux = "", false
		g.op(fmt.Sprintf("reset %s %d %d", method, b(g.hb), b(g.wc)))
	}
	// the victim: a run id of its own choosing (so that refused logins can name it), one pooled work connection,
	// a tcp proxy; next to it a bystander session
	victim := g.cid()
	vrid := "v1"
	ts := g.ts()
	key, exp := g.key(ts, true)
	g.op(fmt.Sprintf("login %s tcp %s %d %s %s 0 1", victim, hx(vrid), ts, hx(key), hx(exp)))
	g.logins = append(g.logins, victim)
	g.login(true, g.netTr())
	g.op(fmt.Sprintf("tproxy %s %s", victim, hx("u1")))
	g.op(fmt.Sprintf("nproxy %s %s", victim, hx("p1")))
	g.work(true, "tcp", "@"+victim)
	g.work(true, g.netTr(), "@"+victim)
	g.dump()
	kinds := rng.Perm(siegeKinds)
	for _, kind := range kinds {
		if g.n >= n {
			return
		}
		if !g.siegeApplies(kind) {
			continue
		}
		g.dump()
		g.siege(kind, victim, vrid, g.siegeLen())
		g.afterSiege(victim, "u1")
	}
}

// one step of a token / stub-OIDC episode
func (g *peerGen) classicStep() {
	rng := g.rng
	r := rng.Intn(100)
	switch {
	case r < 16:
		g.login(true, g.tr())
	case r < 30:
		g.login(false, g.tr())
	case r < 46:
		ts := g.ts()
		key, exp := g.key(ts, rng.Intn(5) < 2)
		g.op(fmt.Sprintf("ping %s %d %s %s", g.someLogin(), ts, hx(key), hx(exp)))
	case r < 68:
		g.work(rng.Intn(2) == 0, g.tr(), g.ridref())
	case r < 74:
		g.firstOp(g.tr())
	case r < 78:
		g.op(fmt.Sprintf("visit %s %s %s %s", g.cid(), g.tr(), g.ridref(), hx(pick(rng, []string{"p1", "p2", "ghost"}))))
	case r < 83:
		g.op(fmt.Sprintf("nproxy %s %s", g.someLogin(), hx(pick(rng, []string{"p1", "p2", "p3", "p4"}))))
	case r < 85:
		// CloseProxy: a registered name, a name of another session, a name nobody holds
		g.op(fmt.Sprintf("cproxy %s %s", g.someLogin(), hx(pick(rng, []string{"p1", "p2", "p3", "ghost", "u1"}))))
	case r < 88:
		g.op("drop " + g.someLogin())
	case r < 89 && rng.Intn(2) == 0:
		g.authkeys(2)
	case r < 89:
		g.op("raw " + pick(rng, []string{
			hex.EncodeToString([]byte("HELLO WORLD, THIS IS NOT YAMUX")),
			"ffffffffffffffffffffffffffffffff",
			"00090000000000010000000000000000"}))
	case r < 93:
		// a burst of refused attempts of every kind, then the tables must be what they were
		g.dump()
		for j := 3 + rng.Intn(10); j > 0; j-- {
			g.refusedAttempt()
		}
	case r < 96:
		// a tcp proxy / a user connection through one (served by a pooled work connection of its session)
		name := pick(rng, []string{"u1", "u2"})
		if rng.Intn(2) == 0 {
			g.op(fmt.Sprintf("tproxy %s %s", g.someLogin(), hx(name)))
		} else {
			g.op("uconn " + hx(name))
		}
	case r < 97 && len(g.logins) > 0:
		// a siege in the middle of whatever state the episode is in
		victim := g.logins[len(g.logins)-1]
		for {
			if kind := rng.Intn(siegeKinds); g.siegeApplies(kind) {
				g.dump()
				g.siege(kind, victim, pick(rng, []string{"r1", "r2"}), g.siegeLen())
				g.afterSiege(victim, pick(rng, []string{"u1", ""}))
				break
			}
		}
	default:
		// fill one session's pool to the brim and beyond
		if len(g.logins) > 0 {
			ref := "@" + g.logins[len(g.logins)-1]
			for j := 0; j < 12+rng.Intn(6); j++ {
				g.work(true, "tcp", ref)
			}
		}
	}
}

func init() {
	register(&Engine{
		Name: "peer",
		Gen:  peerGenRun,
		Exec: peerExec,
	})
}
