package main

import (
	"bufio"
	"encoding/base64"
	"fmt"
	"io"
	"math/rand"
	"net"
	"net/http"
	"strconv"
	"strings"
	"sync"
	"time"

	"golang.org/x/net/http2"
)

// Engine "router" (property C06), connection part: CLIENT CONNECTIONS to a real
// http.Server{Handler: HTTPReverseProxy} that carry several requests — HTTP/1.1 keep-alive, h2c opened by the
// RFC 7540 section 3.2 upgrade, h2c opened with prior knowledge (section 3.4) — each request with its own Host /
// path / basic-auth user, interleaved with add / del on the same route table; and BACKENDS that answer, so that
// the reverse proxy's transport keeps idle connections to them and re-uses them.
//
//	copen   <cid> <k|u|p> <name> <dot> <port|-> <path> <user>  => <h1|h2>:<id|none> | pri | dead | <err>
//	    a new client connection <cid> and its first request: k = HTTP/1.1 (keep-alive), u = HTTP/1.1 asking for the
//	    h2c upgrade, p = the prior-knowledge preface (name … user ignored; pri = the server's SETTINGS arrived,
//	    dead = it answered in HTTP/1.1, the connection is of no use).  h2 = answered as stream 1 after 101.
//	creq    <cid> <name> <dot> <port|-> <path> <user>          => <h1|h2>:<id|none> | gone | cut
//	    one more request on connection <cid>: the next stream when it is HTTP/2; otherwise an HTTP/1.1 request
//	    (asking for the upgrade again when the connection was opened with u).  gone = no such connection.
//	cclose  <cid>                                              => -
//
// <id> = the registration (`add … <id>`) whose BACKEND answered the request (the X-Id header of the 200 answer it
// wrote); none = the 404 page.
type rcConn struct {
	c      net.Conn
	br     *bufio.Reader
	form   string
	h2     *hah2Client
	nextID uint32
}

// one backend per registration: CreateConnFn hands out one end of a pipe, the other end is served by a loop
// that answers every request it reads with 200 and X-Id: <id>, keeping the connection alive
type rcBackends struct {
	mu    sync.Mutex
	conns []net.Conn
}

func (b *rcBackends) dial(id string) (net.Conn, error) {
	cli, srv := net.Pipe()
	b.mu.Lock()
	b.conns = append(b.conns, srv)
	b.mu.Unlock()
	go func() {
		defer srv.Close()
		br := bufio.NewReader(srv)
		for {
			// one request = its header block (every request of this engine is a GET without a body; the request
			// target is whatever the op says, also one net/http would not parse)
			for {
				line, err := br.ReadString('\n')
				if err != nil {
					return
				}
				if line == "\r\n" {
					break
				}
			}
			if _, err := io.WriteString(srv, "HTTP/1.1 200 OK\r\nX-Id: "+id+"\r\nContent-Length: 0\r\n\r\n"); err != nil {
				return
			}
		}
	}()
	return cli, nil
}

func (b *rcBackends) closeAll() {
	b.mu.Lock()
	defer b.mu.Unlock()
	for _, c := range b.conns {
		c.Close()
	}
	b.conns = nil
}

const rcWait = 2 * time.Second

func rcAnswer(status int, xid string) string {
	switch {
	case status == 200 && xid != "":
		return xid
	case status == 404:
		return "none"
	}
	return "st" + strconv.Itoa(status)
}

func (st *routerState) front() string {
	if st.srv == nil {
		ln, err := net.Listen("tcp", "127.0.0.1:0")
		if err != nil {
			panic(err)
		}
		st.front_ = ln
		st.srv = &http.Server{Handler: st.rp}
		go func(s *http.Server) { _ = s.Serve(ln) }(st.srv)
	}
	return st.front_.Addr().String()
}

func (st *routerState) closeConns() {
	for id, c := range st.conns {
		c.c.Close()
		delete(st.conns, id)
	}
	if st.srv != nil {
		st.srv.Close()
	}
	st.back.closeAll()
}

// one HTTP/1.1 request on the connection; upgrade = ask for h2c
func (cn *rcConn) h1(host, path, user string, upgrade bool) string {
	var w strings.Builder
	fmt.Fprintf(&w, "GET %s HTTP/1.1\r\nHost: %s\r\n", path, host)
	if upgrade {
		fmt.Fprintf(&w, "Connection: Upgrade, HTTP2-Settings\r\nUpgrade: h2c\r\nHTTP2-Settings: %s\r\n",
			base64.RawURLEncoding.EncodeToString([]byte{0, 4, 0x40, 0, 0, 0}))
	}
	if user != "" {
		fmt.Fprintf(&w, "Authorization: Basic %s\r\n", base64.StdEncoding.EncodeToString([]byte(user+":")))
	}
	w.WriteString("\r\n")
	_ = cn.c.SetDeadline(time.Now().Add(rcWait))
	if _, err := io.WriteString(cn.c, w.String()); err != nil {
		return "cut"
	}
	resp, err := http.ReadResponse(cn.br, &http.Request{Method: "GET"})
	if err != nil {
		return "cut"
	}
	if resp.StatusCode != 101 {
		_, _ = io.Copy(io.Discard, resp.Body)
		resp.Body.Close()
		return "h1:" + rcAnswer(resp.StatusCode, resp.Header.Get("X-Id"))
	}
	if _, err := io.WriteString(cn.c, http2.ClientPreface); err != nil {
		return "cut"
	}
	cn.h2 = newHah2Client(cn.c, cn.br)
	cn.nextID = 3
	_ = cn.h2.fr.WriteSettings(http2.Setting{ID: http2.SettingInitialWindowSize, Val: 1 << 30})
	_ = cn.h2.fr.WriteWindowUpdate(0, 1<<30)
	if !cn.h2.pump(func() bool { return cn.h2.done[1] != "" }) {
		return "cut"
	}
	return "h2:" + rcAnswer(cn.h2.status[1], cn.h2.xid[1])
}

func (cn *rcConn) stream(host, path, user string) string {
	auth := "-"
	if user != "" {
		auth = "b0:" + hx(user) + ":" + hx("")
	}
	id := cn.nextID
	cn.nextID += 2
	_ = cn.c.SetDeadline(time.Now().Add(rcWait))
	r := cn.h2.stream(id, host, path, auth, "-")
	switch r {
	case "cut", "rst":
		return r
	}
	return "h2:" + rcAnswer(cn.h2.status[id], cn.h2.xid[id])
}

func routerConnExec(st *routerState, tok []string) (string, bool) {
	switch tok[0] {
	case "copen":
		if len(tok) != 8 {
			return "bad-op", true
		}
		if old := st.conns[tok[1]]; old != nil {
			old.c.Close()
			delete(st.conns, tok[1])
		}
		c, err := net.DialTimeout("tcp", st.front(), rcWait)
		if err != nil {
			return "dialerr", true
		}
		if !strings.HasPrefix(unhx(tok[6]), "/") && tok[2] != "p" {
			return "badpath", true
		}
		cn := &rcConn{c: c, br: bufio.NewReader(c), form: tok[2]}
		var r string
		if cn.form == "p" {
			_ = c.SetDeadline(time.Now().Add(rcWait))
			if _, err := io.WriteString(c, http2.ClientPreface); err != nil {
				c.Close()
				return "cut", true
			}
			if b, err := cn.br.Peek(5); err != nil || string(b) == "HTTP/" {
				c.Close()
				return "dead", true
			}
			cn.h2 = newHah2Client(c, cn.br)
			cn.nextID = 1
			_ = cn.h2.fr.WriteSettings(http2.Setting{ID: http2.SettingInitialWindowSize, Val: 1 << 30})
			_ = cn.h2.fr.WriteWindowUpdate(0, 1<<30)
			if !cn.h2.pump(func() bool { return cn.h2.gotSet }) {
				c.Close()
				return "dead", true
			}
			r = "pri"
		} else {
			r = cn.h1(routerSpell(tok[3], tok[4], tok[5]), unhx(tok[6]), unhx(tok[7]), cn.form == "u")
		}
		if r == "cut" {
			c.Close()
			return r, true
		}
		st.conns[tok[1]] = cn
		return r, true
	case "creq":
		if len(tok) != 7 {
			return "bad-op", true
		}
		cn := st.conns[tok[1]]
		if cn == nil {
			return "gone", true
		}
		host, path, user := routerSpell(tok[2], tok[3], tok[4]), unhx(tok[5]), unhx(tok[6])
		if !strings.HasPrefix(path, "/") {
			return "badpath", true
		}
		var r string
		if cn.h2 != nil {
			r = cn.stream(host, path, user)
		} else {
			r = cn.h1(host, path, user, cn.form == "u")
		}
		if r == "cut" {
			cn.c.Close()
			delete(st.conns, tok[1])
		}
		return r, true
	case "cclose":
		if cn := st.conns[tok[1]]; cn != nil {
			cn.c.Close()
			delete(st.conns, tok[1])
		}
		return "-", true
	}
	return "", false
}

// ---- generator

// a route the generator registered (accepted or not) since the last reset
type rcReg struct{ dom, loc, user string }

// a host name matched by the domain pattern
func rcConcrete(rng *rand.Rand, dom string) string {
	switch {
	case dom == "*" || dom == "":
		return genHost(rng)
	case strings.HasPrefix(dom, "*."):
		return pick(rng, []string{"a", "b", "x", "a.b"}) + dom[1:]
	}
	return dom
}

// (name, dot, port, path, user) of a request aimed at route r: a spelling of a name under its domain pattern, a
// path extending its location, its route user / another user / none
func rcAim(rng *rand.Rand, r rcReg) [5]string {
	nm, dot, port := rcConcrete(rng, r.dom), "0", "-"
	if rng.Intn(4) == 0 {
		nm, dot, port = genSpelling(rng, nm)
	}
	path := r.loc
	if rng.Intn(3) > 0 {
		path += pick(rng, []string{"", "/", "x", "/x", "b", "c/d"})
	}
	user := r.user
	if rng.Intn(3) == 0 {
		user = pick(rng, rUsers)
	}
	return [5]string{hx(nm), dot, port, hx(path), hx(user)}
}

// the request target of a connection op is written on the wire: it starts with "/"
func rcLine(q [5]string) string {
	if p := unhx(q[3]); !strings.HasPrefix(p, "/") {
		q[3] = hx("/" + p)
	}
	return strings.Join(q[:], " ")
}

// the next request of a connection whose previous request was `prev`: the same again, the same host and path with
// another user, the same host with another path, aimed at another registered route, or free
func rcNext(rng *rand.Rand, prev [5]string, regs []rcReg) [5]string {
	q := prev
	switch k := rng.Intn(10); {
	case k < 2:
	case k < 5:
		q[4] = hx(pick(rng, rUsers))
	case k < 6:
		q[3] = hx(genPath(rng))
	case k < 9 && len(regs) > 0:
		q = rcAim(rng, regs[rng.Intn(len(regs))])
	default:
		nm, dot, port := genSpelling(rng, genHost(rng))
		q = [5]string{hx(nm), dot, port, hx(genPath(rng)), hx(pick(rng, rUsers))}
	}
	return q
}

type rcGenState struct {
	regs []rcReg
	open map[int][5]string // live connections: cid → last request
	next int
}

func (g *rcGenState) reset() { g.regs = nil; g.open = map[int][5]string{} }

// a registration change next to route r: the same triple again (refused while it is there), the triple removed,
// removed and registered anew (ANOTHER owner), a sibling restricted to a user / unrestricted, a longer / shorter
// location, the exact host next to a wildcard
func (g *rcGenState) change(rng *rand.Rand, r rcReg, id *int, emit func(string)) {
	add := func(x rcReg) {
		*id++
		g.regs = append(g.regs, x)
		emit("add " + hx(x.dom) + " " + hx(x.loc) + " " + hx(x.user) + " " + strconv.Itoa(*id))
	}
	del := func(x rcReg) { emit("del " + hx(x.dom) + " " + hx(x.loc) + " " + hx(x.user)) }
	switch rng.Intn(8) {
	case 0:
		add(r)
	case 1:
		del(r)
	case 2, 3:
		del(r)
		add(r)
	case 4:
		add(rcReg{r.dom, r.loc, pick(rng, rUsers[2:])})
	case 5:
		add(rcReg{r.dom, r.loc, ""})
	case 6:
		add(rcReg{r.dom, pick(rng, rLocs), r.user})
	default:
		s := rcReg{r.dom, r.loc, pick(rng, rUsers)}
		del(s)
		if rng.Intn(2) == 0 {
			add(s)
		}
	}
}

// one episode: a connection is opened (aimed at a registered route most of the time), then requests on it
// alternate with registration changes next to the routes it used
func (g *rcGenState) episode(rng *rand.Rand, id *int, emit func(string)) int {
	n := 0
	if len(g.regs) == 0 || rng.Intn(5) == 0 {
		*id++
		r := rcReg{genHost(rng), pick(rng, rLocs), pick(rng, rUsers)}
		g.regs = append(g.regs, r)
		emit("add " + hx(r.dom) + " " + hx(r.loc) + " " + hx(r.user) + " " + strconv.Itoa(*id))
		n++
	}
	r := g.regs[rng.Intn(len(g.regs))]
	if rng.Intn(3) == 0 { // a user-restricted sibling next to it before anybody connects
		g.change(rng, r, id, emit)
		n++
	}
	g.next++
	cid := g.next
	form := pick(rng, []string{"u", "u", "u", "k", "p"})
	if form == "p" && rng.Intn(2) == 0 { // prior knowledge is accepted only when `PRI *` resolves to a route
		*id++
		g.regs = append(g.regs, rcReg{"*", "", ""})
		emit("add " + hx("*") + " " + hx("") + " " + hx("") + " " + strconv.Itoa(*id))
		n++
	}
	q := rcAim(rng, r)
	emit("copen " + strconv.Itoa(cid) + " " + form + " " + rcLine(q))
	g.open[cid] = q
	n++
	for k, m := 0, 1+rng.Intn(6); k < m; k++ {
		if rng.Intn(3) == 0 {
			g.change(rng, r, id, emit)
			n++
		}
		q = rcNext(rng, q, g.regs)
		emit("creq " + strconv.Itoa(cid) + " " + rcLine(q))
		g.open[cid] = q
		n++
	}
	if rng.Intn(3) > 0 || len(g.open) > 3 {
		emit("cclose " + strconv.Itoa(cid))
		delete(g.open, cid)
		n++
	}
	return n
}

// a request on a connection left open by an earlier episode, whatever happened to the table since
func (g *rcGenState) late(rng *rand.Rand, emit func(string)) bool {
	if len(g.open) == 0 {
		return false
	}
	cid := -1 // the oldest one: map order must not leak into the op stream
	for c := range g.open {
		if cid < 0 || c < cid {
			cid = c
		}
	}
	nq := rcNext(rng, g.open[cid], g.regs)
	emit("creq " + strconv.Itoa(cid) + " " + rcLine(nq))
	g.open[cid] = nq
	if rng.Intn(4) == 0 {
		emit("cclose " + strconv.Itoa(cid))
		delete(g.open, cid)
	}
	return true
}
