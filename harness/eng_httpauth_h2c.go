package main

import (
	"bufio"
	"bytes"
	"encoding/base64"
	"fmt"
	"io"
	"math/rand"
	"net"
	"net/http"
	"strconv"
	"strings"
	"time"

	"golang.org/x/net/http2"
	"golang.org/x/net/http2/hpack"
)

// Engine "httpauth" (property C07), h2c part: ONE connection to the real http.Server{Handler: HTTPReverseProxy}
// that is turned into an HTTP/2 connection (pkg/util/vhost/http.go wraps its reverse proxy in h2c.NewHandler)
// and then carries further streams, each with its own :authority / :path / authorization.
//
//	h2c <o|a|p> <host> <path> <auth> <pauth> (<host> <path> <auth> <pauth>)*   => <first>;<s>,<s>,…
//
// first request: o / a = an HTTP/1.1 GET in origin / absolute form asking for the upgrade (RFC 7540 section 3.2:
// `Connection: Upgrade, HTTP2-Settings`, `Upgrade: h2c`, `HTTP2-Settings`); p = prior knowledge (RFC 7540
// section 3.4: the client preface, which net/http parses as the request `PRI * HTTP/2.0` without Host; host,
// path and the credentials of the op line are ignored).
// fwd:<id>! = that backend is protected and the request it received did not carry its exact credentials.
// <first> = fwd:<id> (101, stream 1 answered by the backend of route <id>) | pri (p: the server's SETTINGS
// arrived) | 401 | 404 | st:<code> — answered in HTTP/1.1, no HTTP/2 connection, no further stream is sent.
// every further group is one stream (GET, END_STREAM) sent after the answer to the previous one:
// <s> = fwd:<id> | 401 | 404 | rst | st:<code> | cut (connection gone; the remaining streams are not sent).
// The path tokens are the request target's path exactly as written (percent-encoded).
const hah2Wait = 2 * time.Second

type hah2Client struct {
	c   net.Conn
	br  *bufio.Reader
	fr  *http2.Framer
	dec *hpack.Decoder
	enc *hpack.Encoder
	buf bytes.Buffer
	// answers collected per stream
	status map[uint32]int
	xid    map[uint32]string
	xcred  map[uint32]string
	done   map[uint32]string // "end" | "rst"
	hdr    map[uint32][]byte
	gotSet bool
}

func newHah2Client(c net.Conn, br *bufio.Reader) *hah2Client {
	h := &hah2Client{c: c, br: br, status: map[uint32]int{}, xid: map[uint32]string{}, xcred: map[uint32]string{}, done: map[uint32]string{}, hdr: map[uint32][]byte{}}
	h.fr = http2.NewFramer(c, br)
	h.dec = hpack.NewDecoder(4096, nil)
	h.enc = hpack.NewEncoder(&h.buf)
	return h
}

func (h *hah2Client) headersEnded(id uint32) {
	fs, err := h.dec.DecodeFull(h.hdr[id])
	delete(h.hdr, id)
	if err != nil {
		return
	}
	for _, f := range fs {
		switch f.Name {
		case ":status":
			if h.status[id] == 0 || h.status[id]/100 == 1 {
				h.status[id] = atoi(f.Value)
			}
		case "x-id":
			h.xid[id] = f.Value
		case "x-cred":
			h.xcred[id] = f.Value
		}
	}
}

// pump reads frames until `until` says so; false = the connection ended first
func (h *hah2Client) pump(until func() bool) bool {
	for !until() {
		_ = h.c.SetReadDeadline(time.Now().Add(hah2Wait))
		f, err := h.fr.ReadFrame()
		if err != nil {
			return false
		}
		switch f := f.(type) {
		case *http2.SettingsFrame:
			if !f.IsAck() {
				h.gotSet = true
				_ = h.fr.WriteSettingsAck()
			}
		case *http2.HeadersFrame:
			h.hdr[f.StreamID] = append(h.hdr[f.StreamID], f.HeaderBlockFragment()...)
			if f.HeadersEnded() {
				h.headersEnded(f.StreamID)
			}
			if f.StreamEnded() {
				h.done[f.StreamID] = "end"
			}
		case *http2.ContinuationFrame:
			h.hdr[f.StreamID] = append(h.hdr[f.StreamID], f.HeaderBlockFragment()...)
			if f.HeadersEnded() {
				h.headersEnded(f.StreamID)
			}
		case *http2.DataFrame:
			if f.StreamEnded() {
				h.done[f.StreamID] = "end"
			}
		case *http2.RSTStreamFrame:
			h.done[f.StreamID] = "rst"
		case *http2.GoAwayFrame:
			return false
		case *http2.PingFrame:
			if !f.IsAck() {
				_ = h.fr.WritePing(true, f.Data)
			}
		}
	}
	return true
}

func (h *hah2Client) answer(id uint32) string {
	if h.done[id] == "rst" {
		return "rst"
	}
	return hah2Class(h.status[id], h.xid[id], h.xcred[id])
}

// fwd:<id> = the backend of route <id> answered; "!" appended when that backend is protected and says the request
// it received did not carry its exact credentials
func hah2Class(status int, xid, xcred string) string {
	switch {
	case status == 200 && xid != "" && xcred == "0":
		return "fwd:" + xid + "!"
	case status == 200 && xid != "":
		return "fwd:" + xid
	case status == 401:
		return "401"
	case status == 404:
		return "404"
	}
	return "st:" + strconv.Itoa(status)
}

// stream sends one GET as stream `id` and waits for its answer
func (h *hah2Client) stream(id uint32, host, path, auth, pauth string) string {
	h.buf.Reset()
	_ = h.enc.WriteField(hpack.HeaderField{Name: ":method", Value: "GET"})
	_ = h.enc.WriteField(hpack.HeaderField{Name: ":scheme", Value: "http"})
	_ = h.enc.WriteField(hpack.HeaderField{Name: ":authority", Value: host})
	_ = h.enc.WriteField(hpack.HeaderField{Name: ":path", Value: path})
	if v, ok := authHeader(auth); ok {
		_ = h.enc.WriteField(hpack.HeaderField{Name: "authorization", Value: v})
	}
	if v, ok := authHeader(pauth); ok {
		_ = h.enc.WriteField(hpack.HeaderField{Name: "proxy-authorization", Value: v})
	}
	_ = h.c.SetWriteDeadline(time.Now().Add(hah2Wait))
	if err := h.fr.WriteHeaders(http2.HeadersFrameParam{StreamID: id, BlockFragment: h.buf.Bytes(), EndStream: true, EndHeaders: true}); err != nil {
		return "cut"
	}
	if !h.pump(func() bool { return h.done[id] != "" }) {
		return "cut"
	}
	return h.answer(id)
}

func (st *httpAuthState) hah2Conn(tok []string) string {
	if (len(tok)-2)%4 != 0 || len(tok) < 6 {
		return "bad-op"
	}
	form, host, path := tok[1], unhx(tok[2]), unhx(tok[3])
	c, err := net.DialTimeout("tcp", st.addr, 2*time.Second)
	if err != nil {
		return "dialerr"
	}
	defer c.Close()
	_ = c.SetDeadline(time.Now().Add(hah2Wait))
	br := bufio.NewReader(c)
	first := ""
	nextID := uint32(3)
	if form == "p" {
		if _, err := io.WriteString(c, http2.ClientPreface); err != nil {
			return "writeerr"
		}
		nextID = 1
	} else {
		var w strings.Builder
		target := path
		if form == "a" {
			target = "http://" + host + path
		}
		fmt.Fprintf(&w, "GET %s HTTP/1.1\r\nHost: %s\r\nConnection: Upgrade, HTTP2-Settings\r\nUpgrade: h2c\r\nHTTP2-Settings: %s\r\n",
			target, host, base64.RawURLEncoding.EncodeToString([]byte{0, 4, 0x40, 0, 0, 0}))
		if v, ok := authHeader(tok[4]); ok {
			fmt.Fprintf(&w, "Authorization: %s\r\n", v)
		}
		if v, ok := authHeader(tok[5]); ok {
			fmt.Fprintf(&w, "Proxy-Authorization: %s\r\n", v)
		}
		w.WriteString("\r\n")
		if _, err := io.WriteString(c, w.String()); err != nil {
			return "writeerr"
		}
		resp, err := http.ReadResponse(br, &http.Request{Method: "GET"})
		if err != nil {
			return "readerr;-"
		}
		if resp.StatusCode != 101 {
			return hah2Class(resp.StatusCode, resp.Header.Get("X-Id"), resp.Header.Get("X-Cred")) + ";-"
		}
		if _, err := io.WriteString(c, http2.ClientPreface); err != nil {
			return "writeerr"
		}
	}
	if form == "p" {
		// the PRI pseudo-request is answered either by an HTTP/1.1 response (no HTTP/2 connection) or by frames
		_ = c.SetReadDeadline(time.Now().Add(hah2Wait))
		if b, err := br.Peek(5); err != nil {
			return "closed;-"
		} else if string(b) == "HTTP/" {
			resp, err := http.ReadResponse(br, &http.Request{Method: "GET"})
			if err != nil {
				return "readerr;-"
			}
			return hah2Class(resp.StatusCode, resp.Header.Get("X-Id"), resp.Header.Get("X-Cred")) + ";-"
		}
	}
	h := newHah2Client(c, br)
	_ = c.SetWriteDeadline(time.Now().Add(hah2Wait))
	_ = h.fr.WriteSettings(http2.Setting{ID: http2.SettingInitialWindowSize, Val: 1 << 30})
	_ = h.fr.WriteWindowUpdate(0, 1<<30)
	if form == "p" {
		if !h.pump(func() bool { return h.gotSet }) {
			return "closed;-"
		}
		first = "pri"
	} else {
		if !h.pump(func() bool { return h.done[1] != "" }) {
			return "cut;-"
		}
		first = h.answer(1)
	}
	out := []string{}
	for i := 6; i+3 < len(tok); i += 4 {
		r := h.stream(nextID, unhx(tok[i]), unhx(tok[i+1]), tok[i+2], tok[i+3])
		nextID += 2
		out = append(out, r)
		if r == "cut" {
			break
		}
	}
	if len(out) == 0 {
		return first + ";-"
	}
	return first + ";" + strings.Join(out, ",")
}

// ---- generator

// a route the generator knows about (every `reg` it emitted since the last reset, accepted or not)
type hah2Reg struct{ host, loc, ru, u, p string }

// hah2Target: host, path and credentials of one request: aimed at a registered route (its host made concrete,
// a path below its location) with its exact credentials / the credentials of another registered route / none /
// generated ones, or a free request as the `req` op generates them
func hah2Target(rng *rand.Rand, regs []hah2Reg, first bool) (host, path, auth, pauth string) {
	pauth = "-"
	if len(regs) == 0 || rng.Intn(6) == 0 && !first || rng.Intn(12) == 0 {
		host = haMixCase(rng, concreteHost(rng, pick(rng, haHosts)))
		return host, haGenPath(rng), genAuthTokWire(rng, haUsers, haPass), pick(rng, []string{"-", "-", genAuthTok(rng, haUsers, haPass)})
	}
	r := regs[rng.Intn(len(regs))]
	host = haMixCase(rng, concreteHost(rng, r.host))
	if rng.Intn(5) == 0 {
		host += pick(rng, []string{":80", ".", ":8080"})
	}
	switch rng.Intn(4) {
	case 0:
		path = haGenPath(rng)
	default:
		path = r.loc
		if path == "" || rng.Intn(2) == 0 {
			path += "/" + pick(rng, []string{"x", "a", "b", "index.html", "%61", ""})
		}
	}
	k := rng.Intn(20)
	if first { // the connection is opened by somebody who may use that route, most of the time
		k = rng.Intn(28) - 8
	}
	switch {
	case k < 6: // the route's own credentials (its routing user when it has no password of its own)
		u := r.u
		if u == "" {
			u = r.ru
		}
		auth = "b" + strconv.Itoa(rng.Intn(3)) + ":" + hx(u) + ":" + hx(r.p)
	case k < 13:
		auth = "-"
		if r.ru != "" && rng.Intn(2) == 0 { // reach a user-routed route without its password
			auth = "b0:" + hx(r.ru) + ":" + hx(pick(rng, haPass))
		}
	case k < 16: // what another route of the table accepts
		o := regs[rng.Intn(len(regs))]
		auth = "b0:" + hx(o.u) + ":" + hx(o.p)
	default:
		auth = genAuthTokWire(rng, haUsers, haPass)
	}
	if rng.Intn(8) == 0 {
		pauth = genAuthTok(rng, haUsers, haPass)
	}
	if r.ru != "" && r.u != "" && r.u != r.ru && rng.Intn(2) == 0 {
		// a route keyed by one user and protected by another: only an absolute-form request can name both
		pauth = "b0:" + hx(r.ru) + ":" + hx(pick(rng, haPass))
	}
	return
}

func hah2Gen(rng *rand.Rand, regs []hah2Reg) string {
	form := pick(rng, []string{"o", "o", "o", "o", "o", "a", "a", "p"})
	h, p, a, pa := hah2Target(rng, regs, true)
	if pa != "-" && rng.Intn(2) == 0 {
		form = "a" // the form in which the routing user is taken from Proxy-Authorization
	}
	line := fmt.Sprintf("h2c %s %s %s %s %s", form, hx(h), hx(p), a, pa)
	for s, ns := 0, 1+rng.Intn(4); s < ns; s++ {
		h, p, a, pa := hah2Target(rng, regs, false)
		line += fmt.Sprintf(" %s %s %s %s", hx(h), hx(p), a, pa)
	}
	return line
}
