package main

// Engine "stack" (C01): the per-connection wrapper stacks, the limiter, close propagation, name
// dispatch and sniff replay — each driven on the REAL frp code in-process.
//
//	wr b=<burst> p=<hex>                       real limit.Writer (unconstrained limiter) over a recording sink
//	   => c=<hex>,<hex>,…;n=<n>
//	wrl b=<burst> n=<len>                      same, large payload: chunk-length summary
//	   => full=<k>;rem=<r>;n=<n>;cat=<0|1>
//	wtok b=<burst> n=<len ≤ burst>             tokens a Write / a Read takes from a (practically) non-refilling limiter
//	   => w=<tokens>;r=<tokens>
//	rd b=<burst> plen=<len(p)> avail=<k>       real limit.Reader over a bytes.Reader holding k bytes
//	   => n=<n>;err=<0|eof>
//	wlim b=<burst> r=<rate | 0> w=<len,len,…> room=<bytes> seed=
//	   real limit.Writer over a REAL FINITE rate.Limiter (burst b; r bytes/s really waited for, or r=0: 1 token/s,
//	   refilled by the sink after every write so that the tokens each WaitN took are observed) and a sink that
//	   fails after `room` bytes; successive Write calls of the given sizes (0 … 8 x burst)
//	   => c=<n>:<0|wait|sink|other>:<sink write sizes a/b/…>:<tokens per WaitN a/b/… | ->|…;cat=<0|1>
//	rlim b=<burst> r=<rate | 0> plen=<len(p)> per=<segment> n=<stream bytes> seed=
//	   real limit.Reader over a real finite limiter, buffers larger and smaller than the burst, drained to EOF
//	   => n=<a,b,…>;req=<a,b,… | ->;end=<eof|wait|other|max>;cat=<0|1>
//	bucket r=<tokens/µs> b=<burst> q=<t:n,…>   real x/time/rate ReserveN(base+t µs, n)
//	   => g=<grant µs>,…
//	srv enc= comp= lim= n= ch= seed= mode=     real server/proxy TCP proxy (proxy.NewProxy + Run); the harness is
//	   frpc: reads StartWorkConn, builds the stack the MODEL predicts for the client from real golib layers
//	   => name=..;src=..;up=..;down=..;eof=..;closes=..
//	cli enc= comp= lim= pp= n= ch= seed= who=  real client/proxy TCP proxy (proxy.NewProxy + InWorkConn); the
//	   harness is frps (model-predicted server stack), a tagged echo backend parses the proxy-protocol header
//	   => pp=..;up=..;down=..;eof=..;closes=..
//	disp n=<proxies> to=<i | x>                real client proxy.Manager.HandleWorkConn over n running proxies
//	   => b=<backend index | none>;closed=<0|1>
//	wrap kind=<cn|stats|rwc> k=<times>         real CloseNotifyConn / StatsConn / WrapReadWriteCloserConn
//	   => closes=<n>;fn=<n>
//	sniff kind=<https|mux|muxpt> early=<n> n=  real vhost HTTPS muxer / tcpmux CONNECT muxer over loopback
//	   => got=<all|rest|lost>;miss=<bytes missing>
//	rsrc / wsnk / tail                        the io.Reader / io.Writer contract: see eng_stack_io.go
import (
	"bufio"
	"bytes"
	"context"
	"crypto/tls"
	"fmt"
	"io"
	"math/rand"
	"net"
	"sort"
	"strconv"
	"strings"
	"sync"
	"sync/atomic"
	"time"

	libio "github.com/fatedier/golib/io"
	pp "github.com/pires/go-proxyproto"
	"golang.org/x/time/rate"

	"github.com/fatedier/frp/client/proxy"
	"github.com/fatedier/frp/pkg/config/types"
	v1 "github.com/fatedier/frp/pkg/config/v1"
	"github.com/fatedier/frp/pkg/msg"
	splugin "github.com/fatedier/frp/pkg/plugin/server"
	"github.com/fatedier/frp/pkg/util/limit"
	netpkg "github.com/fatedier/frp/pkg/util/net"
	"github.com/fatedier/frp/pkg/util/tcpmux"
	"github.com/fatedier/frp/pkg/util/vhost"
	"github.com/fatedier/frp/server/controller"
	"github.com/fatedier/frp/server/ports"
	sproxy "github.com/fatedier/frp/server/proxy"
	"github.com/fatedier/frp/server/visitor"
)

func init() {
	register(&Engine{Name: "stack", Gen: stkGen, Exec: stkExec})
}

const stkToken = "c01-token"

const stkSourceReqLen = 17

func stkSourceReq(n int, seed int64) []byte {
	return []byte(fmt.Sprintf("G%08x%08x", n, uint32(seed)))
}

func stkPauseReq(after, ms int) []byte {
	return []byte(fmt.Sprintf("Z%08x%08x", after, ms))
}

// ---------------------------------------------------------------- generator

func stkGen(rng *rand.Rand, n int, emit func(string)) {
	emit("reset")
	// fixed lattices first: every option combination of both halves, every wrapper kind
	for _, lim := range []int{0, 1} {
		for _, enc := range []int{0, 1} {
			for _, comp := range []int{0, 1} {
				for _, mode := range []string{"echo", "oneway"} {
					emit(fmt.Sprintf("srv enc=%d comp=%d lim=%d n=%d ch=%d seed=%d mode=%s", enc, comp, lim,
						pick(rng, []int{0, 1, 5, 31, 300, 5000, 70000}), pick(rng, []int{0, 1, 7, 1000, -1}), rng.Intn(1000), mode))
				}
				for _, ppv := range []string{"none", "v1", "v2"} {
					emit(fmt.Sprintf("cli enc=%d comp=%d lim=%d pp=%s n=%d ch=%d seed=%d who=%s", enc, comp, lim, ppv,
						pick(rng, []int{0, 1, 5, 31, 300, 5000, 70000}), pick(rng, []int{0, 1, 7, 1000, -1}), rng.Intn(1000),
						pick(rng, []string{"backend", "server"})))
				}
			}
		}
	}
	for _, kind := range []string{"cn", "stats", "rwc"} {
		for k := 1; k <= 3; k++ {
			emit(fmt.Sprintf("wrap kind=%s k=%d", kind, k))
		}
	}
	for _, kind := range []string{"https", "mux", "muxpt"} {
		for _, early := range []int{0, 1, 40} {
			emit(fmt.Sprintf("sniff kind=%s early=%d n=%d", kind, early, 20+rng.Intn(3000)))
		}
	}
	// the sniff phase's deadline discipline: every muxer kind x every route outcome, default timeout; then connections
	// that are still in use when they are older than the muxer's (short) timeout
	for _, kind := range []string{"https", "mux", "muxpt"} {
		for _, route := range []string{"ok", "user", "auth", "none", "authbad"} {
			if kind == "https" && strings.HasPrefix(route, "auth") {
				continue
			}
			emit(fmt.Sprintf("dl kind=%s to=5000 age=0 route=%s seed=%d", kind, route, rng.Intn(100000)))
		}
		emit(stkGenDl(rng, kind, true))
	}
	// closing a quic work connection while the other end is not reading: both directions, and once with a pause longer
	// than any close timer a stream wrapper could reasonably arm (the e2e engine does the same through frps + frpc)
	emit(fmt.Sprintf("qclose side=dial n=%d pause=0 seed=%d", 1+rng.Intn(300000), rng.Intn(100000)))
	emit(fmt.Sprintf("qclose side=acc n=%d pause=120 seed=%d", 1+rng.Intn(300000), rng.Intn(100000)))
	emit(fmt.Sprintf("qclose side=%s n=%d pause=3400 seed=%d", pick(rng, []string{"dial", "acc"}), 100000+rng.Intn(200000), rng.Intn(100000)))
	for np := 1; np <= 4; np++ {
		for to := 0; to < np; to++ {
			emit(fmt.Sprintf("disp n=%d to=%d", np, to))
		}
		emit(fmt.Sprintf("disp n=%d to=x", np))
	}
	// the io.Reader contract on the real half-tunnels: every option combination of both halves reads a work connection
	// that ends the way a quic stream does (the last bytes together with EOF), and once in another generated way
	for _, side := range []string{"srv", "cli"} {
		for _, lim := range []int{0, 1} {
			for _, enc := range []int{0, 1} {
				for _, comp := range []int{0, 1} {
					emit(stkGenTail(rng, side, enc, comp, lim, "E"))
					emit(stkGenTail(rng, side, enc, comp, lim, pick(rng, []string{"e", "X", "x", "E"})))
				}
			}
		}
	}
	emit("wrl b=16384 n=1048576")
	// frp's own shapes: Join's 16 KiB copy buffer against an 8KB / 16KB / 4KB limit, waited for at 50 MB/s
	emit("wlim b=8192 r=50000000 w=16384,16384,5000 room=1000000 seed=1")
	emit("wlim b=16384 r=0 w=16392,16384 room=1000000 seed=2")
	emit("rlim b=4096 r=0 plen=16384 per=16384 n=40000 seed=3")
	// a stream that ends the way a quic stream does, as frp wraps it (8KB limit, 16 KiB copy buffer): the last 700 bytes come with
	// EOF — handed on and charged (c863bec); the same stream ending the tcp way
	emit("rsrc st=lim8192 plen=16384 segs=20000:0,700:E r=0 seed=4")
	emit("rsrc st=lim8192+stats plen=16384 segs=20000:0,700:0,0:E r=0 seed=4")
	emit("wsnk st=lim8192+stats w=16384,16384,5000 sink=100000000:0,100000000:0,4000:0 r=0 seed=5")
	emit("wrl b=65536 n=65536")
	emit("wrl b=65536 n=65537")
	for i := 0; i < n; i++ {
		if rng.Intn(250) == 0 {
			emit(fmt.Sprintf("qclose side=%s n=%d pause=%d seed=%d", pick(rng, []string{"dial", "acc"}),
				pick(rng, []int{1, 17, 1200, 65536, 1 + rng.Intn(380000)}), pick(rng, []int{0, 0, 20, 150}), rng.Intn(100000)))
			continue
		}
		if rng.Intn(300) == 0 {
			emit(stkGenDl(rng, pick(rng, []string{"https", "mux", "muxpt"}), rng.Intn(2) == 0))
			continue
		}
		if rng.Intn(100) == 0 {
			emit(stkGenTail(rng, pick(rng, []string{"srv", "cli"}), rng.Intn(2), rng.Intn(2), rng.Intn(2), pick(rng, []string{"E", "E", "e", "X", "x"})))
			continue
		}
		switch r := rng.Intn(100); {
		case r < 6:
			emit(stkGenRsrc(rng))
		case r < 10:
			emit(stkGenWsnk(rng))
		case r < 36:
			b := 1 + rng.Intn(9)
			if rng.Intn(4) == 0 {
				b = 1 + rng.Intn(40)
			}
			ln := rng.Intn(30)
			if rng.Intn(3) == 0 { // overlap-rich: exact multiples and ±1 of the burst
				ln = b*rng.Intn(5) + rng.Intn(3) - 1
				if ln < 0 {
					ln = 0
				}
			}
			p := make([]byte, ln)
			rng.Read(p)
			emit(fmt.Sprintf("wr b=%d p=%s", b, hx(string(p))))
		case r < 46:
			b := 1 + rng.Intn(5000)
			emit(fmt.Sprintf("wrl b=%d n=%d", b, rng.Intn(20*b+2)))
		case r < 50:
			emit(stkGenRlim(rng))
		case r < 60:
			b := 1 + rng.Intn(40)
			emit(fmt.Sprintf("rd b=%d plen=%d avail=%d", b, 1+rng.Intn(60), rng.Intn(60)))
		case r < 70:
			b := 1 + rng.Intn(1000)
			emit(fmt.Sprintf("wtok b=%d n=%d", b, rng.Intn(b+1)))
		case r < 78:
			emit(stkGenWlim(rng))
		case r < 84:
			emit(stkGenRlim(rng))
		default:
			r := pick(rng, []int{1, 1, 2, 4})
			b := r * (1 + rng.Intn(20))
			t := 0
			var q []string
			for j, m := 0, 1+rng.Intn(12); j < m; j++ {
				if rng.Intn(3) > 0 {
					t += rng.Intn(3 * b / r)
				}
				q = append(q, fmt.Sprintf("%d:%d", t, r*(rng.Intn(b/r)+1)))
			}
			emit(fmt.Sprintf("bucket r=%d b=%d q=%s", r, b, strings.Join(q, ",")))
		}
	}
}


// a vhost connection handed on to its proxy, in use at an age below / above the muxer's timeout
func stkGenDl(rng *rand.Rand, kind string, aged bool) string {
	routes := []string{"ok", "user", "auth"}
	if kind == "https" {
		routes = routes[:2]
	}
	to := pick(rng, []int{400, 500, 700})
	age := 0
	if aged {
		age = to + 60 + rng.Intn(120)
	}
	return fmt.Sprintf("dl kind=%s to=%d age=%d route=%s seed=%d", kind, to, age, pick(rng, routes), rng.Intn(100000))
}

// a burst from 1 byte to several KiB, small ones and powers of two (±1) over-represented
func stkGenBurst(rng *rand.Rand) int {
	switch rng.Intn(5) {
	case 0:
		return 1 + rng.Intn(4)
	case 1:
		return 1 + rng.Intn(64)
	case 2:
		return (1 << uint(rng.Intn(14))) + rng.Intn(3) - 1 + stkBit(rng.Intn(8) == 0)
	case 3:
		return 1 + rng.Intn(1024)
	}
	return 1 + rng.Intn(8192)
}

// a size between 0 and 8 bursts: anything, exact multiples of the burst and their neighbours
func stkGenLen(rng *rand.Rand, b int) int {
	switch rng.Intn(4) {
	case 0:
		n := b*rng.Intn(9) + rng.Intn(3) - 1
		if n < 0 {
			n = 0
		}
		return n
	case 1:
		return rng.Intn(b + 2)
	}
	return rng.Intn(8*b + 1)
}

// the rate really waited for: the whole op finishes within ~10 ms; 0 = token-observing mode
func stkGenRate(rng *rand.Rand, total int) int {
	switch rng.Intn(3) {
	case 0:
		return 100*total + 1000000
	case 1:
		return 1000000000
	}
	return 0
}

func stkGenWlim(rng *rand.Rand) string {
	b := stkGenBurst(rng)
	if b < 1 {
		b = 1
	}
	k := 1 + rng.Intn(4)
	if rng.Intn(3) == 0 {
		k = 1
	}
	var ws []string
	total := 0
	for i := 0; i < k; i++ {
		n := stkGenLen(rng, b)
		total += n
		ws = append(ws, strconv.Itoa(n))
	}
	room := total + rng.Intn(10)
	if rng.Intn(4) == 0 { // the sink fails somewhere inside the run
		room = rng.Intn(total + 1)
	}
	return fmt.Sprintf("wlim b=%d r=%d w=%s room=%d seed=%d", b, stkGenRate(rng, total), strings.Join(ws, ","), room, rng.Intn(100000))
}

func stkGenRlim(rng *rand.Rand) string {
	b := stkGenBurst(rng)
	if b < 1 {
		b = 1
	}
	plen := 1 + rng.Intn(8*b)
	switch rng.Intn(4) {
	case 0:
		plen = 1 + rng.Intn(b)
	case 1:
		plen = pick(rng, []int{b, b + 1, 2 * b, 16384, 32768})
	}
	per := 1 + rng.Intn(2*plen)
	if rng.Intn(3) == 0 {
		per = 1 + rng.Intn(8*b+plen)
	}
	step := per
	if plen < step {
		step = plen
	}
	if b < step {
		step = b
	}
	n := rng.Intn(step*24 + 1) // at most ~24 reads
	if rng.Intn(3) == 0 {
		n = step * rng.Intn(12)
	}
	return fmt.Sprintf("rlim b=%d r=%d plen=%d per=%d n=%d seed=%d", b, stkGenRate(rng, n), plen, per, n, rng.Intn(100000))
}

// ---------------------------------------------------------------- helpers

func stkKV(tok []string) map[string]string {
	m := map[string]string{}
	for _, t := range tok[1:] {
		if i := strings.IndexByte(t, '='); i > 0 {
			m[t[:i]] = t[i+1:]
		}
	}
	return m
}

func stkBit(b bool) int {
	if b {
		return 1
	}
	return 0
}

// stkCountConn counts Close() calls that reach the transport.
type stkCountConn struct {
	net.Conn
	closes *int32
}

func (c *stkCountConn) Close() error {
	atomic.AddInt32(c.closes, 1)
	return c.Conn.Close()
}

// a connected loopback TCP pair
func stkPair() (a, b net.Conn) {
	ln, err := net.Listen("tcp", "127.0.0.1:0")
	if err != nil {
		panic(err)
	}
	defer ln.Close()
	ch := make(chan net.Conn, 1)
	go func() {
		c, err := ln.Accept()
		if err != nil {
			ch <- nil
			return
		}
		ch <- c
	}()
	a, err = net.Dial("tcp", ln.Addr().String())
	if err != nil {
		panic(err)
	}
	b = <-ch
	if b == nil {
		panic("pair accept failed")
	}
	return
}

// payload: first byte selects the backend behaviour ('E' echo, 'S' sink); content by pattern
func stkPayload(n int, pat string, seed int64, sink bool) []byte {
	p := make([]byte, n)
	r := rand.New(rand.NewSource(seed))
	switch pat {
	case "zero":
	case "mixed":
		for i := 0; i < n; {
			run := 1 + r.Intn(4000)
			if r.Intn(2) == 0 {
				for j := 0; j < run && i < n; j++ {
					p[i] = byte(r.Intn(256))
					i++
				}
			} else {
				i += run
			}
		}
	default:
		r.Read(p)
	}
	if n > 0 {
		p[0] = 'E'
		if sink {
			p[0] = 'S'
		}
	}
	return p
}

// write p in the chunking ch (0 = one Write, k>0 = k-byte writes, -1 = random sizes)
func stkWriteChunked(w io.Writer, p []byte, ch int, seed int64) error {
	r := rand.New(rand.NewSource(seed ^ 0x5eed))
	if ch == 0 || len(p) == 0 {
		if len(p) == 0 {
			return nil
		}
		_, err := w.Write(p)
		return err
	}
	for len(p) > 0 {
		k := ch
		if ch < 0 {
			k = 1 + r.Intn(9000)
			if r.Intn(4) == 0 {
				k = 1 + r.Intn(5)
			}
		}
		if k > len(p) {
			k = len(p)
		}
		if _, err := w.Write(p[:k]); err != nil {
			return err
		}
		p = p[k:]
	}
	return nil
}

// the layers the MODEL says the other end has, from real golib primitives, wire upwards: enc, comp
func stkMirror(c io.ReadWriteCloser, enc, comp bool, key string) io.ReadWriteCloser {
	var rwc io.ReadWriteCloser = c
	if enc {
		var err error
		rwc, err = libio.WithEncryption(rwc, []byte(key))
		if err != nil {
			panic(err)
		}
	}
	if comp {
		rwc = libio.WithCompression(rwc)
	}
	return rwc
}

func stkReadFullTimeout(c net.Conn, r io.Reader, n int, d time.Duration) ([]byte, error) {
	_ = c.SetReadDeadline(time.Now().Add(d))
	defer c.SetReadDeadline(time.Time{})
	buf := make([]byte, n)
	k, err := io.ReadFull(r, buf)
	return buf[:k], err
}

// wait (≤ d) for a read on r to end with an error (EOF / reset): the peer's close arrived
func stkWaitEOF(c net.Conn, r io.Reader, d time.Duration) bool {
	_ = c.SetReadDeadline(time.Now().Add(d))
	defer c.SetReadDeadline(time.Time{})
	buf := make([]byte, 4096)
	for {
		_, err := r.Read(buf)
		if err != nil {
			if ne, ok := err.(net.Error); ok && ne.Timeout() {
				return false
			}
			return true
		}
	}
}

func stkStable(v *int32, d time.Duration) int32 {
	last, t := atomic.LoadInt32(v), time.Now()
	for time.Since(t) < d {
		time.Sleep(2 * time.Millisecond)
		if x := atomic.LoadInt32(v); x != last {
			last, t = x, time.Now()
		}
	}
	return last
}

// ---------------------------------------------------------------- tagged backend

type stkBConn struct {
	hdr  *pp.Header
	hErr bool
	recv bytes.Buffer
	t0   time.Time
	at   []int64 // ms since the first byte, per read
	cum  []int   // bytes received so far, per read
	eof  chan struct{}
	done chan struct{}
	c    net.Conn
}

type stkBackend struct {
	ln    net.Listener
	tag   string
	ppOn  bool
	mu    sync.Mutex
	conns []*stkBConn
	newC  chan *stkBConn
}

func stkNewBackend(tag string, ppOn bool) *stkBackend {
	ln, err := net.Listen("tcp", "127.0.0.1:0")
	if err != nil {
		panic(err)
	}
	b := &stkBackend{ln: ln, tag: tag, ppOn: ppOn, newC: make(chan *stkBConn, 256)}
	go func() {
		for {
			c, err := ln.Accept()
			if err != nil {
				return
			}
			bc := &stkBConn{eof: make(chan struct{}), done: make(chan struct{}), c: c}
			b.mu.Lock()
			b.conns = append(b.conns, bc)
			b.mu.Unlock()
			// newC is read by the ops that wait for "the connection my dial produced"; backends that live for a whole run
			// (the `life` pairs) are never read: the notification must not block the accept loop once 256 have piled up
			select {
			case b.newC <- bc:
			default:
			}
			go b.serve(bc)
		}
	}()
	return b
}

func (b *stkBackend) port() int { return b.ln.Addr().(*net.TCPAddr).Port }

// reply = 1 length byte + tag, then (echo mode) everything received; sink mode: nothing more
func (b *stkBackend) serve(bc *stkBConn) {
	defer close(bc.done)
	defer bc.c.Close()
	rd := bufio.NewReaderSize(bc.c, 32*1024)
	if b.ppOn {
		h, err := pp.Read(rd)
		if err != nil {
			bc.hErr = true
		} else {
			bc.hdr = h
		}
	}
	if _, err := bc.c.Write(append([]byte{byte(len(b.tag))}, b.tag...)); err != nil {
		close(bc.eof)
		return
	}
	buf := make([]byte, 32*1024)
	sink, first, source := false, true, false
	pauseAfter, pauseMs := -1, 0
	for {
		n, err := rd.Read(buf)
		if n > 0 {
			if first {
				sink = buf[0] == 'S' || buf[0] == 'G' || buf[0] == 'Z'
				source = buf[0] == 'G'
				if buf[0] == 'Z' && n >= stkSourceReqLen {
					// 'Z' <8 hex digits: after> <8 hex digits: ms>: a sink that stops reading for a while once it has
					// received `after` bytes (a slow consumer), then reads on to the end
					a, _ := strconv.ParseUint(string(buf[1:9]), 16, 32)
					m, _ := strconv.ParseUint(string(buf[9:17]), 16, 32)
					pauseAfter, pauseMs = int(a), int(m)
				}
				first = false
			}
			b.mu.Lock()
			if bc.t0.IsZero() {
				bc.t0 = time.Now()
			}
			bc.recv.Write(buf[:n])
			bc.at = append(bc.at, time.Since(bc.t0).Milliseconds())
			bc.cum = append(bc.cum, bc.recv.Len())
			req := append([]byte(nil), bc.recv.Bytes()...)
			b.mu.Unlock()
			if source && len(req) >= stkSourceReqLen {
				// 'G' <8 hex digits: length> <8 hex digits: seed>: the backend is the one that writes — the whole
				// payload in ONE Write — and then leaves while the user is only reading
				ln, _ := strconv.ParseUint(string(req[1:9]), 16, 32)
				sd, _ := strconv.ParseUint(string(req[9:17]), 16, 32)
				_, _ = bc.c.Write(stkPayload(int(ln), "rand", int64(sd), false))
				// finished writing: FIN now; gone for good once frpc has hung up (it does when it has forwarded
				// everything into the tunnel and closed the tunnel side) — bc.eof then says "the writing side is done"
				if tc, ok := bc.c.(*net.TCPConn); ok {
					_ = tc.CloseWrite()
				}
				_ = bc.c.SetReadDeadline(time.Now().Add(20 * time.Second))
				_, _ = io.Copy(io.Discard, rd)
				close(bc.eof)
				return
			}
			if pauseAfter >= 0 && len(req) >= pauseAfter {
				pauseAfter = -1
				time.Sleep(time.Duration(pauseMs) * time.Millisecond)
			}
			if !sink {
				if _, werr := bc.c.Write(buf[:n]); werr != nil {
					close(bc.eof)
					return
				}
			}
		}
		if err != nil {
			close(bc.eof)
			return
		}
	}
}

func (b *stkBackend) received(bc *stkBConn) []byte {
	b.mu.Lock()
	defer b.mu.Unlock()
	return append([]byte(nil), bc.recv.Bytes()...)
}

func stkWaitCh(ch chan struct{}, d time.Duration) bool {
	select {
	case <-ch:
		return true
	case <-time.After(d):
		return false
	}
}

func stkRecvN(b *stkBackend, bc *stkBConn, n int, d time.Duration) []byte {
	dl := time.Now().Add(d)
	for time.Now().Before(dl) {
		if r := b.received(bc); len(r) >= n {
			return r
		}
		time.Sleep(time.Millisecond)
	}
	return b.received(bc)
}

// ---------------------------------------------------------------- limiter ops

type stkSink struct{ chunks [][]byte }

func (s *stkSink) Write(p []byte) (int, error) {
	s.chunks = append(s.chunks, append([]byte(nil), p...))
	return len(p), nil
}

func stkWr(kv map[string]string) string {
	b := atoi(kv["b"])
	p := []byte(unhx(kv["p"]))
	s := &stkSink{}
	w := limit.NewWriter(s, rate.NewLimiter(rate.Inf, b))
	n, err := w.Write(p)
	if err != nil {
		return "err"
	}
	var cs []string
	for _, c := range s.chunks {
		cs = append(cs, hx(string(c)))
	}
	return fmt.Sprintf("c=%s;n=%d", strings.Join(cs, ","), n)
}

func stkWrl(kv map[string]string) string {
	b, n := atoi(kv["b"]), atoi(kv["n"])
	p := stkPayload(n, "rand", int64(n), false)
	s := &stkSink{}
	w := limit.NewWriter(s, rate.NewLimiter(rate.Inf, b))
	nn, err := w.Write(p)
	if err != nil {
		return "err"
	}
	full, rem, bad := 0, 0, false
	var cat []byte
	for i, c := range s.chunks {
		cat = append(cat, c...)
		switch {
		case len(c) == b && rem == 0:
			full++
		case i == len(s.chunks)-1 && len(c) < b && len(c) > 0:
			rem = len(c)
		default:
			bad = true
		}
	}
	if bad {
		return "irregular"
	}
	return fmt.Sprintf("full=%d;rem=%d;n=%d;cat=%d", full, rem, nn, stkBit(bytes.Equal(cat, p)))
}

func stkWtok(kv map[string]string) string {
	b, n := atoi(kv["b"]), atoi(kv["n"])
	used := func(l *rate.Limiter) int { return int(float64(b) - l.Tokens() + 0.5) }
	lw := rate.NewLimiter(rate.Limit(1), b)
	if _, err := limit.NewWriter(io.Discard, lw).Write(make([]byte, n)); err != nil {
		return "err"
	}
	lr := rate.NewLimiter(rate.Limit(1), b)
	buf := make([]byte, n+3)
	k, _ := limit.NewReader(bytes.NewReader(make([]byte, n)), lr).Read(buf)
	if k != n && n > 0 {
		return fmt.Sprintf("short=%d", k)
	}
	return fmt.Sprintf("w=%d;r=%d", used(lw), used(lr))
}

func stkRd(kv map[string]string) string {
	b, plen, avail := atoi(kv["b"]), atoi(kv["plen"]), atoi(kv["avail"])
	r := limit.NewReader(bytes.NewReader(make([]byte, avail)), rate.NewLimiter(rate.Inf, b))
	n, err := r.Read(make([]byte, plen))
	e := "0"
	if err == io.EOF {
		e = "eof"
	} else if err != nil {
		e = "other"
	}
	return fmt.Sprintf("n=%d;err=%s", n, e)
}

// ---- the limiter wrappers over a real finite rate.Limiter

var stkErrSinkFull = fmt.Errorf("sink full")

// a limiter with burst b: r > 0 => r tokens/s, really waited for. r == 0 => 1 token/s and refill() makes the bucket
// full again (the bucket is advanced to a time ten years ahead; later requests "before" that time see it full), so
// that used() = burst - tokens is exactly what the WaitN calls since the last refill took, and nothing ever waits.
func stkFiniteLimiter(b, r int) (l *rate.Limiter, used func() int, refill func()) {
	if r > 0 {
		return rate.NewLimiter(rate.Limit(float64(r)), b), nil, func() {}
	}
	l = rate.NewLimiter(rate.Limit(1), b)
	used = func() int { return int(float64(b) - l.Tokens() + 0.5) }
	refill = func() { l.SetLimitAt(time.Now().Add(10*365*24*time.Hour), rate.Limit(1)) }
	return
}

// a contract-abiding io.Writer that accepts `room` more bytes and then fails
type stkRoomSink struct {
	room   int
	got    []byte
	sizes  []int // len(p) of every Write it saw during the current call
	tokens []int // tokens taken from the limiter since the previous sink write
	used   func() int
	refill func()
}

func (s *stkRoomSink) Write(p []byte) (int, error) {
	s.sizes = append(s.sizes, len(p))
	if s.used != nil {
		s.tokens = append(s.tokens, s.used())
		s.refill()
	}
	if len(p) <= s.room {
		s.got = append(s.got, p...)
		s.room -= len(p)
		return len(p), nil
	}
	k := s.room
	s.got = append(s.got, p[:k]...)
	s.room = 0
	return k, stkErrSinkFull
}

func stkSlash(xs []int) string {
	var out []string
	for _, x := range xs {
		out = append(out, strconv.Itoa(x))
	}
	return strings.Join(out, "/")
}

// run f, but never wait for a limiter that will not grant within the op's time (a WaitN the model does not have)
func stkGuard(d time.Duration, f func() string) string {
	ch := make(chan string, 1)
	go func() {
		defer func() {
			if r := recover(); r != nil {
				ch <- fmt.Sprint("PANIC:", r)
			}
		}()
		ch <- f()
	}()
	select {
	case s := <-ch:
		return s
	case <-time.After(d):
		return "hang"
	}
}

func stkWlim(kv map[string]string) string {
	b, r, room, seed := atoi(kv["b"]), atoi(kv["r"]), atoi(kv["room"]), int64(atoi(kv["seed"]))
	if b < 1 {
		return "badburst"
	}
	return stkGuard(3*time.Second, func() string {
		l, used, refill := stkFiniteLimiter(b, r)
		sink := &stkRoomSink{room: room, used: used, refill: refill}
		w := limit.NewWriter(sink, l)
		var all []byte
		var calls []string
		for i, ls := range strings.Split(kv["w"], ",") {
			p := stkPayload(atoi(ls), "rand", seed+int64(i), false)
			all = append(all, p...)
			sink.sizes, sink.tokens = nil, nil
			n, err := w.Write(p)
			e := "0"
			switch {
			case err == nil:
			case err == stkErrSinkFull:
				e = "sink"
			case strings.Contains(err.Error(), "exceeds limiter's burst"):
				e = "wait"
			default:
				e = "other"
			}
			tk := "-"
			if used != nil {
				if t := used(); t != 0 { // tokens taken after the last sink write of this call
					sink.tokens = append(sink.tokens, t)
				}
				refill()
				tk = stkSlash(sink.tokens)
			}
			calls = append(calls, fmt.Sprintf("%d:%s:%s:%s", n, e, stkSlash(sink.sizes), tk))
		}
		cat := len(sink.got) <= len(all) && bytes.Equal(sink.got, all[:len(sink.got)])
		return fmt.Sprintf("c=%s;cat=%d", strings.Join(calls, "|"), stkBit(cat))
	})
}

// a stream that hands out at most `per` bytes per Read
type stkSegReader struct {
	data []byte
	per  int
}

func (s *stkSegReader) Read(p []byte) (int, error) {
	if len(s.data) == 0 {
		return 0, io.EOF
	}
	k := len(p)
	if s.per < k {
		k = s.per
	}
	k = copy(p[:k], s.data)
	s.data = s.data[k:]
	return k, nil
}

func stkRlim(kv map[string]string) string {
	b, r, plen, per, n, seed := atoi(kv["b"]), atoi(kv["r"]), atoi(kv["plen"]), atoi(kv["per"]), atoi(kv["n"]), int64(atoi(kv["seed"]))
	if b < 1 || plen < 1 || per < 1 {
		return "badarg"
	}
	return stkGuard(3*time.Second, func() string {
		l, used, refill := stkFiniteLimiter(b, r)
		src := stkPayload(n, "rand", seed, false)
		rd := limit.NewReader(&stkSegReader{data: src, per: per}, l)
		buf := make([]byte, plen)
		var got []byte
		var ns, tokens []string
		end := "max"
		for i := 0; i < n+2; i++ {
			k, err := rd.Read(buf)
			got = append(got, buf[:k]...)
			t := 0
			if used != nil {
				t = used()
				refill()
			}
			if err == nil {
				ns = append(ns, strconv.Itoa(k))
				tokens = append(tokens, strconv.Itoa(t))
				continue
			}
			if k != 0 || t != 0 { // bytes / tokens that came with the error
				ns = append(ns, strconv.Itoa(k))
				tokens = append(tokens, strconv.Itoa(t))
			}
			switch {
			case err == io.EOF:
				end = "eof"
			case strings.Contains(err.Error(), "exceeds limiter's burst"):
				end = "wait"
			default:
				end = "other"
			}
			break
		}
		req := "-"
		if used != nil {
			req = strings.Join(tokens, ",")
		}
		return fmt.Sprintf("n=%s;req=%s;end=%s;cat=%d", strings.Join(ns, ","), req, end, stkBit(bytes.Equal(got, src)))
	})
}

func stkBucket(kv map[string]string) string {
	r, b := atoi(kv["r"]), atoi(kv["b"])
	l := rate.NewLimiter(rate.Limit(float64(r)*1e6), b)
	base := time.Unix(1700000000, 0)
	// the limiter starts full at its first use; pin that to tick 0
	l.ReserveN(base, 0)
	var g []string
	for _, q := range strings.Split(kv["q"], ",") {
		f := strings.Split(q, ":")
		now := base.Add(time.Duration(atoi(f[0])) * time.Microsecond)
		res := l.ReserveN(now, atoi(f[1]))
		if !res.OK() {
			g = append(g, "no")
			continue
		}
		d := res.DelayFrom(now)
		us := (int64(atoi(f[0]))*1000 + d.Nanoseconds() + 500) / 1000
		g = append(g, strconv.FormatInt(us, 10))
	}
	return "g=" + strings.Join(g, ",")
}

// ---------------------------------------------------------------- server half

type stkSrv struct {
	pxy    sproxy.Proxy
	port   int
	name   string
	mu     sync.Mutex
	peers  chan *stkWork
	closes []*int32
	script *stkScriptConn // tail op: the next work connection is this scripted one
}

type stkWork struct {
	peer   net.Conn // the harness's (frpc's) end of the work connection
	closes *int32   // Close() calls frps made on its end
}

var (
	stkSrvs  = map[string]*stkSrv{}
	stkRC    *controller.ResourceController
	stkSCfg  *v1.ServerConfig
	stkSrvMu sync.Mutex
)

func stkServerSide() (*controller.ResourceController, *v1.ServerConfig) {
	if stkRC == nil {
		cfg := &v1.ServerConfig{}
		cfg.Complete()
		cfg.ProxyBindAddr = "127.0.0.1"
		cfg.Auth.Token = stkToken
		cfg.AllowPorts = nil
		stkSCfg = cfg
		stkRC = &controller.ResourceController{
			VisitorManager: visitor.NewManager(),
			TCPPortManager: ports.NewManager("tcp", cfg.ProxyBindAddr, cfg.AllowPorts),
			UDPPortManager: ports.NewManager("udp", cfg.ProxyBindAddr, cfg.AllowPorts),
			PluginManager:  splugin.NewManager(),
		}
	}
	return stkRC, stkSCfg
}

func stkGetSrv(enc, comp, lim bool) *stkSrv {
	key := fmt.Sprint(enc, comp, lim)
	if s, ok := stkSrvs[key]; ok {
		return s
	}
	rc, scfg := stkServerSide()
	s := &stkSrv{name: "c01srv-" + key, peers: make(chan *stkWork, 64)}
	pc := &v1.TCPProxyConfig{}
	pc.Name, pc.Type = s.name, "tcp"
	pc.RemotePort = freeTCPPort()
	pc.Transport.UseEncryption, pc.Transport.UseCompression = enc, comp
	if lim {
		q, err := types.NewBandwidthQuantity("100MB")
		if err != nil {
			panic(err)
		}
		pc.Transport.BandwidthLimit = q
		pc.Transport.BandwidthLimitMode = types.BandwidthLimitModeServer
	}
	pc.Complete("")
	pxy, err := sproxy.NewProxy(context.Background(), &sproxy.Options{
		UserInfo:           splugin.UserInfo{User: "u"},
		LoginMsg:           &msg.Login{},
		PoolCount:          0,
		ResourceController: rc,
		GetWorkConnFn: func() (net.Conn, error) {
			s.mu.Lock()
			sc := s.script
			s.script = nil
			s.mu.Unlock()
			if sc != nil {
				s.peers <- &stkWork{closes: &sc.closes}
				return sc, nil
			}
			a, b := stkPair()
			w := &stkWork{peer: b, closes: new(int32)}
			s.peers <- w
			return &stkCountConn{Conn: a, closes: w.closes}, nil
		},
		Configurer: pc,
		ServerCfg:  scfg,
	})
	if err != nil {
		panic(err)
	}
	if _, err := pxy.Run(); err != nil {
		panic(err)
	}
	s.pxy, s.port = pxy, pc.RemotePort
	stkSrvs[key] = s
	return s
}

func stkSrvOp(kv map[string]string) string {
	enc, comp, lim := kv["enc"] == "1", kv["comp"] == "1", kv["lim"] == "1"
	n, ch, seed := atoi(kv["n"]), atoi(kv["ch"]), int64(atoi(kv["seed"]))
	oneway := kv["mode"] == "oneway"
	s := stkGetSrv(enc, comp, lim)
	user, err := net.Dial("tcp", net.JoinHostPort("127.0.0.1", strconv.Itoa(s.port)))
	if err != nil {
		return "dial"
	}
	defer user.Close()
	var w *stkWork
	select {
	case w = <-s.peers:
	case <-time.After(3 * time.Second):
		return "nowork"
	}
	defer w.peer.Close()
	// frpc's part: StartWorkConn, then the stack the model predicts for the client (no client limiter here)
	_ = w.peer.SetReadDeadline(time.Now().Add(3 * time.Second))
	var m msg.StartWorkConn
	if err := msg.ReadMsgInto(w.peer, &m); err != nil {
		return "nostart"
	}
	_ = w.peer.SetReadDeadline(time.Time{})
	ua := user.LocalAddr().(*net.TCPAddr)
	nameOK := m.ProxyName == s.name
	srcOK := m.SrcAddr == ua.IP.String() && int(m.SrcPort) == ua.Port && int(m.DstPort) == s.port
	remote := stkMirror(w.peer, enc, comp, stkToken)

	payload := stkPayload(n, "rand", seed, oneway)
	reply := stkPayload(n/2+3, "mixed", seed+1, false)
	werr := make(chan error, 2)
	go func() { werr <- stkWriteChunked(user, payload, ch, seed) }()
	got, _ := stkReadFullTimeout(w.peer, remote, n, 5*time.Second)
	up := bytes.Equal(got, payload)
	go func() { werr <- stkWriteChunked(remote, reply, ch, seed+2) }()
	back, _ := stkReadFullTimeout(user, user, len(reply), 5*time.Second)
	down := bytes.Equal(back, reply)
	<-werr
	<-werr
	// the user leaves: frpc's end must see end-of-stream, frps must close its end of the work connection
	user.Close()
	eof := stkWaitEOF(w.peer, remote, 400*time.Millisecond)
	closes := stkStable(w.closes, 60*time.Millisecond)
	w.peer.Close() // releases a stuck Join
	return fmt.Sprintf("name=%d;src=%d;up=%d;down=%d;eof=%d;closes=%d", stkBit(nameOK), stkBit(srcOK), stkBit(up), stkBit(down),
		stkBit(eof), closes)
}

// ---------------------------------------------------------------- client half

type stkTransporter struct{}

func (stkTransporter) Send(msg.Message) error { return nil }
func (stkTransporter) Do(context.Context, msg.Message, string, string) (msg.Message, error) {
	return nil, fmt.Errorf("no server")
}
func (stkTransporter) Dispatch(msg.Message, string) bool                 { return false }
func (stkTransporter) DispatchWithType(msg.Message, string, string) bool { return false }

type stkCli struct {
	pxy     proxy.Proxy
	backend *stkBackend
	name    string
}

var stkClis = map[string]*stkCli{}

func stkClientCommon() *v1.ClientCommonConfig {
	c := &v1.ClientCommonConfig{}
	c.Auth.Token = stkToken
	c.Complete()
	return c
}

func stkTCPProxyCfg(name string, port int, enc, comp, lim bool, ppv string) *v1.TCPProxyConfig {
	pc := &v1.TCPProxyConfig{}
	pc.Name, pc.Type = name, "tcp"
	pc.LocalIP, pc.LocalPort = "127.0.0.1", port
	pc.Transport.UseEncryption, pc.Transport.UseCompression = enc, comp
	if ppv != "none" {
		pc.Transport.ProxyProtocolVersion = ppv
	}
	if lim {
		q, err := types.NewBandwidthQuantity("100MB")
		if err != nil {
			panic(err)
		}
		pc.Transport.BandwidthLimit = q
		pc.Transport.BandwidthLimitMode = types.BandwidthLimitModeClient
	}
	pc.Complete("")
	return pc
}

func stkGetCli(enc, comp, lim bool, ppv string) *stkCli {
	key := fmt.Sprint(enc, comp, lim, ppv)
	if c, ok := stkClis[key]; ok {
		return c
	}
	c := &stkCli{name: "c01cli-" + key, backend: stkNewBackend("B"+key, ppv != "none")}
	pc := stkTCPProxyCfg(c.name, c.backend.port(), enc, comp, lim, ppv)
	c.pxy = proxy.NewProxy(context.Background(), pc, stkClientCommon(), stkTransporter{}, nil)
	if c.pxy == nil {
		panic("no client proxy")
	}
	if err := c.pxy.Run(); err != nil {
		panic(err)
	}
	stkClis[key] = c
	return c
}

func stkPPString(h *pp.Header, hErr bool) string {
	if hErr {
		return "bad"
	}
	if h == nil {
		return "none"
	}
	s, _ := h.SourceAddr.(*net.TCPAddr)
	d, _ := h.DestinationAddr.(*net.TCPAddr)
	if s == nil || d == nil {
		return "bad"
	}
	return fmt.Sprintf("v%d:%s:%d:%s:%d", h.Version, hx(s.IP.String()), s.Port, hx(d.IP.String()), d.Port)
}

func stkCliOp(kv map[string]string) string {
	enc, comp, lim := kv["enc"] == "1", kv["comp"] == "1", kv["lim"] == "1"
	ppv := kv["pp"]
	n, ch, seed := atoi(kv["n"]), atoi(kv["ch"]), int64(atoi(kv["seed"]))
	c := stkGetCli(enc, comp, lim, ppv)
	a, b := stkPair()
	defer b.Close()
	closes := new(int32)
	// the addresses frps would report: a user at 10.1.2.3:<seed-derived port> who connected to 192.0.2.7:7000
	sport := 1024 + int(seed)%50000
	m := &msg.StartWorkConn{ProxyName: c.name, SrcAddr: "10.1.2.3", SrcPort: uint16(sport), DstAddr: "192.0.2.7", DstPort: 7000}
	if seed%3 == 0 {
		m.DstAddr = "" // GetRealConn passes no destination: the client substitutes 127.0.0.1
		m.DstPort = 0
	}
	go c.pxy.InWorkConn(&stkCountConn{Conn: a, closes: closes}, m)
	var bc *stkBConn
	select {
	case bc = <-c.backend.newC:
	case <-time.After(3 * time.Second):
		return "nobackend"
	}
	// frps's part: the stack the model predicts for the server (no server limiter here)
	local := stkMirror(b, enc, comp, stkToken)
	payload := stkPayload(n, "mixed", seed, false)
	werr := make(chan error, 1)
	go func() { werr <- stkWriteChunked(local, payload, ch, seed) }()
	tagLen := 1 + len(c.backend.tag)
	back, _ := stkReadFullTimeout(b, local, tagLen+n, 5*time.Second)
	<-werr
	got := stkRecvN(c.backend, bc, n, 2*time.Second)
	up := bytes.Equal(got, payload)
	down := len(back) == tagLen+n && string(back[1:tagLen]) == c.backend.tag && bytes.Equal(back[tagLen:], payload)
	pps := stkPPString(bc.hdr, bc.hErr)
	var eof bool
	if kv["who"] == "backend" {
		// the backend leaves: frps' end must see end-of-stream and frpc must close the work connection
		bc.c.Close()
		eof = stkWaitEOF(b, local, 400*time.Millisecond)
	} else {
		// frps closes the work connection: the backend must see end-of-stream
		b.Close()
		eof = stkWaitCh(bc.eof, 400*time.Millisecond)
	}
	cl := stkStable(closes, 60*time.Millisecond)
	bc.c.Close()
	return fmt.Sprintf("pp=%s;up=%d;down=%d;eof=%d;closes=%d", pps, stkBit(up), stkBit(down), stkBit(eof), cl)
}

// ---------------------------------------------------------------- name dispatch

type stkDisp struct {
	pm       *proxy.Manager
	backends []*stkBackend
}

var stkDisps = map[int]*stkDisp{}

func stkGetDisp(np int) *stkDisp {
	if d, ok := stkDisps[np]; ok {
		return d
	}
	d := &stkDisp{}
	var cfgs []v1.ProxyConfigurer
	for i := 0; i < np; i++ {
		b := stkNewBackend(fmt.Sprintf("D%d", i), false)
		d.backends = append(d.backends, b)
		// overlap-rich names: each a prefix of the next
		cfgs = append(cfgs, stkTCPProxyCfg("p"+strings.Repeat("x", i), b.port(), false, false, false, "none"))
	}
	d.pm = proxy.NewManager(context.Background(), stkClientCommon(), stkTransporter{}, nil)
	d.pm.UpdateAll(cfgs)
	for _, c := range cfgs {
		name := c.GetBaseConfig().Name
		dl := time.Now().Add(3 * time.Second)
		for {
			if err := d.pm.StartProxy(name, "r:1", ""); err == nil {
				break
			}
			if time.Now().After(dl) {
				panic("proxy " + name + " did not reach wait-start")
			}
			time.Sleep(2 * time.Millisecond)
		}
	}
	stkDisps[np] = d
	return d
}

func stkDispOp(kv map[string]string) string {
	np := atoi(kv["n"])
	d := stkGetDisp(np)
	name := "p" + strings.Repeat("x", np) // one longer than any registered name
	if kv["to"] != "x" {
		name = "p" + strings.Repeat("x", atoi(kv["to"]))
	}
	a, b := stkPair()
	defer b.Close()
	closes := new(int32)
	d.pm.HandleWorkConn(name, &stkCountConn{Conn: a, closes: closes}, &msg.StartWorkConn{ProxyName: name})
	// which backend gets a connection that carries our marker?
	marker := []byte(fmt.Sprintf("Emark-%d-%s", np, kv["to"]))
	_, _ = b.Write(marker)
	hit := "none"
	dl := time.Now().Add(250 * time.Millisecond)
	for hit == "none" && time.Now().Before(dl) {
		for i, be := range d.backends {
			select {
			case bc := <-be.newC:
				if bytes.Equal(stkRecvN(be, bc, len(marker), time.Second), marker) {
					hit = strconv.Itoa(i)
				}
				bc.c.Close()
			default:
			}
		}
		if atomic.LoadInt32(closes) > 0 && hit == "none" {
			time.Sleep(20 * time.Millisecond) // a backend dial would have happened before the close
			if len(d.backends[0].newC) == 0 {
				break
			}
		}
		time.Sleep(time.Millisecond)
	}
	closed := atomic.LoadInt32(closes) > 0
	if hit != "none" {
		closed = false // closed later by our own teardown; not part of the answer
	}
	return fmt.Sprintf("b=%s;closed=%d", hit, stkBit(closed))
}

// ---------------------------------------------------------------- wrappers

func stkWrapOp(kv map[string]string) string {
	k := atoi(kv["k"])
	a, b := stkPair()
	defer b.Close()
	closes, fn := new(int32), new(int32)
	base := &stkCountConn{Conn: a, closes: closes}
	var top io.Closer
	switch kv["kind"] {
	case "cn":
		top = netpkg.WrapCloseNotifyConn(base, func() { atomic.AddInt32(fn, 1) })
	case "stats":
		top = netpkg.WrapStatsConn(base, func(int64, int64) { atomic.AddInt32(fn, 1) })
	case "rwc":
		top = netpkg.WrapReadWriteCloserToConn(base, base)
	default:
		return "badkind"
	}
	for i := 0; i < k; i++ {
		_ = top.Close()
	}
	res := fmt.Sprintf("closes=%d;fn=%d", atomic.LoadInt32(closes), atomic.LoadInt32(fn))
	a.Close()
	return res
}

// ---------------------------------------------------------------- sniff replay

var (
	stkHello   = map[string][]byte{}
	stkHelloMu sync.Mutex // the e2e life op probes from several goroutines
)

// a real ClientHello record for the server name, produced by crypto/tls
func stkClientHello(sni string) []byte {
	stkHelloMu.Lock()
	defer stkHelloMu.Unlock()
	if h, ok := stkHello[sni]; ok {
		return h
	}
	a, b := net.Pipe()
	go func() {
		_ = tls.Client(a, &tls.Config{ServerName: sni, InsecureSkipVerify: true}).Handshake()
	}()
	hdr := make([]byte, 5)
	if _, err := io.ReadFull(b, hdr); err != nil {
		panic(err)
	}
	body := make([]byte, int(hdr[3])<<8|int(hdr[4]))
	if _, err := io.ReadFull(b, body); err != nil {
		panic(err)
	}
	b.Close()
	a.Close()
	h := append(hdr, body...)
	stkHello[sni] = h
	return h
}

type stkMux struct {
	addr string
	l    *vhost.Listener
}

var stkMuxes = map[string]*stkMux{}

func stkGetMux(kind string) *stkMux {
	if m, ok := stkMuxes[kind]; ok {
		return m
	}
	ln, err := net.Listen("tcp", "127.0.0.1:0")
	if err != nil {
		panic(err)
	}
	var mux *vhost.Muxer
	switch kind {
	case "https":
		hm, err := vhost.NewHTTPSMuxer(ln, 5*time.Second)
		if err != nil {
			panic(err)
		}
		mux = hm.Muxer
	default:
		tm, err := tcpmux.NewHTTPConnectTCPMuxer(ln, kind == "muxpt", 5*time.Second)
		if err != nil {
			panic(err)
		}
		mux = tm.Muxer
	}
	l, err := mux.Listen(context.Background(), &vhost.RouteConfig{Domain: "c01.test"})
	if err != nil {
		panic(err)
	}
	m := &stkMux{addr: ln.Addr().String(), l: l}
	stkMuxes[kind] = m
	return m
}

func stkSniffOp(kv map[string]string) string {
	kind, early, n := kv["kind"], atoi(kv["early"]), atoi(kv["n"])
	m := stkGetMux(kind)
	var req []byte
	if kind == "https" {
		req = stkClientHello("c01.test")
	} else {
		req = []byte("CONNECT c01.test:80 HTTP/1.1\r\nHost: c01.test:80\r\n\r\n")
	}
	rest := stkPayload(early+n, "rand", int64(early*7+n), false)
	acc := make(chan net.Conn, 1)
	go func() {
		c, err := m.l.Accept()
		if err != nil {
			acc <- nil
			return
		}
		acc <- c
	}()
	user, err := net.Dial("tcp", m.addr)
	if err != nil {
		return "dial"
	}
	defer user.Close()
	// the request and `early` further bytes leave in ONE write (they reach the sniffer together)
	if _, err := user.Write(append(append([]byte(nil), req...), rest[:early]...)); err != nil {
		return "write"
	}
	if kind == "mux" { // non-passthrough: frps answers 200 itself
		_ = user.SetReadDeadline(time.Now().Add(3 * time.Second))
		br := bufio.NewReader(user)
		var reply []byte
		for !bytes.HasSuffix(reply, []byte("\r\n\r\n")) {
			c, err := br.ReadByte()
			if err != nil {
				return "noreply:" + hx(string(reply))
			}
			reply = append(reply, c)
		}
		_ = user.SetReadDeadline(time.Time{})
		if !bytes.HasPrefix(reply, []byte("HTTP/1.1 200")) {
			return "noreply:" + hx(string(reply))
		}
	}
	if _, err := user.Write(rest[early:]); err != nil {
		return "write2"
	}
	var c net.Conn
	select {
	case c = <-acc:
	case <-time.After(3 * time.Second):
		return "noaccept"
	}
	if c == nil {
		return "noaccept"
	}
	defer c.Close()
	user.(*net.TCPConn).CloseWrite()
	_ = c.SetReadDeadline(time.Now().Add(3 * time.Second))
	got, _ := io.ReadAll(c)
	full := append(append([]byte(nil), req...), rest...)
	switch {
	case bytes.Equal(got, full):
		return "got=all;miss=0"
	case bytes.Equal(got, rest):
		return "got=rest;miss=0"
	case len(got) <= len(rest) && bytes.Equal(got, rest[len(rest)-len(got):]):
		return fmt.Sprintf("got=lost;miss=%d", len(rest)-len(got))
	}
	return "got=other;miss=-1"
}

// ---------------------------------------------------------------- dispatch

func stkExec(tok []string) string {
	kv := stkKV(tok)
	switch tok[0] {
	case "reset":
		return "-"
	case "wr":
		return stkWr(kv)
	case "wrl":
		return stkWrl(kv)
	case "wtok":
		return stkWtok(kv)
	case "rd":
		return stkRd(kv)
	case "wlim":
		return stkWlim(kv)
	case "rlim":
		return stkRlim(kv)
	case "bucket":
		return stkBucket(kv)
	case "srv":
		return stkSrvOp(kv)
	case "cli":
		return stkCliOp(kv)
	case "disp":
		return stkDispOp(kv)
	case "wrap":
		return stkWrapOp(kv)
	case "sniff":
		return stkSniffOp(kv)
	case "dl":
		return stkDlOp(kv)
	case "rsrc":
		return stkRsrc(kv)
	case "wsnk":
		return stkWsnk(kv)
	case "tail":
		return stkTailOp(kv)
	case "qclose":
		return stkQCloseOp(kv)
	}
	return "badop"
}

var _ = sort.Ints
