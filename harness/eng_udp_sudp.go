package main

import (
	"context"
	"errors"
	"fmt"
	"io"
	"math/rand"
	"net"
	"sort"
	"strings"
	"sync"
	"time"

	libio "github.com/fatedier/golib/io"

	"github.com/fatedier/frp/client/visitor"
	v1 "github.com/fatedier/frp/pkg/config/v1"
	"github.com/fatedier/frp/pkg/msg"
	"github.com/fatedier/frp/pkg/proto/udp"
	"github.com/fatedier/frp/pkg/transport"
	"github.com/fatedier/frp/pkg/vnet"
)

// sudp op of engine "udp" (property C03): the real client/visitor.SUDPVisitor (dispatcher, worker,
// ForwardUserConn) against a scripted peer that plays frps + the sudp proxy behind it: it answers the
// NewVisitorConn handshake (or makes it fail), records every UDPPacket per visitor connection, sends
// replies / pings, and takes the connection away.
//
//	sudp ps=<ps> enc=<0|1> comp=<0|1> k=<k> s=<tok,tok,...>
//	  d<u>.<len>.<seed>  user u sends a datagram; wait until the peer has it (or it is known to be consumed
//	                     by a failing connection attempt)
//	  D<u>.<len>.<seed>  the same without waiting (burst; the next waiting token collects)
//	  r<u>.<len>.<seed>  the peer sends a reply for user u on the current connection (ignored when there is
//	                     none or the peer has not learned the address of u); wait until u has it
//	  R<u>.<len>.<seed>  the same without waiting (burst of replies; the next waiting token collects)
//	  p                  the peer sends a Ping on the current connection
//	  x | y | z          the current connection goes away: FIN from the peer | frame of unknown type |
//	                     frame longer than the 10240 limit (the visitor's reader fails and closes)
//	  fd | fr | fc       the next connection attempt fails: dial error | NewVisitorConnResp.Error |
//	                     connection closed instead of the response
//	  => W=<g/u.seq.len.hash,...>;U0=…;…;conns=<n>;bad=<n>
//	     W = packets received, g = number of the visitor connection; bad = packets with a RemoteAddr that
//	     is not the sending user's address, a LocalAddr, or an undecodable content
//
// seq = index of the token in the script; payloads as in `tunnel`; reply = tunnelReply(tunnelPayload).
type sudpWEntry struct {
	g int
	e tentry
}

type sudpPeer struct {
	ln     net.Listener
	secret string

	mu        sync.Mutex
	conns     int
	cur       io.ReadWriteCloser // wrapped current connection (nil = none)
	curRaw    net.Conn
	curGen    int
	w         []sudpWEntry
	bad       int
	learned   map[int]*net.UDPAddr // user -> RemoteAddr as carried by its packets
	userPort  map[int]int          // real source port of user u
	failQ     []string
	failsDone int
	closedGen int // highest connection number the peer has seen end
	all       []net.Conn
}

func (p *sudpPeer) ConnectServer() (net.Conn, error) {
	p.mu.Lock()
	if len(p.failQ) > 0 && p.failQ[0] == "fd" {
		p.failQ = p.failQ[1:]
		p.failsDone++
		p.mu.Unlock()
		return nil, errors.New("scripted dial failure")
	}
	p.mu.Unlock()
	return net.Dial("tcp", p.ln.Addr().String())
}
func (p *sudpPeer) TransferConn(string, net.Conn) error          { return nil }
func (p *sudpPeer) MsgTransporter() transport.MessageTransporter { return nil }
func (p *sudpPeer) VNetController() *vnet.Controller             { return nil }
func (p *sudpPeer) RunID() string                                { return "c03-sudp" }

func (p *sudpPeer) serve() {
	for {
		c, err := p.ln.Accept()
		if err != nil {
			return
		}
		p.mu.Lock()
		p.all = append(p.all, c)
		p.mu.Unlock()
		go p.handle(c)
	}
}

func (p *sudpPeer) handle(c net.Conn) {
	var hello msg.NewVisitorConn
	if err := msg.ReadMsgInto(c, &hello); err != nil {
		c.Close()
		return
	}
	p.mu.Lock()
	if len(p.failQ) > 0 {
		kind := p.failQ[0]
		p.failQ = p.failQ[1:]
		p.mu.Unlock()
		if kind == "fr" {
			_ = msg.WriteMsg(c, &msg.NewVisitorConnResp{ProxyName: hello.ProxyName, Error: "scripted refusal"})
		}
		c.Close()
		p.mu.Lock()
		p.failsDone++
		p.mu.Unlock()
		return
	}
	p.mu.Unlock()
	if err := msg.WriteMsg(c, &msg.NewVisitorConnResp{ProxyName: hello.ProxyName}); err != nil {
		c.Close()
		return
	}
	// as frps: wrappers as announced in the message
	var rw io.ReadWriteCloser = c
	if hello.UseEncryption {
		var err error
		rw, err = libio.WithEncryption(rw, []byte(p.secret))
		if err != nil {
			c.Close()
			return
		}
	}
	if hello.UseCompression {
		rw = libio.WithCompression(rw)
	}
	p.mu.Lock()
	p.conns++
	g := p.conns
	p.cur, p.curRaw, p.curGen = rw, c, g
	p.mu.Unlock()
	for {
		raw, err := msg.ReadMsg(rw)
		if err != nil {
			break
		}
		m, ok := raw.(*msg.UDPPacket)
		if !ok {
			continue
		}
		b, derr := udp.GetContent(m)
		e := entryOf(b)
		p.mu.Lock()
		if derr != nil || m.LocalAddr != nil || m.RemoteAddr == nil {
			p.bad++
		} else {
			if port, known := p.userPort[e.u]; !known || port != m.RemoteAddr.Port || !m.RemoteAddr.IP.IsLoopback() {
				p.bad++
			} else if _, ok := p.learned[e.u]; !ok {
				p.learned[e.u] = m.RemoteAddr
			}
		}
		p.w = append(p.w, sudpWEntry{g, e})
		p.mu.Unlock()
	}
	c.Close()
	p.mu.Lock()
	if p.curGen == g {
		p.cur, p.curRaw = nil, nil
	}
	if g > p.closedGen {
		p.closedGen = g
	}
	p.mu.Unlock()
}

func sudpWaitFor(cond func() bool, max time.Duration) bool {
	deadline := time.Now().Add(max)
	for {
		if cond() {
			return true
		}
		if time.Now().After(deadline) {
			return false
		}
		time.Sleep(200 * time.Microsecond)
	}
}

// runSudp executes one script; second result = something expected did not arrive (and nothing is wrong)
func runSudp(ps int, enc, comp bool, k int, script []string) (string, bool) {
	ln, err := net.Listen("tcp", "127.0.0.1:0")
	if err != nil {
		panic(err)
	}
	peer := &sudpPeer{ln: ln, secret: "c03-secret", learned: map[int]*net.UDPAddr{}, userPort: map[int]int{}}
	go peer.serve()

	port := freeUDPPort()
	cfg := &v1.SUDPVisitorConfig{}
	cfg.Name = "c03sudp_visitor"
	cfg.Type = "sudp"
	cfg.ServerName = "c03sudp"
	cfg.SecretKey = peer.secret
	cfg.BindAddr = "127.0.0.1"
	cfg.BindPort = port
	cfg.Transport.UseEncryption = enc
	cfg.Transport.UseCompression = comp
	vis, err := visitor.NewVisitor(context.Background(), cfg, &v1.ClientCommonConfig{UDPPacketSize: int64(ps)}, peer)
	if err != nil {
		panic(err)
	}
	if err := vis.Run(); err != nil {
		panic(err)
	}

	users := make([]*net.UDPConn, k)
	uLog := make([][]tentry, k)
	var umu sync.Mutex
	var wg sync.WaitGroup
	for i := 0; i < k; i++ {
		c, err := net.DialUDP("udp", nil, &net.UDPAddr{IP: net.IPv4(127, 0, 0, 1), Port: port})
		if err != nil {
			panic(err)
		}
		_ = c.SetReadBuffer(4 << 20)
		users[i] = c
		peer.mu.Lock()
		peer.userPort[i] = c.LocalAddr().(*net.UDPAddr).Port
		peer.mu.Unlock()
		wg.Add(1)
		go func(i int, c *net.UDPConn) {
			defer wg.Done()
			buf := make([]byte, 70000)
			for {
				n, err := c.Read(buf)
				if err != nil {
					return
				}
				e := entryOf(buf[:n])
				umu.Lock()
				uLog[i] = append(uLog[i], e)
				umu.Unlock()
			}
		}(i, c)
	}

	// the light-load bookkeeping of the script (what must have happened before the next token)
	live := false   // a visitor connection is up (as far as the script goes)
	armed := 0      // failing attempts still armed
	expectW := 0    // datagrams the peer must have received
	expectF := 0    // failing attempts that must have been consumed
	expectU := make([]int, k)
	missing := false
	surplus := false // the peer got more than was sent: the verdict is settled, do not wait long any more
	lostW := 0       // datagrams given up on at an earlier wait (the waits after it do not pay for them again)
	patience := 400 * time.Millisecond
	var syncUp func()
	syncUp = func() {
		ok := sudpWaitFor(func() bool {
			peer.mu.Lock()
			defer peer.mu.Unlock()
			if len(peer.w) > expectW || peer.bad > 0 {
				surplus = true
			}
			return len(peer.w) >= expectW-lostW && peer.failsDone >= expectF
		}, patience)
		if !ok {
			missing = true
			peer.mu.Lock()
			if d := expectW - len(peer.w); d > lostW {
				lostW = d
			}
			if peer.failsDone < expectF {
				expectF = peer.failsDone
			}
			peer.mu.Unlock()
			patience = 100 * time.Millisecond
		}
		if surplus {
			patience = 30 * time.Millisecond
		}
	}
	// replies sent without waiting (R) are collected at the next wait
	collectReplies := func() {
		ok := sudpWaitFor(func() bool {
			umu.Lock()
			defer umu.Unlock()
			for u := range expectU {
				if len(uLog[u]) < expectU[u] {
					return false
				}
			}
			return true
		}, patience)
		if !ok {
			missing = true
			umu.Lock()
			for u := range expectU {
				if len(uLog[u]) < expectU[u] {
					expectU[u] = len(uLog[u])
				}
			}
			umu.Unlock()
			patience = 100 * time.Millisecond
		}
	}
	syncData := syncUp
	syncUp = func() { syncData(); collectReplies() }
	settle := func() { time.Sleep(15 * time.Millisecond) }
	killed := false
	for i, t := range script {
		switch {
		case t[0] == 'd' || t[0] == 'D':
			f := strings.Split(t[1:], ".")
			u, ln, seed := atoi(f[0]), atoi(f[1]), atoi(f[2])
			if !live {
				if armed > 0 {
					armed--
					expectF++
				} else {
					live = true
					expectW++
				}
			} else {
				expectW++
			}
			_, _ = users[u].Write(tunnelPayload(u, i, ln, seed))
			if t[0] == 'd' {
				syncUp()
			}
		case t[0] == 'R':
			// a reply of a burst: written behind the previous one, nobody waits (the first of a burst synchronises
			// with the datagrams before it, as `r` does: the peer must have learned the user's address)
			if i == 0 || script[i-1][0] != 'R' {
				syncUp()
			}
			f := strings.Split(t[1:], ".")
			u, ln, seed := atoi(f[0]), atoi(f[1]), atoi(f[2])
			peer.mu.Lock()
			cur, addr := peer.cur, peer.learned[u]
			peer.mu.Unlock()
			if !live || cur == nil || addr == nil {
				continue
			}
			if err := msg.WriteMsg(cur, udp.NewUDPPacket(tunnelReply(tunnelPayload(u, i, ln, seed)), nil, addr)); err != nil {
				continue
			}
			expectU[u]++
		case t[0] == 'r':
			syncUp()
			f := strings.Split(t[1:], ".")
			u, ln, seed := atoi(f[0]), atoi(f[1]), atoi(f[2])
			peer.mu.Lock()
			cur, addr := peer.cur, peer.learned[u]
			peer.mu.Unlock()
			if !live || cur == nil || addr == nil {
				continue
			}
			if err := msg.WriteMsg(cur, udp.NewUDPPacket(tunnelReply(tunnelPayload(u, i, ln, seed)), nil, addr)); err != nil {
				continue
			}
			expectU[u]++
			want := expectU[u]
			if !sudpWaitFor(func() bool { umu.Lock(); defer umu.Unlock(); return len(uLog[u]) >= want }, patience) {
				missing = true
				umu.Lock()
				expectU[u] = len(uLog[u])
				umu.Unlock()
				patience = 100 * time.Millisecond
			}
		case t == "p":
			syncUp()
			peer.mu.Lock()
			cur := peer.cur
			peer.mu.Unlock()
			if live && cur != nil {
				_ = msg.WriteMsg(cur, &msg.Ping{})
			}
		case t == "x" || t == "y" || t == "z":
			syncUp()
			peer.mu.Lock()
			cur, raw, g := peer.cur, peer.curRaw, peer.curGen
			peer.mu.Unlock()
			if !live || cur == nil {
				continue
			}
			switch t {
			case "x": // FIN; the visitor's reader gets EOF and closes its side, which the peer then sees
				if tc, ok := raw.(*net.TCPConn); ok {
					_ = tc.CloseWrite()
				}
			case "y":
				_, _ = cur.Write([]byte{0x7e, 0, 0, 0, 0, 0, 0, 0, 2, '{', '}'})
			case "z":
				_, _ = cur.Write([]byte{'u', 0, 0, 0, 0, 0, 0, 0x28, 0x01})
			}
			if !sudpWaitFor(func() bool { peer.mu.Lock(); defer peer.mu.Unlock(); return peer.closedGen >= g }, 2*time.Second) {
				raw.Close()
			}
			live = false
			killed = true
			settle() // closeCh is closed right after conn.Close(); the sender leaves, the dispatcher loops
		case t == "fd" || t == "fr" || t == "fc":
			syncUp() // an attempt that is under way belongs to the datagrams before this token
			peer.mu.Lock()
			peer.failQ = append(peer.failQ, t)
			peer.mu.Unlock()
			armed++
		default:
			panic("bad sudp token " + t)
		}
	}
	syncUp()
	if killed {
		settle()
	} else {
		time.Sleep(3 * time.Millisecond) // let a duplicate show up
	}

	vis.Close()
	ln.Close()
	peer.mu.Lock()
	for _, c := range peer.all {
		c.Close()
	}
	peer.mu.Unlock()
	for _, c := range users {
		c.Close()
	}
	wg.Wait()

	peer.mu.Lock()
	defer peer.mu.Unlock()
	ws := append([]sudpWEntry(nil), peer.w...)
	sort.Slice(ws, func(i, j int) bool {
		a, b := ws[i], ws[j]
		if a.g != b.g {
			return a.g < b.g
		}
		if a.e.u != b.e.u {
			return a.e.u < b.e.u
		}
		if a.e.seq != b.e.seq {
			return a.e.seq < b.e.seq
		}
		if a.e.ln != b.e.ln {
			return a.e.ln < b.e.ln
		}
		return a.e.h < b.e.h
	})
	parts := make([]string, len(ws))
	for i, w := range ws {
		parts[i] = fmt.Sprintf("%d/%d.%d.%d.%d", w.g, w.e.u, w.e.seq, w.e.ln, w.e.h)
	}
	out := "W=" + strings.Join(parts, ",")
	for i := 0; i < k; i++ {
		out += fmt.Sprintf(";U%d=%s", i, fmtEntries(uLog[i]))
	}
	out += fmt.Sprintf(";conns=%d;bad=%d", peer.conns, peer.bad)
	return out, missing && !surplus && len(peer.w) <= expectW
}

func sudpExec(tok []string) string {
	ps := atoi(strings.TrimPrefix(tok[1], "ps="))
	enc := tok[2] == "enc=1"
	comp := tok[3] == "comp=1"
	k := atoi(strings.TrimPrefix(tok[4], "k="))
	var script []string
	if s := strings.TrimPrefix(tok[5], "s="); s != "" {
		script = strings.Split(s, ",")
	}
	// a datagram legitimately lost (kernel, or sent in the instant the connection was going away) must
	// not alarm: when something is missing the same op is run again
	res, missing := runSudp(ps, enc, comp, k, script)
	if udpRerunWorthIt(missing) {
		res, missing = runSudp(ps, enc, comp, k, script)
		udpRerunDone(missing)
	}
	return res
}

// ---------------------------------------------------------------- generator

func sudpGenLen(rng *rand.Rand, ps, maxLen int) int {
	ln := 4 + rng.Intn(maxLen-3)
	switch rng.Intn(10) {
	case 0:
		ln = 4
	case 1:
		ln = maxLen
	case 2:
		if maxLen >= ps { // a little longer than the packet size: cut by the read buffer
			ln = ps + 1 + rng.Intn(8)
		}
	}
	return ln
}

// sudpGenScript: traffic of k users interleaved with replies, pings, connection loss of three kinds at
// arbitrary points (also back to back, also as the very first / very last token) and failing
// connection attempts of three kinds (also several in a row).
func sudpGenScript(rng *rand.Rand, ps, k, ntok, maxLen, bursts int) string {
	toks := make([]string, 0, ntok)
	live := false
	seen := map[int]bool{}
	killW, failW := 8, 5
	switch rng.Intn(4) {
	case 0: // one long-lived connection
		killW, failW = 1, 1
	case 1: // flapping connection
		killW, failW = 20, 12
	}
	for len(toks) < ntok {
		r := rng.Intn(100)
		switch {
		case r < killW:
			toks = append(toks, pick(rng, []string{"x", "x", "y", "z"}))
			live = false
		case r < killW+failW:
			toks = append(toks, pick(rng, []string{"fd", "fr", "fc"}))
		case r < killW+failW+3:
			toks = append(toks, "p")
		case r < killW+failW+3+15 && live && len(seen) > 0:
			us := make([]int, 0, len(seen))
			for u := range seen {
				us = append(us, u)
			}
			sort.Ints(us)
			toks = append(toks, fmt.Sprintf("r%d.%d.%d", pick(rng, us), sudpGenLen(rng, ps, maxLen), rng.Intn(1<<30)))
		default:
			c := "d"
			if rng.Intn(7) == 0 {
				c = "D"
			}
			u := rng.Intn(k)
			toks = append(toks, fmt.Sprintf("%s%d.%d.%d", c, u, sudpGenLen(rng, ps, maxLen), rng.Intn(1<<30)))
			// bookkeeping only for the validity of later `r` tokens (armed failures make this
			// optimistic; an `r` without connection or address is ignored by both sides)
			live = true
			seen[u] = true
		}
	}
	// bursts of 20 to 100 distinct payloads at arbitrary points of the script: datagrams back to back on the visitor's
	// port (one user, the users in turn, arbitrary users; the length changes from datagram to datagram), collected by
	// a waiting datagram, and — half of the time — behind it as many replies back to back on the visitor connection
	// to the users of the burst, collected by a waiting reply
	for b := 0; b < bursts; b++ {
		g, bmax := burstShape(rng, ps)
		if bmax > maxLen {
			bmax = maxLen
		}
		var seg []string
		mode, u0 := rng.Intn(3), rng.Intn(k)
		ln := sudpGenLen(rng, ps, bmax)
		us := make([]int, g)
		for i := 0; i < g; i++ {
			u := u0
			switch mode {
			case 1:
				u = (u0 + i) % k
			case 2:
				u = rng.Intn(k)
			}
			us[i] = u
			if rng.Intn(4) != 0 {
				ln = sudpGenLen(rng, ps, bmax)
			}
			seg = append(seg, fmt.Sprintf("D%d.%d.%d", u, ln, rng.Intn(1<<30)))
		}
		seg = append(seg, fmt.Sprintf("d%d.%d.%d", u0, sudpGenLen(rng, ps, bmax), rng.Intn(1<<30)))
		if rng.Intn(2) == 0 {
			for i := 0; i < g; i++ {
				if rng.Intn(4) != 0 {
					ln = sudpGenLen(rng, ps, bmax)
				}
				seg = append(seg, fmt.Sprintf("R%d.%d.%d", us[i], ln, rng.Intn(1<<30)))
			}
			seg = append(seg, fmt.Sprintf("r%d.%d.%d", u0, sudpGenLen(rng, ps, bmax), rng.Intn(1<<30)))
		}
		at := rng.Intn(len(toks) + 1)
		toks = append(toks[:at], append(seg, toks[at:]...)...)
	}
	return strings.Join(toks, ",")
}

func sudpGen(rng *rand.Rand, n int, emit func(string)) {
	cnt := n/120 + 3
	for i := 0; i < cnt; i++ {
		k := 1 + rng.Intn(4)
		ps, maxLen := 1500, 1500
		switch rng.Intn(8) {
		case 0:
			ps, maxLen = 64, 64
		case 1:
			ps, maxLen = 4096, 4096
		case 2:
			ps, maxLen = 7605, 7605
		case 3:
			ps, maxLen = 1500, 200
		}
		// the four encryption x compression settings in turn, then arbitrary ones; every fifth script carries bursts
		enc, comp := i>>1&1, i&1
		if i >= 4 {
			enc, comp = rng.Intn(2), rng.Intn(2)
		}
		bursts := 0
		if i%5 == 0 {
			bursts = 1 + rng.Intn(2)
		}
		emit(fmt.Sprintf("sudp ps=%d enc=%d comp=%d k=%d s=%s", ps, enc, comp, k,
			sudpGenScript(rng, ps, k, 8+rng.Intn(40), maxLen, bursts)))
	}
}
