package main

import (
	"context"
	crand "crypto/rand"
	"errors"
	"fmt"
	"io"
	"math/rand"
	"net"
	"path"
	"reflect"
	"runtime"
	"sort"
	"strconv"
	"strings"
	"sync"
	"sync/atomic"
	"time"
	"unsafe"

	libio "github.com/fatedier/golib/io"
	"github.com/samber/lo"

	v1 "github.com/fatedier/frp/pkg/config/v1"
	"github.com/fatedier/frp/pkg/msg"
	"github.com/fatedier/frp/pkg/nathole"
	netpkg "github.com/fatedier/frp/pkg/util/net"
	"github.com/fatedier/frp/pkg/util/util"
	"github.com/fatedier/frp/pkg/util/version"
	"github.com/fatedier/frp/server"
	"github.com/fatedier/frp/server/controller"
	"github.com/fatedier/frp/server/visitor"
)

// Engine "visitor" (C08): admission of visitors to secret proxies.
//
// Layer A — the real visitor.Manager and nathole.Controller driven directly; the harness is the
// owner (it holds every InternalListener / sidCh ever returned, also after closure):
//
//	reset
//	key <sk> <ts>                                   => hx(util.GetAuthKey(sk, ts))
//	listen <name> <sk> <allow>                      => ok:<lid> | repeated            (Manager.Listen)
//	nlisten <name> <sk> <allow>                     => ok:<lid> | repeated            (Controller.ListenClient)
//	close <name> | nclose <name>                    => -                              (CloseListener / CloseClient)
//	lclose <name>                                   => -                              (InternalListener.Close only)
//	conn <name> <ts> <sign> <user> <connid> <ec>    => queued | dropped | err:<kind>  (Manager.NewConn; ec = enc,comp flags)
//	accept <name>                                   => c<connid>@<lid>[:bytes-bad] | none   (one Accept on the listener registered under
//	                                                   name; then a marker is sent visitor→owner and owner→visitor through the wrappers)
//	echo <connid>                                   => ok | bad | none                (another round trip on an accepted stream that is still open)
//	drain                                           => <lid>=<ids>|… | -              (everything still waiting in ANY listener ever made)
//
// Interleavings of NewConn with Listen / CloseListener.  NewConn can be held up from outside at exactly
// one point: libio.WithEncryption → crypto.NewWriter reads the IV from crypto/rand.Reader.  The harness
// puts a gate in front of that reader which stops only calls that come from a `vbegin` goroutine:
//
//	vbegin <name> <ts> <sign> <user> <connid> <ec>  => paused | queued | dropped | err:<kind> | wouldblock
//	vend <connid> ok|fail                           => <queued|dropped|err:<kind>> w=[<results of the writers that had to wait>]
//
// While a NewConn is paused, listen / close are issued by one owner goroutine and answer `blocked` when
// they do not return (they wait for the manager's lock); their results appear in the w=[…] of the vend
// after which they ran.  conn / vbegin behind a waiting writer are not executed (`wouldblock`).
//
//	natv <name> <ts> <sign> <user> pc=<b> ua=<b>    => preok | sid:<lid> | err:<kind>, then " left=<sessions stored afterwards>"
//	natflood <name> <ts> <sign> <user> pc=<b> ua=<b> <k>  => <answer>*<k> | mixed:<answers> , then " left=…": k identical
//	                                                   requests handled CONCURRENTLY by HandleVisitor
//
// left = sessions in the controller's own table (VerifSessions) that do not belong to a granted visit whose handler is
// still running: "a refused request leaves no session state behind" is evaluated on it by the driver.
//
// Layer B — one real server.Service on loopback; scripted raw peers log in, register proxies, ask:
//
//	slogin <rid> <user> <n>                         => ok | err      (Login.Hostname = "c<n>": the identity of this control;
//	                                                   the run id may be one that is still registered: re-login, the
//	                                                   old control is replaced)
//	slogout <rid>                                   => -
//	sreg <rid> <kind> <name> <sk> <allow> <ec>      => ok | exists | err:<text>
//	sclose <rid> <name>                             => -
//	svis <ridClaimed> <name> <ts> <sign> <ec> <id>  => ok:<owner rid>:echo | err:<kind> req=<rids that got ReqWorkConn | ->
//	                                                   then " cm=<n | ->": the control the ControlManager itself holds under the
//	                                                   claimed run id right after the answer (Service.VerifSessDump)
//	snat <rid> <name> <ts> <sign> pc=<b> ua=<b>     => preok req=- | sid:<owner rid> | err:<kind> req=… , then " left=…"
//
// ua= is the generator's note whether the user is in the proxy's allow list (checked by the driver).
type visAddr struct{ id int }

func (a visAddr) Network() string { return "vis" }
func (a visAddr) String() string  { return "vis:" + strconv.Itoa(a.id) }

type visConn struct {
	net.Conn
	id int
}

func (c *visConn) RemoteAddr() net.Addr { return visAddr{c.id} }

type visListener struct {
	lid  int
	l    *netpkg.InternalListener
	name string
	sk   string
	// an Accept that did not return within the wait stays behind; what it gets later belongs to the next accept / drain
	waiting bool
	got     chan net.Conn
}

type visPending struct {
	peer net.Conn // the visitor's end of the pipe
	e, c bool
	sk   string
	w    io.ReadWriteCloser // the visitor's wrappers, made once (the IV travels once per direction)
	n    int                // round trips made
}

// a NewConn call started by vbegin
type visFlight struct {
	id      int
	a, b    net.Conn
	hit     atomic.Bool
	paused  chan struct{}
	release chan bool
	done    chan error
}

// a Listen / CloseListener call handed to the owner goroutine
type visWrite struct {
	kind, name, sk string
	allow          []string
	l              *netpkg.InternalListener
	err            error
	done           chan struct{}
}

const visBlockWait = 15 * time.Millisecond // how long a writer is given before it is reported as blocked
const visAcceptWait = 40 * time.Millisecond

var visArmed atomic.Pointer[visFlight]
var visGateOnce sync.Once

type visGateReader struct{ orig io.Reader }

func (g visGateReader) Read(p []byte) (int, error) {
	if f := visArmed.Load(); f != nil && visOnFlightStack() && f.hit.CompareAndSwap(false, true) {
		f.paused <- struct{}{}
		if ok := <-f.release; !ok {
			return 0, errors.New("verif: iv source failed")
		}
	}
	return g.orig.Read(p)
}

func visOnFlightStack() bool {
	pc := make([]uintptr, 48)
	n := runtime.Callers(2, pc)
	frames := runtime.CallersFrames(pc[:n])
	for {
		fr, more := frames.Next()
		if strings.HasSuffix(fr.Function, "main.visFlightCall") {
			return true
		}
		if !more {
			return false
		}
	}
}

//go:noinline
func visFlightCall(vm *visitor.Manager, name string, c net.Conn, ts int64, sign string, e, z bool, user string) error {
	return vm.NewConn(name, c, ts, sign, e, z, user)
}

type visState struct {
	vm     *visitor.Manager
	nc     *nathole.Controller
	nextID int
	byName map[string]*visListener // as registered now
	all    []*visListener          // every listener ever made
	conns  map[int]*visPending
	events chan [2]string // (lid, sid) received on any sidCh ever made
	// granted NAT-hole visits whose handler is still waiting out NatHoleTimeout: sid -> handler done
	pendingNat map[string]chan struct{}
	open       map[int]net.Conn   // accepted streams (the owner's end)
	flights    map[int]*visFlight // paused NewConn calls
	pendingW   []*visWrite        // writers handed to the owner goroutine, not yet settled (in order)
	wres       []string           // results of writers that had been reported blocked
	ownerCh    chan *visWrite
	retiredAt  time.Time
}

var vst *visState

// controllers of earlier episodes with granted visits in flight: their handlers end NatHoleTimeout after
// the grant and must then have removed their session
var visRetired []*visState

func visResetA() string {
	visGateOnce.Do(func() { crand.Reader = visGateReader{orig: crand.Reader} })
	// one second (the unit of NatHoleTimeout): since the notify send is bounded by this timeout a value
	// of 0 would make the send race with an already expired timer
	nathole.NatHoleTimeout = 1
	res := "-"
	if vst != nil {
		for _, f := range vst.flights {
			f.release <- true
			select {
			case <-f.done:
			case <-time.After(time.Second):
			}
		}
		for _, w := range vst.pendingW {
			select {
			case <-w.done:
			case <-time.After(time.Second):
			}
		}
		close(vst.ownerCh)
		for _, p := range vst.conns {
			p.peer.Close()
		}
		if len(vst.pendingNat) > 0 {
			vst.retiredAt = time.Now()
			visRetired = append(visRetired, vst)
		}
	}
	// "leaves no session state behind": a granted visit's handler is over 1 s after the grant; controllers
	// retired longer ago than that (with slack) must not hold a session any more
	keep := visRetired[:0]
	for _, old := range visRetired {
		if time.Since(old.retiredAt) < 1500*time.Millisecond {
			keep = append(keep, old)
			continue
		}
		if n := len(old.nc.VerifSessions()); n > 0 {
			res = "leftover:" + strconv.Itoa(n)
		}
	}
	visRetired = keep
	c, _ := nathole.NewController(time.Hour)
	vst = &visState{vm: visitor.NewManager(), nc: c, byName: map[string]*visListener{}, conns: map[int]*visPending{},
		events: make(chan [2]string, 64), pendingNat: map[string]chan struct{}{}, open: map[int]net.Conn{},
		flights: map[int]*visFlight{}, ownerCh: make(chan *visWrite, 4096)}
	go func(ch chan *visWrite, vm *visitor.Manager) { // the owner: issues Listen / CloseListener one after the other
		for w := range ch {
			if w.kind == "listen" {
				w.l, w.err = vm.Listen(w.name, w.sk, w.allow)
			} else {
				vm.CloseListener(w.name)
			}
			close(w.done)
		}
	}(vst.ownerCh, vst.vm)
	return res
}

// bookkeeping of a writer that has returned (main goroutine only)
func (st *visState) settle(w *visWrite) string {
	if w.kind == "close" {
		delete(st.byName, w.name)
		return "-"
	}
	if w.err != nil {
		return "repeated"
	}
	vl := &visListener{lid: st.nextID, l: w.l, name: w.name, sk: w.sk, got: make(chan net.Conn, 1)}
	st.nextID++
	st.byName[w.name] = vl
	st.all = append(st.all, vl)
	return "ok:" + strconv.Itoa(vl.lid)
}

// settle every writer that has returned, oldest first (the owner runs them in order)
func (st *visState) collect() {
	for len(st.pendingW) > 0 {
		select {
		case <-st.pendingW[0].done:
			st.wres = append(st.wres, st.settle(st.pendingW[0]))
			st.pendingW = st.pendingW[1:]
		default:
			return
		}
	}
}

func (st *visState) write(w *visWrite) string {
	w.done = make(chan struct{})
	st.pendingW = append(st.pendingW, w)
	wait := 3 * time.Second // nothing can be in its way: it must return
	if len(st.flights) > 0 || len(st.pendingW) > 1 {
		wait = visBlockWait
	}
	st.ownerCh <- w
	select {
	case <-w.done:
		st.collect()
		r := st.wres[len(st.wres)-1]
		st.wres = st.wres[:len(st.wres)-1]
		return r
	case <-time.After(wait):
		return "blocked"
	}
}

// the answer of a NewConn call that has returned
func (st *visState) connOutcome(id int, a, b net.Conn, err error) string {
	if err != nil {
		a.Close()
		b.Close()
		delete(st.conns, id)
		return "err:" + visErrClass(err.Error())
	}
	// nil error: either in the accept channel or closed by PutConn because the channel is full
	_ = b.SetReadDeadline(time.Now().Add(200 * time.Microsecond))
	if _, rerr := b.Read(make([]byte, 1)); rerr == io.EOF || rerr == io.ErrClosedPipe {
		delete(st.conns, id)
		return "dropped"
	}
	_ = b.SetReadDeadline(time.Time{})
	return "queued"
}

func visErrClass(e string) string {
	switch {
	case e == "":
		return "none"
	case strings.Contains(e, "no client control found"):
		return "norun"
	case strings.Contains(e, "doesn't exist"):
		return "noexist"
	case strings.Contains(e, "auth failed"):
		return "auth"
	case strings.Contains(e, "not allowed"):
		return "notallowed"
	case strings.Contains(e, "listener is closed"):
		return "closed"
	case strings.Contains(e, "create encryption connection failed"):
		return "encfail"
	}
	return "other:" + hx(e)
}

// what the visitor's frpc puts on its end (client/visitor/stcp.go): enc(sk) then comp
func visWrap(c io.ReadWriteCloser, e, z bool, key string) io.ReadWriteCloser {
	if e {
		w, err := libio.WithEncryption(c, []byte(key))
		if err != nil {
			return c
		}
		c = w
	}
	if z {
		c = libio.WithCompression(c)
	}
	return c
}

func visAcceptOne(vl *visListener, wait time.Duration) (net.Conn, bool) {
	if !vl.waiting {
		vl.waiting = true
		go func() {
			c, err := vl.l.Accept()
			if err != nil {
				vl.got <- nil
				return
			}
			vl.got <- c
		}()
	}
	select {
	case c := <-vl.got:
		vl.waiting = false
		return c, c != nil
	case <-time.After(wait):
		return nil, false
	}
}

// one marker visitor→owner and one owner→visitor through the wrappers each end declared.
// Bounded from outside: a wrapper that has lost its stream may block on a connection no deadline reaches.
// In-process pipes answer in microseconds; after a first failure the rest of the run waits only briefly.
var visTripWait = 400 * time.Millisecond

func visRoundTrip(st *visState, id int, got net.Conn) bool {
	p := st.conns[id]
	if p == nil {
		return false
	}
	if p.w == nil {
		p.w = visWrap(p.peer, p.e, p.c, p.sk)
	}
	p.n++
	tag := strconv.Itoa(id) + "-" + strconv.Itoa(p.n)
	ping, pong := []byte("hello-"+tag), []byte("reply-"+tag)
	w := p.w
	res := make(chan bool, 1)
	go func() {
		go func() { _, _ = w.Write(ping) }()
		buf := make([]byte, len(ping))
		if _, err := io.ReadFull(got, buf); err != nil || string(buf) != string(ping) {
			res <- false
			return
		}
		go func() { _, _ = got.Write(pong) }()
		buf2 := make([]byte, len(pong))
		if _, err := io.ReadFull(w, buf2); err != nil || string(buf2) != string(pong) {
			res <- false
			return
		}
		res <- true
	}()
	ok := false
	select {
	case ok = <-res:
	case <-time.After(visTripWait):
	}
	if !ok {
		visTripWait = 30 * time.Millisecond
	}
	return ok
}

func visExec(tok []string) string {
	if vst == nil {
		visResetA()
	}
	st := vst
	switch tok[0] {
	case "reset":
		r := visResetA()
		visResetB()
		return r
	case "key":
		ts, _ := strconv.ParseInt(tok[2], 10, 64)
		return hx(util.GetAuthKey(unhx(tok[1]), ts))
	case "listen":
		return st.write(&visWrite{kind: "listen", name: unhx(tok[1]), sk: unhx(tok[2]), allow: unlist(tok[3])})
	case "nlisten":
		name := unhx(tok[1])
		ch, err := st.nc.ListenClient(name, unhx(tok[2]), unlist(tok[3]))
		if err != nil {
			return "repeated"
		}
		lid := st.nextID
		st.nextID++
		go func() { // the owner loop of xtcp.go (kept receiving: every delivery must be seen)
			for sid := range ch {
				st.events <- [2]string{strconv.Itoa(lid), sid}
			}
		}()
		return "ok:" + strconv.Itoa(lid)
	case "close":
		return st.write(&visWrite{kind: "close", name: unhx(tok[1])})
	case "nclose":
		st.nc.CloseClient(unhx(tok[1]))
		return "-"
	case "lclose":
		if vl := st.byName[unhx(tok[1])]; vl != nil {
			vl.l.Close()
		}
		return "-"
	case "conn", "vbegin":
		if len(st.pendingW) > 0 {
			return "wouldblock" // RLock would queue behind the waiting writer
		}
		ts, _ := strconv.ParseInt(tok[2], 10, 64)
		id := atoi(tok[5])
		a, b := net.Pipe()
		e, z := tok[6][0] == '1', tok[6][1] == '1'
		sk := ""
		if vl := st.byName[unhx(tok[1])]; vl != nil {
			sk = vl.sk
		}
		st.conns[id] = &visPending{peer: b, e: e, c: z, sk: sk}
		if tok[0] == "conn" {
			err := st.vm.NewConn(unhx(tok[1]), &visConn{Conn: a, id: id}, ts, unhx(tok[3]), e, z, unhx(tok[4]))
			return st.connOutcome(id, a, b, err)
		}
		f := &visFlight{id: id, a: a, b: b, paused: make(chan struct{}, 1), release: make(chan bool, 1), done: make(chan error, 1)}
		visArmed.Store(f)
		go func() {
			f.done <- visFlightCall(st.vm, unhx(tok[1]), &visConn{Conn: a, id: id}, ts, unhx(tok[3]), e, z, unhx(tok[4]))
		}()
		defer visArmed.Store(nil)
		select {
		case <-f.paused:
			st.flights[id] = f
			return "paused"
		case err := <-f.done:
			return st.connOutcome(id, a, b, err)
		case <-time.After(3 * time.Second):
			return "hang"
		}
	case "vend":
		id := atoi(tok[1])
		f := st.flights[id]
		if f == nil {
			return "noflight"
		}
		f.release <- tok[2] == "ok"
		var err error
		select {
		case err = <-f.done:
		case <-time.After(3 * time.Second):
			return "hang"
		}
		delete(st.flights, id)
		res := st.connOutcome(id, f.a, f.b, err)
		if len(st.flights) == 0 { // the last reader has left: the waiting writers run now
			for _, w := range st.pendingW {
				select {
				case <-w.done:
				case <-time.After(3 * time.Second):
				}
			}
		}
		st.collect()
		res += " w=[" + strings.Join(st.wres, ",") + "]"
		st.wres = nil
		return res
	case "accept":
		vl := st.byName[unhx(tok[1])]
		if vl == nil {
			return "none"
		}
		c, ok := visAcceptOne(vl, visAcceptWait)
		if !ok {
			return "none"
		}
		id := -1
		if a, isV := c.RemoteAddr().(visAddr); isV {
			id = a.id
		}
		r := "c" + strconv.Itoa(id) + "@" + strconv.Itoa(vl.lid)
		st.open[id] = c
		if !visRoundTrip(st, id, c) {
			r += ":bytes-bad"
		}
		return r
	case "echo":
		id := atoi(tok[1])
		c := st.open[id]
		if c == nil {
			return "none"
		}
		if !visRoundTrip(st, id, c) {
			return "bad"
		}
		return "ok"
	case "drain":
		parts := []string{}
		for _, vl := range st.all {
			vl.l.Close()
			ids := []string{}
			if vl.waiting { // an Accept left behind by a timed-out accept op: it returns now, with the oldest connection if any
				vl.waiting = false
				if c := <-vl.got; c != nil {
					if a, isV := c.RemoteAddr().(visAddr); isV {
						ids = append(ids, strconv.Itoa(a.id))
					} else {
						ids = append(ids, "?")
					}
				}
			}
			for {
				c, err := vl.l.Accept()
				if err != nil {
					break
				}
				if a, isV := c.RemoteAddr().(visAddr); isV {
					ids = append(ids, strconv.Itoa(a.id))
				} else {
					ids = append(ids, "?")
				}
			}
			if len(ids) > 0 {
				parts = append(parts, strconv.Itoa(vl.lid)+"="+strings.Join(ids, ","))
			}
		}
		if len(parts) == 0 {
			return "-"
		}
		return strings.Join(parts, "|")
	case "natv":
		ts, _ := strconv.ParseInt(tok[2], 10, 64)
		t := newCapT()
		done := make(chan struct{})
		m := &msg.NatHoleVisitor{TransactionID: "t", ProxyName: unhx(tok[1]), SignKey: unhx(tok[3]), Timestamp: ts,
			PreCheck: tok[5] == "pc=1", Protocol: "quic", MappedAddrs: []string{"1.2.3.4:5"}}
		go func() {
			defer close(done)
			st.nc.HandleVisitor(m, t, unhx(tok[4]))
		}()
		evs := []string{}
		select {
		case <-done:
		case ev := <-st.events:
			// the sid reached an owner loop: the visit is granted; its handler now waits up to
			// NatHoleTimeout for the owner's NatHoleClient message and then removes the session
			evs = append(evs, ev[0])
			st.pendingNat[ev[1]] = done
		case <-time.After(4 * time.Second):
			return "hang"
		}
	collect:
		for {
			select {
			case ev := <-st.events:
				evs = append(evs, ev[0])
			default:
				break collect
			}
		}
		left := st.natLeft()
		t.mu.Lock()
		msgs := append([]*msg.NatHoleResp{}, t.msgs...)
		t.mu.Unlock()
		r := ""
		switch {
		case len(evs) == 1 && len(msgs) == 0:
			r = "sid:" + evs[0]
		case len(evs) == 0 && len(msgs) == 1 && msgs[0].Error == "":
			r = "preok"
		case len(evs) == 0 && len(msgs) == 1:
			r = "err:" + visErrClass(msgs[0].Error)
		default:
			r = fmt.Sprintf("odd:ev=%d,msg=%d", len(evs), len(msgs))
		}
		return r + " left=" + strconv.Itoa(left)
	case "natflood":
		ts, _ := strconv.ParseInt(tok[2], 10, 64)
		k := atoi(tok[7])
		if k < 1 || k > 48 {
			return "bad-k"
		}
		var wg sync.WaitGroup
		allDone := make(chan struct{})
		tr := make([]*capT, k)
		for i := 0; i < k; i++ {
			tr[i] = newCapT()
			m := &msg.NatHoleVisitor{TransactionID: "t" + strconv.Itoa(i), ProxyName: unhx(tok[1]), SignKey: unhx(tok[3]), Timestamp: ts,
				PreCheck: tok[5] == "pc=1", Protocol: "quic", MappedAddrs: []string{"1.2.3.4:5"}}
			wg.Add(1)
			go func(t *capT) {
				defer wg.Done()
				st.nc.HandleVisitor(m, t, unhx(tok[4]))
			}(tr[i])
		}
		go func() { wg.Wait(); close(allDone) }()
		// every handler either answers its visitor or notifies an owner loop
		evs := []string{}
		answered := func() int {
			n := 0
			for _, t := range tr {
				n += t.count()
			}
			return n
		}
		deadline := time.After(4 * time.Second)
	wait:
		for answered()+len(evs) < k {
			select {
			case ev := <-st.events:
				evs = append(evs, ev[0])
				st.pendingNat[ev[1]] = allDone
			case <-allDone:
				if answered()+len(evs) < k && len(st.events) == 0 {
					break wait
				}
			case <-time.After(200 * time.Microsecond):
			case <-deadline:
				return "hang"
			}
		}
		if len(evs) == 0 {
			select { // refused requests: their handlers are over when they have answered; do not look at the table earlier
			case <-allDone:
			case <-time.After(2 * time.Second):
			}
		}
		cls := map[string]int{}
		for _, e := range evs {
			cls["sid:"+e]++
		}
		for _, t := range tr {
			t.mu.Lock()
			for _, m := range t.msgs {
				if m.Error == "" {
					cls["preok"]++
				} else {
					cls["err:"+visErrClass(m.Error)]++
				}
			}
			t.mu.Unlock()
		}
		keys := lo.Keys(cls)
		sort.Strings(keys)
		r := ""
		if len(keys) == 1 && cls[keys[0]] == k {
			r = keys[0] + "*" + strconv.Itoa(k)
		} else {
			parts := []string{}
			for _, c := range keys {
				parts = append(parts, c+"*"+strconv.Itoa(cls[c]))
			}
			r = "mixed:" + strings.Join(parts, ",")
		}
		return r + " left=" + strconv.Itoa(st.natLeft())
	}
	return visExecB(tok)
}

// sessions stored in the controller that do not belong to a granted visit whose handler is still running
func (st *visState) natLeft() int {
	left := 0
	for _, sid := range st.nc.VerifSessions() {
		if d, ok := st.pendingNat[sid]; ok {
			select {
			case <-d:
				delete(st.pendingNat, sid)
				left++ // handler finished but the session is still stored
			default: // in flight, legitimately stored
			}
			continue
		}
		left++
	}
	return left
}

// ------------------------------------------------------------------------------------ layer B

type visProxy struct {
	kind, sk string
	e, c     bool
}

type visPeer struct {
	rid, user string
	conn      net.Conn
	crw       io.ReadWriter
	in        chan msg.Message
	proxies   map[string]visProxy
	wmu       sync.Mutex
}

type visSvc struct {
	svr    *server.Service
	cancel context.CancelFunc
	addr   string
	peers  map[string]*visPeer
	tid    int
	nat    *nathole.Controller  // the service's own NAT-hole controller
	natSid map[string]time.Time // sids the harness saw granted (NatHoleSid on the owner's work connection), with the time
}

var vsvc *visSvc

func visStartSvc() *visSvc {
	if vsvc != nil {
		return vsvc
	}
	cfg := &v1.ServerConfig{}
	cfg.Complete()
	cfg.BindAddr = "127.0.0.1"
	cfg.ProxyBindAddr = "127.0.0.1"
	cfg.BindPort = freeTCPPort()
	cfg.Transport.TCPMux = lo.ToPtr(false)
	cfg.UserConnTimeout = 5
	cfg.Transport.TLS.CertFile, cfg.Transport.TLS.KeyFile = siteCert()
	svr, err := server.NewService(cfg)
	if err != nil {
		panic("infra newservice " + err.Error())
	}
	ctx, cancel := context.WithCancel(context.Background())
	go svr.Run(ctx)
	vsvc = &visSvc{svr: svr, cancel: cancel, addr: fmt.Sprintf("127.0.0.1:%d", cfg.BindPort), peers: map[string]*visPeer{},
		nat: visSvcNat(svr), natSid: map[string]time.Time{}}
	return vsvc
}

// Service.rc is not exported; the controller in it is (read-only use: VerifSessions)
func visSvcNat(svr *server.Service) *nathole.Controller {
	f := reflect.ValueOf(svr).Elem().FieldByName("rc")
	if !f.IsValid() {
		panic("infra: server.Service has no field rc")
	}
	rc := reflect.NewAt(f.Type(), unsafe.Pointer(f.UnsafeAddr())).Elem().Interface().(*controller.ResourceController)
	return rc.NatHoleController
}

// sessions in the service's controller that are not granted visits still within their handler's life time
// (NatHoleTimeout = 1 s: the handler waits that long for the owner's NatHoleClient and then removes its session)
func (s *visSvc) natLeft() int {
	left := 0
	for _, sid := range s.nat.VerifSessions() {
		if t0, ok := s.natSid[sid]; ok && time.Since(t0) < 2500*time.Millisecond {
			continue
		}
		left++
	}
	for sid, t0 := range s.natSid {
		if time.Since(t0) > 10*time.Second {
			delete(s.natSid, sid)
		}
	}
	return left
}

// the control the ControlManager holds under a run id: its Login.Hostname is "c<n>"
func (s *visSvc) designated(rid string) string {
	byRun, _ := s.svr.VerifSessDump()
	h, ok := byRun[rid]
	if !ok || !strings.HasPrefix(h, "c") {
		return "-"
	}
	return h[1:]
}

func (s *visSvc) dial() net.Conn {
	for i := 0; i < 200; i++ {
		c, err := net.DialTimeout("tcp", s.addr, time.Second)
		if err == nil {
			return c
		}
		time.Sleep(5 * time.Millisecond)
	}
	panic("infra dial")
}

func (p *visPeer) send(m msg.Message) {
	p.wmu.Lock()
	defer p.wmu.Unlock()
	_ = msg.WriteMsg(p.crw, m)
}

// barrier: everything the server sent to this peer before the Pong is consumed; returns the number of ReqWorkConn seen
func (p *visPeer) barrier() int {
	p.send(&msg.Ping{})
	n := 0
	for {
		select {
		case m, ok := <-p.in:
			if !ok {
				return n
			}
			switch m.(type) {
			case *msg.ReqWorkConn:
				n++
			case *msg.Pong:
				return n
			}
		case <-time.After(3 * time.Second):
			return n + 1000
		}
	}
}

func (s *visSvc) reqSummary() string {
	rids := []string{}
	for rid, p := range s.peers {
		if p.barrier() > 0 {
			rids = append(rids, hx(rid))
		}
	}
	if len(rids) == 0 {
		return "-"
	}
	sort.Strings(rids)
	return strings.Join(rids, ",")
}

func (s *visSvc) runGone(rid string) bool {
	c := s.dial()
	defer c.Close()
	_ = c.SetDeadline(time.Now().Add(2 * time.Second))
	_ = msg.WriteMsg(c, &msg.NewVisitorConn{RunID: rid, ProxyName: "\x00none"})
	var r msg.NewVisitorConnResp
	if err := msg.ReadMsgInto(c, &r); err != nil {
		return false
	}
	return strings.Contains(r.Error, "no client control found")
}

func (s *visSvc) logout(rid string) {
	p := s.peers[rid]
	if p == nil {
		return
	}
	p.conn.Close()
	delete(s.peers, rid)
	// the session is gone when its run id is no longer known (ControlManager.Del runs after the proxies are closed)
	limit := time.Second
	if visNoRunBroken {
		limit = 50 * time.Millisecond
	}
	for t0 := time.Now(); time.Since(t0) < limit; {
		if s.runGone(rid) {
			return
		}
		time.Sleep(time.Millisecond)
	}
	visNoRunBroken = true // the implementation does not report unknown run ids (any more): do not wait long again
}

var visNoRunBroken bool

func visResetB() {
	if vsvc == nil {
		return
	}
	for rid := range vsvc.peers {
		vsvc.logout(rid)
	}
}

// wait until a peer receives a ReqWorkConn (returns it), or `watch` receives a NatHoleResp
func (s *visSvc) waitOwnerOrResp(watch *visPeer) (*visPeer, *msg.NatHoleResp) {
	deadline := time.Now().Add(3 * time.Second)
	for time.Now().Before(deadline) {
		for _, p := range s.peers {
			select {
			case m, ok := <-p.in:
				if !ok {
					continue
				}
				switch x := m.(type) {
				case *msg.ReqWorkConn:
					return p, nil
				case *msg.NatHoleResp:
					if p == watch {
						return nil, x
					}
				}
			default:
			}
		}
		time.Sleep(100 * time.Microsecond)
	}
	return nil, nil
}

func (s *visSvc) workConn(owner *visPeer) (net.Conn, *msg.StartWorkConn) {
	wc := s.dial()
	ts := time.Now().Unix()
	_ = wc.SetDeadline(time.Now().Add(3 * time.Second))
	_ = msg.WriteMsg(wc, &msg.NewWorkConn{RunID: owner.rid, Timestamp: ts, PrivilegeKey: util.GetAuthKey("", ts)})
	var sw msg.StartWorkConn
	if err := msg.ReadMsgInto(wc, &sw); err != nil {
		wc.Close()
		return nil, nil
	}
	return wc, &sw
}

func visExecB(tok []string) string {
	s := visStartSvc()
	switch tok[0] {
	case "slogin":
		rid, user := unhx(tok[1]), unhx(tok[2])
		c := s.dial()
		ts := time.Now().Unix()
		_ = c.SetDeadline(time.Now().Add(5 * time.Second))
		_ = msg.WriteMsg(c, &msg.Login{Version: version.Full(), Hostname: "c" + tok[3], User: user, RunID: rid, Timestamp: ts,
			PrivilegeKey: util.GetAuthKey("", ts)})
		var lr msg.LoginResp
		if err := msg.ReadMsgInto(c, &lr); err != nil || lr.Error != "" || lr.RunID != rid {
			c.Close()
			return "err"
		}
		if old := s.peers[rid]; old != nil {
			// re-login: the server has replaced the old control (its connection is closed, its proxies are gone:
			// RegisterControl answers only after oldCtl.WaitClosed())
			old.conn.Close()
			delete(s.peers, rid)
		}
		_ = c.SetDeadline(time.Time{})
		crw, err := netpkg.NewCryptoReadWriter(c, []byte(""))
		if err != nil {
			return "err"
		}
		p := &visPeer{rid: rid, user: user, conn: c, crw: crw, in: make(chan msg.Message, 256), proxies: map[string]visProxy{}}
		go func() {
			defer close(p.in)
			for {
				m, err := msg.ReadMsg(crw)
				if err != nil {
					return
				}
				p.in <- m
			}
		}()
		s.peers[rid] = p
		p.barrier()
		return "ok"
	case "slogout":
		s.logout(unhx(tok[1]))
		return "-"
	case "sreg":
		p := s.peers[unhx(tok[1])]
		if p == nil {
			return "nosession"
		}
		name := unhx(tok[3])
		e, z := tok[6][0] == '1', tok[6][1] == '1'
		p.send(&msg.NewProxy{ProxyName: name, ProxyType: tok[2], Sk: unhx(tok[4]), AllowUsers: unlist(tok[5]),
			UseEncryption: e, UseCompression: z})
		for {
			select {
			case m, ok := <-p.in:
				if !ok {
					return "closed"
				}
				if r, isR := m.(*msg.NewProxyResp); isR {
					if r.Error == "" {
						p.proxies[name] = visProxy{kind: tok[2], sk: unhx(tok[4]), e: e, c: z}
						return "ok"
					}
					if strings.Contains(r.Error, "already exists") {
						return "exists"
					}
					return "err:" + hx(r.Error)
				}
			case <-time.After(3 * time.Second):
				return "timeout"
			}
		}
	case "sclose":
		p := s.peers[unhx(tok[1])]
		if p == nil {
			return "-"
		}
		p.send(&msg.CloseProxy{ProxyName: unhx(tok[2])})
		p.barrier()
		delete(p.proxies, unhx(tok[2]))
		return "-"
	case "svis":
		return visSvis(s, tok) + " cm=" + s.designated(unhx(tok[1]))
	case "snat":
		return visSnat(s, tok) + " left=" + strconv.Itoa(s.natLeft())
	}
	return "unknown-op"
}

func visSvis(s *visSvc, tok []string) string {
	{
		name := unhx(tok[2])
		ts, _ := strconv.ParseInt(tok[3], 10, 64)
		e, z := tok[5][0] == '1', tok[5][1] == '1'
		c := s.dial()
		defer c.Close()
		_ = c.SetDeadline(time.Now().Add(5 * time.Second))
		_ = msg.WriteMsg(c, &msg.NewVisitorConn{RunID: unhx(tok[1]), ProxyName: name, SignKey: unhx(tok[4]), Timestamp: ts,
			UseEncryption: e, UseCompression: z})
		var r msg.NewVisitorConnResp
		if err := msg.ReadMsgInto(c, &r); err != nil {
			return "noresp req=" + s.reqSummary()
		}
		if r.Error != "" {
			return "err:" + visErrClass(r.Error) + " req=" + s.reqSummary()
		}
		owner, _ := s.waitOwnerOrResp(nil)
		if owner == nil {
			return "ok:none"
		}
		res := "ok:" + hx(owner.rid)
		wc, sw := s.workConn(owner)
		if wc == nil || sw.ProxyName != name || sw.Error != "" {
			return res + ":nowork req=" + s.reqSummary()
		}
		defer wc.Close()
		px := owner.proxies[name]
		// owner's frpc (client/proxy/proxy.go): enc(token) then comp, from the proxy's own declaration
		ow := visWrap(wc, px.e, px.c, "")
		// visitor's frpc (client/visitor/stcp.go): enc(secret key) then comp, from the visitor's declaration
		vw := visWrap(c, e, z, px.sk)
		ping, pong := []byte("ping:"+tok[6]), []byte("pong:"+tok[6])
		go func() { _, _ = vw.Write(ping) }()
		buf := make([]byte, len(ping))
		echo := "echo"
		if _, err := io.ReadFull(ow, buf); err != nil || string(buf) != string(ping) {
			echo = "noecho1"
		} else {
			go func() { _, _ = ow.Write(pong) }()
			buf2 := make([]byte, len(pong))
			if _, err := io.ReadFull(vw, buf2); err != nil || string(buf2) != string(pong) {
				echo = "noecho2"
			}
		}
		s.reqSummary() // consume the replacement ReqWorkConn
		return res + ":" + echo
	}
}

func visSnat(s *visSvc, tok []string) string {
	{
		p := s.peers[unhx(tok[1])]
		if p == nil {
			return "nosession"
		}
		ts, _ := strconv.ParseInt(tok[3], 10, 64)
		s.tid++
		p.send(&msg.NatHoleVisitor{TransactionID: "t" + strconv.Itoa(s.tid), ProxyName: unhx(tok[2]), SignKey: unhx(tok[4]),
			Timestamp: ts, PreCheck: tok[5] == "pc=1", Protocol: "quic", MappedAddrs: []string{"1.2.3.4:5"}})
		owner, resp := s.waitOwnerOrResp(p)
		if resp != nil {
			if resp.Error == "" {
				return "preok req=" + s.reqSummary()
			}
			return "err:" + visErrClass(resp.Error) + " req=" + s.reqSummary()
		}
		if owner == nil {
			return "silent req=" + s.reqSummary()
		}
		wc, sw := s.workConn(owner)
		if wc == nil || sw.ProxyName != unhx(tok[2]) {
			return "sid:" + hx(owner.rid) + ":nowork"
		}
		defer wc.Close()
		var ns msg.NatHoleSid
		if err := msg.ReadMsgInto(wc, &ns); err != nil || ns.Sid == "" {
			return "sid:" + hx(owner.rid) + ":nosid"
		}
		s.natSid[ns.Sid] = time.Now()
		s.reqSummary()
		return "sid:" + hx(owner.rid)
	}
}

// ------------------------------------------------------------------------------------ generator

func visList(xs []string) string {
	if len(xs) == 0 {
		return "-"
	}
	out := make([]string, len(xs))
	for i, x := range xs {
		out[i] = hx(x)
	}
	return strings.Join(out, ",")
}

type visGenPx struct {
	sk    string
	allow []string // effective
	owner string
	nat   bool
}

func visAllowed(allow []string, user string) bool {
	return lo.Contains(allow, user) || lo.Contains(allow, "*")
}

// Allow lists as a class (printable entries: a list also travels as JSON in NewProxy): 1-4 distinct names; optionally
// "" , "*" (anywhere: first, in the middle, last), an entry that equals another one up to case / surrounding white
// space, a near-wildcard ("**", "* ", "al*"); then some entries repeated (next to each other or apart, once or several
// times); finally the whole list permuted.  What `allowed` means does not depend on order or multiplicity
// (C08.allowed_perm_dedup), the code under test is free to store the list in any form.
func visGenAllow(rng *rand.Rand) []string {
	base := []string{"alice", "bob", "carol", "dave"}
	perm := rng.Perm(len(base))
	l := []string{}
	for i, k := 0, 1+rng.Intn(4); i < k; i++ {
		l = append(l, base[perm[i]])
	}
	insert := func(x string) {
		at := rng.Intn(len(l) + 1)
		l = append(l[:at:at], append([]string{x}, l[at:]...)...)
	}
	switch rng.Intn(10) {
	case 0:
		insert("")
	case 1, 2:
		insert("*")
	case 3:
		insert(visVariant(rng, pick(rng, l)))
	case 4, 6, 7:
		// something that looks like a pattern for a name that is NOT listed ("al*", "*ice", "a?ice", "**", "* ")
		insert(visPattern(rng, base[perm[len(base)-1]]))
	case 5:
		insert("")
		insert("*")
	}
	if rng.Intn(2) == 0 {
		for k := 1 + rng.Intn(3); k > 0; k-- {
			insert(pick(rng, l))
		}
	}
	rng.Shuffle(len(l), func(i, j int) { l[i], l[j] = l[j], l[i] })
	return l
}

// an entry that a pattern matcher would take for `name` (or for everybody), but that is not the wildcard "*"
func visPattern(rng *rand.Rand, name string) string {
	switch rng.Intn(7) {
	case 0:
		return name[:1+rng.Intn(len(name)-1)] + "*"
	case 1:
		return "*" + name[1+rng.Intn(len(name)-1):]
	case 2:
		return name[:1] + "?" + name[2:]
	case 3:
		return "**"
	case 4:
		return pick(rng, []string{"* ", " *", "*\t"})
	case 5:
		return ".*"
	}
	return name + "*"
}

// a string that is equal to e up to case / white space but not byte for byte
func visVariant(rng *rand.Rand, e string) string {
	switch rng.Intn(6) {
	case 0:
		if u := strings.ToUpper(e); u != e {
			return u
		}
	case 1:
		if len(e) > 0 && e[0] >= 'a' && e[0] <= 'z' {
			return string(e[0]-32) + e[1:]
		}
	case 2:
		return " " + e
	case 3:
		return e + "\t"
	case 4:
		if len(e) > 1 {
			return e[:len(e)-1] // a proper prefix
		}
	}
	return e + " "
}

// The visitors a list is probed with: nobody ("": no run id / a client that logged in without user), the owner's
// user, every listed entry (also "*" and "" as a user name), entries up to case / white space, unlisted users.
func visProbeUsers(rng *rand.Rand, allow []string, owner string) []string {
	us := []string{"", owner}
	us = append(us, lo.Uniq(allow)...)
	for _, e := range lo.Uniq(allow) {
		if rng.Intn(3) == 0 {
			us = append(us, visVariant(rng, e))
		}
	}
	// names a pattern-like entry would stand for if entries were patterns
	for _, e := range allow {
		if e != "*" && strings.ContainsAny(e, "*?") {
			for _, nm := range []string{"alice", "bob", "carol", "dave"} {
				if ok, _ := path.Match(strings.TrimSpace(e), nm); ok && rng.Intn(4) > 0 {
					us = append(us, nm)
				}
			}
		}
	}
	us = append(us, "mallory", pick(rng, []string{"alice", "bob", "carol", "dave", "*", " ", "Mallory"}))
	return lo.Uniq(us)
}

func visGen(rng *rand.Rand, n int, emit func(string)) {
	names := []string{"p1", "p2", "p3", "q"}
	sks := []string{"s1", "s", "s1x", "", "k\xff"}
	users := []string{"", "alice", "bob", "carol", "*"}
	fixedAllows := [][]string{nil, {"alice"}, {"alice", "bob"}, {"*"}, {"bob", "*"}, {""}, {"carol", "alice"}}
	// half of the lists from the fixed shapes, half from the class
	allowsPick := func() []string {
		if rng.Intn(2) == 0 {
			return pick(rng, fixedAllows)
		}
		return visGenAllow(rng)
	}
	tss := []int64{0, 2, 7, 12, -5, 1700000000, 112}
	ec := []string{"00", "01", "10", "11"}
	count := 0
	out := func(s string) { emit(s); count++ }
	connID := 0
	ctlN := 0   // identity of the next control (Login.Hostname = "c<n>")
	freshN := 0 // run ids never used before

	// a signature for (sk, ts), mostly right, sometimes spoiled
	sign := func(sk string, ts int64, good bool) string {
		if good {
			return util.GetAuthKey(sk, ts)
		}
		k := util.GetAuthKey(sk, ts)
		switch rng.Intn(7) {
		case 0:
			return util.GetAuthKey(sk+"x", ts)
		case 1:
			return util.GetAuthKey(sk, ts+1)
		case 2:
			return k[:31]
		case 3:
			return strings.ToUpper(k)
		case 4:
			return ""
		case 5:
			return k + "0"
		default:
			return util.GetAuthKey(pick(rng, sks), pick(rng, tss)) // may collide: "s1"+"2" = "s"+"12"
		}
	}

	// ---- episode 0: the accept channel holds 128 connections; the 129th is closed but answered with ""
	out("reset")
	out(fmt.Sprintf("listen %s %s %s", hx("p1"), hx("s1"), visList([]string{"*"})))
	for i := 0; i < 130; i++ {
		connID++
		out(fmt.Sprintf("conn %s 7 %s %s %d 00", hx("p1"), hx(util.GetAuthKey("s1", 7)), hx("bob"), connID))
	}
	out("accept " + hx("p1"))
	connID++
	out(fmt.Sprintf("conn %s 7 %s %s %d 11", hx("p1"), hx(util.GetAuthKey("s1", 7)), hx("bob"), connID))
	out("drain")
	// ---- the C08 witness on the controller: proxy p (key s, allowUsers [a]); user m, correctly signed
	out("reset")
	out(fmt.Sprintf("nlisten %s %s %s", hx("p"), hx("s"), visList([]string{"a"})))
	out(fmt.Sprintf("natv %s 7 %s %s pc=1 ua=0", hx("p"), hx(util.GetAuthKey("s", 7)), hx("m")))
	out(fmt.Sprintf("natv %s 7 %s %s pc=0 ua=0", hx("p"), hx(util.GetAuthKey("s", 7)), hx("m")))
	out(fmt.Sprintf("natv %s 7 %s %s pc=0 ua=1", hx("p"), hx(util.GetAuthKey("s", 7)), hx("a")))

	for count < n {
		out("reset")
		if rng.Intn(2) == 0 {
			// ------------------------------------------------ layer A episode
			lst := map[string]*visGenPx{}
			nat := map[string]*visGenPx{}
			qids := map[string][]int{} // what waits in the accept channel of the listener registered under the name
			closed := map[string]bool{}
			opened := []int{}       // accepted streams
			type genFlight struct { // a NewConn paused in WithEncryption
				id   int
				name string
			}
			flights := []genFlight{}
			pend := []func(){} // effects of the writers that wait for the lock
			steps := 30 + rng.Intn(50)
			liveName := func(m map[string]*visGenPx, dflt string) string {
				ks := make([]string, 0, len(m))
				for k := range m {
					ks = append(ks, k)
				}
				sort.Strings(ks)
				if len(ks) == 0 || rng.Intn(6) == 0 {
					return dflt
				}
				return pick(rng, ks)
			}
			write := func(eff func()) {
				if len(flights) > 0 || len(pend) > 0 {
					pend = append(pend, eff)
				} else {
					eff()
				}
			}
			listen := func(name, sk string, al []string) {
				out(fmt.Sprintf("listen %s %s %s", hx(name), hx(sk), visList(al)))
				write(func() {
					if lst[name] == nil {
						lst[name] = &visGenPx{sk: sk, allow: al}
						qids[name] = nil
						closed[name] = false
					}
				})
			}
			closeL := func(name string) {
				out("close " + hx(name))
				write(func() { delete(lst, name) })
			}
			accept := func(name string, evenIfEmpty bool) {
				if lst[name] != nil && len(qids[name]) > 0 {
					out("accept " + hx(name))
					opened = append(opened, qids[name][0])
					qids[name] = qids[name][1:]
				} else if evenIfEmpty {
					out("accept " + hx(name)) // nothing can be waiting there
				}
			}
			// one NewConn: op = "conn" (runs to its end) or "vbegin" (may be held up in WithEncryption)
			visit := func(op, name string, likelyGood bool) {
				if len(pend) > 0 {
					return // RLock would queue behind the waiting writer
				}
				ts := pick(rng, tss)
				user := pick(rng, users)
				sk := pick(rng, sks)
				if p := lst[name]; p != nil {
					sk = p.sk
					if (likelyGood || rng.Intn(3) > 0) && len(p.allow) > 0 {
						user = pick(rng, p.allow)
					} else if rng.Intn(2) == 0 {
						user = pick(rng, visProbeUsers(rng, p.allow, pick(rng, users)))
					}
				}
				good := rng.Intn(4) > 0
				if likelyGood {
					good = rng.Intn(8) > 0
				}
				sg := sign(sk, ts, good)
				nm := name
				if rng.Intn(25) == 0 && !likelyGood {
					nm = string([]byte{0xff, 'p', byte(rng.Intn(256))})
					user = string([]byte{byte(rng.Intn(256)), 0x80})
					sg = string([]byte{byte(rng.Intn(256)), byte(rng.Intn(256))})
				}
				connID++
				e := pick(rng, ec)
				if op == "vbegin" && rng.Intn(4) > 0 {
					e = "1" + e[1:]
				}
				out(fmt.Sprintf("%s %s %d %s %s %d %s", op, hx(nm), ts, hx(sg), hx(user), connID, e))
				if p := lst[nm]; p != nil && sg == util.GetAuthKey(p.sk, ts) && visAllowed(p.allow, user) {
					if op == "vbegin" && e[0] == '1' {
						flights = append(flights, genFlight{connID, nm})
					} else if !closed[nm] {
						qids[nm] = append(qids[nm], connID)
					}
				}
			}
			// a list probed through the real NewConn: every kind of visitor (nobody, the owner's user, each listed entry,
			// entries up to case / white space, unlisted users), each holding the key
			sweep := func(name string) {
				p := lst[name]
				if p == nil || len(pend) > 0 || len(flights) > 0 || len(qids[name]) > 60 {
					return
				}
				ts := pick(rng, tss)
				for _, u := range visProbeUsers(rng, p.allow, pick(rng, users)) {
					connID++
					sg := sign(p.sk, ts, rng.Intn(12) > 0)
					out(fmt.Sprintf("conn %s %d %s %s %d %s", hx(name), ts, hx(sg), hx(u), connID, pick(rng, ec)))
					if sg == util.GetAuthKey(p.sk, ts) && visAllowed(p.allow, u) && !closed[name] {
						qids[name] = append(qids[name], connID)
					}
				}
			}
			vend := func(k int) {
				f := flights[k]
				flights = append(flights[:k:k], flights[k+1:]...)
				ok := rng.Intn(8) > 0
				out(fmt.Sprintf("vend %d %s", f.id, lo.Ternary(ok, "ok", "fail")))
				if ok && lst[f.name] != nil && !closed[f.name] {
					qids[f.name] = append(qids[f.name], f.id)
				}
				if len(flights) == 0 {
					for _, eff := range pend {
						eff()
					}
					pend = nil
				}
			}
			otherCfg := func(name string) (string, []string) { // a key and a list that differ from the registered ones
				sk, al := pick(rng, sks), allowsPick()
				if p := lst[name]; p != nil {
					for k := 0; k < 4 && sk == p.sk; k++ {
						sk = pick(rng, sks)
					}
				}
				return sk, al
			}
			// what may happen while NewConn calls stand in WithEncryption
			meanwhile := func(name string) {
				switch rng.Intn(9) {
				case 0, 1:
					closeL(name)
				case 2, 3:
					sk, al := otherCfg(name)
					listen(name, sk, al)
				case 4:
					out("lclose " + hx(name))
					if lst[name] != nil {
						closed[name] = true
					}
				case 5:
					accept(name, false)
				case 6:
					visit("conn", name, true)
				case 7:
					closeL(pick(rng, names))
				default:
					out(fmt.Sprintf("key %s %d", hx(pick(rng, sks)), pick(rng, tss)))
				}
			}
			flightScenario := func(name string) {
				if lst[name] == nil && rng.Intn(5) > 0 && len(flights) == 0 {
					listen(name, pick(rng, sks), allowsPick())
				}
				for k := 1 + rng.Intn(2); k > 0; k-- {
					nm := name
					if rng.Intn(4) == 0 {
						nm = liveName(lst, name)
					}
					visit("vbegin", nm, true)
				}
				if rng.Intn(3) == 0 {
					// the proxy is closed and the name registered again, with another key / list
					closeL(name)
					sk, al := otherCfg(name)
					listen(name, sk, al)
				} else {
					for k := rng.Intn(5); k > 0; k-- {
						meanwhile(name)
					}
				}
				for len(flights) > 0 {
					vend(rng.Intn(len(flights)))
					if len(flights) > 0 && rng.Intn(2) == 0 {
						meanwhile(name)
					}
				}
				for k := rng.Intn(3); k > 0; k-- {
					accept(name, rng.Intn(3) == 0)
				}
			}
			for i := 0; i < steps && count < n; i++ {
				name := pick(rng, names)
				r := rng.Intn(100)
				if i < 4 {
					r = 4 + rng.Intn(20) // start with a few registrations
				}
				if r >= 35 && r < 82 {
					name = liveName(lst, name)
				} else if r >= 82 {
					name = liveName(nat, name)
				}
				switch {
				case r < 4:
					out(fmt.Sprintf("key %s %d", hx(pick(rng, sks)), pick(rng, tss)))
				case r < 17:
					listen(name, pick(rng, sks), allowsPick())
					if rng.Intn(4) == 0 {
						sweep(name)
					}
				case r < 24:
					sk, al := pick(rng, sks), allowsPick()
					out(fmt.Sprintf("nlisten %s %s %s", hx(name), hx(sk), visList(al)))
					if nat[name] == nil {
						nat[name] = &visGenPx{sk: sk, allow: al}
					}
				case r < 29:
					closeL(name)
				case r < 32:
					out("nclose " + hx(name))
					delete(nat, name)
				case r < 35:
					out("lclose " + hx(name))
					if lst[name] != nil {
						closed[name] = true
					}
				case r < 42:
					accept(name, false)
				case r < 46:
					if len(opened) > 0 && rng.Intn(8) > 0 {
						out(fmt.Sprintf("echo %d", pick(rng, opened)))
					} else {
						out(fmt.Sprintf("echo %d", 1+rng.Intn(connID+2)))
					}
				case r < 66:
					visit("conn", name, false)
				case r < 70:
					sweep(name)
				case r < 82:
					flightScenario(name)
				default:
					ts := pick(rng, tss)
					user := pick(rng, users)
					sk := pick(rng, sks)
					ua := false
					if p := nat[name]; p != nil {
						sk = p.sk
						if rng.Intn(3) == 0 && len(p.allow) > 0 {
							user = pick(rng, p.allow)
						} else if rng.Intn(3) == 0 {
							user = pick(rng, visProbeUsers(rng, p.allow, pick(rng, users)))
						}
						ua = visAllowed(p.allow, user)
					}
					if p := nat[name]; p != nil && rng.Intn(3) == 0 {
						// the list probed through the real HandleVisitor (pre-check and request proper)
						for _, u := range visProbeUsers(rng, p.allow, pick(rng, users)) {
							out(fmt.Sprintf("natv %s %d %s %s pc=%d ua=%d", hx(name), ts, hx(sign(p.sk, ts, rng.Intn(12) > 0)), hx(u),
								rng.Intn(2), lo.Ternary(visAllowed(p.allow, u), 1, 0)))
						}
						break
					}
					sg := sign(sk, ts, rng.Intn(4) > 0)
					if rng.Intn(6) == 0 {
						// a flood: the same request many times at once (refused ones of every kind, sometimes granted ones)
						out(fmt.Sprintf("natflood %s %d %s %s pc=%d ua=%d %d", hx(name), ts, hx(sg), hx(user), rng.Intn(2),
							lo.Ternary(ua, 1, 0), 2+rng.Intn(40)))
					} else {
						out(fmt.Sprintf("natv %s %d %s %s pc=%d ua=%d", hx(name), ts, hx(sg), hx(user), rng.Intn(2), lo.Ternary(ua, 1, 0)))
					}
				}
			}
			out("drain")
			continue
		}
		// ---------------------------------------------------- layer B episode
		sess := map[string]string{} // rid -> user
		px := map[string]*visGenPx{}
		rids := []string{"r1", "r2", "r3", "r4"}
		busers := []string{"alice", "bob", "", "alice", "carol", "*"}
		ballows := [][]string{nil, nil, {"alice"}, {"alice", "bob"}, {"*"}, {"bob"}, {""}}
		bsks := []string{"s1", "s", "s1x", ""}
		ballowsPick := func() []string {
			switch rng.Intn(8) {
			case 0, 1:
				return nil // none configured: the default list
			case 2, 3, 4:
				return pick(rng, ballows)
			}
			return visGenAllow(rng)
		}
		// a login under rid as user u; if the run id is live this is a re-login: frps replaces the control that is
		// registered under it (its proxies are closed), the run id stands for u from now on
		loginAs := func(rid, u string) {
			ctlN++
			out(fmt.Sprintf("slogin %s %s %d", hx(rid), hx(u), ctlN))
			sess[rid] = u
			for k, p := range px {
				if p.owner == rid {
					delete(px, k)
				}
			}
		}
		logout := func(rid string) {
			out("slogout " + hx(rid))
			delete(sess, rid)
			for k, p := range px {
				if p.owner == rid {
					delete(px, k)
				}
			}
		}
		login := func(rid string) {
			if _, live := sess[rid]; !live || rng.Intn(3) == 0 {
				loginAs(rid, pick(rng, busers))
			}
		}
		// one stream visitor claiming run id `claim`, signed for the proxy registered under name (mostly correctly)
		visit := func(claim, name string, goodOdds int) {
			ts := pick(rng, tss)
			sk := pick(rng, bsks)
			if p := px[name]; p != nil {
				sk = p.sk
			}
			sg := sign(sk, ts, rng.Intn(goodOdds) > 0)
			connID++
			out(fmt.Sprintf("svis %s %s %d %s %s %d", hx(claim), hx(name), ts, hx(sg), pick(rng, ec), connID))
		}
		// The run id changes hands between visits of one proxy: R stands for a user the proxy allows, visits; then the
		// run id goes to another login (re-login while the first control is still registered | logout, then login |
		// a run id never seen before), visits again; sometimes it comes back to the first user.
		handover := func() {
			owner := pick(rng, rids[:2])
			if _, live := sess[owner]; !live {
				loginAs(owner, pick(rng, busers))
			}
			name := ""
			for k, p := range px {
				if p.owner == owner && !p.nat && (name == "" || k < name) {
					name = k
				}
			}
			if name == "" || rng.Intn(3) == 0 {
				name = pick(rng, names[:3])
				if px[name] == nil {
					kind := pick(rng, []string{"stcp", "sudp"})
					sk, al := pick(rng, bsks), ballowsPick()
					out(fmt.Sprintf("sreg %s %s %s %s %s %s", hx(owner), kind, hx(name), hx(sk), visList(al), pick(rng, ec)))
					eff := al
					if len(eff) == 0 {
						eff = []string{sess[owner]}
					}
					px[name] = &visGenPx{sk: sk, allow: eff, owner: owner}
				}
			}
			p := px[name]
			r := pick(rng, rids[2:])
			a := pick(rng, p.allow)
			if a == "*" {
				a = pick(rng, busers)
			}
			if u, live := sess[r]; !live || u != a {
				loginAs(r, a)
			}
			for k := 1 + rng.Intn(2); k > 0; k-- {
				visit(r, name, 8)
			}
			for round := 1 + rng.Intn(2); round > 0 && px[name] != nil; round-- {
				b := pick(rng, busers)
				if rng.Intn(4) > 0 {
					for k := 0; k < 4 && (b == sess[r] || visAllowed(p.allow, b)); k++ {
						b = pick(rng, busers)
					}
				}
				switch rng.Intn(5) {
				case 0, 1, 2:
					loginAs(r, b)
				case 3:
					logout(r)
					if rng.Intn(4) == 0 {
						visit(r, name, 8)
					}
					loginAs(r, b)
				default:
					freshN++
					r = fmt.Sprintf("f%d", freshN)
					loginAs(r, b)
				}
				for k := 1 + rng.Intn(2); k > 0; k-- {
					visit(r, name, 8)
				}
				if rng.Intn(3) == 0 {
					loginAs(r, a)
					visit(r, name, 8)
				}
			}
			if len(r) > 1 && r[0] == 'f' {
				logout(r)
			}
		}
		// An allow list that arrived in a NewProxy message (or the default list of a proxy that configured none), probed
		// through the real frps: every kind of visitor holding the key — no run id, a client that logged in without user,
		// the owner's own run id, clients logged in as each listed entry, as an entry up to case / white space, as an
		// unlisted user; stream proxies by NewVisitorConn, xtcp proxies by NatHoleVisitor (pre-check and request proper).
		listProbe := func() {
			owner := pick(rng, rids[:2])
			if _, live := sess[owner]; !live {
				loginAs(owner, pick(rng, busers))
			} else if rng.Intn(4) == 0 {
				loginAs(owner, pick(rng, []string{"", "", "*", "alice"})) // an owner that configured no user (or a peculiar one)
			}
			name := pick(rng, names[:3])
			if p := px[name]; p != nil {
				if _, live := sess[p.owner]; !live {
					return
				}
				out(fmt.Sprintf("sclose %s %s", hx(p.owner), hx(name)))
				delete(px, name)
			}
			kind := pick(rng, []string{"stcp", "sudp", "stcp", "xtcp"})
			sk, al := pick(rng, bsks), ballowsPick()
			if rng.Intn(3) == 0 {
				al = nil // default list = the owner's user
			}
			out(fmt.Sprintf("sreg %s %s %s %s %s %s", hx(owner), kind, hx(name), hx(sk), visList(al), pick(rng, ec)))
			eff := al
			if len(eff) == 0 {
				eff = []string{sess[owner]}
			}
			px[name] = &visGenPx{sk: sk, allow: eff, owner: owner, nat: kind == "xtcp"}
			us := visProbeUsers(rng, eff, sess[owner])
			if len(us) > 7 {
				rng.Shuffle(len(us)-2, func(i, j int) { us[i+2], us[j+2] = us[j+2], us[i+2] }) // "" and the owner's user stay
				us = us[:7]
			}
			ts := pick(rng, tss)
			for _, u := range us {
				if px[name] == nil {
					break
				}
				claim := ""
				switch {
				case u == sess[owner] && rng.Intn(2) == 0:
					claim = owner
				case u == "" && kind != "xtcp" && rng.Intn(2) == 0:
					// no run id at all
				default:
					for _, r := range rids[2:] {
						if v, live := sess[r]; live && v == u {
							claim = r
						}
					}
					if claim == "" {
						claim = pick(rng, rids[2:])
						loginAs(claim, u)
					}
				}
				sg := sign(sk, ts, rng.Intn(12) > 0)
				if kind == "xtcp" {
					out(fmt.Sprintf("snat %s %s %d %s pc=%d ua=%d", hx(claim), hx(name), ts, hx(sg), rng.Intn(2),
						lo.Ternary(visAllowed(eff, u), 1, 0)))
				} else {
					connID++
					out(fmt.Sprintf("svis %s %s %d %s %s %d", hx(claim), hx(name), ts, hx(sg), pick(rng, ec), connID))
				}
			}
		}
		loginAs("r1", pick(rng, busers))
		loginAs("r2", pick(rng, busers))
		steps := 14 + rng.Intn(24)
		liveRid := func(dflt string) string {
			ks := make([]string, 0, len(sess))
			for k := range sess {
				ks = append(ks, k)
			}
			sort.Strings(ks)
			if len(ks) == 0 || rng.Intn(8) == 0 {
				return dflt
			}
			return pick(rng, ks)
		}
		livePx := func(nat bool, dflt string) string {
			ks := []string{}
			for k, p := range px {
				if p.nat == nat {
					ks = append(ks, k)
				}
			}
			sort.Strings(ks)
			if len(ks) == 0 || rng.Intn(7) == 0 {
				return dflt
			}
			return pick(rng, ks)
		}
		for i := 0; i < steps && count < n; i++ {
			name := pick(rng, names[:3])
			rid := liveRid(pick(rng, rids))
			r := rng.Intn(100)
			if i < 3 {
				r = 13 + rng.Intn(19) // start with registrations
			}
			if r >= 38 && r < 72 {
				name = livePx(false, name)
			} else if r >= 72 {
				name = livePx(true, name)
			}
			switch {
			case r < 6:
				login(rid)
			case r < 8:
				handover()
			case r < 11:
				listProbe()
			case r < 13:
				if _, live := sess[rid]; live {
					logout(rid)
				}
			case r < 32:
				if u, live := sess[rid]; live {
					kind := pick(rng, []string{"stcp", "sudp", "xtcp", "stcp", "xtcp"})
					sk, al := pick(rng, bsks), ballowsPick()
					out(fmt.Sprintf("sreg %s %s %s %s %s %s", hx(rid), kind, hx(name), hx(sk), visList(al), pick(rng, ec)))
					if px[name] == nil {
						eff := al
						if len(eff) == 0 {
							eff = []string{u}
						}
						px[name] = &visGenPx{sk: sk, allow: eff, owner: rid, nat: kind == "xtcp"}
					}
				}
			case r < 38:
				if _, live := sess[rid]; live {
					out(fmt.Sprintf("sclose %s %s", hx(rid), hx(name)))
					if p := px[name]; p != nil && p.owner == rid {
						delete(px, name)
					}
				}
			case r < 72:
				// stream visitor: run id own / empty / unknown / someone else's
				claim := rid
				switch rng.Intn(10) {
				case 0:
					claim = ""
				case 1:
					claim = "nosuch"
				}
				ts := pick(rng, tss)
				sk := pick(rng, bsks)
				if p := px[name]; p != nil && rng.Intn(6) > 0 {
					sk = p.sk
					if rng.Intn(3) == 0 {
						claim = p.owner // the owner's own run id (also: a run id is a bearer token)
					}
				}
				sg := sign(sk, ts, rng.Intn(5) > 0)
				connID++
				out(fmt.Sprintf("svis %s %s %d %s %s %d", hx(claim), hx(name), ts, hx(sg), pick(rng, ec), connID))
			default:
				if u, live := sess[rid]; live {
					ts := pick(rng, tss)
					sk := pick(rng, bsks)
					ua := false
					if p := px[name]; p != nil && p.nat {
						if rng.Intn(5) > 0 {
							sk = p.sk
						}
						ua = visAllowed(p.allow, u)
					}
					sg := sign(sk, ts, rng.Intn(4) > 0)
					out(fmt.Sprintf("snat %s %s %d %s pc=%d ua=%d", hx(rid), hx(name), ts, hx(sg), rng.Intn(2), lo.Ternary(ua, 1, 0)))
				}
			}
		}
	}
	out("reset")
}

func init() {
	register(&Engine{Name: "visitor", Gen: visGen, Exec: visExec})
}
