package main

import (
	"context"
	"fmt"
	"io"
	"math/rand"
	"net"
	"sort"
	"strconv"
	"strings"
	"sync"
	"time"

	libio "github.com/fatedier/golib/io"
	"github.com/samber/lo"

	v1 "github.com/fatedier/frp/pkg/config/v1"
	"github.com/fatedier/frp/pkg/msg"
	"github.com/fatedier/frp/pkg/nathole"
	netpkg "github.com/fatedier/frp/pkg/util/net"
	"github.com/fatedier/frp/pkg/util/util"
	"github.com/fatedier/frp/pkg/util/version"
	"github.com/fatedier/frp/server"
	"github.com/fatedier/frp/server/visitor"
)

// Engine "visitor" (C08): admission of visitors to secret proxies.
//
// Layer A — the real visitor.Manager and nathole.Controller driven directly; the harness is the
// owner (it holds every InternalListener / sidCh ever returned, also after closure):
//
//	reset
//	key <sk> <ts>                                   => hx(util.GetAuthKey(sk, ts))
//	listen <name> <sk> <allow>                      => ok:<lid> | repeated            (Manager.Listen)
//	nlisten <name> <sk> <allow>                     => ok:<lid> | repeated            (Controller.ListenClient)
//	close <name> | nclose <name>                    => -                              (CloseListener / CloseClient)
//	lclose <name>                                   => -                              (InternalListener.Close only)
//	conn <name> <ts> <sign> <user> <connid> <ec>    => queued | dropped | err:<kind>  (Manager.NewConn; ec = enc,comp flags)
//	accept <name>                                   => c<connid>[:bytes-bad] | none   (one Accept on the listener registered under name)
//	drain                                           => <lid>=<ids>|… | -              (everything still waiting in ANY listener ever made)
//	natv <name> <ts> <sign> <user> pc=<b> ua=<b>    => preok | sid:<lid> | err:<kind>, then " left=<sessions stored afterwards>"
//
// Layer B — one real server.Service on loopback; scripted raw peers log in, register proxies, ask:
//
//	slogin <rid> <user>                             => ok | err
//	slogout <rid>                                   => -
//	sreg <rid> <kind> <name> <sk> <allow> <ec>      => ok | exists | err:<text>
//	sclose <rid> <name>                             => -
//	svis <ridClaimed> <name> <ts> <sign> <ec> <id>  => ok:<owner rid>:echo | err:<kind> req=<rids that got ReqWorkConn | ->
//	snat <rid> <name> <ts> <sign> pc=<b> ua=<b>     => preok req=- | sid:<owner rid> | err:<kind> req=…
//
// ua= is the generator's note whether the user is in the proxy's allow list (checked by the driver).
type visAddr struct{ id int }

func (a visAddr) Network() string { return "vis" }
func (a visAddr) String() string  { return "vis:" + strconv.Itoa(a.id) }

type visConn struct {
	net.Conn
	id int
}

func (c *visConn) RemoteAddr() net.Addr { return visAddr{c.id} }

type visListener struct {
	lid  int
	l    *netpkg.InternalListener
	name string
	sk   string
}

type visPending struct {
	peer net.Conn // the visitor's end of the pipe
	e, c bool
	sk   string
}

type visState struct {
	vm     *visitor.Manager
	nc     *nathole.Controller
	nextID int
	byName map[string]*visListener // as registered now
	all    []*visListener          // every listener ever made
	conns  map[int]*visPending
	events chan [2]string // (lid, sid) received on any sidCh ever made
	// granted NAT-hole visits whose handler is still waiting out NatHoleTimeout: sid -> handler done
	pendingNat map[string]chan struct{}
}

var vst *visState

func visResetA() {
	// one second (the unit of NatHoleTimeout): since the notify send is bounded by this timeout a value
	// of 0 would make the send race with an already expired timer
	nathole.NatHoleTimeout = 1
	if vst != nil {
		for _, p := range vst.conns {
			p.peer.Close()
		}
		for _, d := range vst.pendingNat {
			select {
			case <-d:
			case <-time.After(3 * time.Second):
			}
		}
	}
	c, _ := nathole.NewController(time.Hour)
	vst = &visState{vm: visitor.NewManager(), nc: c, byName: map[string]*visListener{}, conns: map[int]*visPending{},
		events: make(chan [2]string, 64), pendingNat: map[string]chan struct{}{}}
}

func visErrClass(e string) string {
	switch {
	case e == "":
		return "none"
	case strings.Contains(e, "no client control found"):
		return "norun"
	case strings.Contains(e, "doesn't exist"):
		return "noexist"
	case strings.Contains(e, "auth failed"):
		return "auth"
	case strings.Contains(e, "not allowed"):
		return "notallowed"
	case strings.Contains(e, "listener is closed"):
		return "closed"
	}
	return "other:" + hx(e)
}

// what the visitor's frpc puts on its end (client/visitor/stcp.go): enc(sk) then comp
func visWrap(c io.ReadWriteCloser, e, z bool, key string) io.ReadWriteCloser {
	if e {
		w, err := libio.WithEncryption(c, []byte(key))
		if err != nil {
			return c
		}
		c = w
	}
	if z {
		c = libio.WithCompression(c)
	}
	return c
}

func visAcceptOne(l *netpkg.InternalListener) (net.Conn, bool) {
	ch := make(chan net.Conn, 1)
	go func() {
		c, err := l.Accept()
		if err != nil {
			ch <- nil
			return
		}
		ch <- c
	}()
	select {
	case c := <-ch:
		return c, c != nil
	case <-time.After(2 * time.Second):
		return nil, false
	}
}

func visBytesOK(st *visState, id int, got net.Conn) bool {
	p := st.conns[id]
	if p == nil {
		return false
	}
	want := []byte("hello-" + strconv.Itoa(id))
	w := visWrap(p.peer, p.e, p.c, p.sk)
	go func() { _, _ = w.Write(want) }()
	buf := make([]byte, len(want))
	_ = p.peer.SetDeadline(time.Now().Add(2 * time.Second))
	done := make(chan bool, 1)
	go func() {
		_, err := io.ReadFull(got, buf)
		done <- err == nil && string(buf) == string(want)
	}()
	select {
	case ok := <-done:
		return ok
	case <-time.After(2 * time.Second):
		return false
	}
}

func visExec(tok []string) string {
	if vst == nil {
		visResetA()
	}
	st := vst
	switch tok[0] {
	case "reset":
		visResetA()
		visResetB()
		return "-"
	case "key":
		ts, _ := strconv.ParseInt(tok[2], 10, 64)
		return hx(util.GetAuthKey(unhx(tok[1]), ts))
	case "listen":
		name := unhx(tok[1])
		l, err := st.vm.Listen(name, unhx(tok[2]), unlist(tok[3]))
		if err != nil {
			return "repeated"
		}
		vl := &visListener{lid: st.nextID, l: l, name: name, sk: unhx(tok[2])}
		st.nextID++
		st.byName[name] = vl
		st.all = append(st.all, vl)
		return "ok:" + strconv.Itoa(vl.lid)
	case "nlisten":
		name := unhx(tok[1])
		ch, err := st.nc.ListenClient(name, unhx(tok[2]), unlist(tok[3]))
		if err != nil {
			return "repeated"
		}
		lid := st.nextID
		st.nextID++
		go func() { // the owner loop of xtcp.go (kept receiving: every delivery must be seen)
			for sid := range ch {
				st.events <- [2]string{strconv.Itoa(lid), sid}
			}
		}()
		return "ok:" + strconv.Itoa(lid)
	case "close":
		st.vm.CloseListener(unhx(tok[1]))
		delete(st.byName, unhx(tok[1]))
		return "-"
	case "nclose":
		st.nc.CloseClient(unhx(tok[1]))
		return "-"
	case "lclose":
		if vl := st.byName[unhx(tok[1])]; vl != nil {
			vl.l.Close()
		}
		return "-"
	case "conn":
		ts, _ := strconv.ParseInt(tok[2], 10, 64)
		id := atoi(tok[5])
		a, b := net.Pipe()
		e, z := tok[6][0] == '1', tok[6][1] == '1'
		sk := ""
		if vl := st.byName[unhx(tok[1])]; vl != nil {
			sk = vl.sk
		}
		st.conns[id] = &visPending{peer: b, e: e, c: z, sk: sk}
		err := st.vm.NewConn(unhx(tok[1]), &visConn{Conn: a, id: id}, ts, unhx(tok[3]), e, z, unhx(tok[4]))
		if err != nil {
			a.Close()
			b.Close()
			delete(st.conns, id)
			return "err:" + visErrClass(err.Error())
		}
		// nil error: either in the accept channel or closed by PutConn because the channel is full
		_ = b.SetReadDeadline(time.Now().Add(200 * time.Microsecond))
		if _, rerr := b.Read(make([]byte, 1)); rerr == io.EOF || rerr == io.ErrClosedPipe {
			delete(st.conns, id)
			return "dropped"
		}
		_ = b.SetReadDeadline(time.Time{})
		return "queued"
	case "accept":
		vl := st.byName[unhx(tok[1])]
		if vl == nil {
			return "none"
		}
		c, ok := visAcceptOne(vl.l)
		if !ok {
			return "none"
		}
		id := -1
		if a, isV := c.RemoteAddr().(visAddr); isV {
			id = a.id
		}
		r := "c" + strconv.Itoa(id)
		if !visBytesOK(st, id, c) {
			r += ":bytes-bad"
		}
		return r
	case "drain":
		parts := []string{}
		for _, vl := range st.all {
			vl.l.Close()
			ids := []string{}
			for {
				c, err := vl.l.Accept()
				if err != nil {
					break
				}
				if a, isV := c.RemoteAddr().(visAddr); isV {
					ids = append(ids, strconv.Itoa(a.id))
				} else {
					ids = append(ids, "?")
				}
			}
			if len(ids) > 0 {
				parts = append(parts, strconv.Itoa(vl.lid)+"="+strings.Join(ids, ","))
			}
		}
		if len(parts) == 0 {
			return "-"
		}
		return strings.Join(parts, "|")
	case "natv":
		ts, _ := strconv.ParseInt(tok[2], 10, 64)
		t := newCapT()
		done := make(chan struct{})
		m := &msg.NatHoleVisitor{TransactionID: "t", ProxyName: unhx(tok[1]), SignKey: unhx(tok[3]), Timestamp: ts,
			PreCheck: tok[5] == "pc=1", Protocol: "quic", MappedAddrs: []string{"1.2.3.4:5"}}
		go func() {
			defer close(done)
			st.nc.HandleVisitor(m, t, unhx(tok[4]))
		}()
		evs := []string{}
		select {
		case <-done:
		case ev := <-st.events:
			// the sid reached an owner loop: the visit is granted; its handler now waits up to
			// NatHoleTimeout for the owner's NatHoleClient message and then removes the session
			evs = append(evs, ev[0])
			st.pendingNat[ev[1]] = done
		case <-time.After(4 * time.Second):
			return "hang"
		}
	collect:
		for {
			select {
			case ev := <-st.events:
				evs = append(evs, ev[0])
			default:
				break collect
			}
		}
		left := 0
		for _, sid := range st.nc.VerifSessions() {
			if d, ok := st.pendingNat[sid]; ok {
				select {
				case <-d:
					delete(st.pendingNat, sid)
					left++ // handler finished but the session is still stored
				default: // in flight, legitimately stored
				}
				continue
			}
			left++
		}
		t.mu.Lock()
		msgs := append([]*msg.NatHoleResp{}, t.msgs...)
		t.mu.Unlock()
		r := ""
		switch {
		case len(evs) == 1 && len(msgs) == 0:
			r = "sid:" + evs[0]
		case len(evs) == 0 && len(msgs) == 1 && msgs[0].Error == "":
			r = "preok"
		case len(evs) == 0 && len(msgs) == 1:
			r = "err:" + visErrClass(msgs[0].Error)
		default:
			r = fmt.Sprintf("odd:ev=%d,msg=%d", len(evs), len(msgs))
		}
		return r + " left=" + strconv.Itoa(left)
	}
	return visExecB(tok)
}

// ------------------------------------------------------------------------------------ layer B

type visProxy struct {
	kind, sk string
	e, c     bool
}

type visPeer struct {
	rid, user string
	conn      net.Conn
	crw       io.ReadWriter
	in        chan msg.Message
	proxies   map[string]visProxy
	wmu       sync.Mutex
}

type visSvc struct {
	svr    *server.Service
	cancel context.CancelFunc
	addr   string
	peers  map[string]*visPeer
	tid    int
}

var vsvc *visSvc

func visStartSvc() *visSvc {
	if vsvc != nil {
		return vsvc
	}
	cfg := &v1.ServerConfig{}
	cfg.Complete()
	cfg.BindAddr = "127.0.0.1"
	cfg.ProxyBindAddr = "127.0.0.1"
	cfg.BindPort = freeTCPPort()
	cfg.Transport.TCPMux = lo.ToPtr(false)
	cfg.UserConnTimeout = 5
	cfg.Transport.TLS.CertFile, cfg.Transport.TLS.KeyFile = siteCert()
	svr, err := server.NewService(cfg)
	if err != nil {
		panic("infra newservice " + err.Error())
	}
	ctx, cancel := context.WithCancel(context.Background())
	go svr.Run(ctx)
	vsvc = &visSvc{svr: svr, cancel: cancel, addr: fmt.Sprintf("127.0.0.1:%d", cfg.BindPort), peers: map[string]*visPeer{}}
	return vsvc
}

func (s *visSvc) dial() net.Conn {
	for i := 0; i < 200; i++ {
		c, err := net.DialTimeout("tcp", s.addr, time.Second)
		if err == nil {
			return c
		}
		time.Sleep(5 * time.Millisecond)
	}
	panic("infra dial")
}

func (p *visPeer) send(m msg.Message) {
	p.wmu.Lock()
	defer p.wmu.Unlock()
	_ = msg.WriteMsg(p.crw, m)
}

// barrier: everything the server sent to this peer before the Pong is consumed; returns the number of ReqWorkConn seen
func (p *visPeer) barrier() int {
	p.send(&msg.Ping{})
	n := 0
	for {
		select {
		case m, ok := <-p.in:
			if !ok {
				return n
			}
			switch m.(type) {
			case *msg.ReqWorkConn:
				n++
			case *msg.Pong:
				return n
			}
		case <-time.After(3 * time.Second):
			return n + 1000
		}
	}
}

func (s *visSvc) reqSummary() string {
	rids := []string{}
	for rid, p := range s.peers {
		if p.barrier() > 0 {
			rids = append(rids, hx(rid))
		}
	}
	if len(rids) == 0 {
		return "-"
	}
	sort.Strings(rids)
	return strings.Join(rids, ",")
}

func (s *visSvc) runGone(rid string) bool {
	c := s.dial()
	defer c.Close()
	_ = c.SetDeadline(time.Now().Add(2 * time.Second))
	_ = msg.WriteMsg(c, &msg.NewVisitorConn{RunID: rid, ProxyName: "\x00none"})
	var r msg.NewVisitorConnResp
	if err := msg.ReadMsgInto(c, &r); err != nil {
		return false
	}
	return strings.Contains(r.Error, "no client control found")
}

func (s *visSvc) logout(rid string) {
	p := s.peers[rid]
	if p == nil {
		return
	}
	p.conn.Close()
	delete(s.peers, rid)
	// the session is gone when its run id is no longer known (ControlManager.Del runs after the proxies are closed)
	limit := time.Second
	if visNoRunBroken {
		limit = 50 * time.Millisecond
	}
	for t0 := time.Now(); time.Since(t0) < limit; {
		if s.runGone(rid) {
			return
		}
		time.Sleep(time.Millisecond)
	}
	visNoRunBroken = true // the implementation does not report unknown run ids (any more): do not wait long again
}

var visNoRunBroken bool

func visResetB() {
	if vsvc == nil {
		return
	}
	for rid := range vsvc.peers {
		vsvc.logout(rid)
	}
}

// wait until a peer receives a ReqWorkConn (returns it), or `watch` receives a NatHoleResp
func (s *visSvc) waitOwnerOrResp(watch *visPeer) (*visPeer, *msg.NatHoleResp) {
	deadline := time.Now().Add(3 * time.Second)
	for time.Now().Before(deadline) {
		for _, p := range s.peers {
			select {
			case m, ok := <-p.in:
				if !ok {
					continue
				}
				switch x := m.(type) {
				case *msg.ReqWorkConn:
					return p, nil
				case *msg.NatHoleResp:
					if p == watch {
						return nil, x
					}
				}
			default:
			}
		}
		time.Sleep(100 * time.Microsecond)
	}
	return nil, nil
}

func (s *visSvc) workConn(owner *visPeer) (net.Conn, *msg.StartWorkConn) {
	wc := s.dial()
	ts := time.Now().Unix()
	_ = wc.SetDeadline(time.Now().Add(3 * time.Second))
	_ = msg.WriteMsg(wc, &msg.NewWorkConn{RunID: owner.rid, Timestamp: ts, PrivilegeKey: util.GetAuthKey("", ts)})
	var sw msg.StartWorkConn
	if err := msg.ReadMsgInto(wc, &sw); err != nil {
		wc.Close()
		return nil, nil
	}
	return wc, &sw
}

func visExecB(tok []string) string {
	s := visStartSvc()
	switch tok[0] {
	case "slogin":
		rid, user := unhx(tok[1]), unhx(tok[2])
		c := s.dial()
		ts := time.Now().Unix()
		_ = c.SetDeadline(time.Now().Add(5 * time.Second))
		_ = msg.WriteMsg(c, &msg.Login{Version: version.Full(), User: user, RunID: rid, Timestamp: ts,
			PrivilegeKey: util.GetAuthKey("", ts)})
		var lr msg.LoginResp
		if err := msg.ReadMsgInto(c, &lr); err != nil || lr.Error != "" || lr.RunID != rid {
			c.Close()
			return "err"
		}
		_ = c.SetDeadline(time.Time{})
		crw, err := netpkg.NewCryptoReadWriter(c, []byte(""))
		if err != nil {
			return "err"
		}
		p := &visPeer{rid: rid, user: user, conn: c, crw: crw, in: make(chan msg.Message, 256), proxies: map[string]visProxy{}}
		go func() {
			defer close(p.in)
			for {
				m, err := msg.ReadMsg(crw)
				if err != nil {
					return
				}
				p.in <- m
			}
		}()
		s.peers[rid] = p
		p.barrier()
		return "ok"
	case "slogout":
		s.logout(unhx(tok[1]))
		return "-"
	case "sreg":
		p := s.peers[unhx(tok[1])]
		if p == nil {
			return "nosession"
		}
		name := unhx(tok[3])
		e, z := tok[6][0] == '1', tok[6][1] == '1'
		p.send(&msg.NewProxy{ProxyName: name, ProxyType: tok[2], Sk: unhx(tok[4]), AllowUsers: unlist(tok[5]),
			UseEncryption: e, UseCompression: z})
		for {
			select {
			case m, ok := <-p.in:
				if !ok {
					return "closed"
				}
				if r, isR := m.(*msg.NewProxyResp); isR {
					if r.Error == "" {
						p.proxies[name] = visProxy{kind: tok[2], sk: unhx(tok[4]), e: e, c: z}
						return "ok"
					}
					if strings.Contains(r.Error, "already exists") {
						return "exists"
					}
					return "err:" + hx(r.Error)
				}
			case <-time.After(3 * time.Second):
				return "timeout"
			}
		}
	case "sclose":
		p := s.peers[unhx(tok[1])]
		if p == nil {
			return "-"
		}
		p.send(&msg.CloseProxy{ProxyName: unhx(tok[2])})
		p.barrier()
		delete(p.proxies, unhx(tok[2]))
		return "-"
	case "svis":
		name := unhx(tok[2])
		ts, _ := strconv.ParseInt(tok[3], 10, 64)
		e, z := tok[5][0] == '1', tok[5][1] == '1'
		c := s.dial()
		defer c.Close()
		_ = c.SetDeadline(time.Now().Add(5 * time.Second))
		_ = msg.WriteMsg(c, &msg.NewVisitorConn{RunID: unhx(tok[1]), ProxyName: name, SignKey: unhx(tok[4]), Timestamp: ts,
			UseEncryption: e, UseCompression: z})
		var r msg.NewVisitorConnResp
		if err := msg.ReadMsgInto(c, &r); err != nil {
			return "noresp req=" + s.reqSummary()
		}
		if r.Error != "" {
			return "err:" + visErrClass(r.Error) + " req=" + s.reqSummary()
		}
		owner, _ := s.waitOwnerOrResp(nil)
		if owner == nil {
			return "ok:none"
		}
		res := "ok:" + hx(owner.rid)
		wc, sw := s.workConn(owner)
		if wc == nil || sw.ProxyName != name || sw.Error != "" {
			return res + ":nowork req=" + s.reqSummary()
		}
		defer wc.Close()
		px := owner.proxies[name]
		// owner's frpc (client/proxy/proxy.go): enc(token) then comp, from the proxy's own declaration
		ow := visWrap(wc, px.e, px.c, "")
		// visitor's frpc (client/visitor/stcp.go): enc(secret key) then comp, from the visitor's declaration
		vw := visWrap(c, e, z, px.sk)
		ping, pong := []byte("ping:"+tok[6]), []byte("pong:"+tok[6])
		go func() { _, _ = vw.Write(ping) }()
		buf := make([]byte, len(ping))
		echo := "echo"
		if _, err := io.ReadFull(ow, buf); err != nil || string(buf) != string(ping) {
			echo = "noecho1"
		} else {
			go func() { _, _ = ow.Write(pong) }()
			buf2 := make([]byte, len(pong))
			if _, err := io.ReadFull(vw, buf2); err != nil || string(buf2) != string(pong) {
				echo = "noecho2"
			}
		}
		s.reqSummary() // consume the replacement ReqWorkConn
		return res + ":" + echo
	case "snat":
		p := s.peers[unhx(tok[1])]
		if p == nil {
			return "nosession"
		}
		ts, _ := strconv.ParseInt(tok[3], 10, 64)
		s.tid++
		p.send(&msg.NatHoleVisitor{TransactionID: "t" + strconv.Itoa(s.tid), ProxyName: unhx(tok[2]), SignKey: unhx(tok[4]),
			Timestamp: ts, PreCheck: tok[5] == "pc=1", Protocol: "quic", MappedAddrs: []string{"1.2.3.4:5"}})
		owner, resp := s.waitOwnerOrResp(p)
		if resp != nil {
			if resp.Error == "" {
				return "preok req=" + s.reqSummary()
			}
			return "err:" + visErrClass(resp.Error) + " req=" + s.reqSummary()
		}
		if owner == nil {
			return "silent req=" + s.reqSummary()
		}
		wc, sw := s.workConn(owner)
		if wc == nil || sw.ProxyName != unhx(tok[2]) {
			return "sid:" + hx(owner.rid) + ":nowork"
		}
		defer wc.Close()
		var ns msg.NatHoleSid
		if err := msg.ReadMsgInto(wc, &ns); err != nil || ns.Sid == "" {
			return "sid:" + hx(owner.rid) + ":nosid"
		}
		s.reqSummary()
		return "sid:" + hx(owner.rid)
	}
	return "unknown-op"
}

// ------------------------------------------------------------------------------------ generator

func visList(xs []string) string {
	if len(xs) == 0 {
		return "-"
	}
	out := make([]string, len(xs))
	for i, x := range xs {
		out[i] = hx(x)
	}
	return strings.Join(out, ",")
}

type visGenPx struct {
	sk    string
	allow []string // effective
	owner string
	nat   bool
}

func visAllowed(allow []string, user string) bool {
	return lo.Contains(allow, user) || lo.Contains(allow, "*")
}

func visGen(rng *rand.Rand, n int, emit func(string)) {
	names := []string{"p1", "p2", "p3", "q"}
	sks := []string{"s1", "s", "s1x", "", "k\xff"}
	users := []string{"", "alice", "bob", "carol", "*"}
	allows := [][]string{nil, {"alice"}, {"alice", "bob"}, {"*"}, {"bob", "*"}, {""}, {"carol", "alice"}}
	tss := []int64{0, 2, 7, 12, -5, 1700000000, 112}
	ec := []string{"00", "01", "10", "11"}
	count := 0
	out := func(s string) { emit(s); count++ }
	connID := 0

	// a signature for (sk, ts), mostly right, sometimes spoiled
	sign := func(sk string, ts int64, good bool) string {
		if good {
			return util.GetAuthKey(sk, ts)
		}
		k := util.GetAuthKey(sk, ts)
		switch rng.Intn(7) {
		case 0:
			return util.GetAuthKey(sk+"x", ts)
		case 1:
			return util.GetAuthKey(sk, ts+1)
		case 2:
			return k[:31]
		case 3:
			return strings.ToUpper(k)
		case 4:
			return ""
		case 5:
			return k + "0"
		default:
			return util.GetAuthKey(pick(rng, sks), pick(rng, tss)) // may collide: "s1"+"2" = "s"+"12"
		}
	}

	// ---- episode 0: the accept channel holds 128 connections; the 129th is closed but answered with ""
	out("reset")
	out(fmt.Sprintf("listen %s %s %s", hx("p1"), hx("s1"), visList([]string{"*"})))
	for i := 0; i < 130; i++ {
		connID++
		out(fmt.Sprintf("conn %s 7 %s %s %d 00", hx("p1"), hx(util.GetAuthKey("s1", 7)), hx("bob"), connID))
	}
	out("accept " + hx("p1"))
	connID++
	out(fmt.Sprintf("conn %s 7 %s %s %d 11", hx("p1"), hx(util.GetAuthKey("s1", 7)), hx("bob"), connID))
	out("drain")
	// ---- the C08 witness on the controller: proxy p (key s, allowUsers [a]); user m, correctly signed
	out("reset")
	out(fmt.Sprintf("nlisten %s %s %s", hx("p"), hx("s"), visList([]string{"a"})))
	out(fmt.Sprintf("natv %s 7 %s %s pc=1 ua=0", hx("p"), hx(util.GetAuthKey("s", 7)), hx("m")))
	out(fmt.Sprintf("natv %s 7 %s %s pc=0 ua=0", hx("p"), hx(util.GetAuthKey("s", 7)), hx("m")))
	out(fmt.Sprintf("natv %s 7 %s %s pc=0 ua=1", hx("p"), hx(util.GetAuthKey("s", 7)), hx("a")))

	for count < n {
		out("reset")
		if rng.Intn(5) < 3 {
			// ------------------------------------------------ layer A episode
			lst := map[string]*visGenPx{}
			nat := map[string]*visGenPx{}
			qlen := map[string]int{}
			closed := map[string]bool{}
			steps := 30 + rng.Intn(50)
			liveName := func(m map[string]*visGenPx, dflt string) string {
				ks := make([]string, 0, len(m))
				for k := range m {
					ks = append(ks, k)
				}
				sort.Strings(ks)
				if len(ks) == 0 || rng.Intn(6) == 0 {
					return dflt
				}
				return pick(rng, ks)
			}
			for i := 0; i < steps && count < n; i++ {
				name := pick(rng, names)
				r := rng.Intn(100)
				if i < 4 {
					r = 4 + rng.Intn(22) // start with a few registrations
				}
				if r >= 37 && r < 75 {
					name = liveName(lst, name)
				} else if r >= 75 {
					name = liveName(nat, name)
				}
				switch {
				case r < 4:
					out(fmt.Sprintf("key %s %d", hx(pick(rng, sks)), pick(rng, tss)))
				case r < 18:
					sk, al := pick(rng, sks), pick(rng, allows)
					out(fmt.Sprintf("listen %s %s %s", hx(name), hx(sk), visList(al)))
					if lst[name] == nil {
						lst[name] = &visGenPx{sk: sk, allow: al}
						qlen[name] = 0
						closed[name] = false
					}
				case r < 26:
					sk, al := pick(rng, sks), pick(rng, allows)
					out(fmt.Sprintf("nlisten %s %s %s", hx(name), hx(sk), visList(al)))
					if nat[name] == nil {
						nat[name] = &visGenPx{sk: sk, allow: al}
					}
				case r < 31:
					out("close " + hx(name))
					delete(lst, name)
				case r < 34:
					out("nclose " + hx(name))
					delete(nat, name)
				case r < 37:
					out("lclose " + hx(name))
					if lst[name] != nil {
						closed[name] = true
					}
				case r < 45:
					if lst[name] != nil && qlen[name] > 0 {
						out("accept " + hx(name))
						qlen[name]--
					}
				case r < 75:
					ts := pick(rng, tss)
					user := pick(rng, users)
					sk := pick(rng, sks)
					if p := lst[name]; p != nil {
						sk = p.sk
						if rng.Intn(3) > 0 && len(p.allow) > 0 {
							user = pick(rng, p.allow)
						}
					}
					good := rng.Intn(4) > 0
					sg := sign(sk, ts, good)
					nm := name
					if rng.Intn(25) == 0 {
						nm = string([]byte{0xff, 'p', byte(rng.Intn(256))})
						user = string([]byte{byte(rng.Intn(256)), 0x80})
						sg = string([]byte{byte(rng.Intn(256)), byte(rng.Intn(256))})
					}
					connID++
					out(fmt.Sprintf("conn %s %d %s %s %d %s", hx(nm), ts, hx(sg), hx(user), connID, pick(rng, ec)))
					if p := lst[nm]; p != nil && sg == util.GetAuthKey(p.sk, ts) && visAllowed(p.allow, user) && !closed[nm] {
						qlen[nm]++
					}
				default:
					ts := pick(rng, tss)
					user := pick(rng, users)
					sk := pick(rng, sks)
					ua := false
					if p := nat[name]; p != nil {
						sk = p.sk
						if rng.Intn(3) == 0 && len(p.allow) > 0 {
							user = pick(rng, p.allow)
						}
						ua = visAllowed(p.allow, user)
					}
					sg := sign(sk, ts, rng.Intn(4) > 0)
					out(fmt.Sprintf("natv %s %d %s %s pc=%d ua=%d", hx(name), ts, hx(sg), hx(user), rng.Intn(2), lo.Ternary(ua, 1, 0)))
				}
			}
			out("drain")
			continue
		}
		// ---------------------------------------------------- layer B episode
		sess := map[string]string{} // rid -> user
		px := map[string]*visGenPx{}
		rids := []string{"r1", "r2", "r3"}
		busers := []string{"alice", "bob", "", "alice", "carol", "*"}
		ballows := [][]string{nil, nil, {"alice"}, {"alice", "bob"}, {"*"}, {"bob"}, {""}}
		bsks := []string{"s1", "s", "s1x", ""}
		login := func(rid string) {
			if _, live := sess[rid]; !live {
				u := pick(rng, busers)
				out(fmt.Sprintf("slogin %s %s", hx(rid), hx(u)))
				sess[rid] = u
			}
		}
		login("r1")
		login("r2")
		steps := 14 + rng.Intn(24)
		liveRid := func(dflt string) string {
			ks := make([]string, 0, len(sess))
			for k := range sess {
				ks = append(ks, k)
			}
			sort.Strings(ks)
			if len(ks) == 0 || rng.Intn(8) == 0 {
				return dflt
			}
			return pick(rng, ks)
		}
		livePx := func(nat bool, dflt string) string {
			ks := []string{}
			for k, p := range px {
				if p.nat == nat {
					ks = append(ks, k)
				}
			}
			sort.Strings(ks)
			if len(ks) == 0 || rng.Intn(7) == 0 {
				return dflt
			}
			return pick(rng, ks)
		}
		for i := 0; i < steps && count < n; i++ {
			name := pick(rng, names[:3])
			rid := liveRid(pick(rng, rids))
			r := rng.Intn(100)
			if i < 3 {
				r = 12 + rng.Intn(20) // start with registrations
			}
			if r >= 38 && r < 72 {
				name = livePx(false, name)
			} else if r >= 72 {
				name = livePx(true, name)
			}
			switch {
			case r < 8:
				login(rid)
			case r < 12:
				if _, live := sess[rid]; live {
					out("slogout " + hx(rid))
					delete(sess, rid)
					for k, p := range px {
						if p.owner == rid {
							delete(px, k)
						}
					}
				}
			case r < 32:
				if u, live := sess[rid]; live {
					kind := pick(rng, []string{"stcp", "sudp", "xtcp", "stcp", "xtcp"})
					sk, al := pick(rng, bsks), pick(rng, ballows)
					out(fmt.Sprintf("sreg %s %s %s %s %s %s", hx(rid), kind, hx(name), hx(sk), visList(al), pick(rng, ec)))
					if px[name] == nil {
						eff := al
						if len(eff) == 0 {
							eff = []string{u}
						}
						px[name] = &visGenPx{sk: sk, allow: eff, owner: rid, nat: kind == "xtcp"}
					}
				}
			case r < 38:
				if _, live := sess[rid]; live {
					out(fmt.Sprintf("sclose %s %s", hx(rid), hx(name)))
					if p := px[name]; p != nil && p.owner == rid {
						delete(px, name)
					}
				}
			case r < 72:
				// stream visitor: run id own / empty / unknown / someone else's
				claim := rid
				switch rng.Intn(10) {
				case 0:
					claim = ""
				case 1:
					claim = "nosuch"
				}
				ts := pick(rng, tss)
				sk := pick(rng, bsks)
				if p := px[name]; p != nil && rng.Intn(6) > 0 {
					sk = p.sk
					if rng.Intn(3) == 0 {
						claim = p.owner // the owner's own run id (also: a run id is a bearer token)
					}
				}
				sg := sign(sk, ts, rng.Intn(5) > 0)
				connID++
				out(fmt.Sprintf("svis %s %s %d %s %s %d", hx(claim), hx(name), ts, hx(sg), pick(rng, ec), connID))
			default:
				if u, live := sess[rid]; live {
					ts := pick(rng, tss)
					sk := pick(rng, bsks)
					ua := false
					if p := px[name]; p != nil && p.nat {
						if rng.Intn(5) > 0 {
							sk = p.sk
						}
						ua = visAllowed(p.allow, u)
					}
					sg := sign(sk, ts, rng.Intn(4) > 0)
					out(fmt.Sprintf("snat %s %s %d %s pc=%d ua=%d", hx(rid), hx(name), ts, hx(sg), rng.Intn(2), lo.Ternary(ua, 1, 0)))
				}
			}
		}
	}
	out("reset")
}

func init() {
	register(&Engine{Name: "visitor", Gen: visGen, Exec: visExec})
}
