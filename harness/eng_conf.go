package main

import (
	"encoding/json"
	"fmt"
	"math/rand"
	"reflect"
	"sort"
	"strconv"
	"strings"

	"github.com/fatedier/frp/pkg/config"
	"github.com/fatedier/frp/pkg/config/types"
	v1 "github.com/fatedier/frp/pkg/config/v1"
	"github.com/fatedier/frp/pkg/config/v1/validation"
	"github.com/fatedier/frp/pkg/msg"
	"github.com/fatedier/frp/pkg/util/util"
)

// Engine "conf" (property C18): the configuration layer.
//
//	rt <wire> <type> k=v …       => ok k=v … | err:<kind>
//	    builds the typed client config by reflection from the k=v list, real MarshalToMsg
//	    (wire=1: + json round trip of msg.NewProxy), real config.NewProxyConfigurerFromMsg; the result
//	    lists the same fields read back from the server-side configurer
//	prs <str>                    => ok s:e:n,… | err          types.NewPortsRangeSliceFromString
//	prstr s:e:n,… | -            => <str>                     types.PortsRangeSlice.String
//	prrt s:e:n,… | -             => ok s:e:n,… | err          String then NewPortsRangeSliceFromString
//	prn <str>                    => ok n,… | err              util.ParseRangeNumbers
//	pair <a> <b>                 => ok a:b,… | err            parseNumberRangePair via RenderWithTemplate
//	bw <str>                     => ok <s> <bytes> | err      types.NewBandwidthQuantity / String / Bytes
//	port <int>                   => ok | err                  validation.ValidatePort
//	dom <host> <sub> d,d,…|- uc=<0|1> => ok | belongs | nosub | chars | other
//	    validateDomainConfigForServer through ValidateProxyConfigurerForServer(https proxy)
//	fmt <seed> <strict> <inject> => same … | differ …        (differential only, third-party parsers:
//	    one logical client config rendered as TOML, YAML, JSON → config.LoadConfigure → DeepEqual;
//	    inject=1 adds an unknown key at a random nesting level)
//	tmpl <seed>                  => same | differ …           RenderWithTemplate vs written-out document
//
// value syntax: z | s<hex> | b1 | i<int> | L<n>:<hex>,… | M<n>:<hex>~<hex>,… | q<hex>:<bytes>

var confTypes = []string{"tcp", "udp", "http", "https", "tcpmux", "stcp", "xtcp", "sudp"}

var confBase = []string{"Name", "Type", "Transport.UseEncryption", "Transport.UseCompression",
	"Transport.BandwidthLimit", "Transport.BandwidthLimitMode", "LoadBalancer.Group", "LoadBalancer.GroupKey",
	"Metadatas", "Annotations", "LocalIP"}

var confTyped = map[string][]string{
	"tcp":    {"RemotePort"},
	"udp":    {"RemotePort"},
	"http":   {"CustomDomains", "SubDomain", "Locations", "HTTPUser", "HTTPPassword", "HostHeaderRewrite", "RequestHeaders.Set", "ResponseHeaders.Set", "RouteByHTTPUser"},
	"https":  {"CustomDomains", "SubDomain"},
	"tcpmux": {"CustomDomains", "SubDomain", "Multiplexer", "HTTPUser", "HTTPPassword", "RouteByHTTPUser"},
	"stcp":   {"Secretkey", "AllowUsers"},
	"xtcp":   {"Secretkey", "AllowUsers"},
	"sudp":   {"Secretkey", "AllowUsers"},
}

func confFields(t string) []string { return append(append([]string{}, confBase...), confTyped[t]...) }

func fieldByPath(v reflect.Value, path string) reflect.Value {
	for _, p := range strings.Split(path, ".") {
		v = v.FieldByName(p)
		if !v.IsValid() {
			panic("no field " + path)
		}
	}
	return v
}

var bwType = reflect.TypeOf(types.BandwidthQuantity{})

func encValue(v reflect.Value) string {
	if v.Type() == bwType {
		q := v.Addr().Interface().(*types.BandwidthQuantity)
		if q.String() == "" && q.Bytes() == 0 {
			return "z"
		}
		return "q" + hx(q.String())[1:] + ":" + strconv.FormatInt(q.Bytes(), 10)
	}
	switch v.Kind() {
	case reflect.String:
		if v.String() == "" {
			return "z"
		}
		return "s" + hx(v.String())[1:]
	case reflect.Bool:
		if !v.Bool() {
			return "z"
		}
		return "b1"
	case reflect.Int:
		if v.Int() == 0 {
			return "z"
		}
		return "i" + strconv.FormatInt(v.Int(), 10)
	case reflect.Slice:
		if v.IsNil() {
			return "z"
		}
		parts := []string{}
		for i := 0; i < v.Len(); i++ {
			parts = append(parts, hx(v.Index(i).String())[1:])
		}
		return "L" + strconv.Itoa(v.Len()) + ":" + strings.Join(parts, ",")
	case reflect.Map:
		if v.IsNil() {
			return "z"
		}
		keys := []string{}
		for _, k := range v.MapKeys() {
			keys = append(keys, k.String())
		}
		sort.Strings(keys)
		parts := []string{}
		for _, k := range keys {
			parts = append(parts, hx(k)[1:]+"~"+hx(v.MapIndex(reflect.ValueOf(k)).String())[1:])
		}
		return "M" + strconv.Itoa(len(keys)) + ":" + strings.Join(parts, ",")
	}
	panic("unsupported kind " + v.Kind().String())
}

func decInto(v reflect.Value, enc string) {
	if enc == "z" {
		v.Set(reflect.Zero(v.Type()))
		return
	}
	body := enc[1:]
	switch enc[0] {
	case 's':
		v.SetString(unhx("x" + body))
	case 'b':
		v.SetBool(true)
	case 'i':
		n, err := strconv.ParseInt(body, 10, 64)
		if err != nil {
			panic(err)
		}
		v.SetInt(n)
	case 'L':
		i := strings.Index(body, ":")
		n := atoi(body[:i])
		out := make([]string, 0, n)
		if n > 0 {
			for _, h := range strings.Split(body[i+1:], ",") {
				out = append(out, unhx("x"+h))
			}
		}
		v.Set(reflect.ValueOf(out))
	case 'M':
		i := strings.Index(body, ":")
		n := atoi(body[:i])
		out := map[string]string{}
		if n > 0 {
			for _, kv := range strings.Split(body[i+1:], ",") {
				p := strings.SplitN(kv, "~", 2)
				out[unhx("x"+p[0])] = unhx("x" + p[1])
			}
		}
		v.Set(reflect.ValueOf(out))
	case 'q':
		i := strings.Index(body, ":")
		q, err := types.NewBandwidthQuantity(unhx("x" + body[:i]))
		if err != nil {
			panic(err)
		}
		if strconv.FormatInt(q.Bytes(), 10) != body[i+1:] {
			panic("bandwidth literal does not re-parse to the recorded bytes")
		}
		v.Set(reflect.ValueOf(q))
	default:
		panic("bad value " + enc)
	}
}

var confServerCfg = &v1.ServerConfig{SubDomainHost: "h.test", VhostHTTPPort: 80, VhostHTTPSPort: 443, TCPMuxHTTPConnectPort: 1337}

func confRT(tok []string) string {
	wire := tok[1] == "1"
	pc := v1.NewProxyConfigurerByType(v1.ProxyType(tok[2]))
	if pc == nil {
		return "err:newtype"
	}
	rv := reflect.ValueOf(pc).Elem()
	keys := []string{}
	for _, kv := range tok[3:] {
		i := strings.Index(kv, "=")
		decInto(fieldByPath(rv, kv[:i]), kv[i+1:])
		keys = append(keys, kv[:i])
	}
	var m msg.NewProxy
	pc.MarshalToMsg(&m)
	if wire {
		b, err := json.Marshal(&m)
		if err != nil {
			return "err:json"
		}
		m = msg.NewProxy{}
		if err := json.Unmarshal(b, &m); err != nil {
			return "err:json"
		}
	}
	sc, err := config.NewProxyConfigurerFromMsg(&m, confServerCfg)
	if err != nil {
		if strings.Contains(err.Error(), "unknown proxy type") {
			return "err:type"
		}
		return "err:validate"
	}
	if reflect.TypeOf(sc) != reflect.TypeOf(pc) {
		// the model answers with the reconstructed type first
		return "err:othertype:" + sc.GetBaseConfig().Type
	}
	sv := reflect.ValueOf(sc).Elem()
	out := []string{"ok"}
	for _, k := range keys {
		out = append(out, k+"="+encValue(fieldByPath(sv, k)))
	}
	return strings.Join(out, " ")
}

func confDomErr(err error) string {
	if err == nil {
		return "ok"
	}
	s := err.Error()
	switch {
	case strings.Contains(s, "should not belong to subdomain host"):
		return "belongs"
	case strings.Contains(s, "subdomain is not supported"):
		return "nosub"
	case strings.Contains(s, "are not supported in subdomain"):
		return "chars"
	}
	return "other"
}

func confExec(tok []string) string {
	switch tok[0] {
	case "reset":
		return "-"
	case "rt":
		return confRT(tok)
	case "prs":
		rs, err := types.NewPortsRangeSliceFromString(unhx(tok[1]))
		if err != nil {
			return "err"
		}
		parts := []string{}
		for _, r := range rs {
			parts = append(parts, fmt.Sprintf("%d:%d:%d", r.Start, r.End, r.Single))
		}
		return "ok " + strings.Join(parts, ",")
	case "prstr":
		rs := types.PortsRangeSlice{}
		if tok[1] != "-" {
			for _, p := range strings.Split(tok[1], ",") {
				f := strings.Split(p, ":")
				rs = append(rs, types.PortsRange{Start: atoi(f[0]), End: atoi(f[1]), Single: atoi(f[2])})
			}
		}
		return hx(rs.String())
	case "prrt":
		// real String, then real parse of what was printed
		rs := types.PortsRangeSlice{}
		if tok[1] != "-" {
			for _, p := range strings.Split(tok[1], ",") {
				f := strings.Split(p, ":")
				rs = append(rs, types.PortsRange{Start: atoi(f[0]), End: atoi(f[1]), Single: atoi(f[2])})
			}
		}
		back, err := types.NewPortsRangeSliceFromString(rs.String())
		if err != nil {
			return "err"
		}
		parts := []string{}
		for _, r := range back {
			parts = append(parts, fmt.Sprintf("%d:%d:%d", r.Start, r.End, r.Single))
		}
		return "ok " + strings.Join(parts, ",")
	case "prn":
		ns, err := util.ParseRangeNumbers(unhx(tok[1]))
		if err != nil {
			return "err"
		}
		parts := []string{}
		for _, n := range ns {
			parts = append(parts, strconv.FormatInt(n, 10))
		}
		return "ok " + strings.Join(parts, ",")
	case "pair":
		// parseNumberRangePair is unexported: reach it through the template function map
		a, b := unhx(tok[1]), unhx(tok[2])
		tpl := fmt.Sprintf(`{{ range $i, $v := parseNumberRangePair %q %q }}{{ $v.First }}:{{ $v.Second }},{{ end }}`, a, b)
		out, err := config.RenderWithTemplate([]byte(tpl), &config.Values{Envs: map[string]string{}})
		if err != nil {
			return "err"
		}
		return "ok " + strings.TrimSuffix(string(out), ",")
	case "bw":
		q, err := types.NewBandwidthQuantity(unhx(tok[1]))
		if err != nil {
			return "err"
		}
		return "ok " + hx(q.String()) + " " + strconv.FormatInt(q.Bytes(), 10)
	case "port":
		if validation.ValidatePort(atoi(tok[1]), "p") != nil {
			return "err"
		}
		return "ok"
	case "dom":
		c := &v1.HTTPSProxyConfig{}
		c.SubDomain = unhx(tok[2])
		if tok[3] != "-" {
			for _, h := range strings.Split(tok[3], ",") {
				c.CustomDomains = append(c.CustomDomains, unhx(h))
			}
		}
		s := &v1.ServerConfig{SubDomainHost: unhx(tok[1]), VhostHTTPSPort: 443}
		return confDomErr(validation.ValidateProxyConfigurerForServer(c, s))
	case "fmt":
		return confFmt(tok)
	case "tmpl":
		return confTmpl(tok)
	case "fl":
		return confFl(tok)
	case "dfl":
		return confDfl(tok)
	case "usg":
		return confUsg(tok)
	case "cf":
		return confCF(tok)
	case "load":
		return confLoad(tok)
	case "sload":
		return confSLoad(tok)
	case "sx":
		return confSX(tok)
	case "cx":
		return confCX(tok)
	case "cval":
		return confCVal(tok)
	case "pload":
		return confPLoad(tok)
	case "own":
		return confOwn(tok)
	case "sval":
		return confSVal(tok)
	case "svalv":
		return confSValV(tok)
	case "ccval":
		return confCCVal(tok)
	case "ty":
		return confTy(tok)
	case "nr":
		return confNR(tok)
	case "bweq":
		return confBWEq(tok)
	case "env":
		return confEnv()
	}
	panic("unknown op " + tok[0])
}

// ---------------------------------------------------------------- generators

var confStrings = []string{"", "", "a", "web", "名前", "ключ", "client", "server", " x ", "A.b", "p@ss w0rd", "x=y,z~w", "tcp", "v2"}
var confDomains = []string{"a.example.com", "A.Example.COM", "xn--bcher-kva.example", "*.wild.org", "short", "日本.jp", "UPPER.ORG"}
var confSubs = []string{"", "", "blog", "Blog", "a-b", "x1"}
var confInts = []int64{0, 0, 1, 80, 6000, 65535, 65536, -1, 1 << 31, -(1 << 40)}
var confBWs = []string{"", "", "1MB", "10KB", "1.5MB", " 2MB ", "0.1KB", "0KB", "12345678KB", "3.25MB", "100MB", "0.001MB", "7.KB", ".5MB"}
var confAnnKeys = []string{"a", "frp.io/x", "App", "k8s.io/name", "x-y_z.w"}
var confModes = []string{"", "client", "server", "server", "client", "other"}

func genValue(rng *rand.Rand, t, path string, f reflect.Value) string {
	if f.Type() == bwType {
		q, _ := types.NewBandwidthQuantity(pick(rng, confBWs))
		return encValue(reflect.ValueOf(&q).Elem())
	}
	switch f.Kind() {
	case reflect.String:
		s := pick(rng, confStrings)
		switch path {
		case "Type":
			s = t
		case "Transport.BandwidthLimitMode":
			s = pick(rng, confModes)
		case "SubDomain":
			s = pick(rng, confSubs)
		case "Name":
			if s == "" {
				s = "p" + strconv.Itoa(rng.Intn(100))
			}
		case "Multiplexer":
			s = pick(rng, []string{"httpconnect", "httpconnect", "", "other"})
		}
		if s == "" {
			return "z"
		}
		return "s" + hx(s)[1:]
	case reflect.Bool:
		if rng.Intn(2) == 0 {
			return "z"
		}
		return "b1"
	case reflect.Int:
		n := pick(rng, confInts)
		if n == 0 {
			return "z"
		}
		return "i" + strconv.FormatInt(n, 10)
	case reflect.Slice:
		switch rng.Intn(5) {
		case 0:
			return "z"
		case 1:
			return "L0:"
		}
		n := 1 + rng.Intn(3)
		parts := []string{}
		for i := 0; i < n; i++ {
			s := pick(rng, confStrings)
			if path == "CustomDomains" {
				s = pick(rng, confDomains)
			}
			parts = append(parts, hx(s)[1:])
		}
		return "L" + strconv.Itoa(n) + ":" + strings.Join(parts, ",")
	case reflect.Map:
		switch rng.Intn(5) {
		case 0:
			return "z"
		case 1:
			return "M0:"
		}
		m := map[string]string{}
		for i := 0; i < 1+rng.Intn(3); i++ {
			k := pick(rng, confStrings)
			if path == "Annotations" {
				k = pick(rng, confAnnKeys)
			}
			m[k] = pick(rng, confStrings)
		}
		return encValue(reflect.ValueOf(m))
	}
	panic("gen: unsupported kind " + f.Kind().String() + " at " + path)
}

func genRT(rng *rand.Rand) string {
	t := pick(rng, confTypes)
	pc := v1.NewProxyConfigurerByType(v1.ProxyType(t))
	rv := reflect.ValueOf(pc).Elem()
	wire := rng.Intn(3) == 0
	out := []string{"rt", map[bool]string{false: "0", true: "1"}[wire], t}
	for _, k := range confFields(t) {
		v := genValue(rng, t, k, fieldByPath(rv, k))
		if k == "Type" && rng.Intn(25) == 0 {
			v = "z" // Type left empty: the server falls back to the default type
		}
		out = append(out, k+"="+v)
	}
	return strings.Join(out, " ")
}

func genRangeStr(rng *rand.Rand, malformed bool) string {
	n := 1 + rng.Intn(4)
	parts := []string{}
	for i := 0; i < n; i++ {
		a := rng.Intn(70000)
		if rng.Intn(4) == 0 {
			a = rng.Intn(12)
		}
		p := strconv.Itoa(a)
		if rng.Intn(2) == 0 {
			b := a + rng.Intn(40)
			if rng.Intn(12) == 0 {
				b = a - 1 - rng.Intn(3)
			}
			p = strconv.Itoa(a) + "-" + strconv.Itoa(b)
		}
		if rng.Intn(8) == 0 {
			p = " " + p
		}
		if rng.Intn(8) == 0 {
			p = p + " "
		}
		parts = append(parts, p)
	}
	s := strings.Join(parts, ",")
	if malformed {
		muts := []func(string) string{
			func(s string) string { return "" },
			func(s string) string { return s + "," },
			func(s string) string { return s + "-5-6" },
			func(s string) string { return strings.Replace(s, "-", " - ", 1) },
			func(s string) string { return "+" + s },
			func(s string) string { return s + ",x1" },
			func(s string) string { return s + ",9223372036854775808" },
			func(s string) string { return s + ",9223372036854775807" },
			func(s string) string { return "-" + s },
			func(s string) string { return s + ",007" },
			func(s string) string { return "\t" + s + "\n" },
			func(s string) string { return s + ",1 2" },
			func(s string) string { return s + ",0x10" },
			func(s string) string { return s + ",1_0" },
			func(s string) string { return s + ",+" },
		}
		s = pick(rng, muts)(s)
	}
	return s
}

// genCounted writes a range string that enumerates exactly n numbers
func genCounted(rng *rand.Rand, n int) string {
	parts := []string{}
	for n > 0 {
		k := 1 + rng.Intn(n)
		a := 1000 + rng.Intn(60000)
		if k == 1 {
			parts = append(parts, strconv.Itoa(a))
		} else {
			parts = append(parts, strconv.Itoa(a)+"-"+strconv.Itoa(a+k-1))
		}
		n -= k
	}
	return strings.Join(parts, ",")
}

func genRanges(rng *rand.Rand) string {
	if rng.Intn(10) == 0 {
		return "-"
	}
	parts := []string{}
	for i := 0; i < 1+rng.Intn(4); i++ {
		a := rng.Intn(66000)
		switch rng.Intn(6) {
		case 0, 1, 2:
			parts = append(parts, fmt.Sprintf("0:0:%d", 1+a))
		case 3, 4:
			parts = append(parts, fmt.Sprintf("%d:%d:0", a, a+pick(rng, []int{0, 0, 1, rng.Intn(500)})))
		default: // ill-formed combinations, printed all the same
			parts = append(parts, fmt.Sprintf("%d:%d:%d", a, rng.Intn(70000), pick(rng, []int{0, -3, 7})))
		}
	}
	return strings.Join(parts, ",")
}

func mixCase(rng *rand.Rand, s string) string {
	b := []byte(s)
	for i := range b {
		if rng.Intn(3) == 0 && b[i] >= 'a' && b[i] <= 'z' {
			b[i] -= 32
		}
	}
	return string(b)
}

func genDom(rng *rand.Rand) string {
	hosts := []string{"example.com", "example.com", "frp.test", "Example.com", "", "a.b.c"}
	host := pick(rng, hosts)
	sub := pick(rng, []string{"", "", "", "blog", "a.b", "w*", "X"})
	ds, rawDs := []string{}, []string{}
	for i := 0; i < rng.Intn(4); i++ {
		base := pick(rng, []string{"example.com", "frp.test", "other.org", "a.b.c", "com"})
		var d string
		switch rng.Intn(7) {
		case 0:
			d = base
		case 1:
			d = "evil." + base
		case 2:
			d = "x.y." + base
		case 3:
			d = base + ".evil.org"
		case 4:
			d = "my" + base
		case 5:
			d = "." + base
		default:
			d = pick(rng, confDomains)
		}
		if rng.Intn(3) == 0 {
			d = mixCase(rng, d)
		}
		ds = append(ds, hx(d))
		rawDs = append(rawDs, d)
	}
	dl := "-"
	if len(ds) > 0 {
		dl = strings.Join(ds, ",")
	}
	return "dom " + hx(host) + " " + hx(sub) + " " + dl + " " + ucFlag(append([]string{host}, rawDs...)...)
}

// ucFlag: "uc=1" when some name carries an ASCII upper-case letter (the driver re-checks the flag;
// the recorded finding C18-domain-case is matched on it)
func ucFlag(names ...string) string {
	for _, n := range names {
		if strings.ToLower(n) != n && strings.IndexFunc(n, func(r rune) bool { return r >= 'A' && r <= 'Z' }) >= 0 {
			return "uc=1"
		}
	}
	return "uc=0"
}

func confGen(rng *rand.Rand, n int, emit func(string)) {
	emit("reset")
	// the recorded finding first, so that every run reproduces it against the real code
	emit("dom " + hx("example.com") + " " + hx("") + " " + hx("evil.EXAMPLE.com") + " uc=1")
	// the recorded differences between flag defaults and file defaults, and the flag that never takes effect
	for _, g := range []string{"s", "s bind", "p:tcp", "p:http", "v:xtcp", "v:stcp"} {
		emit("dfl " + g)
	}
	emit("fl s 0 e:dashboard_tls_mode:" + hx("true")[1:] + " e:dashboard_tls_cert_file:" + hx("c.pem")[1:] + " e:dashboard_tls_key_file:" + hx("k.pem")[1:])
	emit("env")
	for _, t := range confTypes {
		emit("usg p:" + t + " 0")
		emit("usg p:" + t + " 1")
	}
	for _, t := range []string{"stcp", "xtcp", "sudp"} {
		emit("usg v:" + t + " 0")
	}
	emit("usg s 0")
	for i := 0; i < n; i++ {
		// a third of the stream: loaders from disk, flags, client-side validators (eng_conf_load.go)
		if rng.Intn(3) == 0 {
			confGenExt(rng, emit)
			continue
		}
		switch k := rng.Intn(100); {
		case k < 40:
			emit(genRT(rng))
		case k < 50:
			emit("prs " + hx(genRangeStr(rng, rng.Intn(3) == 0)))
		case k < 54:
			emit("prstr " + genRanges(rng))
		case k < 57:
			emit("prrt " + genRanges(rng))
		case k < 65:
			emit("prn " + hx(genRangeStr(rng, rng.Intn(3) == 0)))
		case k < 70:
			if rng.Intn(3) == 0 {
				emit("pair " + hx(genRangeStr(rng, rng.Intn(5) == 0)) + " " + hx(genRangeStr(rng, rng.Intn(5) == 0)))
			} else { // same number of ports on both sides, differently grouped
				n := 1 + rng.Intn(12)
				emit("pair " + hx(genCounted(rng, n)) + " " + hx(genCounted(rng, n)))
			}
		case k < 78:
			s := pick(rng, confBWs)
			switch rng.Intn(6) {
			case 0:
				s = strconv.Itoa(rng.Intn(100000)) + pick(rng, []string{"KB", "MB", "GB", "kb", "", "B"})
			case 1:
				s = strconv.Itoa(rng.Intn(1000)) + "." + strconv.Itoa(rng.Intn(1000)) + pick(rng, []string{"KB", "MB"})
			case 2:
				s = pick(rng, []string{"KB", "MB", "-1KB", "1e3KB", "0x10MB", "1 MB", "１MB", "infMB", "1_0KB", "+2MB", "1.2.3MB", "1234567890KB"})
			}
			emit("bw " + hx(s))
		case k < 82:
			emit("port " + strconv.FormatInt(pick(rng, []int64{-1, 0, 1, 65535, 65536, 70000, -65535, 443, int64(rng.Intn(70000))}), 10))
		case k < 94:
			emit(genDom(rng))
		case k < 98:
			emit(fmt.Sprintf("fmt %d %d %d", rng.Intn(1<<30), rng.Intn(2), rng.Intn(2)))
		default:
			emit(fmt.Sprintf("tmpl %d", rng.Intn(1<<30)))
		}
	}
}

func init() { register(&Engine{Name: "conf", Gen: confGen, Exec: confExec}) }
