package main

import (
	"context"
	"fmt"
	"math/rand"
	"net"
	"reflect"
	"sort"
	"strconv"
	"strings"
	"sync"
	"time"

	"github.com/fatedier/frp/pkg/auth"
	"github.com/fatedier/frp/pkg/config/types"
	v1 "github.com/fatedier/frp/pkg/config/v1"
	"github.com/fatedier/frp/pkg/msg"
	"github.com/fatedier/frp/pkg/nathole"
	plugin "github.com/fatedier/frp/pkg/plugin/server"
	"github.com/fatedier/frp/pkg/util/verifhook"
	"github.com/fatedier/frp/pkg/util/vhost"
	"github.com/fatedier/frp/server"
	"github.com/fatedier/frp/server/controller"
	"github.com/fatedier/frp/server/group"
	"github.com/fatedier/frp/server/ports"
	"github.com/fatedier/frp/server/proxy"
	"github.com/fatedier/frp/server/visitor"
)

// Engine "regrace" (property C10): registrations of several sessions run CONCURRENTLY through the real
// Control: the harness (as frpc) writes NewProxy on the session's control connection, the session's
// dispatcher runs handleNewProxy → RegisterProxy; the interleaving is decided op by op through the gates
// `reg.checked` (after the quota charge and the Exist check, before pxy.Run) and `reg.ran` (after pxy.Run,
// before pxyManager.Add); `reg.added` is observed (not parked at).  The answer of a registration is the
// NewProxyResp read from the control connection.  A session may END WHILE ITS OWN REGISTRATION IS PARKED
// (`endsess` answers `pending`): the control connection is closed, the teardown must wait for the
// registration; the step that lets the registration finish answers `gone` once Control.worker is done.
// Every failure step of a registration is reachable: quota, name exists, resource conflict inside Run,
// name taken concurrently at Add.  Observed after every op sequence: port tables, http routes, visitor
// listeners, the name table with its owners and each session's quota counter (Control.portsUsedNum).
//
//	reset <maxPortsPerClient>
//	begin <sid> <name> tcp|udp r<k>                       => at:checked | err:quota | err:exists | busy
//	begin <sid> <name> http <domains> <locations> <user>
//	begin <sid> <name> stcp
//	step <sid>                                            => at:ran | ok | err:conflict | err:inuse | noflight
//	close <sid> <name>                                    => - | busy
//	endsess <sid>                                         => - | pending (a registration of the session is parked)
//	step <sid> of a session whose end is pending          => at:ran | gone
//	view                                                  => tcp[k=name,…]udp[…]http[…]visitor[…]names[name=sid,…]quota[1=q,2=q,3=q]
const rrSessions = 3

type rrFlight struct {
	events  chan string   // "at:<gate>" or the final result (from NewProxyResp)
	resume  chan struct{} // one token per gate
	added   chan struct{} // closed when the registration passed pxyManager.Add (gate reg.added)
	addOnce sync.Once
	ending  bool          // the control connection was closed while the registration was parked
	ctlDone chan struct{} // closed when Control.worker finished (set with ending)
}

type rrState struct {
	base    int
	cfg     *v1.ServerConfig
	rc      *controller.ResourceController
	routers *vhost.Routers
	pm      *proxy.Manager
	ctls    map[int]*server.Control
	cli     map[int]net.Conn // frpc's end of the control connection
	conns   []net.Conn
	mu      sync.Mutex
	flights map[string]*rrFlight // by run id
	drain   bool
}

var rrSt *rrState

func rrClose() {
	if rrSt == nil {
		return
	}
	st := rrSt
	st.mu.Lock()
	st.drain = true
	fl := st.flights
	st.flights = map[string]*rrFlight{}
	st.mu.Unlock()
	for _, f := range fl {
		close(f.resume)
	}
	for _, c := range st.ctls {
		c.Close()
	}
	for _, c := range st.conns {
		c.Close()
	}
	for _, c := range st.ctls {
		rrWaitClosed(c, 3*time.Second)
	}
	verifhook.Set(nil)
	rrSt = nil
}

func rrWaitClosed(c *server.Control, d time.Duration) bool {
	done := make(chan struct{})
	go func() { c.WaitClosed(); close(done) }()
	select {
	case <-done:
		return true
	case <-time.After(d):
		return false
	}
}

func rrReset(maxPorts int) {
	rrClose()
	st := &rrState{ctls: map[int]*server.Control{}, cli: map[int]net.Conn{}, flights: map[string]*rrFlight{}}
	st.base = pickBase(portsRng)
	cfg := &v1.ServerConfig{}
	cfg.Complete()
	cfg.ProxyBindAddr = "127.0.0.1"
	cfg.AllowPorts = []types.PortsRange{{Start: st.base + 1, End: st.base + 8}}
	cfg.MaxPortsPerClient = int64(maxPorts)
	cfg.VhostHTTPPort = 1 // only consulted by validation
	cfg.UserConnTimeout = 1
	st.cfg = cfg
	st.routers = vhost.NewRouters()
	tcpPM := ports.NewManager("tcp", cfg.ProxyBindAddr, cfg.AllowPorts)
	nc, _ := nathole.NewController(time.Hour)
	st.rc = &controller.ResourceController{
		VisitorManager:    visitor.NewManager(),
		TCPPortManager:    tcpPM,
		UDPPortManager:    ports.NewManager("udp", cfg.ProxyBindAddr, cfg.AllowPorts),
		TCPGroupCtl:       group.NewTCPGroupCtl(tcpPM),
		HTTPGroupCtl:      group.NewHTTPGroupController(st.routers),
		HTTPReverseProxy:  vhost.NewHTTPReverseProxy(vhost.HTTPReverseProxyOptions{}, st.routers),
		NatHoleController: nc,
		PluginManager:     plugin.NewManager(),
	}
	st.pm = proxy.NewManager()
	rrSt = st
	verifhook.Set(func(point string, keys []string) {
		if point != "reg.checked" && point != "reg.ran" && point != "reg.added" {
			return
		}
		st.mu.Lock()
		f := st.flights[keys[0]]
		dr := st.drain
		st.mu.Unlock()
		if f == nil || dr {
			return
		}
		if point == "reg.added" {
			f.addOnce.Do(func() { close(f.added) })
			return
		}
		f.events <- "at:" + strings.TrimPrefix(point, "reg.")
		<-f.resume
	})
}

func (st *rrState) ctl(sid int) *server.Control {
	if c, ok := st.ctls[sid]; ok {
		return c
	}
	a, b := net.Pipe()
	st.conns = append(st.conns, a, b)
	st.cli[sid] = b
	runID := "run" + strconv.Itoa(sid)
	// frpc's control loop: the answer to NewProxy is the result of the registration in flight
	go func() {
		for {
			m, err := msg.ReadMsg(b)
			if err != nil {
				return
			}
			if r, ok := m.(*msg.NewProxyResp); ok {
				st.mu.Lock()
				f := st.flights[runID]
				st.mu.Unlock()
				if f != nil {
					res := "ok"
					if r.Error != "" {
						res = rrClassify(fmt.Errorf("%s", r.Error))
					}
					f.events <- res
				}
			}
		}
	}()
	login := &msg.Login{RunID: runID, User: "u" + strconv.Itoa(sid), Hostname: strconv.Itoa(sid)}
	c, err := server.NewControl(context.Background(), st.rc, st.pm, st.rc.PluginManager,
		auth.NewAuthVerifier(st.cfg.Auth), a, false, login, st.cfg)
	if err != nil {
		panic(err)
	}
	c.Start()
	st.ctls[sid] = c
	return c
}

func rrClassify(err error) string {
	s := err.Error()
	switch {
	case strings.Contains(s, "exceed the max_ports_per_client"):
		return "err:quota"
	case strings.Contains(s, "already exists"):
		return "err:exists"
	case strings.Contains(s, "already in use") && strings.Contains(s, "proxy name"):
		return "err:inuse"
	case strings.Contains(s, "port already used"), strings.Contains(s, "router config conflict"),
		strings.Contains(s, "is repeated"):
		return "err:conflict"
	}
	return "err:other:" + hx(s)
}

func (st *rrState) wait(f *rrFlight, runID string) string {
	var gone chan struct{}
	if f.ending {
		gone = f.ctlDone // the answer cannot be delivered any more: the session's teardown is the end of the step
	}
	event := func(ev string) string {
		if !strings.HasPrefix(ev, "at:") {
			st.mu.Lock()
			delete(st.flights, runID)
			st.mu.Unlock()
		}
		return ev
	}
	select {
	case ev := <-f.events:
		return event(ev)
	case <-gone:
		// Control.worker is done.  It waits for the dispatcher, which is inside handleNewProxy: whatever the
		// registration did, it did before (a gate event or reg.added is already there).  If nothing is there,
		// give a registration that the teardown may have overtaken a moment to show up.
		select {
		case ev := <-f.events:
			return event(ev)
		case <-f.added:
		case <-time.After(100 * time.Millisecond):
		}
		st.mu.Lock()
		delete(st.flights, runID)
		st.mu.Unlock()
		return "gone"
	case <-time.After(3 * time.Second):
		return "TIMEOUT"
	}
}

func (st *rrState) busy(sid int) bool {
	st.mu.Lock()
	defer st.mu.Unlock()
	return st.flights["run"+strconv.Itoa(sid)] != nil
}

// the quota counter of a session: Control.portsUsedNum (unexported; read-only through reflection while
// every registration goroutine is parked or finished)
func rrQuota(c *server.Control) string {
	f := reflect.ValueOf(c).Elem().FieldByName("portsUsedNum")
	if !f.IsValid() || !f.CanInt() {
		return "?"
	}
	return strconv.FormatInt(f.Int(), 10)
}

func (st *rrState) view() string {
	var sb strings.Builder
	for _, proto := range []string{"tcp", "udp"} {
		mgr := st.rc.TCPPortManager
		if proto == "udp" {
			mgr = st.rc.UDPPortManager
		}
		_, used, _ := mgr.VerifDump()
		us := []string{}
		for p, n := range used {
			us = append(us, fmt.Sprintf("%d=%s", p-st.base, n))
		}
		sort.Strings(us)
		fmt.Fprintf(&sb, "%s[%s]", proto, strings.Join(us, ","))
	}
	vis := st.rc.VisitorManager.VerifNames()
	sort.Strings(vis)
	names := []string{}
	for n, h := range st.pm.VerifDump() {
		names = append(names, n+"="+h)
	}
	sort.Strings(names)
	qs := []string{}
	for sid := 1; sid <= rrSessions; sid++ {
		q := "0"
		if c, ok := st.ctls[sid]; ok {
			q = rrQuota(c)
		}
		qs = append(qs, strconv.Itoa(sid)+"="+q)
	}
	fmt.Fprintf(&sb, "http[%s]visitor[%s]names[%s]quota[%s]", relDump3(st.routers.VerifDump()),
		strings.Join(vis, ","), strings.Join(names, ","), strings.Join(qs, ","))
	return sb.String()
}

func rrExec(tok []string) string {
	if tok[0] == "reset" {
		rrReset(atoi(tok[1]))
		return "-"
	}
	if rrSt == nil {
		rrReset(0) // the initial state of the model
	}
	st := rrSt
	switch tok[0] {
	case "begin":
		sid, name, typ := atoi(tok[1]), tok[2], tok[3]
		if st.busy(sid) {
			return "busy"
		}
		m := &msg.NewProxy{ProxyName: name, ProxyType: typ}
		switch typ {
		case "tcp", "udp":
			m.RemotePort = st.base + atoi(tok[4][1:])
		case "http":
			m.CustomDomains, m.Locations, m.RouteByHTTPUser = relList(tok[4]), relList(tok[5]), unhx(tok[6])
		case "stcp":
			m.Sk = "sk"
		}
		st.ctl(sid)
		runID := "run" + strconv.Itoa(sid)
		f := &rrFlight{events: make(chan string, 8), resume: make(chan struct{}, 4), added: make(chan struct{})}
		st.mu.Lock()
		st.flights[runID] = f
		st.mu.Unlock()
		b := st.cli[sid]
		_ = b.SetWriteDeadline(time.Now().Add(3 * time.Second))
		if err := msg.WriteMsg(b, m); err != nil {
			st.mu.Lock()
			delete(st.flights, runID)
			st.mu.Unlock()
			return "err:send"
		}
		return st.wait(f, runID)
	case "step":
		runID := "run" + tok[1]
		st.mu.Lock()
		f := st.flights[runID]
		st.mu.Unlock()
		if f == nil {
			return "noflight"
		}
		f.resume <- struct{}{}
		res := st.wait(f, runID)
		if res == "gone" {
			sid := atoi(tok[1])
			delete(st.ctls, sid)
			delete(st.cli, sid)
		}
		return res
	case "close":
		if st.busy(atoi(tok[1])) {
			return "busy"
		}
		_ = st.ctl(atoi(tok[1])).CloseProxy(&msg.CloseProxy{ProxyName: tok[2]})
		return "-"
	case "endsess":
		sid := atoi(tok[1])
		c, ok := st.ctls[sid]
		st.mu.Lock()
		f := st.flights["run"+strconv.Itoa(sid)]
		st.mu.Unlock()
		if f != nil && ok {
			// the control connection drops while the session's registration is parked between two sections
			if !f.ending {
				f.ctlDone = make(chan struct{})
				f.ending = true
				c.Close()
				go func(ch chan struct{}) { c.WaitClosed(); close(ch) }(f.ctlDone)
			}
			return "pending"
		}
		if ok {
			c.Close()
			if !rrWaitClosed(c, 3*time.Second) {
				return "TIMEOUT"
			}
			delete(st.ctls, sid)
			delete(st.cli, sid)
		}
		return "-"
	case "view":
		return st.view()
	}
	return "bad-op"
}

// Generator: a small pool of names, ports and routes shared by all sessions, so that registrations of
// different sessions collide on the name (at Exist or, when both passed Exist, at Add), on a resource
// (inside Run) or on the quota.  Classes of schedules:
//   - free mix: begin / step / close / session end / view, steps of the in-flight registrations interleaved at random;
//   - name race: 2..3 sessions begin a registration of the SAME name (each with its own random resource),
//     then all their steps are interleaved at random; afterwards the owners close and the sessions
//     re-submit their registrations verbatim ("identical registration submitted afterwards");
//   - verbatim re-submission of earlier registrations of a session at any later time.
func rrGen(rng *rand.Rand, n int, emit func(string)) {
	doms := []string{"a.example.com", "b.example.com"}
	locs := []string{"", "/a"}
	var left map[int]int // steps a session's in-flight registration may still need
	var live map[string]int
	history := map[int][]string{}
	count := 0
	out := func(s string) { emit(s); count++ }
	reset := func() {
		out("reset " + strconv.Itoa(pick(rng, []int{0, 1, 1, 2, 2, 3})))
		left = map[int]int{}
		live = map[string]int{}
	}
	reset()
	step := func(sid int) {
		out(fmt.Sprintf("step %d", sid))
		if left[sid] > 0 {
			left[sid]--
		}
	}
	finish := func(sid int) {
		for left[sid] > 0 {
			step(sid)
		}
	}
	flying := func() []int {
		o := []int{}
		for s := 1; s <= rrSessions; s++ {
			if left[s] > 0 {
				o = append(o, s)
			}
		}
		return o
	}
	newReg := func(sid int, name string) string {
		typ := pick(rng, []string{"tcp", "tcp", "tcp", "udp", "http", "stcp"})
		line := fmt.Sprintf("begin %d %s %s", sid, name, typ)
		switch typ {
		case "tcp", "udp":
			line += " r" + strconv.Itoa(1+rng.Intn(5))
		case "http":
			ls := "-"
			if rng.Intn(2) == 0 {
				ls = hx(pick(rng, locs))
				if rng.Intn(3) == 0 {
					ls += "," + hx(pick(rng, locs))
				}
			}
			ds := hx(pick(rng, doms))
			if rng.Intn(3) == 0 {
				ds += "," + hx(pick(rng, doms))
			}
			line += " " + ds + " " + ls + " " + hx("")
		}
		history[sid] = append(history[sid], line)
		return line
	}
	begin := func(line string) {
		tk := strings.Fields(line)
		sid := atoi(tk[1])
		out(line)
		left[sid] = 2 // possibly (it may have been refused at once; a step then answers noflight)
		live[tk[2]] = sid
	}
	for count < n {
		k := rng.Intn(100)
		switch {
		case k < 1:
			reset()
		case k < 24:
			sid := 1 + rng.Intn(rrSessions)
			if left[sid] > 0 && rng.Intn(4) != 0 {
				finish(sid)
			}
			if h := history[sid]; len(h) > 0 && rng.Intn(3) == 0 {
				begin(h[len(h)-1-rng.Intn(min(len(h), 3))]) // identical re-submission
			} else {
				begin(newReg(sid, "p"+strconv.Itoa(1+rng.Intn(4))))
			}
		case k < 32:
			// name race
			name := "p" + strconv.Itoa(1+rng.Intn(4))
			sids := rng.Perm(rrSessions)[:2+rng.Intn(rrSessions-1)]
			lines := map[int]string{}
			if o, ok := live[name]; ok && rng.Intn(2) == 0 {
				finish(o)
				out(fmt.Sprintf("close %d %s", o, name))
			}
			for _, s0 := range sids {
				finish(s0 + 1)
			}
			for _, s0 := range sids {
				lines[s0+1] = newReg(s0+1, name)
				begin(lines[s0+1])
			}
			for len(flying()) > 0 {
				step(pick(rng, flying()))
			}
			if rng.Intn(3) == 0 {
				out("view")
			}
			if rng.Intn(3) != 0 {
				for _, s0 := range sids {
					out(fmt.Sprintf("close %d %s", s0+1, name))
				}
				for _, s0 := range sids {
					if rng.Intn(2) == 0 {
						begin(lines[s0+1])
						finish(s0 + 1)
					}
				}
				out("view")
			}
		case k < 38:
			// the control connection of a session drops while its own registration is parked after 0 or 1
			// sections; the other sessions go on; the registration's remaining sections run; afterwards the
			// identical registration is submitted on a new session of the same client and by another session
			sid := 1 + rng.Intn(rrSessions)
			finish(sid)
			line := newReg(sid, "p"+strconv.Itoa(1+rng.Intn(4)))
			begin(line)
			if rng.Intn(2) == 0 {
				step(sid)
			}
			out(fmt.Sprintf("endsess %d", sid))
			for j := rng.Intn(3); j > 0; j-- {
				if fl := flying(); len(fl) > 0 {
					step(pick(rng, fl))
				}
			}
			finish(sid)
			out("view")
			if rng.Intn(2) == 0 {
				begin(line)
				finish(sid)
			}
			if rng.Intn(2) == 0 {
				other := 1 + rng.Intn(rrSessions)
				finish(other)
				tk := strings.Fields(line)
				tk[1] = strconv.Itoa(other)
				begin(strings.Join(tk, " "))
				finish(other)
			}
			out("view")
		case k < 62:
			fl := flying()
			if len(fl) == 0 {
				continue
			}
			step(pick(rng, fl))
		case k < 76:
			ns := []string{}
			for nm := range live {
				ns = append(ns, nm)
			}
			if len(ns) == 0 {
				continue
			}
			sort.Strings(ns)
			nm := pick(rng, ns)
			sid := live[nm]
			if rng.Intn(4) == 0 {
				sid = 1 + rng.Intn(rrSessions)
			}
			// a session handles its messages one at a time: its own registration finishes first
			if rng.Intn(8) != 0 {
				finish(sid)
			}
			out(fmt.Sprintf("close %d %s", sid, nm))
		case k < 81:
			sid := 1 + rng.Intn(rrSessions)
			if rng.Intn(8) != 0 {
				finish(sid)
			}
			out(fmt.Sprintf("endsess %d", sid))
		default:
			out("view")
		}
	}
	for s := 1; s <= rrSessions; s++ {
		left[s] = 2
		finish(s)
	}
	out("view")
	out("reset 0")
}

func init() { register(&Engine{Name: "regrace", Gen: rrGen, Exec: rrExec}) }
