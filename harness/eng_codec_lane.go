package main

import (
	"bytes"
	"context"
	"crypto/aes"
	"crypto/cipher"
	"crypto/sha1"
	"fmt"
	"math/rand"
	"reflect"
	"strings"
	"time"

	golibcrypto "github.com/fatedier/golib/crypto"
	"golang.org/x/crypto/pbkdf2"

	"github.com/fatedier/frp/pkg/msg"
	"github.com/fatedier/frp/pkg/nathole"
	"github.com/fatedier/frp/pkg/transport"
)

// Two more ops of engine "codec":
//
//	nh <typeByte> <seed> <key> <mode> <arg>
//	     the nat-hole message codec (pkg/nathole/utils.go): v = value of the type under typeByte from seed,
//	     data = EncodeMessage(v, key); mode same: DecodeMessageInto(data, key, new T); wrongkey: with key+"x";
//	     flip: bit <arg> (mod length) of data inverted first; trunc: only the first <arg> (mod length) bytes.
//	     => P<plain> T[…] <ok|err:cls> <eq|ne|-> W<value dump>
//	     P = what the bytes handed to the decoder decrypt to, computed with the standard library's AES-CFB
//	     (trusted), "-" when shorter than an iv; T = JSON trees of the frame bodies in P; eq = the value that
//	     came back equals the one that went in (after the stated normalisation)
//	lane <step> <step> …
//	     transport.MessageTransporter (pkg/transport/message.go): r<id>:<type>:<lane> = a Do call (request
//	     Ping{Timestamp:id}) reaches its select; d<type>:<lane>:<tag> = Dispatch (DispatchWithType for type names
//	     that are no message struct) of a message carrying tag; c<id> = cancel Do call id
//	     => one word per step: r | t><id>:<tag> (true, Do call id returned that message) | f | c:<ctxerr|gone>

func codecNHPlain(data, key []byte) string {
	if len(data) < aes.BlockSize {
		return "-"
	}
	k := pbkdf2.Key(key, []byte(golibcrypto.DefaultSalt), 64, aes.BlockSize, sha1.New) // frp sets the salt at init
	block, err := aes.NewCipher(k)
	if err != nil {
		return "-"
	}
	out := make([]byte, len(data)-aes.BlockSize)
	cipher.NewCFBDecrypter(block, data[:aes.BlockSize]).XORKeyStream(out, data[aes.BlockSize:])
	return hxb(out)
}

func codecNH(tok []string) string {
	tb := byte(atoi(tok[1]))
	var seed int64
	fmt.Sscan(tok[2], &seed)
	key := []byte(unhx(tok[3]))
	mode, arg := tok[4], atoi(tok[5])
	v := buildValue(tb, seed)
	if v == nil {
		return "unregistered"
	}
	data, err := nathole.EncodeMessage(v, key)
	if err != nil {
		return "encerr"
	}
	dkey := key
	if mode != "same" {
		// EncodeMessage draws a random iv; for the experiments on changed data the harness encrypts the very
		// frame EncodeMessage encrypted under an iv derived from the seed (standard-library AES-CFB), so that
		// the run is reproducible; the real EncodeMessage output is what mode "same" decodes
		frame := unhx(codecNHPlain(data, key))
		iv := make([]byte, aes.BlockSize)
		rand.New(rand.NewSource(seed ^ 0x5eed)).Read(iv)
		k := pbkdf2.Key(key, []byte(golibcrypto.DefaultSalt), 64, aes.BlockSize, sha1.New)
		block, _ := aes.NewCipher(k)
		data = make([]byte, aes.BlockSize+len(frame))
		copy(data, iv)
		cipher.NewCFBEncrypter(block, iv).XORKeyStream(data[aes.BlockSize:], []byte(frame))
	}
	switch mode {
	case "wrongkey":
		dkey = append(append([]byte{}, key...), 'x')
	case "flip":
		i := arg % (len(data) * 8)
		data[i/8] ^= 1 << (i % 8)
	case "trunc":
		data = data[:arg%len(data)]
	}
	plain := codecNHPlain(data, dkey)
	trees := "T[]"
	if plain != "-" {
		trees = codecStreamTrees([]byte(unhx(plain)))
	}
	into := reflect.New(codecSample[tb]).Interface()
	derr := nathole.DecodeMessageInto(append([]byte{}, data...), dkey, into)
	if derr != nil {
		cls := codec_errClass(derr)
		if plain == "-" {
			cls = "short"
		}
		return fmt.Sprintf("P%s %s err:%s - W-", plain, trees, cls)
	}
	w := codecCanonValue(reflect.ValueOf(into).Elem())
	orig := buildValue(tb, seed)
	normalise(reflect.ValueOf(orig).Elem())
	normalise(reflect.ValueOf(into).Elem())
	eq := "ne"
	if reflect.DeepEqual(orig, into) {
		eq = "eq"
	}
	return fmt.Sprintf("P%s %s ok %s W%s", plain, trees, eq, w)
}

// ---------------------------------------------------------------- lane

type codecLaneRes struct {
	id  int
	tag string
	err string
}

func codecLaneMsg(typ, tag string) msg.Message {
	switch typ {
	case "NatHoleResp":
		return &msg.NatHoleResp{Sid: tag}
	case "Pong":
		return &msg.Pong{Error: tag}
	case "NewProxyResp":
		return &msg.NewProxyResp{ProxyName: tag}
	}
	return nil
}

func codecLaneTag(m msg.Message) string {
	switch x := m.(type) {
	case *msg.NatHoleResp:
		return x.Sid
	case *msg.Pong:
		return x.Error
	case *msg.NewProxyResp:
		return x.ProxyName
	case *msg.CloseProxy:
		return x.ProxyName
	}
	return "?"
}

func codecLane(tok []string) string {
	sendCh := make(chan msg.Message, 8)
	tr := transport.NewMessageTransporter(sendCh)
	results := make(chan codecLaneRes, 64)
	cancels := map[int]context.CancelFunc{}
	waiting := map[int]bool{}
	var out []string
	wait := func() (codecLaneRes, bool) {
		select {
		case r := <-results:
			delete(waiting, r.id)
			return r, true
		case <-time.After(2 * time.Second):
			return codecLaneRes{}, false
		}
	}
	for _, st := range tok[1:] {
		switch st[0] {
		case 'r':
			p := strings.SplitN(st[1:], ":", 3)
			id, typ, lane := atoi(p[0]), p[1], unhx(p[2])
			if _, dup := cancels[id]; dup {
				out = append(out, "dupid")
				continue
			}
			ctx, cancel := context.WithCancel(context.Background())
			cancels[id] = cancel
			waiting[id] = true
			go func() {
				resp, err := tr.Do(ctx, &msg.Ping{Timestamp: int64(id)}, lane, typ)
				r := codecLaneRes{id: id}
				if err != nil {
					r.err = "ctxerr"
				} else {
					r.tag = codecLaneTag(resp)
				}
				results <- r
			}()
			// the request appears on the send channel only after the call has registered itself
			select {
			case m := <-sendCh:
				if pm, ok := m.(*msg.Ping); !ok || pm.Timestamp != int64(id) {
					out = append(out, "badreq")
					continue
				}
				out = append(out, "r")
			case <-time.After(2 * time.Second):
				out = append(out, "noreq")
			}
		case 'd':
			p := strings.SplitN(st[1:], ":", 3)
			typ, lane, tag := p[0], unhx(p[1]), p[2]
			var ok bool
			if m := codecLaneMsg(typ, tag); m != nil {
				ok = tr.Dispatch(m, lane)
			} else {
				ok = tr.DispatchWithType(&msg.CloseProxy{ProxyName: tag}, typ, lane)
			}
			if !ok {
				out = append(out, "f")
				continue
			}
			if r, got := wait(); got {
				out = append(out, fmt.Sprintf("t>%d:%s%s", r.id, r.tag, r.err))
			} else {
				out = append(out, "t>nobody")
			}
		case 'c':
			id := atoi(st[1:])
			cancel, ok := cancels[id]
			if !ok || !waiting[id] {
				out = append(out, "c:gone")
				continue
			}
			cancel()
			if r, got := wait(); got && r.id == id {
				out = append(out, "c:"+r.err+r.tag)
			} else {
				out = append(out, "c:stuck")
			}
		}
	}
	for id, c := range cancels {
		if waiting[id] {
			c()
		}
	}
	for len(waiting) > 0 {
		if _, got := wait(); !got {
			break
		}
	}
	return strings.Join(out, " ")
}

// ---------------------------------------------------------------- generators

func cdGenNH(rng *rand.Rand) string {
	t := pick(rng, codecTypes)
	seed := rng.Int63n(1 << 40)
	if seed%8 == 1 { // oversize values are the business of rt
		seed++
	}
	key := pick(rng, []string{"", "k", "sk-secret", "0123456789abcdef0123456789abcdef", "\x00\xff"})
	mode := pick(rng, []string{"same", "same", "same", "wrongkey", "flip", "flip", "trunc"})
	return fmt.Sprintf("nh %d %d %s %s %d", t, seed, hx(key), mode, rng.Intn(1<<20))
}

func cdGenLane(rng *rand.Rand) string {
	types := []string{"NatHoleResp", "Pong", "NewProxyResp", "Other"}
	lanes := []string{"", "a", "b", "tx-1", "tx-2"}
	var steps []string
	var live []int
	nextID, tag := 1, 1
	type wk struct{ typ, lane string }
	keys := map[int]wk{}
	for i, n := 0, 3+rng.Intn(8); i < n; i++ {
		switch k := rng.Intn(10); {
		case k < 4:
			w := wk{pick(rng, types), pick(rng, lanes)}
			if nextID > 1 && rng.Intn(3) == 0 {
				// overlap: a second Do under the key of an earlier one (waiting or cancelled) — the registry entry is taken
				// over, and a cancel of either call then acts on an entry the other may own
				w = keys[1+rng.Intn(nextID-1)]
			}
			keys[nextID] = w
			live = append(live, nextID)
			steps = append(steps, fmt.Sprintf("r%d:%s:%s", nextID, w.typ, hx(w.lane)))
			nextID++
		case k < 8:
			w := wk{pick(rng, types), pick(rng, lanes)}
			if len(live) > 0 && rng.Intn(3) != 0 { // mostly aimed at somebody who waits or waited (live holds every call made), or nearly
				w = keys[pick(rng, live)]
				switch rng.Intn(6) {
				case 0:
					w.typ = pick(rng, types)
				case 1:
					w.lane = pick(rng, lanes)
				}
			}
			steps = append(steps, fmt.Sprintf("d%s:%s:%d", w.typ, hx(w.lane), tag))
			tag++
		default:
			if len(live) > 0 {
				steps = append(steps, fmt.Sprintf("c%d", pick(rng, live)))
			} else {
				steps = append(steps, "c99")
			}
		}
	}
	return "lane " + strings.Join(steps, " ")
}

var _ = bytes.NewBuffer
