// Engine "crash" (C16), USER side.  The storms of eng_crash.go speak the frp protocol; this file speaks to the listeners a
// USER (nobody who ever logged in) can reach, and drives the pure string functions that sit behind them:
//
//	ureq <lst> <xHEX>                        one connection (datagram) to the child frps' listener <lst> = mux (tcpmux CONNECT port) |
//	                                         http (vhost http port) | https (vhost https port) | tcp (the watchdog tcp proxy's port) |
//	                                         udp (the real frpc's udp proxy port): the bytes, FIN, whatever comes back within 2 s
//	                                                                                   => r:<status | tls | echo | data | closed | silent>
//	ustorm <seed> <nconn> <nreq>             nconn users at once, each nreq generated requests to random listeners            => done
//	canon <xHEX>                             httppkg.CanonicalHost on the bytes, in the child, NO recover                       => err | <xHEX>
//	ptear <plugin> <mux> <hold> <n>          frpc teardown with ACTIVE plugin requests: a fresh real frpc (transport.tcpMux = <mux>) whose
//	                                         only proxy is backed by the plugin http2http | http2https | https2http | https2https |
//	                                         http_proxy | static_file logs in to a scripted server; one complete request proves the
//	                                         proxy; n requests are then held open (hold = slow: the backend does not answer | noread: the
//	                                         user stops reading a 64 MiB response | body: the user does not finish the request body);
//	                                         the server cuts the control connection; frpc must log in again, register the proxy again
//	                                         and serve a request (each wait bounded, event-driven)                 => done | fail:ptear-…
//
// Generators: authorities / Host values / SNI names are drawn from ONE class (crashUserHost): every string of length <= 4 over
// {. : [ ] a 0}, compositions base × suffix (bases: empty, root dot, labels, bracketed and bare IPv6 literals, existing routes in any
// case; suffixes: dots, ports of every shape), huge names, non-ASCII and control bytes.  Requests: well-formed ones around those
// values, and a malformed stream (request lines, versions, line ends, header sizes and counts, (Proxy-)Authorization of every
// shape, chunking, h2c prefaces and upgrades, absolute / authority / asterisk targets, truncations); ClientHellos are built by
// hand (any SNI bytes), then truncated / bit-flipped / length-corrupted.
package main

import (
	"bytes"
	"context"
	"crypto/tls"
	"encoding/base64"
	"encoding/binary"
	"fmt"
	"io"
	"math/rand"
	"net"
	"net/http"
	"net/http/httptest"
	"os"
	"path/filepath"
	"strconv"
	"strings"
	"sync"
	"time"

	fmux "github.com/hashicorp/yamux"
	"github.com/samber/lo"

	"github.com/fatedier/frp/client"
	v1 "github.com/fatedier/frp/pkg/config/v1"
	"github.com/fatedier/frp/pkg/msg"
	httppkg "github.com/fatedier/frp/pkg/util/http"
	netpkg "github.com/fatedier/frp/pkg/util/net"
	"github.com/fatedier/frp/pkg/util/version"
)

const (
	crashUserWeb = "uweb.example.net"
	crashUserTLS = "utls.example.net"
	crashUserMux = "umux.example.net"
)

// ---------------------------------------------------------------- the child's user-facing world

func crashWebBackend() int {
	l, err := net.Listen("tcp", "127.0.0.1:0")
	if err != nil {
		panic(err)
	}
	s := &http.Server{Handler: http.HandlerFunc(func(w http.ResponseWriter, r *http.Request) {
		_, _ = io.Copy(io.Discard, io.LimitReader(r.Body, 1<<16))
		_, _ = io.WriteString(w, "c16-web")
	}), ReadHeaderTimeout: 5 * time.Second}
	go func() { _ = s.Serve(l) }()
	return l.Addr().(*net.TCPAddr).Port
}

// proxies of the child's real frpc that give the user-facing listeners something to route to: requests for these names get
// past the "no route" answer (auth checks, host rewrite, the hand-over to a work connection)
func (w *crashWorld) userProxies() []v1.ProxyConfigurer {
	w.webPort = crashWebBackend()
	web := &v1.HTTPProxyConfig{}
	web.Name, web.Type = "c16uweb", "http"
	web.CustomDomains = []string{crashUserWeb}
	web.Locations = []string{"/", "/app"}
	web.HostHeaderRewrite = "backend.c16.test"
	web.LocalIP, web.LocalPort = "127.0.0.1", w.webPort
	web.Complete("")
	webAuth := &v1.HTTPProxyConfig{}
	webAuth.Name, webAuth.Type = "c16uweb-auth", "http"
	webAuth.CustomDomains = []string{"auth." + crashUserWeb, "*.wild." + crashUserWeb}
	webAuth.HTTPUser, webAuth.HTTPPassword = "u", "p"
	webAuth.LocalIP, webAuth.LocalPort = "127.0.0.1", w.webPort
	webAuth.Complete("")
	tl := &v1.HTTPSProxyConfig{}
	tl.Name, tl.Type = "c16utls", "https"
	tl.CustomDomains = []string{crashUserTLS, "*.wild." + crashUserTLS}
	tl.LocalIP, tl.LocalPort = "127.0.0.1", w.echoPort
	tl.Complete("")
	mx := &v1.TCPMuxProxyConfig{}
	mx.Name, mx.Type = "c16umux", "tcpmux"
	mx.Multiplexer = "httpconnect"
	mx.CustomDomains = []string{crashUserMux}
	mx.LocalIP, mx.LocalPort = "127.0.0.1", w.echoPort
	mx.Complete("")
	mxAuth := &v1.TCPMuxProxyConfig{}
	mxAuth.Name, mxAuth.Type = "c16umux-auth", "tcpmux"
	mxAuth.Multiplexer = "httpconnect"
	mxAuth.CustomDomains = []string{"auth." + crashUserMux}
	mxAuth.HTTPUser, mxAuth.HTTPPassword = "u", "p"
	mxAuth.LocalIP, mxAuth.LocalPort = "127.0.0.1", w.echoPort
	mxAuth.Complete("")
	w.udpUserPort = w.allowLo + 4
	ud := &v1.UDPProxyConfig{}
	ud.Name, ud.Type = "c16uudp", "udp"
	ud.LocalIP, ud.LocalPort = "127.0.0.1", w.udpEcho
	ud.RemotePort = w.udpUserPort
	ud.Complete("")
	return []v1.ProxyConfigurer{web, webAuth, tl, mx, mxAuth, ud}
}

// ---------------------------------------------------------------- generators (shared by the parent's Gen and the child's ustorm)

var crashUserAlphabet = []byte{'.', ':', '[', ']', 'a', '0'}

func crashUserShort(r *rand.Rand, maxLen int) string {
	n := r.Intn(maxLen + 1)
	b := make([]byte, n)
	for i := range b {
		b[i] = crashUserAlphabet[r.Intn(len(crashUserAlphabet))]
	}
	return string(b)
}

var crashUserBases = []string{"", ".", "a", "a.b", "a..b", "example.net", crashUserWeb, "auth." + crashUserWeb, "x.wild." + crashUserWeb, crashUserTLS,
	"x.y.wild." + crashUserTLS, crashUserMux, "auth." + crashUserMux, "UWEB.Example.NET", "UMUX.EXAMPLE.net", "*", "*.example.net", "[", "]", "[]", "[::1", "::1]", "[::1]",
	"[::]", "[fe80::1%25eth0]", "::1", "::", "1.2.3.4", "0", "localhost", "c16.test", "x.c16.test", "a b", "a\tb", "%00", "%2e", "a/b", "a@b", "@", "?", "#", "\\"}

var crashUserSuffixes = []string{"", "", ".", "..", ":80", ".:80", "..:80", ":", ".:", ":0", ":65536", ":-1", ":http", ":80:80", ":080", "]:80", ".]", ":80.", " ", "\t"}

// one value of the class "what a user may put where a host name is expected"
func crashUserHost(r *rand.Rand) string {
	switch x := r.Intn(20); {
	case x < 6:
		return crashUserShort(r, 4)
	case x < 15:
		return pick(r, crashUserBases) + pick(r, crashUserSuffixes)
	case x < 16:
		return strings.Repeat("a", 200+r.Intn(6000)) + pick(r, crashUserSuffixes)
	case x < 17:
		return strings.Repeat("a.", 100+r.Intn(3000)) + pick(r, crashUserSuffixes)
	case x < 18:
		return pick(r, []string{"ünï©ødé.example.net", "\xff\xfe", "\x80", "İ.example.net", "K.example.net", "a\x00b", "\x00", "\x7f", "\r", "a\rb", "名前.jp", "xn--", "ß."}) + pick(r, crashUserSuffixes)
	case x < 19:
		return "[" + crashUserShort(r, 4) + "]" + pick(r, crashUserSuffixes)
	default:
		b := make([]byte, 1+r.Intn(12))
		r.Read(b)
		return string(b)
	}
}

// header-safe variant: what can travel inside one request line / header line (no CR / LF)
func crashUserHostLine(r *rand.Rand) string {
	h := crashUserHost(r)
	if r.Intn(8) != 0 {
		h = strings.NewReplacer("\r", "", "\n", "").Replace(h)
	}
	return h
}

func crashUserAuthz(r *rand.Rand) string {
	b64 := base64.StdEncoding.EncodeToString
	return pick(r, []string{"", "Basic", "Basic ", "Basic  ", "basic " + b64([]byte("u:p")), "Basic " + b64([]byte("u:p")), "Basic " + b64([]byte("u:wrong")),
		"Basic " + b64([]byte("nocolon")), "Basic " + b64([]byte(":")), "Basic " + b64([]byte("")), "Basic " + b64([]byte("u:p:q")), "Basic !!!", "Basic =", "Basic ====",
		"Bas", "B", "Bearer x", "BASIC\t" + b64([]byte("u:p")), "Basic " + strings.Repeat("QUFB", 3000), "Basic " + b64([]byte("\xff:\xfe")), "Basic\x00x"})
}

func crashUserHeaders(r *rand.Rand) string {
	var b strings.Builder
	if r.Intn(3) == 0 {
		b.WriteString(pick(r, []string{"Proxy-Authorization", "Authorization", "proxy-authorization"}) + ": " + crashUserAuthz(r) + "\r\n")
	}
	switch r.Intn(30) {
	case 0:
		b.WriteString("X-Big: " + strings.Repeat("A", 4000+r.Intn(5000)) + "\r\n")
	case 1:
		b.WriteString("X-Huge: " + strings.Repeat("B", 1<<20+r.Intn(1<<18)) + "\r\n")
	case 2:
		for i := 0; i < 200+r.Intn(2000); i++ {
			b.WriteString("X-" + strconv.Itoa(i) + ": v\r\n")
		}
	case 3:
		b.WriteString("X-Forwarded-For: " + crashUserHostLine(r) + "\r\nX-Forwarded-Host: " + crashUserHostLine(r) + "\r\nX-Forwarded-Proto: " + crashUserShort(r, 4) + "\r\n")
	case 4:
		b.WriteString(" folded: line\r\n")
	case 5:
		b.WriteString("NoColonHeader\r\n")
	case 6:
		b.WriteString(": empty-name\r\n")
	case 7:
		b.WriteString("Connection: Upgrade\r\nUpgrade: " + pick(r, []string{"websocket", "h2c", "", "x"}) + "\r\nHTTP2-Settings: " + pick(r, []string{"", "AAMAAABkAARAAAAAAAIAAAAA", "!!!"}) + "\r\nSec-WebSocket-Key: x\r\n")
	case 8:
		b.WriteString("Transfer-Encoding: " + pick(r, []string{"chunked", "chunked, chunked", "gzip", "", "chunked\r\nContent-Length: 5"}) + "\r\n")
	case 9:
		b.WriteString("Content-Length: " + pick(r, []string{"-1", "0", "5", "99999999999999999999", "5, 6", "x", "+5"}) + "\r\n")
	case 10:
		b.WriteString("Expect: 100-continue\r\nContent-Length: 10\r\n")
	}
	return b.String()
}

func crashUserBody(r *rand.Rand) string {
	return pick(r, []string{"", "", "hello", "5\r\nhello\r\n0\r\n\r\n", "zz\r\nhello\r\n", "-1\r\n", "ffffffffffffffffff\r\nx", "5\r\nhel", "5;ext=" + strings.Repeat("e", 5000) + "\r\nhello\r\n0\r\n\r\n",
		"0\r\nTrailer: x\r\n\r\n", "5\nhello\n0\n\n", "00000000000000000005\r\nhello\r\n0\r\n\r\n"})
}

func crashUserMangle(r *rand.Rand, s string) string {
	switch r.Intn(28) {
	case 0:
		return s[:r.Intn(len(s)+1)] // truncated anywhere
	case 1:
		return strings.ReplaceAll(s, "\r\n", "\n")
	case 2:
		return strings.ReplaceAll(s, "\r\n", "\r")
	case 3:
		b := []byte(s)
		for i := 0; i < 1+r.Intn(4) && len(b) > 0; i++ {
			b[r.Intn(len(b))] = byte(r.Intn(256))
		}
		return string(b)
	case 4:
		return "\r\n\r\n" + s
	case 5:
		return s + s // pipelined
	}
	return s
}

// a request for the tcpmux CONNECT port
func crashUserMuxReq(r *rand.Rand) []byte {
	a := crashUserHostLine(r)
	h := a
	if r.Intn(4) == 0 {
		h = crashUserHostLine(r)
	}
	line := "CONNECT " + a + " HTTP/1.1\r\n"
	switch r.Intn(36) {
	case 0:
		line = "CONNECT / HTTP/1.1\r\n" // no authority: the Host header decides
	case 1:
		line = "CONNECT  HTTP/1.1\r\n"
	case 2:
		line = "CONNECT " + a + "\r\n"
	case 3:
		line = "CONNECT " + a + " HTTP/" + pick(r, []string{"1.0", "2.0", "9.9", "1.1.1", "x", ""}) + "\r\n"
	case 4:
		line = pick(r, []string{"GET", "connect", "POST", "PRI", "", "CONNECTX", "CONNECT\t"}) + " " + a + " HTTP/1.1\r\n"
	case 5:
		line = "CONNECT http://" + a + "/ HTTP/1.1\r\n"
	case 6:
		line = "CONNECT " + a + " " + a + " HTTP/1.1\r\n"
	case 7:
		line = "CONNECT * HTTP/1.1\r\n"
	case 8:
		line = "CONNECT " + a + "/path?q#f HTTP/1.1\r\n"
	}
	host := "Host: " + h + "\r\n"
	switch r.Intn(10) {
	case 0:
		host = ""
	case 1:
		host = "Host: " + h + "\r\nHost: " + crashUserHostLine(r) + "\r\n"
	case 2:
		host = "Host:\r\n"
	}
	return []byte(crashUserMangle(r, line+host+crashUserHeaders(r)+"\r\n"+pick(r, []string{"", "", "payload-after-connect"})))
}

// a request for the vhost http port
func crashUserHTTPReq(r *rand.Rand) []byte {
	h := crashUserHostLine(r)
	if r.Intn(3) == 0 { // mostly-valid: a routed name, spelled somehow
		h = pick(r, []string{crashUserWeb, "auth." + crashUserWeb, "a.wild." + crashUserWeb, strings.ToUpper(crashUserWeb)}) + pick(r, []string{"", ".", ":80", ".:80", ":" + strconv.Itoa(r.Intn(70000))})
	}
	if r.Intn(30) == 0 { // h2c with prior knowledge
		b := []byte("PRI * HTTP/2.0\r\n\r\nSM\r\n\r\n")
		b = append(b, 0, 0, 0, 4, 0, 0, 0, 0, 0) // empty SETTINGS
		if r.Intn(2) == 0 {
			g := make([]byte, 9+r.Intn(64))
			r.Read(g)
			g[0], g[1] = 0, 0
			g[2] = byte(len(g) - 9)
			b = append(b, g...)
		}
		return b
	}
	path := pick(r, []string{"/", "/app", "/app/x", "/APP", "//", "/%", "/%zz", "/..%2f", "/a b", "/" + strings.Repeat("p", 9000), "", "?", "/?" + strings.Repeat("q=1&", 2000)})
	target := path
	switch r.Intn(12) {
	case 0:
		target = "http://" + h + path // absolute-form: a proxy request
	case 1:
		target = "http://" + crashUserHostLine(r) + path
	case 2:
		target = "*"
	case 3:
		target = h // authority-form
	case 4:
		target = "https://" + h + path
	case 5:
		target = "//" + h + path
	}
	method := pick(r, []string{"GET", "GET", "GET", "POST", "HEAD", "OPTIONS", "CONNECT", "PUT", "get", "", "PRI", "M-SEARCH", strings.Repeat("M", 300)})
	line := method + " " + target + " HTTP/" + pick(r, []string{"1.1", "1.1", "1.1", "1.0", "2.0", "0.9", "x"}) + "\r\n"
	if r.Intn(20) == 0 {
		line = method + " " + target + "\r\n" // HTTP/0.9 style
	}
	host := "Host: " + h + "\r\n"
	switch r.Intn(10) {
	case 0:
		host = ""
	case 1:
		host = "Host: " + h + "\r\nHost: " + crashUserHostLine(r) + "\r\n"
	}
	return []byte(crashUserMangle(r, line+host+crashUserHeaders(r)+"\r\n"+crashUserBody(r)))
}

// a TLS ClientHello built by hand: any bytes as server name
func crashClientHello(r *rand.Rand, sni []byte, withSNI bool) []byte {
	var ext bytes.Buffer
	put16 := func(b *bytes.Buffer, v int) { _ = binary.Write(b, binary.BigEndian, uint16(v)) }
	if withSNI {
		put16(&ext, 0)          // server_name
		put16(&ext, len(sni)+5) // extension length
		put16(&ext, len(sni)+3) // list length
		ext.WriteByte(0)        // host_name
		put16(&ext, len(sni))
		ext.Write(sni)
	}
	ext.Write([]byte{0, 0x0a, 0, 4, 0, 2, 0, 0x1d})                   // supported_groups: x25519
	ext.Write([]byte{0, 0x0b, 0, 2, 1, 0})                            // ec_point_formats
	ext.Write([]byte{0, 0x0d, 0, 8, 0, 6, 4, 3, 8, 4, 4, 1})          // signature_algorithms
	ext.Write([]byte{0, 0x10, 0, 0x0b, 0, 9, 8, 'h', 't', 't', 'p', '/', '1', '.', '1'}) // ALPN
	var body bytes.Buffer
	body.Write([]byte{3, 3})
	rnd := make([]byte, 32)
	r.Read(rnd)
	body.Write(rnd)
	body.WriteByte(0)                                       // session id
	body.Write([]byte{0, 6, 0xc0, 0x2f, 0xc0, 0x2b, 0, 0x9c}) // cipher suites
	body.Write([]byte{1, 0})                                // compression
	put16(&body, ext.Len())
	body.Write(ext.Bytes())
	var hs bytes.Buffer
	hs.WriteByte(1)
	hs.Write([]byte{byte(body.Len() >> 16), byte(body.Len() >> 8), byte(body.Len())})
	hs.Write(body.Bytes())
	var rec bytes.Buffer
	rec.Write([]byte{0x16, 3, 1})
	put16(&rec, hs.Len())
	rec.Write(hs.Bytes())
	return rec.Bytes()
}

func crashUserTLSReq(r *rand.Rand) []byte {
	name := crashUserHost(r)
	if r.Intn(3) == 0 {
		name = pick(r, []string{crashUserTLS, "a.wild." + crashUserTLS, strings.ToUpper(crashUserTLS), crashUserTLS + "."})
	}
	if len(name) > 60000 {
		name = name[:60000]
	}
	b := crashClientHello(r, []byte(name), r.Intn(12) != 0)
	switch r.Intn(12) {
	case 0:
		b = b[:r.Intn(len(b)+1)]
	case 1: // a length field (record, handshake, session id, suites, extensions, sni) off by a little or a lot
		offs := []int{3, 4, 6, 7, 8, 43, 44, 45, 52, 53, 54, 55, 56, 57, 58, 59, 60, 61, 62}
		o := offs[r.Intn(len(offs))]
		if o < len(b) {
			b[o] = byte(int(b[o]) + []int{1, -1, 128, 255, -int(b[o])}[r.Intn(5)])
		}
	case 2:
		for i := 0; i < 1+r.Intn(6); i++ {
			b[r.Intn(len(b))] = byte(r.Intn(256))
		}
	case 3:
		g := make([]byte, r.Intn(300))
		r.Read(g)
		b = append(b, g...)
	case 4:
		b = append([]byte{0x16, 3, 1, 0, 0}, b...) // an empty handshake record first
	case 5:
		b = []byte{0x80, 0x2e, 1, 0, 2, 0, 0x15, 0, 0, 0, 0x10, 0, 0, 0x2f} // SSLv2-style hello
	case 6:
		b = []byte("GET / HTTP/1.1\r\nHost: " + crashUserTLS + "\r\n\r\n") // plain http on the https port
	case 7:
		b = append(b[:5:5], b[5:min(len(b), 5+r.Intn(40))]...) // the record says more than what follows
	}
	return b
}

func crashUserRaw(r *rand.Rand) []byte {
	n := []int{0, 1, 7, 64, 1500, 9000, 65507}[r.Intn(7)]
	b := make([]byte, n)
	r.Read(b)
	return b
}

func crashUserReq(r *rand.Rand, lst string) []byte {
	switch lst {
	case "mux":
		return crashUserMuxReq(r)
	case "http":
		return crashUserHTTPReq(r)
	case "https":
		return crashUserTLSReq(r)
	}
	return crashUserRaw(r)
}

// for op lines: what fits a line of the trace comfortably (the big ones travel inside ustorm)
func crashUserReqCapped(r *rand.Rand, lst string) []byte {
	for {
		if b := crashUserReq(r, lst); len(b) <= 12000 {
			return b
		}
	}
}

var crashUserListeners = []string{"mux", "http", "https", "tcp", "udp"}

// ---------------------------------------------------------------- child: ureq / ustorm / canon

func (w *crashWorld) userPort(lst string) int {
	switch lst {
	case "mux":
		return w.muxPort
	case "http":
		return w.vhostPort
	case "https":
		return w.httpsPort
	case "tcp":
		return w.watchPort
	case "udp":
		return w.udpUserPort
	}
	return 0
}

func crashUserClass(got []byte, sent []byte, timedOut bool) string {
	switch {
	case len(got) >= 12 && bytes.HasPrefix(got, []byte("HTTP/")):
		return "r:" + strings.TrimSpace(string(got[9:12]))
	case len(got) > 0 && (got[0] == 0x15 || got[0] == 0x16):
		return "r:tls"
	case len(got) > 0 && bytes.HasPrefix(sent, got[:min(len(got), len(sent))]) && len(sent) > 0:
		return "r:echo"
	case len(got) > 0:
		return "r:data"
	case timedOut:
		return "r:silent"
	}
	return "r:closed"
}

// one user: connect, send, FIN, read what comes back for at most d
func (w *crashWorld) userSend(lst string, payload []byte, d time.Duration) string {
	port := w.userPort(lst)
	if port == 0 {
		return "r:nolistener"
	}
	crashCount("userReq")
	if lst == "udp" {
		c, err := net.Dial("udp", "127.0.0.1:"+strconv.Itoa(port))
		if err != nil {
			return "r:dial"
		}
		defer c.Close()
		_, _ = c.Write(payload)
		_ = c.SetReadDeadline(time.Now().Add(min(d, 150*time.Millisecond)))
		buf := make([]byte, 65536)
		n, err := c.Read(buf)
		if err == nil {
			crashCount("userAnswered")
		}
		return crashUserClass(buf[:n], payload, err != nil)
	}
	c, err := net.DialTimeout("tcp", "127.0.0.1:"+strconv.Itoa(port), 2*time.Second)
	if err != nil {
		return "r:dial"
	}
	defer c.Close()
	_ = c.SetDeadline(time.Now().Add(d))
	wrote := make(chan struct{})
	go func() {
		_, _ = c.Write(payload)
		close(wrote)
	}()
	// frp's joins and net/http take a FIN from the user as "gone": give a complete request 40 ms to be answered, then FIN (what
	// an incomplete request waits for), then read to the end
	var got []byte
	timedOut := false
	buf := make([]byte, 1<<14)
	fin := false
	for len(got) < 1<<16 {
		if !fin {
			_ = c.SetReadDeadline(time.Now().Add(40 * time.Millisecond))
		}
		n, err := c.Read(buf)
		got = append(got, buf[:n]...)
		if err == nil {
			continue
		}
		if ne, ok := err.(net.Error); ok && ne.Timeout() {
			if fin {
				timedOut = true
				break
			}
			fin = true
			select {
			case <-wrote:
			case <-time.After(d):
			}
			_ = c.(*net.TCPConn).CloseWrite()
			_ = c.SetReadDeadline(time.Now().Add(d))
			continue
		}
		break
	}
	if len(got) > 0 {
		crashCount("userAnswered")
	}
	return crashUserClass(got, payload, timedOut)
}

func (w *crashWorld) ustorm(seed int64, nconn, nreq int) {
	var wg sync.WaitGroup
	for i := 0; i < nconn; i++ {
		wg.Add(1)
		go func(i int) {
			defer wg.Done()
			r := rand.New(rand.NewSource(seed*1009 + int64(i)))
			for k := 0; k < nreq; k++ {
				lst := crashUserListeners[r.Intn(len(crashUserListeners))]
				if r.Intn(2) == 0 {
					lst = "mux" // the only one of them whose parser runs in a bare goroutine
				}
				w.userSend(lst, crashUserReq(r, lst), 250*time.Millisecond)
			}
		}(i)
	}
	wg.Wait()
}

func crashCanon(host string) string {
	h, err := httppkg.CanonicalHost(host) // no recover: an index out of range ends the child
	if err != nil {
		return "err"
	}
	return hx(h)
}

// ---------------------------------------------------------------- child: ptear

var crashPlugins = []string{"http2http", "http2https", "https2http", "https2https", "http_proxy", "static_file"}
var crashHolds = []string{"slow", "noread", "body"}

const crashPtProxy = "c16pt"

type crashPtFix struct {
	l       net.Listener
	mux     bool
	mu      sync.Mutex
	ctl     net.Conn                  // the current control connection (a yamux stream with mux)
	ctlW    func(m msg.Message) error // writes on it
	logins  chan struct{}
	regd    chan struct{}
	work    chan net.Conn
	entered chan struct{} // the backend was reached by a held request
	release chan struct{}
	conns   []io.Closer
}

func (fx *crashPtFix) keep(c io.Closer) {
	fx.mu.Lock()
	fx.conns = append(fx.conns, c)
	fx.mu.Unlock()
}

func (fx *crashPtFix) handle(c net.Conn) {
	_ = c.SetReadDeadline(time.Now().Add(5 * time.Second))
	m, err := msg.ReadMsg(c)
	if err != nil {
		c.Close()
		return
	}
	_ = c.SetReadDeadline(time.Time{})
	switch m.(type) {
	case *msg.Login:
		_ = msg.WriteMsg(c, &msg.LoginResp{Version: version.Full(), RunID: "pt"})
		rw, err := netpkg.NewCryptoReadWriter(c, []byte(crashToken))
		if err != nil {
			c.Close()
			return
		}
		var wmu sync.Mutex
		wr := func(m msg.Message) error {
			wmu.Lock()
			defer wmu.Unlock()
			_ = c.SetWriteDeadline(time.Now().Add(crashWait))
			return msg.WriteMsg(rw, m)
		}
		fx.mu.Lock()
		fx.ctl, fx.ctlW = c, wr
		fx.mu.Unlock()
		select {
		case fx.logins <- struct{}{}:
		default:
		}
		for {
			cm, err := msg.ReadMsg(rw)
			if err != nil {
				c.Close()
				return
			}
			switch x := cm.(type) {
			case *msg.NewProxy:
				_ = wr(&msg.NewProxyResp{ProxyName: x.ProxyName, RemoteAddr: ":1"})
				select {
				case fx.regd <- struct{}{}:
				default:
				}
			case *msg.Ping:
				_ = wr(&msg.Pong{})
			}
		}
	case *msg.NewWorkConn:
		select {
		case fx.work <- c:
		default:
			c.Close()
		}
	default:
		c.Close()
	}
}

func (fx *crashPtFix) serve() {
	for {
		c, err := fx.l.Accept()
		if err != nil {
			return
		}
		fx.keep(c)
		if !fx.mux {
			go fx.handle(c)
			continue
		}
		go func(c net.Conn) {
			cfg := fmux.DefaultConfig()
			cfg.LogOutput = io.Discard
			cfg.MaxStreamWindowSize = 6 * 1024 * 1024
			sess, err := fmux.Server(c, cfg)
			if err != nil {
				c.Close()
				return
			}
			for {
				s, err := sess.AcceptStream()
				if err != nil {
					return
				}
				go fx.handle(s)
			}
		}(c)
	}
}

// a work connection handed to the proxy
func (fx *crashPtFix) workConn() (net.Conn, string) {
	fx.mu.Lock()
	wr := fx.ctlW
	fx.mu.Unlock()
	if wr == nil || wr(&msg.ReqWorkConn{}) != nil {
		return nil, "noctl"
	}
	select {
	case c := <-fx.work:
		_ = c.SetDeadline(time.Now().Add(crashWait))
		if err := msg.WriteMsg(c, &msg.StartWorkConn{ProxyName: crashPtProxy}); err != nil {
			c.Close()
			return nil, "closed"
		}
		return c, ""
	case <-time.After(crashWait):
		return nil, "nowork"
	}
}

// the user's side of a work connection: plain, or TLS for the https2* plugins
func crashPtUser(plugin string, c net.Conn) (net.Conn, error) {
	if !strings.HasPrefix(plugin, "https2") {
		return c, nil
	}
	tc := tls.Client(c, &tls.Config{InsecureSkipVerify: true, ServerName: "c16.test", NextProtos: []string{"http/1.1"}})
	if err := tc.Handshake(); err != nil {
		return nil, err
	}
	return tc, nil
}

func crashPtRequest(plugin, method, path, backend, extra string) string {
	target := path
	if plugin == "http_proxy" {
		target = "http://" + backend + path
	}
	return method + " " + target + " HTTP/1.1\r\nHost: c16.test\r\n" + extra + "\r\n"
}

// one complete request through a fresh work connection: the status line
func (fx *crashPtFix) roundTrip(plugin, path, backend string) string {
	c, why := fx.workConn()
	if c == nil {
		return why
	}
	defer c.Close()
	u, err := crashPtUser(plugin, c)
	if err != nil {
		return "tls"
	}
	if _, err := io.WriteString(u, crashPtRequest(plugin, "GET", path, backend, "Connection: close\r\n")); err != nil {
		return "closed"
	}
	buf := make([]byte, 12)
	if _, err := io.ReadFull(u, buf); err != nil {
		return "noanswer"
	}
	return string(buf[9:12])
}

func (w *crashWorld) ptear(plugin string, mux bool, hold string, nreq int) string {
	if plugin == "static_file" {
		hold = "noread" // no backend to be slow, GET only
	}
	fx := &crashPtFix{mux: mux, logins: make(chan struct{}, 8), regd: make(chan struct{}, 8), work: make(chan net.Conn, 16),
		entered: make(chan struct{}, 16), release: make(chan struct{})}
	l, err := net.Listen("tcp", "127.0.0.1:0")
	if err != nil {
		return "listenerr"
	}
	fx.l = l
	go fx.serve()

	// the local service behind the plugin
	h := http.HandlerFunc(func(rw http.ResponseWriter, r *http.Request) {
		switch r.URL.Path {
		case "/slow":
			fx.entered <- struct{}{}
			select {
			case <-fx.release:
			case <-r.Context().Done():
			}
		case "/big.bin":
			chunk := make([]byte, 1<<16)
			for i := 0; i < 1024; i++ {
				if _, err := rw.Write(chunk); err != nil {
					return
				}
			}
		case "/body":
			fx.entered <- struct{}{}
			_, _ = io.Copy(io.Discard, r.Body)
		default:
			_, _ = io.WriteString(rw, "c16-ok")
		}
	})
	var ts *httptest.Server
	dir := ""
	backend := ""
	var popts v1.ClientPluginOptions
	switch plugin {
	case "http2http":
		ts = httptest.NewServer(h)
		backend = ts.Listener.Addr().String()
		popts = &v1.HTTP2HTTPPluginOptions{Type: plugin, LocalAddr: backend}
	case "http2https":
		ts = httptest.NewTLSServer(h)
		backend = ts.Listener.Addr().String()
		popts = &v1.HTTP2HTTPSPluginOptions{Type: plugin, LocalAddr: backend}
	case "https2http":
		ts = httptest.NewServer(h)
		backend = ts.Listener.Addr().String()
		o := &v1.HTTPS2HTTPPluginOptions{Type: plugin, LocalAddr: backend}
		o.Complete()
		popts = o
	case "https2https":
		ts = httptest.NewTLSServer(h)
		backend = ts.Listener.Addr().String()
		o := &v1.HTTPS2HTTPSPluginOptions{Type: plugin, LocalAddr: backend}
		o.Complete()
		popts = o
	case "http_proxy":
		ts = httptest.NewServer(h)
		backend = ts.Listener.Addr().String()
		popts = &v1.HTTPProxyPluginOptions{Type: plugin}
	case "static_file":
		dir, err = os.MkdirTemp("", "c16pt")
		if err != nil {
			l.Close()
			return "tmperr"
		}
		_ = os.WriteFile(filepath.Join(dir, "ok"), []byte("c16-ok"), 0o644)
		if f, err := os.Create(filepath.Join(dir, "big.bin")); err == nil {
			_ = f.Truncate(64 << 20)
			f.Close()
		}
		popts = &v1.StaticFilePluginOptions{Type: plugin, LocalPath: dir}
	default:
		l.Close()
		return "badplugin"
	}

	ccfg := &v1.ClientCommonConfig{}
	ccfg.ServerAddr, ccfg.ServerPort = "127.0.0.1", l.Addr().(*net.TCPAddr).Port
	ccfg.Auth.Method = v1.AuthMethodToken
	ccfg.Auth.Token = crashToken
	ccfg.Transport.TLS.Enable = lo.ToPtr(false)
	ccfg.Transport.TCPMux = lo.ToPtr(mux)
	ccfg.Transport.PoolCount = 0
	ccfg.LoginFailExit = lo.ToPtr(false)
	ccfg.Complete()
	ccfg.Transport.ProxyURL = ""
	tcp := &v1.TCPProxyConfig{}
	tcp.Name, tcp.Type = crashPtProxy, "tcp"
	tcp.RemotePort = 1
	tcp.Plugin = v1.TypedClientPluginOptions{Type: plugin, ClientPluginOptions: popts}
	tcp.Complete("")
	cli, err := client.NewService(client.ServiceOptions{Common: ccfg, ProxyCfgs: []v1.ProxyConfigurer{tcp}})
	ctx, cancel := context.WithCancel(context.Background())
	defer func() {
		// nothing of this op may outlive it — and nothing here may block the op: the teardown of a wedged frpc would
		cancel()
		close(fx.release)
		l.Close()
		fx.mu.Lock()
		cs := fx.conns
		fx.mu.Unlock()
		for _, c := range cs {
			c.Close()
		}
		go func() {
			if cli != nil {
				cli.Close()
			}
			if ts != nil {
				ts.CloseClientConnections()
				ts.Close()
			}
			if dir != "" {
				_ = os.RemoveAll(dir)
			}
		}()
	}()
	if err != nil {
		return "clienterr"
	}
	go func() { _ = cli.Run(ctx) }()
	select {
	case <-fx.regd:
	case <-time.After(10 * time.Second):
		return "noregister"
	}
	okPath := "/ok"
	warm := ""
	for i := 0; i < 40; i++ { // the proxy is `running` only after frpc handled the NewProxyResp
		if warm = fx.roundTrip(plugin, okPath, backend); warm == "200" {
			break
		}
		time.Sleep(50 * time.Millisecond)
	}
	if warm != "200" {
		return "notwarm-" + warm
	}

	// the held requests
	for i := 0; i < nreq; i++ {
		c, why := fx.workConn()
		if c == nil {
			return "hold-" + why
		}
		fx.keep(c)
		_ = c.SetDeadline(time.Now().Add(crashWait))
		u, err := crashPtUser(plugin, c)
		if err != nil {
			return "hold-tls"
		}
		switch hold {
		case "slow":
			_, _ = io.WriteString(u, crashPtRequest(plugin, "GET", "/slow", backend, ""))
		case "body":
			_, _ = io.WriteString(u, crashPtRequest(plugin, "POST", "/body", backend, "Content-Length: 1000000\r\n")+"0123456789")
		default:
			_, _ = io.WriteString(u, crashPtRequest(plugin, "GET", "/big.bin", backend, ""))
		}
		if hold == "noread" {
			buf := make([]byte, 12) // the response has started; from here on the user does not read
			if _, err := io.ReadFull(u, buf); err != nil || string(buf[9:12]) != "200" {
				return "hold-noanswer"
			}
		} else {
			select {
			case <-fx.entered:
			case <-time.After(crashWait):
				return "hold-notentered"
			}
		}
		_ = c.SetDeadline(time.Time{})
	}
	if hold == "noread" {
		time.Sleep(20 * time.Millisecond) // let the writer run into the full buffers
	}
	for len(fx.logins) > 0 {
		<-fx.logins
	}
	for len(fx.regd) > 0 {
		<-fx.regd
	}

	// the cut
	fx.mu.Lock()
	ctl := fx.ctl
	fx.ctlW = nil
	fx.mu.Unlock()
	ctl.Close()
	crashCount("ptearCut")
	select {
	case <-fx.logins:
	case <-time.After(crashWait + time.Second):
		return "fail:ptear-nologin"
	}
	select {
	case <-fx.regd:
	case <-time.After(crashWait):
		return "fail:ptear-noregister"
	}
	again := ""
	for i := 0; i < 40; i++ {
		if again = fx.roundTrip(plugin, okPath, backend); again == "200" {
			break
		}
		time.Sleep(50 * time.Millisecond)
	}
	if again != "200" {
		return "fail:ptear-noserve-" + again
	}
	crashCount("ptearOK")
	return "done"
}

// ---------------------------------------------------------------- generator part

func crashGenUser(rng *rand.Rand, emit func(string)) {
	// every string of length <= 2 over the special alphabet …
	var shorts []string
	shorts = append(shorts, "")
	for _, a := range crashUserAlphabet {
		shorts = append(shorts, string([]byte{a}))
		for _, b := range crashUserAlphabet {
			shorts = append(shorts, string([]byte{a, b}))
		}
	}
	// … as the authority of a well-formed CONNECT on the tcpmux port (whose parser runs in a bare goroutine), with or without a port …
	for _, s := range shorts {
		a := s + pick(rng, []string{"", ":80"})
		emit("ureq mux " + hx("CONNECT "+a+" HTTP/1.1\r\nHost: "+a+"\r\n\r\n"))
	}
	// … and through the pure function, together with a sample of the whole class
	for _, s := range shorts {
		emit("canon " + hx(s))
	}
	for i := 0; i < 70; i++ {
		emit("canon " + hx(crashUserHost(rng)))
	}
	for _, lst := range crashUserListeners {
		k := 8
		if lst == "mux" || lst == "http" {
			k = 25
		}
		for i := 0; i < k; i++ {
			emit("ureq " + lst + " " + hx(string(crashUserReqCapped(rng, lst))))
		}
	}
	emit(fmt.Sprintf("ustorm %d 8 12", rng.Intn(1<<20)))
	emit("stat")
	emit("watch")
}

func crashGenPtear(rng *rand.Rand, emit func(string)) {
	for _, p := range crashPlugins {
		emit(fmt.Sprintf("ptear %s 0 %s %d", p, pick(rng, crashHolds), 1+rng.Intn(2)))
	}
	for _, i := range rng.Perm(len(crashPlugins))[:2] {
		emit(fmt.Sprintf("ptear %s 1 %s %d", crashPlugins[i], pick(rng, crashHolds), 1+rng.Intn(2)))
	}
}

// ---------------------------------------------------------------- a join racing the last leave, FREE (no gate), many rounds

// op gchurn <cid> <kind> <rounds>: two sessions take turns being the only member of one tcp / tcpmux / http group; every round
// the member's leave (CloseProxy) and the other session's join (NewProxy) are written back to back, in alternating order, so
// that the controller's leave path and join path run into each other at every offset (the gates of `gleave` park the JOIN
// only; nothing parks a leave).  Every join must be answered within 2 s, both sessions must answer a Ping at the end.
func (w *crashWorld) gchurn(cid, kind string, rounds int) string {
	key := w.gateKey("ch")
	if w.login(cid+"A", 1, true, 0) != "ok" || w.login(cid+"B", 1, true, 0) != "ok" {
		return "nologin"
	}
	defer func() {
		w.drop(cid + "A")
		w.drop(cid + "B")
	}()
	pcs := []*crashConn{w.get(cid + "A"), w.get(cid + "B")}
	names := []string{"A-" + key, "B-" + key}
	group := "gch-" + key
	mk := func(name string) *msg.NewProxy {
		np := &msg.NewProxy{ProxyName: name, Group: group, GroupKey: "k"}
		switch kind {
		case "tcp":
			np.ProxyType, np.RemotePort = "tcp", w.allowLo+6
		case "tcpmux":
			np.ProxyType, np.Multiplexer, np.CustomDomains = "tcpmux", "httpconnect", []string{key + ".c16g.test"}
		default:
			np.ProxyType, np.CustomDomains = "http", []string{key + ".c16g.test"}
		}
		return np
	}
	// the answer to a join that was sent already; a refused join (the port / route of the leaving member is still being
	// released) is sent again
	join := func(i int, sent bool) string {
		for joinBy := time.Now().Add(3 * time.Second); !time.Now().After(joinBy); {
			if !sent {
				if w.ctlSend(pcs[i], mk(names[i])) != nil {
					return "nologin"
				}
			}
			sent = false
			deadline := time.After(crashWait)
			var resp *msg.NewProxyResp
			for resp == nil {
				select {
				case x := <-pcs[i].proxyResp:
					if x.ProxyName == names[i] {
						resp = x
					}
				case <-deadline:
					return "fail:gchurn-join-unanswered"
				}
			}
			if resp.Error == "" {
				return ""
			}
			time.Sleep(2 * time.Millisecond)
		}
		return "refused"
	}
	if why := join(0, false); why != "" {
		return why
	}
	in, out := 1, 0
	for r := 0; r < rounds; r++ {
		leave := &msg.CloseProxy{ProxyName: names[out]}
		var e1, e2 error
		if r%2 == 0 {
			e1 = w.ctlSend(pcs[out], leave)
			e2 = w.ctlSend(pcs[in], mk(names[in]))
		} else {
			e2 = w.ctlSend(pcs[in], mk(names[in]))
			e1 = w.ctlSend(pcs[out], leave)
		}
		if e1 != nil || e2 != nil {
			return "nologin"
		}
		if why := join(in, true); why != "" {
			return why
		}
		in, out = out, in
	}
	crashCount("gchurnRounds")
	if !w.pingPong(pcs[0], crashWait) || !w.pingPong(pcs[1], crashWait) {
		return "fail:gchurn-stalled"
	}
	_ = w.ctlSend(pcs[out], &msg.CloseProxy{ProxyName: names[out]})
	if !w.pingPong(pcs[out], crashWait) {
		return "fail:gchurn-stalled"
	}
	return "done"
}
