package main

import (
	"fmt"
	"net"
	"runtime"
	"sort"
	"strings"
	"time"

	"github.com/fatedier/frp/client/proxy"
	"github.com/fatedier/frp/pkg/msg"
)

// Op `race` of engine "client": two operations on the real proxy.Manager / Wrappers overlapping in
// time, at the one point the harness controls without touching frp: the hand-over of a message to
// the MessageTransporter (`pw.handler` → Manager.HandleEvent → transporter.Send).
//
//	race N|C[<name>] <op A> / <op B>
//
// Op A (tick | hup | hdown | resp | upd) is started alone with the transporter gate armed for the
// first NewProxy (N) or CloseProxy (C) — of the named proxy, if a name is given.  If some goroutine of A — the wrapper's worker inside its
// loop iteration, SetRunningStatus, or Stop called by UpdateAll — reaches Send with such a message,
// it is held there, i.e. AFTER the code decided to send and BEFORE the message is on the wire.
// Then op B (upd | close | tick | hup | hdown | resp | work) runs on another goroutine until it has
// finished or is blocked (goroutine state from runtime.Stack: waiting for a mutex / channel), the
// held message is released and everything runs to quiescence.  The result is the wire order per
// proxy name (held message marked `*`), both results, the final phase of the wrapper whose message
// was held and the status table.  Whatever B needs a lock the holder owns is serialised after it,
// so on a correct implementation the result is that of "A, then B" (Lean: C19.conc_refines).
// If A sends no such message the op degenerates to A followed by B.

type clientSnap map[string]*proxy.Wrapper

// snapshot: name → wrapper object, taking only the manager's lock (never a wrapper's).
func (s *clientState) snapshot() clientSnap {
	m := clientSnap{}
	for n := range s.names {
		if pw, ok := s.pm.VerifWrapper(n); ok {
			m[n] = pw
		}
	}
	return m
}

func (m clientSnap) has(pw *proxy.Wrapper) bool {
	for _, x := range m {
		if x == pw {
			return true
		}
	}
	return false
}

// minus: the wrapper objects of a that are no longer in b, sorted by name.
func (a clientSnap) minus(b clientSnap) []*proxy.Wrapper {
	var out []*proxy.Wrapper
	for _, pw := range a {
		if !b.has(pw) {
			out = append(out, pw)
		}
	}
	sort.Slice(out, func(i, j int) bool { return out[i].Name < out[j].Name })
	return out
}

// clientGoroutines scans all goroutine stacks: wrapper workers parked in their select, wrapper
// workers in any other state, and the state of the goroutine running clientRaceB ("" if none).
func clientGoroutines() (sel, busy int, bState string) {
	buf := make([]byte, 1<<20)
	n := runtime.Stack(buf, true)
	for n == len(buf) {
		buf = make([]byte, 2*len(buf))
		n = runtime.Stack(buf, true)
	}
	for _, g := range strings.Split(string(buf[:n]), "\n\n") {
		i, j := strings.Index(g, "["), strings.Index(g, "]")
		if i < 0 || j < i {
			continue
		}
		state := g[i+1 : j]
		if k := strings.Index(state, ","); k >= 0 {
			state = state[:k]
		}
		if strings.Contains(g, "main.clientRaceB(") {
			bState = state
		}
		if strings.Contains(g, "proxy.(*Wrapper).checkWorker(") {
			if state == "select" {
				sel++
			} else {
				busy++
			}
		}
	}
	return
}

func clientRaceNow(tok []string) int64 {
	switch tok[0] {
	case "upd":
		return int64(atoi(tok[1]))
	case "tick", "hup", "hdown", "resp":
		return int64(atoi(tok[2]))
	}
	return 0
}

// raceRun performs one operation WITHOUT waiting for quiescence and without collecting events
// (every lookup happens here, on the calling goroutine, so that it blocks where production code
// would block).
func (s *clientState) raceRun(tok []string) (res string) {
	defer func() {
		if r := recover(); r != nil {
			res = "PANIC:" + hx(fmt.Sprint(r))
		}
	}()
	switch tok[0] {
	case "upd":
		cfgs, err := s.loadCfgs(tok[3:])
		if err != nil {
			return "loaderr;" + hx(err.Error())
		}
		if !s.keepTimings {
			proxy.VerifSetTimings(hour, hour, hour)
		}
		s.tr.configured(tok[3:])
		s.pm.UpdateAll(cfgs)
		return "-"
	case "close":
		s.pm.Close()
		return "-"
	case "tick", "hup", "hdown":
		pw, ok := s.pm.VerifWrapper("p" + tok[1])
		if !ok {
			return "none"
		}
		if tok[0] != "tick" && !pw.VerifHasMonitor() {
			return "nohealth"
		}
		s.setFlags(pw, int64(atoi(tok[2])))
		switch tok[0] {
		case "tick":
			if !pw.VerifKick() {
				return "stopped"
			}
		case "hup":
			pw.VerifHealth(true)
		case "hdown":
			pw.VerifHealth(false)
		}
		return "-"
	case "resp":
		pw, found := s.pm.VerifWrapper("p" + tok[1])
		e := ""
		if tok[3] == "err" {
			e = "E"
		}
		cl := respClass(s.pm.StartProxy("p"+tok[1], "remote:1", e))
		if found && (cl == "resperr" || cl == "runerr") {
			s.lastErr[pw] = int64(atoi(tok[2]))
		}
		return cl
	case "work":
		return s.workConn(func(c net.Conn, m *msg.StartWorkConn) {
			m.ProxyName = "p" + tok[1]
			s.pm.HandleWorkConn("p"+tok[1], c, m)
		})
	}
	return "badop"
}

//go:noinline
func clientRaceB(s *clientState, tok []string, pre func(), done chan<- string) {
	if pre != nil {
		pre()
	}
	done <- s.raceRun(tok)
}

// noteRace keeps the virtual clock of the registrations: every NewProxy in ev[from:] was sent at `now`
// by the wrapper that snap has under its name (the held one by aw).
func (s *clientState) noteRace(ev []string, from int, now int64, snap clientSnap, aw *proxy.Wrapper) {
	for i := from; i < len(ev); i++ {
		e := ev[i]
		if e[0] != 'N' {
			continue
		}
		if strings.HasSuffix(e, "*") {
			if aw != nil {
				s.lastSend[aw] = now
			}
		} else if pw := snap["p"+e[1:]]; pw != nil {
			s.lastSend[pw] = now
		}
	}
}

func (t *capTransporter) peek() []string {
	t.mu.Lock()
	defer t.mu.Unlock()
	return append([]string(nil), t.ev...)
}

func clientRaceOpOK(tok []string, isB bool) bool {
	if len(tok) == 0 {
		return false
	}
	switch tok[0] {
	case "upd":
		return len(tok) >= 3
	case "tick", "hup", "hdown":
		return len(tok) == 3
	case "resp":
		return len(tok) == 4
	case "close":
		return isB && len(tok) == 1
	case "work":
		return isB && len(tok) == 2
	}
	return false
}

func (s *clientState) race(kind string, aTok, bTok []string) string {
	if !clientRaceOpOK(aTok, false) || !clientRaceOpOK(bTok, true) {
		return "badop"
	}
	// Stop held inside UpdateAll keeps the manager locked: a second reload behind it could not be
	// told apart from the first in the bookkeeping of stopped wrappers
	if aTok[0] == "upd" && kind[0] == 'C' && (bTok[0] == "upd" || bTok[0] == "close") {
		return "badop"
	}
	nowA, nowB := clientRaceNow(aTok), clientRaceNow(bTok)
	unsettled := ""
	before := s.snapshot()
	s.tr.take()
	s.tr.setRelaxed(true) // a registration built just before the other operation's reload carries the previous configuration
	defer s.tr.setRelaxed(false)
	s.tr.arm(kind)

	// ---- A, until it has finished or one of its goroutines is held in Send
	aDone := make(chan string, 1)
	aRet := make(chan struct{})
	go func() { aDone <- s.raceRun(aTok); close(aRet) }()
	resA, aFin, parked := "", false, false
	deadline := time.Now().Add(8 * time.Second)
	for {
		if !aFin {
			select {
			case resA = <-aDone:
				aFin = true
			default:
			}
		}
		p, _, _ := s.tr.gateState()
		sel, busy, _ := clientGoroutines()
		if aFin {
			want := len(s.snapshot())
			if p, _, _ = s.tr.gateState(); p && busy == 1 && sel == want-1 {
				parked = true
				break
			}
			if !p && busy == 0 && sel == want {
				break
			}
		} else if p && busy == 0 {
			parked = true // A's own goroutine (SetRunningStatus / UpdateAll→Stop) is the holder
			break
		}
		if time.Now().After(deadline) {
			unsettled = "!UNSETTLED-A"
			parked, _, _ = s.tr.gateState()
			break
		}
		time.Sleep(50 * time.Microsecond)
	}
	var aw *proxy.Wrapper
	_, held, _ := s.tr.gateState()
	var mid clientSnap
	if aFin {
		mid = s.snapshot()
	}
	if parked {
		if aFin {
			aw = mid["p"+held[1:]]
		} else {
			aw = before["p"+held[1:]]
		}
	} else {
		s.tr.disarm()
	}
	// the registrations sent so far, and the held one, carry A's time stamp
	noted := 0
	if mid != nil {
		evA := s.tr.peek()
		s.noteRace(evA, 0, nowA, mid, nil)
		noted = len(evA)
	}
	if parked && held[0] == 'N' && aw != nil {
		s.lastSend[aw] = nowA
	}
	if parked && !aFin && aTok[0] == "resp" && aw != nil {
		// SetRunningStatus hands a message over only on its Run()-failure path, which stamps
		// lastStartErr; B's deadline flags have to know that before A has returned
		s.lastErr[aw] = nowA
	}
	var pre func()
	if parked && !aFin && aTok[0] == "upd" {
		// Stop inside UpdateAll is the holder: the manager stays locked, B cannot even look its
		// wrapper up before the reload has returned; the wrappers the reload starts afterwards
		// register with A's time stamp
		pre = func() {
			<-aRet
			deadline := time.Now().Add(8 * time.Second)
			for time.Now().Before(deadline) {
				sel, busy, _ := clientGoroutines()
				if busy == 0 && sel == len(s.snapshot()) {
					break
				}
				time.Sleep(50 * time.Microsecond)
			}
			evA := s.tr.peek()
			s.noteRace(evA, noted, nowA, s.snapshot(), nil)
			noted = len(evA)
		}
	}

	// ---- B, until it has finished or is blocked
	bDone := make(chan string, 1)
	go clientRaceB(s, bTok, pre, bDone)
	resB, bFin := "", false
	blocked := 0
	deadline = time.Now().Add(8 * time.Second)
	for !bFin {
		select {
		case resB = <-bDone:
			bFin = true
			continue
		default:
		}
		if parked {
			_, _, st := clientGoroutines()
			if st != "" && st != "running" && st != "runnable" && st != "syscall" {
				blocked++
			} else {
				blocked = 0
			}
			if blocked >= 3 {
				break
			}
		}
		if time.Now().After(deadline) {
			unsettled += "!UNSETTLED-B"
			break
		}
		time.Sleep(100 * time.Microsecond)
	}

	// ---- release the held message, run to quiescence
	s.tr.disarm()
	wait := func(ch chan string, fin *bool, res *string, tag string) {
		if *fin {
			return
		}
		select {
		case *res = <-ch:
			*fin = true
		case <-time.After(8 * time.Second):
			unsettled += tag
		}
	}
	wait(aDone, &aFin, &resA, "!UNSETTLED-A2")
	wait(bDone, &bFin, &resB, "!UNSETTLED-B2")
	if !settle() {
		unsettled += "!UNSETTLED"
	}
	final := s.snapshot()

	// ---- bookkeeping as the sequential ops do it
	var goneA, goneB []*proxy.Wrapper
	switch {
	case mid != nil:
		goneA, goneB = before.minus(mid), mid.minus(final)
	case aTok[0] == "upd":
		goneA = before.minus(final)
	default:
		goneB = before.minus(final)
	}
	s.stopped = append(s.stopped, goneA...)
	s.stopped = append(s.stopped, goneB...)
	ev := s.tr.take()
	seq := map[string]*strings.Builder{}
	var names []string
	for _, e := range ev {
		star := strings.HasSuffix(e, "*")
		name := strings.TrimSuffix(e[1:], "*")
		if seq[name] == nil {
			seq[name] = &strings.Builder{}
			names = append(names, name)
		}
		seq[name].WriteString(e[:1])
		if star {
			seq[name].WriteString("*")
		}
	}
	s.noteRace(ev, noted, nowB, final, nil)
	sort.Strings(names)
	var ws []string
	for _, n := range names {
		ws = append(ws, n+":"+seq[n].String())
	}
	w := strings.Join(ws, ",")
	if w == "" {
		w = "-"
	}
	aPhase := "-"
	if aw != nil {
		aPhase = phaseTok(aw.GetStatus().Phase)
	}
	return fmt.Sprintf("w=%s;ra=%s;rb=%s;a=%s;st=%s%s", w, resA, resB, aPhase, s.statusStr(), unsettled)
}
