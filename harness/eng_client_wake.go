package main

import (
	"fmt"
	"reflect"
	"sort"
	"strings"
	"sync"
	"time"
	"unsafe"

	"github.com/fatedier/frp/client/proxy"
)

// Op `wake` of engine "client": the wrapper worker's wake-up and its critical section as SEPARATE steps,
// interleaved with a reload / Manager.Close that stops the wrapper (Lean: WrapperConc labels wWake | wLock |
// stopLock, C19.wakeStopSchedule, C19.conc_woken_worker_after_stop).
//
//	wake SW|WS <tick|hup|hdown> <name> <now> / <upd … | close>
//
// The harness takes the wrapper's own mutex pw.mu (reflect/unsafe; any reader of the status could hold it), then
//
//	SW: starts the reload on another goroutine and waits until it is blocked inside (*Wrapper).Stop's Lock()
//	    (or has finished: the reload does not touch this wrapper), THEN wakes the worker - a notification on
//	    healthNotifyCh exactly as the status-check timer / a monitor callback produce it - and waits until the
//	    worker has left its select, loaded pw.health and is blocked in its Lock();
//	WS: the same two in the other order;
//
// and releases the mutex.  sync.Mutex hands over in arrival order, so with SW Stop() runs first and the worker
// executes its locked section on a wrapper that is already closed.  Should the runtime serve them in the other
// order the result is that of the other order, which the model accepts as such (Engines/Client.lean).
//
// Result as for `race`, plus whether the woken wrapper object is gone from the manager:
//
//	w=<name>:<N|C…>,…;ra=-;rb=<res B>;a=<phase of the woken wrapper>;st=<status>;g=<0|1>
func wrapperMu(pw *proxy.Wrapper) *sync.RWMutex {
	f := reflect.ValueOf(pw).Elem().FieldByName("mu")
	return (*sync.RWMutex)(unsafe.Pointer(f.UnsafeAddr()))
}

func (s *clientState) wake(order string, wTok, bTok []string) string {
	if len(wTok) != 3 || (wTok[0] != "tick" && wTok[0] != "hup" && wTok[0] != "hdown") ||
		(order != "SW" && order != "WS") || len(bTok) == 0 || (bTok[0] != "upd" && bTok[0] != "close") ||
		!clientRaceOpOK(bTok, true) {
		return "badop"
	}
	name := "p" + wTok[1]
	pw, ok := s.pm.VerifWrapper(name)
	if !ok {
		return "none"
	}
	if wTok[0] != "tick" && !pw.VerifHasMonitor() {
		return "nohealth"
	}
	nowW, nowB := int64(atoi(wTok[2])), clientRaceNow(bTok)
	if bTok[0] == "close" {
		nowB = nowW
	}
	before := s.snapshot()
	s.setFlags(pw, nowW)
	s.keepTimings = true
	defer func() { s.keepTimings = false }()
	s.tr.take()
	s.tr.setRelaxed(true) // a registration built just before the reload carries the previous configuration
	defer s.tr.setRelaxed(false)
	unsettled := ""

	mu := wrapperMu(pw)
	mu.Lock()
	locked := true
	defer func() {
		if locked {
			mu.Unlock()
		}
	}()
	resB := ""
	bFin := make(chan struct{})
	runB := func() {
		go func() {
			defer close(bFin)
			resB = s.raceRun(bTok)
		}()
		if !vmgrWaitFor(func() bool {
			select {
			case <-bFin:
				return true
			default:
			}
			return vmgrBlocked("proxy.(*Wrapper).Stop")
		}, 2*time.Second) {
			unsettled += "!UNSETTLED-B"
		}
	}
	runW := func() {
		switch wTok[0] {
		case "tick":
			if !pw.VerifKick() {
				unsettled += "!STOPPED"
				return
			}
		case "hup":
			pw.VerifHealth(true)
		case "hdown":
			pw.VerifHealth(false)
		}
		if !vmgrWaitFor(func() bool { return vmgrBlocked("proxy.(*Wrapper).checkWorker") }, 2*time.Second) {
			unsettled += "!UNSETTLED-W"
		}
	}
	if order == "SW" {
		runB()
		runW()
	} else {
		runW()
		runB()
	}
	mu.Unlock()
	locked = false
	select {
	case <-bFin:
	case <-time.After(4 * time.Second):
		unsettled += "!UNSETTLED-B2"
		return "w=?;ra=-;rb=?;a=?;st=?;g=?" + unsettled
	}
	if !settle() {
		unsettled += "!UNSETTLED"
	}
	final := s.snapshot()
	s.stopped = append(s.stopped, before.minus(final)...)
	gone := !final.has(pw)
	ev := s.tr.take()
	seq := map[string]*strings.Builder{}
	var names []string
	for _, e := range ev {
		n := e[1:]
		if seq[n] == nil {
			seq[n] = &strings.Builder{}
			names = append(names, n)
		}
		seq[n].WriteString(e[:1])
		if e[0] == 'N' {
			if w := final["p"+n]; w != nil {
				if w == pw {
					s.lastSend[w] = nowW
				} else {
					s.lastSend[w] = nowB
				}
			}
		}
	}
	sort.Strings(names)
	var ws []string
	for _, n := range names {
		ws = append(ws, n+":"+seq[n].String())
	}
	w := strings.Join(ws, ",")
	if w == "" {
		w = "-"
	}
	return fmt.Sprintf("w=%s;ra=-;rb=%s;a=%s;st=%s;g=%d%s", w, resB, phaseTok(pw.GetStatus().Phase), s.statusStr(), b2i(gone), unsettled)
}
