package main

import (
	"bufio"
	"bytes"
	"context"
	"errors"
	"fmt"
	"io"
	"math/rand"
	"net"
	"net/http"
	"sort"
	"strconv"
	"strings"
	"sync"
	"time"

	v1 "github.com/fatedier/frp/pkg/config/v1"
	"github.com/fatedier/frp/pkg/msg"
	plugin "github.com/fatedier/frp/pkg/plugin/server"
	"github.com/fatedier/frp/pkg/util/tcpmux"
	"github.com/fatedier/frp/pkg/util/vhost"
	"github.com/fatedier/frp/server/controller"
	"github.com/fatedier/frp/server/group"
	"github.com/fatedier/frp/server/proxy"
)

// Engine "httpauth" (property C07), server-side tcpmux proxies: the REAL proxy.NewProxy(tcpmux).Run() / Close()
// (server/proxy/tcpmux.go: httpConnectRun -> httpConnectListen -> HTTPConnectTCPMuxer.Listen) on a real
// HTTPConnectTCPMuxer, and real CONNECT requests to that muxer.
//
//	treset <subDomainHost>
//	tpx <id> <domains> <subdomain> <routeByHTTPUser> <httpUser> <httpPassword>     => ok | busy | conflict | err:<text>
//	      <domains>: comma separated hx tokens ("-" = none)
//	tclose <id>                                                                   => -
//	tconn <host> <pauth>      CONNECT host:443 with Proxy-Authorization          => acc:<id> | 407 | 404 | closed | stuck
//	      acc:<id> = proxy <id> was asked for a work connection, i.e. frps forwards the user connection
//	tview                     => the listeners registered at the muxer, sorted: hx(domain|routeByHTTPUser|username|password),…
//
// The muxer listens on an in-memory listener (vregLn of eng_vreg.go); every proxy's GetWorkConnFn records that
// it was asked and refuses, which ends the user connection.
type hatState struct {
	cfg  *v1.ServerConfig
	rc   *controller.ResourceController
	mux  *tcpmux.HTTPConnectTCPMuxer
	ln   *vregLn
	pxs  map[int]proxy.Proxy
	mu   sync.Mutex
	hits []int
}

var hatSt *hatState

const hatWait = 1500 * time.Millisecond

func hatReset(sh string) {
	if hatSt != nil {
		for _, p := range hatSt.pxs {
			p.Close()
		}
		hatSt.ln.Close()
	}
	st := &hatState{pxs: map[int]proxy.Proxy{}, ln: newVregLn()}
	cfg := &v1.ServerConfig{}
	cfg.Complete()
	cfg.SubDomainHost = sh
	cfg.TCPMuxHTTPConnectPort = 1337
	st.cfg = cfg
	st.mux, _ = tcpmux.NewHTTPConnectTCPMuxer(st.ln, false, 2*time.Second)
	st.rc = &controller.ResourceController{
		TCPMuxHTTPConnectMuxer: st.mux,
		TCPMuxGroupCtl:         group.NewTCPMuxGroupCtl(st.mux),
		PluginManager:          plugin.NewManager(),
	}
	hatSt = st
}

func (st *hatState) run(id int, doms []string, sub, ru, user, pass string) string {
	if _, ok := st.pxs[id]; ok {
		return "busy"
	}
	c := &v1.TCPMuxProxyConfig{
		ProxyBaseConfig: v1.ProxyBaseConfig{Name: "t" + strconv.Itoa(id), Type: "tcpmux"},
		DomainConfig:    v1.DomainConfig{CustomDomains: doms, SubDomain: sub},
		HTTPUser:        user,
		HTTPPassword:    pass,
		RouteByHTTPUser: ru,
		Multiplexer:     "httpconnect",
	}
	pxy, err := proxy.NewProxy(context.Background(), &proxy.Options{
		UserInfo:           plugin.UserInfo{User: "u", RunID: "run" + strconv.Itoa(id)},
		LoginMsg:           &msg.Login{RunID: "run" + strconv.Itoa(id)},
		ResourceController: st.rc,
		GetWorkConnFn: func() (net.Conn, error) {
			st.mu.Lock()
			st.hits = append(st.hits, id)
			st.mu.Unlock()
			return nil, errors.New("recording proxy: no work connection")
		},
		Configurer: c,
		ServerCfg:  st.cfg,
	})
	if err != nil {
		return "err:" + hx(err.Error())
	}
	if _, err = pxy.Run(); err != nil {
		if errors.Is(err, vhost.ErrRouterConfigConflict) {
			return "conflict"
		}
		return "err:" + hx(err.Error())
	}
	st.pxs[id] = pxy
	return "ok"
}

func (st *hatState) connect(host, pauthTok string) string {
	st.mu.Lock()
	st.hits = nil
	st.mu.Unlock()
	c, ok := vregDial(st.ln)
	if !ok {
		return "err:accept"
	}
	defer c.Close()
	var sb strings.Builder
	fmt.Fprintf(&sb, "CONNECT %s:443 HTTP/1.1\r\nHost: %s:443\r\n", host, host)
	if h, ok := authHeader(pauthTok); ok {
		fmt.Fprintf(&sb, "Proxy-Authorization: %s\r\n", h)
	}
	sb.WriteString("\r\n")
	_ = c.SetDeadline(time.Now().Add(hatWait))
	go func() { _, _ = io.WriteString(c, sb.String()) }()
	// the muxer answers 200 (success hook) and then either hands the connection to the proxy, which asks for a
	// work connection, gets none and closes, or writes 407 and closes; 404 + close when no listener is routed
	all, err := io.ReadAll(c)
	if vregTimedOut(err) {
		return "stuck"
	}
	st.mu.Lock()
	hits := append([]int(nil), st.hits...)
	st.mu.Unlock()
	if len(hits) > 0 {
		ids := []string{}
		for _, h := range hits {
			ids = append(ids, strconv.Itoa(h))
		}
		return "acc:" + strings.Join(ids, "+")
	}
	br := bufio.NewReader(bytes.NewReader(all))
	codes := []int{}
	for {
		resp, err := http.ReadResponse(br, &http.Request{Method: "CONNECT"})
		if err != nil {
			break
		}
		codes = append(codes, resp.StatusCode)
	}
	for _, want := range []int{407, 404} {
		for _, k := range codes {
			if k == want {
				return strconv.Itoa(want)
			}
		}
	}
	return "closed"
}

func (st *hatState) view() string {
	out := []string{}
	for _, r := range st.mux.VerifDump() { // (domain, httpUser, location)
		l, ok := st.mux.VerifGetListener(r[0], r[2], r[1])
		if !ok {
			out = append(out, hx(r[0]+"|"+r[1]+"|?|?"))
			continue
		}
		name, _, ru := l.VerifRoute()
		u, p := l.VerifAuth()
		out = append(out, hx(name+"|"+ru+"|"+u+"|"+p))
	}
	sort.Strings(out)
	if len(out) == 0 {
		return "-"
	}
	return strings.Join(out, ",")
}

func httpAuthTmuxExec(tok []string) (string, bool) {
	switch tok[0] {
	case "treset", "tpx", "tclose", "tconn", "tview":
	default:
		return "", false
	}
	if tok[0] == "treset" {
		hatReset(unhx(tok[1]))
		return "-", true
	}
	if hatSt == nil {
		hatReset("")
	}
	st := hatSt
	switch tok[0] {
	case "tpx":
		return st.run(atoi(tok[1]), vregCSV(tok[2]), unhx(tok[3]), unhx(tok[4]), unhx(tok[5]), unhx(tok[6])), true
	case "tclose":
		if p, ok := st.pxs[atoi(tok[1])]; ok {
			p.Close()
			delete(st.pxs, atoi(tok[1]))
		}
		return "-", true
	case "tconn":
		return st.connect(unhx(tok[1]), tok[2]), true
	case "tview":
		return st.view(), true
	}
	return "bad-op", true
}

// ---- generator

var (
	hatDoms = []string{"h.example.com", "a.example.com", "*.example.com", "example.org", "*", "H.Example.com", "t.frps.example.com", ""}
	hatSubs = []string{"", "", "t", "v", "T"}
	hatSHs  = []string{"frps.example.com", "example.com", ""}
)

// a tcpmux proxy the generator has emitted since the last treset
type hatPx struct {
	id       int
	doms     []string
	ru, u, p string
}

func hatGenCSV(rng *rand.Rand, pool []string, max int) (string, []string) {
	k := rng.Intn(max + 1)
	if k == 0 {
		return "-", nil
	}
	out, raw := []string{}, []string{}
	for i := 0; i < k; i++ {
		d := pick(rng, pool)
		out = append(out, hx(d))
		raw = append(raw, d)
	}
	return strings.Join(out, ","), raw
}

// hatGenRun: a proxy configuration: every combination of httpUser / httpPassword / routeByHTTPUser being
// empty, equal to each other, or different
func hatGenRun(rng *rand.Rand, id int, sh string) (string, hatPx) {
	csv, doms := hatGenCSV(rng, hatDoms, 3)
	if rng.Intn(2) == 0 { // the common shape: one custom domain
		d := pick(rng, hatDoms[:4])
		csv, doms = hx(d), []string{d}
	}
	sub := pick(rng, hatSubs)
	u, p := pick(rng, haUsers), pick(rng, haPass)
	if rng.Intn(3) != 0 {
		u, p = pick(rng, haUsers[1:]), pick(rng, haPass[1:])
	}
	ru := pick(rng, haUsers)
	switch rng.Intn(4) {
	case 0:
		ru = u
	case 1:
		ru = ""
	}
	if sub != "" {
		doms = append(doms, sub+"."+sh)
	}
	return fmt.Sprintf("tpx %d %s %s %s %s %s", id, csv, hx(sub), hx(ru), hx(u), hx(p)), hatPx{id, doms, ru, u, p}
}

// hatGenConn: a CONNECT aimed at a registered proxy (one of its domains made concrete) with: its exact
// credentials / its user with another or an empty password / its routing user with any password / another user
// with its password / nothing / a generated header; or a free one
func hatGenConn(rng *rand.Rand, pxs []hatPx) string {
	if len(pxs) == 0 || rng.Intn(6) == 0 {
		return fmt.Sprintf("tconn %s %s", hx(haMixCase(rng, concreteHost(rng, pick(rng, hatDoms[:7])))), genAuthTokWire(rng, haUsers, haPass))
	}
	x := pxs[rng.Intn(len(pxs))]
	host := "nohost.example.net"
	if len(x.doms) > 0 {
		if d := pick(rng, x.doms); d != "" {
			host = concreteHost(rng, d)
		}
	}
	host = haMixCase(rng, host)
	b := func(u, p string) string { return "b" + strconv.Itoa(rng.Intn(3)) + ":" + hx(u) + ":" + hx(p) }
	other := func(not string, pool []string) string {
		for {
			if v := pick(rng, pool); v != not {
				return v
			}
		}
	}
	var a string
	switch k := rng.Intn(20); {
	case k < 5:
		a = b(x.u, x.p)
	case k < 9:
		a = b(x.u, other(x.p, append([]string{x.p + "x", "wrong"}, haPass...)))
	case k < 11:
		a = b(x.ru, pick(rng, haPass))
	case k < 13:
		a = b(other(x.u, haUsers), x.p)
	case k < 16:
		a = "-"
	default:
		a = genAuthTokWire(rng, haUsers, haPass)
	}
	return fmt.Sprintf("tconn %s %s", hx(host), a)
}
