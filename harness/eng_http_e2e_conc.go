package main

// Engine "httpe2e", CONCURRENT rounds (C02: "... and other requests are unaffected", "for all sequences of
// requests", every client plugin of the property).
//
//	hc cfg=<mux><tls><pool> n=<users> x=<exchanges per user> hold=<0|1>
//	   u<i>=<kind>/<enc>/<comp>/<lim>                  kind = plain | h2h | h2s | s2h | s2s  (proxy key, see he2eKey)
//	   e<i>.<j>=<m>,<p>,<up>,<dn>,<st>                 up = -|cl:<tok>|ch:<tok>   dn = cl:<tok>|ch:<tok>   (tok as in hx)
//	=> u0=<ex>+<ex>…;u1=…      ex = <be>,<m>,<t>,<up>,<ufr>,<st>,<tag>,<echo>,<down>,<dfr>,<end>
//	                           echo = 1: the answer carries the id of THIS exchange | 0: another one's | -: none
//	                           end  = ok | cut | timeout | skip (not sent: an earlier exchange of this user did not end ok)
//
// Every user i opens ITS OWN connection (TCP to the vhost HTTP port; TLS with SNI to the vhost HTTPS port for
// the https2http / https2https proxies), all n at once, and carries x exchanges on it back to back (keep-alive).
// Every exchange has its own id (X-Op), request body and answer body, so an answer that belongs to somebody
// else, a mixed-up body or a request that reached another proxy's backend shows.  With hold=1 the backends hold
// the FIRST exchange of every user until all n have arrived (event driven, bounded): n work connections of
// the frpc are then alive at the same moment; the following exchanges overlap freely.  With hold=0 all
// exchanges overlap freely.  Work connections of http proxies stay pooled in frps' Transport (at most 5 per
// route) between rounds and between ops, those of https proxies end with the user's connection.
//
// Oracle (Lean: C02.roundHolds): each user gets exactly its own answers, complete, from the right backend.
// Retry: a user whose ONLY symptom is a timeout (every exchange before it as expected) takes its result from
// ONE more execution of the whole round (same concurrency, fresh connections, more patience); a user with a
// mismatching / foreign / truncated answer keeps that result — it is never retried.  All waits are bounded.
import (
	"bufio"
	"bytes"
	"crypto/ecdsa"
	"crypto/elliptic"
	crand "crypto/rand"
	"crypto/tls"
	"crypto/x509"
	"crypto/x509/pkix"
	"encoding/pem"
	"fmt"
	"io"
	"math/big"
	"math/rand"
	"net"
	"net/http"
	"os"
	"path/filepath"
	"strconv"
	"strings"
	"sync"
	"time"
)

var he2ePlugKinds = []string{"h2h", "h2s", "s2h", "s2s"}

// ---- one self-signed certificate (ECDSA: cheap) for the https2* plugins and the TLS backends ----

var (
	he2eCertOnce sync.Once
	he2eCrt      string
	he2eKeyF     string
	he2eTLSCfg   *tls.Config
)

func he2eMkCert() {
	key, err := ecdsa.GenerateKey(elliptic.P256(), crand.Reader)
	if err != nil {
		panic(err)
	}
	tpl := &x509.Certificate{SerialNumber: big.NewInt(2), Subject: pkix.Name{CommonName: "c02.test"},
		NotBefore: time.Now().Add(-time.Hour), NotAfter: time.Now().Add(240 * time.Hour),
		KeyUsage: x509.KeyUsageDigitalSignature, ExtKeyUsage: []x509.ExtKeyUsage{x509.ExtKeyUsageServerAuth},
		DNSNames: []string{"*.c02.test", "localhost"}, IPAddresses: []net.IP{net.ParseIP("127.0.0.1")}}
	der, err := x509.CreateCertificate(crand.Reader, tpl, tpl, &key.PublicKey, key)
	if err != nil {
		panic(err)
	}
	kb, err := x509.MarshalPKCS8PrivateKey(key)
	if err != nil {
		panic(err)
	}
	cpem := pem.EncodeToMemory(&pem.Block{Type: "CERTIFICATE", Bytes: der})
	kpem := pem.EncodeToMemory(&pem.Block{Type: "PRIVATE KEY", Bytes: kb})
	dir, err := os.MkdirTemp("", "he2e-cert")
	if err != nil {
		panic(err)
	}
	he2eCrt, he2eKeyF = filepath.Join(dir, "c.pem"), filepath.Join(dir, "k.pem")
	if os.WriteFile(he2eCrt, cpem, 0o600) != nil || os.WriteFile(he2eKeyF, kpem, 0o600) != nil {
		panic("he2e: cannot write the certificate")
	}
	pair, err := tls.X509KeyPair(cpem, kpem)
	if err != nil {
		panic(err)
	}
	he2eTLSCfg = &tls.Config{Certificates: []tls.Certificate{pair}}
}

func he2eCertFiles() (string, string) { he2eCertOnce.Do(he2eMkCert); return he2eCrt, he2eKeyF }
func he2eTLSServer() *tls.Config      { he2eCertOnce.Do(he2eMkCert); return he2eTLSCfg }

// ---- the round table of the backends ----

type he2eRound struct {
	mu    sync.Mutex
	specs map[string]*he2eSpec // id -> what to answer
	held  map[string]bool      // ids whose answer waits for the gate
	seen  map[string][]*he2eSeen
	need  int
	gate  chan struct{} // closed when every held exchange has reached a backend
	wait  time.Duration
}

var he2eRnd *he2eRound // the round in progress (he2eMu)

// a backend has read a request: when it is an exchange of the round, record it, pass the gate, return its spec
func (r *he2eRound) arrived(s *he2eSeen) *he2eSpec {
	if r == nil {
		return nil
	}
	r.mu.Lock()
	spec := r.specs[s.op]
	if spec == nil {
		r.mu.Unlock()
		return nil
	}
	first := len(r.seen[s.op]) == 0
	r.seen[s.op] = append(r.seen[s.op], s)
	hold := r.held[s.op]
	if hold && first {
		r.need--
		if r.need == 0 {
			close(r.gate)
		}
	}
	r.mu.Unlock()
	if hold {
		t := time.NewTimer(r.wait)
		select {
		case <-r.gate:
		case <-t.C: // somebody never arrived: answer anyway (bounded)
		}
		t.Stop()
	}
	return spec
}

func (r *he2eRound) record(id string) *he2eSeen {
	r.mu.Lock()
	defer r.mu.Unlock()
	if l := r.seen[id]; len(l) > 0 {
		return l[0]
	}
	return nil
}

// ---- one round ----

type he2eEx struct {
	id           string
	method, path string
	ukind        string
	ubody        []byte
	spec         *he2eSpec
	ans          *he2eAns // what the user read (set by the user's goroutine, read after the round)
	res          string   // formatted result
	end          string
	asExpected   bool
}

type he2eUser struct {
	px   *he2eProxy
	exs  []*he2eEx
	conn net.Conn // stays open until every user of the round is done (see he2eRoundOnce)
}

func he2eParseRound(p *he2ePair, kv map[string]string, attempt int) ([]*he2eUser, string) {
	n, x := atoi(kv["n"]), atoi(kv["x"])
	users := make([]*he2eUser, n)
	for i := 0; i < n; i++ {
		px := p.proxies[kv["u"+strconv.Itoa(i)]]
		if px == nil {
			return nil, "noproxy"
		}
		u := &he2eUser{px: px}
		for j := 0; j < x; j++ {
			f := strings.Split(kv[fmt.Sprintf("e%d.%d", i, j)], ",")
			if len(f) != 5 {
				return nil, "badexchange"
			}
			e := &he2eEx{id: fmt.Sprintf("%d.%d.%d.%d", he2eOpSeq, attempt, i, j), method: f[0], path: unhx(f[1]), end: "skip"}
			e.ukind, e.ubody = he2eBodySpec(f[2])
			e.spec = &he2eSpec{id: e.id, status: atoi(f[4]), w: 0, keep: true, seed: int64(he2eOpSeq*64 + i*8 + j)}
			e.spec.kind, e.spec.body = he2eBodySpec(f[3])
			u.exs = append(u.exs, e)
		}
		users[i] = u
	}
	return users, ""
}

func (p *he2ePair) dialUser(px *he2eProxy, d time.Duration) (net.Conn, error) {
	port := p.vport
	if px.utls {
		port = p.sport
	}
	c, err := net.DialTimeout("tcp", net.JoinHostPort("127.0.0.1", strconv.Itoa(port)), d)
	if err != nil || !px.utls {
		return c, err
	}
	_ = c.SetDeadline(time.Now().Add(d))
	tc := tls.Client(c, &tls.Config{ServerName: px.domain, InsecureSkipVerify: true}) // HTTP/1.1 (no ALPN)
	if err := tc.Handshake(); err != nil {
		c.Close()
		return nil, err
	}
	return tc, nil
}

// all exchanges of one user, back to back on one connection; stops at the first exchange that did not end ok
func he2eRunUser(p *he2ePair, u *he2eUser, rnd *he2eRound, patience time.Duration) {
	c, err := p.dialUser(u.px, patience)
	if err != nil {
		u.exs[0].end = "timeout" // nothing was exchanged at all (connect / handshake): a timeout-class symptom
		if !he2eIsTimeout(err) {
			u.exs[0].end = "cut"
		}
		return
	}
	u.conn = c
	br := bufio.NewReaderSize(c, 64*1024)
	for _, e := range u.exs {
		_ = c.SetDeadline(time.Now().Add(patience))
		var h bytes.Buffer
		fmt.Fprintf(&h, "%s %s HTTP/1.1\r\nHost: %s\r\nX-Op: %s\r\nUser-Agent: he2e\r\n", e.method, e.path, u.px.domain, e.id)
		switch e.ukind {
		case "cl":
			fmt.Fprintf(&h, "Content-Length: %d\r\n", len(e.ubody))
		case "ch":
			h.WriteString("Transfer-Encoding: chunked\r\n")
		}
		h.WriteString("\r\n")
		werr := make(chan error, 1)
		go func() { werr <- he2eWriteMsg(c, h.Bytes(), e.ukind, e.ubody, 0, 0) }()
		resp, err := http.ReadResponse(br, &http.Request{Method: e.method})
		if err != nil {
			e.end = "cut"
			if he2eIsTimeout(err) {
				e.end = "timeout"
			}
			c.Close()
			<-werr
			return
		}
		rb, rerr := io.ReadAll(resp.Body)
		resp.Body.Close()
		e.end = "ok"
		if rerr != nil {
			e.end = "cut"
			if he2eIsTimeout(rerr) {
				e.end = "timeout"
			}
		}
		e.fill(resp, rb)
		if e.end != "ok" || resp.Close {
			c.Close() // (an answer with Connection: close: the remaining exchanges of this user stay "skip")
			<-werr
			return
		}
		<-werr
	}
}

// the user's half of the result (status, tag, echo, body), the backend's half is added after the round
type he2eAns struct {
	st             int
	tag, echo, dfr string
	down           string
}

func (e *he2eEx) fill(resp *http.Response, rb []byte) {
	a := &he2eAns{st: resp.StatusCode, tag: resp.Header.Get("X-Be"), echo: "-", dfr: "no", down: he2eHash(rb)}
	if a.tag == "" {
		a.tag = "-"
	}
	if v := resp.Header.Get("X-Echo"); v != "" {
		a.echo = "0"
		if v == e.id {
			a.echo = "1"
		}
	}
	switch {
	case len(resp.TransferEncoding) > 0:
		a.dfr = "ch"
	case resp.ContentLength >= 0:
		a.dfr = "cl"
	case resp.Close:
		a.dfr = "eof"
	}
	e.ans = a
}

func he2eRoundOnce(p *he2ePair, kv map[string]string, attempt int) ([]*he2eUser, string) {
	he2eOpSeq++
	users, bad := he2eParseRound(p, kv, attempt)
	if bad != "" {
		return nil, bad
	}
	patience := time.Duration(3*(attempt+1)) * time.Second
	rnd := &he2eRound{specs: map[string]*he2eSpec{}, held: map[string]bool{}, seen: map[string][]*he2eSeen{},
		gate: make(chan struct{}), wait: patience / 2}
	for _, u := range users {
		for j, e := range u.exs {
			rnd.specs[e.id] = e.spec
			if j == 0 && kv["hold"] == "1" {
				rnd.held[e.id] = true
				rnd.need++
			}
		}
	}
	if rnd.need == 0 {
		close(rnd.gate)
	}
	he2eMu.Lock()
	he2eRnd, he2eCur = rnd, nil
	he2eMu.Unlock()
	var wg sync.WaitGroup
	for _, u := range users {
		wg.Add(1)
		go func(u *he2eUser) { defer wg.Done(); he2eRunUser(p, u, rnd, patience) }(u)
	}
	wg.Wait()
	// the users hang up only now, all together; one short pause lets frps' Transport notice the work connections
	// that a plugin's server has closed after its one answer (KNOWN_FINDINGS C02-plugin-keepalive-wrapped) before
	// the next op could be handed one of them
	for _, u := range users {
		if u.conn != nil {
			u.conn.Close()
		}
	}
	time.Sleep(20 * time.Millisecond)
	// a request whose answer never came may still be on its way to a backend: one short bounded wait for the records
	missing := func() bool {
		for _, u := range users {
			for _, e := range u.exs {
				if e.end != "skip" && rnd.record(e.id) == nil {
					return true
				}
			}
		}
		return false
	}
	for t := 0; t < 30 && missing(); t++ {
		time.Sleep(10 * time.Millisecond)
	}
	he2eMu.Lock()
	he2eRnd = nil
	he2eMu.Unlock()
	for _, u := range users {
		for _, e := range u.exs {
			e.format(u.px, rnd.record(e.id))
		}
	}
	return users, ""
}

func (e *he2eEx) format(px *he2eProxy, s *he2eSeen) {
	a := e.ans
	be, m, t, up, ufr := "-", "-", "-", "-", "no"
	if s != nil {
		be, m, t, ufr = s.key, s.method, hx(s.target), s.fr
		if s.fr != "no" {
			up = he2eHash(s.body)
		}
	}
	if a == nil {
		a = &he2eAns{tag: "-", echo: "-", dfr: "no", down: "0.0"}
	}
	e.res = fmt.Sprintf("%s,%s,%s,%s,%s,%d,%s,%s,%s,%s,%s", be, m, t, up, ufr, a.st, a.tag, a.echo, a.down, a.dfr, e.end)
	wantUp, wantFr := "-", "no"
	if e.ukind != "-" {
		wantUp, wantFr = he2eHash(e.ubody), e.ukind
	}
	e.asExpected = e.end == "ok" && be == px.key && m == e.method && t == hx(e.path) && up == wantUp && ufr == wantFr &&
		a.st == e.spec.status && a.tag == px.key && a.echo == "1" && a.down == he2eHash(e.spec.body)
}

// only symptom of this user: a timeout (everything before it as expected, nothing after it was sent)
func (u *he2eUser) onlyTimeout() bool {
	for _, e := range u.exs {
		if e.end == "timeout" {
			return true
		}
		if !e.asExpected {
			return false
		}
	}
	return false
}

func (u *he2eUser) result() string {
	r := make([]string, len(u.exs))
	for j, e := range u.exs {
		r[j] = e.res
	}
	return strings.Join(r, "+")
}

func he2eHc(kv map[string]string) string {
	p := he2eGetPair(kv["cfg"])
	p.dropUser()
	users, bad := he2eRoundOnce(p, kv, 0)
	if bad != "" {
		return bad
	}
	res := make([]string, len(users))
	again := false
	for i, u := range users {
		res[i] = u.result()
		again = again || u.onlyTimeout()
	}
	if again {
		if os.Getenv("C02_DEBUG") != "" {
			fmt.Fprintf(os.Stderr, "httpe2e round retried after a timeout: %v\n", res)
		}
		users2, _ := he2eRoundOnce(p, kv, 1)
		for i, u := range users {
			if u.onlyTimeout() && users2 != nil {
				res[i] = users2[i].result()
			}
		}
	}
	for i := range res {
		res[i] = fmt.Sprintf("u%d=%s", i, res[i])
	}
	return strings.Join(res, ";")
}

// ---- generator of rounds ----

func he2eGenRound(rng *rand.Rand, emit func(string), cfg string, n, x, hold int, keys []string) {
	paths := []string{"/echo", "/a/b%20c?x=1&y=2", "/blob?size=1", "/a%2Fb", "/"}
	sizes := []int{1, 2, 17, 24, 300, 1000, 4096, 16384, 20000, 32769, 70000}
	var sb strings.Builder
	fmt.Fprintf(&sb, "hc cfg=%s n=%d x=%d hold=%d", cfg, n, x, hold)
	for i := 0; i < n; i++ {
		fmt.Fprintf(&sb, " u%d=%s", i, keys[i])
	}
	for i := 0; i < n; i++ {
		for j := 0; j < x; j++ {
			m := pick(rng, []string{"POST", "POST", "PUT", "GET"})
			pat := pick(rng, []string{"r", "r", "z", "m"})
			up := "-"
			if m != "GET" {
				up = pick(rng, []string{"cl", "cl", "ch"}) + ":" + he2eTok(pat, rng.Intn(100000), pick(rng, sizes))
			}
			dn := pick(rng, []string{"cl", "cl", "ch"}) + ":" + he2eTok(pat, rng.Intn(100000), pick(rng, sizes))
			path, sep := pick(rng, paths), "?"
			if strings.Contains(path, "?") {
				sep = "&"
			}
			fmt.Fprintf(&sb, " e%d.%d=%s,%s,%s,%s,%d", i, j, m, hx(fmt.Sprintf("%s%su=%d.%d", path, sep, i, j)), up, dn,
				pick(rng, []int{200, 200, 200, 201, 404, 500}))
		}
	}
	emit(sb.String())
}

// classes of rounds: all users on ONE proxy | several proxies that share a codec option | any mix;
// kinds: plain path and every plugin; 2-8 users; held first exchange or free overlap; 1-3 exchanges each
func he2eGenRounds(rng *rand.Rand, count int, walk bool, emit func(string)) {
	kinds := append([]string{"plain"}, he2ePlugKinds...)
	key := func(kind string, enc, comp int) string {
		lim := "none"
		if kind == "plain" && rng.Intn(3) == 0 {
			lim = pick(rng, []string{"srvL", "cliL"})
		}
		return fmt.Sprintf("%s/%d/%d/%s", kind, enc, comp, lim)
	}
	for r := 0; r < count; r++ {
		cfg := pick(rng, []string{"111", "111", "000"})
		n := pick(rng, []int{2, 3, 4, 4, 5, 6, 7, 8, 8})
		x := pick(rng, []int{1, 1, 2, 3})
		hold := pick(rng, []int{1, 1, 0})
		keys := make([]string, n)
		switch cls := rng.Intn(3); {
		case walk || cls == 0: // one proxy; the first rounds walk over every kind with compression on / off
			kind, enc, comp := pick(rng, kinds), rng.Intn(2), rng.Intn(2)
			if walk {
				kind, comp = kinds[r%len(kinds)], 1-r/len(kinds)
			}
			k := key(kind, enc, comp)
			for i := range keys {
				keys[i] = k
			}
		case cls == 1: // proxies of any kind with the same useCompression
			comp := rng.Intn(2)
			for i := range keys {
				keys[i] = key(pick(rng, kinds), rng.Intn(2), comp)
			}
		default:
			for i := range keys {
				keys[i] = key(pick(rng, kinds), rng.Intn(2), rng.Intn(2))
			}
		}
		// KNOWN_FINDINGS C02-plugin-keepalive-wrapped: a work connection with useEncryption / useCompression that is
		// served by a client plugin carries ONE request and is then closed by the plugin's server
		// (harness/corpus/httpe2e drives that).  What follows on such a connection is a race, not a result:
		// generated rounds keep such users to one exchange per connection, and — for http proxies, where frps'
		// Transport would hand a dying idle work connection to the next request of the round — hold the users
		// until all requests of the round are on their way (nothing is re-used inside the round)
		for _, k := range keys {
			if f := strings.Split(k, "/"); f[0] != "plain" && (f[1] == "1" || f[2] == "1") {
				x = 1
				if f[0] == "h2h" || f[0] == "h2s" {
					hold = 1
				}
			}
		}
		he2eGenRound(rng, emit, cfg, n, x, hold, keys)
	}
}
