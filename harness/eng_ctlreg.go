package main

import (
	"context"
	"errors"
	"fmt"
	"io"
	"math/rand"
	"net"
	"reflect"
	"runtime"
	"sort"
	"strings"
	"sync"
	"time"

	"github.com/fatedier/frp/client"
	"github.com/fatedier/frp/client/proxy"
	"github.com/fatedier/frp/pkg/auth"
	v1 "github.com/fatedier/frp/pkg/config/v1"
	"github.com/fatedier/frp/pkg/msg"
	frplog "github.com/fatedier/frp/pkg/util/log"
	netpkg "github.com/fatedier/frp/pkg/util/net"
	golog "github.com/fatedier/golib/log"
)

// Engine "ctlreg" (C19, Part C): the real client.Control — message dispatcher, its registered handlers
// (handleNewProxyResp …), message transporter, proxy.Manager, Wrappers with their worker goroutines —
// on one end of a control connection (net.Pipe, encrypted message stream as after a login) and a
// SCRIPTED SERVER on the other end.  Nothing is called into the manager directly: registrations and
// withdrawals arrive at the server as the bytes the client wrote, answers reach the client as bytes the
// server wrote, through the dispatcher's read loop and the handler registered for NewProxyResp.
//
// The server does what frps does with the messages of one control, in arrival order: a NewProxy for a
// name it holds is refused (the registration stays), a NewProxy for a free name is accepted or refused
// (the op's decision a|r), every NewProxy produces one NewProxyResp; a CloseProxy releases the name.
// But the answers are NOT sent: they queue up, and the op sequence decides when each one is delivered —
// late, in another order, twice, never, after the proxy was withdrawn, stopped or replaced — or makes
// one up (forge).  `held` is the server's table: every NewProxy accepted minus every CloseProxy received.
//
//	start <now> <a|r> <name:variant:h:r>*    new Control, Run(cfgs)
//	upd <now> <a|r> <name:variant:h:r>*      UpdateAllConfigurer(cfgs) (what a reload does); entries loaded from text
//	tick <name> <now> <a|r>                  one iteration of the wrapper's worker (virtual clock, as engine client)
//	hup|hdown <name> <now> <a|r>             the monitor's callback and the wake-up it causes
//	deliver <k> <now> <a|r>                  the (k mod length)-th queued answer is written to the client and leaves the queue
//	dup <k> <now> <a|r>                      the k-th queued answer is written to the client and STAYS queued
//	drop <k>                                 the k-th queued answer is never sent
//	forge <name> <ok|err> <now> <a|r>        an answer nobody asked for
//	  => ev=<name>:<N|C>…,…;st=<name>:<phase>,…;held=<name>,…;q=<name>+<o|e>,…      (- for empty)
//	     ev: what reached the server during the op, per name in wire order;  st: Manager.GetAllProxyStatus;
//	     q: the queue after the op (answers produced during one op are queued by name, then arrival)
//	  nosession | nohealth | noreply when the op has no object
//	witness stale                            the schedule of C19.stale_reply_witness on a control of its own => st=…;held=…
type ctlregReply struct {
	name int
	ok   bool
}

type ctlregState struct {
	cancel context.CancelFunc
	ctl    *client.Control
	pm     *proxy.Manager
	srv    net.Conn
	rw     io.ReadWriter
	loader c19Loader

	mu      sync.Mutex
	acc     bool
	seen    []string // messages of the current op in arrival order: "N3", "C3"
	fresh   []ctlregReply
	held    map[int]bool
	queue   []ctlregReply
	srvDead bool

	lastSend  map[*proxy.Wrapper]int64
	lastErr   map[*proxy.Wrapper]int64
	unsettled int // consecutive ops that did not come to rest (two: the control is given up, ops answer `stuck`)
}

var ctlregSt *ctlregState

const ctlregToken = "ctlreg-token"

type ctlregConnector struct{}

func (ctlregConnector) Open() error  { return nil }
func (ctlregConnector) Close() error { return nil }
func (ctlregConnector) Connect() (net.Conn, error) {
	return nil, errors.New("scripted server: no work connections")
}

func ctlregName(s string) int { return atoi(strings.TrimPrefix(s, "p")) }

// serve: the server's side of the control connection
func (s *ctlregState) serve() {
	defer func() {
		s.mu.Lock()
		s.srvDead = true
		s.mu.Unlock()
	}()
	for {
		m, err := msg.ReadMsg(s.rw)
		if err != nil {
			return
		}
		s.mu.Lock()
		switch x := m.(type) {
		case *msg.NewProxy:
			n := ctlregName(x.ProxyName)
			s.seen = append(s.seen, fmt.Sprintf("N%d", n))
			switch {
			case s.held[n]:
				s.fresh = append(s.fresh, ctlregReply{n, false}) // "proxy already exists"
			case s.acc:
				s.held[n] = true
				s.fresh = append(s.fresh, ctlregReply{n, true})
			default:
				s.fresh = append(s.fresh, ctlregReply{n, false})
			}
		case *msg.CloseProxy:
			n := ctlregName(x.ProxyName)
			s.seen = append(s.seen, fmt.Sprintf("C%d", n))
			delete(s.held, n)
		}
		s.mu.Unlock()
	}
}

func (s *ctlregState) shutdown() {
	if s == nil {
		return
	}
	if s.srv != nil {
		s.srv.Close()
	}
	if s.ctl != nil {
		select {
		case <-s.ctl.Done():
		case <-time.After(3 * time.Second):
		}
	}
	if s.cancel != nil {
		s.cancel()
	}
	s.loader.close()
}

// ctlregQuiet: ONE snapshot of all goroutines in which
//   - every wrapper worker is parked in its select, one per registered wrapper;
//   - the dispatcher's send loop is parked in its select (not inside a write);
//   - the dispatcher's read loop is blocked reading the connection (the handler of the last message has returned);
//   - the server is blocked reading the connection (it has processed everything the client wrote).
func (s *ctlregState) quiet() bool {
	want := len(s.pm.GetAllProxyStatus())
	buf := make([]byte, 1<<20)
	n := runtime.Stack(buf, true)
	for n == len(buf) {
		buf = make([]byte, 2*len(buf))
		n = runtime.Stack(buf, true)
	}
	parked, send, read, srv := 0, false, false, false
	for _, g := range strings.Split(string(buf[:n]), "\n\n") {
		i, j := strings.Index(g, "["), strings.Index(g, "]")
		if i < 0 || j < i {
			continue
		}
		inSelect := strings.HasPrefix(g[i+1:j], "select")
		switch {
		case strings.Contains(g, "proxy.(*Wrapper).checkWorker("):
			if !inSelect {
				return false
			}
			parked++
		case strings.Contains(g, "msg.(*Dispatcher).sendLoop"):
			if !inSelect || strings.Contains(g, "msg.WriteMsg") {
				return false
			}
			send = true
		case strings.Contains(g, "msg.(*Dispatcher).readLoop"):
			if !inSelect || !strings.Contains(g, "net.(*pipe).read") {
				return false
			}
			read = true
		case strings.Contains(g, "main.(*ctlregState).serve"):
			if !inSelect || !strings.Contains(g, "net.(*pipe).read") {
				return false
			}
			srv = true
		}
	}
	return parked == want && send && read && srv
}

func (s *ctlregState) settle() bool {
	deadline := time.Now().Add(3 * time.Second)
	for {
		if s.quiet() {
			s.unsettled = 0
			return true
		}
		if time.Now().After(deadline) {
			s.unsettled++
			return false
		}
		time.Sleep(100 * time.Microsecond)
	}
}

func (s *ctlregState) begin(acc string) {
	s.mu.Lock()
	s.acc = acc == "a"
	s.seen, s.fresh = nil, nil
	s.mu.Unlock()
}

// finish: collect what reached the server during the op, queue the answers, render everything
func (s *ctlregState) finish(now int64, settled bool) string {
	s.mu.Lock()
	seen := s.seen
	fresh := s.fresh
	s.seen, s.fresh = nil, nil
	sort.SliceStable(fresh, func(i, j int) bool { return fresh[i].name < fresh[j].name })
	s.queue = append(s.queue, fresh...)
	var held []int
	for n := range s.held {
		held = append(held, n)
	}
	var q []string
	for _, r := range s.queue {
		c := "e"
		if r.ok {
			c = "o"
		}
		q = append(q, fmt.Sprintf("%d+%s", r.name, c))
	}
	dead := s.srvDead
	s.mu.Unlock()
	per := map[int]string{}
	for _, e := range seen {
		n := atoi(e[1:])
		per[n] += e[:1]
		if e[0] == 'N' {
			if pw, ok := s.pm.VerifWrapper(fmt.Sprintf("p%d", n)); ok {
				s.lastSend[pw] = now
			}
		}
	}
	var names []int
	for n := range per {
		names = append(names, n)
	}
	sort.Ints(names)
	var ev []string
	for _, n := range names {
		ev = append(ev, fmt.Sprintf("%d:%s", n, per[n]))
	}
	sort.Ints(held)
	var hs []string
	for _, n := range held {
		hs = append(hs, fmt.Sprint(n))
	}
	var st []string
	for _, ws := range s.pm.GetAllProxyStatus() {
		st = append(st, strings.TrimPrefix(ws.Name, "p")+":"+phaseTok(ws.Phase))
	}
	sort.Strings(st)
	dash := func(l []string) string {
		if len(l) == 0 {
			return "-"
		}
		return strings.Join(l, ",")
	}
	out := "ev=" + dash(ev) + ";st=" + dash(st) + ";held=" + dash(hs) + ";q=" + dash(q)
	if !settled {
		out += "!UNSETTLED"
	}
	if dead {
		out += "!SESSION-LOST"
	}
	return out
}

func (s *ctlregState) load(tokens []string) ([]v1.ProxyConfigurer, error) {
	var ents []map[string]any
	for _, t := range tokens {
		f := strings.Split(t, ":")
		ents = append(ents, c19Entry(buildProxyRaw("p"+f[0], atoi(f[1]))))
	}
	ld, err := s.loader.load(ents, nil)
	if err != nil {
		return nil, err
	}
	return ld.proxies, nil
}

func (s *ctlregState) setFlags(pw *proxy.Wrapper, now int64) {
	w, e := hour, hour
	if now > s.lastSend[pw]+origWait.Milliseconds() {
		w = -hour
	}
	if now > s.lastErr[pw]+origStartErr.Milliseconds() {
		e = -hour
	}
	proxy.VerifSetTimings(hour, w, e)
}

// send writes one NewProxyResp on the server's side; WriteMsg returns when the client has read it
func (s *ctlregState) send(r ctlregReply, now int64) {
	name := fmt.Sprintf("p%d", r.name)
	pw, found := s.pm.VerifWrapper(name)
	before := ""
	if found {
		before = pw.GetStatus().Phase
	}
	m := &msg.NewProxyResp{ProxyName: name, RemoteAddr: ":1"}
	if !r.ok {
		m.Error = "E"
	}
	_ = s.srv.SetWriteDeadline(time.Now().Add(2 * time.Second))
	_ = msg.WriteMsg(s.rw, m)
	s.settle()
	if found && before == proxy.ProxyPhaseWaitStart && pw.GetStatus().Phase == proxy.ProxyPhaseStartErr {
		s.lastErr[pw] = now
	}
}

func ctlregExec(tok []string) string {
	quietOnce.Do(func() { frplog.Logger = frplog.Logger.WithOptions(golog.WithOutput(io.Discard)) })
	if !origTaken {
		origCheck, origWait, origStartErr = proxy.VerifTimings()
		origTaken = true
	}
	switch tok[0] {
	case "reset":
		ctlregSt.shutdown()
		ctlregSt = nil
		return "-"
	case "witness":
		// a fixed schedule of the ops below on a control of its own: result = status and table at its end
		if len(tok) != 2 || tok[1] != "stale" {
			return "badop"
		}
		var last string
		for _, l := range ctlregStaleSchedule {
			last = ctlregExec(strings.Fields(l))
		}
		ctlregSt.shutdown()
		ctlregSt = nil
		f := strings.Split(last, ";")
		if len(f) != 4 {
			return "infra;" + hx(last)
		}
		return f[1] + ";" + f[2]
	case "start":
		ctlregSt.shutdown()
		ctlregSt = nil
		proxy.VerifSetTimings(hour, hour, hour)
		now := int64(atoi(tok[1]))
		s := &ctlregState{held: map[int]bool{}, lastSend: map[*proxy.Wrapper]int64{}, lastErr: map[*proxy.Wrapper]int64{}}
		cfgs, err := s.load(tok[3:])
		if err != nil {
			s.loader.close()
			return "loaderr;" + hx(err.Error())
		}
		common := &v1.ClientCommonConfig{}
		common.Complete()
		common.Auth.Token = ctlregToken
		a, b := net.Pipe()
		rw, err := netpkg.NewCryptoReadWriter(b, []byte(ctlregToken))
		if err != nil {
			return "infra-crypto"
		}
		s.srv, s.rw = b, rw
		ctx, cancel := context.WithCancel(context.Background())
		s.cancel = cancel
		ctl, err := client.NewControl(ctx, &client.SessionContext{
			Common: common, RunID: "ctlreg", Conn: a, ConnEncrypted: true,
			AuthSetter: auth.NewAuthSetter(common.Auth), Connector: ctlregConnector{},
		})
		if err != nil {
			cancel()
			return "newerr;" + hx(err.Error())
		}
		s.ctl = ctl
		s.pm = (*proxy.Manager)(reflect.ValueOf(ctl).Elem().FieldByName("pm").UnsafePointer())
		ctlregSt = s
		go s.serve()
		s.begin(tok[2])
		ctl.Run(cfgs, nil)
		return s.finish(now, s.settle())
	}
	s := ctlregSt
	if s == nil {
		return "nosession"
	}
	if s.unsettled >= 2 {
		return "stuck" // something in the client never comes to rest: no further waiting on this control
	}
	switch tok[0] {
	case "upd":
		now := int64(atoi(tok[1]))
		cfgs, err := s.load(tok[3:])
		if err != nil {
			return "loaderr;" + hx(err.Error())
		}
		proxy.VerifSetTimings(hour, hour, hour)
		s.begin(tok[2])
		_ = s.ctl.UpdateAllConfigurer(cfgs, nil)
		return s.finish(now, s.settle())
	case "tick", "hup", "hdown":
		now := int64(atoi(tok[2]))
		s.begin(tok[3])
		pw, ok := s.pm.VerifWrapper("p" + tok[1])
		if !ok {
			return s.finish(now, true)
		}
		if tok[0] != "tick" && !pw.VerifHasMonitor() {
			return "nohealth"
		}
		s.setFlags(pw, now)
		switch tok[0] {
		case "tick":
			pw.VerifKick()
		case "hup":
			pw.VerifHealth(true)
		case "hdown":
			pw.VerifHealth(false)
		}
		return s.finish(now, s.settle())
	case "deliver", "dup":
		k, now := atoi(tok[1]), int64(atoi(tok[2]))
		s.begin(tok[3])
		s.mu.Lock()
		if len(s.queue) == 0 {
			s.mu.Unlock()
			return "noreply"
		}
		k %= len(s.queue) // the index wraps round the queue
		r := s.queue[k]
		if tok[0] == "deliver" {
			s.queue = append(s.queue[:k:k], s.queue[k+1:]...)
		}
		s.mu.Unlock()
		s.send(r, now)
		return s.finish(now, s.settle())
	case "drop":
		k := atoi(tok[1])
		s.begin("a")
		s.mu.Lock()
		if len(s.queue) == 0 {
			s.mu.Unlock()
			return "noreply"
		}
		k %= len(s.queue)
		s.queue = append(s.queue[:k:k], s.queue[k+1:]...)
		s.mu.Unlock()
		return s.finish(0, s.settle())
	case "forge":
		now := int64(atoi(tok[3]))
		s.begin(tok[4])
		s.send(ctlregReply{atoi(tok[1]), tok[2] == "ok"}, now)
		return s.finish(now, s.settle())
	}
	return "badop"
}

// C19.staleSchedule (Props/C19Ctl.lean): accepted; withdrawn; registered again and REFUSED; the two answers
// in order; a worker iteration long after
var ctlregStaleSchedule = []string{
	"start 0 a 1:10:1:0", "hup 1 600 a", "hdown 1 700 a", "hup 1 800 r", "deliver 0 900 a", "deliver 0 901 a", "tick 1 100000 a",
}

// ---------------------------------------------------------------- generator

// Schedules are generated as a CLASS: random interleavings of client-side events (worker iterations at
// times before / after the two deadlines, health flaps, reloads that add / remove / change / keep a proxy)
// with the server's choices (accept / refuse) and ANY delivery order of the queued answers (in order, out of
// order, twice, never, forged), plus episodes in which a second request for a name goes out while the
// first is unanswered — withdrawal and recovery, resend after the time-out, reload that removes or
// replaces the proxy — followed by the answers.
func ctlregGen(rng *rand.Rand, n int, emit func(string)) {
	type ent struct{ name, variant int }
	now := 0
	steps := []int{0, 1, 1, 500, 1000, 3000, 19999, 20001, 20001, 30001, 30001, 60000}
	adv := func() int { now += pick(rng, steps); return now }
	plainV := []int{0, 1, 2, 5, 15}
	healthV := []int{10, 11, 12}
	health := 0
	maxHealth := 8 + n/100 // every creation of a health-checked wrapper costs its worker's 500 ms start-up sleep
	variant := func() int {
		switch r := rng.Intn(20); {
		case r < 8 && health < maxHealth:
			return pick(rng, healthV)
		case r < 9 && health < maxHealth:
			return 14
		case r < 11:
			return 13
		}
		return pick(rng, plainV)
	}
	other := func(v int) int {
		h, _ := variantFlags(v)
		for {
			w := variant()
			if h && rng.Intn(3) != 0 {
				w = pick(rng, healthV)
			}
			if w != v {
				return w
			}
		}
	}
	acc := func() string {
		if rng.Intn(4) == 0 {
			return "r"
		}
		return "a"
	}
	var cur []ent
	pend := 0 // rough estimate of the number of queued answers (the generator does not follow the phases)
	render := func(l []ent) string {
		var sb strings.Builder
		creates := false
		for _, e := range l {
			h, r := variantFlags(e.variant)
			isOld := false
			for _, o := range cur {
				isOld = isOld || o == e
			}
			creates = creates || (h && !isOld)
			if !h && !isOld {
				pend++
			}
			fmt.Fprintf(&sb, " %d:%d:%d:%d", e.name, e.variant, b2i(h), b2i(r))
		}
		if creates {
			health++
		}
		cur = l
		return sb.String()
	}
	has := func(name int) int {
		for i, e := range cur {
			if e.name == name {
				return i
			}
		}
		return -1
	}
	without := func(name int) []ent {
		var l []ent
		for _, e := range cur {
			if e.name != name {
				l = append(l, e)
			}
		}
		return l
	}
	deliverSome := func(k int) {
		for ; k > 0; k-- {
			switch r := rng.Intn(10); {
			case r < 6:
				emit(fmt.Sprintf("deliver 0 %d %s", adv(), acc()))
			case r < 8:
				emit(fmt.Sprintf("dup %d %d %s", rng.Intn(3), adv(), acc()))
				pend++
			default:
				emit(fmt.Sprintf("deliver %d %d %s", 1+rng.Intn(2), adv(), acc()))
			}
			if pend > 0 {
				pend--
			}
		}
	}
	i := 0
	for i < n {
		// one control
		cur = nil
		var l []ent
		for k := 1 + rng.Intn(3); k > 0; k-- {
			name, dup := rng.Intn(4), false
			for _, e := range l {
				dup = dup || e.name == name
			}
			if !dup {
				l = append(l, ent{name, variant()})
			}
		}
		emit(fmt.Sprintf("start %d %s", adv(), acc()) + render(l))
		i++
		for steps := 12 + rng.Intn(25); steps > 0 && i < n; steps-- {
			name := rng.Intn(4)
			if len(cur) > 0 && rng.Intn(6) != 0 {
				name = cur[rng.Intn(len(cur))].name
			}
			hname := -1
			for _, e := range cur {
				if h, _ := variantFlags(e.variant); h && (hname < 0 || rng.Intn(2) == 0) {
					hname = e.name
				}
			}
			i++
			r := rng.Intn(100)
			if r >= 18 && r < 44 && pend == 0 && rng.Intn(6) != 0 {
				r = 49 + rng.Intn(51) // nothing is thought to be queued: something on the client's side instead
			}
			switch {
			case r < 7 && hname >= 0:
				// withdrawal and recovery while the request is unanswered, then the answers
				emit(fmt.Sprintf("hup %d %d %s", hname, adv(), acc()))
				pend++
				emit(fmt.Sprintf("hdown %d %d %s", hname, adv(), acc()))
				if rng.Intn(3) == 0 {
					deliverSome(1) // the answer meets the withdrawn proxy
				}
				emit(fmt.Sprintf("hup %d %d %s", hname, adv(), acc()))
				pend++
				deliverSome(1 + rng.Intn(3))
				i += 4
			case r < 13:
				// the request is repeated after the time-out, then the answers
				now += 20001
				emit(fmt.Sprintf("tick %d %d %s", name, now, acc()))
				pend++
				deliverSome(1 + rng.Intn(3))
				i += 2
			case r < 18 && has(name) >= 0:
				// a reload removes or replaces the proxy while its request may be unanswered; answers; it comes back
				old := cur[has(name)]
				if rng.Intn(2) == 0 {
					emit(fmt.Sprintf("upd %d %s", adv(), acc()) + render(without(name)))
					deliverSome(1 + rng.Intn(2))
					emit(fmt.Sprintf("upd %d %s", adv(), acc()) + render(append(without(name), ent{name, pick(rng, []int{old.variant, other(old.variant)})})))
				} else {
					emit(fmt.Sprintf("upd %d %s", adv(), acc()) + render(append(without(name), ent{name, other(old.variant)})))
				}
				deliverSome(1 + rng.Intn(3))
				i += 4
			case r < 40:
				deliverSome(1)
			case r < 44:
				emit(fmt.Sprintf("drop %d", rng.Intn(2)))
				if pend > 0 {
					pend--
				}
			case r < 49:
				emit(fmt.Sprintf("forge %d %s %d %s", rng.Intn(5), pick(rng, []string{"ok", "ok", "err"}), adv(), acc()))
			case r < 66:
				emit(fmt.Sprintf("tick %d %d %s", name, adv(), acc()))
			case r < 76 && hname >= 0:
				emit(fmt.Sprintf("hup %d %d %s", hname, adv(), acc()))
				pend++
			case r < 83 && hname >= 0:
				emit(fmt.Sprintf("hdown %d %d %s", hname, adv(), acc()))
			case r < 86:
				emit(fmt.Sprintf("%s %d %d %s", pick(rng, []string{"hup", "hdown"}), name, adv(), acc()))
			default:
				// reload: add / remove / change / keep / reorder
				next := append([]ent(nil), cur...)
				switch rng.Intn(6) {
				case 0, 1:
					if has(name) < 0 {
						next = append(next, ent{name, variant()})
					} else {
						next[has(name)].variant = other(next[has(name)].variant)
					}
				case 2:
					next = without(name)
				case 3:
					rng.Shuffle(len(next), func(a, b int) { next[a], next[b] = next[b], next[a] })
				case 4:
					if k := has(name); k >= 0 { // the name twice, the last entry is the configured one
						next = append(next, ent{name, pick(rng, []int{next[k].variant, other(next[k].variant)})})
					}
				}
				emit(fmt.Sprintf("upd %d %s", adv(), acc()) + render(next))
			}
		}
		// drain: in-order delivery of what is left
		for k := rng.Intn(4); k > 0; k-- {
			emit(fmt.Sprintf("deliver 0 %d a", adv()))
			i++
		}
	}
	emit("witness stale")
	emit("reset")
	// out-of-domain stream: ops without a control
	emit("tick 0 1 a")
	emit("deliver 0 1 a")
	emit("forge 1 ok 2 a")
	emit("upd 3 a 0:0:0:0")
}

func init() {
	register(&Engine{Name: "ctlreg", Gen: ctlregGen, Exec: ctlregExec})
}
