package main

import (
	"bufio"
	"bytes"
	"context"
	"crypto/tls"
	"fmt"
	"io"
	"net"
	"net/http"
	"strings"
	"sync"
	"time"

	v1 "github.com/fatedier/frp/pkg/config/v1"
	plugin "github.com/fatedier/frp/pkg/plugin/client"
	"github.com/fatedier/frp/pkg/transport"
)

// op of engine "http":
//
//	plug <kind h2h|h2hs|hs2h|hs2hs> <hostHeaderRewrite> <requestHeaders.set> <method> <path> <query|-> <hdrs> <body> <status> <rhdrs> <rbody>
//	   => m=<hex> t=<hex target> h=<hex Host> hd=<hdrs> fr=<..> b=<..> ! st=<code> hd=<hdrs> fr=<..> b=<..>
//
// drives the real client plugin (pkg/plugin/client/http2http.go, http2https.go, https2http.go,
// https2https.go): `Handle` gets one end of a loopback TCP pair, the harness speaks raw HTTP/1.1
// (through TLS for the https2* plugins) on the other end, the plugin's LocalAddr is the recording
// backend (behind TLS for the *2https plugins).
var httpEngTLSOnce sync.Once
var httpEngTLSCfg *tls.Config

// one self-signed certificate for all TLS backends of a run (key generation is slow)
func httpEngBackendTLS() *tls.Config {
	httpEngTLSOnce.Do(func() { httpEngTLSCfg, _ = transport.NewServerTLSConfig("", "", "") })
	return httpEngTLSCfg
}

func (st *httpEngState) doPlug(tok []string) string {
	kind, hr := tok[1], unhx(tok[2])
	sets := httpEngHdrMap(httpEngParseHdrs(tok[3]))
	method, path := tok[4], unhx(tok[5])
	hdrs := httpEngParseHdrs(tok[7])
	bkind, body := httpEngBodySpec(tok[8])
	spec := &httpEngRespSpec{status: atoi(tok[9]), hdr: httpEngParseHdrs(tok[10]), keep: false}
	spec.kind, spec.body = httpEngBodySpec(tok[11])
	st.mu.Lock()
	st.spec = spec
	st.mu.Unlock()
	st.drainSeen()

	ln, err := net.Listen("tcp", "127.0.0.1:0")
	if err != nil {
		return "listenerr"
	}
	defer ln.Close()
	go func() {
		for {
			c, err := ln.Accept()
			if err != nil {
				return
			}
			if strings.HasSuffix(kind, "2hs") {
				cfg := httpEngBackendTLS()
				if cfg == nil {
					c.Close()
					return
				}
				c = tls.Server(c, cfg)
			}
			go st.backend(0, 0, "ok", c)
		}
	}()
	ho := v1.HeaderOperations{Set: sets}
	var p plugin.Plugin
	switch kind {
	case "h2h":
		p, err = plugin.NewHTTP2HTTPPlugin(plugin.PluginContext{}, &v1.HTTP2HTTPPluginOptions{LocalAddr: ln.Addr().String(), HostHeaderRewrite: hr, RequestHeaders: ho})
	case "h2hs":
		p, err = plugin.NewHTTP2HTTPSPlugin(plugin.PluginContext{}, &v1.HTTP2HTTPSPluginOptions{LocalAddr: ln.Addr().String(), HostHeaderRewrite: hr, RequestHeaders: ho})
	case "hs2h":
		p, err = plugin.NewHTTPS2HTTPPlugin(plugin.PluginContext{}, &v1.HTTPS2HTTPPluginOptions{LocalAddr: ln.Addr().String(), HostHeaderRewrite: hr, RequestHeaders: ho})
	case "hs2hs":
		p, err = plugin.NewHTTPS2HTTPSPlugin(plugin.PluginContext{}, &v1.HTTPS2HTTPSPluginOptions{LocalAddr: ln.Addr().String(), HostHeaderRewrite: hr, RequestHeaders: ho})
	default:
		return "bad-kind"
	}
	if err != nil {
		return "pluginerr"
	}
	defer p.Close()
	a, b := httpEngPair()
	defer b.Close()
	p.Handle(context.Background(), &plugin.ConnectionInfo{Conn: a, UnderlyingConn: a, SrcAddr: &net.TCPAddr{IP: net.IPv4(10, 7, 7, 7), Port: 4242}})
	var uc net.Conn = b
	if strings.HasPrefix(kind, "hs2") {
		uc = tls.Client(b, &tls.Config{InsecureSkipVerify: true, NextProtos: []string{"http/1.1"}})
	}
	_ = uc.SetDeadline(time.Now().Add(8 * time.Second))

	target := path
	if tok[6] != "-" {
		target += "?" + unhx(tok[6])
	}
	var w bytes.Buffer
	fmt.Fprintf(&w, "%s %s HTTP/1.1\r\nHost: plug.example.com\r\n", method, target)
	for _, kv := range hdrs {
		fmt.Fprintf(&w, "%s: %s\r\n", kv[0], kv[1])
	}
	switch bkind {
	case "cl":
		fmt.Fprintf(&w, "Content-Length: %d\r\n\r\n", len(body))
		w.Write(body)
	case "ch":
		w.WriteString("Transfer-Encoding: chunked\r\n\r\n")
		httpEngWriteChunked(&w, body)
	default:
		w.WriteString("\r\n")
	}
	if _, err := uc.Write(w.Bytes()); err != nil {
		return "writeerr"
	}
	resp, err := http.ReadResponse(bufio.NewReader(uc), &http.Request{Method: method})
	if err != nil {
		return "readerr"
	}
	rb, err := io.ReadAll(resp.Body)
	resp.Body.Close()
	if err != nil {
		return "bodyerr"
	}
	seen := st.takeSeen(0)
	var sb strings.Builder
	if seen != nil {
		fmt.Fprintf(&sb, "m=%s t=%s h=%s hd=%s fr=%s b=%s", hx(seen.method), hx(seen.target), hx(seen.host),
			httpEngFmtHdr(httpEngSeenHdrMap(seen), nil), seen.fr, httpEngBodyNote(seen.body, seen.fr != "no"))
	} else {
		sb.WriteString("nobackend")
	}
	star := httpEngKnownVals(spec, seen != nil, nil)
	uh := map[string][]string(resp.Header.Clone())
	delete(uh, "Connection")
	fr := "no"
	switch {
	case len(resp.TransferEncoding) > 0:
		fr = "ch"
	case resp.ContentLength >= 0:
		fr = "cl"
	case resp.Close:
		fr = "eof"
	}
	fmt.Fprintf(&sb, " ! st=%d hd=%s fr=%s b=%s", resp.StatusCode, httpEngFmtHdr(uh, star), fr, httpEngBodyNote(rb, len(rb) > 0))
	return sb.String()
}
