package main

// Round-3 additions to engine "conf" (C18): the plugin block of a proxy definition for the client-side
// validators, configuration loads that overlap in time with different strictness (`pload`), and the loaded
// configuration handed to a real proxy.Manager (`own`).

import (
	"context"
	"encoding/json"
	"math/rand"
	"os"
	"path/filepath"
	"reflect"
	"strconv"
	"strings"
	"sync"
	"sync/atomic"
	"time"

	"github.com/fatedier/frp/client/proxy"
	"github.com/fatedier/frp/pkg/config"
	v1 "github.com/fatedier/frp/pkg/config/v1"
	"github.com/fatedier/frp/pkg/msg"
	"github.com/fatedier/frp/pkg/transport"
)

// every key of clientPluginOptionsTypeMap (pkg/config/v1/proxy_plugin.go)
var clientPluginTypes = []string{v1.PluginHTTP2HTTPS, v1.PluginHTTPProxy, v1.PluginHTTPS2HTTP, v1.PluginHTTPS2HTTPS,
	v1.PluginHTTP2HTTP, v1.PluginSocks5, v1.PluginStaticFile, v1.PluginUnixDomainSocket, v1.PluginTLS2Raw, v1.PluginVirtualNet}

// setClientPlugin builds base.Plugin the way a loaded document does: the options struct of the plugin type
// through the real TypedClientPluginOptions.UnmarshalJSON (lenient, so that an option the type does not have is
// ignored); a type the loader does not know is set in memory with no options
func setClientPlugin(base *v1.ProxyBaseConfig, plug map[string]string) {
	typ := plug["Type"]
	if typ == "" {
		return
	}
	doc := map[string]string{"type": typ}
	for k, jk := range map[string]string{"LocalAddr": "localAddr", "LocalPath": "localPath", "UnixPath": "unixPath"} {
		if plug[k] != "" {
			doc[jk] = plug[k]
		}
	}
	b, _ := json.Marshal(doc)
	unlock := setStrict(false)
	err := json.Unmarshal(b, &base.Plugin)
	unlock()
	if err != nil {
		base.Plugin = v1.TypedClientPluginOptions{Type: typ}
	}
}

// ---------------------------------------------------------------- pload: loads that overlap in time
//
//	pload <seed> <n> <rounds> <fmt>.<strict>.<level>.<pos> …   => seq=<v>,… conc=<v>,…      v = acc | rej | err | mixed
//
// One configuration load per spec: a client document of n proxies (some with a plugin block) and a few
// visitors in format fmt, loaded with strictness `strict` through the real config.LoadConfigure; `level` says
// where the document carries a key the schema does not have (none | top | proxy | plugin | visitor | vplugin),
// `pos` which of the elements of that level carries it (first | mid | last).  seq: every load on its own.
// conc: all loads started together, one goroutine each, every one repeated up to `rounds` times while the
// others run (stopped early once some load's verdict differs from the one it gave alone); a load whose
// repetitions disagree with each other is `mixed`.

type ploadSpec struct {
	format, level, pos string
	strict             bool
	doc                []byte
}

func misspell(t []kv) []kv {
	// a key of this very table, misspelt (its last letter doubled), placed last
	k := t[len(t)-1].k
	return append(append([]kv{}, t...), kv{k + k[len(k)-1:], t[len(t)-1].v})
}

func ploadDoc(rng *rand.Rand, n int, sp *ploadSpec) {
	main := []kv{{"serverAddr", "127.0.0.1"}, {"serverPort", 7000 + rng.Intn(100)}}
	if rng.Intn(2) == 0 {
		main = append(main, kv{"user", pick(rng, []string{"u", "Ünï"})})
	}
	idx := func(m int) int {
		switch sp.pos {
		case "first":
			return 0
		case "mid":
			return m / 2
		}
		return m - 1
	}
	proxies := [][]kv{}
	for i := 0; i < n; i++ {
		p := renameFirst(genProxyTree(rng, i), "p"+strconv.Itoa(i))
		withPlugin := rng.Intn(4) == 0 || (sp.level == "plugin" && i == idx(n))
		if withPlugin {
			pl := pick(rng, [][]kv{
				{{"type", "unix_domain_socket"}, {"unixPath", "/tmp/x.sock"}},
				{{"type", "http_proxy"}, {"httpUser", "u"}, {"httpPassword", "p"}},
				{{"type", "static_file"}, {"localPath", "/tmp"}, {"stripPrefix", "s"}},
				{{"type", "https2http"}, {"localAddr", "127.0.0.1:80"}, {"hostHeaderRewrite", "h"}}})
			if sp.level == "plugin" && i == idx(n) {
				pl = misspell(pl)
			}
			p = append(p, kv{"plugin", pl})
		}
		if sp.level == "proxy" && i == idx(n) {
			p = misspell(p)
		}
		proxies = append(proxies, p)
	}
	nv := 3
	visitors := [][]kv{}
	for i := 0; i < nv; i++ {
		v := renameFirst(genVisitorTree(rng, i), "v"+strconv.Itoa(i))
		if rng.Intn(3) == 0 || (sp.level == "vplugin" && i == idx(nv)) {
			pl := []kv{{"type", "virtual_net"}, {"destinationIP", "10.0.0." + strconv.Itoa(1+rng.Intn(200))}}
			if sp.level == "vplugin" && i == idx(nv) {
				pl = misspell(pl)
			}
			v = append(v, kv{"plugin", pl})
		}
		if sp.level == "visitor" && i == idx(nv) {
			v = misspell(v)
		}
		visitors = append(visitors, v)
	}
	if sp.level == "top" {
		main = misspell(main)
	}
	main = append(main, kv{"proxies", proxies}, kv{"visitors", visitors})
	sp.doc = []byte(renderDoc(main, sp.format))
}

func ploadVerdict(sp *ploadSpec) string {
	err := config.LoadConfigure(sp.doc, &v1.ClientConfig{}, sp.strict)
	switch {
	case err == nil:
		return "acc"
	case strings.Contains(err.Error(), "unknown field"):
		return "rej"
	}
	return "err"
}

func confPLoad(tok []string) string {
	rng := rand.New(rand.NewSource(int64(atoi(tok[1]))))
	n, rounds := atoi(tok[2]), atoi(tok[3])
	specs := []*ploadSpec{}
	for _, s := range tok[4:] {
		p := strings.Split(s, ".")
		sp := &ploadSpec{format: p[0], strict: p[1] == "1", level: p[2], pos: p[3]}
		ploadDoc(rng, n, sp)
		specs = append(specs, sp)
	}
	seq := make([]string, len(specs))
	for i, sp := range specs {
		seq[i] = ploadVerdict(sp)
	}
	conc := make([]string, len(specs))
	var stop atomic.Bool
	var wg sync.WaitGroup
	start := make(chan struct{})
	deadline := time.Now().Add(2 * time.Second)
	for i, sp := range specs {
		wg.Add(1)
		go func(i int, sp *ploadSpec) {
			defer wg.Done()
			<-start
			for r := 0; r < rounds; r++ {
				if r > 0 && (stop.Load() || time.Now().After(deadline)) {
					return
				}
				v := ploadVerdict(sp)
				if conc[i] == "" {
					conc[i] = v
				} else if conc[i] != v {
					conc[i] = "mixed"
				}
				if v != seq[i] {
					stop.Store(true)
				}
			}
		}(i, sp)
	}
	close(start)
	wg.Wait()
	return "seq=" + strings.Join(seq, ",") + " conc=" + strings.Join(conc, ",")
}

var ploadLevels = []string{"none", "top", "proxy", "plugin", "visitor", "vplugin"}

func genPLoad(rng *rand.Rand) string {
	n := pick(rng, []int{30, 80, 160, 300})
	out := []string{"pload", strconv.Itoa(rng.Intn(1 << 30)), strconv.Itoa(n), strconv.Itoa(5 + rng.Intn(5))}
	k := 2 + rng.Intn(4)
	for i := 0; i < k; i++ {
		strict := rng.Intn(2)
		if i < 2 && rng.Intn(4) != 0 {
			strict = i // usually both kinds of load are present
		}
		level := pick(rng, ploadLevels)
		if rng.Intn(2) == 0 {
			level = pick(rng, ploadLevels[2:]) // below the top level
		}
		out = append(out, pick(rng, []string{"json", "toml", "yaml", "json"})+"."+strconv.Itoa(strict)+"."+level+"."+
			pick(rng, []string{"first", "mid", "last", "last"}))
	}
	return strings.Join(out, " ")
}

// ---------------------------------------------------------------- own: the loaded configuration belongs to the loader
//
//	own <seed> <fmt>   => same idem kept | differ … | notidem … | mutated …
//
// A client document (proxies of every type with health-check and plugin blocks left partly to their defaults,
// visitors) is written to disk and loaded twice by the real LoadClientConfig:
//	same   the two results are deeply equal;
//	idem   applying Complete once more (empty user) to the second result changes nothing — proxies always,
//	       visitors without serverUser (theorems proxy_complete_idem / visitor_complete_idem);
//	kept   the first result is handed to a real client proxy.Manager (UpdateAll: wrappers, proxies, health
//	       monitors are created and started), and afterwards is still deeply equal to the second one.

func genOwnTree(rng *rand.Rand) []kv {
	main := []kv{{"serverAddr", "127.0.0.1"}, {"serverPort", 7000 + rng.Intn(100)}}
	if rng.Intn(2) == 0 {
		main = append(main, kv{"user", pick(rng, []string{"u", "Ünï"})})
	}
	proxies := [][]kv{}
	for i := 0; i < 2+rng.Intn(4); i++ {
		p := renameFirst(genProxyTree(rng, i), "p"+strconv.Itoa(i))
		for j := range p {
			if p[j].k == "localPort" {
				p[j].v = pick(rng, []int{0, 1, 39001 + rng.Intn(50)})
			}
		}
		switch rng.Intn(5) {
		case 0, 1, 2:
			hc := []kv{{"type", pick(rng, []string{"tcp", "tcp", "http"})}}
			if hc[0].v == "http" {
				hc = append(hc, kv{"path", "/health"})
			}
			for _, k := range []string{"intervalSeconds", "timeoutSeconds", "maxFailed"} {
				if rng.Intn(2) == 0 {
					hc = append(hc, kv{k, pick(rng, []int{1, 3, 10, 60, -1})})
				}
			}
			p = append(p, kv{"healthCheck", hc})
		case 3:
			p = append(p, kv{"plugin", pick(rng, [][]kv{
				{{"type", "unix_domain_socket"}, {"unixPath", "/tmp/frpverif-none.sock"}},
				{{"type", "http_proxy"}},
				{{"type", "socks5"}, {"username", "u"}, {"password", "p"}},
				{{"type", "https2http"}, {"localAddr", "127.0.0.1:1"}}})})
		}
		proxies = append(proxies, p)
	}
	visitors := [][]kv{}
	for i := 0; i < rng.Intn(3); i++ {
		visitors = append(visitors, renameFirst(genVisitorTree(rng, i), "v"+strconv.Itoa(i)))
	}
	main = append(main, kv{"proxies", proxies})
	if len(visitors) > 0 {
		main = append(main, kv{"visitors", visitors})
	}
	return main
}

func jsonOf(v any) string { b, _ := json.Marshal(v); return string(b) }

func confOwn(tok []string) string {
	rng := rand.New(rand.NewSource(int64(atoi(tok[1]))))
	path := filepath.Join(confTmp(), "own."+tok[2])
	if err := os.WriteFile(path, []byte(renderDoc(genOwnTree(rng), tok[2])), 0o644); err != nil {
		panic(err)
	}
	cA, pA, vA, _, errA := config.LoadClientConfig(path, true)
	_, pB, vB, _, errB := config.LoadClientConfig(path, true)
	if errA != nil || errB != nil {
		return "differ err"
	}
	if !reflect.DeepEqual(pA, pB) || !reflect.DeepEqual(vA, vB) {
		return "differ"
	}
	res := "same"
	// Complete once more on the second result
	for i, p := range pB {
		before := jsonOf(p)
		p.Complete("")
		if !reflect.DeepEqual(p, pA[i]) {
			return res + " notidem " + hx(before) + " " + hx(jsonOf(p))
		}
	}
	for i, v := range vB {
		if v.GetBaseConfig().ServerUser != "" {
			continue
		}
		before := jsonOf(v)
		v.Complete(&v1.ClientCommonConfig{})
		if !reflect.DeepEqual(v, vA[i]) {
			return res + " notidem " + hx(before) + " " + hx(jsonOf(v))
		}
	}
	res += " idem"
	// hand the first result to a real proxy manager
	ctx, cancel := context.WithCancel(context.Background())
	ch := make(chan msg.Message, 4096)
	pm := proxy.NewManager(ctx, cA, transport.NewMessageTransporter(ch), nil)
	pm.UpdateAll(pA)
	pm.Close()
	cancel()
	for i := range pA {
		if !reflect.DeepEqual(pA[i], pB[i]) {
			return res + " mutated " + hx(jsonOf(pB[i])) + " " + hx(jsonOf(pA[i]))
		}
	}
	return res + " kept"
}
