package main

// Engine "httpgrp" (property C02): EVERY DECLARED ROUTE OPTION x {no group, first member of a load-balancing group,
// later member}.  Real vhost.Routers + vhost.HTTPReverseProxy behind a real http.Server (the world of engine "http":
// recording raw HTTP/1.1 backends, raw user connections) + the real group.HTTPGroupController on the same Routers —
// the two registration paths of server/proxy/http.go (HTTPProxy.Run).
//
//	reset
//	reg <id> <group|-> <groupKey> <domain> <loc> <routeUser> <rewriteHost> <hdrs> <rhdrs> <httpUser> <httpPassword>
//	      group "-": HTTPReverseProxy.Register(rc); else HTTPGroupController.Register("p<id>", group, groupKey, rc)
//	   => ok | conflict | params | auth | repeated
//	unreg <id>                                  => -
//	req <the 13 fields of engine http's req> <password|->   => as engine http's req (a 401 shows as be=- … ! st=401 …)
//	      the Authorization header (Basic routeUser-or-httpUser : password) is one of the request's header lines
//
// be=<id> names the member whose CreateConnFn served the request.

import (
	"encoding/base64"
	"errors"
	"fmt"
	"math/rand"
	"net"
	"net/http"
	"sort"
	"strings"

	"github.com/fatedier/frp/pkg/util/vhost"
	"github.com/fatedier/frp/server/group"
)

type httpGrpReg struct {
	grp string
	rc  vhost.RouteConfig
	rv  map[string]string
}

type httpGrpWorld struct {
	st      *httpEngState
	ctl     *group.HTTPGroupController
	regs    map[int]*httpGrpReg
	members map[string][]int
}

var httpGrp *httpGrpWorld

func httpGrpReset() {
	if httpGrp != nil {
		httpGrp.st.shutdown()
	}
	st, routers := httpEngNew()
	httpGrp = &httpGrpWorld{st: st, ctl: group.NewHTTPGroupController(routers), regs: map[int]*httpGrpReg{}, members: map[string][]int{}}
}

func httpGrpExec(tok []string) string {
	if httpGrp == nil {
		httpGrpReset()
	}
	w := httpGrp
	st := w.st
	switch tok[0] {
	case "reset":
		httpGrpReset()
		return "-"
	case "reg":
		id := atoi(tok[1])
		grp := ""
		if tok[2] != "-" {
			grp = unhx(tok[2])
		}
		d, l, u := unhx(tok[4]), unhx(tok[5]), unhx(tok[6])
		rc := vhost.RouteConfig{
			Domain: d, Location: l, RouteByHTTPUser: u, RewriteHost: unhx(tok[7]),
			Headers: httpEngHdrMap(httpEngParseHdrs(tok[8])), ResponseHeaders: httpEngHdrMap(httpEngParseHdrs(tok[9])),
			Username: unhx(tok[10]), Password: unhx(tok[11]),
			CreateConnFn: func(string) (net.Conn, error) {
				a, b := httpEngPair()
				st.mu.Lock()
				st.connSeq++
				n := st.connSeq
				st.conns = append(st.conns, b)
				st.mu.Unlock()
				go st.backend(id, n, "ok", b)
				return a, nil
			},
		}
		rv := map[string]string{}
		for _, kv := range httpEngParseHdrs(tok[9]) {
			rv[http.CanonicalHeaderKey(kv[0])] = kv[1]
		}
		var err error
		if grp == "" {
			err = st.rp.Register(rc)
		} else {
			err = w.ctl.Register(fmt.Sprintf("p%d", id), grp, unhx(tok[3]), rc)
		}
		switch {
		case err == nil:
		case errors.Is(err, group.ErrGroupParamsInvalid):
			return "params"
		case errors.Is(err, group.ErrGroupAuthFailed):
			return "auth"
		case errors.Is(err, group.ErrProxyRepeated):
			return "repeated"
		default:
			return "conflict"
		}
		w.regs[id] = &httpGrpReg{grp: grp, rc: rc, rv: rv}
		if grp == "" || len(w.members[grp]) == 0 {
			st.routes[st.routeKey(d, l, u)] = httpEngRoute{id: id, domain: d, loc: l, usr: u, respVals: rv}
		}
		if grp != "" {
			w.members[grp] = append(w.members[grp], id)
		}
		return "ok"
	case "unreg":
		id := atoi(tok[1])
		r := w.regs[id]
		if r == nil {
			return "-"
		}
		delete(w.regs, id)
		key := st.routeKey(r.rc.Domain, r.rc.Location, r.rc.RouteByHTTPUser)
		if r.grp == "" {
			st.rp.UnRegister(r.rc)
			delete(st.routes, key)
			return "-"
		}
		w.ctl.UnRegister(fmt.Sprintf("p%d", id), r.grp, r.rc)
		var rest []int
		for _, m := range w.members[r.grp] {
			if m != id {
				rest = append(rest, m)
			}
		}
		w.members[r.grp] = rest
		if len(rest) == 0 {
			delete(st.routes, key)
		}
		return "-"
	case "req":
		return st.doReq(tok)
	}
	return "bad-op"
}

// ---- generator ----

type httpGrpOpts struct {
	d, l, u, rw string
	hs, rhs     [][2]string
	usr, pw     string
}

type httpGrpGenReg struct {
	id  int
	grp string
	o   httpGrpOpts
}

func httpGrpGen(rng *rand.Rand, n int, emit func(string)) {
	emit("reset")
	id := 0
	live := map[int]httpGrpGenReg{}       // registrations that succeeded
	groups := map[string][]int{}          // group -> live members in order
	gopts := map[string]httpGrpOpts{}     // group -> the options its members declare
	gkeys := map[string]string{}
	routeOwner := map[string]string{} // route key -> "p<id>" | "g:<group>"
	key := func(o httpGrpOpts) string { return strings.ToLower(o.d) + "\x00" + o.l + "\x00" + o.u }
	domains := []string{"g1.example.com", "g2.example.com", "plain.example.com", "*.grp.example.org", "G3.Example.com"}
	newOpts := func() httpGrpOpts {
		o := httpGrpOpts{d: pick(rng, domains), l: pick(rng, []string{"", "", "/api", "/api/v2"}), u: pick(rng, []string{"", "", "", "alice"})}
		// every option on its own, all together, none
		switch rng.Intn(8) {
		case 0:
		case 1:
			o.rw = pick(rng, []string{"internal.local", "rw.example.org:8080"})
		case 2:
			o.hs = httpGenPickSome(rng, httpGenCfgHdrs, 3, true)
		case 3:
			o.rhs = httpGenPickSome(rng, httpGenCfgRespHdrs, 2, true)
		case 4:
			o.usr, o.pw = "bob", "secret"
		default:
			o.rw = pick(rng, []string{"", "internal.local", "rw.example.org:8080", "Internal.Service.Local"})
			o.hs = httpGenPickSome(rng, httpGenCfgHdrs, 3, true)
			o.rhs = httpGenPickSome(rng, httpGenCfgRespHdrs, 2, true)
			if rng.Intn(3) == 0 {
				o.usr, o.pw = pick(rng, []string{"bob", ""}), pick(rng, []string{"secret", "p:w"})
			}
		}
		if o.u != "" && o.usr != "" {
			o.usr = o.u // the routing user is the Basic user: other credentials could never be presented
		}
		return o
	}
	regLine := func(id int, grp, gk string, o httpGrpOpts) string {
		g := "-"
		if grp != "" {
			g = hx(grp)
		}
		return fmt.Sprintf("reg %d %s %s %s %s %s %s %s %s %s %s", id, g, hx(gk), hx(o.d), hx(o.l), hx(o.u), hx(o.rw),
			httpGenHdrTok(o.hs), httpGenHdrTok(o.rhs), hx(o.usr), hx(o.pw))
	}
	liveIDs := func() []int {
		ids := make([]int, 0, len(live))
		for k := range live {
			ids = append(ids, k)
		}
		sort.Ints(ids)
		return ids
	}
	for i := 0; i < n; i++ {
		switch k := rng.Intn(100); {
		case k < 1:
			emit("reset")
			live, groups, gopts, gkeys, routeOwner = map[int]httpGrpGenReg{}, map[string][]int{}, map[string]httpGrpOpts{}, map[string]string{}, map[string]string{}
		case k < 8: // a proxy without group
			id++
			o := newOpts()
			emit(regLine(id, "", "", o))
			if _, taken := routeOwner[key(o)]; !taken {
				routeOwner[key(o)] = fmt.Sprintf("p%d", id)
				live[id] = httpGrpGenReg{id, "", o}
			}
		case k < 22: // a member of a group: a new group or one more member for an existing one
			id++
			g := pick(rng, []string{"web", "api", "blue", "green"})
			if len(groups[g]) == 0 {
				o := newOpts()
				gk := pick(rng, []string{"", "k1", "key two"})
				emit(regLine(id, g, gk, o))
				if _, taken := routeOwner[key(o)]; !taken {
					routeOwner[key(o)] = "g:" + g
					groups[g], gopts[g], gkeys[g] = []int{id}, o, gk
					live[id] = httpGrpGenReg{id, g, o}
				}
				continue
			}
			o, gk := gopts[g], gkeys[g]
			switch rng.Intn(12) {
			case 0:
				gk += "x" // wrong key
			case 1:
				o.d = "other." + o.d // another domain under the same group name
			case 2:
				o.pw += "!" // other credentials
			}
			emit(regLine(id, g, gk, o))
			if gk == gkeys[g] && key(o) == key(gopts[g]) && o.pw == gopts[g].pw {
				groups[g] = append(groups[g], id)
				live[id] = httpGrpGenReg{id, g, o}
			}
		case k < 30:
			ids := liveIDs()
			if len(ids) == 0 {
				continue
			}
			x := ids[rng.Intn(len(ids))]
			r := live[x]
			if r.grp != "" && rng.Intn(2) == 0 {
				x = groups[r.grp][0] // the member that registered first leaves, the group goes on
				r = live[x]
			}
			emit(fmt.Sprintf("unreg %d", x))
			delete(live, x)
			if r.grp == "" {
				delete(routeOwner, key(r.o))
				continue
			}
			var rest []int
			for _, m := range groups[r.grp] {
				if m != x {
					rest = append(rest, m)
				}
			}
			groups[r.grp] = rest
			if len(rest) == 0 {
				delete(routeOwner, key(r.o))
				delete(groups, r.grp)
			}
		default: // a request: mostly for a live route, with the credentials it needs (sometimes wrong / missing ones)
			o := httpGrpOpts{d: pick(rng, domains)}
			if ids := liveIDs(); len(ids) > 0 && rng.Intn(8) != 0 {
				o = live[ids[rng.Intn(len(ids))]].o
			}
			user, pw := o.u, ""
			if o.usr != "" || o.pw != "" {
				user, pw = o.usr, o.pw
				switch rng.Intn(10) {
				case 0:
					pw += "x"
				case 1:
					user, pw = "", ""
				}
			} else if user != "" {
				pw = "pw"
			}
			if o.u != "" && rng.Intn(6) == 0 {
				user = "" // no routing user: another route or none
			}
			hdrs := httpGenPickSome(rng, httpGenReqHdrs, 4, false)
			if user != "" || pw != "" {
				hdrs = append(hdrs, [2]string{"Authorization", "Basic " + b64std(user+":"+pw)})
			}
			method := pick(rng, httpGenMethods)
			body := "-"
			switch method {
			case "POST", "PUT", "PATCH", "DELETE":
				body = httpGenBody(rng, []string{"-", "cl", "cl", "ch", "ch"})
			}
			path := strings.TrimSuffix(o.l, "/") + pick(rng, []string{"/", "/", "/x", "/b%20c", "/%41b", ""})
			if path == "" {
				path = "/"
			}
			if rng.Intn(10) == 0 {
				path = pick(rng, httpGenPaths)
			}
			query := pick(rng, []string{"-", "-", "x=1&y=2", "q=a%20b+c", ""})
			q := "-"
			if query != "-" {
				q = hx(query)
			}
			st := pick(rng, httpGenStatus)
			rb := httpGenBody(rng, []string{"-", "cl", "cl", "ch", "eof"})
			if st == 204 || st == 304 {
				rb = "-"
			}
			keep := "1"
			if rng.Intn(5) == 0 || strings.HasPrefix(rb, "eof") {
				keep = "0"
			}
			uq, pq := "-", "-"
			if user != "" || pw != "" {
				uq, pq = hx(user), hx(pw)
			}
			form := "o"
			if rng.Intn(10) == 0 {
				form = "a"
			}
			emit(fmt.Sprintf("req %d %s %s %s %s %s %s %s %s %d %s %s %s %s", rng.Intn(3), form, method, hx(httpGenHost(rng, o.d)), hx(path), q, uq,
				httpGenHdrTok(hdrs), body, st, httpGenHdrTok(httpGenPickSome(rng, httpGenRespHdrs, 3, false)), rb, keep, pq))
		}
	}
}

func init() { register(&Engine{Name: "httpgrp", Gen: httpGrpGen, Exec: httpGrpExec}) }

func b64std(s string) string { return base64.StdEncoding.EncodeToString([]byte(s)) }
