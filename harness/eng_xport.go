package main

import (
	"bufio"
	"context"
	"fmt"
	"io"
	"math/rand"
	"net"
	"net/http"
	"os"
	"runtime"
	"sort"
	"strconv"
	"strings"
	"sync"
	"sync/atomic"
	"time"

	"github.com/fatedier/frp/pkg/auth"
	v1 "github.com/fatedier/frp/pkg/config/v1"
	"github.com/fatedier/frp/pkg/msg"
	plugin "github.com/fatedier/frp/pkg/plugin/server"
	frplog "github.com/fatedier/frp/pkg/util/log"
	"github.com/fatedier/frp/pkg/util/vhost"
	"github.com/fatedier/frp/server"
	"github.com/fatedier/frp/server/controller"
	"github.com/fatedier/frp/server/group"
	"github.com/fatedier/frp/server/ports"
	"github.com/fatedier/frp/server/proxy"
	"github.com/fatedier/frp/server/visitor"
)

// Engine "xport" (property C10, "wrapped transports"): the work connections of http and udp proxies.
// Real server.Control sessions on a hand-assembled ResourceController; a real http.Server in front of the
// real vhost.HTTPReverseProxy; real UDP proxies on server-chosen ports.  The harness is frpc: it answers
// every ReqWorkConn on the control connection with a loopback TCP work connection (registered through
// Control.RegisterWorkConn), reads StartWorkConn, builds the stack the client side uses for the proxy's
// options and plays the backend.  frps' end of every work connection is a net.Conn that COUNTS the
// Close() calls reaching it — the "transport" node of the close graph.
//
//	reset
//	reg <sid> <name> http|udp <enc> <comp> <lim>      => ok | err:exists | err:other:<hex>
//	      http: custom domain <name>.test; udp: remotePort 0; lim = bandwidthLimit 100MB, mode server
//	req <name> <mode>                                 => st=<code|->;c=<class|->
//	      one HTTP exchange for host <name>.test; how it ends:
//	      cl      response with Content-Length and `Connection: close`        (http.Transport closes)
//	      eof     response delimited by the backend closing its end
//	      ka      keep-alive response, then the backend closes the idle connection
//	      ws      101 upgrade, echo, the user leaves                          (ReverseProxy's upgrade copier closes)
//	      connect CONNECT, echo, the user leaves                              (io.Join closes, twice)
//	      abort   the backend never answers, the user leaves                  (request cancelled)
//	      c = what reached frps' end of the work connection within the bounded wait:
//	          0 never closed | 1 exactly once | n more than once | + closed (stack without close-once wrapper)
//	udpx <name>                                       => got=<0|1> | none      datagram echoed through the work connection
//	drop <name>                                       => c=<class>;next=<0|1> | none
//	      frpc closes its end of the udp proxy's current work connection; frps must close its end and take a new one
//	close <sid> <name>                                => -
//	endsess <sid>                                     => - | TIMEOUT
//	census      => <name>=<class|cur>,…;…;idle=<n>    every work connection ever handed to a proxy, per proxy in
//	               order; cur = the live udp proxy's current one; idle = pooled connections of ended sessions still open
const xpToken = "c10-token"

type xpConn struct {
	net.Conn
	closes   int32
	closedCh chan struct{}
	once     sync.Once
}

func (c *xpConn) Close() error {
	if xpDebug {
		buf := make([]byte, 4096)
		fmt.Fprintf(os.Stderr, "CLOSE %p %s\n", c, buf[:runtime.Stack(buf, false)])
	}
	atomic.AddInt32(&c.closes, 1)
	c.once.Do(func() { close(c.closedCh) })
	return c.Conn.Close()
}

type xpWork struct {
	ctl     *server.Control
	srv     *xpConn
	cli     net.Conn
	started bool
	ended   bool // its session ended
	gotReq  chan struct{}
	done    chan struct{}
}

type xpPxy struct {
	sid             int
	kind            string
	enc, comp, lim  bool
	port            int
	live            bool
	regAt           time.Time // when the current registration succeeded
	ready           bool      // the current work connection carried a datagram (it is attached: pxy.workConn is set)
	conns           []*xpWork // started for this name, oldest first
	firstOfThisLife int       // len(conns) when the current registration succeeded
}

type xpState struct {
	cfg     *v1.ServerConfig
	rc      *controller.ResourceController
	pm      *proxy.Manager
	ctls    map[int]*server.Control
	readers map[int]chan struct{}
	pipes   []net.Conn
	httpLn  net.Listener
	httpSrv *http.Server
	wln     net.Listener
	pairMu  sync.Mutex

	mu         sync.Mutex
	evt        chan struct{}
	pxys       map[string]*xpPxy
	works      []*xpWork
	strays     int // late work connections of closed udp proxies (see frpcWork)
	strayWorks []*xpWork
	holdStrays bool
}

var xpSt *xpState

// XP_DEBUG=1: stack of every Close() reaching a work connection, of every expired wait, late work connections
var xpDebug = os.Getenv("XP_DEBUG") != ""

// once a bounded wait has expired in this process, later ones are short (a tree that leaks connections
// must not make the run last minutes); on a tree that closes its connections no wait ever expires
var xpExpired int32

func xpExpire() {
	if xpDebug {
		buf := make([]byte, 2048)
		fmt.Fprintf(os.Stderr, "EXPIRED %s\n", buf[:runtime.Stack(buf, false)])
	}
	atomic.StoreInt32(&xpExpired, 1)
}

func xpWaitBudget() time.Duration {
	if atomic.LoadInt32(&xpExpired) != 0 {
		return 150 * time.Millisecond
	}
	return 1500 * time.Millisecond
}

func (st *xpState) signal() { // st.mu held
	close(st.evt)
	st.evt = make(chan struct{})
}

// waitFor: event-driven bounded wait for a predicate over the state (evaluated under st.mu)
func (st *xpState) waitFor(d time.Duration, pred func() bool) bool {
	t := time.NewTimer(d)
	defer t.Stop()
	for {
		st.mu.Lock()
		if pred() {
			st.mu.Unlock()
			return true
		}
		ch := st.evt
		st.mu.Unlock()
		select {
		case <-ch:
		case <-t.C:
			xpExpire()
			return false
		}
	}
}

// waitQuiet: like waitFor, but an expiry is an expected outcome (nothing had to happen)
func (st *xpState) waitQuiet(d time.Duration, pred func() bool) bool {
	t := time.NewTimer(d)
	defer t.Stop()
	for {
		st.mu.Lock()
		if pred() {
			st.mu.Unlock()
			return true
		}
		ch := st.evt
		st.mu.Unlock()
		select {
		case <-ch:
		case <-t.C:
			return false
		}
	}
}

func xpWaitClosed(w *xpWork, deadline time.Time) {
	d := time.Until(deadline)
	if d <= 0 {
		d = time.Millisecond
	}
	select {
	case <-w.srv.closedCh:
	case <-time.After(d):
		xpExpire()
	}
}

func xpClose() {
	if xpSt == nil {
		return
	}
	st := xpSt
	for _, c := range st.ctls {
		c.Close()
	}
	for _, c := range st.pipes {
		c.Close()
	}
	for _, c := range st.ctls {
		done := make(chan struct{})
		go func(c *server.Control) { c.WaitClosed(); close(done) }(c)
		select {
		case <-done:
		case <-time.After(3 * time.Second):
		}
	}
	st.httpSrv.Close()
	st.httpLn.Close()
	st.wln.Close()
	st.mu.Lock()
	ws := st.works
	st.mu.Unlock()
	for _, w := range ws {
		w.cli.Close()
		w.srv.Conn.Close()
	}
	xpSt = nil
}

var xpLogOnce sync.Once

func xpReset() {
	xpClose()
	// a work connection arriving for a session that has just ended makes frps log a recovered panic (error level)
	xpLogOnce.Do(func() { frplog.InitLogger(os.DevNull, "error", 0, true) })
	st := &xpState{ctls: map[int]*server.Control{}, readers: map[int]chan struct{}{}, pxys: map[string]*xpPxy{},
		evt: make(chan struct{})}
	cfg := &v1.ServerConfig{}
	cfg.Complete()
	cfg.ProxyBindAddr = "127.0.0.1"
	cfg.Auth.Token = xpToken
	cfg.UserConnTimeout = 2
	st.cfg = cfg
	routers := vhost.NewRouters()
	tcpPM := ports.NewManager("tcp", cfg.ProxyBindAddr, cfg.AllowPorts)
	st.rc = &controller.ResourceController{
		VisitorManager:   visitor.NewManager(),
		TCPPortManager:   tcpPM,
		UDPPortManager:   ports.NewManager("udp", cfg.ProxyBindAddr, cfg.AllowPorts),
		TCPGroupCtl:      group.NewTCPGroupCtl(tcpPM),
		HTTPGroupCtl:     group.NewHTTPGroupController(routers),
		HTTPReverseProxy: vhost.NewHTTPReverseProxy(vhost.HTTPReverseProxyOptions{ResponseHeaderTimeoutS: 5}, routers),
		PluginManager:    plugin.NewManager(),
	}
	st.pm = proxy.NewManager()
	var err error
	if st.httpLn, err = net.Listen("tcp", "127.0.0.1:0"); err != nil {
		panic(err)
	}
	cfg.VhostHTTPPort = st.httpLn.Addr().(*net.TCPAddr).Port
	st.httpSrv = &http.Server{Handler: st.rc.HTTPReverseProxy, ReadHeaderTimeout: 10 * time.Second}
	go func() { _ = st.httpSrv.Serve(st.httpLn) }()
	if st.wln, err = net.Listen("tcp", "127.0.0.1:0"); err != nil {
		panic(err)
	}
	xpSt = st
}

// a loopback TCP work connection: (frps' end, frpc's end)
func (st *xpState) pair() (net.Conn, net.Conn, error) {
	st.pairMu.Lock() // one dial / accept at a time: the accepted connection is the one just dialled
	defer st.pairMu.Unlock()
	type acc struct {
		c   net.Conn
		err error
	}
	ch := make(chan acc, 1)
	go func() { c, err := st.wln.Accept(); ch <- acc{c, err} }()
	cli, err := net.DialTimeout("tcp", st.wln.Addr().String(), 2*time.Second)
	if err != nil {
		return nil, nil, err
	}
	a := <-ch
	if a.err != nil {
		cli.Close()
		return nil, nil, a.err
	}
	return a.c, cli, nil
}

func (st *xpState) ctl(sid int) *server.Control {
	if c, ok := st.ctls[sid]; ok {
		return c
	}
	a, b := net.Pipe()
	st.pipes = append(st.pipes, a, b)
	login := &msg.Login{RunID: "run" + strconv.Itoa(sid), User: "u" + strconv.Itoa(sid)}
	c, err := server.NewControl(context.Background(), st.rc, st.pm, st.rc.PluginManager,
		auth.NewAuthVerifier(st.cfg.Auth), a, false, login, st.cfg)
	if err != nil {
		panic(err)
	}
	done := make(chan struct{})
	// frpc's control loop: every ReqWorkConn is answered with a new work connection
	go func() {
		defer close(done)
		for {
			m, err := msg.ReadMsg(b)
			if err != nil {
				return
			}
			if _, ok := m.(*msg.ReqWorkConn); !ok {
				continue
			}
			srv, cli, err := st.pair()
			if err != nil {
				continue
			}
			w := &xpWork{ctl: c, srv: &xpConn{Conn: srv, closedCh: make(chan struct{})}, cli: cli,
				gotReq: make(chan struct{}), done: make(chan struct{})}
			st.mu.Lock()
			st.works = append(st.works, w)
			st.mu.Unlock()
			go st.frpcWork(w)
			// Service.handleConnection: a work connection the Control refuses is closed by the service
			if err := c.RegisterWorkConn(w.srv); err != nil {
				w.srv.Close()
			}
		}
	}()
	c.Start()
	st.ctls[sid] = c
	st.readers[sid] = done
	return c
}

// frpc's end of one work connection
func (st *xpState) frpcWork(w *xpWork) {
	defer close(w.done)
	defer w.cli.Close()
	var m msg.StartWorkConn
	if err := msg.ReadMsgInto(w.cli, &m); err != nil {
		return // closed while pooled
	}
	st.mu.Lock()
	p := st.pxys[m.ProxyName]
	if p == nil || !p.live {
		// frpc does not have the proxy (any more): it closes the connection, as client/proxy.Manager.HandleWorkConn does
		hold := false
		if p != nil && p.kind == "udp" {
			st.strays++
			st.strayWorks = append(st.strayWorks, w)
			hold = st.holdStrays
			st.signal()
		}
		st.mu.Unlock()
		if hold {
			// `closerace` is judging: leave it to frps to close the connection it has no proxy for
			select {
			case <-w.srv.closedCh:
			case <-time.After(400 * time.Millisecond):
			}
		}
		return
	}
	if p.kind == "udp" && time.Since(p.regAt) < 400*time.Millisecond {
		// A udp proxy takes its first work connection 500 ms after Run.  One that arrives earlier was taken by an
		// EARLIER registration of the name whose Close raced its own reader goroutine (the reader's
		// `checkCloseCh <- 1` can win against `close(checkCloseCh)` in UDPProxy.Close: the loop of Run then takes
		// one more work connection for the already closed proxy and leaves it to its 60 s read deadline).
		// frpc closes it, like any work connection it has no use for.
		st.strays++
		st.signal()
		st.mu.Unlock()
		return
	}
	w.started = true
	p.conns = append(p.conns, w)
	if xpDebug {
		fmt.Fprintf(os.Stderr, "START %p %s\n", w.srv, m.ProxyName)
	}
	enc, comp, kind := p.enc, p.comp, p.kind
	st.signal()
	st.mu.Unlock()
	rwc := stkMirror(w.cli, enc, comp, xpToken)
	if kind == "udp" {
		for {
			in, err := msg.ReadMsg(rwc)
			if err != nil {
				return
			}
			if pkt, ok := in.(*msg.UDPPacket); ok {
				if err := msg.WriteMsg(rwc, pkt); err != nil {
					return
				}
			}
		}
	}
	br := bufio.NewReader(rwc)
	req, err := http.ReadRequest(br)
	if err != nil {
		return
	}
	mode := req.Header.Get("X-Mode")
	if req.Method == http.MethodConnect {
		mode = "connect"
	}
	close(w.gotReq)
	untilEOF := func() { _, _ = io.Copy(io.Discard, br) }
	echo := func() {
		buf := make([]byte, 4096)
		for {
			n, err := br.Read(buf)
			if n > 0 {
				if _, werr := rwc.Write(buf[:n]); werr != nil {
					return
				}
			}
			if err != nil {
				return
			}
		}
	}
	switch mode {
	case "cl":
		_, _ = io.WriteString(rwc, "HTTP/1.1 200 OK\r\nContent-Length: 2\r\nConnection: close\r\n\r\nok")
		untilEOF()
	case "eof":
		_, _ = io.WriteString(rwc, "HTTP/1.1 200 OK\r\nConnection: close\r\n\r\nok")
		_ = rwc.Close()
	case "ka":
		_, _ = io.WriteString(rwc, "HTTP/1.1 200 OK\r\nContent-Length: 2\r\n\r\nok")
		_ = rwc.Close()
	case "ws":
		_, _ = io.WriteString(rwc, "HTTP/1.1 101 Switching Protocols\r\nUpgrade: websocket\r\nConnection: Upgrade\r\n\r\n")
		echo()
	case "connect":
		_, _ = io.WriteString(rwc, "HTTP/1.1 200 OK\r\n\r\n")
		echo()
	default: // abort: never answers
		untilEOF()
	}
}

func xpBit(t string) bool { return t == "1" }

// what reached frps' end of the connection (after the caller's bounded wait)
func xpClass(w *xpWork, guarded bool) string {
	n := atomic.LoadInt32(&w.srv.closes)
	switch {
	case n == 0:
		return "0"
	case !guarded:
		return "+"
	case n == 1:
		return "1"
	}
	return "n"
}

func (p *xpPxy) guarded() bool { return p.kind == "http" || p.enc || p.comp || p.lim }

// one datagram through the proxy and back (the frpc end echoes); a datagram may be dropped while the sender
// goroutine is not attached yet: a few tries inside the bound
func xpEcho(port int, tag string) bool {
	uc, err := net.DialUDP("udp", nil, &net.UDPAddr{IP: net.IPv4(127, 0, 0, 1), Port: port})
	if err != nil {
		return false
	}
	defer uc.Close()
	payload := []byte("c10-" + tag)
	buf := make([]byte, 256)
	budget := xpWaitBudget()
	for try := 0; try < 6; try++ {
		_, _ = uc.Write(payload)
		_ = uc.SetReadDeadline(time.Now().Add(budget / 6))
		if n, err := uc.Read(buf); err == nil && string(buf[:n]) == string(payload) {
			return true
		}
	}
	xpExpire()
	return false
}

// A live udp proxy takes its first work connection 500 ms after Run (fixed sleep in UDPProxy.Run), and
// `pxy.workConn` is assigned a moment after StartWorkConn was written: every op that depends on the proxy's
// current connection first waits until it was started AND carried a datagram (sender goroutine running,
// i.e. the hand-over is complete).
func (st *xpState) awaitUDP(sel func(name string, p *xpPxy) bool) {
	st.waitFor(xpWaitBudget()+500*time.Millisecond, func() bool {
		for name, p := range st.pxys {
			if p.live && p.kind == "udp" && sel(name, p) && len(p.conns) <= p.firstOfThisLife {
				return false
			}
		}
		return true
	})
	type probe struct {
		p    *xpPxy
		port int
		name string
	}
	todo := []probe{}
	st.mu.Lock()
	for name, p := range st.pxys {
		if p.live && p.kind == "udp" && sel(name, p) && !p.ready && len(p.conns) > p.firstOfThisLife {
			todo = append(todo, probe{p, p.port, name})
		}
	}
	st.mu.Unlock()
	sort.Slice(todo, func(i, j int) bool { return todo[i].name < todo[j].name })
	for _, t := range todo {
		if xpEcho(t.port, "probe") {
			st.mu.Lock()
			t.p.ready = true
			st.mu.Unlock()
		}
	}
}

func (st *xpState) req(name, mode string) string {
	st.mu.Lock()
	p := st.pxys[name]
	before := 0
	if p != nil {
		before = len(p.conns)
	}
	st.mu.Unlock()
	user, err := net.DialTimeout("tcp", st.httpLn.Addr().String(), 2*time.Second)
	if err != nil {
		return "dial"
	}
	defer user.Close()
	_ = user.SetDeadline(time.Now().Add(4 * time.Second))
	host := name + ".test"
	switch mode {
	case "connect":
		fmt.Fprintf(user, "CONNECT %s:80 HTTP/1.1\r\nHost: %s:80\r\n\r\n", host, host)
	case "ws":
		fmt.Fprintf(user, "GET / HTTP/1.1\r\nHost: %s\r\nConnection: Upgrade\r\nUpgrade: websocket\r\nX-Mode: ws\r\n\r\n", host)
	default:
		fmt.Fprintf(user, "GET / HTTP/1.1\r\nHost: %s\r\nX-Mode: %s\r\n\r\n", host, mode)
	}
	br := bufio.NewReader(user)
	type rr struct {
		resp *http.Response
		err  error
	}
	respCh := make(chan rr, 1)
	go func() { r, err := http.ReadResponse(br, nil); respCh <- rr{r, err} }()
	newConn := func() *xpWork {
		st.mu.Lock()
		defer st.mu.Unlock()
		if p != nil && len(p.conns) > before {
			return p.conns[before]
		}
		return nil
	}
	status := "-"
	if mode == "abort" {
		// leave as soon as the backend has the request (or the server answered by itself)
		t := time.NewTimer(3 * time.Second)
		defer t.Stop()
	loop:
		for {
			st.mu.Lock()
			ch := st.evt
			st.mu.Unlock()
			var got chan struct{}
			if w := newConn(); w != nil {
				got = w.gotReq
			}
			select {
			case r := <-respCh:
				if r.err == nil {
					status = strconv.Itoa(r.resp.StatusCode)
				}
				break loop
			case <-got:
				break loop
			case <-ch:
			case <-t.C:
				break loop
			}
		}
		user.Close()
	} else {
		r := <-respCh
		if r.err == nil {
			status = strconv.Itoa(r.resp.StatusCode)
			switch mode {
			case "ws", "connect":
				if r.resp.StatusCode == 101 || (mode == "connect" && r.resp.StatusCode == 200) {
					_, _ = io.WriteString(user, "ping")
					buf := make([]byte, 4)
					if _, err := io.ReadFull(br, buf); err != nil || string(buf) != "ping" {
						status += "!"
					}
				}
			default:
				_, _ = io.Copy(io.Discard, r.resp.Body)
			}
		}
		user.Close()
	}
	w := newConn()
	if w == nil {
		return "st=" + status + ";c=-"
	}
	xpWaitClosed(w, time.Now().Add(xpWaitBudget()))
	return "st=" + status + ";c=" + xpClass(w, true)
}

func (st *xpState) census() string {
	st.awaitUDP(func(string, *xpPxy) bool { return true })
	deadline := time.Now().Add(xpWaitBudget())
	st.mu.Lock()
	names := []string{}
	for n, p := range st.pxys {
		if len(p.conns) > 0 {
			names = append(names, n)
		}
	}
	sort.Strings(names)
	type row struct {
		name string
		p    *xpPxy
		ws   []*xpWork
		live bool
	}
	rows := []row{}
	for _, n := range names {
		p := st.pxys[n]
		rows = append(rows, row{n, p, append([]*xpWork(nil), p.conns...), p.live && p.kind == "udp"})
	}
	pool := []*xpWork{}
	for _, w := range st.works {
		if w.ended && !w.started {
			pool = append(pool, w)
		}
	}
	st.mu.Unlock()
	out := []string{}
	for _, r := range rows {
		cs := []string{}
		for i, w := range r.ws {
			if r.live && i == len(r.ws)-1 && atomic.LoadInt32(&w.srv.closes) == 0 {
				cs = append(cs, "cur")
				continue
			}
			xpWaitClosed(w, deadline)
			cs = append(cs, xpClass(w, r.p.guardedAt(w)))
		}
		out = append(out, r.name+"="+strings.Join(cs, ","))
	}
	idle := 0
	for _, w := range pool {
		xpWaitClosed(w, deadline)
		if atomic.LoadInt32(&w.srv.closes) == 0 {
			idle++
		}
	}
	if xpDebug {
		st.mu.Lock()
		fmt.Fprintf(os.Stderr, "STRAYS %d\n", st.strays)
		st.mu.Unlock()
	}
	out = append(out, "idle="+strconv.Itoa(idle))
	return strings.Join(out, ";")
}

// the options a connection was started under are those of the registration alive at that time; the
// generator keeps a name's options fixed between resets, so the proxy's current options apply
func (p *xpPxy) guardedAt(*xpWork) bool { return p.guarded() }

func xpExec(tok []string) string {
	if tok[0] == "reset" {
		xpReset()
		return "-"
	}
	if xpSt == nil {
		xpReset()
	}
	st := xpSt
	switch tok[0] {
	case "reg":
		sid, name, kind := atoi(tok[1]), tok[2], tok[3]
		enc, comp, lim := xpBit(tok[4]), xpBit(tok[5]), xpBit(tok[6])
		m := &msg.NewProxy{ProxyName: name, ProxyType: kind, UseEncryption: enc, UseCompression: comp}
		if lim {
			m.BandwidthLimit, m.BandwidthLimitMode = "100MB", "server"
		}
		if kind == "http" {
			m.CustomDomains = []string{name + ".test"}
		}
		remote, err := st.ctl(sid).RegisterProxy(m)
		if err != nil {
			s := err.Error()
			if strings.Contains(s, "already exists") || strings.Contains(s, "already in use") {
				return "err:exists"
			}
			return "err:other:" + hx(s)
		}
		port := 0
		if kind == "udp" {
			port = atoi(strings.TrimPrefix(remote, ":"))
		}
		st.mu.Lock()
		old := st.pxys[name]
		p := &xpPxy{sid: sid, kind: kind, enc: enc, comp: comp, lim: lim, port: port, live: true, regAt: time.Now()}
		if old != nil {
			p.conns = old.conns
			p.firstOfThisLife = len(old.conns)
		}
		st.pxys[name] = p
		st.mu.Unlock()
		return "ok"
	case "req":
		return st.req(tok[1], tok[2])
	case "udpx":
		name := tok[1]
		st.awaitUDP(func(n string, _ *xpPxy) bool { return n == name })
		st.mu.Lock()
		p := st.pxys[name]
		ok := p != nil && p.live && p.kind == "udp"
		port := 0
		if ok {
			port = p.port
		}
		st.mu.Unlock()
		if !ok {
			return "none"
		}
		if xpEcho(port, "ping-"+name) {
			return "got=1"
		}
		return "got=0"
	case "drop":
		name := tok[1]
		st.awaitUDP(func(n string, _ *xpPxy) bool { return n == name })
		st.mu.Lock()
		p := st.pxys[name]
		var cur *xpWork
		before := 0
		if p != nil && p.live && p.kind == "udp" && len(p.conns) > p.firstOfThisLife {
			cur = p.conns[len(p.conns)-1]
			before = len(p.conns)
		}
		st.mu.Unlock()
		if cur == nil {
			return "none"
		}
		st.mu.Lock()
		p.ready = false
		st.mu.Unlock()
		cur.cli.Close()
		next := st.waitFor(xpWaitBudget(), func() bool { return len(p.conns) > before })
		xpWaitClosed(cur, time.Now().Add(xpWaitBudget()))
		if next {
			st.awaitUDP(func(n string, _ *xpPxy) bool { return n == name })
		}
		return fmt.Sprintf("c=%s;next=%d", xpClass(cur, p.guarded()), stkBit(next))
	case "close":
		sid, name := atoi(tok[1]), tok[2]
		st.awaitUDP(func(n string, p *xpPxy) bool { return n == name && p.sid == sid })
		// frpc removes the proxy from its own table, then sends CloseProxy
		st.mu.Lock()
		if p := st.pxys[name]; p != nil && p.sid == sid {
			p.live = false
		}
		st.mu.Unlock()
		_ = st.ctl(sid).CloseProxy(&msg.CloseProxy{ProxyName: name})
		return "-"
	case "endsess":
		sid := atoi(tok[1])
		c, ok := st.ctls[sid]
		if !ok {
			return "-"
		}
		st.awaitUDP(func(_ string, p *xpPxy) bool { return p.sid == sid })
		c.Close()
		done := make(chan struct{})
		go func() { c.WaitClosed(); close(done) }()
		res := "-"
		select {
		case <-done:
		case <-time.After(3 * time.Second):
			res = "TIMEOUT"
		}
		select {
		case <-st.readers[sid]:
		case <-time.After(2 * time.Second):
		}
		delete(st.ctls, sid)
		delete(st.readers, sid)
		st.mu.Lock()
		for _, p := range st.pxys {
			if p.sid == sid {
				p.live = false
			}
		}
		for _, w := range st.works {
			if w.ctl == c {
				w.ended = true
			}
		}
		st.mu.Unlock()
		return res
	case "census":
		return st.census()
	case "closerace":
		// k udp proxies of a session of their own are registered, attached, and explicitly closed (the frpc end
		// keeps their work connections open): does frps take a work connection for a proxy it has closed?
		k := atoi(tok[1])
		const sid = 9
		names := []string{}
		for i := 0; i < k; i++ {
			name := "race" + strconv.Itoa(i+1)
			if xpExec([]string{"reg", strconv.Itoa(sid), name, "udp", "0", "0", "0"}) == "ok" {
				names = append(names, name)
			}
		}
		st.awaitUDP(func(_ string, p *xpPxy) bool { return p.sid == sid })
		st.mu.Lock()
		before := len(st.strayWorks)
		st.holdStrays = true
		st.mu.Unlock()
		for _, name := range names {
			xpExec([]string{"close", strconv.Itoa(sid), name})
		}
		// a late work connection shows up within milliseconds of the close (none ever on a tree that does not take
		// one); frps must close it at once, since it has no proxy for it
		late := false
		st.waitQuiet(250*time.Millisecond, func() bool { return len(st.strayWorks) > before })
		st.mu.Lock()
		strays := append([]*xpWork(nil), st.strayWorks[before:]...)
		st.mu.Unlock()
		for _, w := range strays {
			select {
			case <-w.srv.closedCh:
			case <-time.After(250 * time.Millisecond):
				late = true
			}
			if late {
				break
			}
		}
		st.mu.Lock()
		st.holdStrays = false
		st.mu.Unlock()
		xpExec([]string{"endsess", strconv.Itoa(sid)})
		st.mu.Lock()
		for _, name := range names {
			delete(st.pxys, name)
		}
		st.mu.Unlock()
		if late {
			return "late=+"
		}
		return "late=0"
	}
	return "bad-op"
}

// Generator.  A scenario: a few http / udp proxies of two sessions over all option combinations (server-side
// limit in about half of them), then exchanges in every ending mode, datagrams, dropped udp work connections,
// closes by the owner and by a foreign session, re-registrations of closed names, session ends, and a census;
// at the end both sessions end and the census is taken again.  A name keeps its kind and options between resets.
func xpGen(rng *rand.Rand, n int, emit func(string)) {
	count := 0
	out := func(s string) { emit(s); count++ }
	modes := []string{"cl", "eof", "ka", "ws", "connect", "abort"}
	for count < n {
		out("reset")
		type px struct {
			name, kind     string
			enc, comp, lim int
			sid            int
			live           bool
		}
		pool := []*px{}
		nh, nu := 1+rng.Intn(3), 1+rng.Intn(2)
		for i := 0; i < nh+nu; i++ {
			p := &px{kind: "http", enc: rng.Intn(2), comp: rng.Intn(2), lim: rng.Intn(2), sid: 1 + rng.Intn(2)}
			p.name = "h" + strconv.Itoa(i+1)
			if i >= nh {
				p.kind, p.name = "udp", "u"+strconv.Itoa(i-nh+1)
			}
			pool = append(pool, p)
		}
		reg := func(p *px, sid int) {
			out(fmt.Sprintf("reg %d %s %s %d %d %d", sid, p.name, p.kind, p.enc, p.comp, p.lim))
			if !p.live {
				p.live, p.sid = true, sid
			}
		}
		for _, p := range pool {
			reg(p, p.sid)
		}
		endsess := func(sid int) {
			out(fmt.Sprintf("endsess %d", sid))
			for _, p := range pool {
				if p.sid == sid {
					p.live = false
				}
			}
		}
		// mostly a live proxy of the wanted kind; sometimes any (closed, ended, other kind: 404 / none)
		want := func(kind string) *px {
			cands := []*px{}
			for _, p := range pool {
				if p.kind == kind && p.live {
					cands = append(cands, p)
				}
			}
			if len(cands) == 0 || rng.Intn(7) == 0 {
				return pick(rng, pool)
			}
			return pick(rng, cands)
		}
		steps := 8 + rng.Intn(8)
		for i := 0; i < steps; i++ {
			k := rng.Intn(100)
			switch {
			case k < 42:
				out(fmt.Sprintf("req %s %s", want("http").name, pick(rng, modes)))
			case k < 50:
				out("udpx " + want("udp").name)
			case k < 66:
				out("drop " + want("udp").name)
			case k < 78:
				p := pick(rng, pool)
				sid := p.sid
				if rng.Intn(5) == 0 {
					sid = 3 - sid
				}
				out(fmt.Sprintf("close %d %s", sid, p.name))
				if sid == p.sid {
					p.live = false
				}
			case k < 90:
				reg(pick(rng, pool), 1+rng.Intn(2)) // duplicate of a live name, or the identical registration after a close
			case k < 94:
				endsess(1 + rng.Intn(2))
			default:
				out("census")
			}
		}
		out("census")
		endsess(1)
		endsess(2)
		out("census")
	}
	out("reset")
}

// engine "xprace": the same executor, one op — the explicit-close race of UDPProxy (kept apart so that the
// runner's confirmation re-runs of a known finding stay short)
func xpRaceGen(rng *rand.Rand, n int, emit func(string)) {
	emit("reset")
	for i := 0; i < n; i++ {
		emit("closerace " + strconv.Itoa(6+rng.Intn(5)))
	}
	emit("census")
	emit("reset")
}

func init() {
	register(&Engine{Name: "xport", Gen: xpGen, Exec: xpExec})
	register(&Engine{Name: "xprace", Gen: xpRaceGen, Exec: xpExec})
}
