package main

import (
	"bufio"
	"fmt"
	"io"
	"net"
	"net/http"
	"strings"

	"golang.org/x/net/http2"
)

// Engine "vreg" (property C06), connection part: client connections to a real http.Server in front of the
// ResourceController's HTTPReverseProxy — HTTP/1.1 keep-alive, h2c by upgrade, h2c with prior knowledge — whose
// requests / streams are interleaved with Run / Close of real proxies (plain and grouped, routeByHTTPUser next to
// unrestricted ones).  As for hreq the answer is the proxy instance that was asked for a work connection.
//
//	hopen <cid> <k|u|p> <name> <dot> <port|-> <path> <user>  => <h1|h2>:<id|none|many:…> | pri | dead | cut
//	hnext <cid> <name> <dot> <port|-> <path> <user>          => <h1|h2>:<id|none|many:…> | gone | cut | badpath
//	hshut <cid>                                              => -
type vregConns struct {
	srv   *http.Server
	ln    net.Listener
	conns map[string]*rcConn
}

func (st *vregState) front() string {
	if st.cn.srv == nil {
		ln, err := net.Listen("tcp", "127.0.0.1:0")
		if err != nil {
			panic(err)
		}
		st.cn.ln = ln
		st.cn.srv = &http.Server{Handler: st.rc.HTTPReverseProxy}
		go func(s *http.Server) { _ = s.Serve(ln) }(st.cn.srv)
	}
	return st.cn.ln.Addr().String()
}

func (st *vregState) closeConns() {
	for id, c := range st.cn.conns {
		c.c.Close()
		delete(st.cn.conns, id)
	}
	if st.cn.srv != nil {
		st.cn.srv.Close()
	}
}

// <proto>:<whatever the client saw> → <proto>:<who was asked for a work connection>
func (st *vregState) connAnswer(r string) string {
	if strings.HasPrefix(r, "h1:") || strings.HasPrefix(r, "h2:") {
		return r[:3] + st.answer()
	}
	return r
}

func vregConnExec(st *vregState, tok []string) (string, bool) {
	switch tok[0] {
	case "hopen":
		if len(tok) != 8 {
			return "bad-op", true
		}
		if old := st.cn.conns[tok[1]]; old != nil {
			old.c.Close()
			delete(st.cn.conns, tok[1])
		}
		if !strings.HasPrefix(unhx(tok[6]), "/") && tok[2] != "p" {
			return "badpath", true
		}
		c, err := net.DialTimeout("tcp", st.front(), rcWait)
		if err != nil {
			return "dialerr", true
		}
		cn := &rcConn{c: c, br: bufio.NewReader(c), form: tok[2]}
		st.clearHits()
		var r string
		if cn.form == "p" {
			if _, err := io.WriteString(c, http2.ClientPreface); err != nil {
				c.Close()
				return "cut", true
			}
			if b, err := cn.br.Peek(5); err != nil || string(b) == "HTTP/" {
				c.Close()
				return "dead", true
			}
			cn.h2 = newHah2Client(c, cn.br)
			cn.nextID = 1
			_ = cn.h2.fr.WriteSettings(http2.Setting{ID: http2.SettingInitialWindowSize, Val: 1 << 30})
			_ = cn.h2.fr.WriteWindowUpdate(0, 1<<30)
			if !cn.h2.pump(func() bool { return cn.h2.gotSet }) {
				c.Close()
				return "dead", true
			}
			r = "pri"
		} else {
			r = cn.h1(routerSpell(tok[3], tok[4], tok[5]), unhx(tok[6]), unhx(tok[7]), cn.form == "u")
		}
		if r == "cut" {
			c.Close()
			return r, true
		}
		st.cn.conns[tok[1]] = cn
		return st.connAnswer(r), true
	case "hnext":
		if len(tok) != 7 {
			return "bad-op", true
		}
		cn := st.cn.conns[tok[1]]
		if cn == nil {
			return "gone", true
		}
		host, path, user := routerSpell(tok[2], tok[3], tok[4]), unhx(tok[5]), unhx(tok[6])
		if !strings.HasPrefix(path, "/") {
			return "badpath", true
		}
		st.clearHits()
		var r string
		if cn.h2 != nil {
			r = cn.stream(host, path, user)
		} else {
			r = cn.h1(host, path, user, cn.form == "u")
		}
		if r == "cut" {
			cn.c.Close()
			delete(st.cn.conns, tok[1])
		}
		return st.connAnswer(r), true
	case "hshut":
		if cn := st.cn.conns[tok[1]]; cn != nil {
			cn.c.Close()
			delete(st.cn.conns, tok[1])
		}
		return "-", true
	}
	return "", false
}

// ---- generator

// "hreq a b c d e" → the same request as a connection op; the request target is written on the wire: it starts with "/"
func vregConnLine(op string, cid int, form string, hreq string) string {
	f := strings.Fields(hreq)
	if p := unhx(f[4]); !strings.HasPrefix(p, "/") {
		f[4] = hx("/" + p)
	}
	if form != "" {
		form += " "
	}
	return fmt.Sprintf("%s %d %s%s", op, cid, form, strings.Join(f[1:], " "))
}

func vregHreqs(lines []string) []string {
	out := []string{}
	for _, l := range lines {
		if strings.HasPrefix(l, "hreq ") {
			out = append(out, l)
		}
	}
	return out
}

// episode: a connection aimed at a live http proxy; then requests on it — the same again, with another user, aimed
// at other live proxies, remembered probes — alternating with proxies that start (a sibling restricted to a user / a
// group member / anything) or close (the one the connection was opened through, another one)
func (g *vregGenState) connEpisode() {
	rng := g.rng
	https := []int{}
	for j, q := range g.live {
		if q.typ == "http" {
			https = append(https, j)
		}
	}
	if len(https) == 0 {
		return
	}
	j := pick(rng, https)
	p := g.live[j]
	first := vregHreqs(g.aimed(p, 4))
	if len(first) == 0 {
		nm, dot, port := genSpelling(rng, pick(rng, vregReqs))
		first = []string{"hreq " + hx(nm) + " " + dot + " " + port + " " + hx(genPath(rng)) + " " + hx(pick(rng, vregUsers))}
	}
	g.cid++
	cid := g.cid
	g.emit(vregConnLine("hopen", cid, pick(rng, []string{"u", "u", "u", "k", "p"}), first[0]))
	last := first[0]
	for k, m := 0, 1+rng.Intn(5); k < m; k++ {
		switch rng.Intn(6) {
		case 0: // the proxy the connection was opened through closes (and may come back as a new instance)
			for i, q := range g.live {
				if q.id == p.id {
					g.stop(i)
					if rng.Intn(2) == 0 {
						g.start(p)
						p = g.live[len(g.live)-1]
					}
					break
				}
			}
		case 1: // a sibling: the same routes restricted to another user / unrestricted
			s := p
			s.name = hx(fmt.Sprintf("p%d", 1+rng.Intn(5)))
			s.user = hx(pick(rng, vregUsers))
			s.grp, s.gkey = hx(""), hx("")
			g.start(s)
		case 2:
			g.start(g.newPx("http"))
		}
		next := last
		switch r := rng.Intn(8); {
		case r < 2:
		case r < 4: // the same host and path, another user
			f := strings.Fields(last)
			f[5] = hx(pick(rng, vregUsers))
			next = strings.Join(f, " ")
		case r < 6 && len(g.live) > 0:
			if hs := vregHreqs(g.aimed(pick(rng, g.live), 3)); len(hs) > 0 {
				next = hs[0]
			}
		default:
			if hs := vregHreqs(g.probes); len(hs) > 0 {
				next = pick(rng, hs)
			}
		}
		g.emit(vregConnLine("hnext", cid, "", next))
		last = next
	}
	g.emit(fmt.Sprintf("hshut %d", cid))
}
